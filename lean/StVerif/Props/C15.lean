/-
  C15 — decoders accept exactly the valid encodings and never overrun the output buffer.
  Property theorems only; helper lemmas live in Lemmas/Codec*.lean.
-/
import StVerif.Lemmas.CodecDecode

namespace StVerif.Props.C15
open StVerif StVerif.Codec StVerif.Lemmas.Codec
open StVerif.Spec

/-! ## hex -/

/-- what the caller-buffer hex decoder does on every text and every `output_size` -/
theorem hexDecodeInto_spec (txt : List Nat) (h : Bytes txt) (cap : Nat) :
    (Rfc4648.hexValid txt = true ∧ txt.length / 2 ≤ cap →
      ∃ out, hexDecodeInto txt (some cap) = { writes := out, ret := ((txt.length / 2 : Nat) : Int) } ∧ out.length = txt.length / 2) ∧
    (¬ (Rfc4648.hexValid txt = true ∧ txt.length / 2 ≤ cap) →
      ∃ w, hexDecodeInto txt (some cap) = { writes := w, ret := -1 } ∧ w.length ≤ cap) := by
  unfold hexDecodeInto Rfc4648.hexValid
  by_cases hl : txt.length % 2 = 0
  · have h2 : txt.length = 2 * (txt.length / 2) := by omega
    simp only [hl, ne_eq, not_true_eq_false, if_false, beq_self_eq_true, Bool.true_and]
    rw [← hexOk_iff_all_digits txt h]
    by_cases hc : txt.length / 2 > cap
    · simp only [hc, if_true]
      exact ⟨fun ⟨_, h'⟩ => by omega, fun _ => ⟨[], rfl, by simp⟩⟩
    · simp only [hc, if_false]
      by_cases hok : hexOk txt = true
      · rw [hexLoop_ok _ txt [] h2 hok]
        refine ⟨fun _ => ⟨_, by simp, hexDecPairs_length _ txt h2⟩, fun hn => absurd ⟨hok, by omega⟩ hn⟩
      · have hbad : hexOk txt = false := by simpa using hok
        obtain ⟨w, hw, hwl⟩ := hexLoop_bad _ txt [] h2 hbad
        refine ⟨fun ⟨h', _⟩ => absurd h' hok, fun _ => ⟨w, hw, by simp at hwl; omega⟩⟩
  · simp only [hl, ne_eq, not_false_eq_true, if_true]
    refine ⟨fun ⟨h', _⟩ => ?_, fun _ => ⟨[], rfl, by simp⟩⟩
    simp only [Bool.and_eq_true, beq_iff_eq] at h'
    exact absurd h'.1 hl

/-- the caller-buffer form never writes more than `output_size` bytes -/
theorem hexDecodeInto_writes_le (txt : List Nat) (h : Bytes txt) (cap : Nat) :
    (hexDecodeInto txt (some cap)).writes.length ≤ cap := by
  have hs := hexDecodeInto_spec txt h cap
  by_cases hv : Rfc4648.hexValid txt = true ∧ txt.length / 2 ≤ cap
  · obtain ⟨out, he, hl⟩ := hs.1 hv; rw [he]; simp only; omega
  · obtain ⟨w, he, hl⟩ := hs.2 hv; rw [he]; exact hl

/-- null output: the decoded length implied by the input's length, −1 for an odd length -/
theorem hexDecode_null_query (txt : List Nat) :
    hexDecodeInto txt none = { writes := [], ret := if txt.length % 2 = 0 then ((txt.length / 2 : Nat) : Int) else -1 } := by
  unfold hexDecodeInto
  by_cases hl : txt.length % 2 = 0 <;> simp [hl]

/-- the allocating form succeeds exactly on valid text and otherwise throws `codec_error`
    (in particular its length assertion is unreachable) -/
theorem hexDecodeAlloc_accepts_iff (txt : List Nat) (h : Bytes txt) :
    (Rfc4648.hexValid txt = true → ∃ out, hexDecodeAlloc txt = .ok out ∧ out.length = txt.length / 2 ∧
        hexDecodeInto txt (some (txt.length / 2)) = { writes := out, ret := ((txt.length / 2 : Nat) : Int) }) ∧
    (Rfc4648.hexValid txt = false → hexDecodeAlloc txt = .throw .codecError) := by
  have hs := hexDecodeInto_spec txt h (txt.length / 2)
  constructor
  · intro hv
    obtain ⟨out, he, hl⟩ := hs.1 ⟨hv, Nat.le_refl _⟩
    have hl2 : txt.length % 2 = 0 := by
      simp only [Rfc4648.hexValid, Bool.and_eq_true, beq_iff_eq] at hv; exact hv.1
    refine ⟨out, ?_, hl, he⟩
    unfold hexDecodeAlloc
    simp [hl2, he]; omega
  · intro hv
    unfold hexDecodeAlloc
    by_cases hl2 : txt.length % 2 = 0
    · obtain ⟨w, he, _⟩ := hs.2 (by simp [hv])
      simp [hl2, he]
    · simp [hl2]

/-! ## base64 -/

theorem b64_bad_length (txt : List Nat) (h : txt.length % 4 ≠ 0) : b64DecodeSize txt = -1 := by
  unfold b64DecodeSize; simp [h]

theorem b64_empty : b64DecodeSize [] = 0 := by decide

/-- what the caller-buffer base64 decoder does on every text and every `output_size` -/
theorem b64DecodeInto_spec (txt : List Nat) (h : Bytes txt) (cap : Nat) :
    (Rfc4648.b64Valid txt = true ∧ Rfc4648.b64DecodedLength txt ≤ cap →
      ∃ out, b64DecodeInto txt (some cap) = { writes := out, ret := ((Rfc4648.b64DecodedLength txt : Nat) : Int) } ∧
        out.length = Rfc4648.b64DecodedLength txt) ∧
    (¬ (Rfc4648.b64Valid txt = true ∧ Rfc4648.b64DecodedLength txt ≤ cap) →
      ∃ w, b64DecodeInto txt (some cap) = { writes := w, ret := -1 } ∧ w.length ≤ cap) := by
  by_cases hl : txt.length % 4 = 0
  · by_cases he : txt = []
    · subst he
      refine ⟨fun _ => ⟨[], rfl, rfl⟩, fun hn => absurd ⟨by decide, by simp [Rfc4648.b64DecodedLength, Rfc4648.padCount]⟩ hn⟩
    · have hpos : txt.length ≠ 0 := fun h0 => he (List.eq_nil_of_length_eq_zero h0)
      obtain ⟨body, c0, c1, c2, c3, rfl, hb⟩ := split_last4 txt (txt.length / 4 - 1) (by omega)
      generalize hm : (body ++ [c0, c1, c2, c3]).length / 4 - 1 = m at hb
      have hacc := accept_iff_valid body c0 c1 c2 c3 m hb h
      by_cases hv : Rfc4648.b64Valid (body ++ [c0, c1, c2, c3]) = true
      · have hdl := decodedLength_split body c0 c1 c2 c3 m hb hv h
        rw [hv, Bool.and_eq_true] at hacc
        rw [hdl]
        by_cases hc : 3 * m + 3 - eqCount c2 c3 ≤ cap
        · refine ⟨fun _ => ⟨_, b64Into_ok body c0 c1 c2 c3 m cap hb hc hacc.1 hacc.2, ?_⟩, fun hn => absurd ⟨hv, hc⟩ hn⟩
          have := finalBytes_length c0 c1 c2 c3
          have := decBody_length m body hb
          have := eqCount_le c2 c3
          simp only [List.length_append]; omega
        · refine ⟨fun ⟨_, h'⟩ => absurd h' hc, fun _ => ⟨[], b64Into_too_small body c0 c1 c2 c3 m cap hb (by omega), by simp⟩⟩
      · refine ⟨fun ⟨h', _⟩ => absurd h' hv, fun _ => ?_⟩
        have hv' : Rfc4648.b64Valid (body ++ [c0, c1, c2, c3]) = false := by simpa using hv
        rw [hv'] at hacc
        by_cases hc : 3 * m + 3 - eqCount c2 c3 ≤ cap
        · obtain ⟨w, hw, hwl⟩ := b64Into_bad body c0 c1 c2 c3 m cap hb hc hacc
          exact ⟨w, hw, by omega⟩
        · exact ⟨[], b64Into_too_small body c0 c1 c2 c3 m cap hb (by omega), by simp⟩
  · refine ⟨fun ⟨h', _⟩ => ?_, fun _ => ⟨[], ?_, by simp⟩⟩
    · simp only [Rfc4648.b64Valid, Bool.and_eq_true, beq_iff_eq] at h'; exact absurd h'.1 hl
    · unfold b64DecodeInto; simp [b64_bad_length txt hl]

/-- the caller-buffer form never writes more than `output_size` bytes -/
theorem b64DecodeInto_writes_le (txt : List Nat) (h : Bytes txt) (cap : Nat) :
    (b64DecodeInto txt (some cap)).writes.length ≤ cap := by
  have hs := b64DecodeInto_spec txt h cap
  by_cases hv : Rfc4648.b64Valid txt = true ∧ Rfc4648.b64DecodedLength txt ≤ cap
  · obtain ⟨out, he, hl⟩ := hs.1 hv; rw [he]; simp only; omega
  · obtain ⟨w, he, hl⟩ := hs.2 hv; rw [he]; exact hl

/-- null output: −1 for a length that is not a multiple of four, otherwise the length implied by the
    input's length and its trailing `=` -/
theorem b64Decode_null_query (txt : List Nat) :
    b64DecodeInto txt none =
      { writes := [], ret := if txt.length % 4 = 0 then ((Rfc4648.b64SizeQuery txt : Nat) : Int) else -1 } := by
  unfold b64DecodeInto
  by_cases hl : txt.length % 4 = 0
  · by_cases he : txt = []
    · subst he; decide
    · have hpos : txt.length ≠ 0 := fun h0 => he (List.eq_nil_of_length_eq_zero h0)
      obtain ⟨body, c0, c1, c2, c3, rfl, hb⟩ := split_last4 txt (txt.length / 4 - 1) (by omega)
      generalize hm : (body ++ [c0, c1, c2, c3]).length / 4 - 1 = m at hb
      simp only [b64DecodeSize_split body c0 c1 c2 c3 m hb, hl, if_true]
      congr 2
      have g := getD_last body c0 c1 c2 c3
      have hlen : (body ++ [c0, c1, c2, c3]).length = body.length + 4 := by simp
      unfold Rfc4648.b64SizeQuery eqCount
      simp only [hlen]
      have e1 : body.length + 4 - 1 = body.length + 3 := by omega
      have e2 : body.length + 4 - 2 = body.length + 2 := by omega
      rw [e1, e2, g.1, g.2]
      have hd : (body.length + 4) / 4 * 3 = 3 * m + 3 := by omega
      rw [hd]
      simp only [eqSign]
      by_cases q3 : c3 = 61 <;> by_cases q2 : c2 = 61 <;> simp [q3, q2] <;> omega
  · simp [b64_bad_length txt hl, hl]

/-- on valid text the size query is the RFC length (so the loose reading of the query on
    invalid text, used by the correspondence check, coincides with the strict one where it matters) -/
theorem sizeQuery_eq_decodedLength (txt : List Nat) (hv : Rfc4648.b64Valid txt = true) (h : Bytes txt) :
    Rfc4648.b64SizeQuery txt = Rfc4648.b64DecodedLength txt := by
  have hl : txt.length % 4 = 0 := by
    simp only [Rfc4648.b64Valid, Bool.and_eq_true, beq_iff_eq] at hv; exact hv.1
  have hs := (b64DecodeInto_spec txt h (Rfc4648.b64DecodedLength txt)).1 ⟨hv, Nat.le_refl _⟩
  by_cases he : txt = []
  · subst he; decide
  · have hpos : txt.length ≠ 0 := fun h0 => he (List.eq_nil_of_length_eq_zero h0)
    obtain ⟨body, c0, c1, c2, c3, rfl, hb⟩ := split_last4 txt (txt.length / 4 - 1) (by omega)
    generalize hm : (body ++ [c0, c1, c2, c3]).length / 4 - 1 = m at hb
    rw [decodedLength_split body c0 c1 c2 c3 m hb hv h]
    have hq := b64Decode_null_query (body ++ [c0, c1, c2, c3])
    unfold b64DecodeInto at hq
    simp only [b64DecodeSize_split body c0 c1 c2 c3 m hb, hl, if_true] at hq
    have := congrArg DecRes.ret hq
    simp only at this
    omega

/-- the allocating form succeeds exactly on valid text and otherwise throws `codec_error`
    (in particular its length assertion is unreachable) -/
theorem b64DecodeAlloc_accepts_iff (txt : List Nat) (h : Bytes txt) :
    (Rfc4648.b64Valid txt = true → ∃ out, b64DecodeAlloc txt = .ok out ∧ out.length = Rfc4648.b64DecodedLength txt) ∧
    (Rfc4648.b64Valid txt = false → b64DecodeAlloc txt = .throw .codecError) := by
  by_cases hl : txt.length % 4 = 0
  · have hq := b64Decode_null_query txt
    unfold b64DecodeInto at hq
    simp only [hl, if_true] at hq
    have hds : b64DecodeSize txt = ((Rfc4648.b64SizeQuery txt : Nat) : Int) := congrArg DecRes.ret hq
    constructor
    · intro hv
      have hsq := sizeQuery_eq_decodedLength txt hv h
      obtain ⟨out, he, hol⟩ := (b64DecodeInto_spec txt h (Rfc4648.b64DecodedLength txt)).1 ⟨hv, Nat.le_refl _⟩
      refine ⟨out, ?_, hol⟩
      unfold b64DecodeAlloc
      simp only [hds, hsq, Int.toNat_natCast, he]
      rw [if_neg (by omega), if_neg (by simp), if_neg (by omega), if_neg (by simp)]
    · intro hv
      obtain ⟨w, he, _⟩ := (b64DecodeInto_spec txt h (Rfc4648.b64SizeQuery txt)).2 (by simp [hv])
      unfold b64DecodeAlloc
      simp only [hds, Int.toNat_natCast, he]
      rw [if_neg (by omega), if_neg (by simp), if_pos (by omega)]
  · constructor
    · intro hv
      simp only [Rfc4648.b64Valid, Bool.and_eq_true, beq_iff_eq] at hv; exact absurd hv.1 hl
    · intro _
      unfold b64DecodeAlloc; simp [b64_bad_length txt hl]

/-- neither decoder ever reads the text beyond its terminating NUL, whatever the output size -/
theorem decoders_never_oob (txt : List Nat) (h : Bytes txt) (cap : Option Nat) :
    (hexDecodeInto txt cap).oob = false ∧ (b64DecodeInto txt cap).oob = false := by
  cases cap with
  | none => rw [hexDecode_null_query, b64Decode_null_query]; exact ⟨rfl, rfl⟩
  | some cap =>
    constructor
    · have hs := hexDecodeInto_spec txt h cap
      by_cases hv : Rfc4648.hexValid txt = true ∧ txt.length / 2 ≤ cap
      · obtain ⟨out, he, _⟩ := hs.1 hv; rw [he]
      · obtain ⟨w, he, _⟩ := hs.2 hv; rw [he]
    · have hs := b64DecodeInto_spec txt h cap
      by_cases hv : Rfc4648.b64Valid txt = true ∧ Rfc4648.b64DecodedLength txt ≤ cap
      · obtain ⟨out, he, _⟩ := hs.1 hv; rw [he]
      · obtain ⟨w, he, _⟩ := hs.2 hv; rw [he]

/-! non-vacuity: the hypotheses are met by concrete non-trivial texts -/
example : Rfc4648.b64Valid [81, 85, 74, 68, 81, 85, 61, 61] = true ∧ Rfc4648.b64DecodedLength [81, 85, 74, 68, 81, 85, 61, 61] = 4 := by decide
example : b64DecodeAlloc [81, 85, 74, 68, 81, 85, 61, 61] = .ok [65, 66, 67, 65] := by decide
example : b64DecodeAlloc [81, 85, 61, 68] = .throw .codecError ∧ Rfc4648.b64Valid [81, 85, 61, 68] = false := by decide
example : hexDecodeAlloc [52, 65, 54, 98] = .ok [0x4A, 0x6B] := by decide

end StVerif.Props.C15
