/-
  C03 — conversions are total and memory-safe on arbitrary input (model level: the two passes
  agree, nothing is stored past the measured size, every outcome is a value or unicode_error).
  Reads outside the input / writes outside the result on the *machine* are observed by ASan in the
  correspondence run; what is proved here is the arithmetic that makes them impossible.
-/
import StVerif.Lemmas.UtfString
import StVerif.Lemmas.UtfLen

namespace StVerif.Props.C03
open StVerif StVerif.Utf StVerif.Generated StVerif.Lemmas.Utf
open StVerif.Spec.Unicode

/-- every conversion of fewer than 2^28 arbitrary units either returns a buffer or throws
    `unicode_error`: no assertion, no out-of-bounds store, no unwritten tail, no other exception -/
theorem convert_total (src dst : Enc) (hne : src ≠ dst) (m : Mode) (subst : Bool) (xs : List Nat)
    (hu : UnitsLt (unitBound src) xs) (hlen : xs.length < hugeBufferSize) :
    (∃ out, convert src dst m subst (some xs) = .ok out) ∨ convert src dst m subst (some xs) = .throw .unicodeError := by
  rw [convert_eq_reference src dst hne m subst xs hu hlen]
  unfold reference
  cases refSteps src dst m subst (seg src xs) with
  | some out => exact Or.inl ⟨out, rfl⟩
  | none => exact Or.inr rfl

/-- null pointer with zero length: an empty result -/
theorem convert_null (src dst : Enc) (m : Mode) (subst : Bool) : convert src dst m subst none = .ok [] := rfl

/-- two-pass consistency: whenever the model returns a buffer, the fill pass stored exactly the
    measured number of units (so `size()` equals the units held and nothing is left unwritten) -/
theorem measure_eq_fill (src dst : Enc) (m : Mode) (subst : Bool) (xs out : List Nat)
    (h : convert src dst m subst (some xs) = .ok out) : out.length = Utf.measure src dst xs :=
  convert_ok_length src dst m subst xs out h

/-- on the throwing path nothing was stored past the allocation either -/
theorem fill_le_measure (src dst : Enc) (hne : src ≠ dst) (m : Mode) (subst : Bool) (xs : List Nat)
    (hu : UnitsLt (unitBound src) xs) :
    (fill (stepCh src dst m subst) (decode src xs)).out.length ≤ Utf.measure src dst xs := by
  have hf := fill_ref src dst hne m subst _ _ (decode_rel src xs hu)
  cases hr : refSteps src dst m subst (seg src xs) with
  | some out => obtain ⟨he, hl⟩ := hf.1 out hr; rw [he]; unfold Utf.measure; simp only; omega
  | none => exact (hf.2 hr).2

/-- the size of the result is exactly the size of the reference transcoding under the same mode -/
theorem size_is_reference (src dst : Enc) (hne : src ≠ dst) (m : Mode) (subst : Bool) (xs out : List Nat)
    (hu : UnitsLt (unitBound src) xs) (hlen : xs.length < hugeBufferSize)
    (h : convert src dst m subst (some xs) = .ok out) :
    reference src dst m subst xs = .ok out ∧ out.length = Utf.measure src dst xs :=
  ⟨by rw [← convert_eq_reference src dst hne m subst xs hu hlen]; exact h, measure_eq_fill src dst m subst xs out h⟩

/-- the extraction flag can never be mistaken for a decoded value (so `char_error` is exact) -/
theorem flags_never_collide (src : Enc) (xs : List Nat) (hu : UnitsLt (unitBound src) xs) (hs : src = .utf8 ∨ src = .utf16) :
    All2 (fun ch sg => match sg with | Seg.good v _ => ch = v ∧ charError ch = 0 | Seg.bad _ => charError ch ≠ 0)
      (decode src xs) (seg src xs) := by
  have h := decode_rel src xs hu
  refine All2.imp_mem h (fun ch sg _ hr => ?_)
  rcases hs with rfl | rfl
  · cases sg with
    | good v us => exact ⟨hr.1, by rw [hr.1]; exact charError_of_lt hr.2⟩
    | bad u => exact hr.1
  · cases sg with
    | good v us => exact ⟨hr.1.1, by rw [hr.1.1]; exact charError_of_lt hr.1.2⟩
    | bad u => exact hr.1.1

/-- `ST::string` construction from UTF-8 bytes is total as well -/
theorem string_total (m : Mode) (xs : List Nat) (_hb : Bytes xs) (hlen : xs.length < hugeBufferSize) :
    (∃ out, stringSetUtf8 m (some xs) = .ok out) ∨ stringSetUtf8 m (some xs) = .throw .unicodeError := by
  unfold stringSetUtf8
  simp only [if_neg (by omega : ¬ xs.length ≥ hugeBufferSize)]
  cases m with
  | assumeValid => exact Or.inl ⟨_, rfl⟩
  | substituteInvalid => exact Or.inl ⟨_, rfl⟩
  | checkValidity => by_cases hv : validateUtf8 xs = 0 <;> simp [hv]

/-- `to_utf16 / to_utf32 / to_wchar / to_latin_1` of a string holding arbitrary bytes are total -/
theorem string_to_total (dst : Enc) (subst : Bool) (xs : List Nat) (hb : Bytes xs) (hlen : xs.length < hugeBufferSize) :
    (∃ out, stringTo dst subst xs = .ok out) ∨ stringTo dst subst xs = .throw .unicodeError := by
  cases dst with
  | utf8 => exact Or.inl ⟨xs, rfl⟩
  | utf16 => exact convert_total .utf8 .utf16 (by decide) .assumeValid subst xs hb hlen
  | utf32 => exact convert_total .utf8 .utf32 (by decide) .assumeValid subst xs hb hlen
  | latin1 => exact convert_total .utf8 .latin1 (by decide) .assumeValid subst xs hb hlen

/-! non-vacuity, including the input that used to abort the process before the repair -/
example : convert .utf8 .utf16 .checkValidity true (some [0xF4, 0x90, 0x80, 0x80]) = .throw .unicodeError := by decide
example : convert .utf8 .utf16 .substituteInvalid true (some [0xF4, 0x90, 0x80, 0x80]) = .ok [0xFFFD] := by decide
example : convert .utf16 .utf8 .substituteInvalid true (some [0xD800]) = .ok [0xEF, 0xBF, 0xBD] := by decide

end StVerif.Props.C03
