/-
  C01 — well-formed text transcodes losslessly and to the standard encoding, by every route,
  in every validation mode.  Property theorems only.
-/
import StVerif.Lemmas.UtfStd

namespace StVerif.Props.C01
open StVerif StVerif.Utf StVerif.Generated StVerif.Lemmas.Utf
open StVerif.Spec.Unicode

/-- UTF-8/16/32 → UTF-8/16/32 (the six directions): the standard encoding of a scalar sequence is
    converted to the standard encoding of the same sequence, whatever the validation mode. -/
theorem convert_std (src dst : Enc) (hne : src ≠ dst) (hs1 : src ≠ .latin1) (hd : dst ≠ .latin1) (m : Mode) (subst : Bool)
    (s : List Nat) (hs : ∀ c ∈ s, Scalar c) (hlen : (stdEnc src s).length < hugeBufferSize) :
    convert src dst m subst (some (stdEnc src s)) = .ok (stdEnc dst s) := by
  rw [convert_eq_reference src dst hne m subst _ (stdEnc_units src s hs (fun h => absurd h hs1)) hlen]
  exact reference_std src dst hd m subst s hs

/-- any chain of two conversions returns the original code units -/
theorem chain_roundtrip (a b : Enc) (hne : a ≠ b) (ha : a ≠ .latin1) (hb : b ≠ .latin1) (m m' : Mode) (subst subst' : Bool)
    (s : List Nat) (hs : ∀ c ∈ s, Scalar c)
    (hla : (stdEnc a s).length < hugeBufferSize) (hlb : (stdEnc b s).length < hugeBufferSize) :
    (convert a b m subst (some (stdEnc a s))).bind (fun mid => convert b a m' subst' (some mid)) = .ok (stdEnc a s) := by
  rw [convert_std a b hne ha hb m subst s hs hla]
  exact convert_std b a (Ne.symm hne) hb ha m' subst' s hs hlb

/-- every byte string taken as Latin-1 converts to the standard encoding of the code points
    0..255 it denotes, and converts back unchanged -/
theorem latin1_roundtrip (t : Enc) (ht : t ≠ .latin1) (m m' : Mode) (subst subst' : Bool) (bs : List Nat) (hb : Bytes bs)
    (hl : bs.length < hugeBufferSize) (hl' : (stdEnc t bs).length < hugeBufferSize) :
    convert .latin1 t m subst (some bs) = .ok (stdEnc t bs) ∧
    convert t .latin1 m' subst' (some (stdEnc t bs)) = .ok bs := by
  have hs : ∀ c ∈ bs, Scalar c := fun c hc => scalar_of_byte (hb c hc)
  constructor
  · rw [convert_eq_reference .latin1 t (Ne.symm ht) m subst bs hb hl]
    exact reference_std .latin1 t ht m subst bs hs
  · rw [convert_eq_reference t .latin1 ht m' subst' _ (stdEnc_units t bs hs (fun h => absurd h ht)) hl']
    exact reference_to_latin1 t m' subst' bs hb

/-- building an `ST::string` (constructors, `set`, `operator=`, `from_*`, literals) from the standard
    encoding in any encoding stores the standard UTF-8, in every mode -/
theorem string_from_std (src : Enc) (m : Mode) (s : List Nat) (hs : ∀ c ∈ s, Scalar c)
    (hl1 : src = .latin1 → ∀ c ∈ s, c < 0x100) (hlen : (stdEnc src s).length < hugeBufferSize) :
    stringFrom src m (some (stdEnc src s)) = .ok (stdEnc .utf8 s) := by
  by_cases h8 : src = .utf8
  · subst h8
    have hb := stdEnc_units .utf8 s hs (fun h => by cases h)
    have hseg := seg_std .utf8 s hs
    simp only [seg] at hseg
    have hv : validateUtf8 (stdEnc .utf8 s) = 0 := by
      rw [validate_iff_seg _ hb, hseg]; simp [stdSegs, Seg.isGood]
    have hc : cleanupUtf8 (stdEnc .utf8 s) = stdEnc .utf8 s := by
      rw [cleanup_eq_seg _ hb, hseg]
      simp only [stdSegs, stdEnc, List.flatMap_map]; rfl
    unfold stringFrom stringSetUtf8
    simp only [if_neg (by omega : ¬ (stdEnc .utf8 s).length ≥ hugeBufferSize)]
    cases m <;> simp [hv, hc]
  · unfold stringFrom
    cases src with
    | utf8 => exact absurd rfl h8
    | utf16 => exact convert_std .utf16 .utf8 (by decide) (by decide) (by decide) m true s hs hlen
    | utf32 => exact convert_std .utf32 .utf8 (by decide) (by decide) (by decide) m true s hs hlen
    | latin1 =>
      simp only
      rw [convert_eq_reference .latin1 .utf8 (by decide) m true _ (stdEnc_units .latin1 s hs hl1) hlen]
      exact reference_std .latin1 .utf8 (by decide) m true s hs

/-- `to_utf8 / to_utf16 / to_utf32 / to_wchar` of a string holding standard UTF-8 return the standard
    encoding; `to_latin_1` returns the bytes when every code point is below 0x100 -/
theorem string_to_std (dst : Enc) (subst : Bool) (s : List Nat) (hs : ∀ c ∈ s, Scalar c)
    (hlen : (stdEnc .utf8 s).length < hugeBufferSize) :
    (dst ≠ .latin1 → stringTo dst subst (stdEnc .utf8 s) = .ok (stdEnc dst s)) ∧
    (dst = .latin1 → (∀ c ∈ s, c < 0x100) → stringTo dst subst (stdEnc .utf8 s) = .ok s) := by
  constructor
  · intro hd
    cases dst with
    | utf8 => rfl
    | utf16 => exact convert_std .utf8 .utf16 (by decide) (by decide) (by decide) .assumeValid subst s hs hlen
    | utf32 => exact convert_std .utf8 .utf32 (by decide) (by decide) (by decide) .assumeValid subst s hs hlen
    | latin1 => exact absurd rfl hd
  · intro hd hb; subst hd
    unfold stringTo; simp only
    rw [convert_eq_reference .utf8 .latin1 (by decide) .assumeValid subst _ (stdEnc_units .utf8 s hs (fun h => by cases h)) hlen]
    exact reference_to_latin1 .utf8 .assumeValid subst s hb

/-! non-vacuity: a scalar of each width and both neighbours of each boundary -/
example : ∀ c ∈ [0, 0x7F, 0x80, 0x7FF, 0x800, 0xD7FF, 0xE000, 0xFFFF, 0x10000, 0x10FFFF], Scalar c := by decide
example : stdEnc .utf8 [0x41, 0xE9, 0x20AC, 0x1F600] = [0x41, 0xC3, 0xA9, 0xE2, 0x82, 0xAC, 0xF0, 0x9F, 0x98, 0x80] := by decide
example : stdEnc .utf16 [0x41, 0x1F600] = [0x41, 0xD83D, 0xDE00] := by decide

end StVerif.Props.C01
