/-
  C09 — split, tokenize and replace partition the text exactly; join inverts split.
  Property theorems only; helper lemmas live in Lemmas/Split.lean (on top of C07's and C08's lemmas).

  Vocabulary: `splitChar`, `splitCstr`, `splitStr` are the models of the three `split` overloads,
  `tokenize`, `replace` / `replaceScans` (the two scans with the allocated size) / `replaceArgs`
  (the four `replace` overloads) the models of the other members (Model/Split.lean, the repaired
  tree; every loop carries a progress guard whose failure is the outcome `stuck`).  `Spec.Split.*`
  is the Spec: `split` = pieces between the first `max` non-overlapping occurrences found left to
  right, `tokens` = maximal non-empty runs of non-delimiters, `replace` = the unlimited pieces joined
  by the replacement.  Subjects, separators, patterns and replacements are arbitrary lists (any
  bytes, embedded NUL included, empty, self-overlapping, longer than the subject); `max` ranges over
  all of `Nat`.
-/
import StVerif.Lemmas.Split
import StVerif.Lemmas.Utf8Split

namespace StVerif.Props.C09
open StVerif StVerif.Split StVerif.Search StVerif.Lemmas.Split
open StVerif.Slice (cBytes Rev)
open StVerif.Generated (hugeBufferSize)

/-! ### split -/

/-- `split(const ST::string &sep, max, cs)` returns the specified pieces — for every separator
    (the empty one included), every `max`, both case modes — and in particular terminates -/
theorem split_eq_spec (cs : CaseMode) (s sep : List Nat) (max : Nat) :
    splitStr cs s sep max = .ok (Spec.Split.split cs sep max s) := by
  unfold splitStr
  simp only []
  by_cases he : sep.isEmpty = true
  · rw [if_pos he]
    have hs : sep = [] := List.isEmpty_iff.1 he
    subst hs
    have : Spec.Slice.firstOcc cs s [] = none := by unfold Spec.Slice.firstOcc; rfl
    unfold Spec.Split.split
    rw [splitAux_miss cs [] s.length max s (Or.inr this)]
  · rw [if_neg he]
    have hne : sep ≠ [] := fun h => he (by rw [h]; rfl)
    have hfun : (fun rest => findRaw cs rest sep) = (fun r => Spec.Slice.firstOcc cs r sep) :=
      funext fun r => findRaw_eq_firstOcc cs r sep hne
    rw [hfun, splitLoop_eq cs sep .ok (s.length + 1) max s [] (by omega), mkAll_ok]
    rfl

/-- `split(char c, max, cs)` for an admissible split character (1..0x7F) -/
theorem split_char_eq_spec (cs : CaseMode) (s : List Nat) (c max : Nat) (h0 : c ≠ 0) (h1 : c < 0x80) :
    splitChar cs s c max = .ok (Spec.Split.split cs [c] max s) := by
  unfold splitChar
  rw [if_neg (by omega)]
  have hfun : (fun rest => scanChar cs c rest 0) = (fun r => Spec.Slice.firstOcc cs r [c]) :=
    funext fun r => scanChar_eq_firstOcc cs c r
  rw [hfun]
  have := splitLoop_eq cs [c] .ok (s.length + 1) max s [] (by omega)
  rw [mkAll_ok] at this
  exact this

/-- what the `const char*` overload does on top: every piece goes through the validating constructor -/
def pieceOk (sep piece : List Nat) : Prop :=
  piece.length < hugeBufferSize ∧ (splitterValidation sep = .checkValidity → Utf.validateUtf8 piece = 0)

theorem mk_of_pieceOk (sep piece : List Nat) (h : pieceOk sep piece) :
    Utf.stringSetUtf8 (splitterValidation sep) (some piece) = .ok piece := by
  unfold Utf.stringSetUtf8
  simp only []
  rw [if_neg (by have := h.1; omega)]
  cases hv : splitterValidation sep with
  | checkValidity => simp [h.2 hv]
  | assumeValid => rfl
  | substituteInvalid =>
    unfold splitterValidation at hv
    split at hv <;> cases hv

/-- `split(const char *sep, max, cs)`: the same pieces as the other overloads whenever every piece
    passes the overload's own re-validation (always the case for a splitter without high-bit bytes
    and pieces below `ST_HUGE_BUFFER_SIZE`; for a splitter with high-bit bytes, when the pieces are
    UTF-8) -/
theorem split_cstr_eq_spec (cs : CaseMode) (s p : List Nat) (max : Nat)
    (hok : ∀ piece ∈ Spec.Split.split cs (cBytes p) max s, pieceOk (cBytes p) piece) :
    splitCstr cs s (some p) max = .ok (Spec.Split.split cs (cBytes p) max s) := by
  unfold splitCstr
  simp only []
  by_cases he : (cBytes p).isEmpty = true
  · rw [if_pos he]
    have hs : cBytes p = [] := List.isEmpty_iff.1 he
    rw [hs]
    have : Spec.Slice.firstOcc cs s [] = none := by unfold Spec.Slice.firstOcc; rfl
    unfold Spec.Split.split
    rw [splitAux_miss cs [] s.length max s (Or.inr this)]
  · rw [if_neg he]
    have hne : cBytes p ≠ [] := fun h => he (by rw [h]; rfl)
    have hfun : (fun rest => findRaw cs rest (cBytes p)) = (fun r => Spec.Slice.firstOcc cs r (cBytes p)) :=
      funext fun r => findRaw_eq_firstOcc cs r (cBytes p) hne
    rw [hfun, splitLoop_eq cs (cBytes p) _ (s.length + 1) max s [] (by omega)]
    have hall : mkAll (fun piece => Utf.stringSetUtf8 (splitterValidation (cBytes p)) (some piece))
        (Spec.Split.splitAux cs (cBytes p) (s.length + 1) max s) = .ok (Spec.Split.splitAux cs (cBytes p) (s.length + 1) max s) :=
      mkAll_of_all_ok _ _ (fun q hq => mk_of_pieceOk (cBytes p) q (hok q hq))
    rw [hall]
    rfl

/-- a splitter without high-bit bytes is never re-validated: the `const char*` overload agrees
    unconditionally (for subjects below `ST_HUGE_BUFFER_SIZE`) -/
theorem split_cstr_ascii (cs : CaseMode) (s p : List Nat) (max : Nat) (hs : s.length < hugeBufferSize)
    (hascii : splitterValidation (cBytes p) = .assumeValid) :
    splitCstr cs s (some p) max = .ok (Spec.Split.split cs (cBytes p) max s) := by
  apply split_cstr_eq_spec
  intro piece hp
  refine ⟨?_, fun h => by rw [hascii] at h; cases h⟩
  exact Nat.lt_of_le_of_lt (pieces_length_le cs (cBytes p) (s.length + 1) max s piece hp) hs

/-- at most `max + 1` pieces -/
theorem split_length_le (cs : CaseMode) (sep : List Nat) (max : Nat) (s : List Nat) :
    (Spec.Split.split cs sep max s).length ≤ max + 1 := splitAux_length_le cs sep (s.length + 1) max s

/-- case-sensitively, joining the pieces with the separator reproduces the original -/
theorem join_split (s sep : List Nat) (max : Nat) :
    ∃ pieces, splitStr .sensitive s sep max = .ok pieces ∧ pieces.length ≤ max + 1 ∧
      (sep ≠ [] → Spec.Split.join sep pieces = s) ∧ (sep = [] → pieces = [s]) := by
  refine ⟨_, split_eq_spec .sensitive s sep max, split_length_le .sensitive sep max s, fun _ => join_splitAux sep _ max s, ?_⟩
  intro h
  subst h
  have : Spec.Slice.firstOcc .sensitive s [] = none := by unfold Spec.Slice.firstOcc; rfl
  unfold Spec.Split.split
  rw [splitAux_miss .sensitive [] s.length max s (Or.inr this)]

/-- an empty separator (`ST::string()`, `""`) leaves the text whole, whatever `max` and the case mode -/
theorem empty_sep_whole (cs : CaseMode) (s : List Nat) (max : Nat) (p : List Nat) (hp : cBytes p = []) :
    splitStr cs s [] max = .ok [s] ∧ splitCstr cs s (some p) max = .ok [s] := by
  constructor
  · rfl
  · unfold splitCstr
    simp only [hp]
    rfl

/-- case-insensitive matching folds ASCII letters only: the insensitive split cuts exactly where the
    case-sensitive split of the folded text by the folded separator cuts (`foldAscii` maps `A`–`Z`
    to `a`–`z` and is the identity on every other value, see `fold_only_ascii_letters`) -/
theorem ci_folds_ascii_only (sep : List Nat) (max : Nat) (s : List Nat) :
    (Spec.Split.split .insensitive sep max s).map (·.map Spec.Search.foldAscii) =
      Spec.Split.split .sensitive (sep.map Spec.Search.foldAscii) max (s.map Spec.Search.foldAscii) := by
  unfold Spec.Split.split
  rw [List.length_map]
  exact splitAux_fold sep (s.length + 1) max s

theorem fold_only_ascii_letters (c : Nat) :
    (0x41 ≤ c ∧ c ≤ 0x5A → Spec.Search.foldAscii c = c + 0x20) ∧ (¬ (0x41 ≤ c ∧ c ≤ 0x5A) → Spec.Search.foldAscii c = c) := by
  unfold Spec.Search.foldAscii
  constructor
  · intro h; rw [if_pos (by omega)]
  · intro h; rw [if_neg (by omega)]

/-- the fuel in the Spec's recursion is only a device: any two sufficient fuels give the same pieces -/
theorem spec_fuel_irrelevant (cs : CaseMode) (sep : List Nat) (f1 f2 max : Nat) (s : List Nat)
    (h1 : s.length < f1) (h2 : s.length < f2) :
    Spec.Split.splitAux cs sep f1 max s = Spec.Split.splitAux cs sep f2 max s := splitAux_fuel cs sep f1 f2 max s h1 h2

/-! ### tokenize -/

/-- `tokenize(delims)` returns, in order, the specified tokens (and terminates) -/
theorem tokenize_eq_spec (s delims : List Nat) :
    tokenize s delims = .ok (Spec.Split.tokens (Spec.Slice.cString delims) s) := by
  unfold tokenize
  rw [tokLoop_eq (cBytes delims) (s.length + 1) s [] (by omega), List.nil_append]
  rfl

theorem tokens_nonempty (d s : List Nat) : ∀ t ∈ Spec.Split.tokens d s, t ≠ [] :=
  StVerif.Lemmas.Split.tokens_nonempty d s

theorem tokens_no_delim (d s : List Nat) : ∀ t ∈ Spec.Split.tokens d s, ∀ c ∈ t, d.contains c = false :=
  StVerif.Lemmas.Split.tokens_no_delim d s

/-- the tokens are exactly the maximal non-empty runs of non-delimiters (`Spec.Split.Runs`: gap of
    delimiters, token ending at a delimiter or the end, …, covering the whole text) -/
theorem tokens_maximal (d s : List Nat) : Spec.Split.Runs (d.contains ·) s (Spec.Split.tokens d s) :=
  tokens_runs d s

/-- … and `Runs` pins the token list down: any list of runs satisfying it is the result of `tokenize` -/
theorem tokens_exactly (d s : List Nat) (ts : List (List Nat)) (h : Spec.Split.Runs (d.contains ·) s ts) :
    ts = Spec.Split.tokens d s := runs_unique _ s ts _ h (tokens_runs d s)

/-! ### replace -/

/-- the result fits `size_t` (always the case for strings that exist) -/
def Fits (cs : CaseMode) (s pat to : List Nat) : Prop :=
  s.length < 2^64 ∧ (Spec.Split.replace cs pat to s).length < 2^64

/-- the bytes the copying scan stores are exactly as many as the counting scan allocated: the fill
    neither overruns the buffer nor leaves a tail unwritten -/
theorem replace_scans_agree (cs : CaseMode) (s pat to : List Nat) (hf : Fits cs s pat to) :
    ∃ r, replaceScans cs s pat to = .ok r ∧ r.bytes.length = r.outsize :=
  ⟨_, replaceScans_eq cs s pat to hf.1 hf.2, rfl⟩

/-- `replace(from, to, cs)` substitutes every non-overlapping left-to-right occurrence and nothing else -/
theorem replace_eq_spec (cs : CaseMode) (s pat to : List Nat) (hf : Fits cs s pat to) :
    Split.replace cs s pat to = .ok (Spec.Split.replace cs pat to s) := by
  unfold Split.replace
  simp only []
  rw [replaceScans_eq cs s pat to hf.1 hf.2]
  rfl

/-- the result has length `size + k·(|to| − |from|)` for `k` occurrences -/
theorem replace_len (cs : CaseMode) (s pat to : List Nat) :
    ((Spec.Split.replace cs pat to s).length : Int) =
      (s.length : Int) + (Spec.Split.occurrences cs pat s : Int) * ((to.length : Int) - (pat.length : Int)) :=
  join_splitAux_length cs pat to (s.length + 1) s.length s

/-- an empty pattern (or an empty subject) leaves the text whole -/
theorem replace_empty (cs : CaseMode) (s to : List Nat) :
    Split.replace cs s [] to = .ok s ∧ Split.replace cs [] s to = .ok [] := by
  constructor
  · unfold Split.replace replaceScans
    simp
    rfl
  · unfold Split.replace replaceScans
    simp
    rfl

/-! ### the overloads agree -/

/-- char ≍ one-byte `ST::string`; `const char*` ≍ the `ST::string` of its bytes (for splitters
    whose pieces pass the re-validation, see `split_cstr_eq_spec`) -/
theorem split_forms_agree (cs : CaseMode) (s : List Nat) (max : Nat) :
    (∀ c, c ≠ 0 → c < 0x80 → splitChar cs s c max = splitStr cs s [c] max) ∧
    (∀ p, (∀ piece ∈ Spec.Split.split cs (cBytes p) max s, pieceOk (cBytes p) piece) →
      splitCstr cs s (some p) max = splitStr cs s (cBytes p) max) := by
  constructor
  · intro c h0 h1
    rw [split_char_eq_spec cs s c max h0 h1, split_eq_spec]
  · intro p hok
    rw [split_cstr_eq_spec cs s p max hok, split_eq_spec]

/-- every piece of the split of well-formed UTF-8 text by a well-formed separator is well-formed
    UTF-8 again (occurrences begin and end on character boundaries, in both case modes) -/
theorem split_pieces_utf8 (cs : CaseMode) (s sep : List Nat) (max : Nat)
    (hvs : Utf.validateUtf8 s = 0) (hvp : Utf.validateUtf8 sep = 0) :
    ∀ piece ∈ Spec.Split.split cs sep max s, Utf.validateUtf8 piece = 0 := by
  intro piece hp
  exact (StVerif.Lemmas.Utf8Split.valid_iff piece).1
    (StVerif.Lemmas.Utf8Split.splitAux_valid cs sep ((StVerif.Lemmas.Utf8Split.valid_iff sep).2 hvp) (s.length + 1) max s
      ((StVerif.Lemmas.Utf8Split.valid_iff s).2 hvs) piece hp)

/-- on a well-formed UTF-8 subject and separator the re-validating `const char*` overload returns
    the same pieces as the `ST::string` overload: all three overloads agree -/
theorem split_forms_agree_utf8 (cs : CaseMode) (s p : List Nat) (max : Nat) (hs : s.length < hugeBufferSize)
    (hvs : Utf.validateUtf8 s = 0) (hvp : Utf.validateUtf8 (cBytes p) = 0) :
    splitCstr cs s (some p) max = splitStr cs s (cBytes p) max := by
  rw [split_eq_spec]
  apply split_cstr_eq_spec
  intro piece hp
  exact ⟨Nat.lt_of_le_of_lt (pieces_length_le cs (cBytes p) (s.length + 1) max s piece hp) hs,
    fun _ => split_pieces_utf8 cs s (cBytes p) max hvs hvp piece hp⟩

/-- the four `replace` overloads agree: a `const char*` argument (taken with `assume_valid`, or any
    mode when it is UTF-8) is the `ST::string` of the bytes before its first NUL; a null pointer is
    the empty string -/
theorem replace_forms_agree (cs : CaseMode) (m : Mode) (s : List Nat) (pa ta : Arg) (pb tb : List Nat)
    (hp : pa.toString m = .ok pb) (ht : ta.toString m = .ok tb) :
    replaceArgs cs m s pa ta = Split.replace cs s pb tb := by
  unfold replaceArgs
  rw [hp, ht]
  rfl

theorem arg_toString_assume (p : List Nat) (hl : (cBytes p).length < hugeBufferSize) :
    (Arg.cstr (some p)).toString .assumeValid = .ok (cBytes p) ∧ (Arg.cstr none).toString .assumeValid = .ok [] ∧
    ∀ b, (Arg.str b).toString .assumeValid = .ok b := by
  refine ⟨?_, rfl, fun b => rfl⟩
  unfold Arg.toString Utf.stringSetUtf8
  simp only []
  rw [if_neg (by omega)]

/-! ### termination -/

/-- no call of the family gets stuck: every loop makes progress on every input -/
theorem terminates (cs : CaseMode) (s sep : List Nat) (max c : Nat) (p delims : List Nat) :
    splitStr cs s sep max ≠ .stuck ∧ splitChar cs s c max ≠ .stuck ∧ splitCstr cs s (some p) max ≠ .stuck ∧
    tokenize s delims ≠ .stuck := by
  refine ⟨?_, ?_, ?_, ?_⟩
  · rw [split_eq_spec]; intro h; cases h
  · unfold splitChar
    split
    · intro h; cases h
    · have hfun : (fun rest => scanChar cs c rest 0) = (fun r => Spec.Slice.firstOcc cs r [c]) :=
        funext fun r => scanChar_eq_firstOcc cs c r
      rw [hfun]
      have := splitLoop_eq cs [c] .ok (s.length + 1) max s [] (by omega)
      rw [mkAll_ok] at this
      have e : ([c] : List Nat).length = 1 := rfl
      rw [e] at this
      rw [this]; intro h; cases h
  · exact (splitCstr_not_stuck cs s p max).1
  · rw [tokenize_eq_spec]; intro h; cases h

/-! ### the defects of the tree before the repairs (`Rev.pinned`), as machine-checked witnesses -/

/-- `ST::string("a\0b",3).split(ST::string(), 5)` gave `a, "", "", "", "", "\0b"`; with the default
    `max_splits` the loop did not end -/
theorem pinned_split_empty_sep_witness :
    splitStr .sensitive [97, 0, 98] [] 5 .pinned = .ok [[97], [], [], [], [], [0, 98]] ∧
    splitStr .sensitive [97, 0, 98] [] SIZE_MAX .pinned = .stuck ∧
    splitCstr .insensitive [0] (some []) SIZE_MAX .pinned = .stuck ∧
    Spec.Split.split .sensitive [] 5 [97, 0, 98] = [[97, 0, 98]] := by decide

/-- `replace` re-validated its result: a subject holding a byte that is not UTF-8 made it throw
    even with nothing to replace -/
theorem pinned_replace_revalidates_witness :
    Split.replace .sensitive [0xFF] [97] [98] .pinned = .throw .unicodeError ∧
    Split.replace .sensitive [97, 97, 0xC3] [97] [98] .pinned = .throw .unicodeError ∧
    Spec.Split.replace .sensitive [97] [98] [97, 97, 0xC3] = [98, 98, 0xC3] := by decide

/-! non-vacuity -/
example : splitStr .sensitive [97, 44, 98, 44, 44, 99] [44] 2 = .ok [[97], [98], [44, 99]] := by decide
example : tokenize [32, 97, 98, 32, 32, 99] Slice.whitespace = .ok [[97, 98], [99]] := by decide
example : Split.replace .insensitive [97, 65, 97, 98] [97, 97] [120] = .ok [120, 97, 98] := by decide
example : Fits .sensitive [97, 97, 97] [97, 97] [98] := ⟨by decide, by decide⟩
example : pieceOk [44] [97, 0xFF] := ⟨by decide, by decide⟩

end StVerif.Props.C09
