/-
  C13 — floating-point text equals the C library rendering for every value and precision.
  What is proved is the library's own glue; the C library's rendering (`render`) and parsing (`parse`)
  are parameters, exactly as the property defines the text as "what printf / strtod give".
-/
import StVerif.Model.Float
import StVerif.Spec.FloatText
import StVerif.Lemmas.Num

namespace StVerif.Props.C13
open StVerif StVerif.Float StVerif.Num StVerif.Spec.Digits StVerif.Spec.FloatText StVerif.Lemmas.Digits StVerif.Lemmas.Num

/-- the notation a `float_class` value stands for -/
def notationOf : FloatClass → Notation
  | .dflt => .dflt | .fixed => .fixed | .exp => .exp | .expUpper => .expUpper

/-- the precision the field asks for: any negative `int` means "none" -/
def precisionOf (sp : FSpec) : Option Nat := if sp.precision ≥ 0 then some sp.precision.toNat else none

/-- `format.precision` is an `int` -/
def IntPrecision (sp : FSpec) : Prop := -(2 ^ 31 : Int) ≤ sp.precision ∧ sp.precision < (2 ^ 31 : Int)

theorem precision_text_short (p : Nat) (hp : p < 2 ^ 32) : (natText 10 false p).length ≤ 10 := by
  unfold natText
  rw [List.length_map]
  exact digits_length_le 10 (by omega) 10 p (by omega) (by omega)

/-- The printf format the library assembles in its 32-byte buffer is exactly the corresponding
    conversion: `%`, `+` if a sign is always wanted, `.` and the precision in decimal if one is given,
    then g / f / e / E — for every `int` precision; no store leaves the buffer and the assertion holds. -/
theorem fmt_assembled (sp : FSpec) (hp : IntPrecision sp) :
    assembleFormat sp = .ok (printfFormat sp.alwaysSigned (precisionOf sp) (notationOf sp.floatClass)) := by
  have hletter : letterOf sp.floatClass = letter (notationOf sp.floatClass) := by cases sp.floatClass <;> rfl
  unfold assembleFormat precisionOf printfFormat
  by_cases hge : sp.precision ≥ 0
  · have hw : wrapW 32 sp.precision = sp.precision.toNat := by unfold wrapW; unfold IntPrecision at hp; omega
    have hlt : sp.precision.toNat < 2 ^ 32 := by unfold IntPrecision at hp; omega
    obtain ⟨f, h1, h2, h3, _, h5⟩ := uintFormat_spec 32 sp.precision.toNat 10 false (by omega) (by omega) hlt
    obtain ⟨f', h1', h2', _⟩ := uintFormat_text 32 sp.precision.toNat 10 false (by omega) (by omega) (by omega) hlt
    have hff : f' = f := by rw [h1] at h1'; injection h1' with h; exact h.symm
    subst hff
    have hlen := precision_text_short sp.precision.toNat hlt
    rw [← h2'] at hlen
    have hpos : 0 < (f'.copy 32).length := by
      rw [h2']; unfold natText; rw [List.length_map]; exact List.length_pos_iff.mpr (digits_ne_nil _ _)
    have hsz : f'.size 32 = (f'.copy 32).length := by rw [h5]; exact h3
    simp only [hge, if_true, hw, h1]
    cases hs : sp.alwaysSigned <;>
      simp [FORMAT_BUFFER, hsz, hletter, bind, Outcome.bind, pure]
    all_goals
      rw [if_neg (by omega), if_neg (by omega)]
      simp only []
      rw [if_neg (by simp; omega), h2']
      simp
  · have hnp : ¬ sp.precision ≥ 0 := hge
    simp only [hnp, if_false]
    cases hs : sp.alwaysSigned <;> simp [FORMAT_BUFFER, hletter, bind, Outcome.bind, pure]

/-- the assembled format, with its terminator, fits the 32-byte buffer for every `int` precision
    (it needs at most 15 bytes) -/
theorem fmt_fits (sp : FSpec) (hp : IntPrecision sp) :
    ∃ fmt, assembleFormat sp = .ok fmt ∧ fmt.length + 1 ≤ 15 ∧ fmt.length + 1 ≤ FORMAT_BUFFER := by
  refine ⟨_, fmt_assembled sp hp, ?_⟩
  have : (printfFormat sp.alwaysSigned (precisionOf sp) (notationOf sp.floatClass)).length + 1 ≤ 15 := by
    unfold printfFormat precisionOf
    by_cases hge : sp.precision ≥ 0
    · have hlt : sp.precision.toNat < 2 ^ 32 := by unfold IntPrecision at hp; omega
      have := precision_text_short sp.precision.toNat hlt
      cases sp.alwaysSigned <;> simp [hge] <;> omega
    · cases sp.alwaysSigned <;> simp [hge]
  exact ⟨this, by unfold FORMAT_BUFFER; omega⟩

/-- the rendering step returns libc's complete text whatever its length: below 64 characters from the
    stack buffer, otherwise from the heap buffer of the reported size — never truncated, never an
    assertion, never a read or write outside a buffer -/
theorem renderText_eq (render : Render) (fmt : List Nat) (bits : Nat) (hne : render fmt bits ≠ []) :
    renderText render fmt bits = .ok (render fmt bits) := by
  unfold renderText snprintfInto
  have hpos : 0 < (render fmt bits).length := List.length_pos_iff.mpr hne
  simp only []
  rw [if_neg (by omega)]
  by_cases hl : (render fmt bits).length ≥ OUT_BUFFER
  · rw [if_pos hl]
    have : (render fmt bits).length + 1 - 1 = (render fmt bits).length := by omega
    simp [this]
  · rw [if_neg hl]
    have h63 : (render fmt bits).length ≤ OUT_BUFFER - 1 := by unfold OUT_BUFFER at hl ⊢; omega
    rw [List.take_of_length_le h63]
    simp

/-- `ST::format` of a `double`: libc's rendering of the corresponding conversion, padded to the field
    width on the left (right-aligned) unless `<` was given, however long the rendering is.
    `hne` is the one fact assumed of libc: a floating-point conversion produces at least one character. -/
theorem format_eq_padded_render (render : Render) (sp : FSpec) (hp : IntPrecision sp) (bits : Nat)
    (hne : render (printfFormat sp.alwaysSigned (precisionOf sp) (notationOf sp.floatClass)) bits ≠ []) :
    formatDouble render sp bits =
      .ok (padTo sp.minimumLength.toNat (sp.alignment = .left) (if sp.pad = 0 then 32 else sp.pad)
            (render (printfFormat sp.alwaysSigned (precisionOf sp) (notationOf sp.floatClass)) bits)) := by
  unfold formatDouble
  rw [fmt_assembled sp hp]
  show (do let text ← renderText render _ bits; _) = _
  rw [renderText_eq render _ bits hne]
  show (if sp.minimumLength > _ then _ else _) = _
  generalize render (printfFormat sp.alwaysSigned (precisionOf sp) (notationOf sp.floatClass)) bits = text
  have hpad : (if sp.pad ≠ 0 then sp.pad else 32) = (if sp.pad = 0 then 32 else sp.pad) := by
    by_cases h : sp.pad = 0 <;> simp [h]
  rw [hpad]
  unfold padTo
  by_cases hw : sp.minimumLength > (text.length : Int)
  · have hsub : (sp.minimumLength - (text.length : Int)).toNat = sp.minimumLength.toNat - text.length := by omega
    rw [if_pos hw, hsub]
    by_cases ha : sp.alignment = .left
    · simp [ha]; rfl
    · simp [ha]; rfl
  · have hz : sp.minimumLength.toNat - text.length = 0 := by omega
    rw [if_neg hw, hz]
    by_cases ha : sp.alignment = .left <;> simp [ha] <;> rfl

/-- a `float` argument is rendered as its exact `double` value -/
theorem format_float_eq (render : Render) (promote : Nat → Nat) (sp : FSpec) (bits32 : Nat) :
    formatFloat render promote sp bits32 = formatDouble render sp (promote bits32) := rfl

/-- `from_double(value, c)` / `from_float`: libc's rendering of `%c` for the six letters printf knows,
    `bad_format` for any other letter; the default argument and `string_stream <<` are `%g` -/
theorem from_double_eq_render (render : Render) (bits : Nat) (c : Nat) :
    (c ∈ [101, 102, 103, 69, 70, 71] → render [37, c] bits ≠ [] → fromDouble render bits c = .ok (render [37, c] bits)) ∧
    (c ∉ [101, 102, 103, 69, 70, 71] → fromDouble render bits c = .throw .badFormat) := by
  unfold fromDouble floatFormatter
  refine ⟨fun hc hne => ?_, fun hc => ?_⟩
  · have h : ¬ ¬ ([101, 102, 103, 69, 70, 71].contains c = true) := by
      intro hn; exact hn (List.contains_iff_mem.mpr hc)
    rw [if_neg h]
    exact renderText_eq render _ bits hne
  · have h : ¬ ([101, 102, 103, 69, 70, 71].contains c = true) := by
      intro hn; exact hc (List.contains_iff_mem.mp hn)
    rw [if_pos h]

theorem from_float_eq (render : Render) (promote : Nat → Nat) (bits32 : Nat) (c : Nat) :
    fromFloat render promote bits32 c = fromDouble render (promote bits32) c := rfl

theorem stream_eq_render (render : Render) (bits : Nat) (hne : render [37, 103] bits ≠ []) :
    streamDouble render bits = .ok (render [37, 103] bits) ∧ streamDouble render bits = fromDouble render bits 103 := by
  refine ⟨?_, rfl⟩
  exact (from_double_eq_render render bits 103).1 (by decide) hne

theorem stream_float_eq (render : Render) (promote : Nat → Nat) (bits32 : Nat) :
    streamFloat render promote bits32 = streamDouble render (promote bits32) := rfl

/-- no value, notation, sign flag, width or precision makes floating-point formatting abort or leave a
    buffer: every route returns a string (or `bad_format` for a letter printf does not know) -/
theorem no_abort (render : Render) (hlibc : ∀ fmt bits, render fmt bits ≠ []) (sp : FSpec) (hp : IntPrecision sp) (bits c : Nat) :
    (formatDouble render sp bits).isOk = true ∧
    ((fromDouble render bits c).isOk = true ∨ fromDouble render bits c = .throw .badFormat) ∧
    (streamDouble render bits).isOk = true := by
  refine ⟨?_, ?_, ?_⟩
  · rw [format_eq_padded_render render sp hp bits (hlibc _ _)]; rfl
  · by_cases hc : c ∈ [101, 102, 103, 69, 70, 71]
    · left; rw [(from_double_eq_render render bits c).1 hc (hlibc _ _)]; rfl
    · right; exact (from_double_eq_render render bits c).2 hc
  · rw [(stream_eq_render render bits (hlibc _ _)).1]; rfl

/-- `to_double` / `to_float`: the value is what strtod / strtof return on the C string; `ok` ⇔ at least
    one character was consumed, `full_match` ⇔ all were; the empty string is a full match without `ok` -/
theorem to_double_flags (parse : List Nat → Nat × Nat) (s : List Nat) :
    (s = [] → toFloatingR parse s = (0, { ok := false, fullMatch := true })) ∧
    (s ≠ [] → toFloatingR parse s = ((parse (cstr s)).1, { ok := decide ((parse (cstr s)).2 ≠ 0), fullMatch := decide ((parse (cstr s)).2 = s.length) })) ∧
    toFloating parse s = (parse (cstr s)).1 := by
  refine ⟨fun h => by subst h; rfl, fun h => ?_, rfl⟩
  unfold toFloatingR flagsOf
  cases s with
  | nil => exact absurd rfl h
  | cons a t => rfl

/-! The pinned tree (before repair e9e5a3a) violated `no_abort`: a rendering of 64 or more characters —
    `%f` of 1e100 has 108 — tripped the assertion. -/

/-- witness of defect #13 in `ST::format("{f}", 1e100)` (any 108-character rendering) -/
theorem pinned_format_abort_witness :
    Pinned.formatDouble (fun _ _ => List.replicate 108 48) { floatClass := .fixed } 0x54b249ad2594c37d
      = .assertFail "Format buffer too small" := by decide

/-- witness of defect #13 in `ST::string::from_double(1e100, 'f')` -/
theorem pinned_from_double_abort_witness :
    Pinned.floatFormatter (fun _ _ => List.replicate 108 48) 0x54b249ad2594c37d 102 = .assertFail "Format buffer too small" := by decide

/-- what the pinned tree did satisfy: the same statement under the hypothesis that the rendering is
    shorter than 64 characters -/
theorem pinned_format_eq_padded_render_partial (render : Render) (fmt : List Nat) (bits : Nat)
    (hne : render fmt bits ≠ []) (hlt : (render fmt bits).length < 64) :
    Pinned.renderInto64 render fmt bits = .ok (render fmt bits) := by
  unfold Pinned.renderInto64
  have hpos : 0 < (render fmt bits).length := List.length_pos_iff.mpr hne
  simp only []
  rw [if_neg (by omega), if_neg (by unfold OUT_BUFFER; omega)]

/-! non-vacuity: the repaired model on the inputs that used to abort -/
example : formatDouble (fun _ _ => List.replicate 108 48) { floatClass := .fixed } 0 = .ok (List.replicate 108 48) := by decide
example : formatDouble (fun _ _ => [49, 46, 53]) { minimumLength := 6, pad := 42 } 0 = .ok [42, 42, 42, 49, 46, 53] := by decide
example : assembleFormat { precision := 2147483647, alwaysSigned := true, floatClass := .expUpper }
    = .ok [37, 43, 46, 50, 49, 52, 55, 52, 56, 51, 54, 52, 55, 69] := by decide

end StVerif.Props.C13
