/-
  C14 — hex and base64 encodings are standard and decode back to the original bytes.
  Property theorems only; helper lemmas live in Lemmas/Codec.lean.
-/
import StVerif.Lemmas.Codec
import StVerif.Lemmas.CodecDecode

namespace StVerif.Props.C14
open StVerif StVerif.Codec StVerif.Lemmas.Codec
open StVerif.Spec

/-- hex_encode produces two lower-case hexadecimal digits per byte (the declarative encoding) -/
theorem hexEncode_eq_spec (bs : List Nat) (h : Bytes bs) : hexEncode bs = Rfc4648.hexEncode bs := by
  induction bs with
  | nil => rfl
  | cons b rest ih =>
    have hb : b < 256 := h b (by simp)
    have hr : Bytes rest := fun x hx => h x (by simp [hx])
    simp only [hexEncode, Rfc4648.hexEncode, idx_hex_hi b hb, idx_hex_lo, ih hr]
    rw [hexChar_eq_digit' (by omega : b / 16 < 16), hexChar_eq_digit' (by omega : b % 16 < 16)]

theorem hexEncode_length (bs : List Nat) : (hexEncode bs).length = 2 * bs.length := by
  induction bs with
  | nil => rfl
  | cons b rest ih => simp only [hexEncode, List.length_cons, ih]; omega

/-- base64_encode is the RFC 4648 standard-alphabet encoding with `=` padding -/
theorem b64Encode_eq_spec (bs : List Nat) (h : Bytes bs) : b64Encode bs = Rfc4648.b64Encode bs := by
  fun_induction b64Encode bs with
  | case1 a b c rest ih =>
    have ha : a < 256 := h a (by simp)
    have hb : b < 256 := h b (by simp)
    have hc : c < 256 := h c (by simp)
    have hr : Bytes rest := fun x hx => h x (by simp [hx])
    simp only [Rfc4648.b64Encode, ih hr, idx_b64_0, idx_b64_1 a b ha hb, idx_b64_2 b c hb hc, idx_b64_3]
    rw [b64Char_eq_alphabet' (by omega : a / 4 < 64), b64Char_eq_alphabet' (by omega : a % 4 * 16 + b / 16 < 64),
        b64Char_eq_alphabet' (by omega : b % 16 * 4 + c / 64 < 64), b64Char_eq_alphabet' (by omega : c % 64 < 64)]
    have e0 : (a * 65536 + b * 256 + c) / 262144 % 64 = a / 4 := by omega
    have e1 : (a * 65536 + b * 256 + c) / 4096 % 64 = a % 4 * 16 + b / 16 := by omega
    have e2 : (a * 65536 + b * 256 + c) / 64 % 64 = b % 16 * 4 + c / 64 := by omega
    have e3 : (a * 65536 + b * 256 + c) % 64 = c % 64 := by omega
    rw [e0, e1, e2, e3]
  | case2 a b =>
    have ha : a < 256 := h a (by simp)
    have hb : b < 256 := h b (by simp)
    simp only [Rfc4648.b64Encode, idx_b64_0, idx_b64_1 a b ha hb, idx_b64_t2, eqSign]
    rw [b64Char_eq_alphabet' (by omega : a / 4 < 64), b64Char_eq_alphabet' (by omega : a % 4 * 16 + b / 16 < 64),
        b64Char_eq_alphabet' (by omega : b % 16 * 4 < 64)]
    have e0 : (a * 256 + b) * 4 / 4096 % 64 = a / 4 := by omega
    have e1 : (a * 256 + b) * 4 / 64 % 64 = a % 4 * 16 + b / 16 := by omega
    have e2 : (a * 256 + b) * 4 % 64 = b % 16 * 4 := by omega
    rw [e0, e1, e2]
  | case3 a =>
    have ha : a < 256 := h a (by simp)
    simp only [Rfc4648.b64Encode, idx_b64_0, idx_b64_t1, eqSign]
    rw [b64Char_eq_alphabet' (by omega : a / 4 < 64), b64Char_eq_alphabet' (by omega : a % 4 * 16 < 64)]
    have e0 : a * 16 / 64 % 64 = a / 4 := by omega
    have e1 : a * 16 % 64 = a % 4 * 16 := by omega
    rw [e0, e1]
  | case4 => rfl

/-- length 4·⌈n/3⌉, which is also what `b64_encode_size` allocates -/
theorem b64Encode_length (bs : List Nat) :
    (b64Encode bs).length = 4 * ((bs.length + 2) / 3) ∧ (b64Encode bs).length = b64EncodeSize bs.length := by
  fun_induction b64Encode bs with
  | case1 a b c rest ih => simp only [List.length_cons, b64EncodeSize] at *; omega
  | case2 a b => simp [b64EncodeSize]
  | case3 a => simp [b64EncodeSize]
  | case4 => simp [b64EncodeSize]

/-- the caller-buffer hex decoder returns the original bytes for any sufficient `output_size` -/
theorem hexDecodeInto_encode (bs : List Nat) (h : Bytes bs) (cap : Nat) (hc : bs.length ≤ cap) :
    hexDecodeInto (hexEncode bs) (some cap) = { writes := bs, ret := (bs.length : Int) } := by
  have hl := hexEncode_length bs
  unfold hexDecodeInto
  have e : 2 * bs.length / 2 = bs.length := by omega
  simp only [hl, e]
  rw [if_neg (by omega), if_neg (by omega), hexLoop_ok bs.length _ [] hl (hexOk_encode bs h), hexDecPairs_encode bs h]
  simp

/-- the allocating hex decoder returns the original bytes -/
theorem hexDecodeAlloc_encode (bs : List Nat) (h : Bytes bs) : hexDecodeAlloc (hexEncode bs) = .ok bs := by
  have hl := hexEncode_length bs
  have e : (hexEncode bs).length / 2 = bs.length := by omega
  unfold hexDecodeAlloc
  simp only [e, hexDecodeInto_encode bs h bs.length (Nat.le_refl _)]
  simp [hl]

/-- upper-case hex decodes to the same bytes as lower-case, through both decoder forms -/
theorem hexDecode_upper (bs : List Nat) (h : Bytes bs) :
    hexDecodeAlloc ((hexEncode bs).map Rfc4648.upperHex) = .ok bs ∧
    ∀ cap, bs.length ≤ cap →
      hexDecodeInto ((hexEncode bs).map Rfc4648.upperHex) (some cap) = { writes := bs, ret := (bs.length : Int) } := by
  have hl : ((hexEncode bs).map Rfc4648.upperHex).length = 2 * bs.length := by rw [List.length_map, hexEncode_length]
  have e : ((hexEncode bs).map Rfc4648.upperHex).length / 2 = bs.length := by omega
  have into : ∀ cap, bs.length ≤ cap →
      hexDecodeInto ((hexEncode bs).map Rfc4648.upperHex) (some cap) = { writes := bs, ret := (bs.length : Int) } := by
    intro cap hc
    unfold hexDecodeInto
    have e' : 2 * bs.length / 2 = bs.length := by omega
    simp only [hl, e']
    rw [if_neg (by omega), if_neg (by omega), hexLoop_ok bs.length _ [] hl (hexOk_encode_upper bs h), hexDecPairs_encode_upper bs h]
    simp
  refine ⟨?_, into⟩
  unfold hexDecodeAlloc
  simp only [e, into bs.length (Nat.le_refl _)]
  simp [hl]

/-- the caller-buffer base64 decoder returns the original bytes for any sufficient `output_size` -/
theorem b64DecodeInto_encode (bs : List Nat) (h : Bytes bs) (cap : Nat) (hc : bs.length ≤ cap) :
    b64DecodeInto (b64Encode bs) (some cap) = { writes := bs, ret := (bs.length : Int) } := by
  by_cases hne : bs = []
  · subst hne; rfl
  · obtain ⟨body, c0, c1, c2, c3, m, he, hbl, hok, hfin, hdec, hlen⟩ := b64Encode_shape bs h hne
    rw [he, b64Into_ok body c0 c1 c2 c3 m cap hbl (by omega) hok hfin, hdec, hlen]

/-- the allocating base64 decoder returns the original bytes -/
theorem b64DecodeAlloc_encode (bs : List Nat) (h : Bytes bs) : b64DecodeAlloc (b64Encode bs) = .ok bs := by
  by_cases hne : bs = []
  · subst hne; decide
  · obtain ⟨body, c0, c1, c2, c3, m, he, hbl, hok, hfin, hdec, hlen⟩ := b64Encode_shape bs h hne
    have hi := b64DecodeInto_encode bs h bs.length (Nat.le_refl _)
    unfold b64DecodeAlloc
    rw [he] at hi ⊢
    simp only [b64DecodeSize_split body c0 c1 c2 c3 m hbl, hlen, Int.toNat_natCast, hi]
    rw [if_neg (by omega), if_neg (by simp), if_neg (by omega), if_neg (by simp)]

/-- the regenerated tables are mutually inverse on their whole domain (re-checked whenever the
    source tables change) -/
theorem tables_inverse :
    (∀ i : Fin 64, b64Val (b64Char i.val) = (i.val : Int)) ∧ (∀ i : Fin 16, hexVal (hexChar i.val) = (i.val : Int)) ∧
    (∀ i : Fin 16, hexVal (Rfc4648.upperHex (hexChar i.val)) = (i.val : Int)) ∧
    (∀ b : Fin 256, decide (0 ≤ hexVal b.val) = Rfc4648.isHexDigit b.val) ∧
    (∀ b : Fin 256, decide (0 ≤ b64Val b.val) = Rfc4648.isB64Char b.val) ∧
    (∀ i : Fin 64, b64Char i.val = Rfc4648.alphabet i.val) ∧ (∀ i : Fin 16, hexChar i.val = Rfc4648.hexDigit i.val) :=
  ⟨b64Val_b64Char, hexVal_hexChar, hexVal_upper, hexVal_nonneg_iff, b64Val_nonneg_iff, b64Char_eq_alphabet, hexChar_eq_digit⟩

/-! non-vacuity -/
example : Bytes [0, 255, 16, 127, 128] := by decide
example : b64Encode [77, 97, 110, 255, 0] = [84, 87, 70, 117, 47, 119, 65, 61] := by decide
example : hexEncode [0, 255, 16] = [48, 48, 102, 102, 49, 48] := by decide

end StVerif.Props.C14
