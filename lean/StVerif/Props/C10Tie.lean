/- Tie of property C10 to the source: the theorems `translated function = model` (tools/gen_kernels.py regenerates
   StVerif/Generated/Kernels.lean from the C++ on every run).  Kept apart from Props/C10.lean so that a bridge that stops
   checking leaves the property's other theorems built and audited (DESIGN.md section 14). -/
import StVerif.Props.C10
import StVerif.Lemmas.KernelFormatString

namespace StVerif.Props.C10
open StVerif StVerif.Fmt StVerif.Lemmas.Fmt StVerif.Generated

/-- `ST::format_string` as translated from include/st_formatter.h on every run (the padding / truncation of every text-like
    argument; `static_cast<int>(size)` and the unsigned `minimum_length - size` as the explicit wrap-arounds they are) is the
    model's `formatString` for EVERY text length below 2^64 - also 2^31 and more, where the narrowing wraps - and every width
    and precision: the only thing read is `text.take` of the effective size, never anything outside the text -/
theorem translated_format_string_is_model (f : FormatSpec) (text : List Nat) (hpad : f.pad < 256) (hlen : text.length < 2 ^ 64) :
    StVerif.Generated.Kernels.format_string text (KernelBridge.alignCode f.alignment) f.minimumLength (StVerif.Cxx.toChar f.pad)
      f.precision 0 text.length 1 = .ok ((StVerif.Fmt.formatString f text).map KernelBridge.ofEvent) :=
  KernelBridge.format_string_eq_gen f text hpad hlen

end StVerif.Props.C10
