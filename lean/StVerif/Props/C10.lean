/-
  C10 — the format-string parser is total and memory-safe on every format string.

  `run fmt args` is the model of `ST::apply_format(writer, args…)` (Model/FmtParse.lean,
  Model/FmtRender.lean): the format string is read through `rd`, which is defined on the bytes of
  the string and on its terminating NUL only, so a read behind the terminator is the outcome
  `oob`; every loop carries an explicit progress guard whose failure is the outcome `stuck`.
  The theorems hold for every byte list as format string (no assumption on its content, not even
  the absence of zero bytes) and every argument list; the one condition on arguments, `Arg.WideOk`,
  says of wide-text arguments (`const wchar_t* / char16_t* / char32_t*`, `std::basic_string(_view)`
  of those) that their units fit the C++ type and that the text is below the documented 2^28-unit
  limit of the conversion functions — it is vacuous for every other argument.  Wide text that the
  default validation rejects makes the call throw `ST::unicode_error` (one of the exceptions the
  property names).

  What the machine does on the real code (loads, the libc `strtol`) is observed by the
  correspondence run under ASan with the format string in an exact-size heap block.
-/
import StVerif.Lemmas.FmtRender

namespace StVerif.Props.C10
open StVerif StVerif.Fmt StVerif.Lemmas.Fmt StVerif.Generated

/-- the assertion of a call, traced to its origin: some argument's formatter raised it under a
    spec that `parse_format` produced from this format string -/
def AssertOrigin (fmt : List Nat) (args : List Arg) (w : String) : Prop :=
  FieldAssert fmt (fun spec w => ∃ a ∈ args, formatType a spec = .assertFail w) w

/-- the core statement: the events of a format call are output, `bad_format`, `out_of_range`,
    `unicode_error` (a wide-text argument the default validation rejects) or the assertion of one
    argument's formatter — never `oob`, `stuck`, `ub` -/
theorem run_sat (fmt : List Nat) (args : List Arg) (hwd : ∀ a ∈ args, a.WideOk) :
    Sat (fun _ => True) (fun e => e = .badFormat ∨ e = .outOfRange ∨ e = .unicodeError) (AssertOrigin fmt args) (run (some fmt) args) := by
  refine applyFormat_sat fmt args.length (formattersOf args) (· = .unicodeError) _ (formattersOf_ok args _ _ ?_)
  intro a ha f
  have := formatType_sat_all a f (hwd a ha)
  revert this
  cases hft : formatType a f with
  | ok ev => intro _; trivial
  | assertFail w => intro _; exact ⟨a, ha, hft⟩
  | throw e => exact id
  | ub w => exact id
  | oob => exact id
  | stuck => exact id

/-- **never reads past the terminating NUL**: every index the parser reads is at most `|fmt|` -/
theorem parse_no_oob (fmt : Option (List Nat)) (args : List Arg) (hwd : ∀ a ∈ args, a.WideOk) : run fmt args ≠ .oob := by
  cases fmt with
  | none => simp [run, runEvents]
  | some f => exact (run_sat f args hwd).ne_oob

/-- **never hangs**: every iteration of `fetch_prefix`, of the specifier loop (including the
    `m_format_str = end − 1` re-scan after a `strtol` that consumed nothing) and of `apply_format`
    strictly advances and stays inside the string, so no progress guard ever fails -/
theorem parse_terminates (fmt : Option (List Nat)) (args : List Arg) (hwd : ∀ a ∈ args, a.WideOk) : run fmt args ≠ .stuck := by
  cases fmt with
  | none => simp [run, runEvents]
  | some f => exact (run_sat f args hwd).ne_stuck

theorem parse_no_ub (fmt : Option (List Nat)) (args : List Arg) (hwd : ∀ a ∈ args, a.WideOk) (w : String) : run fmt args ≠ .ub w := by
  cases fmt with
  | none => simp [run, runEvents]
  | some f => exact (run_sat f args hwd).ne_ub w

/-- a null format string throws `std::invalid_argument` from every entry point -/
theorem null_fmt (args : List Arg) (e : Entry) :
    run none args = .throw .invalidArgument ∧ runFormat e none args = .throw .invalidArgument := by
  simp [run, runEvents, runFormat, Outcome.bind]

/-- the outcomes of the sink-event level for *every* argument list (floating-point included):
    output, `bad_format`, `out_of_range`, the char-padding assertion, or — only if libc's `snprintf`
    reports a non-positive size — "Your libc doesn't support reporting format size" -/
theorem outcomes_all_args (fmt : List Nat) (args : List Arg) (hwd : ∀ a ∈ args, a.WideOk) :
    (∃ ev, run (some fmt) args = .ok ev) ∨ run (some fmt) args = .throw .badFormat ∨ run (some fmt) args = .throw .outOfRange ∨
    run (some fmt) args = .throw .unicodeError ∨
    (∃ w, run (some fmt) args = .assertFail w ∧ AssertClass w) := by
  have h := run_sat fmt args hwd
  revert h
  cases hr : run (some fmt) args with
  | ok ev => intro _; exact Or.inl ⟨ev, rfl⟩
  | throw e =>
    intro h; simp only [Sat] at h
    rcases h with rfl | rfl | rfl
    · exact Or.inr (Or.inl rfl)
    · exact Or.inr (Or.inr (Or.inl rfl))
    · exact Or.inr (Or.inr (Or.inr (Or.inl rfl)))
  | assertFail w =>
    intro h
    obtain ⟨p, spec, p', _, a, ha, hw⟩ := h
    refine Or.inr (Or.inr (Or.inr (Or.inr ⟨w, rfl, ?_⟩)))
    have := formatType_sat_all a spec (hwd a ha)
    rw [hw] at this
    exact this
  | ub w => exact fun h => h.elim
  | oob => exact fun h => h.elim
  | stuck => exact fun h => h.elim

/-- **the only way the process stops is the documented assertion**, and it is raised exactly by a
    field whose parsed spec has the character class together with a width or a pad character,
    applied to an integer or character argument.
    Floating-point renderings may have any length (64 bytes and more go through the heap buffer of
    the repaired code).  The one hypothesis is libc's contract that `snprintf` reports a positive
    size (`Arg.LibcRenders`); where glibc breaks it — a precision of about 2^31 — the result would
    have to exceed the documented 2^28-byte limit of `ST::string`, so that region is outside the
    property's domain; `outcomes_all_args` states what happens without the hypothesis. -/
theorem char_padding_only_assert (fmt : List Nat) (args : List Arg) (hfl : ∀ a ∈ args, a.LibcRenders)
    (hwd : ∀ a ∈ args, a.WideOk) (w : String) (h : run (some fmt) args = .assertFail w) :
    w = charPaddingMsg ∧
    ∃ p spec p' a, parseFormat fmt p = .ok (spec, p') ∧ a ∈ args ∧ a.IsIntegral = true ∧
      spec.digitClass = .chr ∧ (spec.minimumLength ≠ 0 ∨ spec.pad ≠ 0) := by
  have hs := run_sat fmt args hwd
  rw [h] at hs
  obtain ⟨p, spec, p', hp, a, ha, hw⟩ := hs
  have h1 := formatType_sat a spec (hfl a ha) (hwd a ha)
  rw [hw] at h1
  have h2 := (formatType_assert_iff a spec (hfl a ha) (hwd a ha)).mp ⟨w, hw⟩
  exact ⟨h1, p, spec, p', a, hp, ha, h2⟩

/-- conversely, a formatter handed such a spec does raise it (so the characterisation is exact) -/
theorem char_padding_assert_raised (a : Arg) (spec : FormatSpec)
    (h : a.IsIntegral = true ∧ spec.digitClass = .chr ∧ (spec.minimumLength ≠ 0 ∨ spec.pad ≠ 0)) :
    formatType a spec = .assertFail charPaddingMsg := by
  have hfl : a.LibcRenders := by
    cases a <;> first | trivial | (simp [Arg.IsIntegral] at h)
  have hwd : a.WideOk := by
    cases a <;> first | trivial | (simp [Arg.IsIntegral] at h)
  obtain ⟨w, hw⟩ := (formatType_assert_iff a spec hfl hwd).mpr h
  have h1 := formatType_sat a spec hfl hwd
  rw [hw] at h1
  rw [hw, h1]

/-- `string_stream::to_string(true, validation)`: the text, `unicode_error`, or the documented
    size limit of `ST::string` (2^28 bytes) -/
theorem toString_utf8_sat (m : Mode) (bytes : List Nat) :
    Sat (fun _ => True) (· = .unicodeError) (fun w => w = "String data buffer is too large" ∧ bytes.length ≥ hugeBufferSize)
      (toStringOf (.utf8 m) bytes) := by
  simp only [toStringOf, Utf.stringSetUtf8]
  split
  · rename_i h; exact ⟨rfl, h⟩
  · cases m with
    | assumeValid => trivial
    | substituteInvalid => trivial
    | checkValidity => simp only; split <;> simp [Sat]

/-- the same for every entry point (`format_latin_1` converts the bytes from Latin-1 and cannot
    fail except for the size limit) -/
theorem toString_sat (e : Entry) (bytes : List Nat) :
    Sat (fun _ => True) (· = .unicodeError) (fun w => w = "String data buffer is too large" ∧ bytes.length ≥ hugeBufferSize)
      (toStringOf e bytes) := by
  cases e with
  | utf8 m => exact toString_utf8_sat m bytes
  | latin1 => exact Sat.mono (toString_latin1_sat bytes) (fun _ => id) (fun _ => False.elim) (fun _ => id)

/-- **outcomes of `ST::format`** (default or explicit validation) and `ST::format_latin_1`: a string, `bad_format`,
    `out_of_range`, `unicode_error`, the documented char-padding assertion, or — for a result of
    2^28 bytes or more — the documented size-limit assertion of `ST::string`.
    Floating-point renderings of any length are covered.  The size-limit assertion and the
    `Arg.LibcRenders` hypothesis delimit the same edge of the domain: a format call whose result
    would reach 2^28 bytes has no result to return (documented limit of `ST::string`, 256 Mi), and a
    precision ≥ 2^28 — let alone the ≈ 2^31 at which glibc's `snprintf` returns a negative value and
    the library stops with "Your libc doesn't support reporting format size" (st_formatter.h:462) —
    can only ask for such a result. -/
theorem outcomes (e : Entry) (fmt : List Nat) (args : List Arg) (hfl : ∀ a ∈ args, a.LibcRenders)
    (hwd : ∀ a ∈ args, a.WideOk) :
    Sat (fun _ => True) (fun e => e = .badFormat ∨ e = .outOfRange ∨ e = .unicodeError)
      (fun w => w = charPaddingMsg ∨
        (w = "String data buffer is too large" ∧ ∃ ev, run (some fmt) args = .ok ev ∧ (flatten ev).length ≥ hugeBufferSize))
      (runFormat e (some fmt) args) := by
  unfold runFormat
  have hs := run_sat fmt args hwd
  cases hr : run (some fmt) args with
  | ok ev =>
    simp only [Outcome.bind]
    refine Sat.mono (toString_sat e (flatten ev)) (fun _ => id) (fun e he => Or.inr (Or.inr he)) ?_
    intro w ⟨hw, hl⟩
    exact Or.inr ⟨hw, ev, rfl, hl⟩
  | throw e =>
    rw [hr] at hs
    simp only [Outcome.bind, Sat] at hs ⊢
    rcases hs with h | h | h
    · exact Or.inl h
    · exact Or.inr (Or.inl h)
    · exact Or.inr (Or.inr h)
  | assertFail w =>
    simp only [Outcome.bind, Sat]
    exact Or.inl (char_padding_only_assert fmt args hfl hwd w hr).1
  | ub w => rw [hr] at hs; exact hs.elim
  | oob => rw [hr] at hs; exact hs.elim
  | stuck => rw [hr] at hs; exact hs.elim

/-- with no argument supplied, any specifier is `out_of_range` (before it is even parsed) and
    pure literal text is output -/
theorem zero_args (fmt : List Nat) :
    (∃ ev, run (some fmt) [] = .ok ev) ∨ run (some fmt) [] = .throw .outOfRange := by
  simp only [run, runEvents, applyFormat, List.length_nil, if_true]
  have := nextFormat_sat fmt 0 (Nat.zero_le _)
  revert this
  cases nextFormat fmt 0 with
  | ok r =>
    obtain ⟨ev, p, more⟩ := r
    intro _
    cases more <;> simp [Outcome.bind]
  | _ => simp [Sat]

/-! non-vacuity: each outcome is reachable -/
example : run (some [123, 125]) [.sint 32 5] = .ok [.appendChar 32 0, .append [53]] := by decide +kernel
example : run (some [123]) [.sint 32 5] = .throw .badFormat := by decide +kernel
example : run (some [123, 125, 123, 125]) [.sint 32 5] = .throw .outOfRange := by decide +kernel
example : run (some [123, 99, 49, 125]) [.sint 32 65] = .assertFail charPaddingMsg := by decide +kernel
example : runFormat (.utf8 .checkValidity) (some [128]) [] = .throw .unicodeError := by decide +kernel
/-- the re-scan after a `strtol` that consumed nothing: "{.}" has precision 0 -/
example : run (some [123, 46, 125]) [.str [97, 98]] = .ok [.append []] := by decide +kernel
example : (∀ a ∈ [Arg.sint 32 5, Arg.str [97]], a.LibcRenders) := by simp [Arg.LibcRenders]
/-- wide text: `{}` of u"é" (U+00E9) renders its UTF-8 bytes; an unpaired surrogate is `unicode_error` -/
example : run (some [123, 125]) [.wide .utf16 .checkValidity [0xE9]] = .ok [.append [0xC3, 0xA9]] := by decide +kernel
example : run (some [123, 125]) [.wide .utf16 .checkValidity [0xD800]] = .throw .unicodeError := by decide +kernel
example : (Arg.wide .utf16 .checkValidity [0xE9, 0xD800]).WideOk := by
  refine ⟨Or.inl ⟨rfl, ?_⟩, by decide⟩
  intro x hx; simp at hx; omega
/-- a 100-byte floating-point rendering is output in full (it used to abort, defect 13) -/
example : run (some [123, 125]) [.float (fun _ _ _ => List.replicate 100 49)] = .ok [.append (List.replicate 100 49)] := by
  decide +kernel

end StVerif.Props.C10
