/- Tie of property C09 to the source: the theorems `translated function = model` (tools/gen_kernels.py regenerates
   StVerif/Generated/Kernels.lean from the C++ on every run).  Kept apart from Props/C09.lean so that a bridge that stops
   checking leaves the property's other theorems built and audited (DESIGN.md section 14). -/
import StVerif.Props.C09
import StVerif.Lemmas.KernelBridge
import StVerif.Lemmas.KernelLoopsCompare
import StVerif.Lemmas.KernelLoopsFind

namespace StVerif.Props.C09
open StVerif StVerif.Split StVerif.Search StVerif.Lemmas.Split
open StVerif.Slice (cBytes Rev)
open StVerif.Generated (hugeBufferSize)

/-! ### tie to the source (tools/gen_kernels.py) -/

/-- `cl_fast_lower` / `cl_fast_upper` as translated from include/st_string_priv.h on every run are the model's case
    folds on every `char` value (the byte seen as the signed `char` the C++ receives) -/
theorem case_fold_is_model : ∀ b, b < 256 →
    StVerif.Generated.Kernels.cl_fast_lower (KernelBridge.toChar b) = .ok (KernelBridge.toChar (StVerif.Search.lower b)) ∧
    StVerif.Generated.Kernels.cl_fast_upper (KernelBridge.toChar b) = .ok (KernelBridge.toChar (StVerif.Search.upper b)) :=
  fun b hb => ⟨KernelBridge.cl_fast_lower_eq b hb, KernelBridge.cl_fast_upper_eq b hb⟩

/-- `compare_ci(left, right, fsize)` as translated from include/st_string_priv.h on every run (two source ranges, the
    `while (fsize--)` loop with its unsigned post-decrement) is the model's `compareCi3` on the first `n` units of any two
    ranges that hold at least `n` units: it never reads outside either range -/
theorem translated_compare_ci_is_model (l r : List Nat) (hl : ∀ b ∈ l, b < 256) (hr : ∀ b ∈ r, b < 256) (n : Nat)
    (hn : n ≤ l.length) (hn' : n ≤ r.length) (hn64 : n < 2 ^ 64) (fuel : Nat) (hf : n < fuel) :
    StVerif.Generated.Kernels.compare_ci l r fuel 0 0 n = .ok (StVerif.Compare.compareCi3 (l.take n) (r.take n)) :=
  KernelBridge.compare_ci_eq l r hl hr n hn hn' hn64 fuel hf

/-- `find_ci(haystack, size, ch)` as translated from include/st_string_priv.h on every run (a pointer result is the index
    found, or the null pointer) is the model's case-insensitive scan for one character: the first index whose folded byte
    equals the folded needle; it never reads outside the haystack -/
theorem translated_find_ci_is_model (mem : List Nat) (hb : ∀ b ∈ mem, b < 256) (c : Nat) (hc : c < 256) (fuel : Nat)
    (hf : mem.length < fuel) :
    StVerif.Generated.Kernels.find_ci mem fuel 0 mem.length (StVerif.Cxx.toChar c)
      = .ok (StVerif.Search.scanChar .insensitive c mem 0) :=
  KernelBridge.find_ci_eq mem hb c hc fuel hf

end StVerif.Props.C09
