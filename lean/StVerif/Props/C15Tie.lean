/- Tie of property C15 to the source: the theorems `translated function = model` (tools/gen_kernels.py regenerates
   StVerif/Generated/Kernels.lean from the C++ on every run).  Kept apart from Props/C15.lean so that a bridge that stops
   checking leaves the property's other theorems built and audited (DESIGN.md section 14). -/
import StVerif.Props.C15
import StVerif.Lemmas.KernelLoopsDecode

namespace StVerif.Props.C15
open StVerif StVerif.Codec StVerif.Lemmas.Codec
open StVerif.Spec

/-! ### tie to the source (tools/gen_kernels.py): the decoders into a caller buffer as translated from the C++ on every run

`Generated.Kernels.hex_decode / b64_decode / b64_decode_size` are include/st_codecs_priv.h as the translator reads it
now: the `ST::string` argument is the range `txt ++ [0]` (`c_str()`) with its `size()`, the output buffer is the flag
"null pointer" and the list of bytes stored, the value tables are the tables the functions declare. -/

/-- the translated decoders are the model's, for every text, every capacity and the null (size query) form: same return
    value, same bytes stored, no load outside the text (not even of its terminating NUL), no table index out of range -/
theorem translated_decoders_are_model (txt : List Nat) (hb : ∀ b ∈ txt, b < 256) (hlen : txt.length < 2 ^ 28)
    (cap : Option Nat) (fuel : Nat) (hf : txt.length < fuel) :
    StVerif.Generated.Kernels.b64_decode_size (txt ++ [0]) txt.length 0 = .ok (b64DecodeSize txt) ∧
    StVerif.Generated.Kernels.hex_decode (txt ++ [0]) fuel txt.length cap.isNone (cap.getD 0)
      = .ok ((hexDecodeInto txt cap).ret, (hexDecodeInto txt cap).writes) ∧
    StVerif.Generated.Kernels.b64_decode (txt ++ [0]) fuel txt.length cap.isNone (cap.getD 0)
      = .ok ((b64DecodeInto txt cap).ret, (b64DecodeInto txt cap).writes) :=
  ⟨KernelBridge.b64_decode_size_eq txt hb hlen, KernelBridge.hex_decode_eq txt hb cap fuel hf,
   KernelBridge.b64_decode_eq txt hb hlen cap fuel hf⟩

/-- End to end, about the translated code alone: whatever text it is given and whatever it returns, the translated
    `hex_decode` / `b64_decode` never store more than `output_size` bytes into the caller's buffer -/
theorem translated_decoders_never_overrun (txt : List Nat) (hb : ∀ b ∈ txt, b < 256) (hlen : txt.length < 2 ^ 28)
    (cap : Nat) (fuel : Nat) (hf : txt.length < fuel) (ret : Int) (out : List Nat) :
    (StVerif.Generated.Kernels.hex_decode (txt ++ [0]) fuel txt.length false cap = .ok (ret, out) → out.length ≤ cap) ∧
    (StVerif.Generated.Kernels.b64_decode (txt ++ [0]) fuel txt.length false cap = .ok (ret, out) → out.length ≤ cap) := by
  constructor
  · intro h
    have e := KernelBridge.hex_decode_eq txt hb (some cap) fuel hf
    simp only [Option.isNone_some, Option.getD_some] at e
    rw [e] at h
    cases h
    exact hexDecodeInto_writes_le txt hb cap
  · intro h
    have e := KernelBridge.b64_decode_eq txt hb hlen (some cap) fuel hf
    simp only [Option.isNone_some, Option.getD_some] at e
    rw [e] at h
    cases h
    exact b64DecodeInto_writes_le txt hb cap

end StVerif.Props.C15
