/-
  C07 — Searching returns exactly the first/last occurrence for any haystack and needle.
  Property theorems only; helper lemmas live in Lemmas/Search.lean, Lemmas/SearchSpec.lean,
  Lemmas/Find.lean.

  Vocabulary: `find`, `findLast`, `findAll`, `findLastAll`, `contains`, `startsWith`, `endsWith`
  are the models of the public members (Model/Find.lean); `Needle` / `Affix` are the overload
  families; `Needle.text` is the text an argument denotes (a char = the one-unit text, a
  `const char*` = the bytes before the first NUL, nothing for a null pointer); `IsFind`,
  `IsFindLast`, `Contains`, `StartsWith`, `EndsWith`, `occursAt` are the Spec (Spec/Search.lean).
  Haystacks and needles are arbitrary lists of units (all byte values, embedded NUL included),
  `start` and `max` range over all of `Nat` (so `SIZE_MAX` and everything beyond the end).
-/
import StVerif.Lemmas.Find

namespace StVerif.Props.C07
open StVerif StVerif.Search StVerif.Spec.Search
open StVerif.Lemmas.Search StVerif.Lemmas.SearchSpec StVerif.Lemmas.Find

/-- `find(start, needle, cs)` is the least index `≥ start` at which the needle's text occurs, and
    `-1` exactly when there is none, the text is empty (or the pointer null), or `start ≥ size`. -/
theorem find_eq_spec (cs : CaseMode) (s : List Nat) (start : Nat) (nd : Needle) :
    IsFind cs s start nd.text (find cs s start nd) := by
  rw [find_eq_sized]; exact find_sized_isFind cs s start nd.text

/-- the same, as an equation with the executable form of the Spec the driver evaluates -/
theorem find_eq_findRef (cs : CaseMode) (s : List Nat) (start : Nat) (nd : Needle) :
    find cs s start nd = findRef cs s start nd.text :=
  (isFind_iff_findRef ..).1 (find_eq_spec cs s start nd)

/-- `find_last(max, needle, cs)` is the greatest index of an occurrence lying entirely before `max`
    (`i + |needle| ≤ max`), `-1` when there is none or the text is empty. -/
theorem find_last_eq_spec (cs : CaseMode) (s : List Nat) (max : Nat) (nd : Needle) :
    IsFindLast cs s max nd.text (findLast cs s max nd) := by
  rw [findLast_eq_sized]; exact findLast_sized_isFindLast cs s max nd.text

theorem find_last_eq_findLastRef (cs : CaseMode) (s : List Nat) (max : Nat) (nd : Needle) :
    findLast cs s max nd = findLastRef cs s max nd.text :=
  (isFindLast_iff_findLastRef ..).1 (find_last_eq_spec cs s max nd)

/-- the overloads without a position: `find(needle)` searches from 0, `find_last(needle)` has no limit
    (`ST_AUTO_SIZE = SIZE_MAX` lies beyond every occurrence; stated for every limit `≥ size`) -/
theorem find_all_eq_spec (cs : CaseMode) (s : List Nat) (nd : Needle) :
    IsFind cs s 0 nd.text (findAll cs s nd) := find_eq_spec cs s 0 nd

theorem find_last_all_eq_spec (cs : CaseMode) (s : List Nat) (nd : Needle) :
    IsFindLast cs s SIZE_MAX nd.text (findLastAll cs s nd) := find_last_eq_spec cs s SIZE_MAX nd

/-- a limit at or beyond the end is no limit: `find_last(max, …)` for every `max ≥ size` is the last
    occurrence in the whole text -/
theorem find_last_limit_beyond_end (cs : CaseMode) (s : List Nat) (max max' : Nat) (nd : Needle)
    (h : s.length ≤ max) (h' : s.length ≤ max') : findLast cs s max nd = findLast cs s max' nd := by
  apply isFindLast_unique cs s max nd.text _ _ (find_last_eq_spec cs s max nd)
  rcases find_last_eq_spec cs s max' nd with ⟨i, e, hne, hle, ho, hm⟩ | ⟨e, hn⟩
  · refine Or.inl ⟨i, e, hne, by have := ho.1; omega, ho, fun j h1 _ hj => hm j h1 (by have := hj.1; omega) hj⟩
  · refine Or.inr ⟨e, ?_⟩
    rcases hn with hn | hn
    · exact Or.inl hn
    · exact Or.inr fun j _ hj => hn j (by have := hj.1; omega) hj

/-- `contains` is true exactly when `find` succeeds, i.e. exactly when the (non-empty) text occurs -/
theorem contains_iff (cs : CaseMode) (s : List Nat) (nd : Needle) :
    (contains cs s nd = true ↔ findAll cs s nd ≥ 0) ∧
    (contains cs s nd = true ↔ Contains cs s nd.text) := by
  refine ⟨by simp [contains], ?_⟩
  simp only [contains, decide_eq_true_eq, Contains]
  rcases find_all_eq_spec cs s nd with ⟨i, e, hne, _, _, ho, _⟩ | ⟨e, hn⟩
  · rw [e]; exact ⟨fun _ => ⟨hne, i, ho⟩, fun _ => by omega⟩
  · rw [e]
    constructor
    · intro h; omega
    · rintro ⟨hne, i, ho⟩
      rcases hn with h | h | h
      · exact absurd h hne
      · have := ho.1
        have : 0 < nd.text.length := List.length_pos_iff.2 hne
        omega
      · exact absurd ho (h i (Nat.zero_le _))

/-- `starts_with` is true exactly when the text begins with the argument's text (trivially for the
    empty text and the null pointer); bytes are 0..255 -/
theorem starts_with_iff (cs : CaseMode) (s : List Nat) (a : Affix) (bs : Bytes s) (ba : Bytes a.text) :
    startsWith cs s a = true ↔ StartsWith cs s a.text := startsWith_iff cs s a bs ba

/-- `ends_with` is true exactly when the text ends with the argument's text -/
theorem ends_with_iff (cs : CaseMode) (s : List Nat) (a : Affix) :
    endsWith cs s a = true ↔ EndsWith cs s a.text := endsWith_iff cs s a

theorem affix_empty_trivial (cs : CaseMode) (s : List Nat) : StartsWith cs s [] ∧ EndsWith cs s [] := by
  simp [StartsWith, EndsWith, norm_nil]

/-- the case-insensitive variants match modulo ASCII case only: searching case-insensitively is
    searching case-sensitively after folding `A`-`Z` to `a`-`z` in haystack and needle, and an
    occurrence modulo case is an occurrence of the folded needle in the folded haystack -/
theorem ci_eq_cs_on_fold (s : List Nat) (pos : Nat) (nd : Needle) :
    find .insensitive s pos nd = find .sensitive (s.map foldAscii) pos (nd.map foldAscii) ∧
    findLast .insensitive s pos nd = findLast .sensitive (s.map foldAscii) pos (nd.map foldAscii) ∧
    (∀ needle i, occursAt .insensitive s needle i ↔
        occursAt .sensitive (s.map foldAscii) (needle.map foldAscii) i) := by
  refine ⟨?_, ?_, fun needle i => occursAt_fold s needle i⟩
  · rw [find_eq_findRef, find_eq_findRef, Needle.text_map_fold, findRef_fold]
  · rw [find_last_eq_findLastRef, find_last_eq_findLastRef, Needle.text_map_fold, findLastRef_fold]

/-- folding touches nothing but the 26 upper-case ASCII letters -/
theorem fold_only_ascii_upper (c : Nat) :
    foldAscii c = if 0x41 ≤ c ∧ c ≤ 0x5A then c + 32 else c := by
  unfold foldAscii; split <;> split <;> omega

/-- the char, `const char*`, `(pointer,length)` and `ST::string` forms of a needle give the same
    answer whenever they denote the same text -/
theorem needle_forms_agree (cs : CaseMode) (s : List Nat) (pos : Nat) (nd nd' : Needle) (h : nd.text = nd'.text) :
    find cs s pos nd = find cs s pos nd' ∧ findLast cs s pos nd = findLast cs s pos nd' ∧
    findAll cs s nd = findAll cs s nd' ∧ findLastAll cs s nd = findLastAll cs s nd' ∧
    contains cs s nd = contains cs s nd' := by
  have e1 : ∀ p, find cs s p nd = find cs s p nd' := fun p => by rw [find_eq_sized, h, ← find_eq_sized]
  have e2 : ∀ p, findLast cs s p nd = findLast cs s p nd' := fun p => by rw [findLast_eq_sized, h, ← findLast_eq_sized]
  exact ⟨e1 pos, e2 pos, e1 0, e2 SIZE_MAX, by simp [contains, findAll, e1 0]⟩

/-- the instances named in the property: a `char` is the one-unit text, a `const char*` is the bytes
    before its first NUL, `(ptr,len)` and `ST::string` are the units themselves -/
theorem needle_forms_agree_instances (cs : CaseMode) (s : List Nat) (pos : Nat) (c : Nat) (p : List Nat) :
    find cs s pos (.ch c) = find cs s pos (.sized [c]) ∧
    find cs s pos (.cstr (some p)) = find cs s pos (.sized (cstr p)) ∧
    find cs s pos (.str p) = find cs s pos (.sized p) ∧
    findLast cs s pos (.ch c) = findLast cs s pos (.sized [c]) ∧
    findLast cs s pos (.cstr (some p)) = findLast cs s pos (.sized (cstr p)) ∧
    findLast cs s pos (.str p) = findLast cs s pos (.sized p) :=
  ⟨(needle_forms_agree cs s pos (.ch c) (.sized [c]) rfl).1,
   (needle_forms_agree cs s pos (.cstr (some p)) (.sized (cstr p)) rfl).1,
   (needle_forms_agree cs s pos (.str p) (.sized p) rfl).1,
   (needle_forms_agree cs s pos (.ch c) (.sized [c]) rfl).2.1,
   (needle_forms_agree cs s pos (.cstr (some p)) (.sized (cstr p)) rfl).2.1,
   (needle_forms_agree cs s pos (.str p) (.sized p) rfl).2.1⟩

/-- the same for the two affix forms of `starts_with` / `ends_with` -/
theorem affix_forms_agree (cs : CaseMode) (s : List Nat) (a a' : Affix) (h : a.text = a'.text)
    (bs : Bytes s) (ba : Bytes a.text) :
    startsWith cs s a = startsWith cs s a' ∧ endsWith cs s a = endsWith cs s a' := by
  constructor
  · have := starts_with_iff cs s a bs ba
    have := starts_with_iff cs s a' bs (h ▸ ba)
    rw [Bool.eq_iff_iff]; simp_all
  · have := ends_with_iff cs s a
    have := ends_with_iff cs s a'
    rw [Bool.eq_iff_iff]; simp_all

/-! ### non-vacuity and the cases the property names -/

/-- self-overlapping needle: "aab" in "aaab" is found at 1 -/
example : find .sensitive [0x61, 0x61, 0x61, 0x62] 0 (.str [0x61, 0x61, 0x62]) = 1 := by decide
/-- a first-character hit whose remainder runs past the end -/
example : find .sensitive [0x61, 0x62, 0x61] 0 (.str [0x61, 0x62, 0x61, 0x62]) = -1 := by decide
/-- a limit that cuts an occurrence in two -/
example : findLast .sensitive [0x61, 0x62, 0x61, 0x62] 3 (.str [0x61, 0x62]) = 0 := by decide
example : findLast .sensitive [0x61, 0x62, 0x61, 0x62] 4 (.str [0x61, 0x62]) = 2 := by decide
/-- NUL inside haystack and needle through the sized form; the `const char*` form sees the text before it -/
example : find .sensitive [0x61, 0, 0x62] 0 (.sized [0, 0x62]) = 1 := by decide
example : find .sensitive [0x61, 0, 0x62] 0 (.cstr (some [0x61, 0, 0x63])) = 0 := by decide
/-- case-insensitive -/
example : find .insensitive [0x41, 0x42, 0x43] 0 (.str [0x62, 0x63]) = 1 := by decide
example : occursAt .insensitive [0x41, 0x42, 0x43] [0x62, 0x63] 1 := by decide

/-- the byte hypotheses of `starts_with_iff` / `affix_forms_agree` are satisfiable (any byte values, NUL and ≥ 0x80 included) -/
example : Bytes [0x00, 0x41, 0x80, 0xFF] ∧ Bytes (Affix.text (.cstr (some [0x61, 0x00, 0x62]))) := by decide

end StVerif.Props.C07
