/-
  C06 — Comparison is a total order; operators, overloads and hashes agree with it.
  STATE BEFORE THE REPAIR of the size-difference narrowing (DESIGN section 5, defect 7): the model
  returns `static_cast<int>(lsize - rsize)` when the common prefix is equal, as the pinned tree does.
-/
import StVerif.Lemmas.Compare

namespace StVerif.Props.C06
open StVerif StVerif.Search StVerif.Compare StVerif.Spec.Compare
open StVerif.Lemmas.Compare StVerif.Lemmas.CompareSpec

/-- PARTIAL: the sign of `compare` is the lexicographic three-way comparison *provided the size
    difference fits an `int`*.  Missing: operands whose lengths differ by 2^31 or more, where the
    narrowed difference has the wrong sign or is zero (witnesses below). -/
theorem sign_compare_eq_lex_partial (e : Elem) (a b : List Nat) (ha : a.length < 2 ^ 64) (hb : b.length < 2 ^ 64)
    (hd : (a.length : Int) - b.length < 2 ^ 31 ∧ (b.length : Int) - a.length ≤ 2 ^ 31) :
    Int.sign (compareSized e a a.length b b.length) = lexSign e.key a b := by
  unfold compareSized
  simp only []
  rw [traitsCompare_eq_lexSign e _ _ (take_min_length a b), lexSign_decomp e.key a b]
  simp only []
  split
  · exact sign_lexSign ..
  · exact sizeDiffNarrowed_sign _ _ ha hb hd

/-- the empty buffer compares EQUAL to any buffer of 2^32 units (nothing is dereferenced: the
    common prefix is empty) -/
theorem narrowing_witness_zero : compareSized .char [] 0 [0x78] (2 ^ 32) = 0 := by decide

/-- a buffer of 2^31 units sorts BEFORE the empty buffer -/
theorem narrowing_witness_sign : compareSized .char [0x78] (2 ^ 31) [] 0 < 0 := by decide

theorem narrowing_witness_ci : compareCiSized [0x78] (2 ^ 31) [] 0 < 0 ∧ compareCiSized [] 0 [0x78] (2 ^ 32) = 0 := by decide

end StVerif.Props.C06
