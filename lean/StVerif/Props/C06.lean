/-
  C06 — Comparison is a total order; operators, overloads and hashes agree with it.
  Property theorems only; helper lemmas live in Lemmas/Compare.lean and Lemmas/CompareSpec.lean.

  Vocabulary.  Model (Model/Compare.lean): `compareSized e l lsize r rsize` is the static
  `buffer<char_T>::compare(left, lsize, right, rsize)` (lengths are separate arguments, so operands
  of any length are expressible), `strCompare cs a rhs` / `strCompareN` are `ST::string::compare` /
  `compare_n` for both case modes and every right-hand overload (`Rhs`: another string, a
  `const char*`, `nullptr`), `bufCompare e` / `bufCompareN e` the `ST::buffer` members for the four
  element types, `strLt/strEq/strNe`, `lessI/equalI`, `hash/hashI`, `toUpper/toLower`.
  Spec (Spec/Compare.lean): `lexSign key a b ∈ {-1,0,1}` is lexicographic three-way comparison (first
  difference in the order of `key`, else the shorter text first), `lexUnsigned` its instance for the
  unsigned unit value, `LexLt` the textbook "sorts strictly before", `FoldEq` equality after
  folding ASCII `A`-`Z` to `a`-`z`.

  The model mirrors the repaired code (`fix:` commit "compare returned the size difference narrowed
  to int"); `narrowed_difference_was_wrong` keeps the defect of the pinned tree on record.
-/
import StVerif.Lemmas.Compare

namespace StVerif.Props.C06
open StVerif StVerif.Search StVerif.Compare StVerif.Spec.Compare
open StVerif.Spec.Search (foldAscii cstr)
open StVerif.Lemmas.Compare StVerif.Lemmas.CompareSpec

/-! ### the order -/

/-- case-sensitive `compare` of two texts of ANY lengths (also lengths differing by 2^31 or more)
    has the sign of — in fact equals — lexicographic comparison in the element order, a proper
    prefix sorting first; for `char`, `char16_t`, `char32_t` that order is the unsigned unit value -/
theorem sign_compare_eq_lex (e : Elem) (a b : List Nat) :
    Int.sign (compareSized e a a.length b b.length) = lexSign e.key a b ∧
    (e ≠ .wchar → Int.sign (compareSized e a a.length b b.length) = lexUnsigned a b) := by
  rw [compareSized_eq_lexSign, sign_lexSign]
  exact ⟨rfl, fun h => by rw [key_unsigned e h]; rfl⟩

/-- `wchar_t` buffers: unsigned order for units below 2^31 (every code point); see
    `wchar_high_units_signed_witness` for the rest -/
theorem sign_compare_eq_lex_wchar (a b : List Nat) (ha : UnitsLt (2 ^ 31) a) (hb : UnitsLt (2 ^ 31) b) :
    Int.sign (compareSized .wchar a a.length b b.length) = lexUnsigned a b := by
  rw [(sign_compare_eq_lex .wchar a b).1, lexSign_wchar_low a b ha hb]; rfl

/-- platform fact made explicit: `char_traits<wchar_t>::compare` is `wmemcmp`, which orders units at
    or above 2^31 (not code points) as negative numbers -/
theorem wchar_high_units_signed_witness :
    compareSized .wchar [0x80000000] 1 [0x41] 1 < 0 ∧ lexUnsigned [0x80000000] [0x41] = 1 := by decide

/-- `ST::string::compare(str)` (case-sensitive): bytewise unsigned lexicographic order, embedded
    NULs included, for every right-hand overload on the text it denotes -/
theorem string_compare_eq_lex (a : List Nat) (r : Rhs) :
    Int.sign (strCompare .sensitive a r) = lexUnsigned a r.text := by
  rw [strCompare_eq_text]
  exact (sign_compare_eq_lex .char a r.text).2 (by decide)

/-- `lexUnsigned` is the textbook order: -1 exactly when `a` sorts strictly before `b` (a proper
    prefix first, else the first differing byte decides), 0 exactly for equal texts -/
theorem lex_is_textbook (a b : List Nat) :
    (lexUnsigned a b = -1 ↔ LexLt (fun x y => x < y) a b) ∧ (lexUnsigned a b = 0 ↔ a = b) ∧
    (lexUnsigned a b = 1 ↔ LexLt (fun x y => x < y) b a) := by
  have key : ∀ a b, lexUnsigned a b = -1 ↔ LexLt (fun x y => x < y) a b := by
    intro a b
    unfold lexUnsigned
    rw [lexSign_neg_iff_LexLt unsignedKey unsignedKey_inj]
    simp only [unsignedKey, Int.ofNat_lt]
  refine ⟨key a b, lexSign_eq_zero_iff_eq unsignedKey unsignedKey_inj a b, ?_⟩
  rw [← key b a]
  unfold lexUnsigned
  rw [lexSign_swap unsignedKey a b]
  omega

/-- antisymmetry, both case modes, operands of any length: the sign of `compare(b,a)` is the negation
    of the sign of `compare(a,b)` -/
theorem antisymm (cs : CaseMode) (a b : List Nat) :
    Int.sign (strCompare cs b (.str a)) = - Int.sign (strCompare cs a (.str b)) := by
  show Int.sign (compareMode cs b b.length a a.length) = - Int.sign (compareMode cs a a.length b b.length)
  rw [compareMode_sign, compareMode_sign, lexSign_swap]

theorem antisymm_buffer (e : Elem) (a b : List Nat) :
    Int.sign (bufCompare e b (.str a)) = - Int.sign (bufCompare e a (.str b)) := by
  show Int.sign (compareSized e b b.length a a.length) = - Int.sign (compareSized e a a.length b b.length)
  rw [compareSized_eq_lexSign, compareSized_eq_lexSign, lexSign_swap, Int.sign_neg]

/-- transitivity, both case modes -/
theorem trans (cs : CaseMode) (a b c : List Nat) :
    (strCompare cs a (.str b) ≤ 0 → strCompare cs b (.str c) ≤ 0 → strCompare cs a (.str c) ≤ 0) ∧
    (strCompare cs a (.str b) < 0 → strCompare cs b (.str c) ≤ 0 → strCompare cs a (.str c) < 0) ∧
    (strCompare cs a (.str b) ≤ 0 → strCompare cs b (.str c) < 0 → strCompare cs a (.str c) < 0) := by
  have s : ∀ x y : List Nat, (strCompare cs x (.str y) ≤ 0 ↔ lexSign (modeKey cs) x y ≤ 0) ∧
      (strCompare cs x (.str y) < 0 ↔ lexSign (modeKey cs) x y < 0) := by
    intro x y
    have h : Int.sign (strCompare cs x (.str y)) = lexSign (modeKey cs) x y := compareMode_sign cs x y
    rw [← h]
    constructor
    · rw [Int.sign_nonpos_iff]
    · rw [Int.sign_neg_iff]
  have t := lexSign_trans (modeKey cs) a b c
  simp only [(s a b).1, (s a b).2, (s b c).1, (s b c).2, (s a c).1, (s a c).2]
  exact t

theorem trans_buffer (e : Elem) (a b c : List Nat) :
    (bufCompare e a (.str b) ≤ 0 → bufCompare e b (.str c) ≤ 0 → bufCompare e a (.str c) ≤ 0) ∧
    (bufCompare e a (.str b) < 0 → bufCompare e b (.str c) ≤ 0 → bufCompare e a (.str c) < 0) ∧
    (bufCompare e a (.str b) ≤ 0 → bufCompare e b (.str c) < 0 → bufCompare e a (.str c) < 0) := by
  show (compareSized e a a.length b b.length ≤ 0 → compareSized e b b.length c c.length ≤ 0 → compareSized e a a.length c c.length ≤ 0) ∧
    (compareSized e a a.length b b.length < 0 → compareSized e b b.length c c.length ≤ 0 → compareSized e a a.length c c.length < 0) ∧
    (compareSized e a a.length b b.length ≤ 0 → compareSized e b b.length c c.length < 0 → compareSized e a a.length c c.length < 0)
  simp only [compareSized_eq_lexSign]
  exact lexSign_trans e.key a b c

/-- zero exactly for equal operands (case-sensitive) -/
theorem zero_iff_eq (a b : List Nat) : strCompare .sensitive a (.str b) = 0 ↔ a = b := by
  show compareSized .char a a.length b b.length = 0 ↔ a = b
  rw [compareSized_eq_lexSign]
  exact lexSign_eq_zero_iff_eq _ (fun x y h => by simp only [Elem.key] at h; omega) a b

theorem zero_iff_eq_buffer (e : Elem) (a b : List Nat) (ha : UnitsLt (2 ^ e.bits) a) (hb : UnitsLt (2 ^ e.bits) b) :
    bufCompare e a (.str b) = 0 ↔ a = b := by
  show compareSized e a a.length b b.length = 0 ↔ a = b
  rw [compareSized_eq_lexSign, lexSign_eq_zero_iff]
  exact ⟨map_key_inj e a b ha hb, fun h => by rw [h]⟩

/-- case-insensitive compare is zero exactly for operands equal after folding ASCII `A`-`Z` to `a`-`z` -/
theorem ci_zero_iff_fold_eq (a b : List Nat) (ha : Bytes a) (hb : Bytes b) :
    strCompare .insensitive a (.str b) = 0 ↔ FoldEq a b := by
  have h : Int.sign (strCompare .insensitive a (.str b)) = lexSign ciKey a b := compareCiSized_sign a b
  rw [← Int.sign_eq_zero_iff_zero, h, lexSign_eq_zero_iff, map_ciKey_eq_iff a b ha hb]
  rfl

/-- case-insensitive compare is a total preorder: total and antisymmetric in sign, transitive, and
    its equivalence is `FoldEq` -/
theorem ci_preorder (a b c : List Nat) :
    Int.sign (strCompare .insensitive b (.str a)) = - Int.sign (strCompare .insensitive a (.str b)) ∧
    (strCompare .insensitive a (.str b) ≤ 0 ∨ strCompare .insensitive b (.str a) ≤ 0) ∧
    (strCompare .insensitive a (.str b) ≤ 0 → strCompare .insensitive b (.str c) ≤ 0 → strCompare .insensitive a (.str c) ≤ 0) := by
  refine ⟨antisymm .insensitive a b, ?_, (trans .insensitive a b c).1⟩
  have h := antisymm .insensitive a b
  rw [← Int.sign_nonpos_iff, ← Int.sign_nonpos_iff (x := strCompare .insensitive b (.str a))]
  omega

/-! ### overloads, operators, functors -/

/-- `==`, `!=`, `<`, the `const char*` / null / buffer / `ST::string` overloads, `compare_i`,
    `less_i` and `equal_i` all agree with `compare` -/
theorem ops_agree (cs : CaseMode) (e : Elem) (a b : List Nat) (r : Rhs) (n : Nat) :
    (strLt a b = true ↔ strCompare .sensitive a (.str b) < 0) ∧
    (strEq a r = true ↔ strCompare .sensitive a r = 0) ∧
    (strNe a r = true ↔ strCompare .sensitive a r ≠ 0) ∧
    (strNe a r = !strEq a r) ∧
    -- every right-hand overload compares as the text it denotes (C string before its first NUL; null = empty)
    strCompare cs a r = strCompare cs a (.str r.text) ∧
    strCompareN cs a r n = strCompareN cs a (.str r.text) n ∧
    bufCompare e a r = bufCompare e a (.str r.text) ∧
    bufCompareN e a r n = bufCompareN e a (.str r.text) n ∧
    -- ST::string compare is the char buffer compare
    strCompare .sensitive a r = bufCompare .char a r ∧
    -- compare_i / compare_ni / less_i / equal_i
    strCompareI a r = strCompare .insensitive a r ∧
    strCompareNI a r n = strCompareN .insensitive a r n ∧
    (lessI a b = true ↔ strCompareI a (.str b) < 0) ∧
    (equalI a b = true ↔ strCompareI a (.str b) = 0) ∧
    -- buffer operators
    (bufLt e a b = true ↔ bufCompare e a (.str b) < 0) ∧
    (bufEq e a b = true ↔ bufCompare e a (.str b) = 0) ∧
    (bufNe e a b = true ↔ bufCompare e a (.str b) ≠ 0) := by
  refine ⟨by simp [strLt], by simp [strEq], by simp [strNe], by simp [strNe, strEq],
    strCompare_eq_text cs a r, strCompareN_eq_text cs a r n, bufCompare_eq_text e a r, bufCompareN_eq_text e a r n,
    rfl, rfl, rfl, by simp [lessI], by simp [equalI], by simp [bufLt], by simp [bufEq], by simp [bufNe]⟩

/-- consequently `==` is equality of the texts and `<` is the textbook order -/
theorem operators_meaning (a b : List Nat) :
    (strEq a (.str b) = true ↔ a = b) ∧ (strNe a (.str b) = true ↔ a ≠ b) ∧
    (strLt a b = true ↔ LexLt (fun x y => x < y) a b) := by
  have hz := zero_iff_eq a b
  refine ⟨by simp [strEq, hz], by simp [strNe, hz], ?_⟩
  have hs := string_compare_eq_lex a (.str b)
  simp only [Rhs.text] at hs
  rw [← (lex_is_textbook a b).1, ← hs]
  simp only [strLt, decide_eq_true_eq]
  rw [Int.sign_eq_neg_one_iff_neg]

/-- `compare_n(x, n)` is the comparison of the first `n` units of both operands, for every `n`
    (`SIZE_MAX` and everything beyond the lengths included) -/
theorem compare_n_eq_take (cs : CaseMode) (e : Elem) (a : List Nat) (r : Rhs) (n : Nat) :
    strCompareN cs a r n = strCompare cs (a.take n) (.str (r.text.take n)) ∧
    bufCompareN e a r n = bufCompare e (a.take n) (.str (r.text.take n)) := by
  constructor
  · rw [strCompareN_eq_text]
    cases cs
    · exact compareSizedN_eq_take .char a r.text n
    · exact compareCiSizedN_eq_take a r.text n
  · rw [bufCompareN_eq_text]
    exact compareSizedN_eq_take e a r.text n

/-! ### hashes, case maps -/

/-- equal strings (as `==` decides) have equal hash values -/
theorem hash_congr (a b : List Nat) (h : strEq a (.str b) = true) : Compare.hash a = Compare.hash b := by
  rw [(operators_meaning a b).1.1 h]

/-- case-insensitively equal strings (as `equal_i` decides) have equal `hash_i` values -/
theorem hash_i_congr (a b : List Nat) (ha : Bytes a) (hb : Bytes b) (h : equalI a b = true) : hashI a = hashI b := by
  have h0 : strCompare .insensitive a (.str b) = 0 := of_decide_eq_true h
  have hf : a.map foldAscii = b.map foldAscii := (ci_zero_iff_fold_eq a b ha hb).1 h0
  rw [hashI_eq_hash_map, hashI_eq_hash_map]
  have : ∀ s : List Nat, s.map lower = s.map foldAscii := fun s => by
    apply List.map_congr_left; intro x _; exact Lemmas.Search.lower_eq_foldAscii x
  rw [this a, this b, hf]

/-- `to_upper` / `to_lower` keep the length and change a byte exactly when it is an ASCII letter of
    the other case, by exactly 32 -/
theorem case_map_only_ascii (s : List Nat) :
    (toUpper s).length = s.length ∧ (toLower s).length = s.length ∧
    (∀ i (h : i < s.length), (toUpper s)[i]'(by simp [toUpper, h]) = if isLowerAscii s[i] then s[i] - 32 else s[i]) ∧
    (∀ i (h : i < s.length), (toLower s)[i]'(by simp [toLower, h]) = if isUpperAscii s[i] then s[i] + 32 else s[i]) ∧
    toLower s = s.map foldAscii := by
  refine ⟨by simp [toUpper], by simp [toLower], ?_, ?_, ?_⟩
  · intro i h; simp only [toUpper, List.getElem_map]; exact upper_spec _
  · intro i h; simp only [toLower, List.getElem_map]; exact lower_spec _
  · apply List.map_congr_left; intro x _; exact Lemmas.Search.lower_eq_foldAscii x

/-! ### the static (pointer, length) form and the repaired defect -/

/-- only the first `min lsize rsize` units behind either pointer are read, so the static form may be
    called with one readable unit and any `lsize`/`rsize` as long as the other size is 0 (or 1) -/
theorem reads_only_common_prefix (e : Elem) (l r : List Nat) (lsize rsize : Nat) :
    compareSized e l lsize r rsize =
      compareSized e (l.take (min lsize rsize)) lsize (r.take (min lsize rsize)) rsize := by
  apply compareSized_congr <;> rw [List.take_take, Nat.min_self]

/-- the length-only cases the correspondence replays, now with the right sign -/
theorem huge_length_difference :
    compareSized .char [] 0 [0x78] (2 ^ 32) < 0 ∧ compareSized .char [0x78] (2 ^ 31) [] 0 > 0 ∧
    compareCiSized [] 0 [0x78] (2 ^ 32) < 0 ∧ compareCiSized [0x78] (2 ^ 31) [] 0 > 0 := by decide

/-- what the pinned tree returned for an equal common prefix, `static_cast<int>(lsize - rsize)`,
    is zero for sizes 0 and 2^32 and negative for sizes 2^31 and 0 — the defect repaired by the
    `fix:` commit (witness file findings/C06-compare-size-difference-narrowed-to-int.json) -/
theorem narrowed_difference_was_wrong :
    sizeDiffNarrowed 0 (2 ^ 32) = 0 ∧ sizeDiffNarrowed (2 ^ 31) 0 < 0 ∧ sizeDiffNarrowed 0 (2 ^ 31 + 1) > 0 := by decide

/-- and it was right exactly while the difference fitted an `int` -/
theorem narrowed_difference_ok_when_small (ls rs : Nat) (h1 : ls < 2 ^ 64) (h2 : rs < 2 ^ 64)
    (hd : (ls : Int) - rs < 2 ^ 31 ∧ (rs : Int) - ls ≤ 2 ^ 31) :
    Int.sign (sizeDiffNarrowed ls rs) = sizeOrder ls rs :=
  sizeDiffNarrowed_sign ls rs h1 h2 hd

/-! ### non-vacuity -/

example : strCompare .sensitive [0x61, 0x00, 0x62] (.str [0x61, 0x00, 0x63]) < 0 := by decide
example : strCompare .sensitive [0x61, 0x00, 0x62] (.cstr (some [0x61, 0x00, 0x63])) > 0 := by decide
example : strCompare .sensitive [0x80] (.str [0x7F]) > 0 := by decide
example : strCompare .insensitive [0x41, 0x62] (.str [0x61, 0x42]) = 0 := by decide
example : strCompareN .sensitive [0x61, 0x62] (.str [0x61, 0x63]) 1 = 0 := by decide

/-- the unit-range hypotheses are satisfiable -/
example : Bytes [0x00, 0x41, 0x80, 0xFF] ∧ UnitsLt (2 ^ Elem.bits .wchar) [0, 0x10FFFF, 0xFFFFFFFF] ∧ UnitsLt (2 ^ 31) [0x10FFFF] := by decide
example : (2 ^ 31 : Nat) < 2 ^ 64 ∧ ((5 : Nat) : Int) - (3 : Nat) < 2 ^ 31 := by decide

end StVerif.Props.C06
