/-
  C18 — a failed operation leaves its target and its arguments unchanged.

  Model: `Model/StrPool.lean`: every throwing entry point as a do-block with the real statement order
  (validate-then-commit in `set(char_buffer)`, conversion into a temporary followed by move assignment,
  `operator+=` as `set(*this + x)`, code point validated after the concatenation buffer was allocated, …),
  temporaries destroyed during unwinding.  The exceptions are `unicode_error` (modelled precisely: when it is
  raised is part of the model) and, for value computations whose result is a parameter here (decode, format,
  Latin-1 conversion), any exception other than `bad_alloc` raised before a result object exists.
-/
import StVerif.Lemmas.StrPoolReach
import StVerif.Props.C04
import StVerif.Lemmas.StreamOps

namespace StVerif.Props.C18
open StVerif StVerif.Pool StVerif.StrPool

/-- **strong guarantee**: when an operation of any history throws, the exception is not `bad_alloc` (there is no
    allocation fault in these runs), and *every* object — the object being assigned or appended to, lvalue
    arguments, and an rvalue argument that was to be moved from — is the very same object (size, bytes, data
    pointer) holding the same value; the invariant still holds (nothing leaked, nothing shared) and no temporary
    survives. -/
theorem strong_guarantee {L : Nat} (hL : 0 < L) {p p' : Pool} (hr : SReach L p) (op : SOp) (hpre : op.pre p) {e : Exc}
    (h : op.run p = .throw e p') :
    e ≠ .badAlloc ∧ (∀ x, p'.objs x = p.objs x ∧ view p' x = view p x) ∧ Inv p' ∧ TempsDead p' := by
  obtain ⟨hI, hT, hF⟩ := sreach_inv hL hr
  rcases sop_spec hI hF hT op hpre with ⟨p'', h1, _⟩ | ⟨e', p'', h1, he, s1, t1, _⟩
  · rw [h] at h1; cases h1
  · rw [h] at h1; cases h1
    exact ⟨he, fun x => ⟨s1.objs x (fun f => f), s1.view x (fun f => f)⟩, s1.inv, t1⟩

/-- **no storage is leaked** by a failed operation: every heap block of the state after the throw is owned by a
    live, non-temporary object (and by exactly one: `Inv.uniq`) -/
theorem nothing_leaked {L : Nat} (hL : 0 < L) {p p' : Pool} (hr : SReach L p) (op : SOp) (hpre : op.pre p) {e : Exc}
    (h : op.run p = .throw e p') : ∀ k blk, p'.heap k = some blk → ∃ o, Owns p' o k ∧ ¬ isTemp o := by
  obtain ⟨_, _, hI', hT'⟩ := strong_guarantee hL hr op hpre h
  intro k blk hk
  obtain ⟨o, ho⟩ := hI'.noLeak k blk hk
  refine ⟨o, ho, fun ht => ?_⟩
  obtain ⟨b, hb, _⟩ := ho
  rw [hT' o ht] at hb; cases hb

/-- **usable afterwards**: the state after the throw is a reachable state like any other, and every operation whose
    precondition held before the failed call still has its precondition — so the same objects can be read, assigned,
    appended to and destroyed, with all guarantees of C04/C05 (by the theorems about reachable states). -/
theorem usable_after {L : Nat} {p p' : Pool} (hr : SReach L p) (op : SOp) (hpre : op.pre p) {e : Exc}
    (h : op.run p = .throw e p') (hL : 0 < L) : SReach L p' ∧ ∀ op' : SOp, op'.pre p → op'.pre p' := by
  refine ⟨.thrown hr hpre h, fun op' hp => ?_⟩
  obtain ⟨_, hsame, _, _⟩ := strong_guarantee hL hr op hpre h
  exact pre_congr (fun x => (hsame x).1) op' hp

/-- when exactly `set` / construction / assignment from UTF-8 text throws: under `check_validity`, on text the
    validator rejects — and never otherwise -/
theorem setText_throws_iff {L : Nat} (hL : 0 < L) {p : Pool} (hr : SReach L p) {o : Nat} (hpre : (SOp.setText o us m).pre p) :
    (∃ p', (SOp.setText o us m).run p = .throw .unicodeError p') ↔ (m = .checkValidity ∧ Utf.validateUtf8 us ≠ 0) := by
  obtain ⟨hI, hT, hF⟩ := sreach_inv hL hr
  obtain ⟨hu, ⟨bo, ho⟩⟩ := hpre
  have hnt := userId_not_temp hu
  rcases setUtf8_spec hI hF ho (hT _ isTemp_A) (hT _ isTemp_C) (fun h => hnt (Or.inl h)) (fun h => hnt (Or.inr (Or.inr (Or.inl h)))) us m with
    ⟨hn, p', h1, _⟩ | ⟨ht, p', h1, _⟩
  · constructor
    · rintro ⟨p'', h2⟩; simp only [SOp.run] at h2; rw [h1] at h2; cases h2
    · intro h; exact absurd h hn
  · exact ⟨fun _ => ht, fun _ => ⟨p', h1⟩⟩

/-- appending a code point throws exactly when it has no UTF-8 encoding (above U+10FFFF); surrogate values are
    tolerated and do not throw -/
theorem appendChar_throws_iff {L : Nat} (hL : 0 < L) {p : Pool} (hr : SReach L p) {o ch : Nat} (hpre : (SOp.appendChar o ch).pre p) :
    (∃ p', (SOp.appendChar o ch).run p = .throw .unicodeError p') ↔ ch > 0x10FFFF := by
  obtain ⟨hI, hT, hF⟩ := sreach_inv hL hr
  obtain ⟨hu, ⟨bo, ho⟩⟩ := hpre
  have hnt := userId_not_temp hu
  have hw : Utf.writeUtf8 ch = none ↔ ch > 0x10FFFF := by
    unfold Utf.writeUtf8
    by_cases h1 : ch < 0x80
    · simp [h1]; omega
    · by_cases h2 : ch < 0x800
      · simp [h1, h2]; omega
      · by_cases h3 : ch < 0x10000
        · simp [h1, h2, h3]; omega
        · by_cases h4 : ch ≤ 0x10FFFF
          · simp [h1, h2, h3, h4]
          · simp [h1, h2, h3, h4]; omega
  rcases appendChar_spec hI hF ho (hT _ isTemp_A) (hT _ isTemp_B) (fun h => hnt (Or.inl h)) (fun h => hnt (Or.inr (Or.inl h))) ch with
    ⟨hs, p', h1, _⟩ | ⟨hn, p', h1, _⟩
  · constructor
    · rintro ⟨p'', h2⟩; simp only [SOp.run] at h2; rw [h1] at h2; cases h2
    · intro h; rw [hw.mpr h] at hs; cases hs
  · exact ⟨fun _ => hw.mp hn, fun _ => ⟨p', h1⟩⟩

/-! ### stream insertion (`include/st_stringstream.h`: `operator<<` of wide text converts into a local, then appends) -/

/-- **a failed insertion leaves every stream as it was**: in any state satisfying the stream machine's invariant, when an
    operation of the `string_stream` model (every `append` / `operator<<` overload, `truncate`, `erase`, moves, `to_string`)
    throws `unicode_error` — wide text the default validation rejects — the content `raw_buffer()[0, size())` of *every* live
    stream is what it was, the invariant (ownership, no leak) still holds, and no allocation fault was involved -/
theorem stream_insertion_strong_guarantee {p p' : Stream.Pool} (hi : Stream.Inv p) (op : Stream.Op) (hwf : op.wf)
    (hok : Spec.ByteLog.ok (Stream.abs p) op.toSpec = true) (h : op.run .repaired p = .throw .unicodeError p') :
    Stream.Inv p' ∧ Stream.abs p' = Stream.abs p ∧ p'.failAt = p.failAt := by
  rcases Stream.step_sound hi op hwf hok with ⟨q, h1, _⟩ | ⟨q, h1, h2, h3, _, h5⟩ | ⟨q, h1, _⟩
  · rw [h] at h1; cases h1
  · rw [h] at h1; cases h1; exact ⟨h2, h3, h5⟩
  · rw [h] at h1; cases h1

/-! ### the hypotheses are satisfiable: a throwing call exists in a reachable state -/

example : ∃ p1 p2, SReach 16 p1 ∧ (SOp.setText 0 [0x41, 0xC3] .checkValidity).pre p1 ∧
    (SOp.setText 0 [0x41, 0xC3] .checkValidity).run p1 = .throw .unicodeError p2 := by
  have hpre : (SOp.ctorDefault 0).pre (Pool.init 16) := ⟨by unfold userId; omega, rfl⟩
  obtain ⟨p1, hr1, h1⟩ := Props.C04.progress (by decide : 0 < 16) .init _ hpre
  have halive : alive p1 0 := by
    rcases h1 with h1 | ⟨e, h1⟩
    · have : p1 = { Pool.init 16 with objs := upd (Pool.init 16).objs 0 (some { chars := .loc 0, size := 0, data := zeros 16 }) } := by
        simp only [SOp.run, Pool.ctorDefault, bind_apply, getP_apply, setObj_eq] at h1
        cases h1; rfl
      exact ⟨{ chars := .loc 0, size := 0, data := zeros 16 }, by rw [this]; simp [upd]⟩
    · simp only [SOp.run, Pool.ctorDefault, bind_apply, getP_apply, setObj_eq] at h1; cases h1
  have hpre2 : (SOp.setText 0 [0x41, 0xC3] .checkValidity).pre p1 := ⟨by unfold userId; omega, halive⟩
  obtain ⟨p2, h2⟩ := (setText_throws_iff (by decide : 0 < 16) hr1 hpre2).mpr ⟨rfl, by decide⟩
  exact ⟨p1, p2, hr1, hpre2, h2⟩

end StVerif.Props.C18
