/-
  C16 — string_stream content equals the concatenation of everything appended; no leak, no double
  free; a moved-from stream is a valid empty stream.  Property theorems only.

  `Stream.*` is the machine model of include/st_stringstream.h (Model/Stream.lean), `ByteLog` the plain
  byte-string spec (Spec/ByteLog.lean), `abs` the abstraction `raw_buffer()[0, size())` per live stream,
  `HistOk` admissibility of a history (no member call on a dead stream, no construction over a live one,
  no self-move-assignment, wide text of fewer than 2^28 units).  `R` = the repaired move operations; the
  `pinned_*` theorems at the end show what the revision first read does (defect #14).
-/
import StVerif.Lemmas.StreamOps
import StVerif.Lemmas.UtfStd
import StVerif.Lemmas.UtfString
import StVerif.Props.C12

namespace StVerif.Props.C16
open StVerif StVerif.Stream StVerif.Generated StVerif.Spec

abbrev R : Rev := .repaired

/-- the empty pool satisfies the invariant -/
theorem inv_init : Inv Pool.init := Stream.inv_init

/-- **Invariant step.**  Any operation that is admissible in the current spec state, run on a pool that
    satisfies `Inv` (no fault schedule armed), returns — or throws `unicode_error` for malformed wide
    text, leaving everything as it was —; it never faults (`badFree`, `doubleFree`, `useAfterFree`, `oob`)
    and never gets `stuck`; `Inv` holds again and the abstraction has moved by exactly the spec step. -/
theorem inv_step {p : Pool} (hi : Inv p) (hf : p.failAt = none) (op : Op) (hwf : op.wf)
    (hok : ByteLog.ok (abs p) op.toSpec = true) :
    ∃ p', (op.run R p = .ok () p' ∨ op.run R p = .throw .unicodeError p') ∧
      Inv p' ∧ abs p' = ByteLog.step (abs p) op.toSpec ∧ p'.failAt = none := by
  rcases step_sound hi op hwf hok with ⟨p', h1, h2, h3, h4⟩ | ⟨p', h1, h2, h3, h4, h5⟩ | ⟨p', _, _, hne, _⟩
  · exact ⟨p', Or.inl h1, h2, h3, h4.trans hf⟩
  · exact ⟨p', Or.inr h1, h2, h3.trans h4.symm, h5.trans hf⟩
  · exact absurd hf hne

/-- **Reachability.**  Every admissible history runs to its end and ends in a pool satisfying `Inv`. -/
theorem inv_reachable (ops : List Op) (h : HistOk ByteLog.State.init ops) :
    ∃ p, runOps R ops Pool.init = .ok () p ∧ Inv p := by
  obtain ⟨p, h1, h2, _, _⟩ := run_sound ops Pool.init Stream.inv_init rfl h
  exact ⟨p, h1, h2⟩

/-- **Refinement.**  After any admissible history — across the switch from the in-object buffer to the
    heap and every later doubling, through truncate / erase / moves in both storage modes — every live
    stream shows `size()` = the length of, and `raw_buffer()[0, size())` = exactly, the bytes the
    byte-string spec holds for it, and the dead ones are dead. -/
theorem stream_refines (ops : List Op) (h : HistOk ByteLog.State.init ops) :
    ∃ p, runOps R ops Pool.init = .ok () p ∧
      ∀ o, match ByteLog.run ByteLog.State.init (ops.map Op.toSpec) o with
        | some b => ∃ ptr, observe o p = .ok { size := b.length, bytes := b, ptr := ptr } p
        | none => p.objs o = none := by
  obtain ⟨p, h1, h2, h3, _⟩ := run_sound ops Pool.init Stream.inv_init rfl h
  refine ⟨p, h1, fun o => ?_⟩
  rw [← abs_init, ← h3]
  cases hb : abs p o with
  | none => exact abs_dead.mp hb
  | some b =>
    obtain ⟨s, _, ho, _⟩ := live_of_abs (p := p) (o := o) (by rw [hb]; rfl)
    exact ⟨s.chars, observe_spec h2 ho hb⟩

/-- no admissible history ever ends in a fault: in particular nothing is released twice
    (`doubleFree`), no non-heap or foreign pointer is released (`badFree`), nothing is used after its
    release, nothing is read or written outside its block, and no loop hangs (`stuck`) -/
theorem no_fault (ops : List Op) (h : HistOk ByteLog.State.init ops) (f : Fault) (p' : Pool) :
    runOps R ops Pool.init ≠ .fault f p' := by
  obtain ⟨p, h1, _⟩ := inv_reachable ops h
  rw [h1]; intro hc; cases hc

theorem no_double_free (ops : List Op) (h : HistOk ByteLog.State.init ops) (p' : Pool) :
    runOps R ops Pool.init ≠ .fault .doubleFree p' ∧ runOps R ops Pool.init ≠ .fault .badFree p' :=
  ⟨no_fault ops h _ _, no_fault ops h _ _⟩

/-- **No leak.**  Destroying every stream that is alive at the end of an admissible history succeeds and
    leaves an empty heap. -/
theorem no_leak (ops : List Op) (h : HistOk ByteLog.State.init ops) (ids : List Nat)
    (hall : ∀ o, ByteLog.run ByteLog.State.init (ops.map Op.toSpec) o ≠ none → o ∈ ids) :
    ∃ p p', runOps R ops Pool.init = .ok () p ∧ destroyAll ids p = .ok () p' ∧
      (∀ o, p'.objs o = none) ∧ ∀ k, p'.heap k = none := by
  obtain ⟨p, h1, h2, h3, _⟩ := run_sound ops Pool.init Stream.inv_init rfl h
  obtain ⟨p', h4, h5, h6, h7⟩ := destroyAll_spec ids p h2
  have hdead : ∀ o, p'.objs o = none := by
    intro o
    by_cases ho : o ∈ ids
    · exact h6 o ho
    · apply h7
      apply abs_dead.mp
      rw [h3, abs_init]
      exact Classical.byContradiction fun hne => ho (hall o hne)
  refine ⟨p, p', h1, h4, hdead, fun k => ?_⟩
  cases hk : p'.heap k with
  | none => rfl
  | some blk =>
    obtain ⟨o, s, ho, _⟩ := h5.owned k blk hk
    rw [hdead o] at ho; cases ho

/-- **The doubling loop terminates** when the capacity is positive, within the fuel the model gives it,
    with the least capacity `alloc * 2^(j+1)` that holds `need` bytes … -/
theorem expand_terminates (need alloc : Nat) (h : 0 < alloc) :
    ∃ big, growLoop need (need + 1) alloc = some big ∧ need ≤ big ∧
      ∃ j, big = alloc * 2 ^ (j + 1) ∧ (j = 0 ∨ alloc * 2 ^ j < need) := by
  obtain ⟨big, h1, h2, _⟩ := growLoop_spec need (need + 1) alloc h (by omega) (by omega)
  obtain ⟨j, h3, _, h4⟩ := growLoop_least need _ _ _ h1
  exact ⟨big, h1, h2, j, h3, h4⟩

/-- … and the capacity *is* positive for every live stream of a pool satisfying `Inv`, so `expand_buffer`
    never hangs there (whatever the fault schedule) -/
theorem expand_never_stuck {p : Pool} (hi : Inv p) {o : Nat} {s : Obj} (ho : p.objs o = some s) (added : Nat) (p' : Pool) :
    expandBuffer o added p ≠ .fault .stuck p' := by
  by_cases hneed : s.size + added > s.alloc
  · by_cases hfail : p.failAt = some (p.allocs + 1)
    · rw [expand_fail hi ho added hneed hfail]; intro hc; cases hc
    · obtain ⟨p1, h1, _⟩ := expand_grow hi ho added hneed hfail
      rw [h1]; intro hc; cases hc
  · rw [expand_nogrow ho added (by omega)]; intro hc; cases hc

/-- **to_string.**  After any admissible history `to_string(utf8_encoded, validation)` of a live stream
    is the ST::string construction (`from_utf8` under the given mode, or `from_latin_1`) applied to
    exactly the spec's bytes … -/
theorem to_string_eq (ops : List Op) (h : HistOk ByteLog.State.init ops) (o : Nat) (b : List Nat)
    (hb : ByteLog.run ByteLog.State.init (ops.map Op.toSpec) o = some b) (utf8 : Bool) (m : Mode) :
    ∃ p, runOps R ops Pool.init = .ok () p ∧ Stream.toString o utf8 m p = .ok (toStringOf b utf8 m) p := by
  obtain ⟨p, h1, h2, h3, _⟩ := run_sound ops Pool.init Stream.inv_init rfl h
  have hb' : abs p o = some b := by rw [h3, abs_init]; exact hb
  obtain ⟨s, _, ho, _⟩ := live_of_abs (p := p) (o := o) (by rw [hb']; rfl)
  exact ⟨p, h1, toString_spec h2 ho hb' utf8 m⟩

/-- … which is the reference result of Spec/Unicode.lean: the bytes validated as UTF-8 under the mode
    (`check_validity` rejects, `substitute_invalid` repairs, `assume_valid` copies), or transcoded from
    Latin-1 (C01/C02 do the work) -/
theorem to_string_reference (b : List Nat) (hbytes : Bytes b) (hlen : b.length < hugeBufferSize) (m : Mode) :
    toStringOf b true m = Unicode.referenceString m b ∧
    toStringOf b false m = Unicode.reference .latin1 .utf8 m true b := by
  constructor
  · simp only [toStringOf, if_true, Utf.stringFrom]
    exact Lemmas.Utf.stringSet_eq_reference m b hbytes hlen
  · simp only [toStringOf, Bool.false_eq_true, if_false, Utf.stringFrom]
    exact Lemmas.Utf.convert_eq_reference .latin1 .utf8 (by decide) m true b hbytes hlen

/-- well-formed wide text (the standard UTF-16 / UTF-32 encoding of a scalar sequence) is appended as
    its standard UTF-8 encoding: the rendering `Op.toSpec` uses for `operator<<` is C01's -/
theorem text_rendering_std (e : Utf.Enc) (m : Mode) (s : List Nat) (hs : ∀ c ∈ s, Unicode.Scalar c) :
    textRendering e m (Unicode.stdEnc e s) = some (Unicode.stdEnc .utf8 s) := by
  simp only [textRendering, Lemmas.Utf.reference_std e .utf8 (by decide) m false s hs]

/-- **A moved-from stream is a valid empty stream** (move construction): the source is in the state of a
    default-constructed stream — own in-object buffer, capacity ST_STACK_STRING_SIZE, size 0 —, the
    target shows the source's former bytes, `Inv` holds; hence (by `inv_step`) it can be appended to,
    assigned to and destroyed.  Three of these are spelled out. -/
theorem moved_from_is_empty_stream {p : Pool} (hi : Inv p) {o src : Nat} {mv : Obj} (hd : p.objs o = none)
    (hs : p.objs src = some mv) :
    ∃ p' s' b, moveCtor R o src p = .ok () p' ∧ Inv p' ∧ abs p src = some b ∧
      p'.objs src = some s' ∧ IsFresh src s' ∧ abs p' src = some [] ∧ abs p' o = some b ∧
      (∀ bytes, p'.failAt = none → ∃ p'', append src bytes p' = .ok () p'' ∧ Inv p'' ∧ abs p'' src = some bytes) ∧
      (∃ p'', dtor src p' = .ok () p'' ∧ Inv p'') ∧
      (∃ p'', moveAssign R src o p' = .ok () p'' ∧ Inv p'' ∧ abs p'' src = some b ∧ abs p'' o = some []) := by
  obtain ⟨b, hb, _⟩ := abs_some hi hs
  have hne : o ≠ src := by intro h; subst h; rw [hd] at hs; cases hs
  obtain ⟨p', h1, h2, h3, h4, h5⟩ := moveCtor_spec hi hd hs hb
  have hsrc : abs p' src = some [] := by rw [h3]; simp [ByteLog.State.set]
  have hdst : abs p' o = some b := by rw [h3]; simp [ByteLog.State.set, hne]
  obtain ⟨so, _, hso, _⟩ := live_of_abs (p := p') (o := o) (by rw [hdst]; rfl)
  refine ⟨p', _, b, h1, h2, hb, h5, ⟨rfl, rfl, rfl⟩, hsrc, hdst, ?_, ?_, ?_⟩
  · intro bytes hf
    rcases append_spec h2 h5 hsrc bytes with ⟨p'', a1, a2, a3, _⟩ | ⟨_, a2⟩
    · exact ⟨p'', a1, a2, by rw [a3]; simp [ByteLog.State.set]⟩
    · rw [hf] at a2; cases a2
  · obtain ⟨p'', a1, a2, _⟩ := dtor_spec h2 h5
    exact ⟨p'', a1, a2⟩
  · obtain ⟨p'', a1, a2, a3, _⟩ := moveAssign_spec h2 h5 hso (Ne.symm hne) hdst
    exact ⟨p'', a1, a2, by rw [a3]; simp [ByteLog.State.set, Ne.symm hne], by rw [a3]; simp [ByteLog.State.set]⟩

/-- the same for move assignment (target alive, in either storage mode; its old block is released) -/
theorem moved_from_is_empty_stream_assign {p : Pool} (hi : Inv p) {o src : Nat} {a mv : Obj} (ho : p.objs o = some a)
    (hs : p.objs src = some mv) (hne : o ≠ src) :
    ∃ p' s' b, moveAssign R o src p = .ok () p' ∧ Inv p' ∧ abs p src = some b ∧
      p'.objs src = some s' ∧ IsFresh src s' ∧ abs p' src = some [] ∧ abs p' o = some b ∧
      (∀ bytes, p'.failAt = none → ∃ p'', append src bytes p' = .ok () p'' ∧ Inv p'' ∧ abs p'' src = some bytes) ∧
      (∃ p'', dtor src p' = .ok () p'' ∧ Inv p'') := by
  obtain ⟨b, hb, _⟩ := abs_some hi hs
  obtain ⟨p', h1, h2, h3, h4, h5⟩ := moveAssign_spec hi ho hs hne hb
  have hsrc : abs p' src = some [] := by rw [h3]; simp [ByteLog.State.set]
  have hdst : abs p' o = some b := by rw [h3]; simp [ByteLog.State.set, hne]
  refine ⟨p', _, b, h1, h2, hb, h5, ⟨rfl, rfl, rfl⟩, hsrc, hdst, ?_, ?_⟩
  · intro bytes hf
    rcases append_spec h2 h5 hsrc bytes with ⟨p'', a1, a2, a3, _⟩ | ⟨_, a2⟩
    · exact ⟨p'', a1, a2, by rw [a3]; simp [ByteLog.State.set]⟩
    · rw [hf] at a2; cases a2
  · obtain ⟨p'', a1, a2, _⟩ := dtor_spec h2 h5
    exact ⟨p'', a1, a2⟩

/-! ### fault level (used by C19): `new` precedes `delete[]` in `expand_buffer` -/

/-- an `append` whose allocation fails throws `bad_alloc` and leaves every stream, every block and the
    invariant exactly as they were (only the fault-schedule counter has advanced) -/
theorem append_fault_safe {p : Pool} (hi : Inv p) {o : Nat} {s : Obj} (ho : p.objs o = some s) (bytes : List Nat) (p' : Pool)
    (h : append o bytes p = .throw .badAlloc p') :
    p'.objs = p.objs ∧ p'.heap = p.heap ∧ p'.next = p.next ∧ Inv p' ∧ abs p' = abs p := by
  obtain ⟨b, hb, _⟩ := abs_some hi ho
  rcases append_spec hi ho hb bytes with ⟨p'', h1, _⟩ | ⟨h1, _⟩
  · rw [h1] at h; cases h
  · rw [h1] at h; cases h
    exact ⟨rfl, rfl, rfl, inv_allocs hi _, rfl⟩

theorem append_char_fault_safe {p : Pool} (hi : Inv p) {o : Nat} {s : Obj} (ho : p.objs o = some s) (ch n : Nat) (p' : Pool)
    (h : appendChar o ch n p = .throw .badAlloc p') :
    p'.objs = p.objs ∧ p'.heap = p.heap ∧ p'.next = p.next ∧ Inv p' ∧ abs p' = abs p := by
  obtain ⟨b, hb, _⟩ := abs_some hi ho
  rcases appendChar_spec hi ho hb ch n with ⟨p'', h1, _⟩ | ⟨h1, _⟩
  · rw [h1] at h; cases h
  · rw [h1] at h; cases h
    exact ⟨rfl, rfl, rfl, inv_allocs hi _, rfl⟩

/-- under *any* fault schedule every admissible operation returns or throws (`unicode_error`,
    `bad_alloc`) — it never faults or hangs — and leaves a pool satisfying `Inv`, i.e. every stream
    still usable and destructible, nothing leaked.  A throwing operation leaves what every stream shows
    unchanged (strong guarantee; for the signed-number `operator<<` this holds since its repair). -/
theorem step_fault_safe {p : Pool} (hi : Inv p) (op : Op) (hwf : op.wf) (hok : ByteLog.ok (abs p) op.toSpec = true) :
    ∃ p', Inv p' ∧
      ((op.run R p = .ok () p' ∧ abs p' = ByteLog.step (abs p) op.toSpec) ∨
       (op.run R p = .throw .unicodeError p' ∧ abs p' = abs p) ∨
       (op.run R p = .throw .badAlloc p' ∧ p.failAt ≠ none ∧ abs p' = abs p)) := by
  rcases step_sound hi op hwf hok with ⟨p', h1, h2, h3, _⟩ | ⟨p', h1, h2, h3, _⟩ | ⟨p', h1, h2, h3, _, h5⟩
  · exact ⟨p', h2, Or.inl ⟨h1, h3⟩⟩
  · exact ⟨p', h2, Or.inr (Or.inl ⟨h1, h3⟩)⟩
  · exact ⟨p', h2, Or.inr (Or.inr ⟨h1, h3, h5⟩)⟩

/-- **integer insertion appends the canonical decimal text.**  In the machine model the digits of
    `ss << v` are a parameter of `Op.appendNum`; C12 (`stream_canonical`) proves that the stream's own
    formatter (`uint_formatter` behind `operator<<(int … unsigned long long)`, with the promotions of
    the narrow types) produces sign and digits of the canonical text for every value of every integer
    type.  Together: the operation the code performs for `ss << v` is, at the level of the byte log,
    `append (intText 10 v)` — so `stream_refines` covers integer insertions with no assumption left
    on the digits. -/
theorem int_insertion_appends_canonical (o : Nat) (t : Num.IntTy) (v : Int) (hv : t.holds v) :
    ∃ neg ds, Num.streamInt t v = .ok ((if neg then [45] else []) ++ ds) ∧
      (Op.appendNum o neg ds).toSpec = .append o (Digits.intText 10 false v) := by
  refine ⟨decide (v < 0), Digits.natText 10 false v.natAbs, ?_, ?_⟩
  · rw [StVerif.Props.C12.stream_canonical t v hv]; simp [Digits.intText]
  · simp [Op.toSpec, Digits.intText]

/-- non-vacuity: the most negative `long` -/
example : (Num.IntTy.s64).holds (-9223372036854775808) := by decide

/-- the signed-number overloads as first read (`append_char('-')`, then `append(digits)`): `ss << -5` on a
    stream of 255 bytes whose growth fails had appended the '-' (size 256) when `bad_alloc` arrived … -/
theorem pinned_signed_number_partial_append :
    (match runOps R [.ctor 0, .appendChar 0 65 255] Pool.init with
     | .ok _ p => (match appendNumAsFound 0 true [53] { p with allocs := 0, failAt := some 1 } with
        | .throw .badAlloc p' => (abs p' 0).map List.length
        | _ => none)
     | _ => none) = some 256 := by decide +kernel

/-- … the repaired overloads leave the 255 bytes -/
theorem repaired_signed_number_unchanged :
    (match runOps R [.ctor 0, .appendChar 0 65 255] Pool.init with
     | .ok _ p => (match appendNum 0 true [53] { p with allocs := 0, failAt := some 1 } with
        | .throw .badAlloc p' => (abs p' 0).map List.length
        | _ => none)
     | _ => none) = some 255 := by decide +kernel

/-! ### the revision first read (defect #14): what the unrepaired move operations do -/

def hello : List Nat := [72, 101, 108, 108, 111]

def isStuck : Res Unit → Bool
  | .fault .stuck _ => true
  | _ => false

/-- `ss << "Hello"; string_stream t(std::move(ss)); ss.append("!")` never returns -/
theorem pinned_moved_from_append_stuck :
    isStuck (runOps .pinned [.ctor 0, .append 0 hello, .moveCtor 1 0, .append 0 [33]] Pool.init) = true := by
  decide +kernel

/-- … and the same through move assignment and `append_char` -/
theorem pinned_move_assigned_from_append_stuck :
    isStuck (runOps .pinned [.ctor 0, .append 0 hello, .ctor 1, .moveAssign 1 0, .appendChar 0 33 1] Pool.init) = true := by
  decide +kernel

/-- the moved-from stream still reports its old bytes (size 5), where the spec says it is empty -/
theorem pinned_moved_from_keeps_size :
    (match runOps .pinned [.ctor 0, .append 0 hello, .moveCtor 1 0] Pool.init with
     | .ok _ p => abs p 0
     | _ => none) = some hello ∧
    ByteLog.run ByteLog.State.init ([Op.ctor 0, .append 0 hello, .moveCtor 1 0].map Op.toSpec) 0 = some [] := by
  decide +kernel

/-- in heap mode its `raw_buffer()` is the block the new owner holds -/
theorem pinned_moved_from_aliases :
    (match runOps .pinned [.ctor 0, .appendChar 0 65 300, .moveCtor 1 0] Pool.init with
     | .ok _ p => (match p.objs 0, p.objs 1 with
        | some a, some b => decide (a.chars = b.chars ∧ a.chars = .heap 0)
        | _, _ => false)
     | _ => false) = true := by
  decide +kernel

/-- the repaired operations on the same histories: the source is empty and appendable -/
theorem repaired_same_histories :
    (match runOps R [.ctor 0, .append 0 hello, .moveCtor 1 0, .append 0 [33]] Pool.init with
     | .ok _ p => (abs p 0, abs p 1)
     | _ => (none, none)) = (some [33], some hello) := by
  decide +kernel

/-! ### non-vacuity: an admissible history that crosses the 256-byte boundary, doubles twice, moves in
    both storage modes and re-uses the moved-from stream -/
example : HistOk ByteLog.State.init
    [.ctor 0, .appendChar 0 65 255, .append 0 [66], .append 0 [67], .appendChar 0 68 1000, .moveCtor 1 0, .append 0 hello,
     .ctor 2, .moveAssign 2 0, .truncate 1 3, .erase 1 1, .appendNum 2 true [49], .toString 1 true .checkValidity,
     .moveAssign 1 2, .dtor 0, .dtor 1, .dtor 2] := by
  simp only [HistOk, Op.wf, Op.toSpec]
  decide

end StVerif.Props.C16
