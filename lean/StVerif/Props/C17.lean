/-
  C17 — all output sinks emit the same bytes for the same format call; stream insertion and
  extraction of `ST::string`.  Property theorems only.

  A format call delivers one event list (`Fmt.run`, C10/C11) to whichever sink it is driven into;
  the sinks are the interpreters of Model/Sinks.lean; the Spec is `flatten` (the bytes the call
  amounts to) and the reference transcodings of Spec/Unicode.lean.

  Narrow sinks and Latin-1 are unconditional.  The wide sinks transcode **per call**: the theorem
  needs `chunkSafe` (every appended chunk is a whole number of UTF-8 sequences, every character
  written through `append_char` is ASCII); outside it the property is false of the code, by the two
  witnesses below (recorded findings, see known_findings.json) — the theorem keeps the suffix
  `_partial`.
-/
import StVerif.Lemmas.Sinks
import StVerif.Lemmas.SinksChunk
import StVerif.Props.C01
import StVerif.Props.C02
import StVerif.Props.C11

namespace StVerif.Props.C17
open StVerif StVerif.Fmt StVerif.Utf StVerif.Sinks StVerif.Generated
open StVerif.Spec.Unicode
open StVerif.Lemmas.Sinks StVerif.Lemmas.Utf StVerif.Lemmas.Utf8Split StVerif.Lemmas.Fmt

/-! ### narrow sinks -/

/-- **FILE* sink = narrow ostream sink = the bytes of the call = what the string sink collects**,
    for every event list; and `ST::format` returns those bytes passed through the validation
    (`set` of the collected bytes) -/
theorem narrow_sinks_equal (ev : List Event) (hb : EventsBytes ev) :
    fileSink ev = flatten ev ∧ ostreamSink ev = flatten ev ∧ streamBytes ev = flatten ev ∧
    ∀ m, stringSink (.utf8 m) ev = stringSetUtf8 m (some (flatten ev)) := by
  refine ⟨fileSink_eq ev hb, ostreamSink_eq ev hb, streamBytes_eq ev, fun m => ?_⟩
  unfold stringSink toStringOf
  rw [streamBytes_eq]

/-- in particular: whenever `ST::format` (default `check_validity`, or `assume_valid`) returns a
    string, its bytes are exactly the bytes in the file and in the narrow stream -/
theorem format_bytes_eq_narrow (m : Mode) (hm : m ≠ .substituteInvalid) (ev : List Event) (hb : EventsBytes ev) (out : List Nat)
    (h : stringSink (.utf8 m) ev = .ok out) : out = fileSink ev ∧ out = ostreamSink ev := by
  obtain ⟨h1, h2, _, h4⟩ := narrow_sinks_equal ev hb
  rw [h4 m] at h
  rw [h1, h2]
  have : out = flatten ev := by
    unfold stringSetUtf8 at h
    simp only at h
    by_cases hlen : (flatten ev).length ≥ hugeBufferSize
    · simp [hlen] at h
    · cases m with
      | substituteInvalid => exact absurd rfl hm
      | assumeValid => simp [hlen] at h; exact h.symm
      | checkValidity =>
        by_cases hv : validateUtf8 (flatten ev) = 0
        · simp [hlen, hv] at h; exact h.symm
        · simp [hlen, hv] at h
  exact ⟨this, this⟩

/-- whole calls: `ST::printf(FILE*, …)` and `ST::writef(std::ostream&, …)` leave the same bytes,
    namely the bytes of the specified rendering (C11), and fail alike -/
theorem printf_eq_writef (fmt : Option (List Nat)) (args : List Arg) (hev : ∀ ev, run fmt args = .ok ev → EventsBytes ev) :
    runPrintf fmt args = runWritef fmt args ∧ runPrintf fmt args = (run fmt args).map flatten := by
  unfold runPrintf runWritef
  cases h : run fmt args with
  | ok ev =>
    have hb := hev ev h
    simp [Outcome.map, fileSink_eq ev hb, ostreamSink_eq ev hb]
  | _ => simp [Outcome.map]

/-! ### Latin-1 -/

/-- **`ST::format_latin_1` returns the UTF-8 transcoding of the narrow sinks' bytes read as
    Latin-1**: every byte `b` becomes the standard UTF-8 encoding of U+00`b` -/
theorem latin1_sink_eq (ev : List Event) (hb : EventsBytes ev) (hl : (flatten ev).length < hugeBufferSize) :
    stringSink .latin1 ev = .ok (stdEnc .utf8 (flatten ev)) ∧
    stringSink .latin1 ev = reference .latin1 .utf8 .assumeValid true (fileSink ev) := by
  have hbytes := eventsBytes_flatten ev hb
  have h1 : stringSink .latin1 ev = convert .latin1 .utf8 .assumeValid true (some (flatten ev)) := by
    unfold stringSink toStringOf; rw [streamBytes_eq]
  have hs : ∀ c ∈ flatten ev, Scalar c := fun c hc => scalar_of_byte (hbytes c hc)
  constructor
  · rw [h1, Lemmas.Utf.convert_eq_reference .latin1 .utf8 (by decide) _ _ _ hbytes hl]
    exact reference_std .latin1 .utf8 (by decide) .assumeValid true _ hs
  · rw [h1, fileSink_eq ev hb]
    exact Lemmas.Utf.convert_eq_reference .latin1 .utf8 (by decide) _ _ _ hbytes hl

/-! ### wide sinks -/

/-- **transcoding distributes over concatenation at sequence boundaries** (from C02's isolation:
    a complete sequence never swallows what follows it): behind a whole number of UTF-8 sequences
    the rest is transcoded as if it stood alone; the first failure wins -/
theorem transcode_append (dst : Enc) (m : Mode) (subst : Bool) (x y : List Nat) (hv : validateUtf8 x = 0) (hb : Bytes x) :
    reference .utf8 dst m subst (x ++ y) =
      (reference .utf8 dst m subst x).bind fun a => (reference .utf8 dst m subst y).map fun b => a ++ b :=
  reference_append dst m subst x y (valid_of_validate x hv) hb

theorem chunkSafe_cons (e : Event) (ev : List Event) : chunkSafe (e :: ev) = (chunkOk e && chunkSafe ev) := by
  simp [chunkSafe]

theorem wideSinkFrom_eq (T : Enc) (hT : T = .utf16 ∨ T = .utf32) (m : Mode) (ev : List Event) (buf : List Nat)
    (hb : EventsBytes ev) (hs : chunkSafe ev = true) (hl : (flatten ev).length < hugeBufferSize) :
    wideSinkFrom T m ev buf = (reference .utf8 T m true (flatten ev)).map fun out => buf ++ out := by
  induction ev generalizing buf with
  | nil => simp [wideSinkFrom, reference, seg, segUtf8, refSteps, Outcome.map]
  | cons e rest ih =>
    rw [chunkSafe_cons, Bool.and_eq_true] at hs
    obtain ⟨hse, hsr⟩ := hs
    obtain ⟨hbe, hbr⟩ := hb.cons
    rw [flatten_cons, List.length_append] at hl
    have hne : Enc.utf8 ≠ T := by rcases hT with h | h <;> subst h <;> decide
    rw [wideSinkFrom, flatten_cons]
    have key : ∀ (w : Outcome (List Nat)) (hv : Valid e.bytes) (hbb : Bytes e.bytes),
        wideWrite T m e = w → w = reference .utf8 T m true e.bytes →
        ((wideWrite T m e).bind fun w => wideSinkFrom T m rest (buf ++ w)) =
          (reference .utf8 T m true (e.bytes ++ flatten rest)).map fun out => buf ++ out := by
      intro w hv hbb hw hwr
      rw [hw, hwr, reference_append T m true _ _ hv hbb]
      cases hre : reference .utf8 T m true e.bytes with
      | ok a =>
        simp only [Outcome.bind, joinOutcome]
        rw [ih (buf ++ a) hbr hsr (by omega)]
        cases reference .utf8 T m true (flatten rest) <;> simp [Outcome.map, List.append_assoc]
      | _ => simp [Outcome.bind, joinOutcome, Outcome.map]
    cases e with
    | append bs =>
      have hbb : Bytes bs := hbe (.append bs) (by simp)
      have hv : Valid bs := valid_of_validate bs (by simpa [chunkOk] using hse)
      refine key _ hv hbb rfl ?_
      simp only [wideWrite, Event.bytes]
      exact Lemmas.Utf.convert_eq_reference .utf8 T hne m true bs hbb (by simp only [Event.bytes] at hl; omega)
    | appendChar c n =>
      simp only [chunkOk, Bool.or_eq_true, beq_iff_eq, decide_eq_true_eq] at hse
      rcases hse with h0 | hc
      · subst h0
        simp [wideWrite, putLoop, Event.bytes, Outcome.bind, ih buf hbr hsr (by omega)]
      · have hv : Valid (Event.appendChar c n).bytes := valid_replicate_ascii c n hc
        have hbb : Bytes (Event.appendChar c n).bytes := by
          intro x hx; simp only [Event.bytes, List.mem_replicate] at hx; omega
        refine key _ hv hbb rfl ?_
        simp only [wideWrite, Event.bytes, putLoop_eq, widenChar_ascii T c hc]
        exact (reference_ascii T hT m true c n hc).symm

/-- **a wide stream receives the UTF-16 / UTF-32 transcoding of the bytes of the call** (the
    reference transcoding under the default validation — it fails exactly when the reference
    fails), for `T ∈ {UTF-16 (char16_t), UTF-32 (wchar_t, char32_t)}`.

    Partial: needs `chunkSafe ev`.  Without it the statement is false of the code — see
    `wide_pad_witness` and `wide_cut_witness`. -/
theorem wide_sink_eq_partial (T : Enc) (hT : T = .utf16 ∨ T = .utf32) (m : Mode) (ev : List Event)
    (hb : EventsBytes ev) (hs : chunkSafe ev = true) (hl : (flatten ev).length < hugeBufferSize) :
    wideSink T m ev = reference .utf8 T m true (flatten ev) := by
  unfold wideSink
  rw [wideSinkFrom_eq T hT m ev [] hb hs hl]
  cases reference .utf8 T m true (flatten ev) <;> simp [Outcome.map]

/-- whole call, in the property's words: when `ST::format` (default validation `check_validity`)
    returns `out`, a chunk-safe call writes the UTF-16/32 transcoding of `out` to the wide stream -/
theorem writef_wide_eq_partial (T : Enc) (hT : T = .utf16 ∨ T = .utf32) (fmt : Option (List Nat)) (args : List Arg)
    (ev : List Event) (hr : run fmt args = .ok ev) (hb : EventsBytes ev) (hs : chunkSafe ev = true) (out : List Nat)
    (hf : runFormatSink (.utf8 .checkValidity) fmt args = .ok out) (hl : out.length < hugeBufferSize) :
    runWritefWide T .checkValidity fmt args = reference .utf8 T .checkValidity true out := by
  have hout : out = flatten ev := by
    unfold runFormatSink at hf
    rw [hr] at hf
    simp only [Outcome.bind] at hf
    have := (format_bytes_eq_narrow .checkValidity (by decide) ev hb out hf).1
    rw [this, fileSink_eq ev hb]
  subst hout
  unfold runWritefWide
  rw [hr]
  simp only [Outcome.bind]
  exact wide_sink_eq_partial T hT _ ev hb hs hl

/-! ### when the hypothesis holds -/

/-- **the hypothesis of the wide-sink theorem is met whenever literal text and string arguments
    are valid UTF-8, no precision cuts inside a character, and pad characters are ASCII**, stated
    over the model of the whole call (`Fmt.run`: scanner, field parser, `format_type` overloads):

    * the format string is well-formed UTF-8 (`validate_utf8` accepts it);
    * for every field the parser produces from it, the pad character is ASCII and every argument
      is `ArgSafe` under that field: a string cut to the field's precision ends at a character
      boundary, a `char8_t` printed with class `c` is ASCII, libc's floating-point text is ASCII
      (integers, the other character types, booleans and null strings always qualify).

    Proof: the literal scanner cuts the format string only at braces and at its end, a field ends
    behind its closing brace, and well-formed text can be cut at any ASCII byte. -/
theorem chunkSafe_of_ascii_pad_and_valid_args (fmt : List Nat) (args : List Arg) (ev : List Event)
    (hrun : run (some fmt) args = .ok ev) (hlit : validateUtf8 fmt = 0)
    (hfields : ∀ p spec p', parseFormat fmt p = .ok (spec, p') → padOf spec < 0x80 ∧ ∀ a ∈ args, ArgSafe spec a) :
    chunkSafe ev = true := by
  unfold run runEvents at hrun
  refine applyFormat_safe fmt args.length (formattersOf args) ?_ (valid_of_validate fmt hlit) ev hrun
  intro p spec p' hpf id hid ev' hev
  obtain ⟨hpad, hargs⟩ := hfields p spec p' hpf
  have hget : args[id]? = some args[id] := List.getElem?_eq_getElem hid
  rw [formattersOf_some hget] at hev
  exact formatType_safe _ spec hpad (hargs _ (List.getElem_mem hid)) ev' hev

/-- "no precision cuts inside a character" in the vocabulary of C11's Spec: the text `format_string`
    appends is the natural rendering `naturalText` (the argument cut to the precision) -/
theorem argSafe_str_iff_natural (f : FormatSpec) (hf : f.precision < 2 ^ 64) (bs : List Nat) :
    ArgSafe f (.str bs) ↔ validateUtf8 (C11.naturalText f bs) = 0 := by
  have : bs.take (cutSize f bs.length) = C11.naturalText f bs := by
    unfold cutSize C11.naturalText
    by_cases hp : f.precision ≥ 0
    · rw [wrap64_of_nonneg hp hf]
      simp only [hp, true_and, if_true]
      split
      · rfl
      · rw [List.take_of_length_le (Nat.le_refl _), List.take_of_length_le (by omega)]
    · simp [hp]
  simp only [ArgSafe, this]
  exact valid_iff _

/-- the two theorems together: for such a call every wide stream receives the UTF-16/32
    transcoding of the bytes of the call -/
theorem writef_wide_eq_of_valid_inputs (T : Enc) (hT : T = .utf16 ∨ T = .utf32) (m : Mode) (fmt : List Nat) (args : List Arg)
    (ev : List Event) (hrun : run (some fmt) args = .ok ev) (hb : EventsBytes ev) (hl : (flatten ev).length < hugeBufferSize)
    (hlit : validateUtf8 fmt = 0)
    (hfields : ∀ p spec p', parseFormat fmt p = .ok (spec, p') → padOf spec < 0x80 ∧ ∀ a ∈ args, ArgSafe spec a) :
    runWritefWide T m (some fmt) args = reference .utf8 T m true (flatten ev) := by
  unfold runWritefWide
  rw [hrun]
  simp only [Outcome.bind]
  exact wide_sink_eq_partial T hT m ev hb (chunkSafe_of_ascii_pad_and_valid_args fmt args ev hrun hlit hfields) hl

/-! ### the hypothesis is forced: the two recorded findings -/

/-- `"{_\xC3>1}{_\xA9>1}"` -/
def padWitnessFmt : List Nat := [123, 95, 0xC3, 62, 49, 125, 123, 95, 0xA9, 62, 49, 125]
/-- `"{.1}\xA9"` -/
def cutWitnessFmt : List Nat := [123, 46, 49, 125, 0xA9]

/-- `ST::writef(std::wostream&, "{_\xC3>1}{_\xA9>1}", "", "")`: the two pad bytes are widened one
    by one with sign extension (FFFFFFC3 FFFFFFA9; FFC3 FFA9 on a `char16_t` stream), while
    `ST::format` returns "é" whose transcoding is U+00E9; the narrow sinks agree with `ST::format` -/
theorem wide_pad_witness :
    run (some padWitnessFmt) [.str [], .str []] = .ok [.appendChar 0xC3 1, .append [], .appendChar 0xA9 1, .append []] ∧
    runWritefWide .utf32 .checkValidity (some padWitnessFmt) [.str [], .str []] = .ok [0xFFFFFFC3, 0xFFFFFFA9] ∧
    runWritefWide .utf16 .checkValidity (some padWitnessFmt) [.str [], .str []] = .ok [0xFFC3, 0xFFA9] ∧
    runFormatSink (.utf8 .checkValidity) (some padWitnessFmt) [.str [], .str []] = .ok [0xC3, 0xA9] ∧
    runPrintf (some padWitnessFmt) [.str [], .str []] = .ok [0xC3, 0xA9] ∧
    reference .utf8 .utf32 .checkValidity true [0xC3, 0xA9] = .ok [0xE9] ∧
    reference .utf8 .utf16 .checkValidity true [0xC3, 0xA9] = .ok [0xE9] ∧
    chunkSafe [.appendChar 0xC3 1, .append [], .appendChar 0xA9 1, .append []] = false := by
  decide +kernel

/-- `ST::writef(std::wostream&, "{.1}\xA9", "\xC3\xA9")`: the precision cuts the argument inside
    its character, each fragment is transcoded on its own under `check_validity` and the call
    throws `unicode_error`, while `ST::format` returns "é" -/
theorem wide_cut_witness :
    run (some cutWitnessFmt) [.str [0xC3, 0xA9]] = .ok [.append [0xC3], .append [0xA9]] ∧
    runWritefWide .utf32 .checkValidity (some cutWitnessFmt) [.str [0xC3, 0xA9]] = .throw .unicodeError ∧
    runWritefWide .utf16 .checkValidity (some cutWitnessFmt) [.str [0xC3, 0xA9]] = .throw .unicodeError ∧
    runFormatSink (.utf8 .checkValidity) (some cutWitnessFmt) [.str [0xC3, 0xA9]] = .ok [0xC3, 0xA9] ∧
    runWritef (some cutWitnessFmt) [.str [0xC3, 0xA9]] = .ok [0xC3, 0xA9] ∧
    reference .utf8 .utf32 .checkValidity true [0xC3, 0xA9] = .ok [0xE9] ∧
    chunkSafe [.append [0xC3], .append [0xA9]] = false := by
  decide +kernel

/-- under `substitute_invalid` as the default the same call does not throw but writes one U+FFFD per
    fragment instead of U+00E9 -/
theorem wide_cut_witness_subst :
    runWritefWide .utf32 .substituteInvalid (some cutWitnessFmt) [.str [0xC3, 0xA9]] = .ok [0xFFFD, 0xFFFD] ∧
    runFormatSink (.utf8 .substituteInvalid) (some cutWitnessFmt) [.str [0xC3, 0xA9]] = .ok [0xC3, 0xA9] := by
  decide +kernel

/-! ### stream insertion and extraction -/

/-- **`stream << st_string` hands the stream exactly the contents, transcoded to the stream's
    character type** (the reference transcoding of the stored UTF-8 under `assume_valid`, which is
    what `to_utf16 / to_utf32 / to_wchar` apply), laid out the way a `std::basic_string` insertion
    lays out those units (`width()`, `fill()`, adjustment); on a `char` stream the bytes themselves -/
theorem insert_eq (T : Enc) (sf : StreamFmt) (bytes : List Nat) (hb : Bytes bytes) (hl : bytes.length < hugeBufferSize) :
    (T = .utf8 → Sinks.insert T sf bytes = .ok (stdInsert sf bytes)) ∧
    (T ≠ .utf8 → Sinks.insert T sf bytes = (reference .utf8 T .assumeValid true bytes).map (stdInsert sf)) := by
  constructor
  · intro h; subst h; rfl
  · intro h
    unfold Sinks.insert toBuffer stringTo
    cases T with
    | utf8 => exact absurd rfl h
    | utf16 => simp only; rw [Lemmas.Utf.convert_eq_reference .utf8 .utf16 (by decide) _ _ _ hb hl]
    | utf32 => simp only; rw [Lemmas.Utf.convert_eq_reference .utf8 .utf32 (by decide) _ _ _ hb hl]
    | latin1 => simp only; rw [Lemmas.Utf.convert_eq_reference .utf8 .latin1 (by decide) _ _ _ hb hl]

/-- with `width() == 0` (the default) nothing but the contents is written; a string holding the
    standard UTF-8 of a scalar sequence arrives as the standard UTF-16 / UTF-32 of that sequence -/
theorem insert_std (T : Enc) (hT : T = .utf8 ∨ T = .utf16 ∨ T = .utf32) (fill : Nat) (left : Bool) (s : List Nat)
    (hs : ∀ c ∈ s, Scalar c) (hl : (stdEnc .utf8 s).length < hugeBufferSize) :
    Sinks.insert T { width := 0, fill, left } (stdEnc .utf8 s) = .ok (stdEnc T s) := by
  have h0 : ∀ us : List Nat, stdInsert { width := 0, fill, left } us = us := by
    intro us; unfold stdInsert; cases left <;> simp
  unfold Sinks.insert toBuffer
  have := (C01.string_to_std T true s hs hl).1
  rcases hT with h | h | h <;> subst h
  · simp [stringTo, Outcome.map, h0]
  · rw [this (by decide)]; simp [Outcome.map, h0]
  · rw [this (by decide)]; simp [Outcome.map, h0]

/-- **`stream >> st_string` stores the token a `std::basic_string` extraction takes, subject to
    the default validation**: the reference for building a string from that token (unchanged,
    repaired, or `unicode_error`), and the stream is left where the std extraction leaves it -/
theorem extract_eq (m : Mode) (input : List Nat) :
    (Bytes input → input.length < hugeBufferSize →
      extract .utf8 m input = (referenceString m (stdExtract input).1, (stdExtract input).2)) ∧
    (UnitsLt (2 ^ 32) input → input.length < hugeBufferSize →
      extract .utf32 m input = (reference .utf32 .utf8 m true (stdExtract input).1, (stdExtract input).2)) := by
  have hsub : ∀ x ∈ (stdExtract input).1, x ∈ input := by
    intro x hx
    unfold stdExtract at hx
    exact List.dropWhile_subset _ (List.takeWhile_subset _ hx)
  have hlen : (stdExtract input).1.length ≤ input.length := by
    unfold stdExtract
    exact Nat.le_trans (List.takeWhile_sublist _).length_le (List.dropWhile_sublist _).length_le
  constructor
  · intro hb hl
    unfold extract stringFrom
    simp only
    rw [stringSet_eq_reference m _ (fun x hx => hb x (hsub x hx)) (by omega)]
  · intro hu hl
    unfold extract stringFrom
    simp only
    rw [Lemmas.Utf.convert_eq_reference .utf32 .utf8 (by decide) m true _ (fun x hx => hu x (hsub x hx)) (by omega)]

/-! non-vacuity -/
example : EventsBytes [.appendChar 42 3, .append [0xC3, 0xA9], .append [104, 105]] := by
  intro e he; simp at he; rcases he with rfl | rfl | rfl <;> decide
example : chunkSafe [.appendChar 42 3, .append [0xC3, 0xA9], .append [104, 105], .appendChar 0xC3 0] = true := by decide
example : wideSink .utf16 .checkValidity [.appendChar 42 3, .append [0xF0, 0x9F, 0x98, 0x80]] = .ok [42, 42, 42, 0xD83D, 0xDE00] := by decide
example : ArgSafe { precision := 3 } (.str [0x68, 0xC3, 0xA9, 0x6C]) := valid_of_validate _ (by decide)
example : ¬ ArgSafe { precision := 2 } (.str [0x68, 0xC3, 0xA9, 0x6C]) := fun h => absurd (validate_of_valid _ h) (by decide)
example : stdExtract [32, 9, 104, 105, 32, 120] = ([104, 105], [32, 120]) := by decide
example : Sinks.insert .utf32 { width := 4, fill := 42, left := true } [0xC3, 0xA9, 0x61] = .ok [0xE9, 0x61, 42, 42] := by decide

/-- "é{>3}|" with the argument "é": the hypotheses of `chunkSafe_of_ascii_pad_and_valid_args` hold -/
example : chunkSafe [.append [0xC3, 0xA9], .appendChar 32 1, .append [0xC3, 0xA9], .append [124]] = true := by
  have hrun : run (some [0xC3, 0xA9, 123, 62, 51, 125, 124]) [.str [0xC3, 0xA9]] =
      .ok [.append [0xC3, 0xA9], .appendChar 32 1, .append [0xC3, 0xA9], .append [124]] := by decide +kernel
  refine chunkSafe_of_ascii_pad_and_valid_args _ _ _ hrun (by decide) ?_
  intro p spec p' h
  have hp : p = 2 := by
    unfold parseFormat at h
    by_cases h7 : p < 7
    · have : p = 0 ∨ p = 1 ∨ p = 2 ∨ p = 3 ∨ p = 4 ∨ p = 5 ∨ p = 6 := by omega
      rcases this with rfl | rfl | rfl | rfl | rfl | rfl | rfl <;> first | rfl | (simp [rd] at h)
    · have : rd [0xC3, 0xA9, 123, 62, 51, 125, 124] p = none ∨ rd [0xC3, 0xA9, 123, 62, 51, 125, 124] p = some 0 := by
        unfold rd
        by_cases q7 : p = 7
        · subst q7; right; rfl
        · left
          have a : ¬ (p < 7) := h7
          have b : ¬ (p = 7) := q7
          simp [a, b]
      rcases this with q | q <;> simp [q] at h
  subst hp
  have : parseFormat [0xC3, 0xA9, 123, 62, 51, 125, 124] 2 = .ok ({ alignment := .right, minimumLength := 3 }, 6) := by decide +kernel
  rw [this] at h
  injection h with h; injection h with h1 h2; subst h1
  refine ⟨by decide, ?_⟩
  intro a ha
  simp at ha; subst ha
  exact valid_of_validate _ (by decide)

end StVerif.Props.C17
