/-
  C04 — ST::string has value semantics: reads never mutate, results never alias.

  Model: `Model/StrPool.lean` (an `ST::string` is one `ST::char_buffer` held by value; every public
  operation is a do-block over the buffer members of `Model/Pool.lean`, temporaries and unwinding
  included).  What a const operation computes is a parameter (the business of C06–C14); what is
  proved here is *where results live and what else is touched*, for every history.

  `p'.objs x = p.objs x` is equality of the whole object representation: size, in-object bytes and
  the data pointer; `view p' x = view p x` is equality of `(size(), data()[0..size))`.
-/
import StVerif.Lemmas.StrPoolReach

namespace StVerif.Props.C04
open StVerif StVerif.Pool StVerif.StrPool

/-- operations that only read their operands: const members and free functions producing new strings /
    buffers (`derive`), computing something else (`query`), or throwing while doing so (`deriveThrow`) -/
def IsConst : SOp → Prop
  | .derive _ | .deriveThrow _ | .query => True
  | _ => False

/-- **reads never mutate**: after any history, a const operation leaves every live object — its source and
    arguments included — with the same bytes, size and data pointer. -/
theorem const_frame {L : Nat} (hL : 0 < L) {p p' : Pool} (hr : SReach L p) (op : SOp) (hc : IsConst op) (hpre : op.pre p)
    (h : op.run p = .ok () p') (x : Nat) (hx : alive p x) : p'.objs x = p.objs x ∧ view p' x = view p x := by
  obtain ⟨hI, hT, hF⟩ := sreach_inv hL hr
  rcases sop_spec hI hF hT op hpre with ⟨p'', h1, s1, _, _⟩ | ⟨e, p'', h1, _, _, _, _⟩
  · rw [h] at h1; cases h1
    have hnt : ¬ x ∈ op.targets := by
      cases op with
      | derive ds =>
        intro hm
        obtain ⟨b, hb⟩ := hx
        have := (hpre.1 x (by simpa [SOp.targets] using hm)).2
        rw [hb] at this; cases this
      | deriveThrow e => simp [SOp.targets]
      | query => simp [SOp.targets]
      | _ => exact absurd hc (by simp [IsConst])
    exact ⟨s1.objs x hnt, s1.view x hnt⟩
  · rw [h] at h1; cases h1

/-- **results never alias** (and nothing else does): after any operation of any history the invariant of C05
    holds — in particular two distinct live objects never share storage, so modifying, reassigning or
    destroying one cannot change another. -/
theorem results_fresh {L : Nat} (hL : 0 < L) {p : Pool} (hr : SReach L p) {o₁ o₂ : Nat} {b₁ b₂ : Buf}
    (h₁ : p.objs o₁ = some b₁) (h₂ : p.objs o₂ = some b₂) (hne : o₁ ≠ o₂) : b₁.chars ≠ b₂.chars :=
  Props.C05.exclusive (sreach_inv hL hr).1 h₁ h₂ hne

/-- **independence**: whatever an operation does to its targets (modify, reassign, move from, destroy), every other
    object keeps its bytes, size and data pointer.  Copies are therefore independent deep copies. -/
theorem independent {L : Nat} (hL : 0 < L) {p p' : Pool} (hr : SReach L p) (op : SOp) (hpre : op.pre p)
    (h : op.run p = .ok () p') (x : Nat) (hx : x ∉ op.targets) : p'.objs x = p.objs x ∧ view p' x = view p x := by
  obtain ⟨hI, hT, hF⟩ := sreach_inv hL hr
  rcases sop_spec hI hF hT op hpre with ⟨p'', h1, s1, _, _⟩ | ⟨e, p'', h1, _, _, _, _⟩
  · rw [h] at h1; cases h1; exact ⟨s1.objs x hx, s1.view x hx⟩
  · rw [h] at h1; cases h1

/-- **a value changes only through a mutator applied to that very object**: if an object reports a different value
    (or lives elsewhere) after an operation, it is one of the operation's targets — the object assigned to, set,
    appended to, cleared, constructed or destroyed, or the source of a move. -/
theorem value_changes_only_by_mutator {L : Nat} (hL : 0 < L) {p p' : Pool} (hr : SReach L p) (op : SOp) (hpre : op.pre p)
    (h : op.run p = .ok () p') (x : Nat) (hchg : view p' x ≠ view p x ∨ p'.objs x ≠ p.objs x) : x ∈ op.targets := by
  refine Decidable.by_contra fun hx => ?_
  obtain ⟨a, b⟩ := independent hL hr op hpre h x hx
  rcases hchg with h' | h'
  · exact h' b
  · exact h' a

/-- no operation of any history ends in a memory fault (bad free, double free, use after free, out of bounds) -/
theorem never_faults {L : Nat} (hL : 0 < L) {p : Pool} (hr : SReach L p) (op : SOp) (hpre : op.pre p) :
    ∀ f p', op.run p ≠ .fault f p' := by
  obtain ⟨hI, hT, hF⟩ := sreach_inv hL hr
  intro f p' hf
  rcases sop_spec hI hF hT op hpre with ⟨p'', h1, _⟩ | ⟨e, p'', h1, _⟩ <;> (rw [hf] at h1; cases h1)

/-- the temporaries an operation creates never outlive it, and their storage is released (with the invariant's
    "every block has an owner" this is: nothing leaks) -/
theorem temporaries_gone {L : Nat} (hL : 0 < L) {p : Pool} (hr : SReach L p) :
    TempsDead p ∧ ∀ k blk, p.heap k = some blk → ∃ o, Owns p o k ∧ ¬ isTemp o := by
  obtain ⟨hI, hT, _⟩ := sreach_inv hL hr
  refine ⟨hT, fun k blk hk => ?_⟩
  obtain ⟨o, ho⟩ := hI.noLeak k blk hk
  refine ⟨o, ho, fun ht => ?_⟩
  obtain ⟨b, hb, _⟩ := ho
  rw [hT o ht] at hb; cases hb

/-! ### the hypotheses are satisfiable -/

/-- a history exists at every step: from any reachable state an operation whose precondition holds has an outcome,
    and the state it leads to is reachable again (so the quantifiers above range over all finite histories) -/
theorem progress {L : Nat} (hL : 0 < L) {p : Pool} (hr : SReach L p) (op : SOp) (hpre : op.pre p) :
    ∃ p', SReach L p' ∧ ((op.run p = .ok () p') ∨ ∃ e, op.run p = .throw e p') := by
  obtain ⟨hI, hT, hF⟩ := sreach_inv hL hr
  rcases sop_spec hI hF hT op hpre with ⟨p', h1, _⟩ | ⟨e, p', h1, _⟩
  · exact ⟨p', .ok hr hpre h1, Or.inl h1⟩
  · exact ⟨p', .thrown hr hpre h1, Or.inr ⟨e, h1⟩⟩

/-- concrete instance: a 20-byte string (heap storage at limit 16) can be constructed in the empty pool, and a const
    operation on it then satisfies its precondition -/
example : ∃ p1, SReach 16 p1 ∧ (SOp.ctorText 0 (List.replicate 20 0x61) .checkValidity).run (Pool.init 16) = .ok () p1 ∧
    (SOp.derive [(1, [0x61, 0x62, 0x63])]).pre p1 ∧ IsConst (SOp.derive [(1, [0x61, 0x62, 0x63])]) := by
  have hpre : (SOp.ctorText 0 (List.replicate 20 0x61) .checkValidity).pre (Pool.init 16) := ⟨by unfold userId; omega, rfl⟩
  obtain ⟨hI, hT, hF⟩ := sreach_inv (by decide : 0 < 16) (.init : SReach 16 (Pool.init 16))
  rcases sop_spec hI hF hT _ hpre with ⟨p1, h1, s1, _, _⟩ | ⟨e, p1, h1, _, _, _, _⟩
  · refine ⟨p1, .ok .init hpre h1, h1, ⟨?_, by decide⟩, trivial⟩
    intro d hd
    simp only [List.map_cons, List.map_nil, List.mem_singleton] at hd
    subst hd
    refine ⟨by unfold userId; omega, ?_⟩
    rw [s1.objs 1 (by simp [SOp.targets])]; rfl
  · -- the constructor cannot throw: the text is valid UTF-8
    exfalso
    rcases ctorText_spec hI hF (o := 0) rfl (hT _ isTemp_A) (hT _ isTemp_C) (by decide) (by decide) (List.replicate 20 0x61) .checkValidity with
      ⟨_, p2, h2, _⟩ | ⟨ht, _⟩
    · simp only [SOp.run] at h1; rw [h2] at h1; cases h1
    · exact ht.2 (by decide)

end StVerif.Props.C04
