/-
  C02 — validation modes accept, reject and repair malformed input correctly.
  Property theorems only.  `seg` / `wellFormedByDesign` / `reference` are the declarative
  notions of Spec/Unicode.lean; `convert` / `stringSetUtf8` are the model of the code.
-/
import StVerif.Lemmas.UtfString

namespace StVerif.Props.C02
open StVerif StVerif.Utf StVerif.Generated StVerif.Lemmas.Utf
open StVerif.Spec.Unicode

/-- **Refinement.**  Every conversion function computes the reference transcoding of its input under
    the requested mode: accept/reject and every output unit, for arbitrary units. -/
theorem convert_eq_reference (src dst : Enc) (hne : src ≠ dst) (m : Mode) (subst : Bool) (xs : List Nat)
    (hu : UnitsLt (unitBound src) xs) (hlen : xs.length < hugeBufferSize) :
    convert src dst m subst (some xs) = reference src dst m subst xs :=
  Lemmas.Utf.convert_eq_reference src dst hne m subst xs hu hlen

/-- the same for building an `ST::string` from UTF-8 bytes -/
theorem string_eq_reference (m : Mode) (xs : List Nat) (hb : Bytes xs) (hlen : xs.length < hugeBufferSize) :
    stringSetUtf8 m (some xs) = referenceString m xs :=
  stringSet_eq_reference m xs hb hlen

/-- can the target hold the decoded value? (UTF-16 stops at 10FFFF; Latin-1 at FF unless
    out-of-range substitution is on) -/
def Representable (dst : Enc) (subst : Bool) (v : Nat) : Bool :=
  match dst with
  | .utf16 => decide (v ≤ 0x10FFFF)
  | .latin1 => decide (v < 0x100) || subst
  | _ => true

/-- a segment the conversion has to refuse under `check_validity` -/
def Refused (dst : Enc) (subst : Bool) : Seg → Bool
  | .bad _ => true
  | .good v _ => !Representable dst subst v

theorem refSteps_check_none_iff (src dst : Enc) (subst : Bool) (sgs : List Seg) :
    refSteps src dst .checkValidity subst sgs = none ↔ sgs.any (Refused dst subst) = true := by
  induction sgs with
  | nil => simp [refSteps]
  | cons sg l ih =>
    rw [refSteps, List.any_cons]
    cases sg with
    | bad u => simp [refStep, Refused]
    | good v us =>
      cases hr : refSteps src dst .checkValidity subst l with
      | none =>
        have := ih.mp hr
        cases dst <;> simp [refStep, Refused, Representable, this] <;> (try split) <;> simp
      | some r =>
        have hn : ¬ (l.any (Refused dst subst) = true) := fun h => by
          have := ih.mpr h; rw [hr] at this; cases this
        have hf : l.any (Refused dst subst) = false := by simpa using hn
        cases dst with
        | utf8 => cases src <;> simp [refStep, Refused, Representable, hf]
        | utf32 => simp [refStep, Refused, Representable, hf]
        | utf16 =>
          by_cases hv : v ≤ 0x10FFFF <;> simp [refStep, Refused, Representable, hf, hv]
        | latin1 =>
          by_cases hv : v < 0x100 <;> cases subst <;> simp [refStep, Refused, Representable, hf, hv]

/-- `check_validity` throws `unicode_error` exactly when some unit cannot be part of a sequence
    where it stands (tolerated forms counting as sequences) or a decoded value does not fit the
    target; otherwise it succeeds. -/
theorem check_throws_iff (src dst : Enc) (hne : src ≠ dst) (subst : Bool) (xs : List Nat)
    (hu : UnitsLt (unitBound src) xs) (hlen : xs.length < hugeBufferSize) :
    (convert src dst .checkValidity subst (some xs) = .throw .unicodeError ↔ (seg src xs).any (Refused dst subst) = true) ∧
    ((seg src xs).any (Refused dst subst) = false → ∃ out, convert src dst .checkValidity subst (some xs) = .ok out) := by
  rw [convert_eq_reference src dst hne _ subst xs hu hlen]
  unfold reference
  have h := refSteps_check_none_iff src dst subst (seg src xs)
  cases hr : refSteps src dst .checkValidity subst (seg src xs) with
  | none => rw [hr] at h; simp [h.mp rfl]
  | some out =>
    rw [hr] at h
    have : ¬ ((seg src xs).any (Refused dst subst) = true) := fun q => by have := h.mpr q; cases this
    simp [this]

/-- when the target can hold every value (UTF-8, UTF-32/wchar_t, or Latin-1 with substitution) this is
    exactly "not well-formed by design" -/
theorem check_throws_iff_malformed (src dst : Enc) (hne : src ≠ dst) (subst : Bool) (xs : List Nat)
    (hd : dst = .utf8 ∨ dst = .utf32 ∨ (dst = .latin1 ∧ subst = true))
    (hu : UnitsLt (unitBound src) xs) (hlen : xs.length < hugeBufferSize) :
    convert src dst .checkValidity subst (some xs) = .throw .unicodeError ↔ wellFormedByDesign src xs = false := by
  rw [(check_throws_iff src dst hne subst xs hu hlen).1]
  unfold wellFormedByDesign
  have : ∀ sg, Refused dst subst sg = !Seg.isGood sg := by
    intro sg
    cases sg with
    | bad u => rfl
    | good v us => rcases hd with h | h | ⟨h, h'⟩ <;> subst h <;> simp [Refused, Representable, Seg.isGood, *]
  induction seg src xs with
  | nil => simp
  | cons sg l ih => simp only [List.any_cons, List.all_cons, this]; cases Seg.isGood sg <;> simp [ih]

/-- building an `ST::string` under `check_validity`: throws exactly on text that is not well-formed by
    design, and otherwise stores the bytes unchanged -/
theorem string_check (xs : List Nat) (hb : Bytes xs) (hlen : xs.length < hugeBufferSize) :
    (wellFormedByDesign .utf8 xs = true → stringSetUtf8 .checkValidity (some xs) = .ok xs) ∧
    (wellFormedByDesign .utf8 xs = false → stringSetUtf8 .checkValidity (some xs) = .throw .unicodeError) := by
  unfold stringSetUtf8 wellFormedByDesign
  simp only [if_neg (by omega : ¬ xs.length ≥ hugeBufferSize), seg]
  have h := validate_iff_seg xs hb
  constructor
  · intro hw; have := h.mpr hw; simp [this]
  · intro hw
    have : validateUtf8 xs ≠ 0 := fun q => by have := h.mp q; rw [hw] at this; cases this
    simp [this]

/-- `substitute_invalid` never throws when the target can hold a replacement for everything
    (i.e. except Latin-1 without out-of-range substitution) -/
theorem subst_never_throws (src dst : Enc) (hne : src ≠ dst) (subst : Bool) (hd : dst ≠ .latin1 ∨ subst = true) (xs : List Nat)
    (hu : UnitsLt (unitBound src) xs) (hlen : xs.length < hugeBufferSize) :
    ∃ out, convert src dst .substituteInvalid subst (some xs) = .ok out := by
  rw [convert_eq_reference src dst hne _ subst xs hu hlen]
  unfold reference
  have : ∀ sgs, ∃ out, refSteps src dst .substituteInvalid subst sgs = some out := by
    intro sgs
    induction sgs with
    | nil => exact ⟨[], rfl⟩
    | cons sg l ih =>
      obtain ⟨r, hr⟩ := ih
      rw [refSteps, hr]
      cases sg with
      | bad u =>
        rcases hd with hd | hd
        · cases dst <;> cases src <;> simp [refStep] at hd ⊢
        · subst hd; simp [refStep]
      | good v us =>
        cases dst with
        | utf8 => simp [refStep]
        | utf32 => simp [refStep]
        | utf16 => by_cases hv : v ≤ 0x10FFFF <;> simp [refStep, hv]
        | latin1 =>
          rcases hd with hd | hd
          · exact absurd rfl hd
          · subst hd; by_cases hv : v < 0x100 <;> simp [refStep, hv]
  obtain ⟨out, ho⟩ := this (seg src xs)
  exact ⟨out, by rw [ho]⟩

/-- what `substitute_invalid` produces, unit for unit: every sequence transcoded, U+FFFD (or `?`)
    for each malformed unit and for each value the target cannot hold -/
def substUnits (src dst : Enc) : Seg → List Nat
  | .bad _ => replacement dst
  | .good v us =>
      match dst with
      | .utf8 => if src = .utf8 then us else encUtf8 v
      | .utf16 => if v ≤ 0x10FFFF then encUtf16 v else replacement .utf16
      | .utf32 => [v]
      | .latin1 => if v < 0x100 then [v] else [63]

theorem subst_output (src dst : Enc) (hne : src ≠ dst) (xs : List Nat)
    (hu : UnitsLt (unitBound src) xs) (hlen : xs.length < hugeBufferSize) :
    convert src dst .substituteInvalid true (some xs) = .ok ((seg src xs).flatMap (substUnits src dst)) := by
  rw [convert_eq_reference src dst hne _ true xs hu hlen]
  unfold reference
  have : ∀ sgs, refSteps src dst .substituteInvalid true sgs = some (sgs.flatMap (substUnits src dst)) := by
    intro sgs
    induction sgs with
    | nil => rfl
    | cons sg l ih =>
      rw [refSteps, ih]
      cases sg with
      | bad u => cases dst <;> cases src <;> simp [refStep, substUnits]
      | good v us =>
        cases dst with
        | utf8 => simp [refStep, substUnits]
        | utf32 => simp [refStep, substUnits]
        | utf16 => by_cases hv : v ≤ 0x10FFFF <;> simp [refStep, substUnits, hv]
        | latin1 => by_cases hv : v < 0x100 <;> simp [refStep, substUnits, hv]
  rw [this]

/-- the `ST::string` case the property's rationale mentions: a repaired string always passes
    `check_validity`, and repairing is idempotent -/
theorem string_subst_revalidates (xs : List Nat) (hb : Bytes xs) (hlen : xs.length < hugeBufferSize) :
    ∃ out, stringSetUtf8 .substituteInvalid (some xs) = .ok out ∧ validateUtf8 out = 0 ∧
      wellFormedByDesign .utf8 out = true ∧ cleanupUtf8 out = out := by
  refine ⟨cleanupUtf8 xs, ?_, validate_cleanup xs hb, ?_, ?_⟩
  · unfold stringSetUtf8; simp [if_neg (by omega : ¬ xs.length ≥ hugeBufferSize)]
  · exact (validate_iff_seg _ (cleanup_bytes xs hb)).mp (validate_cleanup xs hb)
  · exact cleanup_of_valid _ (cleanup_bytes xs hb) (validate_cleanup xs hb)

/-- well-formed-by-design UTF-8 is accepted unchanged by all three modes -/
theorem string_wellformed_unchanged (m : Mode) (xs : List Nat) (hb : Bytes xs) (hlen : xs.length < hugeBufferSize)
    (hw : wellFormedByDesign .utf8 xs = true) : stringSetUtf8 m (some xs) = .ok xs := by
  cases m with
  | assumeValid => unfold stringSetUtf8; simp [if_neg (by omega : ¬ xs.length ≥ hugeBufferSize)]
  | checkValidity => exact (string_check xs hb hlen).1 hw
  | substituteInvalid =>
    have hv : validateUtf8 xs = 0 := (validate_iff_seg xs hb).mpr hw
    unfold stringSetUtf8; simp [if_neg (by omega : ¬ xs.length ≥ hugeBufferSize), cleanup_of_valid xs hb hv]

/-- for a tolerated form (any sequence) the accept/reject decision is the same in every mode and in
    every conversion whose target can represent the decoded value: it is accepted -/
theorem tolerated_same_decision (src dst : Enc) (m : Mode) (subst : Bool) (v : Nat) (us : List Nat)
    (hr : Representable dst subst v = true) : (refStep src dst m subst (.good v us)).isSome = true := by
  cases dst with
  | utf8 => simp [refStep]
  | utf32 => simp [refStep]
  | utf16 => have : v ≤ 0x10FFFF := by simpa [Representable] using hr
             simp [refStep, this]
  | latin1 =>
    by_cases hv : v < 0x100
    · simp [refStep, hv]
    · have : subst = true := by simpa [Representable, hv] using hr
      simp [refStep, hv, this]

/-- malformed units never swallow their neighbours: the UTF-8 segmentation of a standard sequence
    placed after any complete sequence is unaffected -/
theorem isolation_utf8 (c : Nat) (hc : c < 0x200000) (r : List Nat) :
    segUtf8 (encUtf8 c ++ r) = .good c (encUtf8 c) :: segUtf8 r := segUtf8_enc c hc r

/-! ### "its output always passes check_validity", literally, for the other targets

Full strength is false of the code *by design*: a tolerated form that crosses encodings can land on a
value the target's own validator refuses.  The two witnesses are proved here (and replayed on the
implementation, see known_findings.json); the partial theorem covers the inputs without them. -/

/-- UTF-32 output re-validates when no tolerated 4-byte form above U+10FFFF is present -/
theorem subst_output_valid_utf32_partial (src : Enc) (hne : src ≠ .utf32) (xs : List Nat)
    (hu : UnitsLt (unitBound src) xs) (hlen : xs.length < hugeBufferSize)
    (hyp : ∀ sg ∈ seg src xs, ∀ v us, sg = .good v us → v ≤ 0x10FFFF) :
    ∃ out, convert src .utf32 .substituteInvalid true (some xs) = .ok out ∧ wellFormedByDesign .utf32 out = true := by
  refine ⟨_, subst_output src .utf32 hne xs hu hlen, ?_⟩
  unfold wellFormedByDesign
  simp only [seg, segUtf32, List.all_map, List.all_eq_true, List.mem_flatMap]
  rintro x ⟨sg, hsg, hx⟩
  cases sg with
  | bad u => simp [substUnits, replacement] at hx; subst hx; simp [Seg.isGood]
  | good v us =>
    simp [substUnits] at hx
    have := hyp _ hsg v us rfl
    rw [hx]; simp [this, Seg.isGood]

/-- witness 1: an encoded surrogate substituted into UTF-16 is an unpaired surrogate there -/
theorem subst_output_invalid_utf16_witness :
    convert .utf8 .utf16 .substituteInvalid true (some [0xED, 0xA0, 0x80, 0x41]) = .ok [0xD800, 0x41] ∧
    wellFormedByDesign .utf16 [0xD800, 0x41] = false := by decide

/-- witness 2: a 4-byte form above U+10FFFF lands in UTF-32 as a value its validator refuses -/
theorem subst_output_invalid_utf32_witness :
    convert .utf8 .utf32 .substituteInvalid true (some [0xF7, 0xBF, 0xBF, 0xBF]) = .ok [0x1FFFFF] ∧
    wellFormedByDesign .utf32 [0x1FFFFF] = false := by decide

/-! non-vacuity -/
example : wellFormedByDesign .utf8 [0x41, 0xC0, 0x80, 0xED, 0xA0, 0x80, 0xF4, 0x90, 0x80, 0x80] = true := by decide
example : wellFormedByDesign .utf8 [0x41, 0x80] = false ∧ wellFormedByDesign .utf16 [0xDC00, 0xD800] = true ∧
    wellFormedByDesign .utf16 [0xD800] = false ∧ wellFormedByDesign .utf32 [0x110000] = false := by decide
example : cleanupUtf8 [0x41, 0xE2, 0x82, 0x42, 0xFF] = [0x41, 0xEF, 0xBF, 0xBD, 0xEF, 0xBF, 0xBD, 0x42, 0xEF, 0xBF, 0xBD] := by decide

end StVerif.Props.C02
