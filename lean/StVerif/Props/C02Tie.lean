/- Tie of property C02 to the source: the theorems `translated function = model` (tools/gen_kernels.py regenerates
   StVerif/Generated/Kernels.lean from the C++ on every run).  Kept apart from Props/C02.lean so that a bridge that stops
   checking leaves the property's other theorems built and audited (DESIGN.md section 14). -/
import StVerif.Props.C02
import StVerif.Lemmas.KernelBridge
import StVerif.Lemmas.KernelLoops
import StVerif.Lemmas.KernelLoopsUtf32
import StVerif.Lemmas.KernelLoopsUtf8
import StVerif.Lemmas.KernelLoopsMisc
import StVerif.Lemmas.KernelLoopsValidate
import StVerif.Lemmas.KernelLoopsCleanup

namespace StVerif.Props.C02
open StVerif StVerif.Utf StVerif.Generated StVerif.Lemmas.Utf
open StVerif.Spec.Unicode

/-! ### tie to the source (tools/gen_kernels.py) -/

/-- the decoders the validation modes are built on, as translated from the C++ on every run, are the model's decoders
    (malformed units included: an error is the flagged value `error_char` builds), and `char_error` reads the flag back -/
theorem kernels_are_model (mem : List Nat) (ch : Nat) (hch : ch < 2 ^ 31) :
    KernelBridge.stepLoop Kernels.extract_utf8 mem (mem.length + 1) 0 = .ok (decodeUtf8 mem) ∧
    KernelBridge.stepLoop Kernels.extract_utf16 mem (mem.length + 1) 0 = .ok (decodeUtf16 mem) ∧
    Kernels.char_error ch = .ok ((charError ch : Nat) : Int) :=
  ⟨KernelBridge.utf8_loop_eq mem, KernelBridge.utf16_loop_eq mem, KernelBridge.char_error_eq ch hch⟩

open StVerif.KernelBridge in
/-- the filling passes of include/st_utf_conv_priv.h as translated from the C++ on every run (tools/gen_kernels.py) are
    the model's `fill` over the model's decoder, in every mode (UTF-16 sources: units below 2^16), and the translated
    `validate_utf8` is the model's validator: the theorems of this file are about what the code says now -/
theorem conversion_loops_are_model (mem : List Nat) (m : Mode) (subst : Bool) (fuel : Nat) (hf : mem.length < fuel) :
    Kernels.utf16_convert_from_utf8 mem fuel 0 mem.length (modeCode m) = fillResult (fill (stepCh .utf8 .utf16 m subst) (decode .utf8 mem)) ∧
    Kernels.utf32_convert_from_utf8 mem fuel 0 mem.length (modeCode m) = fillResult (fill (stepCh .utf8 .utf32 m subst) (decode .utf8 mem)) ∧
    Kernels.utf8_convert_from_utf32 mem fuel 0 mem.length (modeCode m) = fillResult (fill (stepCh .utf32 .utf8 m subst) (decode .utf32 mem)) ∧
    Kernels.utf16_convert_from_utf32 mem fuel 0 mem.length (modeCode m) = fillResult (fill (stepCh .utf32 .utf16 m subst) (decode .utf32 mem)) ∧
    ((∀ u ∈ mem, u < 65536) →
      Kernels.utf8_convert_from_utf16 mem fuel 0 mem.length (modeCode m) = fillResult (fill (stepCh .utf16 .utf8 m subst) (decode .utf16 mem)) ∧
      Kernels.utf32_convert_from_utf16 mem fuel 0 mem.length (modeCode m) = fillResult (fill (stepCh .utf16 .utf32 m subst) (decode .utf16 mem))) ∧
    Kernels.validate_utf8 mem fuel 0 mem.length = .ok ((validateUtf8 mem : Nat) : Int) :=
  ⟨utf16_convert_from_utf8_eq mem m subst fuel hf, utf32_convert_from_utf8_eq mem m subst fuel hf,
   utf8_convert_from_utf32_eq mem m subst fuel hf, utf16_convert_from_utf32_eq mem m subst fuel hf,
   fun hu => ⟨utf8_convert_from_utf16_eq mem m subst hu fuel hf, utf32_convert_from_utf16_eq mem m subst hu fuel hf⟩,
   validate_utf8_eq mem fuel hf⟩

open StVerif.KernelBridge in
/-- `cleanup_utf8` (the repairer behind `substitute_invalid` for `ST::string`) as translated from the C++ on every run:
    both passes complete without a load outside the source, the sizing pass (null output) returns exactly the number of
    units the filling pass stores, and what is stored is the model's `cleanupUtf8` - for every source below 2^62 bytes -/
theorem translated_repairer_is_model (mem : List Nat) (fuel : Nat) (hf : mem.length < fuel) (hl : 3 * mem.length < 2 ^ 64) :
    Kernels.cleanup_utf8 mem fuel false 0 mem.length = .ok ((cleanupUtf8 mem).length, cleanupUtf8 mem) ∧
    Kernels.cleanup_utf8 mem fuel true 0 mem.length = .ok ((cleanupUtf8 mem).length, []) :=
  cleanup_utf8_eq mem fuel hf hl

end StVerif.Props.C02
