/-
  C08 — Slicing returns the clamped byte range for every position, count and separator.
  Property theorems only; helper lemmas live in Lemmas/Slice.lean and Lemmas/SliceSep.lean
  (which build on C07's `find_all_eq_spec` / `find_last_all_eq_spec`).

  Vocabulary: `substr`, `left`, `right`, `trimLeft`, `trimRight`, `trim`, `beforeFirst`,
  `afterFirst`, `beforeLast`, `afterLast` are the models of the members (Model/Slice.lean, the
  repaired tree); a result `Res` carries the returned bytes and the number of units the call asked
  of `operator new[]`.  `Sep` is the overload form of a separator (`char`, `const char*`,
  `ST::string`), `Sep.bytes` the bytes it denotes.  `Spec.Slice.*` is the Spec (take / drop /
  dropWhile / least and greatest occurrence).  Subjects are arbitrary lists (any bytes, embedded NUL
  included) shorter than 2^63; `start` ranges over the whole `ST_ssize_t` range and `count` / `n`
  over all of `Nat` (so the whole `size_t` range and beyond).
-/
import StVerif.Lemmas.Slice
import StVerif.Lemmas.SliceSep

namespace StVerif.Props.C08
open StVerif StVerif.Slice StVerif.Search StVerif.Lemmas.Slice
open StVerif.Spec.Search (occursAt window)

/-- the bytes of a call's result -/
def bytesOf (o : Outcome Res) : Outcome (List Nat) := o.map Res.bytes

theorem good_bytes {s want : List Nat} {o : Outcome Res} (h : Good s want o) : bytesOf o = .ok want := by
  obtain ⟨a, e, _⟩ := h; rw [e]; rfl

theorem good_alloc {s want : List Nat} {o : Outcome Res} (h : Good s want o) :
    ∀ r, o = .ok r → r.alloc ≤ s.length + 1 := by
  obtain ⟨a, e, ha⟩ := h
  intro r hr
  rw [e] at hr
  cases hr
  exact ha

/-! ### substr / left / right -/

/-- `substr(start, count)` returns the bytes `[start, start+count)` clipped to the string, a negative
    start counting from the end and a start beyond the end giving the empty string — for every start
    of the signed range and every count (those within `start` of `SIZE_MAX` included) -/
theorem substr_eq_spec (s : List Nat) (start : Int) (count : Nat) (hs : s.length < 2^63)
    (h0 : -(2^63 : Int) ≤ start) (h1 : start < 2^63) :
    bytesOf (substr s start count) = .ok (Spec.Slice.substr s start count) :=
  good_bytes (substr_good s start count hs h0 h1)

/-- `left(n)` is the first `min n size` bytes, for every `n` -/
theorem left_eq (s : List Nat) (n : Nat) (hs : s.length < 2^63) :
    bytesOf (left s n) = .ok (Spec.Slice.left s n) := good_bytes (left_good s n hs)

/-- `right(n)` is the last `min n size` bytes, for every `n` (`size < n < 2·size` and `n` near
    `SIZE_MAX` included) -/
theorem right_eq (s : List Nat) (n : Nat) (hs : s.length < 2^63) :
    bytesOf (right s n) = .ok (Spec.Slice.right s n) := good_bytes (right_good s n hs)

/-! ### trims (`charset` is the memory at the `const char*`; the set is the bytes before its first NUL) -/

theorem trimLeft_eq (s charset : List Nat) (hs : s.length < 2^63) :
    bytesOf (trimLeft s charset) = .ok (Spec.Slice.trimLeft s (Spec.Slice.cString charset)) :=
  good_bytes (trimLeft_good s charset hs)

theorem trimRight_eq (s charset : List Nat) (hs : s.length < 2^63) :
    bytesOf (trimRight s charset) = .ok (Spec.Slice.trimRight s (Spec.Slice.cString charset)) :=
  good_bytes (trimRight_good s charset hs)

theorem trim_eq (s charset : List Nat) (hs : s.length < 2^63) :
    bytesOf (trim s charset) = .ok (Spec.Slice.trim s (Spec.Slice.cString charset)) :=
  good_bytes (trim_good s charset hs)

/-- the default argument `ST_WHITESPACE` is the set the Spec calls whitespace -/
theorem whitespace_set : Spec.Slice.cString whitespace = Spec.Slice.whitespace := by decide

/-! ### before / after -/

theorem beforeFirst_eq (cs : CaseMode) (s : List Nat) (sep : Sep) (hs : s.length < 2^63) :
    bytesOf (beforeFirst cs s sep) = .ok (Spec.Slice.beforeFirst cs s sep.bytes) :=
  good_bytes (beforeFirst_good cs s sep hs)

theorem afterFirst_eq (cs : CaseMode) (s : List Nat) (sep : Sep) (hs : s.length < 2^63) :
    bytesOf (afterFirst cs s sep) = .ok (Spec.Slice.afterFirst cs s sep.bytes) :=
  good_bytes (afterFirst_good cs s sep hs)

theorem beforeLast_eq (cs : CaseMode) (s : List Nat) (sep : Sep) (hs : s.length < 2^63) :
    bytesOf (beforeLast cs s sep) = .ok (Spec.Slice.beforeLast cs s sep.bytes) :=
  good_bytes (beforeLast_good cs s sep hs)

theorem afterLast_eq (cs : CaseMode) (s : List Nat) (sep : Sep) (hs : s.length < 2^63) :
    bytesOf (afterLast cs s sep) = .ok (Spec.Slice.afterLast cs s sep.bytes) :=
  good_bytes (afterLast_good cs s sep hs)

/-- whenever the separator occurs, `before_first ++ (the occurrence) ++ after_first` is the original
    string, the occurrence being the first one; in the case-sensitive mode the occurrence is the
    separator itself -/
theorem reassemble_first (cs : CaseMode) (s : List Nat) (sep : Sep) (hs : s.length < 2^63)
    (hocc : Spec.Slice.occurs cs s sep.bytes = true) :
    ∃ b a i, bytesOf (beforeFirst cs s sep) = .ok b ∧ bytesOf (afterFirst cs s sep) = .ok a ∧
      b ++ window s i sep.bytes.length ++ a = s ∧ b.length = i ∧
      occursAt cs s sep.bytes i ∧ (∀ j, j < i → ¬ occursAt cs s sep.bytes j) ∧
      (cs = .sensitive → b ++ sep.bytes ++ a = s) := by
  unfold Spec.Slice.occurs at hocc
  cases h : Spec.Slice.firstOcc cs s sep.bytes with
  | none => rw [h] at hocc; cases hocc
  | some i =>
    obtain ⟨_, ho, hm⟩ := firstOcc_some h
    have hb := beforeFirst_eq cs s sep hs
    have ha := afterFirst_eq cs s sep hs
    unfold Spec.Slice.beforeFirst at hb
    unfold Spec.Slice.afterFirst at ha
    rw [h] at hb ha
    refine ⟨_, _, i, hb, ha, take_window_drop s i _, ?_, ho, hm, ?_⟩
    · have := ho.1; simp; omega
    · intro hcs
      subst hcs
      have hw : window s i sep.bytes.length = sep.bytes := ho.2
      have := take_window_drop s i sep.bytes.length
      rw [hw] at this
      exact this

/-- the same for `before_last` / `after_last` and the last occurrence -/
theorem reassemble_last (cs : CaseMode) (s : List Nat) (sep : Sep) (hs : s.length < 2^63)
    (hocc : Spec.Slice.occurs cs s sep.bytes = true) :
    ∃ b a i, bytesOf (beforeLast cs s sep) = .ok b ∧ bytesOf (afterLast cs s sep) = .ok a ∧
      b ++ window s i sep.bytes.length ++ a = s ∧ b.length = i ∧
      occursAt cs s sep.bytes i ∧ (∀ j, i < j → ¬ occursAt cs s sep.bytes j) ∧
      (cs = .sensitive → b ++ sep.bytes ++ a = s) := by
  unfold Spec.Slice.occurs at hocc
  cases hf : Spec.Slice.firstOcc cs s sep.bytes with
  | none => rw [hf] at hocc; cases hocc
  | some i0 =>
    obtain ⟨hne, ho0, _⟩ := firstOcc_some hf
    cases h : Spec.Slice.lastOcc cs s sep.bytes with
    | none =>
      rcases lastOcc_none h with he | hn
      · exact absurd he hne
      · exact absurd ho0 (hn i0)
    | some i =>
      obtain ⟨_, ho, hm⟩ := lastOcc_some h
      have hb := beforeLast_eq cs s sep hs
      have ha := afterLast_eq cs s sep hs
      unfold Spec.Slice.beforeLast at hb
      unfold Spec.Slice.afterLast at ha
      rw [h] at hb ha
      refine ⟨_, _, i, hb, ha, take_window_drop s i _, ?_, ho, hm, ?_⟩
      · have := ho.1; simp; omega
      · intro hcs
        subst hcs
        have hw : window s i sep.bytes.length = sep.bytes := ho.2
        have := take_window_drop s i sep.bytes.length
        rw [hw] at this
        exact this

/-- when the separator does not occur (an empty separator never does): `before_first` and
    `after_last` return the whole string, `after_first` and `before_last` the empty string -/
theorem absent_sep (cs : CaseMode) (s : List Nat) (sep : Sep) (hs : s.length < 2^63)
    (habs : Spec.Slice.occurs cs s sep.bytes = false) :
    bytesOf (beforeFirst cs s sep) = .ok s ∧ bytesOf (afterFirst cs s sep) = .ok [] ∧
    bytesOf (beforeLast cs s sep) = .ok [] ∧ bytesOf (afterLast cs s sep) = .ok s := by
  unfold Spec.Slice.occurs at habs
  have hf : Spec.Slice.firstOcc cs s sep.bytes = none := by
    cases h : Spec.Slice.firstOcc cs s sep.bytes with
    | none => rfl
    | some i => rw [h] at habs; cases habs
  have hl : Spec.Slice.lastOcc cs s sep.bytes = none := by
    cases h : Spec.Slice.lastOcc cs s sep.bytes with
    | none => rfl
    | some i =>
      obtain ⟨hne, ho, _⟩ := lastOcc_some h
      rcases firstOcc_none hf with he | hn
      · exact absurd he hne
      · exact absurd ho (hn i)
  have h1 := beforeFirst_eq cs s sep hs
  have h2 := afterFirst_eq cs s sep hs
  have h3 := beforeLast_eq cs s sep hs
  have h4 := afterLast_eq cs s sep hs
  unfold Spec.Slice.beforeFirst at h1
  unfold Spec.Slice.afterFirst at h2
  unfold Spec.Slice.beforeLast at h3
  unfold Spec.Slice.afterLast at h4
  rw [hf] at h1 h2
  rw [hl] at h3 h4
  exact ⟨h1, h2, h3, h4⟩

/-- an empty separator (`""`, a null pointer, an empty `ST::string`) does not occur -/
theorem empty_sep_absent (cs : CaseMode) (s : List Nat) : Spec.Slice.occurs cs s [] = false := by
  unfold Spec.Slice.occurs Spec.Slice.firstOcc; rfl

/-- the char, const char* and ST::string forms of a separator give identical results: the four
    functions depend on the argument only through the bytes it denotes.  In particular
    `.char c` ≍ `.str [c]`, `.cstr (some p)` ≍ `.str (bytes of p before its first NUL)`, and
    `.char c` ≍ `.cstr (some [c])` for `c ≠ 0` (see `forms_bytes`). -/
theorem sep_forms_agree (cs : CaseMode) (s : List Nat) (sep sep' : Sep) (hs : s.length < 2^63)
    (hb : sep.bytes = sep'.bytes) :
    bytesOf (beforeFirst cs s sep) = bytesOf (beforeFirst cs s sep') ∧
    bytesOf (afterFirst cs s sep) = bytesOf (afterFirst cs s sep') ∧
    bytesOf (beforeLast cs s sep) = bytesOf (beforeLast cs s sep') ∧
    bytesOf (afterLast cs s sep) = bytesOf (afterLast cs s sep') := by
  rw [beforeFirst_eq cs s sep hs, beforeFirst_eq cs s sep' hs, afterFirst_eq cs s sep hs, afterFirst_eq cs s sep' hs,
    beforeLast_eq cs s sep hs, beforeLast_eq cs s sep' hs, afterLast_eq cs s sep hs, afterLast_eq cs s sep' hs, hb]
  exact ⟨rfl, rfl, rfl, rfl⟩

theorem forms_bytes (c : Nat) (p : List Nat) :
    (Sep.char c).bytes = (Sep.str [c]).bytes ∧
    (Sep.cstr (some p)).bytes = (Sep.str (Spec.Slice.cString p)).bytes ∧
    (c ≠ 0 → (Sep.char c).bytes = (Sep.cstr (some [c])).bytes) ∧
    (Sep.cstr none).bytes = (Sep.str []).bytes := by
  refine ⟨rfl, rfl, ?_, rfl⟩
  intro hc
  simp [Sep.bytes, cBytes, hc]

/-! ### no oversized allocation, no read outside -/

/-- the slicing calls of the public API -/
inductive Call where
  | substr (start : Int) (count : Nat)
  | left (n : Nat) | right (n : Nat)
  | trimLeft (charset : List Nat) | trimRight (charset : List Nat) | trim (charset : List Nat)
  | beforeFirst (cs : CaseMode) (sep : Sep) | afterFirst (cs : CaseMode) (sep : Sep)
  | beforeLast (cs : CaseMode) (sep : Sep) | afterLast (cs : CaseMode) (sep : Sep)

def Call.run (s : List Nat) : Call → Outcome Res
  | .substr start count => Slice.substr s start count
  | .left n => Slice.left s n
  | .right n => Slice.right s n
  | .trimLeft c => Slice.trimLeft s c
  | .trimRight c => Slice.trimRight s c
  | .trim c => Slice.trim s c
  | .beforeFirst cs sep => Slice.beforeFirst cs s sep
  | .afterFirst cs sep => Slice.afterFirst cs s sep
  | .beforeLast cs sep => Slice.beforeLast cs s sep
  | .afterLast cs sep => Slice.afterLast cs s sep

/-- the argument is a value of the C++ parameter type (only `substr`'s signed start is constrained) -/
def Call.InRange : Call → Prop
  | .substr start _ => -(2^63 : Int) ≤ start ∧ start < 2^63
  | _ => True

/-- every slicing call returns (no exception, no read outside the string — `oob` —, no hang) and
    asks the allocator for at most `size + 1` units: never more than the subject itself occupies -/
theorem alloc_le_size (s : List Nat) (c : Call) (hs : s.length < 2^63) (hc : c.InRange) :
    ∃ r, c.run s = .ok r ∧ r.alloc ≤ s.length + 1 := by
  have key : ∀ want o, Good s want o → ∃ r, o = .ok r ∧ r.alloc ≤ s.length + 1 :=
    fun want o ⟨a, e, ha⟩ => ⟨⟨want, a⟩, e, ha⟩
  cases c with
  | substr start count => exact key _ _ (substr_good s start count hs hc.1 hc.2)
  | left n => exact key _ _ (left_good s n hs)
  | right n => exact key _ _ (right_good s n hs)
  | trimLeft c => exact key _ _ (trimLeft_good s c hs)
  | trimRight c => exact key _ _ (trimRight_good s c hs)
  | trim c => exact key _ _ (trim_good s c hs)
  | beforeFirst cs sep => exact key _ _ (beforeFirst_good cs s sep hs)
  | afterFirst cs sep => exact key _ _ (afterFirst_good cs s sep hs)
  | beforeLast cs sep => exact key _ _ (beforeLast_good cs s sep hs)
  | afterLast cs sep => exact key _ _ (afterLast_good cs s sep hs)

/-! ### the defects of the pinned tree (`Rev.pinned` transcribes `bfef877`), as machine-checked witnesses -/

/-- `ST::string("abc").right(4)` was `"c"`; `right(SIZE_MAX)` was empty -/
theorem pinned_right_witness :
    right [97, 98, 99] 4 .pinned = .ok ⟨[99], 0⟩ ∧ Spec.Slice.right [97, 98, 99] 4 = [97, 98, 99] ∧
    right [97, 98, 99] (2^64 - 1) .pinned = .ok ⟨[], 0⟩ := by decide

/-- `"abcdef".substr(2, SIZE_MAX - 1)` kept its count and asked for `SIZE_MAX` units -/
theorem pinned_substr_witness :
    substr [97, 98, 99, 100, 101, 102] 2 (2^64 - 2) .pinned = .throw .badAlloc ∧
    allocReq (2^64 - 2) = 2^64 - 1 ∧
    Spec.Slice.substr [97, 98, 99, 100, 101, 102] 2 (2^64 - 2) = [99, 100, 101, 102] := by decide

/-- `"h--w".after_first(ST::string("--"))` was `"-w"` -/
theorem pinned_after_first_witness :
    afterFirst .sensitive [104, 45, 45, 119] (.str [45, 45]) .pinned = .ok ⟨[45, 119], 0⟩ ∧
    afterLast .sensitive [104, 45, 45, 119] (.str [45, 45]) .pinned = .ok ⟨[45, 119], 0⟩ ∧
    Spec.Slice.afterFirst .sensitive [104, 45, 45, 119] [45, 45] = [119] := by decide

/-! non-vacuity -/
example : substr [97, 98, 99, 100, 101] (-3) 2 = .ok ⟨[99, 100], 0⟩ := by decide
example : Spec.Slice.substr [97, 98, 99, 100, 101] (-3) 2 = [99, 100] := by decide
example : trim [32, 97, 32, 98, 9] whitespace = .ok ⟨[97, 32, 98], 0⟩ := by decide
example : Spec.Slice.occurs .insensitive [104, 45, 88, 119] [120] = true := by decide
example : beforeLast .insensitive [104, 45, 88, 119, 120] (.char 88) = .ok ⟨[104, 45, 88, 119], 0⟩ := by decide
example : (Call.substr (-(2^63)) (2^64 - 1)).InRange := ⟨by decide, by decide⟩

end StVerif.Props.C08
