/- Tie of property C11 to the source: the theorems `translated function = model` (tools/gen_kernels.py regenerates
   StVerif/Generated/Kernels.lean from the C++ on every run).  Kept apart from Props/C11.lean so that a bridge that stops
   checking leaves the property's other theorems built and audited (DESIGN.md section 14). -/
import StVerif.Props.C11
import StVerif.Lemmas.KernelPadSize
import StVerif.Lemmas.KernelNumericString
import StVerif.Lemmas.KernelFormatString

namespace StVerif.Props.C11
open StVerif StVerif.Fmt StVerif.Lemmas.Fmt
open StVerif.Spec StVerif.Spec.Render

/-! ### tie to the source (tools/gen_kernels.py) -/

/-- `_ST_PRIVATE::pad_size` as translated from include/st_format_priv.h on every run (the `format_spec` fields it reads as
    parameters, the `switch` on the digit class, signed arithmetic checked for overflow) is the model's `padSize` for every
    width an `int` can hold and every text below 2^62 bytes: in particular `--pad_size` / `pad_size -= 2` never overflow -/
theorem translated_pad_size_is_model (f : FormatSpec) (size : Nat) (nt : StVerif.Fmt.NumType)
    (hmin : -(2:Int)^31 ≤ f.minimumLength ∧ f.minimumLength < (2:Int)^31) (hsize : size < 2 ^ 62) :
    StVerif.Generated.Kernels.pad_size (if f.alwaysSigned then 1 else 0) (if f.classPrefix then 1 else 0)
      (KernelBridge.digitCode f.digitClass) f.minimumLength size (KernelBridge.numCode nt) = .ok (StVerif.Fmt.padSize f size nt) :=
  KernelBridge.pad_size_eq f size nt hmin hsize

/-- `_ST_PRIVATE::format_numeric_prefix` and `format_numeric_string` as translated from include/st_format_priv.h on every
    run (the sink as the list of its `append` / `append_char` calls) are the model's `numericPrefix` and
    `formatNumericString`: sign, radix prefix, padding and digits in the order the alignment and the '0' flag select, for
    every field specification and every digit text; the digit text is the only thing read, no signed overflow occurs -/
theorem translated_numeric_layout_is_model (f : FormatSpec) (text : List Nat) (nt : StVerif.Fmt.NumType)
    (hpad : f.pad < 256) (hmin : -(2:Int)^31 ≤ f.minimumLength ∧ f.minimumLength < (2:Int)^31) (hlen : text.length < 2 ^ 62) :
    StVerif.Generated.Kernels.format_numeric_prefix (if f.alwaysSigned then 1 else 0) (if f.classPrefix then 1 else 0)
      (KernelBridge.digitCode f.digitClass) (KernelBridge.numCode nt) = .ok ((StVerif.Fmt.numericPrefix f nt).map KernelBridge.ofEvent) ∧
    StVerif.Generated.Kernels.format_numeric_string text (KernelBridge.alignCode f.alignment)
      (if f.alwaysSigned then 1 else 0) (if f.classPrefix then 1 else 0) (KernelBridge.digitCode f.digitClass) f.minimumLength
      (if f.numericPad then 1 else 0) (StVerif.Cxx.toChar f.pad) 0 text.length (KernelBridge.numCode nt)
      = .ok ((StVerif.Fmt.formatNumericString f text nt).map KernelBridge.ofEvent) :=
  ⟨KernelBridge.format_numeric_prefix_eq f nt, KernelBridge.format_numeric_string_eq' f text nt hpad hmin hlen⟩

/-- `ST::format_string` as translated from include/st_formatter.h on every run (the padding / truncation of every text-like
    argument; `static_cast<int>(size)` and the unsigned `minimum_length - size` as the explicit wrap-arounds they are) is the
    model's `formatString` for EVERY text length below 2^64 - also 2^31 and more, where the narrowing wraps - and every width
    and precision: the only thing read is `text.take` of the effective size, never anything outside the text -/
theorem translated_format_string_is_model (f : FormatSpec) (text : List Nat) (hpad : f.pad < 256) (hlen : text.length < 2 ^ 64) :
    StVerif.Generated.Kernels.format_string text (KernelBridge.alignCode f.alignment) f.minimumLength (StVerif.Cxx.toChar f.pad)
      f.precision 0 text.length 1 = .ok ((StVerif.Fmt.formatString f text).map KernelBridge.ofEvent) :=
  KernelBridge.format_string_eq_gen f text hpad hlen

end StVerif.Props.C11
