/-
  C12 — integer → text → integer is exact for every value, width and base.
  Property theorems only; helper lemmas live in Lemmas/Digits.lean and Lemmas/Num.lean.
-/
import StVerif.Lemmas.Num
import StVerif.Lemmas.NumParse

namespace StVerif.Props.C12
open StVerif StVerif.Num StVerif.Spec.Digits StVerif.Lemmas.Digits StVerif.Lemmas.Num StVerif.Lemmas.NumParse

/-- a base the library documents: 2 … 36 -/
def ValidBase (b : Nat) : Prop := 2 ≤ b ∧ b ≤ 36

/-- `from_uint` of every value of every unsigned type, in every base and letter case, is the canonical
    digit string (no leading zero, "0" for zero, letters in the requested case) -/
theorem from_uint_canonical (t : IntTy) (ht : t.signed = false) (base : Nat) (hb : ValidBase base) (upper : Bool)
    (v : Int) (hv : t.holds v) : fromInt t base upper v = .ok (natText base upper v.natAbs) := by
  obtain ⟨f, h1, h2, _⟩ := uintFormat_text t.bits v.natAbs base upper hb.1 hb.2 (bits_pos t) (natAbs_lt t v hv)
  unfold fromInt miniFormatIntU
  rw [if_neg (by simp [ht]), wrapW_nat t ht v hv, h1]
  show Outcome.ok (f.copy t.bits) = _
  rw [h2]

/-- `from_int` of every value of every signed type — the most negative one included — is a '-' for
    negatives followed by the canonical digits of the magnitude -/
theorem from_int_canonical (t : IntTy) (ht : t.signed = true) (base : Nat) (hb : ValidBase base) (upper : Bool)
    (v : Int) (hv : t.holds v) : fromInt t base upper v = .ok (intText base upper v) := by
  obtain ⟨f, h1, h2, _⟩ := uintFormat_text t.bits v.natAbs base upper hb.1 hb.2 (bits_pos t) (natAbs_lt t v hv)
  unfold fromInt miniFormatIntS
  rw [if_pos ht, absValue_eq t ht v hv]
  dsimp only
  rw [h1]
  unfold intText
  by_cases hneg : v < 0
  · simp only [hneg, if_true]; show Outcome.ok (45 :: f.copy t.bits) = _; rw [h2]; rfl
  · simp only [hneg, if_false]; show Outcome.ok (f.copy t.bits) = _; rw [h2]; rfl

/-- the canonical text really is *the* representation: its digit values are below the base, have the
    value `n`, and no other digit list without a leading zero has (uniqueness) -/
theorem canonical_meaning (base : Nat) (hb : ValidBase base) (n : Nat) (ds : List Nat) :
    Canonical base n ds ↔ ds = digits base n := canonical_iff base hb.1 n ds

/-- the digit generator never steps outside `m_buffer[digits + 1]`: for every width `w ≥ 1`, every
    value below `2^w` and every base ≥ 2 (base 2 of the widest value is the tight case) `m_start`
    ends at an index `< w`, i.e. at least one and at most `w` characters were stored in front of the NUL -/
theorem buffer_fits (w value radix : Nat) (upper : Bool) (hr : 2 ≤ radix) (hw : 0 < w) (hv : value < 2 ^ w) :
    ∃ f, uintFormat w value radix upper = .ok f ∧ f.start < w ∧ f.size w = f.chars.length ∧ f.chars.length ≤ w := by
  obtain ⟨f, h1, _, h3, h4, _⟩ := uintFormat_spec w value radix upper hr hw hv
  refine ⟨f, h1, h4, h3, ?_⟩
  rw [← h3]; unfold UFmt.size; omega

/-- the tight case is reached: base 2 of the widest value fills the buffer exactly -/
example : uintFormat 16 (2 ^ 16 - 1) 2 false = .ok { start := 0, chars := List.replicate 16 49 } := by decide

/-- `ST::format` with a plain `{}`, `{d}`, `{x}`, `{X}`, `{o}`, `{b}` field gives the canonical text of
    the argument in that base, for every integer type and value -/
theorem format_canonical (t : IntTy) (dc : DigitClass) (hdc : dc ≠ .chr) (v : Int) (hv : t.holds v) :
    ∃ radix upper, radixOf dc = .ok (radix, upper) ∧ ValidBase radix ∧
      formatInt t dc v = .ok (if t.signed then intText radix upper v else natText radix upper v.natAbs) := by
  have hrad : ∃ radix upper, radixOf dc = .ok (radix, upper) ∧ ValidBase radix := by
    cases dc <;> first | exact absurd rfl hdc | exact ⟨_, _, rfl, by unfold ValidBase; omega⟩
  obtain ⟨radix, upper, hro, hb⟩ := hrad
  refine ⟨radix, upper, hro, hb, ?_⟩
  obtain ⟨f, h1, h2, _⟩ := uintFormat_text t.bits v.natAbs radix upper hb.1 hb.2 (bits_pos t) (natAbs_lt t v hv)
  unfold formatInt
  by_cases ht : t.signed = true
  · rw [if_pos ht, if_pos ht]
    unfold formatNumericS
    rw [hro]
    show (do let f ← uintFormat t.bits _ radix upper; pure (signThen (decide (v < 0)) (f.copy t.bits))) = _
    rw [absValue_eq t ht v hv, h1]
    show Outcome.ok (signThen (decide (v < 0)) (f.copy t.bits)) = _
    rw [h2]; unfold signThen intText; simp
  · have ht' : t.signed = false := by simpa using ht
    rw [if_neg ht, if_neg ht]
    unfold formatNumericU
    rw [hro]
    show (do let f ← uintFormat t.bits _ radix upper; pure (f.copy t.bits)) = _
    rw [wrapW_nat t ht' v hv, h1]
    show Outcome.ok (f.copy t.bits) = _
    rw [h2]

/-- `string_stream << value` gives the canonical decimal text (types narrower than `int` promote) -/
theorem stream_canonical (t : IntTy) (v : Int) (hv : t.holds v) : streamInt t v = .ok (intText 10 false v) := by
  have signedCase : ∀ (t' : IntTy), t'.signed = true → t'.holds v → streamSigned t'.bits v = .ok (intText 10 false v) := by
    intro t' ht' hv'
    obtain ⟨f, h1, h2, _⟩ := uintFormat_text t'.bits v.natAbs 10 false (by omega) (by omega) (bits_pos t') (natAbs_lt t' v hv')
    unfold streamSigned
    rw [absValue_eq t' ht' v hv']
    dsimp only
    rw [h1]
    show Outcome.ok (signThen (decide (v < 0)) (f.copy t'.bits)) = _
    rw [h2]; unfold signThen intText; simp
  have unsignedCase : ∀ (t' : IntTy), t'.signed = false → t'.holds v → streamUnsigned t'.bits v.toNat = .ok (intText 10 false v) := by
    intro t' ht' hv'
    obtain ⟨f, h1, h2, _⟩ := uintFormat_text t'.bits v.natAbs 10 false (by omega) (by omega) (bits_pos t') (natAbs_lt t' v hv')
    unfold streamUnsigned
    rw [wrapW_nat t' ht' v hv', h1]
    show Outcome.ok (f.copy t'.bits) = _
    have : ¬ v < 0 := by
      cases t' <;> simp [IntTy.signed] at ht' <;> simp [IntTy.holds, IntTy.signed] at hv' <;> omega
    rw [h2]; unfold intText; simp [this]
  cases t
  case s8 => exact signedCase .s32 rfl (by simp [IntTy.holds, IntTy.signed, IntTy.bits] at hv ⊢; omega)
  case s16 => exact signedCase .s32 rfl (by simp [IntTy.holds, IntTy.signed, IntTy.bits] at hv ⊢; omega)
  case s32 => exact signedCase .s32 rfl hv
  case s64 => exact signedCase .s64 rfl hv
  case sll => exact signedCase .sll rfl hv
  case u8 => exact signedCase .s32 rfl (by simp [IntTy.holds, IntTy.signed, IntTy.bits] at hv ⊢; omega)
  case u16 => exact signedCase .s32 rfl (by simp [IntTy.holds, IntTy.signed, IntTy.bits] at hv ⊢; omega)
  case u32 => exact unsignedCase .u32 rfl hv
  case u64 => exact unsignedCase .u64 rfl hv
  case ull => exact unsignedCase .ull rfl hv

/-- the base and letter case a digit class stands for -/
def classOf (base : Nat) (upper : Bool) : DigitClass :=
  if base = 16 then (if upper then .hexUpper else .hex) else if base = 8 then .oct else if base = 2 then .bin else .dflt

/-- The three printers agree: for the four bases `ST::format` knows (10, 16 in both cases, 8, 2)
    `from_int`/`from_uint` and `ST::format` return the same text, and for base 10 so does
    `string_stream <<` -/
theorem printers_agree (t : IntTy) (base : Nat) (hbase : base = 10 ∨ base = 16 ∨ base = 8 ∨ base = 2) (upper : Bool)
    (hup : upper = true → base = 16) (v : Int) (hv : t.holds v) :
    fromInt t base upper v = formatInt t (classOf base upper) v ∧
    (base = 10 → fromInt t base upper v = streamInt t v) := by
  have hb : ValidBase base := by unfold ValidBase; omega
  have hfrom : fromInt t base upper v = .ok (intText base upper v) := by
    by_cases ht : t.signed = true
    · exact from_int_canonical t ht base hb upper v hv
    · have ht' : t.signed = false := by simpa using ht
      rw [from_uint_canonical t ht' base hb upper v hv]
      have : ¬ v < 0 := by
        cases t <;> simp [IntTy.signed] at ht' <;> simp [IntTy.holds, IntTy.signed] at hv <;> omega
      unfold intText; simp [this]
  have hcls : classOf base upper ≠ .chr := by unfold classOf; split <;> (try split) <;> (try split) <;> (try split) <;> simp
  obtain ⟨radix, up', hro, _, hfmt⟩ := format_canonical t (classOf base upper) hcls v hv
  have hru : radix = base ∧ up' = upper := by
    unfold classOf at hro
    rcases hbase with h | h | h | h
    · subst h
      have : upper = false := by cases upper; rfl; exact absurd (hup rfl) (by decide)
      subst this; simp [radixOf] at hro; exact ⟨hro.1.symm, by simpa using hro.2⟩
    · subst h; cases upper <;> simp [radixOf] at hro <;> exact ⟨hro.1.symm, by simpa using hro.2⟩
    · subst h
      have : upper = false := by cases upper; rfl; exact absurd (hup rfl) (by decide)
      subst this; simp [radixOf] at hro; exact ⟨hro.1.symm, by simpa using hro.2⟩
    · subst h
      have : upper = false := by cases upper; rfl; exact absurd (hup rfl) (by decide)
      subst this; simp [radixOf] at hro; exact ⟨hro.1.symm, by simpa using hro.2⟩
  obtain ⟨rfl, rfl⟩ := hru
  refine ⟨?_, ?_⟩
  · rw [hfrom, hfmt]
    by_cases ht : t.signed = true
    · simp [ht]
    · have ht' : t.signed = false := by simpa using ht
      have : ¬ v < 0 := by
        cases t <;> simp [IntTy.signed] at ht' <;> simp [IntTy.holds, IntTy.signed] at hv <;> omega
      simp [ht', intText, this]
  · intro h10
    subst h10
    have : up' = false := by cases up'; rfl; exact absurd (hup rfl) (by decide)
    subst this
    rw [hfrom, stream_canonical t v hv]

/-- no printer invokes undefined behaviour, trips an assertion or leaves its buffer: each returns a
    string for every value of every type, the most negative ones included -/
theorem no_ub (t : IntTy) (v : Int) (hv : t.holds v) :
    (∀ base upper, ValidBase base → (fromInt t base upper v).isOk = true) ∧
    (∀ dc, dc ≠ .chr → (formatInt t dc v).isOk = true) ∧
    (streamInt t v).isOk = true := by
  refine ⟨?_, ?_, ?_⟩
  · intro base upper hb
    by_cases ht : t.signed = true
    · rw [from_int_canonical t ht base hb upper v hv]; rfl
    · rw [from_uint_canonical t (by simpa using ht) base hb upper v hv]; rfl
  · intro dc hdc
    obtain ⟨_, _, _, _, h⟩ := format_canonical t dc hdc v hv
    rw [h]; rfl
  · rw [stream_canonical t v hv]; rfl

/-- Printing then parsing is exact: for every value of every signed or unsigned type, every base 2…36 and
    both letter cases, the text `from_int`/`from_uint` returns, parsed in the same base by any `to_*`
    member of the same signedness and at least the same width, gives the original value with `ok` and
    `full_match` both set; the overload without a result returns the value too.  (`to_long`,
    `to_long_long`, `to_int64` are `.s64`/`.sll`; the most negative value is included.) -/
theorem roundtrip (t : IntTy) (base : Nat) (hb : ValidBase base) (upper : Bool) (v : Int) (hv : t.holds v)
    (t' : IntTy) (hs : t'.signed = t.signed) (hwide : t.bits ≤ t'.bits) :
    ∃ text, fromInt t base upper v = .ok text ∧
      toIntTyR t' text base = (v, { ok := true, fullMatch := true }) ∧ toIntTy t' text base = v := by
  by_cases ht : t.signed = true
  · have ht' : t'.signed = true := by rw [hs, ht]
    refine ⟨intText base upper v, from_int_canonical t ht base hb upper v hv, ?_⟩
    have hv64 : -(2 ^ 63 : Int) ≤ v ∧ v < (2 ^ 63 : Int) := by
      cases t <;> simp [IntTy.signed] at ht <;> simp [IntTy.holds, IntTy.signed, IntTy.bits] at hv ⊢ <;> omega
    have hl := strtol_intText base hb.1 hb.2 upper v hv64
    have hne : (intText base upper v).isEmpty = false := by
      cases h : intText base upper v with
      | nil => exact absurd h (intText_length_pos base upper v)
      | cons a b => rfl
    have hnarrow : toSigned t'.bits (wrapW 64 v) = v := by
      cases t' <;> simp [IntTy.signed] at ht' <;> cases t <;> simp [IntTy.signed] at ht <;>
        simp [IntTy.bits] at hwide <;> simp [IntTy.holds, IntTy.signed, IntTy.bits] at hv ⊢ <;>
        (unfold toSigned wrapW; omega)
    have hlen : (intText base upper v).length ≠ 0 := fun h => intText_length_pos base upper v (List.eq_nil_of_length_eq_zero h)
    refine ⟨?_, ?_⟩
    · unfold toIntTyR toLongR
      simp only [ht', if_true, hne, hl, flagsOf, Bool.false_eq_true, if_false, hnarrow]
      simp [hlen]
    · unfold toIntTy toLong
      simp only [ht', if_true, hl, hnarrow]
  · have htf : t.signed = false := by simpa using ht
    have ht' : t'.signed = false := by rw [hs, htf]
    have hnn : v.natAbs = v := by
      cases t <;> simp [IntTy.signed] at htf <;> simp [IntTy.holds, IntTy.signed] at hv <;> omega
    refine ⟨natText base upper v.natAbs, from_uint_canonical t htf base hb upper v hv, ?_⟩
    have hv64 : v.natAbs < 2 ^ 64 := by
      have := natAbs_lt t v hv
      have h2 : (2 : Nat) ^ t.bits ≤ 2 ^ 64 := Nat.pow_le_pow_right (by omega) (by cases t <;> simp [IntTy.bits])
      omega
    have hl := strtoul_natText base hb.1 hb.2 upper v.natAbs hv64
    have hne : (natText base upper v.natAbs).isEmpty = false := by
      cases h : natText base upper v.natAbs with
      | nil => exact absurd h (natText_ne_nil base upper _)
      | cons a b => rfl
    have hnarrow : ((v.natAbs % 2 ^ t'.bits : Nat) : Int) = v := by
      have h1 := natAbs_lt t v hv
      have h2 : (2 : Nat) ^ t.bits ≤ 2 ^ t'.bits := Nat.pow_le_pow_right (by omega) hwide
      rw [Nat.mod_eq_of_lt (by omega)]; exact hnn
    have hlen : (natText base upper v.natAbs).length ≠ 0 := fun h => natText_ne_nil base upper _ (List.eq_nil_of_length_eq_zero h)
    refine ⟨?_, ?_⟩
    · unfold toIntTyR toUlongR
      simp only [ht', hne, hl, flagsOf, Bool.false_eq_true, if_false, hnarrow]
      simp [hlen]
    · unfold toIntTy toUlong
      simp only [ht', hl, hnarrow]
      simp

/-- Meaning of the flags for arbitrary text: the empty string is a full match without `ok` (value 0);
    otherwise the value is what `strtol`/`strtoul` return on the C string, narrowed to the result type,
    `ok` ⇔ at least one character was consumed and `full_match` ⇔ the number consumed equals `size()`;
    the overload without a result returns the same value. -/
theorem flags_meaning (t : IntTy) (s : List Nat) (base : Nat) :
    (s = [] → toIntTyR t s base = (0, { ok := false, fullMatch := true })) ∧
    (s ≠ [] → t.signed = true →
      toIntTyR t s base = (toSigned t.bits (wrapW 64 (strtol s base).value),
        { ok := decide ((strtol s base).endp ≠ 0), fullMatch := decide ((strtol s base).endp = s.length) })) ∧
    (s ≠ [] → t.signed = false →
      toIntTyR t s base = ((((strtoul s base).value % 2 ^ t.bits : Nat) : Int),
        { ok := decide ((strtoul s base).endp ≠ 0), fullMatch := decide ((strtoul s base).endp = s.length) })) ∧
    (s ≠ [] → toIntTy t s base = (toIntTyR t s base).1) := by
  refine ⟨fun h => ?_, fun h ht => ?_, fun h ht => ?_, fun h => ?_⟩
  · subst h
    unfold toIntTyR toLongR toUlongR
    cases t <;> simp [IntTy.signed, toSigned, wrapW]
  · cases s with
    | nil => exact absurd rfl h
    | cons a r => unfold toIntTyR toLongR flagsOf; simp [ht]
  · cases s with
    | nil => exact absurd rfl h
    | cons a r => unfold toIntTyR toUlongR flagsOf; simp [ht]
  · cases s with
    | nil => exact absurd rfl h
    | cons a r =>
      unfold toIntTy toIntTyR toLongR toUlongR toLong toUlong
      by_cases ht : t.signed = true <;> simp [ht]

/-- the characters consumed always lie inside the string: `endp ≤ size()`, so `full_match` (`endp = size()`)
    does mean that all of them were consumed -/
theorem consumed_within (s : List Nat) (base : Nat) :
    (strtol s base).endp ≤ s.length ∧ (strtoul s base).endp ≤ s.length :=
  ⟨strtol_endp_le s base, strtoul_endp_le s base⟩

/-- a base `strtol` accepts: 0 (auto-detect) or 2 … 36 -/
def ParseBase (b : Nat) : Prop := b = 0 ∨ (2 ≤ b ∧ b ≤ 36)

/-- The transcription of glibc's `strtol`/`strtoul` computes the *declarative* numeral prefix
    (`Spec.Digits.parseSpec`: white space, optional sign, optional `0x` when a hex digit follows, longest
    digit run; base 0 auto-detects) with the standard saturation, and stores its length through `endptr` —
    for every text and every legal base.  (That the transcription is what this platform's libc does is
    validated by the correspondence run, not proved.) -/
theorem strtol_eq_parseSpec (base : Nat) (hb : ParseBase base) (s : List Nat) :
    (strtol s base).value = clampSigned 64 (parseSpec base s) ∧ (strtol s base).endp = (parseSpec base s).consumed ∧
    (strtoul s base).value = clampUnsigned 64 (parseSpec base s) ∧ (strtoul s base).endp = (parseSpec base s).consumed :=
  ⟨(strtol_eq_spec base hb s).1, (strtol_eq_spec base hb s).2, (strtoul_eq_spec base hb s).1, (strtoul_eq_spec base hb s).2⟩

/-- Parsing arbitrary text, in terms of the specification only: a non-empty string gives the clamped
    value of its numeral prefix narrowed to the result type, `ok` ⇔ the prefix is non-empty, `full_match`
    ⇔ the prefix is the whole string -/
theorem parse_meaning (t : IntTy) (s : List Nat) (hs : s ≠ []) (base : Nat) (hb : ParseBase base) :
    toIntTyR t s base =
      (if t.signed then toSigned t.bits (wrapW 64 (clampSigned 64 (parseSpec base s)))
       else (((clampUnsigned 64 (parseSpec base s)) % 2 ^ t.bits : Nat) : Int),
       { ok := decide ((parseSpec base s).consumed ≠ 0), fullMatch := decide ((parseSpec base s).consumed = s.length) }) := by
  obtain ⟨h1, h2, h3, h4⟩ := strtol_eq_parseSpec base hb s
  by_cases ht : t.signed = true
  · rw [(flags_meaning t s base).2.1 hs ht, h1, h2]; simp [ht]
  · have ht' : t.signed = false := by simpa using ht
    rw [(flags_meaning t s base).2.2.1 hs ht', h3, h4]; simp [ht']

/-- Narrowing: `to_short`/`to_int` are `static_cast`s of `to_long` (two's-complement reduction),
    `to_ushort`/`to_uint` of `to_ulong`, with the same flags; a value that fits the narrower type is
    returned unchanged. -/
theorem narrowing (t : IntTy) (s : List Nat) (base : Nat) (hbase : base = 0 ∨ 2 ≤ base) :
    (t.signed = true → (toIntTyR t s base).1 = toSigned t.bits (wrapW 64 (toIntTyR .s64 s base).1) ∧
      (toIntTyR t s base).2 = (toIntTyR .s64 s base).2) ∧
    (t.signed = false → (toIntTyR t s base).1 = (((toIntTyR .u64 s base).1.toNat % 2 ^ t.bits : Nat) : Int) ∧
      (toIntTyR t s base).2 = (toIntTyR .u64 s base).2) ∧
    (∀ x : Int, t.holds x → (if t.signed then toSigned t.bits (wrapW 64 x) else ((x.toNat % 2 ^ t.bits : Nat) : Int)) = x) := by
  refine ⟨fun ht => ?_, fun ht => ?_, fun x hx => ?_⟩
  · have hrange : -(2 ^ 63 : Int) ≤ (toLongR s base).1 ∧ (toLongR s base).1 < 2 ^ 63 := by
      unfold toLongR
      by_cases he : s.isEmpty = true
      · simp [he]
      · simp only [he]; exact strtol_value_range s base
    have h64 : toSigned 64 (wrapW 64 (toLongR s base).1) = (toLongR s base).1 := by
      unfold toSigned wrapW; omega
    cases t <;> simp [IntTy.signed] at ht <;> simp [toIntTyR, IntTy.signed, IntTy.bits, h64]
  · have hrange : (toUlongR s base).1 < 2 ^ 64 := by
      unfold toUlongR
      by_cases he : s.isEmpty = true
      · simp [he]
      · simp only [he]; exact strtoul_value_lt s base hbase
    cases t <;> simp [IntTy.signed] at ht <;> simp [toIntTyR, IntTy.signed, IntTy.bits, Nat.mod_eq_of_lt hrange]
  · cases t <;> simp [IntTy.holds, IntTy.signed, IntTy.bits] at hx ⊢ <;>
      first | (unfold toSigned wrapW; omega) | omega

/-! The pinned tree (before repair 1061812) violated `no_ub`: `std::abs` of the most negative value. -/

/-- witness of defect #12 in `ST::format`: `format_numeric_s<int>` at `INT_MIN` -/
theorem pinned_format_ub_witness : Pinned.formatNumericS 32 .dflt (-2147483648) = .ub "negation" := by decide

/-- witness of defect #12 in `string_stream::operator<<(long long)` at `LLONG_MIN` -/
theorem pinned_stream_ub_witness : Pinned.streamSigned 64 (-9223372036854775808) = .ub "negation" := by decide

/-- 16-bit values were never affected: `std::abs` acts on the promoted `int` -/
example : Pinned.formatNumericS 16 .dflt (-32768) = .ok [45, 51, 50, 55, 54, 56] := by decide

/-! non-vacuity: the hypotheses are satisfiable and the most negative values go through every printer -/
example : IntTy.s32.holds (-2147483648) ∧ ValidBase 36 := ⟨by decide, by unfold ValidBase; omega⟩
example : fromInt .s32 10 false (-2147483648) = .ok [45, 50, 49, 52, 55, 52, 56, 51, 54, 52, 56] := by decide
example : formatInt .s32 .dflt (-2147483648) = .ok [45, 50, 49, 52, 55, 52, 56, 51, 54, 52, 56] := by decide
example : streamInt .s32 (-2147483648) = .ok [45, 50, 49, 52, 55, 52, 56, 51, 54, 52, 56] := by decide
example : toIntTyR .s32 [45, 50, 49, 52, 55, 52, 56, 51, 54, 52, 56] 10 = (-2147483648, { ok := true, fullMatch := true }) := by decide
example : toIntTyR .s64 [] 0 = (0, { ok := false, fullMatch := true }) := by decide
/-- "0x" alone: one character consumed (glibc 2.36), `ok` without `full_match` -/
example : toIntTyR .s64 [48, 120] 16 = (0, { ok := true, fullMatch := false }) := by decide
/-- saturation with ERANGE, then narrowing: `to_int("99999999999999999999")` is `(int)LONG_MAX = -1` -/
example : toIntTyR .s32 (List.replicate 20 57) 10 = (-1, { ok := true, fullMatch := true }) := by decide

end StVerif.Props.C12
