/-
  C20 — Concurrent use needs no locking.

  **This is the property where the theorem carries the least weight.**  What is proved here is
  *non-interference on the model*: on the object/heap machine of C04/C05 (`Model/Pool.lean`,
  `Model/StrPool.lean`) with the objects partitioned into a shared immutable pool and one private
  pool per thread (`Model/Sched.lean`), for every number of threads, all programs and **every
  interleaving**, each thread observes exactly what it observes when run alone, and the shared
  objects never change.  The proof rests on one premise that is a structural fact of the model and
  has to be *checked against the source* rather than proved: the pool is all the state there is.
  That premise is `statics_immutable` / `unsafe_calls_empty`: `decide` over the inventory of
  static-storage variables and external calls that `tools/gen_statics.py` regenerates from the clang
  AST of every public header on every run — a new mutable static makes this file fail to build.

  What the model cannot express, and what therefore stays *observed* (ThreadSanitizer harness), not
  proved: the hardware / C++ memory model (operations are interleaved whole; that a data-race-free
  program behaves like such an interleaving is the language's guarantee), races inside libc and
  libstdc++, state hidden behind `mutable` or `const_cast`.
-/
import StVerif.Generated.Statics
import StVerif.Lemmas.Sched

namespace StVerif.Props.C20
open StVerif StVerif.Pool StVerif.StrPool StVerif.Sched

/-! ### the premise, tied to the source by regeneration -/

/-- **no hidden shared mutable state**: every variable with static storage duration that the library's headers declare
    (namespace scope, static data members, function-local statics; regenerated from the clang AST on every run) is
    immutable.  A variable with *thread* storage duration is listed too, and accepted: it exists once per thread, so
    it is part of that thread's private state and cannot carry anything from one thread to another. -/
theorem statics_immutable :
    Generated.mutableStatics = [] ∧ ∀ v ∈ Generated.statics, v.isConst = true ∨ v.threadLocal = true := by
  constructor
  · unfold Generated.mutableStatics; decide     -- (unfolded first, so that a failure names the offending variables)
  · decide

/-- every external function the headers reference is inside the allow-list of functions documented MT-Safe -/
theorem unsafe_calls_empty : Generated.unsafeCalls = [] := by unfold Generated.unsafeCalls; decide

/-! ### one operation -/

/-- **an operation writes only its targets** (and fresh storage): whatever operation thread `s` executes on a good
    state — completed, thrown or refused — every object that `s` does not own is afterwards the very same object
    (size, in-object bytes, data pointer) reporting the same value; the state is good again (C05's invariant: storage
    exclusively owned, nothing leaked; no temporary alive). -/
theorem step_frame (part : Part) (s : Tid) (p : Pool) (top : TOp) (hG : Good p) :
    Good (execOp part s p top).1 ∧
    ∀ x, part x ≠ .priv s → (execOp part s p top).1.objs x = p.objs x ∧ view (execOp part s p top).1 x = view p x := by
  obtain ⟨g, h⟩ := execOp_frame (part := part) (s := s) top hG
  exact ⟨g, fun x hx => h x (by simpa [writable] using hx)⟩

/-- **an operation reads only its operands**: executed in two good states in which everything the thread may read
    (the shared objects and its own) reports the same values — whatever else differs: other threads' objects, heap
    layout, block numbers, allocation counter — the operation ends the same way, hands back the same result, leaves
    the thread's own objects with the same values, and the two states again agree on everything the thread may read. -/
theorem own_step_local (part : Part) (t : Tid) (p q : Pool) (top : TOp) (hp : Good p) (hq : Good q)
    (hA : ∀ x, part x = .shared ∨ part x = .priv t → view p x = view q x) :
    (execOp part t p top).2 = (execOp part t q top).2 ∧
    ∀ x, part x = .shared ∨ part x = .priv t → view (execOp part t p top).1 x = view (execOp part t q top).1 x := by
  have hA' : Agree part t p q := fun x hx => hA x (by simpa [readable] using hx)
  obtain ⟨_, _, a, o⟩ := execOp_agree top hp hq hA'
  exact ⟨o, fun x hx => a x (by simpa [readable] using hx)⟩

/-! ### schedules -/

theorem stepThread_pool (part : Part) (s : Tid) (c : Config) :
    (stepThread part s c).pool = c.pool ∨ ∃ top, (stepThread part s c).pool = (execOp part s c.pool top).1 := by
  unfold stepThread
  cases c.progs s with
  | nil => exact Or.inl rfl
  | cons top rest => exact Or.inr ⟨top, rfl⟩

/-- goodness is kept by every schedule -/
theorem reachable_inv (part : Part) (sched : List Tid) (c : Config) (hG : Good c.pool) : Good (run part sched c).pool := by
  induction sched generalizing c with
  | nil => exact hG
  | cons s rest ih =>
    refine ih (stepThread part s c) ?_
    rcases stepThread_pool part s c with h | ⟨top, h⟩ <;> rw [h]
    · exact hG
    · exact (step_frame part s c.pool top hG).1

/-- **shared objects are immutable under every schedule**: after any interleaving of any programs, every shared object
    is bit-identical (size, bytes, data pointer) and reports the same value. -/
theorem shared_unchanged (part : Part) (sched : List Tid) (c : Config) (hG : Good c.pool) (x : Nat) (hx : part x = .shared) :
    (run part sched c).pool.objs x = c.pool.objs x ∧ view (run part sched c).pool x = view c.pool x := by
  induction sched generalizing c with
  | nil => exact ⟨rfl, rfl⟩
  | cons s rest ih =>
    have hstep : Good (stepThread part s c).pool ∧ (stepThread part s c).pool.objs x = c.pool.objs x ∧
        view (stepThread part s c).pool x = view c.pool x := by
      rcases stepThread_pool part s c with h | ⟨top, h⟩ <;> rw [h]
      · exact ⟨hG, rfl, rfl⟩
      · obtain ⟨g, f⟩ := step_frame part s c.pool top hG
        exact ⟨g, f x (by rw [hx]; exact fun h => Owner.noConfusion h)⟩
    obtain ⟨a, b⟩ := ih (stepThread part s c) hstep.1
    exact ⟨a.trans hstep.2.1, b.trans hstep.2.2⟩

/-- **a thread's private objects are untouched by the other threads**: a turn of thread `s ≠ t` leaves every object of
    thread `t` bit-identical. -/
theorem others_private_unchanged (part : Part) (s t : Tid) (hst : s ≠ t) (c : Config) (hG : Good c.pool) (x : Nat)
    (hx : part x = .priv t) :
    (stepThread part s c).pool.objs x = c.pool.objs x ∧ view (stepThread part s c).pool x = view c.pool x := by
  rcases stepThread_pool part s c with h | ⟨top, h⟩ <;> rw [h]
  · exact ⟨rfl, rfl⟩
  · exact (step_frame part s c.pool top hG).2 x (by rw [hx]; exact fun h => hst (Owner.priv.inj h).symm)

/-- the induction behind `schedule_independent`: a concurrent configuration `c` and a configuration `a` in which only
    thread `t` runs stay related — thread `t` has the same program left and the same observations so far, and
    everything it may read reports the same values — when `c` follows any schedule and `a` the same schedule with
    the other threads' turns removed. -/
theorem run_related (part : Part) (t : Tid) (sched : List Tid) (c a : Config) (hc : Good c.pool) (ha : Good a.pool)
    (hA : Agree part t c.pool a.pool) (hp : c.progs t = a.progs t) (ht : c.trace t = a.trace t) :
    Good (run part sched c).pool ∧ Good (run part (alone t sched) a).pool ∧
    Agree part t (run part sched c).pool (run part (alone t sched) a).pool ∧
    (run part sched c).progs t = (run part (alone t sched) a).progs t ∧
    (run part sched c).trace t = (run part (alone t sched) a).trace t := by
  induction sched generalizing c a with
  | nil => exact ⟨hc, ha, hA, hp, ht⟩
  | cons s rest ih =>
    by_cases hs : s = t
    · subst hs
      have hal : alone s (s :: rest) = s :: alone s rest := by simp [alone]
      rw [hal]
      show Good (run part rest (stepThread part s c)).pool ∧ Good (run part (alone s rest) (stepThread part s a)).pool ∧ _
      -- both configurations let thread `s` execute its next operation
      have key : Good (stepThread part s c).pool ∧ Good (stepThread part s a).pool ∧
          Agree part s (stepThread part s c).pool (stepThread part s a).pool ∧
          (stepThread part s c).progs s = (stepThread part s a).progs s ∧
          (stepThread part s c).trace s = (stepThread part s a).trace s := by
        unfold stepThread
        rw [← hp]
        cases hprog : c.progs s with
        | nil => exact ⟨hc, ha, hA, by rw [hprog] at hp; rw [hprog, ← hp], ht⟩
        | cons top more =>
          obtain ⟨g1, g2, a', o⟩ := execOp_agree (part := part) (t := s) top hc ha hA
          refine ⟨g1, g2, a', ?_, ?_⟩
          · simp [Sched.upd]
          · simp [Sched.upd, ht, o]
      exact ih _ _ key.1 key.2.1 key.2.2.1 key.2.2.2.1 key.2.2.2.2
    · have hal : alone t (s :: rest) = alone t rest := by simp [alone, hs]
      rw [hal]
      show Good (run part rest (stepThread part s c)).pool ∧ _
      -- another thread's turn: invisible to thread `t`
      have key : Good (stepThread part s c).pool ∧ Agree part t (stepThread part s c).pool a.pool ∧
          (stepThread part s c).progs t = a.progs t ∧ (stepThread part s c).trace t = a.trace t := by
        unfold stepThread
        cases hprog : c.progs s with
        | nil => exact ⟨hc, hA, hp, ht⟩
        | cons top more =>
          obtain ⟨g, f⟩ := execOp_frame (part := part) (s := s) top hc
          refine ⟨g, fun x hx => ?_, ?_, ?_⟩
          · rw [(f x (not_writable_of_readable hs hx)).2]; exact hA x hx
          · simp [Sched.upd, Ne.symm hs, hp]
          · simp [Sched.upd, Ne.symm hs, ht]
      exact ih _ _ key.1 ha key.2.1 key.2.2.1 key.2.2.2

/-- **every thread obtains the results it obtains when run alone** — for every partition of the objects, every number of
    threads, all programs (an operation breaking the ownership discipline is refused, identically in both runs) and
    **every schedule**: the sequence of observations of thread `t` (how each of its operations ended, what each const call
    handed back, the values of all its own objects after each step) is the one it makes when the other threads never run. -/
theorem schedule_independent (part : Part) (t : Tid) (sched : List Tid) (c : Config) (hG : Good c.pool) :
    (run part sched c).trace t = (run part (alone t sched) c).trace t :=
  (run_related part t sched c c hG hG (fun _ _ => rfl) rfl rfl).2.2.2.2

/-- the same statement about the final state: everything thread `t` may read — the shared objects and its own — reports
    the same values after the concurrent run and after the run alone, and `t` has the same program left. -/
theorem schedule_independent_views (part : Part) (t : Tid) (sched : List Tid) (c : Config) (hG : Good c.pool) (x : Nat)
    (hx : part x = .shared ∨ part x = .priv t) :
    view (run part sched c).pool x = view (run part (alone t sched) c).pool x ∧
    (run part sched c).progs t = (run part (alone t sched) c).progs t := by
  obtain ⟨_, _, a, p, _⟩ := run_related part t sched c c hG hG (fun _ _ => rfl) rfl rfl
  exact ⟨a x (by simpa [readable] using hx), p⟩

/-- no operation of any schedule ends in a memory fault of the machine (bad free, double free, use after free, out of bounds) -/
theorem never_faults (part : Part) (s : Tid) (p : Pool) (top : TOp) (hG : Good p) (f : Fault) :
    (execOp part s p top).2.ending ≠ .faulted f := by
  unfold execOp
  by_cases ha : top.admissible part s p = true
  · rw [if_pos ha]
    simp only [TOp.admissible, Bool.and_eq_true] at ha
    rcases good_step hG (top.toSOp p) (preB_sound ha.2) with ⟨p', us, h1, _⟩ | ⟨e, p', h1, _⟩ <;> rw [h1] <;> simp
  · rw [if_neg ha]; simp

/-- **C20 on the model, with its premise**: the source inventory shows no mutable static storage and no call outside the
    MT-Safe allow-list (so the pool really is all the state the operations share), and then — for every partition,
    every thread, every schedule from every good configuration — the thread's observations are those of its run alone
    and every shared object is bit-identical afterwards.  (The two inventory conjuncts are `decide` over the regenerated
    lists: when the source grows a mutable static this theorem, and with it the check, stops holding.) -/
theorem no_locking_needed :
    (∀ v ∈ Generated.statics, v.isConst = true ∨ v.threadLocal = true) ∧ Generated.unsafeCalls = [] ∧
    ∀ (part : Part) (t : Tid) (sched : List Tid) (c : Config), Good c.pool →
      (run part sched c).trace t = (run part (alone t sched) c).trace t ∧
      ∀ x, part x = .shared → (run part sched c).pool.objs x = c.pool.objs x ∧ view (run part sched c).pool x = view c.pool x :=
  ⟨statics_immutable.2, unsafe_calls_empty, fun part t sched c hG =>
    ⟨schedule_independent part t sched c hG, fun x hx => shared_unchanged part sched c hG x hx⟩⟩

/-! ### the hypotheses are satisfiable, the quantifiers are not vacuous -/

/-- running alone *is* a schedule (the one in which only `t` is ever picked), and it is its own restriction -/
theorem alone_is_a_schedule (t : Tid) (sched : List Tid) : alone t (alone t sched) = alone t sched := by
  simp [alone, List.filter_filter]

/-- every state reached by a sequential history of C04 (in particular the empty pool, and any pool in which shared
    strings have been constructed before the threads start) is a good initial pool -/
theorem initial_good {L : Nat} (hL : 0 < L) {p : Pool} (h : SReach L p) : Good p := good_of_sreach hL h

/-- concrete instance: two threads over the empty pool (small-string limit 16); thread 0 owns the even ids, thread 1 the
    odd ones.  Thread 0 constructs "ab" in object 0 and upper-cases it into object 2 (a const call whose value function
    is given), thread 1 constructs "xyz" in object 1.  Both operations of thread 0 are admitted and complete under the
    schedule [1, 0, 0] — the theorem's conclusion is about real, completed steps. -/
example :
    let part : Part := fun x => if x % 2 = 0 then .priv 0 else .priv 1
    let up : List (Option View) → CRes := fun vs => .values [(unitsOf (vs.headD none)).map (fun u => if 97 ≤ u ∧ u ≤ 122 then u - 32 else u)]
    let c : Config := { pool := Pool.init 16,
                        progs := fun t => if t = 0 then [.mutate (.ctorText 0 [97, 98] .checkValidity), .const [0] [2] up]
                                          else if t = 1 then [.mutate (.ctorText 1 [120, 121, 122] .checkValidity)] else [],
                        trace := fun _ => [] }
    ((run part [1, 0, 0] c).trace 0).map (·.ending) = [.completed, .completed] ∧
    view (run part [1, 0, 0] c).pool 2 = some (2, [65, 66]) ∧ view (run part [1, 0, 0] c).pool 1 = some (3, [120, 121, 122]) := by
  decide

end StVerif.Props.C20
