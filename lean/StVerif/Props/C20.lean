/-
  C20 — Concurrent use needs no locking.   (first part: the source inventory premises)
-/
import StVerif.Generated.Statics

namespace StVerif.Props.C20
open StVerif

/-- **no hidden shared mutable state**: every variable with static or thread storage duration that the
    library's headers declare (regenerated from the clang AST on every run) is immutable. -/
theorem statics_immutable : ∀ v ∈ Generated.statics, v.isConst = true := by decide

/-- every external function the headers reference is inside the MT-Safe allow-list -/
theorem unsafe_calls_empty : Generated.unsafeCalls = [] := by decide

end StVerif.Props.C20
