/- Tie of property C14 to the source: the theorems `translated function = model` (tools/gen_kernels.py regenerates
   StVerif/Generated/Kernels.lean from the C++ on every run).  Kept apart from Props/C14.lean so that a bridge that stops
   checking leaves the property's other theorems built and audited (DESIGN.md section 14). -/
import StVerif.Props.C14
import StVerif.Lemmas.KernelBridge
import StVerif.Lemmas.KernelLoopsCodec

namespace StVerif.Props.C14
open StVerif StVerif.Codec StVerif.Lemmas.Codec
open StVerif.Spec

/-! ### tie to the source (tools/gen_kernels.py) -/

/-- `b64_encode_size` as translated from include/st_codecs_priv.h on every run is the model's size function for every
    input length below 2^62 (beyond that the C++ multiplication wraps; such buffers cannot exist) -/
theorem encode_size_is_model (n : Nat) (h : n < 2 ^ 62) :
    StVerif.Generated.Kernels.b64_encode_size n = .ok (StVerif.Codec.b64EncodeSize n) :=
  KernelBridge.b64_encode_size_eq n h

/-- `_ST_PRIVATE::hex_encode` and `b64_encode` as translated from include/st_codecs_priv.h on every run (loops, the
    `switch (size)` tail, the alphabets as the tables the function declares) are the model's encoders for every input:
    no load outside the source (`sp[1]`, `sp[2]` of a tail are read only when present), every table index inside the
    alphabet, the `default:` assertion unreachable -/
theorem translated_encoders_are_model (mem : List Nat) (hb : ∀ b ∈ mem, b < 256) (fuel : Nat) (hf : mem.length < fuel) :
    StVerif.Generated.Kernels.hex_encode mem fuel 0 mem.length = .ok (StVerif.Codec.hexEncode mem) ∧
    StVerif.Generated.Kernels.b64_encode mem fuel 0 mem.length = .ok (StVerif.Codec.b64Encode mem) :=
  ⟨KernelBridge.hex_encode_eq mem fuel hf, KernelBridge.b64_encode_eq mem hb fuel hf⟩

end StVerif.Props.C14
