/- Tie of property C12 to the source: the theorems `translated function = model` (tools/gen_kernels.py regenerates
   StVerif/Generated/Kernels.lean from the C++ on every run).  Kept apart from Props/C12.lean so that a bridge that stops
   checking leaves the property's other theorems built and audited (DESIGN.md section 14). -/
import StVerif.Props.C12
import StVerif.Lemmas.KernelUintFormat

namespace StVerif.Props.C12
open StVerif StVerif.Num StVerif.Spec.Digits StVerif.Lemmas.Digits StVerif.Lemmas.Num StVerif.Lemmas.NumParse

/-! ### tie to the source (tools/gen_kernels.py) -/

/-- `ST::uint_formatter<unsigned long>::format` and `<unsigned int>::format` as translated from
    include/st_format_numeric.h on every run (the digit generator writing backwards into its member buffer; a zero divisor
    and a write before the start of the buffer are faults of the translation) are the model's `uintFormat` for every radix
    from 2 that an `int` can hold and every value of the type: same characters, no division by zero, never a write before
    the start of the 65- / 33-byte buffer, at most 64 / 32 iterations -/
theorem translated_digit_generator_is_model (radix : Nat) (upper : Bool) (hr : 2 ≤ radix) (hr' : radix < 2 ^ 31) :
    (∀ value, value < 2 ^ 64 → ∀ fuel, 65 ≤ fuel → ∃ f, StVerif.Num.uintFormat 64 value radix upper = .ok f ∧
      StVerif.Generated.Kernels.uint_formatter_unsigned_long_format [] fuel value (radix : Int) (if upper then 1 else 0) = .ok f.chars ∧
      f.start + f.chars.length = 64) ∧
    (∀ value, value < 2 ^ 32 → ∀ fuel, 33 ≤ fuel → ∃ f, StVerif.Num.uintFormat 32 value radix upper = .ok f ∧
      StVerif.Generated.Kernels.uint_formatter_unsigned_int_format [] fuel value (radix : Int) (if upper then 1 else 0) = .ok f.chars ∧
      f.start + f.chars.length = 32) :=
  ⟨fun value hv fuel hf => KernelBridge.uint_format_64_eq value radix upper hr hr' hv fuel hf,
   fun value hv fuel hf => KernelBridge.uint_format_32_eq value radix upper hr hr' hv fuel hf⟩

end StVerif.Props.C12
