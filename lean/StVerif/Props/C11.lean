/-
  C11 — formatted output equals the specified rendering of literals, fields and padding.

  `Spec.Render.render` (Spec/Render.lean) says what a format call must produce, as a function of
  the *list* of format bytes and the argument values; `run` is the model of the code
  (`apply_format` driving `fetch_prefix` / `parse_format` / the `format_type` overloads into a sink).
  The main theorem is an equality of *outcomes* (output bytes, `bad_format`, `out_of_range`, the
  char-padding contract), for every format string without an embedded NUL and every argument list;
  the remaining theorems are the clauses of the property read off the Spec.

  Readings chosen (DESIGN.md, C11): zero padding overrides an explicit alignment for integers; for
  text and booleans `0` only selects the pad character; precision is ignored for integers; the
  character class applies to integer and character arguments only; floating-point arguments are
  "rendered by libc, then padded" (the rendering itself is C13's subject and is a parameter here).
-/
import StVerif.Lemmas.FmtRun
import StVerif.Lemmas.UtfString

namespace StVerif.Props.C11
open StVerif StVerif.Fmt StVerif.Lemmas.Fmt
open StVerif.Spec StVerif.Spec.Render

/-- **refinement**: the sink receives exactly the bytes of the specified rendering, and fails
    exactly when and how the Spec says (all eight integer types of widths 8/16/32/64, the five
    character types, booleans, narrow strings, wide text (UTF-16 / UTF-32 units: rendered as the
    reference transcoding of C02, `unicode_error` when malformed), null strings, floating point with
    a libc rendering of any length; all flag combinations, all field orders, `&N` and sequential mixed) -/
theorem format_outcome_eq_spec (fmt : List Nat) (hz : NoNul fmt) (args : List Arg) (ha : ArgsOk args) :
    (run (some fmt) args).map flatten = render fmt args := by
  unfold run runEvents applyFormat render
  by_cases hn : args.length = 0
  · have he : args = [] := List.eq_nil_of_length_eq_zero hn
    subst he
    simp only [List.length_nil, if_true, List.isEmpty_nil]
    have h1 := nextFormat_spec fmt hz 0 (Nat.zero_le _)
    have h2 := nextFormat_sat fmt 0 (Nat.zero_le _)
    revert h1 h2
    cases nextFormat fmt 0 with
    | ok r =>
      obtain ⟨ev, p, more⟩ := r
      simp only [Sat, Outcome.bind, List.drop_zero]
      intro ⟨h3, h4, h5⟩ ⟨_, _, h6⟩
      cases more with
      | false =>
        have : (splitLiteral fmt).2 = [] := by rw [← h4, h5 rfl]
        have hsl : splitLiteral fmt = ((splitLiteral fmt).1, []) := by rw [← this]
        rw [hsl]
        simp [Outcome.map, h3]
      | true =>
        obtain ⟨hp, hc⟩ := h6 rfl
        have hd := drop_cons_of_lt hp
        have hsl : splitLiteral fmt = ((splitLiteral fmt).1, fmt.getD p 0 :: fmt.drop (p + 1)) := by
          rw [← hd, h4]
        rw [hsl]
        simp [Outcome.map]
    | _ => simp [Sat]
  · have hne : args.isEmpty = false := by
      cases args with
      | nil => simp at hn
      | cons a l => rfl
    simp only [hn, if_false, hne, Bool.false_eq_true]
    have := applyLoop_eq_spec fmt hz args ha 0 0 (Nat.zero_le _)
    simpa using this

/-- **formatted output equals the specified rendering**: a successful format call emits exactly
    the bytes `Spec.Render.render` prescribes -/
theorem format_eq_spec (fmt : List Nat) (hz : NoNul fmt) (args : List Arg) (ha : ArgsOk args) (ev : List Event)
    (h : run (some fmt) args = .ok ev) : render fmt args = .ok (flatten ev) := by
  rw [← format_outcome_eq_spec fmt hz args ha, h]; rfl

/-- **what `ST::format` returns**: the specified rendering passed through the requested UTF-8
    validation (C02's reference: unchanged, repaired, or `unicode_error`), for renderings of fewer
    than 2^28 bytes -/
theorem format_string_eq_spec (m : Mode) (fmt : List Nat) (hz : NoNul fmt) (args : List Arg) (ha : ArgsOk args)
    (bytes : List Nat) (hr : render fmt args = .ok bytes) (hb : Bytes bytes) (hlen : bytes.length < Generated.hugeBufferSize) :
    runFormat (.utf8 m) (some fmt) args = Unicode.referenceString m bytes := by
  have h := format_outcome_eq_spec fmt hz args ha
  rw [hr] at h
  unfold runFormat
  cases hrun : run (some fmt) args with
  | ok ev =>
    rw [hrun] at h
    simp only [Outcome.map] at h
    injection h with h
    simp only [Outcome.bind, toStringOf, h]
    exact StVerif.Lemmas.Utf.stringSet_eq_reference m bytes hb hlen
  | throw e => rw [hrun] at h; simp [Outcome.map] at h
  | assertFail w => rw [hrun] at h; simp [Outcome.map] at h
  | ub w => rw [hrun] at h; simp [Outcome.map] at h
  | oob => rw [hrun] at h; simp [Outcome.map] at h
  | stuck => rw [hrun] at h; simp [Outcome.map] at h

/-- one field on one argument: every `format_type` overload emits the specified rendering, for
    every spec the parser can produce -/
theorem field_eq_spec (a : Arg) (f : FormatSpec) (ha : a.InRange) (hf : SpecInt f) (hfl : a.LibcRenders) :
    (formatType a f).map flatten = renderField f a :=
  formatType_eq_spec a f ha hf hfl

/-- …in particular for every integer width and signedness -/
theorem int_eq_spec (w : Nat) (hw : w = 8 ∨ w = 16 ∨ w = 32 ∨ w = 64) (f : FormatSpec) (hf : SpecInt f) (hc : f.digitClass ≠ .chr) :
    (∀ v : Int, -(2 ^ (w - 1) : Int) ≤ v → v < 2 ^ (w - 1) → (formatType (.sint w v) f).map flatten = .ok (renderInt f v)) ∧
    (∀ v : Nat, v < 2 ^ w → (formatType (.uint w v) f).map flatten = .ok (renderInt f v)) := by
  constructor
  · intro v h1 h2
    rw [formatType_eq_spec (.sint w v) f ⟨hw, h1, h2⟩ hf trivial]
    simp [renderField, intValue, hc]
  · intro v h1
    rw [formatType_eq_spec (.uint w v) f ⟨hw, h1⟩ hf trivial]
    simp [renderField, intValue, hc]

/-! ### the clauses of the property, read off the Spec -/

/-- the natural rendering of an integer: sign, prefix, digits -/
def naturalInt (f : FormatSpec) (v : Int) : List Nat :=
  signOf f v ++ prefixOf f v ++ digits (Render.radixOf f.digitClass).1 (Render.radixOf f.digitClass).2 v.natAbs

/-- the natural rendering of text: cut to the precision -/
def naturalText (f : FormatSpec) (text : List Nat) : List Nat :=
  if f.precision ≥ 0 then text.take f.precision.toNat else text

/-- **extended, never truncated** (integers): the rendering is the natural rendering with one run
    of pad characters inserted -/
theorem never_truncated_int (f : FormatSpec) (v : Int) :
    ∃ a b k, renderInt f v = a ++ List.replicate k (padChar f) ++ b ∧ a ++ b = naturalInt f v := by
  unfold renderInt naturalInt
  by_cases hn : f.numericPad = true
  · simp only [hn, if_true]
    exact ⟨_, _, _, rfl, rfl⟩
  · simp only [hn, if_false, Bool.false_eq_true]
    unfold padTo
    cases sideOf f .right with
    | left => exact ⟨_, [], _, by simp only [List.append_nil]; rfl, by simp⟩
    | right => exact ⟨[], _, _, by simp only [List.nil_append]; rfl, by simp⟩

/-- **extended, never truncated** (text and booleans) -/
theorem never_truncated_text (f : FormatSpec) (text : List Nat) :
    ∃ a b k, renderText f text = a ++ List.replicate k (padChar f) ++ b ∧ a ++ b = naturalText f text := by
  unfold renderText naturalText padTo
  cases sideOf f .left with
  | left => exact ⟨_, [], _, by simp only [List.append_nil]; rfl, by simp⟩
  | right => exact ⟨[], _, _, by simp only [List.nil_append]; rfl, by simp⟩

/-- **the length is the larger of the minimum width and the natural length** -/
theorem length_eq_max_int (f : FormatSpec) (v : Int) :
    ((renderInt f v).length : Int) = max f.minimumLength (naturalInt f v).length := by
  unfold renderInt naturalInt padTo
  by_cases hn : f.numericPad = true
  · simp only [hn, if_true, List.length_append, List.length_replicate]; omega
  · simp only [hn, if_false, Bool.false_eq_true]
    cases sideOf f .right <;> simp only [List.length_append, List.length_replicate] <;> omega

theorem length_eq_max_text (f : FormatSpec) (text : List Nat) :
    ((renderText f text).length : Int) = max f.minimumLength (naturalText f text).length := by
  unfold renderText naturalText padTo
  cases sideOf f .left <;> simp only [List.length_append, List.length_replicate] <;> omega

/-- **zero padding sits between sign/prefix and digits**, whatever alignment was given -/
theorem zero_pad_position (f : FormatSpec) (v : Int) (h : f.numericPad = true) :
    renderInt f v =
      signOf f v ++ prefixOf f v ++
        List.replicate (f.minimumLength - ((naturalInt f v).length : Int)).toNat (padChar f) ++
        digits (Render.radixOf f.digitClass).1 (Render.radixOf f.digitClass).2 v.natAbs := by
  unfold renderInt naturalInt
  simp only [h, if_true]

/-- the zero flag makes `0` the pad character and sets numeric padding; a later `_c` keeps only
    the character (parser level: the flags as the grammar reads them) -/
theorem zero_flag (f : FormatSpec) (rest : List Nat) :
    parseItems (48 :: rest) f = parseItems rest { f with pad := 48, numericPad := true } ∧
    (∀ c r, rest = 95 :: c :: r → parseItems (48 :: rest) f = parseItems r { f with pad := c, numericPad := false }) := by
  have h1 : parseItems (48 :: rest) f = parseItems rest { f with pad := 48, numericPad := true } := by
    rw [parseItems_cons]; simp [flag]
  refine ⟨h1, ?_⟩
  intro c r hr
  subst hr
  rw [h1, parseItems_cons]; simp

/-- **fields without `&N` consume arguments left to right regardless of `&N` fields**: a
    referenced field leaves the sequential position where it was, an unreferenced one takes the
    argument at that position and advances it by one -/
theorem sequential_ignores_refs (f : FormatSpec) (seq : Nat) (args : List Arg) :
    (f.argIndex ≥ 0 → (select f seq args).2 = seq) ∧
    (f.argIndex < 0 → select f seq args = (args[seq]?, seq + 1)) ∧
    (f.argIndex ≥ 1 → (select f seq args).1 = args[(f.argIndex - 1).toNat]?) ∧
    (f.argIndex = 0 → (select f seq args).1 = none) := by
  unfold select
  refine ⟨fun h => by simp [h], fun h => by simp [show ¬(f.argIndex ≥ 0) by omega], fun h => ?_, fun h => by simp [h]⟩
  simp [show f.argIndex ≥ 0 by omega, h]

/-- **`{{` and `}}` reduce to single braces, every other literal byte is copied verbatim** -/
theorem escape_braces (s : List Nat) :
    splitLiteral (123 :: 123 :: s) = (123 :: (splitLiteral s).1, (splitLiteral s).2) ∧
    splitLiteral (125 :: 125 :: s) = (125 :: (splitLiteral s).1, (splitLiteral s).2) ∧
    (∀ c, c ≠ 123 → c ≠ 125 → splitLiteral (c :: s) = (c :: (splitLiteral s).1, (splitLiteral s).2)) ∧
    (s.head? ≠ some 125 → splitLiteral (125 :: s) = (125 :: (splitLiteral s).1, (splitLiteral s).2)) :=
  ⟨splitLiteral_open2 s, splitLiteral_close2 s, fun c h1 h2 => splitLiteral_other c s h1 h2, splitLiteral_close1 s⟩

/-- text without braces is its own rendering, with any arguments -/
theorem literal_verbatim (s : List Nat) (h : ∀ b ∈ s, b ≠ 123 ∧ b ≠ 125) : splitLiteral s = (s, []) := by
  induction s with
  | nil => rw [splitLiteral]
  | cons c r ih =>
    have hc := h c (by simp)
    rw [splitLiteral_other c r hc.1 hc.2, ih (fun b hb => h b (by simp [hb]))]

/-- **character class**: UTF-8 of the code point, U+FFFD when the value is not in 0..10FFFF — for
    every integer width, in particular for 64-bit values whose low 32 bits look like a code point
    (the defect found by this check and repaired: `0x100000041` used to print "A") -/
theorem char_class_wide :
    (formatType (.uint 64 0x100000041) { digitClass := .chr }).map flatten = .ok [0xEF, 0xBF, 0xBD] ∧
    (formatType (.sint 64 (-4294967231)) { digitClass := .chr }).map flatten = .ok [0xEF, 0xBF, 0xBD] ∧
    (formatType (.uint 64 0x41) { digitClass := .chr }).map flatten = .ok [0x41] ∧
    -- the arithmetic of the pinned code: narrowing first turned the value into 'A'
    toI32 0x100000041 = 0x41 := by
  refine ⟨by decide, by decide, by decide, by decide⟩

/-! non-vacuity -/
example : NoNul [123, 62, 54, 125, 65] := by unfold NoNul; decide
example : render [123, 62, 54, 125, 65] [.sint 32 (-5)] = .ok [32, 32, 32, 32, 45, 53, 65] := by decide +kernel
example : render [123, 48, 56, 35, 120, 125] [.uint 32 255] = .ok [48, 120, 48, 48, 48, 48, 102, 102] := by decide +kernel
example : render [123, 38, 50, 125, 123, 125] [.str [97], .str [98]] = .ok [98, 97] := by decide +kernel
/-- wide text: "{>4}" of u"é" is two pad characters and the two UTF-8 bytes; a lone surrogate is `unicode_error` -/
example : render [123, 62, 52, 125] [.wide .utf16 .checkValidity [0xE9]] = .ok [32, 32, 0xC3, 0xA9] := by decide +kernel
example : render [123, 125] [.wide .utf32 .checkValidity [0x110000]] = .throw .unicodeError := by decide +kernel
example : (Arg.wide .utf32 .checkValidity [0x1F600, 0x110000]).InRange := by
  refine ⟨Or.inr ⟨rfl, ?_⟩, by decide⟩
  intro x hx; simp at hx; omega

end StVerif.Props.C11
