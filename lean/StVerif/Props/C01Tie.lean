/- Tie of property C01 to the source: the theorems `translated function = model` (tools/gen_kernels.py regenerates
   StVerif/Generated/Kernels.lean from the C++ on every run).  Kept apart from Props/C01.lean so that a bridge that stops
   checking leaves the property's other theorems built and audited (DESIGN.md section 14). -/
import StVerif.Props.C01
import StVerif.Lemmas.KernelBridge
import StVerif.Lemmas.KernelLoops
import StVerif.Lemmas.KernelLoopsUtf32
import StVerif.Lemmas.KernelLoopsUtf8
import StVerif.Lemmas.KernelLoopsMisc
import StVerif.Lemmas.KernelLoopsValidate

namespace StVerif.Props.C01
open StVerif StVerif.Utf StVerif.Generated StVerif.Lemmas.Utf
open StVerif.Spec.Unicode

/-! ### tie to the source (tools/gen_kernels.py): the encoders and decoders as translated from the C++ on every run -/

/-- the translated `write_utf8 / write_utf16 / utf8_measure / utf16_measure` and the translated decoding loops are the
    model's functions, for every code point and every source: a changed mask, shift or range test in
    include/st_utf_conv_priv.h changes the left-hand sides and this theorem stops checking -/
theorem kernels_are_model (ch : Nat) (mem : List Nat) :
    Kernels.write_utf8 ch = .ok (match writeUtf8 ch with | some us => ((0 : Int), us) | none => ((4 : Int), [])) ∧
    Kernels.write_utf16 ch = .ok (match writeUtf16 ch with | some us => ((0 : Int), us) | none => ((4 : Int), [])) ∧
    Kernels.utf8_measure ch = .ok (utf8Measure ch) ∧ Kernels.utf16_measure ch = .ok (utf16Measure ch) ∧
    KernelBridge.stepLoop Kernels.extract_utf8 mem (mem.length + 1) 0 = .ok (decodeUtf8 mem) ∧
    KernelBridge.stepLoop Kernels.extract_utf16 mem (mem.length + 1) 0 = .ok (decodeUtf16 mem) :=
  ⟨KernelBridge.write_utf8_eq ch, KernelBridge.write_utf16_eq ch, KernelBridge.utf8_measure_eq ch, KernelBridge.utf16_measure_eq ch,
   KernelBridge.utf8_loop_eq mem, KernelBridge.utf16_loop_eq mem⟩

/-- composed with the model theorems: the translated encoder applied to a scalar is its standard UTF-8 / UTF-16 form -/
example : Kernels.write_utf8 0x20AC = .ok ((0 : Int), [0xE2, 0x82, 0xAC]) ∧ Kernels.write_utf16 0x1F600 = .ok ((0 : Int), [0xD83D, 0xDE00]) := by
  decide

open StVerif.KernelBridge in
/-- the filling passes of include/st_utf_conv_priv.h as translated from the C++ on every run (tools/gen_kernels.py) are
    the model's `fill` over the model's decoder, in every mode (UTF-16 sources: units below 2^16), and the translated
    `validate_utf8` is the model's validator: the theorems of this file are about what the code says now -/
theorem conversion_loops_are_model (mem : List Nat) (m : Mode) (subst : Bool) (fuel : Nat) (hf : mem.length < fuel) :
    Kernels.utf16_convert_from_utf8 mem fuel 0 mem.length (modeCode m) = fillResult (fill (stepCh .utf8 .utf16 m subst) (decode .utf8 mem)) ∧
    Kernels.utf32_convert_from_utf8 mem fuel 0 mem.length (modeCode m) = fillResult (fill (stepCh .utf8 .utf32 m subst) (decode .utf8 mem)) ∧
    Kernels.utf8_convert_from_utf32 mem fuel 0 mem.length (modeCode m) = fillResult (fill (stepCh .utf32 .utf8 m subst) (decode .utf32 mem)) ∧
    Kernels.utf16_convert_from_utf32 mem fuel 0 mem.length (modeCode m) = fillResult (fill (stepCh .utf32 .utf16 m subst) (decode .utf32 mem)) ∧
    ((∀ u ∈ mem, u < 65536) →
      Kernels.utf8_convert_from_utf16 mem fuel 0 mem.length (modeCode m) = fillResult (fill (stepCh .utf16 .utf8 m subst) (decode .utf16 mem)) ∧
      Kernels.utf32_convert_from_utf16 mem fuel 0 mem.length (modeCode m) = fillResult (fill (stepCh .utf16 .utf32 m subst) (decode .utf16 mem))) ∧
    Kernels.validate_utf8 mem fuel 0 mem.length = .ok ((validateUtf8 mem : Nat) : Int) :=
  ⟨utf16_convert_from_utf8_eq mem m subst fuel hf, utf32_convert_from_utf8_eq mem m subst fuel hf,
   utf8_convert_from_utf32_eq mem m subst fuel hf, utf16_convert_from_utf32_eq mem m subst fuel hf,
   fun hu => ⟨utf8_convert_from_utf16_eq mem m subst hu fuel hf, utf32_convert_from_utf16_eq mem m subst hu fuel hf⟩,
   validate_utf8_eq mem fuel hf⟩

end StVerif.Props.C01
