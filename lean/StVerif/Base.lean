/-
  StVerif.Base — shared vocabulary of every model: validation modes, exception
  kinds, outcomes of a modelled call, machine-integer helpers.
  Core Lean only (no Mathlib) so that the driver links as a `lean_exe`.
-/
namespace StVerif

/-- `ST::utf_validation_t` -/
inductive Mode where
  | assumeValid | substituteInvalid | checkValidity
  deriving DecidableEq, Repr, Inhabited

/-- Exceptions the library can raise, as a small enum (message text is never compared). -/
inductive Exc where
  | unicodeError | codecError | badFormat | outOfRange | invalidArgument | badAlloc
  deriving DecidableEq, Repr, Inhabited

/-- Result of a modelled call.  `assertFail`, `ub`, `oob` and `stuck` are the
    outcomes the properties forbid; they are values of the model, never defaults. -/
inductive Outcome (α : Type) where
  | ok (a : α)
  | throw (e : Exc)
  | assertFail (which : String)
  | ub (what : String)
  | oob
  | stuck
  deriving Repr, Inhabited, DecidableEq

namespace Outcome
def isOk : Outcome α → Bool | ok _ => true | _ => false
def isThrow : Outcome α → Bool | throw _ => true | _ => false
def map (f : α → β) : Outcome α → Outcome β
  | ok a => ok (f a) | throw e => throw e | assertFail w => assertFail w
  | ub w => ub w | oob => oob | stuck => stuck
def bind (x : Outcome α) (f : α → Outcome β) : Outcome β :=
  match x with
  | ok a => f a | throw e => throw e | assertFail w => assertFail w
  | ub w => ub w | oob => oob | stuck => stuck
instance : Monad Outcome where
  pure := ok
  bind := bind
end Outcome

/-! ### machine integers (used only where a property is about width) -/

def wrap64 (x : Int) : Nat := (x % (2^64 : Int)).toNat
def toI64 (x : Nat) : Int := if x % 2^64 < 2^63 then (x % 2^64 : Nat) else (x % 2^64 : Nat) - (2^64 : Int)
def toI32 (x : Nat) : Int := if x % 2^32 < 2^31 then (x % 2^32 : Nat) else (x % 2^32 : Nat) - (2^32 : Int)
def wrapW (w : Nat) (x : Int) : Nat := (x % (2^w : Int)).toNat
def toSigned (w : Nat) (x : Nat) : Int :=
  if x % 2^w < 2^(w-1) then (x % 2^w : Nat) else (x % 2^w : Nat) - (2^w : Int)

def SIZE_MAX : Nat := 2^64 - 1

/-- every element is a unit of width `w` bits -/
def UnitsLt (bound : Nat) (xs : List Nat) : Prop := ∀ x ∈ xs, x < bound

instance (bound : Nat) (xs : List Nat) : Decidable (UnitsLt bound xs) := by
  unfold UnitsLt; exact inferInstance

abbrev Bytes (xs : List Nat) : Prop := UnitsLt 256 xs

end StVerif
