/-
  Model of the library's own glue around the C library's floating-point conversions:
    include/st_formatter.h        format_type(double) / format_type(float)
    include/st_format_numeric.h   format_double, float_formatter<float_T>
    include/st_string_priv.h      mini_format_float
    include/st_string.h           from_float / from_double, to_float / to_double
    include/st_stringstream.h     operator<<(float / double)
  The numeric work is a parameter: `render fmt bits` is the complete text `snprintf(buf, n, fmt, value)`
  would produce for the value with bit pattern `bits` (its return value is the length of that text),
  `parse` is what `strtod`/`strtof` return for a C string (bit pattern, characters consumed).
-/
import StVerif.Model.Num

namespace StVerif.Float
open StVerif StVerif.Num

/-- `ST::float_class_t` -/
inductive FloatClass where
  | dflt | fixed | exp | expUpper
  deriving DecidableEq, Repr, Inhabited

/-- `ST::alignment_t` -/
inductive Align where
  | dflt | left | right
  deriving DecidableEq, Repr, Inhabited

/-- the fields of `ST::format_spec` that `format_type(double)` reads -/
structure FSpec where
  minimumLength : Int := 0      -- int
  precision : Int := -1         -- int
  alignment : Align := .dflt
  floatClass : FloatClass := .dflt
  pad : Nat := 0                -- char; 0 = not given
  alwaysSigned : Bool := false
  deriving Repr, DecidableEq, Inhabited

abbrev Render := List Nat → Nat → List Nat

def FORMAT_BUFFER : Nat := 32     -- char format_buffer[32]
def OUT_BUFFER : Nat := 64        -- char out_buffer[64] / float_formatter::m_buffer[64]

/-- the conversion letter chosen from `format.float_class` -/
def letterOf : FloatClass → Nat
  | .exp => 101 | .expUpper => 69 | .fixed => 102 | .dflt => 103

/-- Assembly of the printf format in `char format_buffer[32]`, statement by statement; `buf` holds
    `format_buffer[0 .. end)`.  A store at an index ≥ 32 is `oob`. -/
def assembleFormat (sp : FSpec) : Outcome (List Nat) := do
  -- format_buffer[end++] = '%';
  let buf : List Nat := [37]
  -- if (format.always_signed) format_buffer[end++] = '+';
  let buf := if sp.alwaysSigned then buf ++ [43] else buf
  let buf ← (if sp.precision ≥ 0 then do
      -- format_buffer[end++] = '.';
      let buf := buf ++ [46]
      -- ST::uint_formatter<unsigned int> prec; prec.format(format.precision, 10);
      let f ← uintFormat 32 (wrapW 32 sp.precision) 10 false
      let digits := f.copy 32
      -- std::char_traits<char>::move(format_buffer + end, prec.text(), prec.size());   (before the assertion)
      if buf.length + digits.length > FORMAT_BUFFER then .oob
      -- ST_ASSERT(prec.size() > 0 && prec.size() + end + 2 < sizeof(format_buffer), ...)
      else if ¬ (f.size 32 > 0 ∧ f.size 32 + buf.length + 2 < FORMAT_BUFFER) then .assertFail "Not enough space for format string"
      -- end += prec.size();
      else pure (buf ++ digits)
    else pure buf)
  -- format_buffer[end++] = letter;
  let buf := buf ++ [letterOf sp.floatClass]
  -- format_buffer[end] = 0;
  if buf.length ≥ FORMAT_BUFFER then .oob else pure buf

/-- what `snprintf(buf, n, fmt, value)` leaves in `buf` (before the terminator): at most `n - 1` characters
    of the complete text; its return value is the length of the complete text -/
def snprintfInto (render : Render) (n : Nat) (fmt : List Nat) (bits : Nat) : List Nat × Nat :=
  let text := render fmt bits
  (text.take (n - 1), text.length)

/-- the rendering step shared by `format_type(double)` and `float_formatter::format` (as repaired):
    `snprintf` into the 64-byte buffer; if the reported size does not fit, allocate `size` (+1) characters
    on the heap and `snprintf` again; the result is the `format_size` characters the caller then appends.
    (The pinned tree asserted `format_size < 64` instead: `Pinned.renderInto64`.) -/
def renderText (render : Render) (fmt : List Nat) (bits : Nat) : Outcome (List Nat) :=
  let (stackText, formatSize) := snprintfInto render OUT_BUFFER fmt bits
  if ¬ (formatSize > 0) then .assertFail "Your libc doesn't support reporting format size"
  else if formatSize ≥ OUT_BUFFER then
    -- heap_buffer.allocate(format_size); format_size = snprintf(heap_buffer.data(), heap_buffer.size() + 1, …)
    let (heapText, formatSize') := snprintfInto render (formatSize + 1) fmt bits
    -- the caller appends `format_size` characters starting at the buffer: reading past what was written is `oob`
    if formatSize' > heapText.length then .oob else .ok (heapText.take formatSize')
  else
    if formatSize > stackText.length then .oob else .ok (stackText.take formatSize)

namespace Pinned
/-- the pinned tree: `snprintf(out_buffer, 64, …)` then `ST_ASSERT(format_size < sizeof(out_buffer), "Format buffer too small")` -/
def renderInto64 (render : Render) (fmt : List Nat) (bits : Nat) : Outcome (List Nat) :=
  let text := render fmt bits
  let formatSize := text.length
  if ¬ (formatSize > 0) then .assertFail "Your libc doesn't support reporting format size"
  else if ¬ (formatSize < OUT_BUFFER) then .assertFail "Format buffer too small"
  else .ok text
end Pinned

/-- `ST::format_type(const format_spec&, format_writer&, double)`: the bytes appended to the output -/
def formatDouble (render : Render) (sp : FSpec) (bits : Nat) : Outcome (List Nat) := do
  let pad := if sp.pad ≠ 0 then sp.pad else 32
  let fmt ← assembleFormat sp
  let text ← renderText render fmt bits
  let formatSize : Int := text.length
  if sp.minimumLength > formatSize then
    if sp.alignment = .left then
      pure (text ++ List.replicate (sp.minimumLength - formatSize).toNat pad)
    else
      pure (List.replicate (sp.minimumLength - formatSize).toNat pad ++ text)
  else
    pure text

/-- `format_type(…, float value)` = `format_type(…, double(value))`; `promote` is the exact
    float → double conversion on bit patterns -/
def formatFloat (render : Render) (promote : Nat → Nat) (sp : FSpec) (bits32 : Nat) : Outcome (List Nat) :=
  formatDouble render sp (promote bits32)

/-- `float_formatter<float_T>::format(value, format)`: the letter must be one of "efgEFG" -/
def floatFormatter (render : Render) (bits : Nat) (format : Nat) : Outcome (List Nat) :=
  if ¬ ([101, 102, 103, 69, 70, 71].contains format) then .throw .badFormat
  else renderText render [37, format] bits      -- format_double: format_spec[] = { '%', format, 0 }

/-- `ST::string::from_double(value, format)` (`mini_format_float` copies `size()` characters) -/
def fromDouble (render : Render) (bits : Nat) (format : Nat) : Outcome (List Nat) := floatFormatter render bits format

/-- `ST::string::from_float(float value, format)`: the `float` is promoted when passed to `format_double` -/
def fromFloat (render : Render) (promote : Nat → Nat) (bits32 : Nat) (format : Nat) : Outcome (List Nat) :=
  floatFormatter render (promote bits32) format

/-- `string_stream::operator<<(double)` / `(float)` : always `'g'` -/
def streamDouble (render : Render) (bits : Nat) : Outcome (List Nat) := floatFormatter render bits 103
def streamFloat (render : Render) (promote : Nat → Nat) (bits32 : Nat) : Outcome (List Nat) := floatFormatter render (promote bits32) 103

/-- `to_double(conversion_result&)` / `to_float(conversion_result&)`; `parse` stands for strtod / strtof
    and returns (bit pattern, characters consumed) for the C string it is given -/
def toFloatingR (parse : List Nat → Nat × Nat) (s : List Nat) : Nat × ConvFlags :=
  if s.isEmpty then (0, { ok := false, fullMatch := true })
  else
    let r := parse (cstr s)
    (r.1, flagsOf s.length r.2)

/-- the overloads without a result -/
def toFloating (parse : List Nat → Nat × Nat) (s : List Nat) : Nat := (parse (cstr s)).1

/-! #### the pinned tree before the repair of defect #13 (kept for the witness theorems only) -/
namespace Pinned

def formatDouble (render : Render) (sp : FSpec) (bits : Nat) : Outcome (List Nat) := do
  let pad := if sp.pad ≠ 0 then sp.pad else 32
  let fmt ← assembleFormat sp
  let text ← renderInto64 render fmt bits
  let formatSize : Int := text.length
  if sp.minimumLength > formatSize then
    if sp.alignment = .left then
      pure (text ++ List.replicate (sp.minimumLength - formatSize).toNat pad)
    else
      pure (List.replicate (sp.minimumLength - formatSize).toNat pad ++ text)
  else
    pure text

def floatFormatter (render : Render) (bits : Nat) (format : Nat) : Outcome (List Nat) :=
  if ¬ ([101, 102, 103, 69, 70, 71].contains format) then .throw .badFormat
  else renderInto64 render [37, format] bits

end Pinned

end StVerif.Float
