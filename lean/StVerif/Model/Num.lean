/-
  Model of the integer <-> text code:
    include/st_format_numeric.h   uint_formatter<uint_T>::format / text / size
    include/st_string_priv.h      mini_format_int_s / mini_format_int_u
    include/st_string.h           from_int / from_uint overload set, to_long .. to_ushort, conversion_result
    include/st_format_priv.h      format_numeric_s / format_numeric_u (digit generation; padding is C11)
    include/st_stringstream.h     operator<<(int / unsigned / long / unsigned long / long long / unsigned long long)
  plus a transcription of glibc 2.36 stdlib/strtol_l.c (`____strtol_l_internal`) for bases 0, 2..36;
  that part is validated against this platform's libc by the correspondence run, not proved.

  Hand transcription: same loops, same statement order, machine arithmetic (`wrapW`, `toSigned`)
  exactly where the C++ converts between widths.  Platform: LP64 (long = long long = 64 bit).
-/
import StVerif.Base

namespace StVerif.Num
open StVerif

/-! ### integer types of the overload sets -/

/-- the built-in integer types that have overloads (`s8`/`u8` = signed/unsigned char: format only) -/
inductive IntTy where
  | s8 | s16 | s32 | s64 | sll | u8 | u16 | u32 | u64 | ull
  deriving DecidableEq, Repr, Inhabited

namespace IntTy
/-- `std::numeric_limits<make_unsigned<T>>::digits` -/
def bits : IntTy → Nat
  | s8 | u8 => 8 | s16 | u16 => 16 | s32 | u32 => 32 | s64 | u64 | sll | ull => 64
def signed : IntTy → Bool
  | s8 | s16 | s32 | s64 | sll => true
  | _ => false
/-- the mathematical value `v` is a value of the type -/
def holds (t : IntTy) (v : Int) : Prop :=
  if t.signed then -(2 ^ (t.bits - 1) : Int) ≤ v ∧ v < (2 ^ (t.bits - 1) : Int) else 0 ≤ v ∧ v < (2 ^ t.bits : Int)
instance (t : IntTy) (v : Int) : Decidable (t.holds v) := by unfold holds; exact inferInstance
end IntTy

/-! ### `ST::uint_formatter<uint_T>` -/

/-- the character stored for `digit` (`unsigned int` arithmetic narrowed into a `char`) -/
def digitCharCode (upper : Bool) (digit : Nat) : Nat :=
  if digit < 10 then (48 + digit) % 256
  else if upper then (65 + digit - 10) % 256
  else (97 + digit - 10) % 256

/-- `while (value) { digit = value % radix; value /= radix; --m_start; *m_start = … }`.
    `start` is the index of `m_start` inside `m_buffer[digits + 1]`, `acc` the characters stored so
    far (`m_buffer[start .. digits)`).  Decrementing `m_start` below `m_buffer` is the outcome `oob`. -/
def uintLoop (radix : Nat) (upper : Bool) : (start value : Nat) → (acc : List Nat) → Outcome (Nat × List Nat)
  | start, 0, acc => .ok (start, acc)
  | 0, _ + 1, _ => .oob
  | start + 1, v + 1, acc =>
      uintLoop radix upper start ((v + 1) / radix) (digitCharCode upper ((v + 1) % radix) :: acc)

/-- state of a formatter after `format()`: index of `m_start` and the characters from there to the NUL -/
structure UFmt where
  start : Nat
  chars : List Nat
  deriving Repr, DecidableEq

/-- `uint_formatter<uint_T>::format(value, radix, upper_case)` with `digits = w`; `value < 2^w` -/
def uintFormat (w value radix : Nat) (upper : Bool) : Outcome UFmt :=
  if radix = 0 then .ub "division by zero"
  else if value = 0 then
    (match w with
     | 0 => .oob
     | w' + 1 => .ok { start := w', chars := [48] })       -- *--m_start = '0'
  else (uintLoop radix upper w value []).map fun (s, cs) => { start := s, chars := cs }

/-- `size()` : `m_buffer + digits - m_start` -/
def UFmt.size (w : Nat) (f : UFmt) : Nat := w - f.start

/-- what a caller copies: `size()` characters starting at `text()` -/
def UFmt.copy (w : Nat) (f : UFmt) : List Nat := f.chars.take (f.size w)

/-! ### `mini_format_int_s/u`, `from_int` / `from_uint` -/

/-- `_ST_PRIVATE::mini_format_int_s<int_T>(radix, upper_case, value)`; `w` = bits of `int_T`.
    `abs_value = value < 0 ? 0 - static_cast<uint_T>(value) : static_cast<uint_T>(value)` -/
def miniFormatIntS (w radix : Nat) (upper : Bool) (value : Int) : Outcome (List Nat) := do
  let absValue : Nat := if value < 0 then wrapW w (0 - (wrapW w value : Int)) else wrapW w value
  let f ← uintFormat w absValue radix upper
  if value < 0 then
    pure (45 :: f.copy w)     -- allocate(size + 1); copy at data() + 1; result[0] = '-'
  else
    pure (f.copy w)

/-- `_ST_PRIVATE::mini_format_int_u<uint_T>` -/
def miniFormatIntU (w radix : Nat) (upper : Bool) (value : Nat) : Outcome (List Nat) := do
  let f ← uintFormat w (wrapW w value) radix upper
  pure (f.copy w)

/-- `ST::string::from_int(T, base, upper_case)` / `from_uint(T, base, upper_case)` for the overload
    taking `T = t` (`from_validated` adds nothing) -/
def fromInt (t : IntTy) (base : Nat) (upper : Bool) (v : Int) : Outcome (List Nat) :=
  if t.signed then miniFormatIntS t.bits base upper v else miniFormatIntU t.bits base upper v.toNat

/-! ### `format_numeric_s/u` (digits and sign only) and `string_stream <<` -/

/-- `ST::digit_class_t` -/
inductive DigitClass where
  | dflt | dec | hex | hexUpper | oct | bin | chr
  deriving DecidableEq, Repr, Inhabited

/-- the `switch (format.digit_class)` at the top of `format_numeric_s/u` -/
def radixOf : DigitClass → Outcome (Nat × Bool)
  | .hexUpper => .ok (16, true)
  | .hex => .ok (16, false)
  | .oct => .ok (8, false)
  | .bin => .ok (2, false)
  | .dec | .dflt => .ok (10, false)
  | .chr => .assertFail "Invalid digit class for _format_numeric_s"

/-- `std::abs(value)` on the promoted type (`int` for anything narrower): undefined at the most
    negative value of that type -/
def stdAbs (w : Nat) (v : Int) : Outcome Int :=
  let pw := max w 32
  if v = -(2 ^ (pw - 1) : Int) then .ub "negation" else .ok (v.natAbs : Int)

/-- text produced by `format_numeric_string` for a spec without width, sign flag or class prefix:
    `-` for negatives (from `format_numeric_prefix`), then the digits -/
def signThen (negative : Bool) (digits : List Nat) : List Nat := (if negative then [45] else []) ++ digits

/-- `_ST_PRIVATE::format_numeric_s<int_T>` (as repaired: the magnitude is computed by unsigned negation,
    `abs_value = value < 0 ? 0 - static_cast<uint_T>(value) : static_cast<uint_T>(value)`, as in
    `mini_format_int_s`; the pinned tree's `std::abs` version is `Pinned.formatNumericS` below) -/
def formatNumericS (w : Nat) (dc : DigitClass) (value : Int) : Outcome (List Nat) := do
  let (radix, upper) ← radixOf dc
  let absValue : Nat := if value < 0 then wrapW w (0 - (wrapW w value : Int)) else wrapW w value
  let f ← uintFormat w absValue radix upper
  pure (signThen (value < 0) (f.copy w))

/-- `_ST_PRIVATE::format_numeric_u<uint_T>` -/
def formatNumericU (w : Nat) (dc : DigitClass) (value : Nat) : Outcome (List Nat) := do
  let (radix, upper) ← radixOf dc
  let f ← uintFormat w (wrapW w value) radix upper
  pure (f.copy w)

/-- `ST::format("{<class>}", T value)` for an integer type -/
def formatInt (t : IntTy) (dc : DigitClass) (v : Int) : Outcome (List Nat) :=
  if t.signed then formatNumericS t.bits dc v else formatNumericU t.bits dc v.toNat

/-- `string_stream::operator<<(int / long / long long)` (as repaired):
    `formatter.format(num < 0 ? 0 - static_cast<uint_T>(num) : static_cast<uint_T>(num), 10, false);
     if (num < 0) append_char('-'); append(text, size)` -/
def streamSigned (w : Nat) (num : Int) : Outcome (List Nat) := do
  let absValue : Nat := if num < 0 then wrapW w (0 - (wrapW w num : Int)) else wrapW w num
  let f ← uintFormat w absValue 10 false
  pure (signThen (num < 0) (f.copy w))

/-- `string_stream::operator<<(unsigned int / unsigned long / unsigned long long)` -/
def streamUnsigned (w : Nat) (num : Nat) : Outcome (List Nat) := do
  let f ← uintFormat w (wrapW w num) 10 false
  pure (f.copy w)

/-- the stream overload chosen for a value of type `t` (narrower types promote to `int`) -/
def streamInt (t : IntTy) (v : Int) : Outcome (List Nat) :=
  if t.signed then streamSigned (max t.bits 32) v
  else if t.bits < 32 then streamSigned 32 v      -- unsigned short / unsigned char promote to int
  else streamUnsigned t.bits v.toNat

/-! #### the pinned tree before the repair of defect #12: `std::abs`

Kept so that the witness theorems (`Props/C12`: `pinned_format_ub_witness`, `pinned_stream_ub_witness`)
say what was wrong; nothing else refers to these. -/
namespace Pinned

/-- `formatter.format(static_cast<uint_T>(std::abs(value)), radix, upper_case)` (st_format_priv.h:153 of bfef877) -/
def formatNumericS (w : Nat) (dc : DigitClass) (value : Int) : Outcome (List Nat) := do
  let (radix, upper) ← radixOf dc
  let a ← stdAbs w value
  let f ← uintFormat w (wrapW w a) radix upper
  pure (signThen (value < 0) (f.copy w))

/-- `formatter.format(std::abs(num), 10, false)` in `string_stream::operator<<(int/long/long long)` -/
def streamSigned (w : Nat) (num : Int) : Outcome (List Nat) := do
  let a ← stdAbs w num
  let f ← uintFormat w (wrapW w a) 10 false
  pure (signThen (num < 0) (f.copy w))

end Pinned

/-! ### glibc `strtol` / `strtoul` (LP64: also `strtoll` / `strtoull`) -/

def isSpace (c : Nat) : Bool := c == 32 || (9 ≤ c && c ≤ 13)
def isAlpha (c : Nat) : Bool := (65 ≤ c && c ≤ 90) || (97 ≤ c && c ≤ 122)
def toUpper (c : Nat) : Nat := if 97 ≤ c ∧ c ≤ 122 then c - 32 else c

def ULONG_MAX : Nat := 2 ^ 64 - 1

/-- `if (c >= '0' && c <= '9') c -= '0'; else if (ISALPHA(c)) c = TOUPPER(c) - 'A' + 10; else break;` -/
def digitOf (c : Nat) : Option Nat :=
  if 48 ≤ c ∧ c ≤ 57 then some (c - 48)
  else if isAlpha c then some (toUpper c - 65 + 10)
  else none

/-- the accumulation loop; returns `(i, overflow, number of characters consumed)` -/
def strtoLoop (base cutoff cutlim : Nat) : List Nat → Nat → Bool → Nat → Nat × Bool × Nat
  | [], i, ovf, n => (i, ovf, n)
  | c :: rest, i, ovf, n =>
    match digitOf c with
    | none => (i, ovf, n)
    | some d =>
      if d ≥ base then (i, ovf, n)
      else if i > cutoff ∨ (i = cutoff ∧ d > cutlim) then strtoLoop base cutoff cutlim rest i true (n + 1)
      else strtoLoop base cutoff cutlim rest (i * base + d) ovf (n + 1)

structure Scan where
  negative : Bool
  i : Nat            -- accumulated magnitude (`unsigned long`)
  overflow : Bool
  endp : Nat         -- offset stored through `endptr`
  conv : Bool        -- false: the `noconv` exit
  deriving Repr, DecidableEq

/-- the C string a `const char*` reader sees: the units before the first NUL -/
def cstr (s : List Nat) : List Nat := s.takeWhile (· != 0)

/-- `if (*s == '-') { negative = 1; ++s; } else if (*s == '+') ++s;` : (negative, characters skipped) -/
def signAt (c0 : Nat) : Bool × Nat :=
  if c0 = 45 then (true, 1) else if c0 = 43 then (false, 1) else (false, 0)

/-- prefix recognition / base detection on the text after the sign: (effective base, characters skipped) -/
def basePrefix (base : Nat) (s2 : List Nat) : Nat × Nat :=
  if s2.head? = some 48 then
    if (base = 0 ∨ base = 16) ∧ toUpper (s2.getD 1 0) = 88 then (16, 2)
    else if base = 0 then (8, 0) else (base, 0)
  else if base = 0 then (10, 0) else (base, 0)

/-- common part of `____strtol_l_internal` on the C string `s`, `base ∈ {0} ∪ [2, 36]` -/
def strtoScan (s : List Nat) (base : Nat) : Scan :=
  -- while (ISSPACE(*s)) ++s;
  let p0 := (s.takeWhile isSpace).length
  match s.drop p0 with
  | [] => { negative := false, i := 0, overflow := false, endp := 0, conv := false }   -- *s == '\0' → noconv (save = nptr)
  | c0 :: _ =>
    let sg := signAt c0
    let p1 := p0 + sg.2
    let bp := basePrefix base (s.drop p1)
    let save := p1 + bp.2
    let r := strtoLoop bp.1 (ULONG_MAX / bp.1) (ULONG_MAX % bp.1) (s.drop save) 0 false 0
    if r.2.2 = 0 then
      -- noconv: "0x" followed by no hexadecimal digit leaves endptr at the 'x'
      let endp := if save ≥ 2 ∧ toUpper (s.getD (save - 1) 0) = 88 ∧ s.getD (save - 2) 0 = 48 then save - 1 else 0
      { negative := false, i := 0, overflow := false, endp, conv := false }
    else { negative := sg.1, i := r.1, overflow := r.2.1, endp := save + r.2.2, conv := true }

structure StrtoRes (α : Type) where
  value : α
  endp : Nat
  erange : Bool
  deriving Repr, DecidableEq

def LONG_MAX : Int := 2 ^ 63 - 1
def LONG_MIN : Int := -(2 ^ 63)

/-- `strtol(s, &endp, base)` (and `strtoll`) -/
def strtol (s : List Nat) (base : Nat) : StrtoRes Int :=
  let sc := strtoScan (cstr s) base
  if !sc.conv then { value := 0, endp := sc.endp, erange := false }
  else
    let overflow := sc.overflow || decide (sc.i > (if sc.negative then 2 ^ 63 else 2 ^ 63 - 1))
    if overflow then { value := if sc.negative then LONG_MIN else LONG_MAX, endp := sc.endp, erange := true }
    else { value := if sc.negative then toSigned 64 (wrapW 64 (-(sc.i : Int))) else toSigned 64 sc.i,
           endp := sc.endp, erange := false }

/-- `strtoul(s, &endp, base)` (and `strtoull`) -/
def strtoul (s : List Nat) (base : Nat) : StrtoRes Nat :=
  let sc := strtoScan (cstr s) base
  if !sc.conv then { value := 0, endp := sc.endp, erange := false }
  else if sc.overflow then { value := ULONG_MAX, endp := sc.endp, erange := true }
  else { value := if sc.negative then wrapW 64 (-(sc.i : Int)) else sc.i, endp := sc.endp, erange := false }

/-! ### `to_long … to_ushort` and `ST::conversion_result` -/

/-- `conversion_result::ok()` / `full_match()` -/
structure ConvFlags where
  ok : Bool
  fullMatch : Bool
  deriving Repr, DecidableEq

/-- flag computation shared by every `to_*(conversion_result&, base)`: `endp` is what the libc
    function stored, `size` the string's size -/
def flagsOf (size endp : Nat) : ConvFlags := { ok := endp ≠ 0, fullMatch := endp = size }

/-- `long to_long(conversion_result&, int base)` (also `to_long_long`, `to_int64`) -/
def toLongR (s : List Nat) (base : Nat) : Int × ConvFlags :=
  if s.isEmpty then (0, { ok := false, fullMatch := true })
  else
    let r := strtol s base
    (r.value, flagsOf s.length r.endp)

/-- `long to_long(int base)` -/
def toLong (s : List Nat) (base : Nat) : Int := (strtol s base).value

/-- `unsigned long to_ulong(conversion_result&, int base)` (also `to_ulong_long`, `to_uint64`) -/
def toUlongR (s : List Nat) (base : Nat) : Nat × ConvFlags :=
  if s.isEmpty then (0, { ok := false, fullMatch := true })
  else
    let r := strtoul s base
    (r.value, flagsOf s.length r.endp)

def toUlong (s : List Nat) (base : Nat) : Nat := (strtoul s base).value

/-- the `to_*` member returning type `t`: `static_cast<T>(to_long(...))` / `static_cast<T>(to_ulong(...))` -/
def toIntTyR (t : IntTy) (s : List Nat) (base : Nat) : Int × ConvFlags :=
  if t.signed then
    let (v, f) := toLongR s base
    (toSigned t.bits (wrapW 64 v), f)
  else
    let (v, f) := toUlongR s base
    ((v % 2 ^ t.bits : Nat), f)

/-- the overload without a `conversion_result` -/
def toIntTy (t : IntTy) (s : List Nat) (base : Nat) : Int :=
  if t.signed then toSigned t.bits (wrapW 64 (toLong s base)) else ((toUlong s base % 2 ^ t.bits : Nat) : Int)

end StVerif.Num
