/-
  Comparison core (C06; `starts_with` of C07 goes through `compare_n`).

  Transcribes
    include/st_charbuffer.h:199-243  `buffer<char_T>::compare` (static 4- and 5-argument forms)
    include/st_string_priv.h:47-95   `compare_cs`, `compare_ci` (3-, 4- and 5-argument forms)
  Units are `Nat` below 2^width of the element type; sizes are `Nat` (`size_t` values < 2^64).

  `char_traits<T>::compare` is libstdc++/libc (trusted base, DESIGN 2.3): `memcmp` for `char`
  (unsigned bytes), an element loop with `<` for `char16_t`/`char32_t` (unsigned), `wmemcmp` for
  `wchar_t` (signed 32-bit here).  Only the *sign* of its result is specified, so the model returns
  -1/0/1 and the correspondence compares signs.
-/
import StVerif.Base
import StVerif.Model.Search

namespace StVerif.Search

/-- `std::char_traits<T>::length(p)`: units before the first zero unit -/
def strlen : List Nat → Nat
  | [] => 0
  | c :: rest => if c = 0 then 0 else strlen rest + 1

end StVerif.Search

namespace StVerif.Compare
open StVerif.Search (CaseMode lower upper strlen)

/-- element type of an `ST::buffer<char_T>` -/
inductive Elem where
  | char | char16 | char32 | wchar
  deriving DecidableEq, Repr, Inhabited

def Elem.bits : Elem → Nat
  | .char => 8 | .char16 => 16 | .char32 => 32 | .wchar => 32

/-- the value `char_traits<T>::lt` orders by on this platform -/
def Elem.key : Elem → Nat → Int
  | .wchar, x => toSigned 32 x
  | _, x => (x : Int)

/-- `traits_t::compare(left, right, n)` on the `n` units both pointers can read (the callers pass
    `take n` of each side): sign of the first difference in the element order. -/
def traitsCompare (e : Elem) : List Nat → List Nat → Int
  | a :: as, b :: bs =>
    if e.key a < e.key b then -1 else if e.key b < e.key a then 1 else traitsCompare e as bs
  | _, _ => 0

/-- `char` as the signed value the C++ computes with (`char` is signed on this platform) -/
def schar (b : Nat) : Int := toSigned 8 b

/-- `compare_ci(left, right, fsize)`: first difference of the folded signed chars, as `cl - cr` -/
def compareCi3 : List Nat → List Nat → Int
  | a :: as, b :: bs =>
    let cl := schar (lower a)
    let cr := schar (lower b)
    if cl ≠ cr then cl - cr else compareCi3 as bs
  | _, _ => 0

/-- what `compare` returns when the common prefix is equal:
    `(lsize < rsize) ? -1 : (lsize > rsize) ? 1 : 0` (since the `fix:` commit "compare returned the
    size difference narrowed to int"; before it the code returned `sizeDiffNarrowed` below). -/
def sizeOrder (lsize rsize : Nat) : Int :=
  if lsize < rsize then -1 else if lsize > rsize then 1 else 0

/-- the pinned tree's `static_cast<int>(lsize - rsize)`: the `size_t` subtraction wraps mod 2^64,
    the conversion to `int` keeps the low 32 bits as two's complement.  No longer used by the model;
    kept so that the defect that was repaired stays stated (Props/C06 `narrowed_difference_*`). -/
def sizeDiffNarrowed (lsize rsize : Nat) : Int := toI32 (wrap64 ((lsize : Int) - (rsize : Int)))

/-- `buffer<char_T>::compare(left, lsize, right, rsize)`.  `l`, `r` are what is readable at the two
    pointers; only their first `min lsize rsize` units are read, so the lengths are separate
    arguments (a length difference of 2^32 is expressible with a one-unit operand). -/
def compareSized (e : Elem) (l : List Nat) (lsize : Nat) (r : List Nat) (rsize : Nat) : Int :=
  let cmplen := min lsize rsize
  let cmp := traitsCompare e (l.take cmplen) (r.take cmplen)
  if cmp ≠ 0 then cmp else sizeOrder lsize rsize

/-- `_ST_PRIVATE::compare_ci(left, lsize, right, rsize)` -/
def compareCiSized (l : List Nat) (lsize : Nat) (r : List Nat) (rsize : Nat) : Int :=
  let cmplen := min lsize rsize
  let cmp := compareCi3 (l.take cmplen) (r.take cmplen)
  if cmp ≠ 0 then cmp else sizeOrder lsize rsize

/-- the 5-argument forms: both sizes clamped to `maxlen` first -/
def compareSizedN (e : Elem) (l : List Nat) (lsize : Nat) (r : List Nat) (rsize : Nat) (maxlen : Nat) : Int :=
  compareSized e l (min lsize maxlen) r (min rsize maxlen)

def compareCiSizedN (l : List Nat) (lsize : Nat) (r : List Nat) (rsize : Nat) (maxlen : Nat) : Int :=
  compareCiSized l (min lsize maxlen) r (min rsize maxlen)

/-- `compare_cs` / `compare_ci` selected by the case mode, `char` strings -/
def compareMode (cs : CaseMode) (l : List Nat) (lsize : Nat) (r : List Nat) (rsize : Nat) : Int :=
  match cs with
  | .sensitive => compareSized .char l lsize r rsize
  | .insensitive => compareCiSized l lsize r rsize

def compareModeN (cs : CaseMode) (l : List Nat) (lsize : Nat) (r : List Nat) (rsize : Nat) (maxlen : Nat) : Int :=
  match cs with
  | .sensitive => compareSizedN .char l lsize r rsize maxlen
  | .insensitive => compareCiSizedN l lsize r rsize maxlen

/-! ### public members: `ST::string` (include/st_string.h:1545-1699) and `ST::buffer<char_T>`
     (include/st_charbuffer.h:229-281) -/

/-- right-hand operand of the member overloads: another string / buffer, or a `const char_T*`
    (`none` = `nullptr`; `some p` = the units at the pointer, followed by a terminating zero) -/
inductive Rhs where
  | str (b : List Nat)
  | cstr (p : Option (List Nat))
  deriving Repr, DecidableEq, Inhabited

/-- pointer contents and `rsize` as the overload computes them: `str.c_str(), str.size()` or
    `str ? str : "", str ? traits::length(str) : 0` -/
def Rhs.data : Rhs → List Nat
  | .str b => b
  | .cstr none => []
  | .cstr (some p) => p

def Rhs.size : Rhs → Nat
  | .str b => b.length
  | .cstr none => 0
  | .cstr (some p) => strlen p

/-- `string::compare(rhs, cs)` -/
def strCompare (cs : CaseMode) (a : List Nat) (r : Rhs) : Int := compareMode cs a a.length r.data r.size

/-- `string::compare_n(rhs, count, cs)` -/
def strCompareN (cs : CaseMode) (a : List Nat) (r : Rhs) (count : Nat) : Int :=
  compareModeN cs a a.length r.data r.size count

/-- `compare_i(rhs)` = `compare(rhs, case_insensitive)`, `compare_ni(rhs, n)` likewise -/
def strCompareI (a : List Nat) (r : Rhs) : Int := strCompare .insensitive a r
def strCompareNI (a : List Nat) (r : Rhs) (count : Nat) : Int := strCompareN .insensitive a r count

/-- `operator<`, `operator==`, `operator!=` of `ST::string` (`<` only takes a string) -/
def strLt (a b : List Nat) : Bool := decide (strCompare .sensitive a (.str b) < 0)
def strEq (a : List Nat) (r : Rhs) : Bool := decide (strCompare .sensitive a r = 0)
def strNe (a : List Nat) (r : Rhs) : Bool := decide (strCompare .sensitive a r ≠ 0)

/-- `ST::less_i`, `ST::equal_i` -/
def lessI (a b : List Nat) : Bool := decide (strCompareI a (.str b) < 0)
def equalI (a b : List Nat) : Bool := decide (strCompareI a (.str b) = 0)

/-- `buffer<char_T>::compare(rhs)`, `compare_n(rhs, count)`, operators -/
def bufCompare (e : Elem) (a : List Nat) (r : Rhs) : Int := compareSized e a a.length r.data r.size
def bufCompareN (e : Elem) (a : List Nat) (r : Rhs) (count : Nat) : Int := compareSizedN e a a.length r.data r.size count
def bufLt (e : Elem) (a b : List Nat) : Bool := decide (bufCompare e a (.str b) < 0)
def bufEq (e : Elem) (a b : List Nat) : Bool := decide (bufCompare e a (.str b) = 0)
def bufNe (e : Elem) (a b : List Nat) : Bool := decide (bufCompare e a (.str b) ≠ 0)

/-! ### hashes (include/st_string.h:2525-2557, constants st_string_priv.h:200-215) -/

def fnvOffsetBasis : Nat := 0xcbf29ce484222325
def fnvPrime : Nat := 0x00000100000001b3

/-- `static_cast<size_t>(ch)` for a (signed) `char`: sign-extended to 64 bits -/
def charToSize (b : Nat) : Nat := wrap64 (schar b)

/-- `hash ^= static_cast<size_t>(ch); hash *= prime;` in 64-bit arithmetic -/
def hashStep (h : Nat) (ch : Nat) : Nat := ((h ^^^ charToSize ch) * fnvPrime) % 2 ^ 64

/-- `ST::hash` (also `std::hash<ST::string>`) -/
def hash (s : List Nat) : Nat := s.foldl hashStep fnvOffsetBasis

/-- `ST::hash_i` -/
def hashI (s : List Nat) : Nat := s.foldl (fun h c => hashStep h (lower c)) fnvOffsetBasis

/-! ### case maps (include/st_string.h:2356-2384): one `cl_fast_upper/lower` per byte into a buffer of the same size -/

def toUpper (s : List Nat) : List Nat := s.map upper
def toLower (s : List Nat) : List Nat := s.map lower

end StVerif.Compare
