/-
  Comparison core (C06; `starts_with` of C07 goes through `compare_n`).

  Transcribes
    include/st_charbuffer.h:199-243  `buffer<char_T>::compare` (static 4- and 5-argument forms)
    include/st_string_priv.h:47-95   `compare_cs`, `compare_ci` (3-, 4- and 5-argument forms)
  Units are `Nat` below 2^width of the element type; sizes are `Nat` (`size_t` values < 2^64).

  `char_traits<T>::compare` is libstdc++/libc (trusted base, DESIGN 2.3): `memcmp` for `char`
  (unsigned bytes), an element loop with `<` for `char16_t`/`char32_t` (unsigned), `wmemcmp` for
  `wchar_t` (signed 32-bit here).  Only the *sign* of its result is specified, so the model returns
  -1/0/1 and the correspondence compares signs.
-/
import StVerif.Base
import StVerif.Model.Search

namespace StVerif.Compare
open StVerif.Search (CaseMode lower upper)

/-- element type of an `ST::buffer<char_T>` -/
inductive Elem where
  | char | char16 | char32 | wchar
  deriving DecidableEq, Repr, Inhabited

def Elem.bits : Elem → Nat
  | .char => 8 | .char16 => 16 | .char32 => 32 | .wchar => 32

/-- the value `char_traits<T>::lt` orders by on this platform -/
def Elem.key : Elem → Nat → Int
  | .wchar, x => toSigned 32 x
  | _, x => (x : Int)

/-- `traits_t::compare(left, right, n)` on the `n` units both pointers can read (the callers pass
    `take n` of each side): sign of the first difference in the element order. -/
def traitsCompare (e : Elem) : List Nat → List Nat → Int
  | a :: as, b :: bs =>
    if e.key a < e.key b then -1 else if e.key b < e.key a then 1 else traitsCompare e as bs
  | _, _ => 0

/-- `char` as the signed value the C++ computes with (`char` is signed on this platform) -/
def schar (b : Nat) : Int := toSigned 8 b

/-- `compare_ci(left, right, fsize)`: first difference of the folded signed chars, as `cl - cr` -/
def compareCi3 : List Nat → List Nat → Int
  | a :: as, b :: bs =>
    let cl := schar (lower a)
    let cr := schar (lower b)
    if cl ≠ cr then cl - cr else compareCi3 as bs
  | _, _ => 0

/-- `static_cast<int>(lsize - rsize)`: the `size_t` subtraction wraps mod 2^64, the conversion to
    `int` keeps the low 32 bits as two's complement. -/
def sizeDiffNarrowed (lsize rsize : Nat) : Int := toI32 (wrap64 ((lsize : Int) - (rsize : Int)))

/-- `buffer<char_T>::compare(left, lsize, right, rsize)`.  `l`, `r` are what is readable at the two
    pointers; only their first `min lsize rsize` units are read, so the lengths are separate
    arguments (a length difference of 2^32 is expressible with a one-unit operand). -/
def compareSized (e : Elem) (l : List Nat) (lsize : Nat) (r : List Nat) (rsize : Nat) : Int :=
  let cmplen := min lsize rsize
  let cmp := traitsCompare e (l.take cmplen) (r.take cmplen)
  if cmp ≠ 0 then cmp else sizeDiffNarrowed lsize rsize

/-- `_ST_PRIVATE::compare_ci(left, lsize, right, rsize)` -/
def compareCiSized (l : List Nat) (lsize : Nat) (r : List Nat) (rsize : Nat) : Int :=
  let cmplen := min lsize rsize
  let cmp := compareCi3 (l.take cmplen) (r.take cmplen)
  if cmp ≠ 0 then cmp else sizeDiffNarrowed lsize rsize

/-- the 5-argument forms: both sizes clamped to `maxlen` first -/
def compareSizedN (e : Elem) (l : List Nat) (lsize : Nat) (r : List Nat) (rsize : Nat) (maxlen : Nat) : Int :=
  compareSized e l (min lsize maxlen) r (min rsize maxlen)

def compareCiSizedN (l : List Nat) (lsize : Nat) (r : List Nat) (rsize : Nat) (maxlen : Nat) : Int :=
  compareCiSized l (min lsize maxlen) r (min rsize maxlen)

/-- `compare_cs` / `compare_ci` selected by the case mode, `char` strings -/
def compareMode (cs : CaseMode) (l : List Nat) (lsize : Nat) (r : List Nat) (rsize : Nat) : Int :=
  match cs with
  | .sensitive => compareSized .char l lsize r rsize
  | .insensitive => compareCiSized l lsize r rsize

def compareModeN (cs : CaseMode) (l : List Nat) (lsize : Nat) (r : List Nat) (rsize : Nat) (maxlen : Nat) : Int :=
  match cs with
  | .sensitive => compareSizedN .char l lsize r rsize maxlen
  | .insensitive => compareCiSizedN l lsize r rsize maxlen

end StVerif.Compare
