/-
  What a formatter does to its sink: the two virtual members of `ST::format_writer`
  (include/st_formatter.h:114-115).  Every sink (string, stdio, iostream, user supplied) sees
  exactly this sequence; its meaning is the concatenation `flatten`.
  Kept in its own file because the sink models (C17) consume the same event type.
-/
namespace StVerif.Fmt

/-- one call on the `format_writer` -/
inductive Event where
  /-- `append(const char *data, size_t size)` with the bytes passed -/
  | append (bs : List Nat)
  /-- `append_char(char ch, size_t count)` -/
  | appendChar (c n : Nat)
  deriving Repr, DecidableEq, Inhabited

def Event.bytes : Event → List Nat
  | .append bs => bs
  | .appendChar c n => List.replicate n c

/-- the bytes a sink ends up with -/
def flatten (ev : List Event) : List Nat := ev.flatMap Event.bytes

@[simp] theorem flatten_nil : flatten [] = [] := rfl
@[simp] theorem flatten_cons (e : Event) (ev : List Event) : flatten (e :: ev) = e.bytes ++ flatten ev := by
  simp [flatten]
@[simp] theorem flatten_append (a b : List Event) : flatten (a ++ b) = flatten a ++ flatten b := by
  simp [flatten]

end StVerif.Fmt
