/-
  Model of the slicing members of `ST::string` (include/st_string.h):
  `substr` (2002-2029), `left` / `right` (2031-2041), `trim_left` / `trim_right` / `trim`
  (1957-2000), `before_first` … `after_last` in their char / const char* / ST::string overloads
  (2101-2245) together with the public `find` / `find_last` front ends they call (1702-1912).

  Sizes and indices are `Nat`; `ST_ssize_t` values are `Int`; the places where the C++ mixes the
  two are written with `wrap64` (conversion to `size_t`, wrapping arithmetic) and `toI64`
  (conversion to `ST_ssize_t`) exactly where the conversion happens.  A result carries, next to its
  bytes, the number of units the call asks of `operator new[]` (0 = in-object storage).
-/
import StVerif.Base
import StVerif.Generated.Config
import StVerif.Model.Search
import StVerif.Model.Find

namespace StVerif.Slice
open StVerif StVerif.Search

/-- result of a slicing call: the bytes of the returned string and the largest `new char[n]` request -/
structure Res where
  bytes : List Nat
  alloc : Nat
  deriving DecidableEq, Repr, Inhabited

/-- units requested by `buffer<char>::allocate(n)` / the copy constructor of a buffer of size `n`
    (`is_reffed()` = `n >= local_length`; the block holds the terminator too) -/
def allocReq (n : Nat) : Nat := if n ≥ Generated.maxSsoLength then n + 1 else 0

/-- `new char[n]` beyond `PTRDIFF_MAX` units is refused by the language (`bad_array_new_length`, a
    `bad_alloc`) before any allocator is asked; below that the allocator is taken to succeed
    (running out of memory is C19's subject) -/
def allocLimit : Nat := 2^63 - 1

/-- `return *this` / `return string()` -/
def whole (s : List Nat) : Res := ⟨s, allocReq s.length⟩
def emptyRes : Res := ⟨[], 0⟩

/-- which revision of the code a definition transcribes: the pinned tree (`bfef877`, kept for the
    machine-checked witnesses of the defects found) or the repaired one (what the theorems are about
    and what the driver runs) -/
inductive Rev where
  | pinned | fixed
  deriving DecidableEq, Repr, Inhabited

/-- the part of `substr` after `start` has been normalised to `0 ≤ start ≤ max` and `count`
    resolved from `ST_AUTO_SIZE`: clamp, `return *this` shortcut, allocate, copy -/
def substrTail (rev : Rev) (s : List Nat) (count : Nat) (start : Int) : Outcome Res :=
  let max := s.length
  let count :=
    match rev with
    -- pinned: `if (start + count > max) count = max - start;`   (the sum wraps in size_t)
    | .pinned => if wrap64 (start + (count : Int)) > max then wrap64 ((max : Int) - start) else count
    -- fixed:  `if (count > max - start) count = max - start;`
    | .fixed => if count > wrap64 ((max : Int) - start) then wrap64 ((max : Int) - start) else count
  if start = 0 ∧ count = max then .ok (whole s)
  else
    -- `sub.m_buffer.allocate(count); copy(sub.data(), c_str() + start, count)`
    if allocReq count > allocLimit then .throw .badAlloc
    else if start.toNat + count > max + 1 then .oob
    else .ok ⟨((s ++ [0]).drop start.toNat).take count, allocReq count⟩

/-- `ST::string::substr(ST_ssize_t start, size_t count)`.
    `start ∈ [-2^63, 2^63)`, `count < 2^64` are the parameter types. -/
def substr (s : List Nat) (start : Int) (count : Nat) (rev : Rev := .fixed) : Outcome Res :=
  let max := s.length
  let count := if count = SIZE_MAX then max else count
  if start < 0 then
    -- `start += max; if (start < 0) start = 0;`
    let start := toI64 (wrap64 (start + (max : Int)))
    substrTail rev s count (if start < 0 then 0 else start)
  else if wrap64 start > max then .ok emptyRes
  else substrTail rev s count start

/-- `left(size)` -/
def left (s : List Nat) (n : Nat) (rev : Rev := .fixed) : Outcome Res := substr s 0 n rev

/-- `right(size)` -/
def right (s : List Nat) (n : Nat) (rev : Rev := .fixed) : Outcome Res :=
  match rev with
  -- pinned: `return substr(this->size() - size, size);`   (size_t difference passed as ST_ssize_t)
  | .pinned => substr s (toI64 (wrap64 ((s.length : Int) - (n : Int)))) n rev
  -- fixed:  `if (size >= this->size()) return *this;` first
  | .fixed =>
    if n ≥ s.length then .ok (whole s)
    else substr s (toI64 (wrap64 ((s.length : Int) - (n : Int)))) n rev

/-! ### trims -/

/-- `std::char_traits<char>::length(p)` as a list: the bytes before the first NUL -/
def cBytes (p : List Nat) : List Nat := p.takeWhile (· ≠ 0)

/-- `_ST_PRIVATE::find_cs(charset, cssize, ch) != nullptr` (memchr) -/
def inSet (cset : List Nat) (c : Nat) : Bool := cset.contains c

/-- `while (*cp && find_cs(charset, cssize, *cp)) ++cp;` from offset `i`; the list is what is left
    to read, its end is the NUL terminator -/
def walkUp (cset : List Nat) : List Nat → Nat → Nat
  | [], i => i
  | c :: rest, i => if c ≠ 0 ∧ inSet cset c then walkUp cset rest (i + 1) else i

/-- `while (--rp >= lo && find_cs(charset, cssize, *rp)) ;` entered with `rp` at offset `rp`;
    result = final offset of `rp` relative to `c_str()` (−1: one before the beginning) -/
def walkDown (cset : List Nat) (s : List Nat) (lo : Nat) : (rp : Nat) → Int
  | 0 => -1
  | rp + 1 => if rp ≥ lo ∧ inSet cset (s.getD rp 0) then walkDown cset s lo rp else (rp : Int)

/-- `ST_WHITESPACE` -/
def whitespace : List Nat := [0x20, 0x09, 0x0D, 0x0A]

def trimLeft (s charset : List Nat) (rev : Rev := .fixed) : Outcome Res :=
  if s.isEmpty then .ok emptyRes else
  let cset := cBytes charset
  let cp := walkUp cset s 0
  substr s (cp : Int) SIZE_MAX rev

def trimRight (s charset : List Nat) (rev : Rev := .fixed) : Outcome Res :=
  if s.isEmpty then .ok emptyRes else
  let cset := cBytes charset
  let cp := walkDown cset s 0 s.length
  substr s 0 (wrap64 (cp + 1)) rev

def trim (s charset : List Nat) (rev : Rev := .fixed) : Outcome Res :=
  if s.isEmpty then .ok emptyRes else
  let cset := cBytes charset
  let lp := walkUp cset s 0
  let rp := walkDown cset s lp s.length
  substr s (lp : Int) (wrap64 (rp - (lp : Int) + 1)) rev

/-! ### separators: the three overload forms and the public `find` / `find_last` front ends -/

/-- a separator argument in one of the three overload forms -/
inductive Sep where
  | char (c : Nat)                 -- `char sep`
  | cstr (p : Option (List Nat))   -- `const char *sep` (`none` = null pointer); bytes as laid out in memory
  | str (b : List Nat)             -- `const ST::string &sep`
  deriving DecidableEq, Repr, Inhabited

/-- the overload of `find` / `find_last` each form reaches (Model/Find.lean) -/
def Sep.toNeedle : Sep → Needle
  | .char c => .ch c
  | .cstr p => .cstr p
  | .str b => .str b

/-- `find(sep, cs)` in the three forms -/
def findFirst (cs : CaseMode) (s : List Nat) (sep : Sep) : Int := findAll cs s sep.toNeedle

/-- `find_last(sep, cs)` in the three forms -/
def findLast (cs : CaseMode) (s : List Nat) (sep : Sep) : Int := findLastAll cs s sep.toNeedle

/-- what `after_first` / `after_last` add to the match offset -/
def skipOf (rev : Rev) (pos : Int) : Sep → Int
  | .char _ => pos + 1
  | .cstr p => toI64 (wrap64 (pos + ((cBytes (p.getD [])).length : Int)))   -- `first + char_traits::length(sep)` (size_t) → ST_ssize_t
  | .str b =>
    match rev with
    | .pinned => pos + 1                                      -- pinned: `substr(first + 1)`
    | .fixed => toI64 (wrap64 (pos + (b.length : Int)))       -- fixed:  `substr(first + sep.size())`

def beforeFirst (cs : CaseMode) (s : List Nat) (sep : Sep) (rev : Rev := .fixed) : Outcome Res :=
  let first := findFirst cs s sep
  if first ≥ 0 then left s (wrap64 first) rev else .ok (whole s)

def afterFirst (cs : CaseMode) (s : List Nat) (sep : Sep) (rev : Rev := .fixed) : Outcome Res :=
  let first := findFirst cs s sep
  if first ≥ 0 then substr s (skipOf rev first sep) SIZE_MAX rev else .ok emptyRes

def beforeLast (cs : CaseMode) (s : List Nat) (sep : Sep) (rev : Rev := .fixed) : Outcome Res :=
  let last := findLast cs s sep
  if last ≥ 0 then left s (wrap64 last) rev else .ok emptyRes

def afterLast (cs : CaseMode) (s : List Nat) (sep : Sep) (rev : Rev := .fixed) : Outcome Res :=
  let last := findLast cs s sep
  if last ≥ 0 then substr s (skipOf rev last sep) SIZE_MAX rev else .ok (whole s)

/-- the bytes a separator argument denotes -/
def Sep.bytes : Sep → List Nat
  | .char c => [c]
  | .cstr p => cBytes (p.getD [])
  | .str b => b

end StVerif.Slice
