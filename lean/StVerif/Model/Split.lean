/-
  Model of `ST::string::split` (three overloads, include/st_string.h:2386-2487), `tokenize`
  (2489-2512) and `replace` (2247-2318), on top of the search core (Model/Search.lean).

  The loops of these members advance by "hit offset + separator length"; that this is progress is
  part of what C09 states, so every loop is written with an explicit guard: an iteration that would
  not move `next` forward yields `stuck` (the C++ would spin), a `next` beyond the end yields `oob`,
  and the definitions recurse on a fuel of `|rest| + 1` rounds.  The theorems show neither outcome
  (nor fuel exhaustion) is reachable in the repaired tree; in the pinned tree an empty separator
  reached the loop and did not advance (`Rev.pinned`, kept for the witness).
-/
import StVerif.Base
import StVerif.Model.Search
import StVerif.Model.Find
import StVerif.Model.Slice
import StVerif.Model.Utf

namespace StVerif.Split
open StVerif StVerif.Search
open StVerif.Slice (Rev cBytes inSet)

/-- `find_cs` / `find_ci (next, endp - next, needle, needle_size)` as the split loops call it, with
    no guard on the needle: for an empty needle the C++ reads `needle[0]` — the terminator — finds
    the first NUL of the text and "matches" zero bytes there -/
def findRaw (cs : CaseMode) (hay needle : List Nat) : Option Nat :=
  match needle with
  | [] => scanChar cs 0 hay 0
  | _ => findSub cs hay needle

/-- the loop shared by the three `split` overloads.
    `find rest`: offset of the next hit in `[next, endp)`; `adv`: what is added to the hit to form
    the new `next`; `mk`: how a piece is constructed (`from_validated`, or the validating constructor). -/
def splitLoop (find : List Nat → Option Nat) (adv : Nat) (mk : List Nat → Outcome (List Nat)) :
    (fuel : Nat) → (maxSplits : Nat) → (rest : List Nat) → (acc : List (List Nat)) → Outcome (List (List Nat))
  | 0, _, _, _ => .stuck
  | fuel + 1, maxSplits, rest, acc =>
    -- the final `result.emplace_back(next, endp - next)`
    let last : Outcome (List (List Nat)) := (mk rest).bind fun p => .ok (acc ++ [p])
    if maxSplits = 0 then last                          -- `while (max_splits)`
    else match find rest with
      | none => last                                    -- `if (!sp) break;`
      | some i =>
        (mk (rest.take i)).bind fun p =>                -- `result.emplace_back(next, sp - next)`
          if i + adv = 0 then .stuck                    -- `next = sp + adv` does not move: the loop repeats itself
          else if i + adv > rest.length then .oob       -- `next` beyond `endp`
          else splitLoop find adv mk fuel (maxSplits - 1) (rest.drop (i + adv)) (acc ++ [p])

/-- the pinned loop when an empty separator "matches" at the first NUL: the first piece, then one
    empty piece per remaining split (the search keeps finding the same NUL), then the rest.  With the
    default `max_splits` it does not end (memory permitting); bounded here at 2^24 rounds. -/
def pinnedEmptySep (cs : CaseMode) (s : List Nat) (maxSplits : Nat) : Outcome (List (List Nat)) :=
  if maxSplits = 0 then .ok [s]
  else match scanChar cs 0 s 0 with
    | none => .ok [s]
    | some i =>
      if maxSplits > 2^24 then .stuck
      else .ok (s.take i :: (List.replicate (maxSplits - 1) [] ++ [s.drop i]))

/-- `split(char split_char, size_t max_splits, cs)` -/
def splitChar (cs : CaseMode) (s : List Nat) (c : Nat) (maxSplits : Nat) : Outcome (List (List Nat)) :=
  if c = 0 ∨ c ≥ 0x80 then .assertFail "st_string.h:Split character should be in range '\\x01'-'\\x7f'"
  else splitLoop (fun rest => scanChar cs c rest 0) 1 .ok (s.length + 1) maxSplits s []

/-- `split(const ST::string &splitter, size_t max_splits, cs)` -/
def splitStr (cs : CaseMode) (s sep : List Nat) (maxSplits : Nat) (rev : Rev := .fixed) : Outcome (List (List Nat)) :=
  match rev with
  | .fixed =>
    -- fixed: `if (splitter.empty()) { result.push_back(*this); return result; }`
    if sep.isEmpty then .ok [s]
    else splitLoop (fun rest => findRaw cs rest sep) sep.length .ok (s.length + 1) maxSplits s []
  | .pinned =>
    if sep.isEmpty then pinnedEmptySep cs s maxSplits
    else splitLoop (fun rest => findRaw cs rest sep) sep.length .ok (s.length + 1) maxSplits s []

/-- the validation the `const char*` overload applies to every piece: `check_validity` as soon as
    the splitter has a byte with the high bit set, else `assume_valid` -/
def splitterValidation (sep : List Nat) : Mode :=
  if sep.any (fun b => b &&& 0x80 ≠ 0) then .checkValidity else .assumeValid

/-- `split(const char *splitter, size_t max_splits, cs)`; `p` = the memory at the pointer -/
def splitCstr (cs : CaseMode) (s : List Nat) (p : Option (List Nat)) (maxSplits : Nat) (rev : Rev := .fixed) :
    Outcome (List (List Nat)) :=
  match p with
  | none => .assertFail "st_string.h:ST::string::split called with null splitter"
  | some p =>
    let sep := cBytes p
    let mk := fun piece => Utf.stringSetUtf8 (splitterValidation sep) (some piece)
    match rev with
    | .fixed =>
      -- fixed: `if (!*splitter) { result.push_back(*this); return result; }`
      if sep.isEmpty then .ok [s]
      else splitLoop (fun rest => findRaw cs rest sep) sep.length mk (s.length + 1) maxSplits s []
    | .pinned =>
      if sep.isEmpty then pinnedEmptySep cs s maxSplits
      else splitLoop (fun rest => findRaw cs rest sep) sep.length mk (s.length + 1) maxSplits s []

/-! ### tokenize -/

/-- `tokenize(const char *delims)`: the outer loop; one round scans a run of non-delimiters, emits it
    when non-empty, then skips a run of delimiters -/
def tokLoop (dset : List Nat) : (fuel : Nat) → (rest : List Nat) → (acc : List (List Nat)) → Outcome (List (List Nat))
  | 0, _, _ => .stuck
  | fuel + 1, rest, acc =>
    if rest.isEmpty then .ok acc                                  -- `while (next != endp)`
    else
      let tok := rest.takeWhile (fun c => !inSet dset c)           -- `while (cur != endp && !find_cs(delims, dsize, *cur)) ++cur;`
      let r1 := rest.dropWhile (fun c => !inSet dset c)
      let acc := if tok.isEmpty then acc else acc ++ [tok]         -- `if (cur != next) result.emplace_back(next, cur - next)`
      let r2 := r1.dropWhile (inSet dset)                          -- `while (next != endp && find_cs(delims, dsize, *next)) ++next;`
      if r2.length < rest.length then tokLoop dset fuel r2 acc else .stuck

def tokenize (s delims : List Nat) : Outcome (List (List Nat)) :=
  tokLoop (cBytes delims) (s.length + 1) s []

/-! ### replace -/

/-- first scan: `outsize += to.size() - from.size()` per hit (size_t arithmetic: the sum is taken
    modulo 2^64, `delta` is the mathematical difference of the two sizes) -/
def countLoop (cs : CaseMode) (pat : List Nat) (delta : Int) : (fuel : Nat) → (rest : List Nat) → (outsize : Nat) → Outcome Nat
  | 0, _, _ => .stuck
  | fuel + 1, rest, outsize =>
    match findRaw cs rest pat with
    | none => .ok outsize
    | some i =>
      if i + pat.length = 0 then .stuck
      else if i + pat.length > rest.length then .oob
      else countLoop cs pat delta fuel (rest.drop (i + pat.length)) (wrap64 ((outsize : Int) + delta))

/-- second scan: copy up to the hit, copy `to`, continue behind the hit; finally the tail -/
def copyLoop (cs : CaseMode) (pat to : List Nat) : (fuel : Nat) → (rest : List Nat) → (out : List Nat) → Outcome (List Nat)
  | 0, _, _ => .stuck
  | fuel + 1, rest, out =>
    match findRaw cs rest pat with
    | none => .ok (out ++ rest)
    | some i =>
      if i + pat.length = 0 then .stuck
      else if i + pat.length > rest.length then .oob
      else copyLoop cs pat to fuel (rest.drop (i + pat.length)) (out ++ rest.take i ++ to)

/-- result of `replace`: the bytes stored and the size the buffer was allocated with -/
structure Replaced where
  bytes : List Nat
  outsize : Nat
  deriving DecidableEq, Repr, Inhabited

/-- `replace(const string &from, const string &to, cs)`: the two scans, then the comparison of what
    the second scan stored with what the first scan allocated (a longer store is a heap overflow,
    a shorter one leaves the tail of the result unwritten) -/
def replaceScans (cs : CaseMode) (s pat to : List Nat) : Outcome Replaced :=
  if s.isEmpty ∨ pat.isEmpty then .ok ⟨s, s.length⟩         -- `return *this`
  else
    let size1 : Outcome Nat :=
      if pat.length ≠ to.length then
        countLoop cs pat ((to.length : Int) - (pat.length : Int)) (s.length + 1) s s.length
      else .ok s.length
    size1.bind fun outsize =>
      (copyLoop cs pat to (s.length + 1) s []).bind fun out =>
        if out.length > outsize then .oob
        else if out.length < outsize then .ub "result partly unwritten"
        else .ok ⟨out, outsize⟩

/-- `ST_DEFAULT_VALIDATION` of the default build -/
def defaultValidation : Mode := .checkValidity

/-- `replace(const string &from, const string &to, cs)` as a whole.
    pinned: `return result;` converted the `char_buffer` through `string(char_buffer&&,
    ST_DEFAULT_VALIDATION)`, i.e. re-validated the finished text (and nothing when returning `*this`);
    fixed: `return from_validated(std::move(result));` -/
def replace (cs : CaseMode) (s pat to : List Nat) (rev : Rev := .fixed) (dflt : Mode := defaultValidation) : Outcome (List Nat) :=
  match rev with
  | .fixed => (replaceScans cs s pat to).map (·.bytes)
  | .pinned =>
    if s.isEmpty ∨ pat.isEmpty then .ok s
    else (replaceScans cs s pat to).bind fun r => Utf.stringSetUtf8 dflt (some r.bytes)

/-- an argument of the mixed `replace` overloads: `const char*` (memory at the pointer, `none` =
    null) converted with `string(p, ST_AUTO_SIZE, validation)`, or an `ST::string` -/
inductive Arg where
  | cstr (p : Option (List Nat))
  | str (b : List Nat)
  deriving DecidableEq, Repr, Inhabited

def Arg.toString (m : Mode) : Arg → Outcome (List Nat)
  | .cstr none => .ok []
  | .cstr (some p) => Utf.stringSetUtf8 m (some (cBytes p))
  | .str b => .ok b

/-- the four `replace(from, to, cs, validation)` overloads -/
def replaceArgs (cs : CaseMode) (m : Mode) (s : List Nat) (pat to : Arg) (rev : Rev := .fixed) : Outcome (List Nat) :=
  (pat.toString m).bind fun f => (to.toString m).bind fun t => replace cs s f t rev

end StVerif.Split
