/-
  Public search front ends of `ST::string` (C07): include/st_string.h:1701-1955 (find, find_last,
  contains) and 2043-2099 (starts_with, ends_with), on top of the core in Model/Search.lean and the
  comparison core in Model/Compare.lean.

  A needle argument is one of the overload families; `const char*` arguments are modelled by the
  bytes stored at the pointer (an implicit NUL follows them), and the model computes what the C++
  computes: `!substr[0]` and `char_traits<char>::length`.
-/
import StVerif.Model.Search
import StVerif.Model.Compare

namespace StVerif.Search
open StVerif.Compare

/-- the needle overloads -/
inductive Needle where
  /-- `char ch` -/
  | ch (c : Nat)
  /-- `const char *substr` (also `const char8_t*`): `none` = `nullptr`, `some p` = the bytes at the
      pointer, followed by a terminating NUL -/
  | cstr (p : Option (List Nat))
  /-- `(const char *substr, size_t count)` with a non-null pointer to `count = p.length` bytes -/
  | sized (p : List Nat)
  /-- `(nullptr, count)` -/
  | sizedNull (count : Nat)
  /-- `const ST::string &substr` -/
  | str (s : List Nat)
  deriving Repr, DecidableEq, Inhabited

/-- `substr[0]` of a C string (reads the terminator when no byte is stored before it) -/
def firstOf : List Nat → Nat
  | [] => 0
  | c :: _ => c

/-! ### single-character search -/

/-- `find_cs(haystack, size, ch)` (= `char_traits<char>::find`) / `find_ci(haystack, size, ch)` -/
def scanChar (cs : CaseMode) (c : Nat) : (hay : List Nat) → (off : Nat) → Option Nat
  | [], _ => none
  | h :: t, off => if eqv cs h c then some off else scanChar cs c t (off + 1)

/-- `find(size_t start, char ch, cs)` -/
def findChar (cs : CaseMode) (s : List Nat) (start : Nat) (c : Nat) : Int :=
  if start ≥ s.length then -1
  else match scanChar cs c (s.drop start) 0 with
    | some i => (start + i : Nat)
    | none => -1

/-- the loop of `find_last(size_t max, char ch, cs)` -/
def findLastCharLoop (cs : CaseMode) (s : List Nat) (endp : Nat) (c : Nat) :
    (fuel : Nat) → (start : Nat) → (found : Option Nat) → Option Nat
  | 0, _, found => found
  | fuel + 1, start, found =>
    match scanChar cs c ((s.take endp).drop start) 0 with
    | none => found
    | some i =>
      let cp := start + i
      if cp ≥ endp then found else findLastCharLoop cs s endp c fuel (cp + 1) (some cp)

/-- `find_last(size_t max, char ch, cs)` -/
def findLastChar (cs : CaseMode) (s : List Nat) (max : Nat) (c : Nat) : Int :=
  if s.length = 0 then -1
  else
    let endp := if max > s.length then s.length else max
    match findLastCharLoop cs s endp c (endp + 1) 0 none with
    | some i => (i : Nat)
    | none => -1

/-! ### `find(size_t start, needle, cs)` -/

def find (cs : CaseMode) (s : List Nat) (start : Nat) : Needle → Int
  | .ch c => findChar cs s start c
  | .cstr none => -1
  | .cstr (some p) =>
    if firstOf p = 0 ∨ start ≥ s.length then -1
    else find_ cs s start (p.take (strlen p))
  | .sizedNull _ => -1
  | .sized p =>
    if p.length = 0 ∨ start ≥ s.length then -1
    else find_ cs s start p
  | .str n =>
    -- find(start, substr.c_str(), substr.size(), cs); c_str() is never null
    if n.length = 0 ∨ start ≥ s.length then -1
    else find_ cs s start n

/-- `find_last(size_t max, needle, cs)` -/
def findLast (cs : CaseMode) (s : List Nat) (max : Nat) : Needle → Int
  | .ch c => findLastChar cs s max c
  | .cstr none => -1
  | .cstr (some p) =>
    if firstOf p = 0 ∨ s.length = 0 then -1
    else findLast_ cs s max (p.take (strlen p))
  | .sizedNull _ => -1
  | .sized p =>
    if p.length = 0 ∨ s.length = 0 then -1
    else findLast_ cs s max p
  | .str n =>
    if n.length = 0 ∨ s.length = 0 then -1
    else findLast_ cs s max n

/-- the overloads without a position: `find(needle, cs)` is `find(0, needle, cs)`,
    `find_last(needle, cs)` is `find_last(ST_AUTO_SIZE, needle, cs)` -/
def findAll (cs : CaseMode) (s : List Nat) (n : Needle) : Int := find cs s 0 n
def findLastAll (cs : CaseMode) (s : List Nat) (n : Needle) : Int := findLast cs s SIZE_MAX n

/-- `contains(needle, cs)`: `find(needle, cs) >= 0` -/
def contains (cs : CaseMode) (s : List Nat) (n : Needle) : Bool := decide (findAll cs s n ≥ 0)

/-! ### `starts_with` / `ends_with` (two overloads each: `const ST::string&`, `const char*`) -/

/-- argument of `starts_with` / `ends_with` -/
inductive Affix where
  | cstr (p : Option (List Nat))
  | str (s : List Nat)
  deriving Repr, DecidableEq, Inhabited

/-- `compare_n(prefix, count, cs) == 0` as called by `starts_with` -/
def startsWith (cs : CaseMode) (s : List Nat) : Affix → Bool
  | .str p =>
    if p.length > s.length then false
    else compareModeN cs s s.length p p.length p.length == 0
  | .cstr none =>
    -- count = 0; compare_n(nullptr, 0, cs) compares against "" with rsize 0
    if 0 > s.length then false
    else compareModeN cs s s.length [] 0 0 == 0
  | .cstr (some p) =>
    let count := strlen p
    if count > s.length then false
    else
      -- compare_n(const char*, count, cs) measures the C string again
      let rsize := strlen p
      compareModeN cs s s.length p rsize count == 0

/-- `compare_cs/ci(c_str() + start, suffix, count) == 0` as called by `ends_with`
    (`prefixEq` is the model of the 3-argument compare being zero) -/
def endsWith (cs : CaseMode) (s : List Nat) : Affix → Bool
  | .str p =>
    if p.length > s.length then false
    else prefixEq cs (s.drop (s.length - p.length)) p
  | .cstr none =>
    if 0 > s.length then false
    else prefixEq cs (s.drop (s.length - 0)) []
  | .cstr (some p) =>
    let count := strlen p
    if count > s.length then false
    else prefixEq cs (s.drop (s.length - count)) (p.take count)

end StVerif.Search
