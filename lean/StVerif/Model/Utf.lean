/-
  Model of include/st_utf_conv_priv.h and include/st_utf_conv.h, and of the ST::string
  entry points built on them (st_string.h: set(char_buffer, validation), constructors,
  from_* / to_*).  Hand transcription: same tests, same masks, same two passes
  (measure, then fill), same early returns.

  A source text is decoded into the sequence of values the repeated calls of
  `extract_utf8` / `extract_utf16` return (an error is a flagged value, exactly as
  `error_char` builds it); every `…_measure_from_…` / `…_convert_from_…` loop is
  `while (sp < ep) { ch = extract(sp, ep); body(ch); }`, i.e. a fold of its body over that
  sequence.
-/
import StVerif.Base
import StVerif.Generated.Config

namespace StVerif.Utf
open StVerif StVerif.Generated

inductive Enc where
  | utf8 | utf16 | utf32 | latin1
  deriving DecidableEq, Repr, Inhabited

/-! ### conversion_error_t, error_char, char_error -/

def errIncompleteUtf8 : Nat := 1
def errIncompleteSurrogate : Nat := 2
def errInvalidUtf8 : Nat := 3
def errOutOfRange : Nat := 4
def errLatin1OutOfRange : Nat := 5

/-- `error_char(value) = value | 0x400000` -/
def errorChar (k : Nat) : Nat := k ||| 0x400000
/-- `char_error(ch)`: 0 = success -/
def charError (ch : Nat) : Nat := if ch &&& 0x400000 ≠ 0 then ch &&& 0xFFBFFFFF else 0

/-! ### extract_utf8 / extract_utf16 iterated over the whole input -/

/-- the values `extract_utf8` returns when called until `sp == ep` -/
def decodeUtf8 : List Nat → List Nat
  | [] => []
  | b0 :: rest =>
    -- `next` = what the loop produces after consuming one unit only
    let next := fun (_ : Unit) => decodeUtf8 rest
    if b0 < 0x80 then b0 :: next ()
    else if b0 &&& 0xE0 = 0xC0 then
      match rest with
      | b1 :: r =>
        if b1 &&& 0xC0 ≠ 0x80 then errorChar errIncompleteUtf8 :: next ()
        else (((b0 &&& 0x1F) <<< 6) ||| (b1 &&& 0x3F)) :: decodeUtf8 r
      | [] => errorChar errIncompleteUtf8 :: next ()
    else if b0 &&& 0xF0 = 0xE0 then
      match rest with
      | b1 :: b2 :: r =>
        if b1 &&& 0xC0 ≠ 0x80 ∨ b2 &&& 0xC0 ≠ 0x80 then errorChar errIncompleteUtf8 :: next ()
        else (((b0 &&& 0x0F) <<< 12) ||| ((b1 &&& 0x3F) <<< 6) ||| (b2 &&& 0x3F)) :: decodeUtf8 r
      | _ => errorChar errIncompleteUtf8 :: next ()
    else if b0 &&& 0xF8 = 0xF0 then
      match rest with
      | b1 :: b2 :: b3 :: r =>
        if b1 &&& 0xC0 ≠ 0x80 ∨ b2 &&& 0xC0 ≠ 0x80 ∨ b3 &&& 0xC0 ≠ 0x80 then
          errorChar errIncompleteUtf8 :: next ()
        else (((b0 &&& 0x07) <<< 18) ||| ((b1 &&& 0x3F) <<< 12) ||| ((b2 &&& 0x3F) <<< 6) ||| (b3 &&& 0x3F))
              :: decodeUtf8 r
      | _ => errorChar errIncompleteUtf8 :: next ()
    else errorChar errInvalidUtf8 :: next ()

/-- the values `extract_utf16` returns when called until `sp == ep` -/
def decodeUtf16 : List Nat → List Nat
  | [] => []
  | u0 :: rest =>
    let next := fun (_ : Unit) => decodeUtf16 rest
    if u0 ≥ 0xD800 ∧ u0 ≤ 0xDFFF then
      match rest with
      | [] => errorChar errIncompleteSurrogate :: next ()
      | u1 :: r =>
        if u0 < 0xDC00 then
          if u1 ≥ 0xDC00 ∧ u1 ≤ 0xDFFF then
            (0x10000 + ((u0 &&& 0x3FF) <<< 10) + (u1 &&& 0x3FF)) :: decodeUtf16 r
          else errorChar errIncompleteSurrogate :: next ()
        else
          if u1 ≥ 0xD800 ∧ u1 ≤ 0xDBFF then
            (0x10000 + (u0 &&& 0x3FF) + ((u1 &&& 0x3FF) <<< 10)) :: decodeUtf16 r
          else errorChar errIncompleteSurrogate :: next ()
    else u0 :: next ()

/-! ### per-character measure / write -/

def utf8Measure (ch : Nat) : Nat :=
  if ch < 0x80 then 1 else if ch < 0x800 then 2 else if ch < 0x10000 then 3
  else if ch ≤ 0x10FFFF then 4 else badcharSubstituteUtf8.length

/-- `write_utf8`: `none` = `out_of_range`, nothing written -/
def writeUtf8 (ch : Nat) : Option (List Nat) :=
  if ch < 0x80 then some [ch]
  else if ch < 0x800 then some [0xC0 ||| ((ch >>> 6) &&& 0x1F), 0x80 ||| (ch &&& 0x3F)]
  else if ch < 0x10000 then
    some [0xE0 ||| ((ch >>> 12) &&& 0x0F), 0x80 ||| ((ch >>> 6) &&& 0x3F), 0x80 ||| (ch &&& 0x3F)]
  else if ch ≤ 0x10FFFF then
    some [0xF0 ||| ((ch >>> 18) &&& 0x07), 0x80 ||| ((ch >>> 12) &&& 0x3F), 0x80 ||| ((ch >>> 6) &&& 0x3F),
          0x80 ||| (ch &&& 0x3F)]
  else none

def utf16Measure (ch : Nat) : Nat := if ch < 0x10000 ∨ ch > 0x10FFFF then 1 else 2

/-- `write_utf16`: `none` = `out_of_range`, nothing written -/
def writeUtf16 (ch : Nat) : Option (List Nat) :=
  if ch < 0x10000 then some [ch]
  else if ch ≤ 0x10FFFF then
    let ch' := ch - 0x10000
    some [0xD800 ||| ((ch' >>> 10) &&& 0x3FF), 0xDC00 ||| (ch' &&& 0x3FF)]
  else none

/-! ### loop bodies of the twelve `…_convert_from_…` functions and their measures -/

/-- what one loop iteration does: append units, return an error code, or hit an ST_ASSERT -/
inductive Step where
  | units (us : List Nat)
  | error (kind : Nat)
  | assertFail (msg : String)
  deriving Repr, DecidableEq

def questionMark : Nat := 63

/-- body of `latin_1_convert_from_utf8/16` after the error test -/
def latin1Tail (bigch : Nat) (subst : Bool) : Step :=
  if bigch ≥ 0x100 then (if subst then .units [questionMark] else .error errLatin1OutOfRange)
  else .units [bigch]

/-- loop body per (source, target); `m` = validation, `subst` = substitute_out_of_range -/
def stepCh (src dst : Enc) (m : Mode) (subst : Bool) (ch : Nat) : Step :=
  match src, dst with
  | .utf8, .utf16 =>
      let e := charError ch
      if e ≠ 0 then (if m = .checkValidity then .error e else .units [badcharSubstitute])
      else match writeUtf16 ch with
        | some us => .units us
        | none => if m = .checkValidity then .error errOutOfRange else .units [badcharSubstitute]
  | .utf8, .utf32 | .utf16, .utf32 =>
      let e := charError ch
      if e ≠ 0 then (if m = .checkValidity then .error e else .units [badcharSubstitute])
      else .units [ch]
  | .utf8, .latin1 | .utf16, .latin1 =>
      let e := charError ch
      if e ≠ 0 then (if m = .checkValidity then .error e else latin1Tail questionMark subst)
      else latin1Tail ch subst
  | .utf16, .utf8 =>
      let e := charError ch
      if e ≠ 0 then (if m = .checkValidity then .error e else .units badcharSubstituteUtf8)
      else match writeUtf8 ch with
        | some us => .units us
        | none => .assertFail "Input character out of range"
  | .utf32, .utf8 =>
      match writeUtf8 ch with
      | some us => .units us
      | none => if m = .checkValidity then .error errOutOfRange else .units badcharSubstituteUtf8
  | .utf32, .utf16 =>
      match writeUtf16 ch with
      | some us => .units us
      | none => if m = .checkValidity then .error errOutOfRange else .units [badcharSubstitute]
  | .utf32, .latin1 =>
      if ch > 0x10FFFF ∧ m = .checkValidity then .error errOutOfRange else latin1Tail ch subst
  | .latin1, .utf8 =>
      if ch &&& 0x80 ≠ 0 then .units [0xC0 ||| ((ch >>> 6) &&& 0x1F), 0x80 ||| (ch &&& 0x3F)] else .units [ch]
  | .latin1, .utf16 | .latin1, .utf32 => .units [ch]
  -- same-encoding "conversions" are plain copies (wchar_t aliases on this platform)
  | _, _ => .units [ch]

/-- the summand of the matching `…_measure_from_…` loop -/
def measureCh (src dst : Enc) (ch : Nat) : Nat :=
  match src, dst with
  | .utf8, .utf16 | .utf32, .utf16 => utf16Measure ch
  | .utf16, .utf8 | .utf32, .utf8 => utf8Measure ch
  | .latin1, .utf8 => if ch &&& 0x80 ≠ 0 then 2 else 1
  | _, _ => 1

def decode (src : Enc) (xs : List Nat) : List Nat :=
  match src with
  | .utf8 => decodeUtf8 xs
  | .utf16 => decodeUtf16 xs
  | _ => xs

def measure (src dst : Enc) (xs : List Nat) : Nat :=
  ((decode src xs).map (measureCh src dst)).sum

inductive FillStatus where
  | done | error (kind : Nat) | assertFail (msg : String)
  deriving Repr, DecidableEq

/-- result of the fill pass: units stored so far and how the loop ended -/
structure Fill where
  out : List Nat
  status : FillStatus
  deriving Repr, DecidableEq

def fill (step : Nat → Step) : List Nat → Fill
  | [] => ⟨[], .done⟩
  | ch :: rest =>
    match step ch with
    | .units us => let r := fill step rest; ⟨us ++ r.out, r.status⟩
    | .error k => ⟨[], .error k⟩
    | .assertFail msg => ⟨[], .assertFail msg⟩

/-- The public free function `src_to_dst(ptr, size, validation[, substitute_out_of_range])`.
    `none` is the null pointer (with size 0).  The result of a successful call is the content
    of the returned buffer (its `size()` is the measured size; `Outcome.ub` records a result
    whose measured size differs from what the fill pass stored). -/
def convert (src dst : Enc) (m : Mode) (subst : Bool) (input : Option (List Nat)) : Outcome (List Nat) :=
  match input with
  | none => .ok []
  | some xs =>
    if xs.length ≥ hugeBufferSize then .assertFail "String data buffer is too large"
    else
      let chs := decode src xs
      let n := measure src dst xs
      -- utf32_to_latin_1 allocates `size` units without an emptiness shortcut; the others return early
      if n = 0 then .ok []
      else
        let f := fill (stepCh src dst m subst) chs
        if f.out.length > n then .oob
        else match f.status with
          | .assertFail msg => .assertFail msg
          | .error _ => .throw .unicodeError
          | .done => if f.out.length = n then .ok f.out else .ub "result partly unwritten"

/-! ### ST::string on top (st_string.h) -/

/-- `validate_utf8`: 0 = success -/
def validateUtf8 : List Nat → Nat
  | [] => 0
  | b0 :: rest =>
    if b0 < 0x80 then validateUtf8 rest
    else if b0 &&& 0xE0 = 0xC0 then
      match rest with
      | b1 :: r => if b1 &&& 0xC0 ≠ 0x80 then errInvalidUtf8 else validateUtf8 r
      | [] => errIncompleteUtf8
    else if b0 &&& 0xF0 = 0xE0 then
      match rest with
      | b1 :: b2 :: r =>
        if b1 &&& 0xC0 ≠ 0x80 then errInvalidUtf8
        else if b2 &&& 0xC0 ≠ 0x80 then errInvalidUtf8 else validateUtf8 r
      | _ => errIncompleteUtf8
    else if b0 &&& 0xF8 = 0xF0 then
      match rest with
      | b1 :: b2 :: b3 :: r =>
        if b1 &&& 0xC0 ≠ 0x80 then errInvalidUtf8
        else if b2 &&& 0xC0 ≠ 0x80 then errInvalidUtf8
        else if b3 &&& 0xC0 ≠ 0x80 then errInvalidUtf8 else validateUtf8 r
      | _ => errIncompleteUtf8
    else errInvalidUtf8

/-- `cleanup_utf8` (both passes compute this; the first only counts) -/
def cleanupUtf8 : List Nat → List Nat
  | [] => []
  | b0 :: rest =>
    -- `bad` = substitute written, one unit consumed
    let bad := fun (_ : Unit) => badcharSubstituteUtf8 ++ cleanupUtf8 rest
    if b0 < 0x80 then b0 :: cleanupUtf8 rest
    else if b0 &&& 0xE0 = 0xC0 then
      match rest with
      | b1 :: r =>
        if b1 &&& 0xC0 ≠ 0x80 then bad ()
        else b0 :: b1 :: cleanupUtf8 r
      | [] => bad ()
    else if b0 &&& 0xF0 = 0xE0 then
      match rest with
      | b1 :: b2 :: r =>
        if b1 &&& 0xC0 ≠ 0x80 ∨ b2 &&& 0xC0 ≠ 0x80 then bad ()
        else b0 :: b1 :: b2 :: cleanupUtf8 r
      | _ => bad ()
    else if b0 &&& 0xF8 = 0xF0 then
      match rest with
      | b1 :: b2 :: b3 :: r =>
        if b1 &&& 0xC0 ≠ 0x80 ∨ b2 &&& 0xC0 ≠ 0x80 ∨ b3 &&& 0xC0 ≠ 0x80 then bad ()
        else b0 :: b1 :: b2 :: b3 :: cleanupUtf8 r
      | _ => bad ()
    else bad ()

/-- `ST::string::set(const char_buffer&, validation)` — also what the `const char*`
    constructor, `operator=`, `from_utf8`, `_set_utf8` reach (null pointer = empty) -/
def stringSetUtf8 (m : Mode) (input : Option (List Nat)) : Outcome (List Nat) :=
  match input with
  | none => .ok []
  | some xs =>
    if xs.length ≥ hugeBufferSize then .assertFail "String data buffer is too large"
    else match m with
      | .checkValidity => if validateUtf8 xs ≠ 0 then .throw .unicodeError else .ok xs
      | .substituteInvalid => .ok (cleanupUtf8 xs)
      | .assumeValid => .ok xs

/-- construction / `set` / `from_*` of an `ST::string` from text in encoding `src`;
    the value is the string's UTF-8 bytes -/
def stringFrom (src : Enc) (m : Mode) (input : Option (List Nat)) : Outcome (List Nat) :=
  match src with
  | .utf8 => stringSetUtf8 m input
  | _ => convert src .utf8 m true input

/-- `to_utf8 / to_utf16 / to_utf32 / to_wchar / to_latin_1(subst)` of a string holding `bytes` -/
def stringTo (dst : Enc) (subst : Bool) (bytes : List Nat) : Outcome (List Nat) :=
  match dst with
  | .utf8 => .ok bytes
  | _ => convert .utf8 dst .assumeValid subst (some bytes)

end StVerif.Utf
