/-
  Model of the per-argument formatters: `ST::format_string` (st_formatter.h:264-288), the
  `format_type` overload table (st_formatter.h:343-635), `_ST_PRIVATE::pad_size /
  format_numeric_prefix / format_numeric_string / format_numeric_s / format_numeric_u /
  format_char` (st_format_priv.h:35-215), `ST::uint_formatter` (st_format_numeric.h:43-88) and
  the three public entry points `ST::format` (st_format.h).  Hand transcription: same
  comparisons, same integer types (the `int − size_t → ssize_t` subtraction of `pad_size`, the
  `static_cast<int>` of `format_string`'s size, the `static_cast<int>` in front of `format_char`),
  same order of sink calls.
-/
import StVerif.Model.FmtParse
import StVerif.Model.Utf

namespace StVerif.Fmt
open StVerif StVerif.Generated

/-! ### ST::uint_formatter -/

def digitChar (d : Nat) (upper : Bool) : Nat :=
  if d < 10 then 48 + d else if upper then 65 + d - 10 else 97 + d - 10

/-- the `while (value)` loop: digits are stored backwards from the end of the buffer -/
def uintLoop (radix : Nat) (upper : Bool) (value : Nat) (acc : List Nat) : List Nat :=
  if _h : value = 0 ∨ radix < 2 then acc
  else uintLoop radix upper (value / radix) (digitChar (value % radix) upper :: acc)
termination_by value
decreasing_by
  exact Nat.div_lt_self (by omega) (by omega)

/-- `formatter.format(value, radix, upper_case)` then `text()[0 .. size())` -/
def uintFormat (value radix : Nat) (upper : Bool) : List Nat :=
  if value = 0 then [48] else uintLoop radix upper value []

/-! ### numeric layout (st_format_priv.h) -/

inductive NumType where
  | positive | negative | zero
  deriving DecidableEq, Repr

/-- `pad_size(format, size, ntype)` -/
def padSize (f : FormatSpec) (size : Nat) (nt : NumType) : Nat :=
  -- `ST_ssize_t pad_size = format.minimum_length - size;`  (int converted to size_t, wraps, then to signed)
  let p0 : Int := toI64 (wrap64 (f.minimumLength - (size : Int)))
  let p1 := if nt = .negative ∨ f.alwaysSigned then p0 - 1 else p0
  let p2 :=
    if nt ≠ .zero ∧ f.classPrefix then
      match f.digitClass with
      | .hex | .hexUpper | .bin => p1 - 2
      | .oct => p1 - 1
      | _ => p1
    else p1
  if p2 > 0 then p2.toNat else 0

/-- `format_numeric_prefix` -/
def numericPrefix (f : FormatSpec) (nt : NumType) : List Event :=
  (if nt = .negative then [.appendChar 45 1] else if f.alwaysSigned then [.appendChar 43 1] else []) ++
  (if nt ≠ .zero ∧ f.classPrefix then
    match f.digitClass with
    | .hex => [.append [48, 120]]
    | .hexUpper => [.append [48, 88]]
    | .bin => [.append [48, 98]]
    | .oct => [.appendChar 48 1]
    | _ => []
   else [])

def padOf (f : FormatSpec) : Nat := if f.pad ≠ 0 then f.pad else 32

/-- `format_numeric_string` -/
def formatNumericString (f : FormatSpec) (text : List Nat) (nt : NumType) : List Event :=
  let pad := padOf f
  let psize := padSize f text.length nt
  if f.numericPad then
    numericPrefix f nt ++ [.appendChar pad psize, .append text]
  else
    let align := if f.alignment = .dflt then Align.right else f.alignment
    if align = .right then
      [.appendChar pad psize] ++ numericPrefix f nt ++ [.append text]
    else
      numericPrefix f nt ++ [.append text, .appendChar pad psize]

/-- radix / case selection shared by `format_numeric_s` and `format_numeric_u`;
    `none` = the `ST_ASSERT(false, "Invalid digit class …")` branch -/
def radixOf (c : DigitClass) : Option (Nat × Bool) :=
  match c with
  | .hexUpper => some (16, true)
  | .hex => some (16, false)
  | .oct => some (8, false)
  | .bin => some (2, false)
  | .dec | .dflt => some (10, false)
  | .chr => none

/-- `format_numeric_s<int_T>`: the magnitude is `value < 0 ? 0 - uint_T(value) : uint_T(value)`
    (repair of defect 12: the pinned `std::abs` was undefined for the most negative value), which
    is the mathematical absolute value for every value of the type, `−2^(w−1)` included -/
def formatNumericS (f : FormatSpec) (value : Int) : Outcome (List Event) :=
  match radixOf f.digitClass with
  | none => .assertFail "Invalid digit class for _format_numeric_s"
  | some (radix, upper) =>
    let text := uintFormat value.natAbs radix upper
    let nt := if value = 0 then NumType.zero else if value < 0 then .negative else .positive
    .ok (formatNumericString f text nt)

/-- `format_numeric_u<uint_T>` -/
def formatNumericU (f : FormatSpec) (value : Nat) : Outcome (List Event) :=
  match radixOf f.digitClass with
  | none => .assertFail "Invalid digit class for _format_numeric_u"
  | some (radix, upper) =>
    let text := uintFormat value radix upper
    let nt := if value = 0 then NumType.zero else .positive
    .ok (formatNumericString f text nt)

def charPaddingMsg : String := "Char formatting does not currently support padding"

/-- `format_char(format, output, int ch)`; `write_utf8` takes the value as `char32_t` -/
def formatChar (f : FormatSpec) (ch : Int) : Outcome (List Event) :=
  if f.minimumLength ≠ 0 ∨ f.pad ≠ 0 then .assertFail charPaddingMsg
  else
    match Utf.writeUtf8 (wrapW 32 ch) with
    | some bs => .ok [.append bs]
    | none => .ok [.append badcharSubstituteUtf8]

/-- `_ST_PRIVATE::char_code(value)` in front of `format_char` for the eight integer types: the
    0..10FFFF range is tested on the full-width value (`static_cast<unsigned long long>`), anything
    else becomes −1, which `write_utf8` rejects (repair of defect 17: the pinned code narrowed with
    `static_cast<int>` first, so 0x100000041 printed "A") -/
def charCode (value : Int) : Int := if wrap64 value > 0x10FFFF then -1 else value

/-- `ST::format_string(format, output, text, size, default_alignment = align_left)` -/
def formatString (f : FormatSpec) (text : List Nat) : List Event :=
  let pad := padOf f
  let size0 := text.length
  let size := if f.precision ≥ 0 ∧ size0 > wrap64 f.precision then wrap64 f.precision else size0
  if f.minimumLength > toI32 size then
    let align := if f.alignment = .dflt then Align.left else f.alignment
    let n := wrap64 (f.minimumLength - (size : Int))
    if align = .right then [.appendChar pad n, .append (text.take size)]
    else [.append (text.take size), .appendChar pad n]
  else [.append (text.take size)]

def libcSizeMsg : String := "Your libc doesn't support reporting format size"

/-- `format_type(…, double)`: the rendering is `snprintf`'s answer for the assembled format
    (opaque, C13).  `format_size > 0` is asserted (an empty `render` stands for a non-positive
    return value); a rendering of 64 bytes or more does not fit `out_buffer` and is produced again
    in `heap_buffer`, allocated with the reported size (repair of defect 13) — either way `text`
    points at the whole rendering, which is what is appended; the padding is the library's. -/
def formatFloat (f : FormatSpec) (render : Bool → Option Nat → FloatClass → List Nat) : Outcome (List Event) :=
  let pad := padOf f
  let prec : Option Nat := if f.precision ≥ 0 then some f.precision.toNat else none
  let text := render f.alwaysSigned prec f.floatClass
  if text.length = 0 then .assertFail libcSizeMsg
  else if f.minimumLength > (text.length : Int) then
    let n := wrap64 (f.minimumLength - (text.length : Int))
    if f.alignment = .left then .ok [.append text, .appendChar pad n]
    else .ok [.appendChar pad n, .append text]
  else .ok [.append text]

/-- the `format_type` overload selected by the argument's C++ type -/
def formatType (a : Arg) (f : FormatSpec) : Outcome (List Event) :=
  match a with
  | .char v =>
      if f.digitClass = .chr then formatChar f v else formatNumericS f v
  | .wchar v =>
      if f.digitClass = .chr then formatChar f v else formatNumericS f v
  | .char16 v =>
      if f.digitClass = .chr then formatChar f (toI32 v) else formatNumericU f v
  | .char32 v =>
      if f.digitClass = .chr then formatChar f (toI32 v) else formatNumericU f v
  | .char8 v =>
      if f.digitClass = .chr then
        (if f.minimumLength ≠ 0 ∨ f.pad ≠ 0 then .assertFail charPaddingMsg else .ok [.appendChar v 1])
      else formatNumericU f v
  | .sint _ v =>
      if f.digitClass = .chr then formatChar f (charCode v) else formatNumericS f v
  | .uint _ v =>
      if f.digitClass = .chr then formatChar f (charCode v) else formatNumericU f v
  | .bool b => .ok (formatString f (if b then [116, 114, 117, 101] else [102, 97, 108, 115, 101]))
  | .str bs => .ok (formatString f bs)
  | .nullStr => .ok []
  | .wide src m us =>
      -- `ST::char_buffer utf8 = ST::string::from_utf16(text[, size]).to_utf8(); format_string(…, utf8.data(), utf8.size())`
      (Utf.stringFrom src m (some us)).bind fun bs => .ok (formatString f bs)
  | .float r => formatFloat f r

/-- the `formatters[]` array of `apply_format` -/
def formattersOf (args : List Arg) : Formatters := fun i spec =>
  match args[i]? with
  | some a => formatType a spec
  | none => .oob

/-- the sink events of `apply_format(writer, args…)` on the format string -/
def run (fmt : Option (List Nat)) (args : List Arg) : Outcome (List Event) :=
  runEvents fmt args.length (formattersOf args)

/-- which public entry point: `ST::format(fmt, …)` / `ST::format(validation, fmt, …)` (UTF-8,
    validated) or `ST::format_latin_1` -/
inductive Entry where
  | utf8 (m : Mode)
  | latin1
  deriving DecidableEq, Repr

/-- `string_stream::to_string(utf8_encoded, validation)` -/
def toStringOf (e : Entry) (bytes : List Nat) : Outcome (List Nat) :=
  match e with
  | .utf8 m => Utf.stringSetUtf8 m (some bytes)
  | .latin1 => Utf.convert .latin1 .utf8 .assumeValid true (some bytes)

/-- `ST::format…(fmt, args…)`: the bytes of the returned `ST::string` -/
def runFormat (e : Entry) (fmt : Option (List Nat)) (args : List Arg) : Outcome (List Nat) :=
  (run fmt args).bind fun ev => toStringOf e (flatten ev)

end StVerif.Fmt
