/-
  Substring search core shared by C07 (find / find_last / contains / starts_with / ends_with),
  C08 (before_* / after_*) and C09 (split / replace / tokenize).

  Transcribes include/st_string_priv.h:29-147 (`cl_fast_lower`, `cl_fast_upper`, `compare_ci`,
  `find_cs`, `find_ci`) and the two private members `ST::string::_find` / `_find_last`
  (include/st_string.h:111-139).  Bytes are `Nat` below 256.
-/
import StVerif.Base
import StVerif.Spec.Search   -- only for the API enum `CaseMode` (`ST::case_sensitivity_t`)

namespace StVerif.Search

/-- `cl_fast_lower` on the byte value -/
def lower (c : Nat) : Nat := if 0x41 ≤ c ∧ c ≤ 0x5A then c + 32 else c

/-- `cl_fast_upper` on the byte value -/
def upper (c : Nat) : Nat := if 0x61 ≤ c ∧ c ≤ 0x7A then c - 32 else c

/-- what one step of `compare_cs` / `compare_ci` tests for equality -/
def eqv (cs : CaseMode) (a b : Nat) : Bool :=
  match cs with
  | .sensitive => a == b
  | .insensitive => lower a == lower b

/-- `compare_cs(cp, needle, n) == 0` / `compare_ci(cp, needle, n) == 0` where `n = needle.length`
    units are readable at `cp` (the caller has checked `cp + n ≤ ep`) -/
def prefixEq (cs : CaseMode) : (hay needle : List Nat) → Bool
  | _, [] => true
  | [], _ :: _ => false
  | h :: hs, n :: ns => eqv cs h n && prefixEq cs hs ns

/-- `find_cs` / `find_ci (haystack, size, needle, needle_size)` for a non-empty needle
    `n0 :: rest`: the C++ alternates "scan for the first unit" and "compare the whole needle, else
    `++cp`"; here both are one walk over the haystack carrying the offset from its start.
    `cp + needle_size > ep` is `needle.length > remaining`. -/
def findFrom (cs : CaseMode) (n0 : Nat) (rest : List Nat) : (hay : List Nat) → (off : Nat) → Option Nat
  | [], _ => none
  | h :: t, off =>
    if eqv cs h n0 then
      if (n0 :: rest).length > (h :: t).length then none
      else if prefixEq cs t rest then some off
      else findFrom cs n0 rest t (off + 1)
    else findFrom cs n0 rest t (off + 1)

/-- offset of the first occurrence of `needle` in `hay`; the callers guarantee `needle ≠ []`
    (an empty needle would make the C++ read `needle[0]`; every public entry guards it). -/
def findSub (cs : CaseMode) (hay needle : List Nat) : Option Nat :=
  match needle with
  | [] => none
  | n0 :: rest => findFrom cs n0 rest hay 0

/-- `ST::string::_find(start, substr, count, cs)`; the callers guarantee `start ≤ size`.
    Result as the C++ `ST_ssize_t`: index or -1. -/
def find_ (cs : CaseMode) (s : List Nat) (start : Nat) (needle : List Nat) : Int :=
  match findSub cs (s.drop start) needle with
  | some i => (start + i : Nat)
  | none => -1

/-- the loop of `_find_last`: repeated forward search inside `[start, endp)`, remembering the last hit.
    `fuel` bounds the iterations (each hit advances `start` by one, so `endp + 1` suffices). -/
def findLastLoop (cs : CaseMode) (s : List Nat) (endp : Nat) (needle : List Nat) :
    (fuel : Nat) → (start : Nat) → (found : Option Nat) → Option Nat
  | 0, _, found => found
  | fuel + 1, start, found =>
    match findSub cs ((s.take endp).drop start) needle with
    | none => found
    | some i =>
      let cp := start + i
      if cp ≥ endp then found else findLastLoop cs s endp needle fuel (cp + 1) (some cp)

/-- `ST::string::_find_last(max, substr, count, cs)` -/
def findLast_ (cs : CaseMode) (s : List Nat) (max : Nat) (needle : List Nat) : Int :=
  let endp := if max > s.length then s.length else max
  match findLastLoop cs s endp needle (endp + 1) 0 none with
  | some i => (i : Nat)
  | none => -1

end StVerif.Search
