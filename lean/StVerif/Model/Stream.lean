/-
  Object / heap machine for `ST::string_stream` (include/st_stringstream.h).

  A pool holds stream objects (`m_chars`, `m_alloc`, `m_size`, `m_stack[ST_STACK_STRING_SIZE]`) and a
  heap of blocks; `m_chars` is a pointer: to the in-object array of some stream (`stack o`) or to a
  heap block (`heap k`).  Every member function is a do-block with the C++ statements in source
  order (in `expand_buffer`: `new` BEFORE `delete[]`), so aliasing, double free, free of a non-heap
  pointer, use after free, leaks, the state a throwing `new` leaves behind and a doubling loop that
  makes no progress are all expressible: they are outcomes (`Fault`), never assumptions.

  `Rev` selects the revision of the two move operations: `pinned` is the tree as first read
  (`move.m_alloc = 0` only — defect #14 of DESIGN.md §5), `repaired` resets the source to the state
  of a default-constructed stream.  All property theorems are about `repaired`; the witness theorems
  in Props/C16.lean show what `pinned` does.

  Contents that C++ leaves indeterminate (`new char[n]`, `m_stack` after construction) are the
  marker 0xCD; they are never observed (`raw_buffer()[0, size())` only).
  Sizes are `Nat` (no `size_t` wrap-around: streams of 2^63 bytes are outside the contract).
-/
import StVerif.Base
import StVerif.Generated.Config
import StVerif.Model.Utf

namespace StVerif.Stream
open StVerif StVerif.Generated

inductive Ptr where
  | stack (o : Nat)    -- &stream(o).m_stack[0]
  | heap (k : Nat)     -- start of heap block k
  deriving DecidableEq, Repr, Inhabited

structure Obj where
  chars : Ptr
  alloc : Nat
  size : Nat
  stack : List Nat
  deriving DecidableEq, Repr, Inhabited

inductive Fault where
  | badFree        -- delete[] of a pointer that is not the start of a live heap block
  | doubleFree     -- delete[] of an already released block
  | useAfterFree   -- access through a pointer to a released block / a destroyed stream
  | oob            -- access outside a block / array
  | stuck          -- the doubling loop of expand_buffer makes no progress (the C++ never returns)
  | convAbort      -- an ST_ASSERT inside a UTF conversion called by operator<< (C03's business)
  | deadObject     -- member call on a stream that is not alive (harness error, never generated)
  | liveObject     -- construction over a live stream (harness error, never generated)
  deriving DecidableEq, Repr, Inhabited

/-- revision of the move constructor / move assignment -/
inductive Rev where
  | pinned | repaired
  deriving DecidableEq, Repr, Inhabited

structure Pool where
  objs : Nat → Option Obj
  heap : Nat → Option (List Nat)
  next : Nat                      -- blocks `≥ next` have never been allocated
  allocs : Nat := 0               -- allocations performed so far (fault schedule position)
  failAt : Option Nat := none     -- the allocation with this ordinal (1-based) throws `bad_alloc`

inductive Res (α : Type) where
  | ok (a : α) (p : Pool)
  | fault (f : Fault) (p : Pool)
  | throw (e : Exc) (p : Pool)

abbrev M (α : Type) := Pool → Res α

def M.pure {α : Type} (a : α) : M α := fun p => .ok a p
def M.bind {α β : Type} (x : M α) (f : α → M β) : M β := fun p =>
  match x p with
  | .ok a p' => f a p'
  | .fault e p' => .fault e p'
  | .throw e p' => .throw e p'

instance : Monad M where
  pure := M.pure
  bind := M.bind

def Pool.init : Pool := { objs := fun _ => none, heap := fun _ => none, next := 0 }

def fault {α : Type} (f : Fault) : M α := fun p => .fault f p
def throwE {α : Type} (e : Exc) : M α := fun p => .throw e p

def getObj (o : Nat) : M Obj := fun p =>
  match p.objs o with
  | some s => .ok s p
  | none => .fault .deadObject p

def requireDead (o : Nat) : M Unit := fun p =>
  match p.objs o with
  | some _ => .fault .liveObject p
  | none => .ok () p

def setObj (o : Nat) (s : Obj) : M Unit := fun p =>
  .ok () { p with objs := fun x => if x = o then some s else p.objs x }

def dropObj (o : Nat) : M Unit := fun p =>
  .ok () { p with objs := fun x => if x = o then none else p.objs x }

/-- `new char[n]` (contents indeterminate: `n` copies of the marker 0xCD) -/
def newBlock (n : Nat) : M Ptr := fun p =>
  if p.failAt = some (p.allocs + 1) then .throw .badAlloc { p with allocs := p.allocs + 1 }
  else
    let blk := List.replicate n 0xCD
    .ok (.heap p.next) { p with heap := (fun x => if x = p.next then some blk else p.heap x),
                                next := p.next + 1, allocs := p.allocs + 1 }

/-- an allocation made by a temporary (`ST::char_buffer utf8 = …` inside the wide `operator<<`
    overloads) that is released again on every path by its own destructor: only its place in the
    fault schedule matters here -/
def tickAlloc : M Unit := fun p =>
  if p.failAt = some (p.allocs + 1) then .throw .badAlloc { p with allocs := p.allocs + 1 }
  else .ok () { p with allocs := p.allocs + 1 }

/-- `delete[] ptr` -/
def deleteBlock (ptr : Ptr) : M Unit := fun p =>
  match ptr with
  | .stack _ => .fault .badFree p
  | .heap k =>
    match p.heap k with
    | some _ => .ok () { p with heap := fun x => if x = k then none else p.heap x }
    | none => if k < p.next then .fault .doubleFree p else .fault .badFree p

/-- read `n` chars starting at `ptr` -/
def readUnits (ptr : Ptr) (n : Nat) : M (List Nat) := fun p =>
  match ptr with
  | .stack o =>
    match p.objs o with
    | some s => if n ≤ s.stack.length then .ok (s.stack.take n) p else .fault .oob p
    | none => .fault .useAfterFree p
  | .heap k =>
    match p.heap k with
    | some blk => if n ≤ blk.length then .ok (blk.take n) p else .fault .oob p
    | none => .fault .useAfterFree p

def overwrite (blk : List Nat) (at_ : Nat) (us : List Nat) : List Nat :=
  blk.take at_ ++ us ++ blk.drop (at_ + us.length)

/-- store `us` at `ptr + at_` -/
def writeUnits (ptr : Ptr) (at_ : Nat) (us : List Nat) : M Unit := fun p =>
  match ptr with
  | .stack o =>
    match p.objs o with
    | some s =>
      if at_ + us.length ≤ s.stack.length then
        let s' : Obj := { s with stack := overwrite s.stack at_ us }
        .ok () { p with objs := fun x => if x = o then some s' else p.objs x }
      else .fault .oob p
    | none => .fault .useAfterFree p
  | .heap k =>
    match p.heap k with
    | some blk =>
      if at_ + us.length ≤ blk.length then
        let blk' := overwrite blk at_ us
        .ok () { p with heap := fun x => if x = k then some blk' else p.heap x }
      else .fault .oob p
    | none => .fault .useAfterFree p

/-! ### `ST::string_stream` members (statements in source order) -/

/-- `is_heap()` -/
def Obj.isHeap (s : Obj) : Bool := decide (s.alloc > stackStringSize)

/-- `string_stream()` : `m_chars(m_stack), m_alloc(ST_STACK_STRING_SIZE), m_size()` -/
def ctor (o : Nat) : M Unit := do
  requireDead o
  setObj o { chars := .stack o, alloc := stackStringSize, size := 0, stack := List.replicate stackStringSize 0xCD }

/-- `~string_stream()` -/
def dtor (o : Nat) : M Unit := do
  let s ← getObj o
  if s.isHeap then deleteBlock s.chars
  dropObj o

/-- `do { big_size *= 2; } while (m_size + added_size > big_size);` — the loop's progress depends on
    `big_size > 0`, which is not evident from the text of `expand_buffer`; so the loop is run on fuel
    and `none` (fuel exhausted) is the outcome `stuck`.  `growLoop_some` (Lemmas/Stream.lean) shows
    that `need + 1` iterations always suffice when the capacity is positive. -/
def growLoop (need : Nat) : Nat → Nat → Option Nat
  | 0, _ => none
  | fuel + 1, big =>
    let big := big * 2
    if need > big then growLoop need fuel big else some big

/-- `expand_buffer(added_size)` -/
def expandBuffer (o added : Nat) : M Unit := do
  let s ← getObj o
  if s.size + added > s.alloc then
    -- size_t big_size = m_alloc; do { big_size *= 2; } while (m_size + added_size > big_size);
    let big ← match growLoop (s.size + added) (s.size + added + 1) s.alloc with
      | some b => (pure b : M Nat)
      | none => fault .stuck
    let bigger ← newBlock big                 -- char *bigger = new char[big_size];
    let old ← readUnits s.chars s.alloc       -- std::char_traits<char>::copy(bigger, m_chars, m_alloc);
    writeUnits bigger 0 old
    if s.isHeap then deleteBlock s.chars      -- if (is_heap()) delete[] m_chars;
    setObj o { s with chars := bigger, alloc := big }     -- m_chars = bigger; m_alloc = big_size;

/-- the two statements every append ends with:
    `std::char_traits<char>::move(m_chars + m_size, data, size);  m_size += size;` -/
def storeAtEnd (o : Nat) (bytes : List Nat) : M Unit := do
  let s ← getObj o
  writeUnits s.chars s.size bytes
  let s ← getObj o                            -- (the store may have gone into this object's own array)
  setObj o { s with size := s.size + bytes.length }

/-- `append(const char *data, size_t size)` with the source bytes given by value (the ST_AUTO_SIZE form
    measures `data` first; a null `data` has length 0) -/
def append (o : Nat) (bytes : List Nat) : M Unit := do
  if bytes.length = 0 then return ()          -- if (size == 0) return *this;
  expandBuffer o bytes.length
  storeAtEnd o bytes

/-- `append_char(char ch, size_t count)`: `assign(m_chars + m_size, count, ch); m_size += count;` -/
def appendChar (o : Nat) (ch count : Nat) : M Unit := do
  if count = 0 then return ()
  expandBuffer o count
  storeAtEnd o (List.replicate count ch)

/-- `truncate(size_t size)` : `if (size < m_size) m_size = size;` -/
def truncate (o n : Nat) : M Unit := do
  let s ← getObj o
  if n < s.size then setObj o { s with size := n }

/-- `erase(size_t count)` : `if (count < m_size) m_size -= count; else m_size = 0;` -/
def erase (o n : Nat) : M Unit := do
  let s ← getObj o
  if n < s.size then setObj o { s with size := s.size - n }
  else setObj o { s with size := 0 }

/-- what the move operations do to their source -/
def movedFrom (rev : Rev) (src : Nat) (mv : Obj) : Obj :=
  match rev with
  | .pinned => { mv with alloc := 0 }                     -- move.m_alloc = 0;
  | .repaired =>                                          -- move.m_chars = move.m_stack; move.m_alloc = ST_STACK_STRING_SIZE; move.m_size = 0;
    { mv with chars := .stack src, alloc := stackStringSize, size := 0 }

/-- `string_stream(string_stream &&move)` -/
def moveCtor (rev : Rev) (o src : Nat) : M Unit := do
  requireDead o
  let mv ← getObj src
  -- m_alloc(move.m_alloc), m_size(move.m_size); m_chars = is_heap() ? move.m_chars : m_stack;
  -- copy(m_stack, move.m_stack, ST_STACK_STRING_SIZE)
  setObj o { chars := if mv.isHeap then mv.chars else .stack o, alloc := mv.alloc, size := mv.size, stack := mv.stack }
  setObj src (movedFrom rev src mv)

/-- `operator=(string_stream &&move)` -/
def moveAssign (rev : Rev) (o src : Nat) : M Unit := do
  let a ← getObj o
  if a.isHeap then deleteBlock a.chars        -- if (is_heap()) delete[] m_chars;
  let mv ← getObj src
  -- m_alloc = move.m_alloc; m_size = move.m_size; m_chars = is_heap() ? move.m_chars : m_stack; copy(m_stack, …)
  setObj o { chars := if mv.isHeap then mv.chars else .stack o, alloc := mv.alloc, size := mv.size, stack := mv.stack }
  setObj src (movedFrom rev src mv)

/-- the bytes `to_string(utf8_encoded, validation)` hands to `ST::string::from_utf8` / `from_latin_1` -/
def toStringOf (bytes : List Nat) (utf8 : Bool) (m : Mode) : Outcome (List Nat) :=
  if utf8 then Utf.stringFrom .utf8 m (some bytes) else Utf.stringFrom .latin1 m (some bytes)

/-- `to_string(utf8_encoded, validation)` -/
def toString (o : Nat) (utf8 : Bool) (m : Mode) : M (Outcome (List Nat)) := do
  let s ← getObj o
  let bytes ← readUnits s.chars s.size        -- raw_buffer(), size()
  pure (toStringOf bytes utf8 m)

/-! ### `operator<<` : every overload is an append of a rendering -/

/-- `operator<<(const wchar_t* / char16_t* / char32_t* / std::basic_string / basic_string_view)`:
    `ST::char_buffer utf8 = ST::…_to_utf8(text, length);  return append(utf8.data(), utf8.size());`
    (`none` = null pointer: nothing happens).  `m` is ST_DEFAULT_VALIDATION. -/
def appendText (o : Nat) (src : Utf.Enc) (m : Mode) (units : Option (List Nat)) : M Unit := do
  match units with
  | none => return ()
  | some xs =>
    -- the conversion measures, allocates its result (beyond the short-buffer limit) and fills it
    if Utf.measure src .utf8 xs ≥ maxSsoLength then tickAlloc
    match Utf.convert src .utf8 m false (some xs) with
    | .ok bytes => append o bytes
    | .throw e => throwE e
    | _ => fault .convAbort

/-- `operator<<(int / long / long long)` — as repaired:
    `if (num < 0) { expand_buffer(formatter.size() + 1); append_char('-'); }  return append(formatter.text(), formatter.size());`
    (room for sign and digits is made before the first append, so only that reservation can throw;
    unsigned: `neg = false`; floating point: `append` of the rendering).  The digits are given. -/
def appendNum (o : Nat) (neg : Bool) (digits : List Nat) : M Unit := do
  if neg then
    expandBuffer o (digits.length + 1)
    appendChar o 45 1
  append o digits

/-- the signed overloads as first read: `if (num < 0) append_char('-'); return append(formatter.text(), formatter.size());`
    — two appends, the second of which may throw after the first has changed the stream (kept for the witness theorem) -/
def appendNumAsFound (o : Nat) (neg : Bool) (digits : List Nat) : M Unit := do
  if neg then appendChar o 45 1
  append o digits

/-! ### observation -/

structure Obs where
  size : Nat
  bytes : List Nat        -- raw_buffer()[0 .. size)
  ptr : Ptr               -- raw_buffer()
  deriving DecidableEq, Repr

def observe (o : Nat) : M Obs := do
  let s ← getObj o
  let bs ← readUnits s.chars s.size
  pure { size := s.size, bytes := bs, ptr := s.chars }

/-! ### operations as data (histories) -/

inductive Op where
  | ctor (o : Nat)
  | dtor (o : Nat)
  | moveCtor (o src : Nat)
  | moveAssign (o src : Nat)
  | append (o : Nat) (bytes : List Nat)
  | appendChar (o : Nat) (ch count : Nat)
  | appendText (o : Nat) (src : Utf.Enc) (m : Mode) (units : Option (List Nat))
  | appendNum (o : Nat) (neg : Bool) (digits : List Nat)
  | truncate (o n : Nat)
  | erase (o n : Nat)
  | toString (o : Nat) (utf8 : Bool) (m : Mode)
  deriving Repr, DecidableEq

def Op.run (rev : Rev) : Op → M Unit
  | .ctor o => Stream.ctor o
  | .dtor o => Stream.dtor o
  | .moveCtor o s => Stream.moveCtor rev o s
  | .moveAssign o s => Stream.moveAssign rev o s
  | .append o bs => Stream.append o bs
  | .appendChar o c n => Stream.appendChar o c n
  | .appendText o e m us => Stream.appendText o e m us
  | .appendNum o neg ds => Stream.appendNum o neg ds
  | .truncate o n => Stream.truncate o n
  | .erase o n => Stream.erase o n
  | .toString o u m => do let _ ← Stream.toString o u m; pure ()

/-- a history: the caller catches exceptions (`unicode_error` from malformed wide text, `bad_alloc`
    under a fault schedule) and carries on with the same streams; a fault ends the run -/
def runOps (rev : Rev) : List Op → Pool → Res Unit
  | [], p => .ok () p
  | op :: rest, p =>
    match op.run rev p with
    | .ok _ p' => runOps rev rest p'
    | .throw _ p' => runOps rev rest p'
    | .fault f p' => .fault f p'

/-- destroy every live stream among `ids` -/
def destroyAll : List Nat → M Unit
  | [] => pure ()
  | o :: rest => do
    let p ← (fun p => Res.ok p p : M Pool)
    if (p.objs o).isSome then dtor o
    destroyAll rest

end StVerif.Stream
