/-
  Model of the output sinks a format call can be driven into, and of stream insertion /
  extraction of `ST::string` (C17).

  A format call makes the same sequence of `append(data, size)` / `append_char(ch, count)` calls
  whatever the sink (`Fmt.run`, C10/C11); a sink is an interpreter of that event list:

    string sink        include/st_format.h:27-58     `string_stream::append / append_char`, then
                                                    `to_string(utf8, validation)`
    FILE* sink         include/st_stdio.h:26-52      `fwrite(data, 1, size, f)` / `count` × `fputc(ch, f)`
    ostream sink       include/st_iostream.h:30-88   `write_data<char_T>` / `count` × `put(char_T(ch))`
       char            `stream.write(data, size)`
       wchar_t         `utf8_to_wchar(data, size)`  (default validation) then `write`   — per call
       char16_t        `utf8_to_utf16(data, size)`  …
       char32_t        `utf8_to_utf32(data, size)`  …
    operator<<         include/st_iostream.h:102-109 `to_buffer(buffer<char_T>&)`, then insertion of a
                                                    `std::basic_string<char_T>` (which pads to `width()`)
    operator>>         include/st_iostream.h:111-119 extraction into a `std::basic_string<char_T>`, then
                                                    `str.set(ptr, size)` with the default validation

  `FILE*` and stream buffers are append-only lists of units: stdio and iostreams themselves are
  trusted (parameters), what is modelled is which calls the library makes on them with which
  values.  `char` is signed on this platform: the byte `c` held by a `char` has the value
  `toSigned 8 c`, which is what the conversions `fputc(int)`, `char_T(ch)` start from.
-/
import StVerif.Model.FmtRender

namespace StVerif.Sinks
open StVerif StVerif.Fmt StVerif.Utf

/-- the value of a C++ `char` whose object representation is the byte `c` (`char` is signed) -/
def charVal (c : Nat) : Int := toSigned 8 c

/-- `while (count) { put(x); --count; }`: the units written, first to last -/
def putLoop (x : Nat) : Nat → List Nat
  | 0 => []
  | n + 1 => x :: putLoop x n

/-- a sink that never fails: the buffer after all events, starting from `buf` -/
def runSink (write : Event → List Nat) (ev : List Event) (buf : List Nat) : List Nat :=
  ev.foldl (fun b e => b ++ write e) buf

/-! ### string sink (`string_format_writer`) -/

/-- `string_stream::append` copies the bytes, `append_char` is `memset(…, ch, count)` -/
def streamWrite : Event → List Nat
  | .append bs => bs
  | .appendChar c n => List.replicate n c

/-- `m_output.raw_buffer()[0 .. size())` after the call -/
def streamBytes (ev : List Event) : List Nat := runSink streamWrite ev []

/-- `data.to_string(utf8_encoded, validation)`: what `ST::format` / `ST::format_latin_1` return -/
def stringSink (e : Entry) (ev : List Event) : Outcome (List Nat) := toStringOf e (streamBytes ev)

/-! ### FILE* sink (`stdio_format_writer`) -/

/-- `fputc(int c, FILE*)` stores `(unsigned char)c`; the argument is the promoted `char` -/
def fputcByte (c : Nat) : Nat := wrapW 8 (charVal c)

def fileWrite : Event → List Nat
  | .append bs => bs                               -- `fwrite(data, sizeof(char), size, m_stream)`
  | .appendChar c n => putLoop (fputcByte c) n      -- `while (count) { fputc(ch, m_stream); --count; }`

/-- the bytes `ST::printf(FILE*, …)` leaves in the file -/
def fileSink (ev : List Event) : List Nat := runSink fileWrite ev []

/-! ### narrow ostream sink (`ostream_format_writer<char, …>`) -/

def ostreamWrite : Event → List Nat
  | .append bs => bs                               -- `m_stream.write(data, size)`
  | .appendChar c n => putLoop (wrapW 8 (charVal c)) n   -- `m_stream.put(char(ch))`

def ostreamSink (ev : List Event) : List Nat := runSink ostreamWrite ev []

/-! ### wide ostream sinks (`ostream_format_writer<wchar_t | char16_t | char32_t, …>`) -/

/-- bits of the stream's character type; `wchar_t` and `char32_t` are the UTF-32 route here -/
def unitBits : Enc → Nat
  | .utf16 => 16
  | .utf32 => 32
  | _ => 8

/-- `char_T(ch)`: the signed `char` converted to the stream's character type, as the unit stored -/
def widenChar (T : Enc) (c : Nat) : Nat := wrapW (unitBits T) (charVal c)

/-- one event on a wide stream: each `append` is transcoded **on its own** by the public
    conversion function with its default validation argument `m`, then written -/
def wideWrite (T : Enc) (m : Mode) : Event → Outcome (List Nat)
  | .append bs => convert .utf8 T m true (some bs)
  | .appendChar c n => .ok (putLoop (widenChar T c) n)

/-- the units `ST::writef(std::basic_ostream<T>&, …)` leaves in the stream when it returns,
    or the exception that leaves it (whatever was written before stays in the stream; it is
    not part of the outcome) -/
def wideSinkFrom (T : Enc) (m : Mode) : List Event → List Nat → Outcome (List Nat)
  | [], buf => .ok buf
  | e :: rest, buf => (wideWrite T m e).bind fun w => wideSinkFrom T m rest (buf ++ w)

def wideSink (T : Enc) (m : Mode) (ev : List Event) : Outcome (List Nat) := wideSinkFrom T m ev []

/-- when is per-call transcoding harmless: every appended chunk is a whole number of UTF-8
    sequences (`validate_utf8` accepts it) and every character actually written by `append_char`
    is ASCII -/
def chunkOk : Event → Bool
  | .append bs => validateUtf8 bs == 0
  | .appendChar c n => n == 0 || decide (c < 0x80)

def chunkSafe (ev : List Event) : Bool := ev.all chunkOk

/-! ### whole calls -/

/-- `ST::printf(FILE*, fmt, args…)` -/
def runPrintf (fmt : Option (List Nat)) (args : List Arg) : Outcome (List Nat) := (run fmt args).map fileSink

/-- `ST::writef(std::ostream&, fmt, args…)` -/
def runWritef (fmt : Option (List Nat)) (args : List Arg) : Outcome (List Nat) := (run fmt args).map ostreamSink

/-- `ST::writef(std::basic_ostream<T>&, fmt, args…)`, `T` wide, default validation `m`.  For a
    call the formatter itself rejects (`bad_format`, `out_of_range`) this reports the formatter's
    exception; on the real sink a chunk delivered before that point which does not transcode
    throws `unicode_error` first.  Such calls are outside the property (`ST::format` does not
    accept them); the driver accepts either exception there. -/
def runWritefWide (T : Enc) (m : Mode) (fmt : Option (List Nat)) (args : List Arg) : Outcome (List Nat) :=
  (run fmt args).bind (wideSink T m)

/-- `ST::format(fmt, args…)` (`e = .utf8 default`) / `ST::format_latin_1` through the sink model -/
def runFormatSink (e : Entry) (fmt : Option (List Nat)) (args : List Arg) : Outcome (List Nat) :=
  (run fmt args).bind (stringSink e)

/-! ### stream insertion -/

/-- `str.to_buffer(ST::buffer<char_T>&)`: `to_utf8()` (a copy) / `to_utf16()` / `to_utf32()` /
    `to_wchar()` -/
def toBuffer (T : Enc) (bytes : List Nat) : Outcome (List Nat) := stringTo T true bytes

/-- the part of the stream's formatting state a `basic_string` insertion looks at -/
structure StreamFmt where
  width : Nat := 0
  fill : Nat := 32
  left : Bool := false
  deriving Repr, DecidableEq, Inhabited

/-- insertion of a `std::basic_string` (trusted library behaviour, [string.io]): the units,
    padded with `fill()` to `width()` — after them for `left`, in front otherwise; `width(0)` -/
def stdInsert (sf : StreamFmt) (units : List Nat) : List Nat :=
  if sf.left then units ++ List.replicate (sf.width - units.length) sf.fill
  else List.replicate (sf.width - units.length) sf.fill ++ units

/-- `stream << st_string` for a stream of character type `T` (`.utf8` = `char`) -/
def insert (T : Enc) (sf : StreamFmt) (bytes : List Nat) : Outcome (List Nat) :=
  (toBuffer T bytes).map (stdInsert sf)

/-! ### stream extraction -/

/-- `std::isspace` / `ctype<wchar_t>::is(space, ·)` in the "C" locale -/
def isSpaceUnit (u : Nat) : Bool := u == 32 || (9 ≤ u && u ≤ 13)

/-- extraction into a `std::basic_string` with `width() == 0` (trusted library behaviour,
    [string.io]): skip leading whitespace, take units up to the next whitespace or the end.
    Returns the token and the unread rest; an empty token is the failed extraction (`failbit`,
    the string is left empty). -/
def stdExtract (input : List Nat) : List Nat × List Nat :=
  let s := input.dropWhile isSpaceUnit
  (s.takeWhile (fun u => !isSpaceUnit u), s.dropWhile (fun u => !isSpaceUnit u))

/-- `stream >> st_string`: the new value of the string (or the exception of `set`) and the
    unread rest.  `T = .utf8` is a `char` stream, `.utf32` a `wchar_t` stream. -/
def extract (T : Enc) (m : Mode) (input : List Nat) : Outcome (List Nat) × List Nat :=
  let r := stdExtract input
  (stringFrom T m (some r.1), r.2)

end StVerif.Sinks
