/-
  Threads on the object / heap machine (C20).

  A configuration is ONE pool — the machine of C04/C05, `Model/Pool.lean` + `Model/StrPool.lean` —
  whose object ids are partitioned by owner: the shared immutable pool, and one private pool per
  thread (`Part`).  A thread's program is a list of operations:

    * `const reads dests f` — a const member / free function: it reads the values of the objects
      `reads` (shared or the thread's own), hands back `f` of those values — a plain result, new
      strings/buffers stored in the fresh private objects `dests`, or an exception;  *what* `f` is
      is the business of C06–C14, here it is a parameter;
    * `mutate op` — any string-level operation of C04 (`SOp`): construction, copy, move, assignment,
      append, set, clear, destruction …; every object it writes is the thread's own, objects it
      only reads may be shared.

  A schedule is any list of thread ids: the scheduled thread executes its next operation with the
  pool machine's own step function (`SOp.run`) on the combined pool.  A step that breaks the
  ownership discipline, or names a dead / already constructed object, is refused (in C++ it would
  be undefined behaviour, which the property's hypothesis excludes) — so the machine is total and
  the theorems need no side conditions on programs.

  What this model cannot express, and therefore what no theorem about it says anything about:
  the interleaving is of WHOLE operations (that a data-race-free program behaves like such an
  interleaving is the C++ memory model's guarantee, not proved here); there is no state but the
  pool (the premise `statics_immutable`, re-checked against the source on every run); libc and
  libstdc++ are not modelled at all.
-/
import StVerif.Model.StrPool
import StVerif.Lemmas.PoolInv

namespace StVerif.Sched
open StVerif StVerif.Pool StVerif.StrPool

abbrev Tid := Nat

/-- what an object reports: `(size(), data()[0 .. size))` -/
abbrev View := Nat × List Nat

inductive Owner where
  | shared
  | priv (t : Tid)
  deriving DecidableEq, Repr

/-- the ownership partition: every object id belongs to the shared pool or to exactly one thread -/
abbrev Part := Nat → Owner

def readable (part : Part) (t : Tid) (x : Nat) : Bool := part x == .shared || part x == .priv t
def writable (part : Part) (t : Tid) (x : Nat) : Bool := part x == .priv t

/-- what a const call hands back -/
inductive CRes where
  | values (vals : List (List Nat))     -- new strings / buffers holding these values
  | result (r : List Nat)               -- a plain result (index, order, hash, number, flag …)
  | throws (e : Exc)

inductive TOp where
  | const (reads dests : List Nat) (f : List (Option View) → CRes)
  | mutate (op : SOp)

/-- the objects an operation reads without writing them -/
def _root_.StVerif.StrPool.SOp.reads : SOp → List Nat
  | .ctorCopy _ s | .assignCopy _ s | .appendStr _ s => [s]
  | .setBufCopy _ _ | .ctorBufCopy _ _ => [bufSlot]
  | _ => []

/-- decidable form of `SOp.pre` (Lemmas/StrPoolOps.lean): constructor targets are dead user ids, every
    other named object is alive -/
def aliveB (p : Pool) (o : Nat) : Bool := (p.objs o).isSome
def deadB (p : Pool) (o : Nat) : Bool := !(p.objs o).isSome
def userB (x : Nat) : Bool := decide (x < 100)
def convOkB : Outcome (List Nat) → Bool
  | .ok _ => true
  | .throw .unicodeError => true
  | _ => false

def preB : SOp → Pool → Bool
  | .ctorText o _ _, p | .ctorDefault o, p => userB o && deadB p o
  | .ctorCopy o s, p | .ctorMove o s, p => userB o && userB s && deadB p o && aliveB p s
  | .dtor o, p | .clear o, p | .appendText o _ _, p | .appendChar o _, p | .setText o _ _, p => userB o && aliveB p o
  | .assignCopy o s, p | .assignMove o s, p | .appendStr o s, p => userB o && userB s && aliveB p o && aliveB p s
  | .setConv o c, p | .assignConv o c, p => userB o && aliveB p o && convOkB c
  | .bufCtor _, p => deadB p bufSlot
  | .setBufMove o _, p | .setBufCopy o _, p => userB o && decide (o ≠ bufSlot) && aliveB p o && aliveB p bufSlot
  | .ctorBufMove o _, p | .ctorBufCopy o _, p => userB o && decide (o ≠ bufSlot) && deadB p o && aliveB p bufSlot
  | .derive ds, p => (ds.map (·.1)).all (fun d => userB d && deadB p d) && decide (ds.map (·.1)).Nodup
  | .deriveThrow e, _ => decide (e ≠ .badAlloc)
  | .query, _ => true

/-- the string-level operation a thread operation amounts to in pool `p` -/
def TOp.toSOp (p : Pool) : TOp → SOp
  | .const reads dests f =>
    match f (reads.map (view p)) with
    | .values vals => .derive (dests.zip vals)
    | .result _ => .query
    | .throws e => .deriveThrow e
  | .mutate op => op

/-- what a const call returned (nothing for a mutating operation) -/
def TOp.result (p : Pool) : TOp → Option CRes
  | .const reads _ f => some (f (reads.map (view p)))
  | .mutate _ => none

/-- the ownership discipline of the property's hypothesis: everything written is the thread's own,
    everything read is shared or the thread's own -/
def TOp.owned (part : Part) (t : Tid) : TOp → Bool
  | .const reads dests _ => reads.all (readable part t) && dests.all (writable part t)
  | .mutate op => op.targets.all (writable part t) && op.reads.all (readable part t)

def TOp.admissible (part : Part) (t : Tid) (p : Pool) (top : TOp) : Bool :=
  top.owned part t && preB (top.toSOp p) p

inductive Ending where
  | completed
  | threw (e : Exc)
  | faulted (f : Fault)      -- a memory fault of the machine (proved unreachable)
  | refused                  -- the operation broke the ownership discipline / named a dead object
  deriving DecidableEq, Repr

/-- what a thread can observe of one of its own steps -/
structure Obs where
  ending : Ending
  result : Option CRes              -- what the const call handed back
  mine : Nat → Option View          -- the values of ALL the thread's own objects afterwards

def mineOf (part : Part) (t : Tid) (p : Pool) : Nat → Option View :=
  fun x => if part x = .priv t then view p x else none

/-- one operation of thread `t` on the combined pool -/
def execOp (part : Part) (t : Tid) (p : Pool) (top : TOp) : Pool × Obs :=
  if top.admissible part t p then
    match (top.toSOp p).run p with
    | .ok _ p' => (p', { ending := .completed, result := top.result p, mine := mineOf part t p' })
    | .throw e p' => (p', { ending := .threw e, result := top.result p, mine := mineOf part t p' })
    | .fault f p' => (p', { ending := .faulted f, result := top.result p, mine := mineOf part t p' })
  else (p, { ending := .refused, result := none, mine := mineOf part t p })

structure Config where
  pool : Pool
  progs : Tid → List TOp            -- what each thread still has to execute
  trace : Tid → List Obs            -- what each thread has observed so far (oldest first)

def upd {α : Type} (f : Tid → α) (t : Tid) (v : α) : Tid → α := fun x => if x = t then v else f x

/-- the scheduler picks thread `t`: it executes its next operation (a finished thread does nothing) -/
def stepThread (part : Part) (t : Tid) (c : Config) : Config :=
  match c.progs t with
  | [] => c
  | top :: rest =>
    let r := execOp part t c.pool top
    { pool := r.1, progs := upd c.progs t rest, trace := upd c.trace t (c.trace t ++ [r.2]) }

/-- a schedule is any sequence of thread ids -/
def run (part : Part) (sched : List Tid) (c : Config) : Config :=
  sched.foldl (fun c t => stepThread part t c) c

/-- thread `t` run alone: the same schedule with every other thread's turns removed -/
def alone (t : Tid) (sched : List Tid) : List Tid := sched.filter (· = t)

end StVerif.Sched
