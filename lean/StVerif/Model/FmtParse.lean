/-
  Model of the format-string parser: `ST::format_writer::fetch_prefix / next_format /
  parse_format` and `ST::apply_format` (include/st_formatter.h:123-261, 312-336).
  Hand transcription: `m_format_str` is an index into the format string, every `*p` is a read
  through `rd`, which is defined exactly on the indices of the string and its terminating NUL —
  a read anywhere else is the outcome `oob`.

  Loops are well-founded recursions on `|fmt| + 1 − position`.  Whether the C++ loops advance is
  part of what is to be proved (`m_format_str = end − 1` after a `strtol` that may have consumed
  nothing), so each recursive call sits under an explicit guard "the position moved forward and is
  still inside the string"; the other branch is the outcome `stuck`.  Props/C10.lean proves
  that neither `oob` nor `stuck` is ever returned.
-/
import StVerif.FmtBase
import StVerif.Model.FmtEvents

namespace StVerif.Fmt
open StVerif

/-- reading the byte at index `i` of a NUL-terminated string: the bytes, then the NUL, then
    nothing that belongs to the string -/
def rd (fmt : List Nat) (i : Nat) : Option Nat :=
  if i < fmt.length then some (fmt.getD i 0) else if i = fmt.length then some 0 else none

/-- `strtol(m_format_str, &end, 10)` called with `m_format_str = fmt + pos`: (value, index of `end`) -/
def strtolAt (fmt : List Nat) (pos : Nat) : Int × Nat :=
  let r := strtol10 (fmt.drop pos)
  (r.1, pos + r.2)

/-! ### parse_format -/

/-- one iteration of the `for (;;) switch (*++m_format_str)` loop -/
inductive PStep where
  /-- `break` out of the switch with `m_format_str = np` -/
  | cont (spec : FormatSpec) (np : Nat)
  /-- `return spec` with `m_format_str = np` -/
  | done (spec : FormatSpec) (np : Nat)
  deriving Repr, DecidableEq

def parseStep (fmt : List Nat) (pos : Nat) (spec : FormatSpec) : Outcome PStep :=
  let p := pos + 1                                      -- `*++m_format_str`
  match rd fmt p with
  | none => .oob
  | some c =>
    if c = 0 then .throw .badFormat                     -- "Unterminated format specifier"
    else if c = 125 then .ok (.done spec (p + 1))       -- '}'
    else if c = 60 then .ok (.cont { spec with alignment := .left } p)     -- '<'
    else if c = 62 then .ok (.cont { spec with alignment := .right } p)    -- '>'
    else if c = 95 then                                 -- '_'
      match rd fmt (p + 1) with
      | none => .oob
      | some padc =>
        if padc = 0 then .throw .badFormat
        else .ok (.cont { spec with pad := padc, numericPad := false } (p + 1))
    else if c = 48 then .ok (.cont { spec with pad := 48, numericPad := true } p)   -- '0'
    else if c = 35 then .ok (.cont { spec with classPrefix := true } p)             -- '#'
    else if c = 120 then .ok (.cont { spec with digitClass := .hex } p)             -- 'x'
    else if c = 88 then .ok (.cont { spec with digitClass := .hexUpper } p)         -- 'X'
    else if c = 43 then .ok (.cont { spec with alwaysSigned := true } p)            -- '+'
    else if c = 100 then .ok (.cont { spec with digitClass := .dec } p)             -- 'd'
    else if c = 111 then .ok (.cont { spec with digitClass := .oct } p)             -- 'o'
    else if c = 98 then .ok (.cont { spec with digitClass := .bin } p)              -- 'b'
    else if c = 99 then .ok (.cont { spec with digitClass := .chr } p)              -- 'c'
    else if c = 102 then .ok (.cont { spec with floatClass := .fixed } p)           -- 'f'
    else if c = 101 then .ok (.cont { spec with floatClass := .exp } p)             -- 'e'
    else if c = 69 then .ok (.cont { spec with floatClass := .expUpper } p)         -- 'E'
    else if 49 ≤ c ∧ c ≤ 57 then                        -- '1' … '9'
      let r := strtolAt fmt p
      .ok (.cont { spec with minimumLength := longToInt r.1 } (r.2 - 1))            -- `end - 1`
    else if c = 46 then                                 -- '.'
      match rd fmt (p + 1) with                         -- `*++m_format_str == 0`
      | none => .oob
      | some c1 =>
        if c1 = 0 then .throw .badFormat
        else
          let r := strtolAt fmt (p + 1)
          .ok (.cont { spec with precision := longToInt r.1 } (r.2 - 1))
    else if c = 38 then                                 -- '&'
      match rd fmt (p + 1) with
      | none => .oob
      | some c1 =>
        if c1 = 0 then .throw .badFormat
        else
          let r := strtolAt fmt (p + 1)
          .ok (.cont { spec with argIndex := longToInt r.1 } (r.2 - 1))
    else .throw .badFormat                              -- "Unexpected character in format string"

/-- `parse_format()` entered with `m_format_str = pos` (pointing at the '{'); returns the spec
    and the new `m_format_str` -/
def parseLoop (fmt : List Nat) (pos : Nat) (spec : FormatSpec) : Outcome (FormatSpec × Nat) :=
  match parseStep fmt pos spec with
  | .ok (.done s np) => .ok (s, np)
  | .ok (.cont s np) =>
      if _h : pos < np ∧ np ≤ fmt.length then parseLoop fmt np s else .stuck
  | .throw e => .throw e
  | .assertFail w => .assertFail w
  | .ub w => .ub w
  | .oob => .oob
  | .stuck => .stuck
termination_by fmt.length + 1 - pos
decreasing_by omega

def parseFormat (fmt : List Nat) (pos : Nat) : Outcome (FormatSpec × Nat) :=
  match rd fmt pos with
  | none => .oob
  | some c =>
    if c ≠ 123 then .assertFail "parse_format() called with no format"
    else parseLoop fmt pos {}

/-! ### fetch_prefix -/

/-- state of the scanner: `m_format_str`, `next`, events emitted so far (reversed) -/
structure FState where
  m : Nat
  next : Nat
  out : List Event
  deriving Repr, DecidableEq

/-- the bytes `[a, b)` of the format string, as passed to `append(m_format_str, next - m_format_str)` -/
def slice (fmt : List Nat) (a b : Nat) : List Nat := (fmt.drop a).take (b - a)

inductive FStep where
  | cont (s : FState)       -- next iteration of `while (*next)`
  | stop (s : FState)       -- loop left (`*next == 0` or `break`)
  deriving Repr, DecidableEq

def fetchStep (fmt : List Nat) (s : FState) : Outcome FStep :=
  match rd fmt s.next with
  | none => .oob
  | some c =>
    if c = 0 then .ok (.stop s)
    else if c = 123 then                                -- '{'
      match rd fmt (s.next + 1) with
      | none => .oob
      | some c1 =>
        if c1 ≠ 123 then .ok (.stop s)                  -- `break`
        else
          -- append(m_format_str, next - m_format_str); m_format_str = ++next; … ++next
          .ok (.cont { m := s.next + 1, next := s.next + 2, out := .append (slice fmt s.m s.next) :: s.out })
    else if c = 125 then                                -- '}'
      match rd fmt (s.next + 1) with
      | none => .oob
      | some c1 =>
        if c1 = 125 then
          .ok (.cont { m := s.next + 1, next := s.next + 2, out := .append (slice fmt s.m s.next) :: s.out })
        else .ok (.cont { s with next := s.next + 1 })
    else .ok (.cont { s with next := s.next + 1 })

def fetchLoop (fmt : List Nat) (s : FState) : Outcome FState :=
  match fetchStep fmt s with
  | .ok (.stop s') => .ok s'
  | .ok (.cont s') =>
      if _h : s.next < s'.next ∧ s'.next ≤ fmt.length then fetchLoop fmt s' else .stuck
  | .throw e => .throw e
  | .assertFail w => .assertFail w
  | .ub w => .ub w
  | .oob => .oob
  | .stuck => .stuck
termination_by fmt.length + 1 - s.next
decreasing_by omega

/-- `fetch_prefix()` entered with `m_format_str = pos`: events appended, new `m_format_str`,
    and the byte it returns (`*m_format_str`) -/
def fetchPrefix (fmt : List Nat) (pos : Nat) : Outcome (List Event × Nat × Nat) :=
  (fetchLoop fmt { m := pos, next := pos, out := [] }).bind fun s =>
    -- `if (next != m_format_str) append(m_format_str, next - m_format_str); m_format_str = next;`
    let out := if s.next ≠ s.m then .append (slice fmt s.m s.next) :: s.out else s.out
    match rd fmt s.next with
    | none => .oob
    | some c => .ok (out.reverse, s.next, c)

/-- `next_format()`: events, new position, and whether a specifier follows -/
def nextFormat (fmt : List Nat) (pos : Nat) : Outcome (List Event × Nat × Bool) :=
  (fetchPrefix fmt pos).bind fun (ev, p, c) =>
    if c = 0 then .ok (ev, p, false)
    else if c = 123 then .ok (ev, p, true)
    else .throw .badFormat                              -- "Error parsing format string"

/-! ### apply_format -/

/-- `formatters[id](spec, data)`: what argument `id` does to the sink under `spec` -/
abbrev Formatters := Nat → FormatSpec → Outcome (List Event)

/-- `size_t formatter_id = (spec.arg_index >= 0) ? spec.arg_index - 1 : index++;`
    returns (formatter_id, new index) -/
def formatterId (spec : FormatSpec) (index : Nat) : Nat × Nat :=
  if spec.argIndex ≥ 0 then (wrap64 (spec.argIndex - 1), index) else (index, index + 1)

/-- the `while (data.next_format())` loop of the variadic `apply_format` -/
def applyLoop (fmt : List Nat) (n : Nat) (fs : Formatters) (pos index : Nat) : Outcome (List Event) :=
  (nextFormat fmt pos).bind fun (ev, p, more) =>
    if !more then .ok ev
    else
      (parseFormat fmt p).bind fun (spec, p') =>
        if (formatterId spec index).1 ≥ n then .throw .outOfRange     -- "Parameter index out of range"
        else
          (fs (formatterId spec index).1 spec).bind fun ev' =>
            if _h : pos < p' ∧ p' ≤ fmt.length then
              (applyLoop fmt n fs p' (formatterId spec index).2).bind fun rest => .ok (ev ++ ev' ++ rest)
            else .stuck
termination_by fmt.length + 1 - pos
decreasing_by omega

/-- `apply_format(data, args…)` for `n` arguments (`n = 0` is the non-template overload, which
    throws as soon as a specifier starts, without parsing it) -/
def applyFormat (fmt : List Nat) (n : Nat) (fs : Formatters) : Outcome (List Event) :=
  if n = 0 then
    (nextFormat fmt 0).bind fun (ev, _, more) => if more then .throw .outOfRange else .ok ev
  else applyLoop fmt n fs 0 0

/-- the events a format call produces; `none` is the null format string
    (`format_writer::format_writer` throws before anything is read) -/
def runEvents (fmt : Option (List Nat)) (n : Nat) (fs : Formatters) : Outcome (List Event) :=
  match fmt with
  | none => .throw .invalidArgument
  | some f => applyFormat f n fs

end StVerif.Fmt
