/-
  Model of include/st_codecs_priv.h and include/st_codecs.h (hex / base64).
  Hand transcription: same loops, same expressions (`&&&`, `|||`, `<<<`, `>>>`),
  same order of checks; tables come from `Generated/CodecTables.lean`, which is
  re-extracted from the source on every run.
-/
import StVerif.Base
import StVerif.Generated.CodecTables

namespace StVerif.Codec
open StVerif StVerif.Generated

/-- `hex_chars[i]`, `b64_chars[i]` (index always in range in the code; out-of-range is `0`,
    and the in-range fact is a theorem, `Props/C14`). -/
def hexChar (i : Nat) : Nat := hexChars.getD i 0
def b64Char (i : Nat) : Nat := b64Chars.getD i 0
/-- `hex_values[b]`, `b64_values[b]` for an `unsigned char` index. -/
def hexVal (b : Nat) : Int := hexValues.getD b (-1)
def b64Val (b : Nat) : Int := b64Values.getD b (-1)

def eqSign : Nat := 61  -- '='

/-! ### encoders -/

/-- `_ST_PRIVATE::hex_encode` -/
def hexEncode : List Nat → List Nat
  | [] => []
  | byte :: rest =>
      hexChar ((byte >>> 4) &&& 0x0F) :: hexChar (byte &&& 0x0F) :: hexEncode rest

/-- `ST::hex_encode(const void*, size_t)` on a non-null pointer -/
def hexEncodeString (bs : List Nat) : Outcome (List Nat) := .ok (hexEncode bs)

/-- `b64_encode_size` -/
def b64EncodeSize (size : Nat) : Nat := ((size + 2) / 3) * 4

/-- `_ST_PRIVATE::b64_encode` : the `while (size > 2)` loop, then the `switch (size)` tail -/
def b64Encode : List Nat → List Nat
  | s0 :: s1 :: s2 :: rest =>
      b64Char (s0 >>> 2)
      :: b64Char (((s0 &&& 0x03) <<< 4) ||| ((s1 &&& 0xF0) >>> 4))
      :: b64Char (((s1 &&& 0x0F) <<< 2) ||| ((s2 &&& 0xC0) >>> 6))
      :: b64Char (s2 &&& 0x3F)
      :: b64Encode rest
  | [s0, s1] =>
      [ b64Char (s0 >>> 2)
      , b64Char (((s0 &&& 0x03) <<< 4) ||| ((s1 &&& 0xF0) >>> 4))
      , b64Char ((s1 &&& 0x0F) <<< 2)
      , eqSign ]
  | [s0] =>
      [ b64Char (s0 >>> 2), b64Char ((s0 &&& 0x03) <<< 4), eqSign, eqSign ]
  | [] => []

/-! ### decoders into a caller buffer

The result records the bytes stored at `output[0], output[1], …` in order
(`writes`), the return value, and whether the text was read beyond its
terminating NUL (`oob`).  `chr` is the narrowing store into a `char`. -/

structure DecRes where
  writes : List Nat
  ret : Int
  oob : Bool := false
  deriving Repr, DecidableEq

def chr (x : Nat) : Nat := x % 256

/-- loop of `_ST_PRIVATE::hex_decode`: `n` = remaining iterations (`endp - outp`) -/
def hexDecodeLoop : Nat → List Nat → List Nat → DecRes
  | 0, _, acc => { writes := acc.reverse, ret := acc.length }
  | n+1, a :: b :: rest, acc =>
      let bits0 := hexVal a
      let bits1 := hexVal b
      if bits0 < 0 ∨ bits1 < 0 then { writes := acc.reverse, ret := -1 }
      else hexDecodeLoop n rest (chr (bits0.toNat <<< 4 ||| bits1.toNat) :: acc)
  | _+1, _, acc => { writes := acc.reverse, ret := -1, oob := true }

/-- `_ST_PRIVATE::hex_decode(hex, output, output_size)`; `none` = null output pointer -/
def hexDecodeInto (hex : List Nat) (outputSize : Option Nat) : DecRes :=
  if hex.length % 2 ≠ 0 then { writes := [], ret := -1 }
  else
    let decodeSize := hex.length / 2
    match outputSize with
    | none => { writes := [], ret := decodeSize }
    | some cap =>
      if decodeSize > cap then { writes := [], ret := -1 }
      else hexDecodeLoop decodeSize hex []

/-- `ST::hex_decode(const string&)` (allocating form) -/
def hexDecodeAlloc (hex : List Nat) : Outcome (List Nat) :=
  if hex.length % 2 ≠ 0 then .throw .codecError
  else
    let decodeSize := hex.length / 2
    let r := hexDecodeInto hex (some decodeSize)
    if r.oob then .oob
    else if r.ret < 0 then .throw .codecError
    else if r.ret ≠ decodeSize then .assertFail "Conversion didn't match expected length"
    else .ok r.writes

/-- `b64_decode_size(size, data)` -/
def b64DecodeSize (txt : List Nat) : Int :=
  let size := txt.length
  if size % 4 ≠ 0 then -1
  else
    let result : Int := (size / 4) * 3
    let result := if size > 0 ∧ txt.getD (size - 1) 0 = eqSign then result - 1 else result
    let result := if size > 1 ∧ txt.getD (size - 2) 0 = eqSign then result - 1 else result
    result

/-- main loop `while (outp + 3 < endp)`; `outp` counts bytes written, `endp = decodeSize`.
    Returns `Sum.inl res` when the function returns from inside the loop, otherwise the
    accumulated (reversed) writes and the remaining text for the final group. -/
def b64MainLoop (endp : Nat) : Nat → List Nat → List Nat → Sum DecRes (List Nat × List Nat)
  | outp, c0 :: c1 :: c2 :: c3 :: rest, acc =>
      if outp + 3 < endp then
        let b0 := b64Val c0; let b1 := b64Val c1; let b2 := b64Val c2; let b3 := b64Val c3
        if b0 < 0 ∨ b1 < 0 ∨ b2 < 0 ∨ b3 < 0 then .inl { writes := acc.reverse, ret := -1 }
        else
          let n0 := b0.toNat; let n1 := b1.toNat; let n2 := b2.toNat; let n3 := b3.toNat
          let o0 := chr ((n0 <<< 2) ||| ((n1 >>> 4) &&& 0x03))
          let o1 := chr (((n1 <<< 4) &&& 0xF0) ||| ((n2 >>> 2) &&& 0x0F))
          let o2 := chr (((n2 <<< 6) &&& 0xC0) ||| (n3 &&& 0x3F))
          b64MainLoop endp (outp + 3) rest (o2 :: o1 :: o0 :: acc)
      else .inr (acc, c0 :: c1 :: c2 :: c3 :: rest)
  | outp, txt, acc =>
      if outp + 3 < endp then .inl { writes := acc.reverse, ret := -1, oob := true }
      else .inr (acc, txt)

/-- the "final chars treated specially" part -/
def b64Final (acc : List Nat) (txt : List Nat) : DecRes :=
  match txt with
  | c0 :: c1 :: c2 :: c3 :: _ =>
      let b0 := b64Val c0; let b1 := b64Val c1; let b2 := b64Val c2; let b3 := b64Val c3
      if b0 < 0 ∨ b1 < 0 then { writes := acc.reverse, ret := -1 }
      else
        let n0 := b0.toNat; let n1 := b1.toNat; let n2 := b2.toNat; let n3 := b3.toNat
        let acc := chr ((n0 <<< 2) ||| ((n1 >>> 4) &&& 0x03)) :: acc
        if c2 ≠ eqSign ∧ b2 < 0 then { writes := acc.reverse, ret := -1 }
        else
          let acc := if c2 ≠ eqSign then chr (((n1 <<< 4) &&& 0xF0) ||| ((n2 >>> 2) &&& 0x0F)) :: acc else acc
          if c3 ≠ eqSign ∧ (b2 < 0 ∨ b3 < 0) then { writes := acc.reverse, ret := -1 }
          else
            let acc := if c3 ≠ eqSign then chr (((n2 <<< 6) &&& 0xC0) ||| (n3 &&& 0x3F)) :: acc else acc
            { writes := acc.reverse, ret := acc.length }
  | _ => { writes := acc.reverse, ret := -1, oob := true }

/-- `_ST_PRIVATE::b64_decode(base64, output, output_size)` -/
def b64DecodeInto (txt : List Nat) (outputSize : Option Nat) : DecRes :=
  let decodeSize := b64DecodeSize txt
  match outputSize with
  | none => { writes := [], ret := decodeSize }
  | some cap =>
    if decodeSize < 0 ∨ decodeSize.toNat > cap then { writes := [], ret := -1 }
    else if decodeSize = 0 then { writes := [], ret := 0 }
    else
      match b64MainLoop decodeSize.toNat 0 txt [] with
      | .inl r => r
      | .inr (acc, rest) => b64Final acc rest

/-- `ST::base64_decode(const string&)` (allocating form) -/
def b64DecodeAlloc (txt : List Nat) : Outcome (List Nat) :=
  let decodeSize := b64DecodeSize txt
  if decodeSize < 0 then .throw .codecError
  else
    let r := b64DecodeInto txt (some decodeSize.toNat)
    if r.oob then .oob
    else if r.ret < 0 then .throw .codecError
    else if r.ret ≠ decodeSize then .assertFail "Conversion didn't match expected length"
    else .ok r.writes

end StVerif.Codec
