/-
  Object / heap machine for `ST::buffer<char_T>` (include/st_charbuffer.h).

  A pool holds objects (`m_chars`, `m_size`, `m_data[local_length]`) and a heap of blocks;
  `m_chars` is a pointer: into some object's in-object array (`loc o`) or to a heap block
  (`heap k`).  Every member function is a do-block with the C++ statements in source order,
  so aliasing, double free, free of a non-heap pointer, use after free, leaks and the state
  left behind by a throwing `new` are all expressible (they are outcomes, not assumptions).
  `L` is `local_length` (16 for char/char16_t, 12 for wchar_t/char32_t here); the theorems
  hold for every `L > 0`.
-/
import StVerif.Base

namespace StVerif.Pool
open StVerif

inductive Ptr where
  | loc (o : Nat)      -- &object(o).m_data[0]
  | heap (k : Nat)     -- start of heap block k
  deriving DecidableEq, Repr, Inhabited

structure Buf where
  chars : Ptr
  size : Nat
  data : List Nat
  deriving DecidableEq, Repr, Inhabited

inductive Fault where
  | badFree        -- delete[] of a pointer that is not the start of a live heap block
  | doubleFree     -- delete[] of an already released block
  | useAfterFree   -- access through a pointer to a released block
  | oob            -- access outside a block / array
  | deadObject     -- member call on an object that is not alive (harness error, never generated)
  deriving DecidableEq, Repr, Inhabited

structure Pool where
  L : Nat
  objs : Nat → Option Buf
  heap : Nat → Option (List Nat)
  next : Nat                      -- blocks `≥ next` have never been allocated
  allocs : Nat := 0               -- allocations performed so far (fault schedule position)
  failAt : Option Nat := none     -- the allocation with this ordinal (1-based) throws `bad_alloc`

inductive Res (α : Type) where
  | ok (a : α) (p : Pool)
  | fault (f : Fault) (p : Pool)
  | throw (e : Exc) (p : Pool)

abbrev M (α : Type) := Pool → Res α

instance : Monad M where
  pure a := fun p => .ok a p
  bind x f := fun p => match x p with
    | .ok a p' => f a p'
    | .fault e p' => .fault e p'
    | .throw e p' => .throw e p'

def Pool.init (L : Nat) : Pool := { L := L, objs := fun _ => none, heap := fun _ => none, next := 0 }

def getP : M Pool := fun p => .ok p p
def fault {α : Type} (f : Fault) : M α := fun p => .fault f p
def throwE {α : Type} (e : Exc) : M α := fun p => .throw e p

def getObj (o : Nat) : M Buf := fun p =>
  match p.objs o with
  | some b => .ok b p
  | none => .fault .deadObject p

def setObj (o : Nat) (b : Buf) : M Unit := fun p =>
  .ok () { p with objs := fun x => if x = o then some b else p.objs x }

def dropObj (o : Nat) : M Unit := fun p =>
  .ok () { p with objs := fun x => if x = o then none else p.objs x }

/-- `new char_T[n]` (contents unspecified: modelled as `n` copies of the marker 0xCD) -/
def newBlock (n : Nat) : M Ptr := fun p =>
  let ord := p.allocs + 1
  if p.failAt = some ord then .throw .badAlloc { p with allocs := ord }
  else
    let k := p.next
    .ok (.heap k) { p with heap := (fun x => if x = k then some (List.replicate n 0xCD) else p.heap x),
                           next := k + 1, allocs := ord }

/-- `delete[] ptr` -/
def deleteBlock (ptr : Ptr) : M Unit := fun p =>
  match ptr with
  | .loc _ => .fault .badFree p
  | .heap k =>
    match p.heap k with
    | some _ => .ok () { p with heap := fun x => if x = k then none else p.heap x }
    | none => if k < p.next then .fault .doubleFree p else .fault .badFree p

/-- read `n` units starting at `ptr` -/
def readUnits (ptr : Ptr) (n : Nat) : M (List Nat) := fun p =>
  match ptr with
  | .loc o =>
    match p.objs o with
    | some b => if n ≤ b.data.length then .ok (b.data.take n) p else .fault .oob p
    | none => .fault .useAfterFree p
  | .heap k =>
    match p.heap k with
    | some blk => if n ≤ blk.length then .ok (blk.take n) p else .fault .oob p
    | none => .fault .useAfterFree p

def overwrite (blk : List Nat) (at_ : Nat) (us : List Nat) : List Nat :=
  blk.take at_ ++ us ++ blk.drop (at_ + us.length)

/-- store `us` at `ptr + at_` -/
def writeUnits (ptr : Ptr) (at_ : Nat) (us : List Nat) : M Unit := fun p =>
  match ptr with
  | .loc o =>
    match p.objs o with
    | some b =>
      if at_ + us.length ≤ b.data.length then
        .ok () { p with objs := fun x => if x = o then some { b with data := overwrite b.data at_ us } else p.objs x }
      else .fault .oob p
    | none => .fault .useAfterFree p
  | .heap k =>
    match p.heap k with
    | some blk =>
      if at_ + us.length ≤ blk.length then
        .ok () { p with heap := fun x => if x = k then some (overwrite blk at_ us) else p.heap x }
      else .fault .oob p
    | none => .fault .useAfterFree p

def zeros (n : Nat) : List Nat := List.replicate n 0

/-! ### `ST::buffer<char_T>` members (statements in source order) -/

/-- `is_reffed()` -/
def Buf.isReffed (L : Nat) (b : Buf) : Bool := decide (b.size ≥ L)

/-- `buffer()` -/
def ctorDefault (o : Nat) : M Unit := do
  let p ← getP
  setObj o { chars := .loc o, size := 0, data := zeros p.L }

/-- `buffer(const char_T *data, size_t size)` with the source units given by value -/
def ctorUnits (o : Nat) (us : List Nat) : M Unit := do
  let p ← getP
  let n := us.length
  -- m_size(size), m_data()
  -- m_chars = is_reffed() ? new char_T[m_size + 1] : m_data;   (a throwing `new` leaves no object)
  let chars ← if n ≥ p.L then newBlock (n + 1) else pure (.loc o)
  setObj o { chars := chars, size := n, data := zeros p.L }
  writeUnits chars 0 us             -- traits_t::move(m_chars, data, m_size)
  writeUnits chars n [0]            -- m_chars[m_size] = 0

/-- `buffer(const buffer &copy)` -/
def ctorCopy (o src : Nat) : M Unit := do
  let p ← getP
  let c ← getObj src
  if c.isReffed p.L then
    let chars ← newBlock (c.size + 1)
    let us ← readUnits c.chars c.size
    setObj o { chars := chars, size := 0, data := zeros p.L }   -- (m_data is indeterminate; never read while long)
    writeUnits chars 0 us
    writeUnits chars c.size [0]
    let b ← getObj o
    setObj o { b with size := c.size }
  else
    setObj o { chars := .loc o, size := c.size, data := c.data }

/-- `buffer(buffer &&move)` — as repaired: the source is left empty, pointing at its own array -/
def ctorMove (o src : Nat) : M Unit := do
  let p ← getP
  let mv ← getObj src
  -- m_size(move.m_size); m_chars = is_reffed() ? move.m_chars : m_data; copy(m_data, move.m_data)
  let chars := if mv.size ≥ p.L then mv.chars else .loc o
  setObj o { chars := chars, size := mv.size, data := mv.data }
  -- move.m_chars = move.m_data; move.m_size = 0; move.m_data[0] = 0
  setObj src { chars := .loc src, size := 0, data := overwrite mv.data 0 [0] }

/-- `~buffer()` -/
def dtor (o : Nat) : M Unit := do
  let p ← getP
  let b ← getObj o
  if b.isReffed p.L then deleteBlock b.chars
  dropObj o

/-- `clear()` -/
def clear (o : Nat) : M Unit := do
  let p ← getP
  let b ← getObj o
  if b.isReffed p.L then deleteBlock b.chars
  setObj o { chars := .loc o, size := 0, data := zeros p.L }

/-- `operator=(const buffer &copy)` — as repaired: reset to the empty in-object state before `new` -/
def assignCopy (o src : Nat) : M Unit := do
  if o = src then return ()
  let p ← getP
  let b ← getObj o
  if b.isReffed p.L then
    deleteBlock b.chars
    setObj o { chars := .loc o, size := 0, data := overwrite b.data 0 [0] }
  let c ← getObj src
  if c.isReffed p.L then
    let chars ← newBlock (c.size + 1)
    let us ← readUnits c.chars c.size
    writeUnits chars 0 us
    writeUnits chars c.size [0]
    let b ← getObj o
    setObj o { b with chars := chars, size := c.size }
  else
    setObj o { chars := .loc o, size := c.size, data := c.data }

/-- `operator=(buffer &&move)` — as repaired: the in-object arrays are swapped too and both sides
    are re-pointed at their own array when short -/
def assignMove (o src : Nat) : M Unit := do
  let p ← getP
  let a ← getObj o
  let b ← getObj src
  -- std::swap(m_chars, move.m_chars); std::swap(m_size, move.m_size); std::swap_ranges(m_data, …, move.m_data)
  let a' : Buf := { chars := b.chars, size := b.size, data := b.data }
  let b' : Buf := { chars := a.chars, size := a.size, data := a.data }
  -- if (!is_reffed()) m_chars = m_data;  if (!move.is_reffed()) move.m_chars = move.m_data;
  let a'' := if a'.isReffed p.L then a' else { a' with chars := .loc o }
  let b'' := if b'.isReffed p.L then b' else { b' with chars := .loc src }
  setObj src b''
  setObj o a''

/-- `allocate(size)` — as repaired: the object is the empty in-object buffer while `new` runs -/
def allocate (o : Nat) (n : Nat) : M Unit := do
  let p ← getP
  let b ← getObj o
  if b.isReffed p.L then
    deleteBlock b.chars
    setObj o { chars := .loc o, size := 0, data := overwrite b.data 0 [0] }
  else
    setObj o { chars := .loc o, size := 0, data := zeros p.L }
  if n ≥ p.L then
    let chars ← newBlock (n + 1)
    let b ← getObj o
    setObj o { b with chars := chars, size := n }
    writeUnits chars n [0]
  else
    let b ← getObj o
    setObj o { b with size := n }
    writeUnits (.loc o) n [0]

/-- `allocate(size, fill)` -/
def allocateFill (o : Nat) (n fillv : Nat) : M Unit := do
  allocate o n
  let b ← getObj o
  writeUnits b.chars 0 (List.replicate n fillv)

/-- storing units through `data()` (what every `ST::string` producer does after `allocate`) -/
def writeData (o : Nat) (at_ : Nat) (us : List Nat) : M Unit := do
  let b ← getObj o
  if at_ + us.length ≤ b.size then writeUnits b.chars at_ us else fault .oob

/-! ### observation -/

structure Obs where
  size : Nat
  units : List Nat        -- data()[0 .. size)
  terminator : Nat        -- data()[size]
  ownStorage : Bool       -- data() points into this very object
  block : Option Nat      -- heap block number otherwise
  deriving DecidableEq, Repr

def observe (o : Nat) : M Obs := do
  let b ← getObj o
  let us ← readUnits b.chars (b.size + 1)
  pure { size := b.size, units := us.take b.size, terminator := us.getD b.size 0xEE,
         ownStorage := decide (b.chars = .loc o), block := match b.chars with | .heap k => some k | _ => none }

/-! ### operations as data (histories) -/

inductive Op where
  | ctorDefault (o : Nat)
  | ctorUnits (o : Nat) (us : List Nat)
  | ctorCopy (o src : Nat)
  | ctorMove (o src : Nat)
  | dtor (o : Nat)
  | clear (o : Nat)
  | assignCopy (o src : Nat)
  | assignMove (o src : Nat)
  | allocate (o n : Nat)
  | allocateFill (o n v : Nat)
  | writeData (o at_ : Nat) (us : List Nat)
  deriving Repr, DecidableEq

def Op.run : Op → M Unit
  | .ctorDefault o => Pool.ctorDefault o
  | .ctorUnits o us => Pool.ctorUnits o us
  | .ctorCopy o s => Pool.ctorCopy o s
  | .ctorMove o s => Pool.ctorMove o s
  | .dtor o => Pool.dtor o
  | .clear o => Pool.clear o
  | .assignCopy o s => Pool.assignCopy o s
  | .assignMove o s => Pool.assignMove o s
  | .allocate o n => Pool.allocate o n
  | .allocateFill o n v => Pool.allocateFill o n v
  | .writeData o a us => Pool.writeData o a us

/-! ### the two members as they were in the pinned tree (defect #16, C19)

  Kept for the record: `Props/C19.lean` proves on concrete witnesses that these versions are *not*
  safe under allocation failure (`delete[]` of the in-object array, `data()` into released storage);
  `allocate` and `assignCopy` above mirror the repaired code. -/

/-- `operator=(const buffer &copy)` before the repair: frees, zeroes the size, then `new` —
    `m_chars` keeps pointing at the released block while `new` runs -/
def assignCopyAsFound (o src : Nat) : M Unit := do
  if o = src then return ()
  let p ← getP
  let b ← getObj o
  if b.isReffed p.L then
    deleteBlock b.chars
    setObj o { b with size := 0 }
  let c ← getObj src
  if c.isReffed p.L then
    let chars ← newBlock (c.size + 1)
    let us ← readUnits c.chars c.size
    let b ← getObj o
    setObj o { b with chars := chars }
    writeUnits chars 0 us
    writeUnits chars c.size [0]
  else
    let b ← getObj o
    setObj o { chars := .loc o, size := b.size, data := c.data }
  let b ← getObj o
  setObj o { b with size := c.size }

/-- `allocate(size)` before the repair: frees / clears, **stores the new size**, then `new` -/
def allocateAsFound (o : Nat) (n : Nat) : M Unit := do
  let p ← getP
  let b ← getObj o
  if b.isReffed p.L then deleteBlock b.chars
  else setObj o { b with data := zeros p.L }
  let b ← getObj o
  setObj o { b with size := n }
  if n ≥ p.L then
    let chars ← newBlock (n + 1)
    let b ← getObj o
    setObj o { b with chars := chars }
    writeUnits chars n [0]
  else
    let b ← getObj o
    setObj o { b with chars := .loc o }
    writeUnits (.loc o) n [0]

/-- the operations with the two members as found in the pinned tree -/
def Op.runAsFound : Op → M Unit
  | .assignCopy o s => Pool.assignCopyAsFound o s
  | .allocate o n => Pool.allocateAsFound o n
  | .allocateFill o n v => do
      Pool.allocateAsFound o n
      let b ← getObj o
      writeUnits b.chars 0 (List.replicate n v)
  | op => op.run

end StVerif.Pool
