/-
  `ST::string` operations on top of the buffer machine (`Model/Pool.lean`).

  An `ST::string` is exactly one `ST::char_buffer` held by value (include/st_string.h:89-90), so a
  string with id `o` *is* the pool object `o`.  Every public operation is a do-block over the
  buffer members, with the temporaries the C++ creates (ids `tmpA` … `tmpD`, never used by
  histories) and with unwinding: a temporary that was constructed is destroyed when an exception
  passes through its scope (`withTemp`).

  What a const operation *computes* (the bytes of a substring, a replacement, a transcoding …)
  is the business of C06–C14; here the computed value is a parameter (`val`), and what is
  modelled is where it is stored and what else is touched: the subject of C04 (value semantics),
  C18 (failed operations) and C19 (allocation failure).
-/
import StVerif.Model.Pool
import StVerif.Model.Utf

namespace StVerif.StrPool
open StVerif StVerif.Pool

def tmpA : Nat := 100
def tmpB : Nat := 101
def tmpC : Nat := 102
def tmpD : Nat := 103

/-- run `body` with temporary `t` alive; destroy `t` afterwards — also when `body` throws -/
def withTemp {α : Type} (t : Nat) (body : M α) : M α := fun p =>
  match body p with
  | .ok a p' => (do dtor t; pure a) p'
  | .throw e p' =>
    match dtor t p' with
    | .ok _ p'' => .throw e p''
    | .fault f p'' => .fault f p''
    | .throw _ p'' => .throw e p''
  | .fault f p' => .fault f p'

/-- `_ST_PRIVATE::raise_conversion_error(validate_utf8(data, size))` on the contents of object `b` -/
def validateObj (b : Nat) : M Unit := do
  let o ← getObj b
  let us ← readUnits o.chars o.size
  if Utf.validateUtf8 us ≠ 0 then throwE .unicodeError

/-- a constructor body running after the member `m_buffer` was default-constructed: a body that
    throws leaves no object (the member is destroyed during unwinding) -/
def ctorThen (o : Nat) (body : M Unit) : M Unit := do
  ctorDefault o
  fun p => match body p with
    | .ok a p' => .ok a p'
    | .throw e p' => (match dtor o p' with | .ok _ p'' => .throw e p'' | .fault f p'' => .fault f p'' | .throw _ p'' => .throw e p'')
    | .fault f p' => .fault f p'

/-- a fresh result built as `char_buffer r; r.allocate(n); copy(...)` (substr, operator+, replace,
    case mapping, conversions, codecs) in object `d`.  `r` is a local of the producing function: when
    `allocate` throws it is destroyed during unwinding (and a result object never comes to exist), so
    after `bad_alloc` there is no object `d` — the same shape as a constructor body (`ctorThen`). -/
def fresh (d : Nat) (val : List Nat) : M Unit :=
  ctorThen d (do allocate d val.length; writeData d 0 val)

/-- `cleanup_utf8_buffer(init)`: a new buffer (in `t`) holding the repaired text of object `b` -/
def cleanupInto (t b : Nat) : M Unit := do
  let o ← getObj b
  let us ← readUnits o.chars o.size
  fresh t (Utf.cleanupUtf8 us)

/-- `ST::string::set(char_buffer &&init, validation)` with `init` = object `b` -/
def setBufMove (o b : Nat) (m : Mode) : M Unit :=
  match m with
  | .checkValidity => do validateObj b; assignMove o b
  | .substituteInvalid => do cleanupInto tmpC b; withTemp tmpC (assignMove o tmpC)
  | .assumeValid => assignMove o b

/-- `ST::string::set(const char_buffer &init, validation)` -/
def setBufCopy (o b : Nat) (m : Mode) : M Unit :=
  match m with
  | .checkValidity => do validateObj b; assignCopy o b
  | .substituteInvalid => do cleanupInto tmpC b; withTemp tmpC (assignMove o tmpC)
  | .assumeValid => assignCopy o b

/-- `_set_utf8(utf8, size, validation)` for non-null `utf8`: `set(char_buffer(utf8, size), validation)` -/
def setUtf8 (o : Nat) (us : List Nat) (m : Mode) : M Unit := do
  ctorUnits tmpA us
  withTemp tmpA (setBufMove o tmpA m)

/-- `ST::string(const char *, size, validation)` -/
def ctorText (o : Nat) (us : List Nat) (m : Mode) : M Unit := ctorThen o (setUtf8 o us m)

/-- `ST::string(char_buffer &&init, validation)` / `ST::string(const char_buffer &init, validation)` -/
def ctorBufMove (o b : Nat) (m : Mode) : M Unit := ctorThen o (setBufMove o b m)
def ctorBufCopy (o b : Nat) (m : Mode) : M Unit := ctorThen o (setBufCopy o b m)

/-- `m_buffer = <conversion result>` where the conversion produced `val` in a temporary buffer
    (`set(const utf16_buffer&)`, `set(const wchar_t*)`, constructors from UTF-16/32 …); a
    conversion that throws does so before anything is touched (`conv = throw`). -/
def setConverted (o : Nat) (conv : Outcome (List Nat)) : M Unit :=
  match conv with
  | .ok val => do fresh tmpA val; withTemp tmpA (assignMove o tmpA)
  | .throw e => throwE e
  | _ => fault .oob       -- assertion / UB in a conversion: excluded by C03, reported as a fault if it ever appears

/-- `o = ST::string(text in another encoding)` : a temporary string, then string move assignment -/
def assignConverted (o : Nat) (conv : Outcome (List Nat)) : M Unit := do
  ctorDefault tmpB
  withTemp tmpB (do setConverted tmpB conv; assignMove o tmpB)

/-- `operator+(const string &left, const string &right)` into the new object `d` -/
def concatInto (d l r : Nat) : M Unit := do
  let a ← getObj l
  let b ← getObj r
  let la ← readUnits a.chars a.size
  let lb ← readUnits b.chars b.size
  fresh tmpA (la ++ lb)                       -- ST::char_buffer cat; cat.allocate(..); copy; copy
  withTemp tmpA (ctorMove d tmpA)             -- return from_validated(std::move(cat))

/-- `o += s`  =  `set(*this + other)` -/
def appendStr (o s : Nat) : M Unit := do
  concatInto tmpB o s
  withTemp tmpB (assignMove o tmpB)

/-- `o += cstr` = `set(*this + cstr)`; `operator+(left, const char*)` = `left + string::from_utf8(right)`
    (default validation = `dflt`) -/
def appendText (o : Nat) (us : List Nat) (dflt : Mode) : M Unit := do
  ctorText tmpD us dflt
  withTemp tmpD (do concatInto tmpB o tmpD; withTemp tmpB (assignMove o tmpB))

/-- `operator+(const string &left, char32_t right)` into `d`: allocate `size + utf8_measure(ch)`,
    copy, `write_utf8` — which fails above U+10FFFF after the allocation -/
def concatCharInto (d l : Nat) (ch : Nat) : M Unit := do
  let a ← getObj l
  let la ← readUnits a.chars a.size
  ctorDefault tmpA
  withTemp tmpA (do
    allocate tmpA (la.length + Utf.utf8Measure ch)
    writeData tmpA 0 la
    match Utf.writeUtf8 ch with
    | some bytes => do writeData tmpA la.length bytes; ctorMove d tmpA
    | none => throwE .unicodeError)

/-- `o += ch` = `set(*this + ch)` -/
def appendChar (o : Nat) (ch : Nat) : M Unit := do
  concatCharInto tmpB o ch
  withTemp tmpB (assignMove o tmpB)

/-- results of a const operation: each `(d, v)` is a new object `d` holding the computed value `v` -/
def deriveAll : List (Nat × List Nat) → M Unit
  | [] => pure ()
  | (d, v) :: rest => do fresh d v; deriveAll rest

/-- string-level operations as data -/
inductive SOp where
  | ctorText (o : Nat) (us : List Nat) (m : Mode)       -- N
  | ctorDefault (o : Nat)                                 -- D
  | ctorCopy (o s : Nat) | ctorMove (o s : Nat)           -- C, M
  | dtor (o : Nat)                                        -- X
  | assignCopy (o s : Nat) | assignMove (o s : Nat)       -- c, m
  | clear (o : Nat)                                       -- R
  | appendStr (o s : Nat)                                 -- P
  | appendText (o : Nat) (us : List Nat) (dflt : Mode)    -- p (bytes of s up to its first NUL)
  | appendChar (o ch : Nat)                               -- a, e
  | setText (o : Nat) (us : List Nat) (m : Mode)          -- S
  | setConv (o : Nat) (conv : Outcome (List Nat))         -- T
  | assignConv (o : Nat) (conv : Outcome (List Nat))      -- E
  | bufCtor (us : List Nat)                               -- U8
  | setBufMove (o : Nat) (m : Mode) | setBufCopy (o : Nat) (m : Mode)   -- b, B (and h, H: operator= with the default mode)
  | ctorBufMove (o : Nat) (m : Mode) | ctorBufCopy (o : Nat) (m : Mode) -- G, g
  | derive (ds : List (Nat × List Nat))                   -- K, V: new objects holding computed values
  | deriveThrow (e : Exc)                                 -- K, V whose computation throws: nothing is created
  | query                                                 -- Q
  deriving Repr

def bufSlot : Nat := 8

def SOp.run : SOp → M Unit
  | .ctorText o us m => StrPool.ctorText o us m
  | .ctorDefault o => Pool.ctorDefault o
  | .ctorCopy o s => Pool.ctorCopy o s
  | .ctorMove o s => Pool.ctorMove o s
  | .dtor o => Pool.dtor o
  | .assignCopy o s => Pool.assignCopy o s
  | .assignMove o s => Pool.assignMove o s
  | .clear o => Pool.clear o
  | .appendStr o s => StrPool.appendStr o s
  | .appendText o us d => StrPool.appendText o us d
  | .appendChar o ch => StrPool.appendChar o ch
  | .setText o us m => StrPool.setUtf8 o us m
  | .setConv o c => StrPool.setConverted o c
  | .assignConv o c => StrPool.assignConverted o c
  | .bufCtor us => Pool.ctorUnits bufSlot us
  | .setBufMove o m => StrPool.setBufMove o bufSlot m
  | .setBufCopy o m => StrPool.setBufCopy o bufSlot m
  | .ctorBufMove o m => StrPool.ctorBufMove o bufSlot m
  | .ctorBufCopy o m => StrPool.ctorBufCopy o bufSlot m
  | .derive ds => StrPool.deriveAll ds
  | .deriveThrow e => throwE e
  | .query => pure ()

/-- the objects an operation is allowed to change (everything else must be left bit-identical) -/
def SOp.targets : SOp → List Nat
  | .ctorText o _ _ | .ctorDefault o | .dtor o | .clear o | .appendStr o _ | .appendText o _ _ | .appendChar o _
  | .setText o _ _ | .setConv o _ | .assignConv o _ | .assignCopy o _ | .ctorCopy o _ | .setBufCopy o _ | .ctorBufCopy o _ => [o]
  | .ctorMove o s | .assignMove o s => [o, s]
  | .setBufMove o _ | .ctorBufMove o _ => [o, bufSlot]
  | .bufCtor _ => [bufSlot]
  | .derive ds => ds.map (·.1)
  | .deriveThrow _ | .query => []

end StVerif.StrPool
