/-
  Bit-operation normalisation: the models keep the C++ operators (`&&&`, `|||`, `<<<`, `>>>`);
  proofs rewrite them to `/`, `%`, `*`, `+` with these lemmas and finish with `omega`.
-/
namespace StVerif.Bits

theorem and_shl_mask (x m k : Nat) : x &&& (m <<< k) = ((x >>> k) &&& m) <<< k := by
  apply Nat.eq_of_testBit_eq
  intro i
  simp only [Nat.testBit_and, Nat.testBit_shiftLeft, Nat.testBit_shiftRight]
  by_cases h : k ≤ i
  · simp [h]
  · simp [h]

/-- `x ||| b = x + b` when `x` is a multiple of `2^i` and `b < 2^i` -/
theorem or_mul_eq_add (a b i : Nat) (h : b < 2^i) : (a * 2^i) ||| b = a * 2^i + b := by
  rw [← Nat.shiftLeft_eq, ← Nat.shiftLeft_add_eq_or_of_lt h]

/-- `x &&& ((2^j − 1)·2^k)` picks bits `k … k+j−1` -/
theorem and_mid_mask (x j k : Nat) : x &&& ((2^j - 1) * 2^k) = (x / 2^k % 2^j) * 2^k := by
  rw [← Nat.shiftLeft_eq, and_shl_mask, Nat.and_two_pow_sub_one_eq_mod, Nat.shiftLeft_eq, Nat.shiftRight_eq_div_pow]

theorem and_low (x k : Nat) : x &&& (2^k - 1) = x % 2^k := Nat.and_two_pow_sub_one_eq_mod x k

theorem and_01 (x : Nat) : x &&& 0x01 = x % 2 := and_low x 1
theorem and_03 (x : Nat) : x &&& 0x03 = x % 4 := and_low x 2
theorem and_07 (x : Nat) : x &&& 0x07 = x % 8 := and_low x 3
theorem and_0F (x : Nat) : x &&& 0x0F = x % 16 := and_low x 4
theorem and_1F (x : Nat) : x &&& 0x1F = x % 32 := and_low x 5
theorem and_3F (x : Nat) : x &&& 0x3F = x % 64 := and_low x 6
theorem and_FF (x : Nat) : x &&& 0xFF = x % 256 := and_low x 8
theorem and_3FF (x : Nat) : x &&& 0x3FF = x % 1024 := and_low x 10
theorem and_F0 (x : Nat) : x &&& 0xF0 = (x / 16 % 16) * 16 := and_mid_mask x 4 4
theorem and_C0 (x : Nat) : x &&& 0xC0 = (x / 64 % 4) * 64 := and_mid_mask x 2 6
theorem and_E0 (x : Nat) : x &&& 0xE0 = (x / 32 % 8) * 32 := and_mid_mask x 3 5
theorem and_F8 (x : Nat) : x &&& 0xF8 = (x / 8 % 32) * 8 := and_mid_mask x 5 3
theorem and_80 (x : Nat) : x &&& 0x80 = (x / 128 % 2) * 128 := and_mid_mask x 1 7

end StVerif.Bits
