/-
  Bit-operation normalisation: the models keep the C++ operators (`&&&`, `|||`, `<<<`, `>>>`);
  proofs rewrite them to `/`, `%`, `*`, `+` with these lemmas and finish with `omega`.
-/
namespace StVerif.Bits

theorem and_shl_mask (x m k : Nat) : x &&& (m <<< k) = ((x >>> k) &&& m) <<< k := by
  apply Nat.eq_of_testBit_eq
  intro i
  simp only [Nat.testBit_and, Nat.testBit_shiftLeft, Nat.testBit_shiftRight]
  by_cases h : k ≤ i
  · simp [h]
  · simp [h]

/-- `x ||| b = x + b` when `x` is a multiple of `2^i` and `b < 2^i` -/
theorem or_mul_eq_add (a b i : Nat) (h : b < 2^i) : (a * 2^i) ||| b = a * 2^i + b := by
  rw [← Nat.shiftLeft_eq, ← Nat.shiftLeft_add_eq_or_of_lt h]

/-- `x &&& ((2^j − 1)·2^k)` picks bits `k … k+j−1` -/
theorem and_mid_mask (x j k : Nat) : x &&& ((2^j - 1) * 2^k) = (x / 2^k % 2^j) * 2^k := by
  rw [← Nat.shiftLeft_eq, and_shl_mask, Nat.and_two_pow_sub_one_eq_mod, Nat.shiftLeft_eq, Nat.shiftRight_eq_div_pow]

theorem and_low (x k : Nat) : x &&& (2^k - 1) = x % 2^k := Nat.and_two_pow_sub_one_eq_mod x k

theorem and_01 (x : Nat) : x &&& 0x01 = x % 2 := and_low x 1
theorem and_03 (x : Nat) : x &&& 0x03 = x % 4 := and_low x 2
theorem and_07 (x : Nat) : x &&& 0x07 = x % 8 := and_low x 3
theorem and_0F (x : Nat) : x &&& 0x0F = x % 16 := and_low x 4
theorem and_1F (x : Nat) : x &&& 0x1F = x % 32 := and_low x 5
theorem and_3F (x : Nat) : x &&& 0x3F = x % 64 := and_low x 6
theorem and_FF (x : Nat) : x &&& 0xFF = x % 256 := and_low x 8
theorem and_3FF (x : Nat) : x &&& 0x3FF = x % 1024 := and_low x 10
theorem and_F0 (x : Nat) : x &&& 0xF0 = (x / 16 % 16) * 16 := and_mid_mask x 4 4
theorem and_C0 (x : Nat) : x &&& 0xC0 = (x / 64 % 4) * 64 := and_mid_mask x 2 6
theorem and_E0 (x : Nat) : x &&& 0xE0 = (x / 32 % 8) * 32 := and_mid_mask x 3 5
theorem and_F8 (x : Nat) : x &&& 0xF8 = (x / 8 % 32) * 8 := and_mid_mask x 5 3
theorem and_80 (x : Nat) : x &&& 0x80 = (x / 128 % 2) * 128 := and_mid_mask x 1 7

end StVerif.Bits

namespace StVerif.Bits

/-- `a ||| b = a + b` when `a` is a multiple of `2^i` and `b < 2^i` -/
theorem or_eq_add_of_dvd (a b i : Nat) (ha : a % 2^i = 0) (hb : b < 2^i) : a ||| b = a + b := by
  have : a = (a / 2^i) * 2^i := by
    have := Nat.div_add_mod a (2^i); rw [ha] at this; rw [Nat.mul_comm]; omega
  rw [this, or_mul_eq_add _ _ i hb]

theorem or_C0 (x : Nat) (h : x < 32) : 0xC0 ||| x = 0xC0 + x := or_eq_add_of_dvd 0xC0 x 5 (by decide) h
theorem or_80 (x : Nat) (h : x < 64) : 0x80 ||| x = 0x80 + x := or_eq_add_of_dvd 0x80 x 6 (by decide) h
theorem or_E0 (x : Nat) (h : x < 16) : 0xE0 ||| x = 0xE0 + x := or_eq_add_of_dvd 0xE0 x 4 (by decide) h
theorem or_F0 (x : Nat) (h : x < 8) : 0xF0 ||| x = 0xF0 + x := or_eq_add_of_dvd 0xF0 x 3 (by decide) h
theorem or_D800 (x : Nat) (h : x < 1024) : 0xD800 ||| x = 0xD800 + x := or_eq_add_of_dvd 0xD800 x 10 (by decide) h
theorem or_DC00 (x : Nat) (h : x < 1024) : 0xDC00 ||| x = 0xDC00 + x := or_eq_add_of_dvd 0xDC00 x 10 (by decide) h

/-- bit 22 of a value below 2^22 is clear -/
theorem and_bit22_of_lt (v : Nat) (h : v < 0x400000) : v &&& 0x400000 = 0 := by
  have := and_mid_mask v 1 22
  simp only [Nat.reducePow, Nat.reduceSub, Nat.one_mul] at this
  rw [this]; omega

end StVerif.Bits
