/-
  Shared vocabulary of the formatting properties (C10, C11): the *public* types of
  include/st_formatter.h (`alignment_t`, `digit_class_t`, `float_class_t`, `format_spec`),
  the argument values a format call may receive, and the model of the one libc routine the
  parser calls (`strtol(…, 10)`), which both the Spec grammar and the code model refer to.
-/
import StVerif.Base
import StVerif.Model.Utf

namespace StVerif.Fmt
open StVerif

inductive Align where
  | dflt | left | right
  deriving DecidableEq, Repr, Inhabited

inductive DigitClass where
  | dflt | dec | hex | hexUpper | oct | bin | chr
  deriving DecidableEq, Repr, Inhabited

inductive FloatClass where
  | dflt | fixed | exp | expUpper
  deriving DecidableEq, Repr, Inhabited

/-- `struct ST::format_spec` with the values of its default constructor -/
structure FormatSpec where
  minimumLength : Int := 0
  precision : Int := -1
  argIndex : Int := -1
  alignment : Align := .dflt
  digitClass : DigitClass := .dflt
  floatClass : FloatClass := .dflt
  pad : Nat := 0
  alwaysSigned : Bool := false
  classPrefix : Bool := false
  numericPad : Bool := false
  deriving DecidableEq, Repr, Inhabited

/-- An argument of a format call, by the overload of `format_type` it selects.
    Integer kinds carry the mathematical value and the width of the C++ type; all narrow string
    kinds (`const char *`, `ST::string`, `std::string`, `std::string_view`) carry their bytes.
    A floating-point argument is its rendering function (what `snprintf` gives for the assembled
    format: sign flag, precision or none, conversion class) — opaque here, see C13. -/
inductive Arg where
  | sint (w : Nat) (v : Int)       -- signed char / short / int / long / long long
  | uint (w : Nat) (v : Nat)       -- unsigned char … unsigned long long
  | char (v : Int)                 -- plain `char` (signed on this platform)
  | wchar (v : Int)                -- `wchar_t` (signed 32-bit on this platform)
  | char8 (v : Nat)
  | char16 (v : Nat)
  | char32 (v : Nat)
  | bool (b : Bool)
  | str (bs : List Nat)
  | nullStr                        -- `const char *` (or wide character pointer) null pointer
  | wide (src : Utf.Enc) (m : Mode) (units : List Nat)
      -- wide text: `const wchar_t* / char16_t* / char32_t*` (the units in front of the first zero unit),
      -- `std::basic_string` / `std::basic_string_view` of those types (all units); wchar_t is the
      -- UTF-32 route on this platform.  `format_type` builds an `ST::string` from it under the
      -- default validation `m` of the build (`ST_DEFAULT_VALIDATION`: `from_utf16 / from_utf32 / from_wchar`
      -- are called without a mode), then formats its UTF-8 bytes
  | float (render : Bool → Option Nat → FloatClass → List Nat)
  deriving Inhabited

/-- wide text: the units fit their C++ type (`char16_t`; `char32_t` / `wchar_t`) and the text is
    below the documented 2^28-unit limit of the conversion functions; vacuous for other arguments -/
def Arg.WideOk : Arg → Prop
  | .wide src _ us => ((src = .utf16 ∧ UnitsLt 65536 us) ∨ (src = .utf32 ∧ UnitsLt (2 ^ 32) us)) ∧ us.length < Generated.hugeBufferSize
  | _ => True

/-- the values of the argument lie in the range of its C++ type -/
def Arg.InRange : Arg → Prop
  | .sint w v => (w = 8 ∨ w = 16 ∨ w = 32 ∨ w = 64) ∧ -(2 ^ (w - 1) : Int) ≤ v ∧ v < (2 ^ (w - 1) : Int)
  | .uint w v => (w = 8 ∨ w = 16 ∨ w = 32 ∨ w = 64) ∧ v < 2 ^ w
  | .char v => -128 ≤ v ∧ v < 128
  | .wchar v => -(2 ^ 31 : Int) ≤ v ∧ v < (2 ^ 31 : Int)
  | .char8 v => v < 256
  | .char16 v => v < 2 ^ 16
  | .char32 v => v < 2 ^ 32
  | .bool _ => True
  | .str bs => bs.length < 2 ^ 31
  | .nullStr => True
  | .wide src m us => (Arg.wide src m us).WideOk
  | .float _ => True

/-- libc's `snprintf` reports a positive size for every rendering of this argument (vacuous for
    non-floating arguments).  This is libc's contract for `%g %f %e %E` with any precision it can
    carry out; it fails only in a region that lies outside the property's domain: a precision of
    about 2^31 makes glibc return a negative value, and every precision ≥ 2^28 would need a result
    beyond the documented 2^28-byte limit of `ST::string` anyway.  Nothing is assumed about the
    *length* of the rendering: 64 bytes and more are rendered again into a heap buffer. -/
def Arg.LibcRenders : Arg → Prop
  | .float r => ∀ plus prec cls, 0 < (r plus prec cls).length
  | _ => True

/-- the argument kinds the character class `c` applies to -/
def Arg.IsIntegral : Arg → Bool
  | .sint _ _ | .uint _ _ | .char _ | .wchar _ | .char8 _ | .char16 _ | .char32 _ => true
  | _ => false

/-! ### `strtol(s, &end, 10)` as glibc implements it in the "C" locale

  Skips `isspace` characters, takes an optional sign, then decimal digits; the value saturates
  at `LONG_MIN`/`LONG_MAX`; with no digit nothing is consumed (`end == s`) and the value is 0.
  The routine stops at the first byte that cannot continue the numeral, so on a NUL-terminated
  string it never looks behind the terminator: it is modelled on the list of bytes in front of
  the NUL.  This definition is validated against the platform libc by the correspondence run,
  not proved. -/

def isSpace (c : Nat) : Bool := c == 32 || (9 ≤ c && c ≤ 13)
def isDigit (c : Nat) : Bool := 48 ≤ c && c ≤ 57

/-- leading decimal digits: (value, how many) -/
def digitsVal : List Nat → Nat → Nat × Nat
  | [], acc => (acc, 0)
  | c :: rest, acc =>
    if isDigit c then
      let r := digitsVal rest (acc * 10 + (c - 48))
      (r.1, r.2 + 1)
    else (acc, 0)

def LONG_MAX : Int := 2 ^ 63 - 1
def LONG_MIN : Int := -(2 ^ 63)

/-- number of leading `isspace` bytes -/
def skipSpace : List Nat → Nat
  | [] => 0
  | c :: rest => if isSpace c then skipSpace rest + 1 else 0

/-- length of an optional sign -/
def signLen : List Nat → Nat
  | 45 :: _ => 1
  | 43 :: _ => 1
  | _ => 0

def isNeg : List Nat → Bool
  | 45 :: _ => true
  | _ => false

/-- saturation of a decimal magnitude at the range of `long` -/
def satLong (neg : Bool) (m : Nat) : Int :=
  if neg then (if (m : Int) > 2 ^ 63 then LONG_MIN else -(m : Int))
  else (if (m : Int) > LONG_MAX then LONG_MAX else (m : Int))

/-- (value, number of bytes consumed) -/
def strtol10 (s : List Nat) : Int × Nat :=
  let ws := skipSpace s
  let s1 := s.drop ws
  let sg := signLen s1
  let r := digitsVal (s1.drop sg) 0
  if r.2 = 0 then (0, 0) else (satLong (isNeg s1) r.1, ws + sg + r.2)

/-- `static_cast<int>(long)` -/
def longToInt (v : Int) : Int := toI32 (wrap64 v)

theorem digitsVal_le (s : List Nat) (acc : Nat) : (digitsVal s acc).2 ≤ s.length := by
  induction s generalizing acc with
  | nil => simp [digitsVal]
  | cons c rest ih =>
    simp only [digitsVal]
    split
    · have := ih (acc * 10 + (c - 48)); simp only [List.length_cons]; omega
    · simp

theorem skipSpace_le (s : List Nat) : skipSpace s ≤ s.length := by
  induction s with
  | nil => simp [skipSpace]
  | cons c rest ih => simp only [skipSpace]; split <;> simp <;> omega

theorem signLen_le (s : List Nat) : signLen s ≤ s.length := by
  unfold signLen; split <;> simp

theorem strtol10_le (s : List Nat) : (strtol10 s).2 ≤ s.length := by
  unfold strtol10
  simp only
  split
  · simp
  · have h1 := skipSpace_le s
    have h2 := signLen_le (s.drop (skipSpace s))
    have h3 := digitsVal_le ((s.drop (skipSpace s)).drop (signLen (s.drop (skipSpace s)))) 0
    simp only [List.length_drop] at h2 h3
    simp only
    omega

end StVerif.Fmt
