/-
  Positional notation for the formatting spec (C11): the digits of a natural number in a radix,
  most significant first, no leading zero, "0" for zero.  (C12 has its own, richer digit spec; this
  small one keeps the C11 files self-contained.)
-/
namespace StVerif.Spec.Render

/-- '0'…'9', then 'a'…/'A'… -/
def digitSym (d : Nat) (upper : Bool) : Nat :=
  if d < 10 then 48 + d else if upper then 55 + d else 87 + d

/-- the numeral of `n` in radix `b` (for `b ≥ 2`) -/
def digits (b : Nat) (upper : Bool) (n : Nat) : List Nat :=
  if _h : n < b ∨ b < 2 then [digitSym n upper]
  else digits b upper (n / b) ++ [digitSym (n % b) upper]
termination_by n
decreasing_by exact Nat.div_lt_self (by omega) (by omega)

/-- value of a numeral (inverse direction, used to state that `digits` is positional notation) -/
def symVal (c : Nat) : Nat := if c < 58 then c - 48 else if c < 91 then c - 55 else c - 87

def ofDigits (b : Nat) (ds : List Nat) : Nat := ds.foldl (fun acc c => acc * b + symVal c) 0

end StVerif.Spec.Render
