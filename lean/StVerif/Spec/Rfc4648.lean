/-
  Declarative meaning of hex and base64 (RFC 4648, standard alphabet), written with
  `/` and `%` on numbers, independently of the code's tables and masks.
-/
import StVerif.Base

namespace StVerif.Spec.Rfc4648

/-- lower-case hexadecimal digit of `n < 16` -/
def hexDigit (n : Nat) : Nat := if n < 10 then 48 + n else 87 + n

/-- two lower-case hexadecimal digits per byte -/
def hexEncode : List Nat → List Nat
  | [] => []
  | b :: rest => hexDigit (b / 16) :: hexDigit (b % 16) :: hexEncode rest

/-- RFC 4648 table 1 -/
def alphabet (i : Nat) : Nat :=
  if i < 26 then 65 + i else if i < 52 then 97 + (i - 26) else if i < 62 then 48 + (i - 52)
  else if i = 62 then 43 else 47

/-- RFC 4648 §4: a 24-bit group is four 6-bit groups; a 16-bit / 8-bit tail is padded with
    zero bits to a multiple of six and completed with `=`. -/
def b64Encode : List Nat → List Nat
  | a :: b :: c :: rest =>
      let n := a * 65536 + b * 256 + c
      alphabet (n / 262144 % 64) :: alphabet (n / 4096 % 64) :: alphabet (n / 64 % 64)
        :: alphabet (n % 64) :: b64Encode rest
  | [a, b] =>
      let n := (a * 256 + b) * 4
      [alphabet (n / 4096 % 64), alphabet (n / 64 % 64), alphabet (n % 64), 61]
  | [a] =>
      let n := a * 16
      [alphabet (n / 64 % 64), alphabet (n % 64), 61, 61]
  | [] => []

def isHexDigit (c : Nat) : Bool :=
  (48 ≤ c && c ≤ 57) || (65 ≤ c && c ≤ 70) || (97 ≤ c && c ≤ 102)

/-- even length, every character a hexadecimal digit of either case -/
def hexValid (txt : List Nat) : Bool := txt.length % 2 == 0 && txt.all isHexDigit

def isB64Char (c : Nat) : Bool :=
  (65 ≤ c && c ≤ 90) || (97 ≤ c && c ≤ 122) || (48 ≤ c && c ≤ 57) || c == 43 || c == 47

/-- number of trailing `=` counted as padding: the last, or the last two, characters -/
def padCount (txt : List Nat) : Nat :=
  let n := txt.length
  if n ≥ 1 ∧ txt.getD (n - 1) 0 = 61 then (if n ≥ 2 ∧ txt.getD (n - 2) 0 = 61 then 2 else 1) else 0

/-- length a multiple of four, every character in the alphabet, `=` only as the last or the
    last two characters -/
def b64Valid (txt : List Nat) : Bool :=
  txt.length % 4 == 0 && (txt.take (txt.length - padCount txt)).all isB64Char

/-- decoded length implied by the input's length and padding -/
def b64DecodedLength (txt : List Nat) : Nat := txt.length / 4 * 3 - padCount txt

/-- Size query on text whose *length* is acceptable but whose characters have not been looked
    at: every `=` among the last two characters counts as one byte less.  On valid text this is
    `b64DecodedLength` (theorem `C15.sizeQuery_eq_decodedLength`). -/
def b64SizeQuery (txt : List Nat) : Nat :=
  let n := txt.length
  n / 4 * 3 - (if n ≥ 1 ∧ txt.getD (n - 1) 0 = 61 then 1 else 0) - (if n ≥ 2 ∧ txt.getD (n - 2) 0 = 61 then 1 else 0)

/-- upper-casing of hexadecimal text -/
def upperHex (c : Nat) : Nat := if 97 ≤ c ∧ c ≤ 102 then c - 32 else c

end StVerif.Spec.Rfc4648
