/-
  Spec for substring search (C07; shared with C08 before_*/after_* and C09 split/replace/tokenize).

  Written over lists with `take`/`drop` only; nothing here follows the shape of the scanning loops.
  "needle occurs in hay at index i" = the window of `needle.length` units of `hay` starting at `i`
  exists and equals the needle, after folding ASCII `A`-`Z` to `a`-`z` on both sides when the search
  is case-insensitive.
-/
import StVerif.Base

namespace StVerif.Search

/-- `ST::case_sensitivity_t` (public API vocabulary, used by Spec and Model alike) -/
inductive CaseMode where
  | sensitive | insensitive
  deriving DecidableEq, Repr, Inhabited

end StVerif.Search

namespace StVerif.Spec.Search
open StVerif.Search (CaseMode)

/-- ASCII case folding: the 26 letters `A`..`Z` (0x41..0x5A) go to `a`..`z`, everything else
    (digits, punctuation, NUL, bytes ≥ 0x80) is itself. -/
def foldAscii (c : Nat) : Nat := if c - 0x41 < 26 ∧ 0x41 ≤ c then c + 0x20 else c

/-- what a search compares: the text itself, or the text with ASCII letters folded -/
def norm : CaseMode → List Nat → List Nat
  | .sensitive, xs => xs
  | .insensitive, xs => xs.map foldAscii

/-- the `n` units of `hay` starting at index `i` (fewer if the text ends earlier) -/
def window (hay : List Nat) (i n : Nat) : List Nat := (hay.drop i).take n

/-- `needle` occurs in `hay` at index `i` (lies entirely inside `hay` and matches unit for unit).
    The empty needle occurs at every `i ≤ hay.length`; `find`/`find_last` exclude it separately. -/
def occursAt (cs : CaseMode) (hay needle : List Nat) (i : Nat) : Prop :=
  i + needle.length ≤ hay.length ∧ norm cs (window hay i needle.length) = norm cs needle

instance (cs : CaseMode) (hay needle : List Nat) (i : Nat) : Decidable (occursAt cs hay needle i) := by
  unfold occursAt; exact inferInstance

/-- `r` is the answer `find(start, needle)` must give: the least index `≥ start` of an occurrence, or
    `-1` when there is none, the needle is empty, or `start` is at or past the end. -/
def IsFind (cs : CaseMode) (hay : List Nat) (start : Nat) (needle : List Nat) (r : Int) : Prop :=
  (∃ i : Nat, r = i ∧ needle ≠ [] ∧ start < hay.length ∧ start ≤ i ∧ occursAt cs hay needle i ∧
      ∀ j, start ≤ j → j < i → ¬ occursAt cs hay needle j)
  ∨ (r = -1 ∧ (needle = [] ∨ hay.length ≤ start ∨ ∀ j, start ≤ j → ¬ occursAt cs hay needle j))

/-- `r` is the answer `find_last(max, needle)` must give: the greatest index of an occurrence lying
    entirely before `max` (`i + needle.length ≤ max`), or `-1` when there is none or the needle is empty. -/
def IsFindLast (cs : CaseMode) (hay : List Nat) (max : Nat) (needle : List Nat) (r : Int) : Prop :=
  (∃ i : Nat, r = i ∧ needle ≠ [] ∧ i + needle.length ≤ max ∧ occursAt cs hay needle i ∧
      ∀ j, i < j → j + needle.length ≤ max → ¬ occursAt cs hay needle j)
  ∨ (r = -1 ∧ (needle = [] ∨ ∀ j, j + needle.length ≤ max → ¬ occursAt cs hay needle j))

/-- bounded search for the least `i` in `[i, i + fuel)` with `p i` (generic; used to evaluate the
    two predicates above in the driver; `Lemmas/Search` proves it returns exactly the least one) -/
def leastFrom (p : Nat → Bool) : (fuel : Nat) → (i : Nat) → Option Nat
  | 0, _ => none
  | fuel + 1, i => if p i then some i else leastFrom p fuel (i + 1)

/-- bounded search for the greatest `i < n` with `p i` -/
def greatestBelow (p : Nat → Bool) : (n : Nat) → Option Nat
  | 0 => none
  | n + 1 => if p n then some n else greatestBelow p n

/-- executable form of `IsFind` (theorems `findRef_isFind`, `isFind_unique`): the value the driver
    judges the implementation's own answer against -/
def findRef (cs : CaseMode) (hay : List Nat) (start : Nat) (needle : List Nat) : Int :=
  if needle = [] ∨ hay.length ≤ start then -1
  else match leastFrom (fun i => decide (occursAt cs hay needle i)) (hay.length + 1 - start) start with
    | some i => (i : Nat)
    | none => -1

/-- executable form of `IsFindLast` (theorems `findLastRef_isFindLast`, `isFindLast_unique`) -/
def findLastRef (cs : CaseMode) (hay : List Nat) (max : Nat) (needle : List Nat) : Int :=
  if needle = [] then -1
  else match greatestBelow (fun i => decide (i + needle.length ≤ max ∧ occursAt cs hay needle i)) (hay.length + 1) with
    | some i => (i : Nat)
    | none => -1

/-- `contains`: some occurrence of a non-empty needle exists -/
def Contains (cs : CaseMode) (hay needle : List Nat) : Prop :=
  needle ≠ [] ∧ ∃ i, occursAt cs hay needle i

/-- `starts_with`: the text begins with `p` (trivially for empty `p`) -/
def StartsWith (cs : CaseMode) (hay p : List Nat) : Prop :=
  p.length ≤ hay.length ∧ norm cs (hay.take p.length) = norm cs p

/-- `ends_with`: the text ends with `p` (trivially for empty `p`) -/
def EndsWith (cs : CaseMode) (hay p : List Nat) : Prop :=
  p.length ≤ hay.length ∧ norm cs (hay.drop (hay.length - p.length)) = norm cs p

instance (cs : CaseMode) (hay p : List Nat) : Decidable (StartsWith cs hay p) := by
  unfold StartsWith; exact inferInstance
instance (cs : CaseMode) (hay p : List Nat) : Decidable (EndsWith cs hay p) := by
  unfold EndsWith; exact inferInstance

/-- what a `const char*` argument denotes: the units before the first NUL -/
def cstr (xs : List Nat) : List Nat := xs.takeWhile (· ≠ 0)

end StVerif.Spec.Search
