/-
  Declarative side of C11: what a format call must produce, written over the *list* of format
  bytes (no reader, no positions, no re-scan), independent of the code's structure.

  * the format string is literal text with `{{`/`}}` reduced, interrupted by fields;
  * a field is `{` items `}`; items are flags, `_` followed by any pad byte, a width numeral
    starting with 1–9, `.` or `&` followed by an optional decimal numeral in `strtol` syntax
    (a `.`/`&` without a numeral reads as 0);
  * fields without `&N` take arguments left to right regardless of `&N` fields; `&N` (N ≥ 1) takes
    the N-th argument;
  * integers: sign, radix prefix (none for zero), digits; zero padding goes between prefix and
    digits and overrides an explicit alignment; otherwise the pad run goes left (default) or right;
  * text and booleans: cut to the precision, pad run on the right (default) or left;
  * character class: UTF-8 of the value, U+FFFD outside 0..10FFFF; padding is a contract violation;
  * a rendering is never truncated: the pad run has `max 0 (width − natural length)` bytes.

  Readings chosen where the property text leaves room are listed in DESIGN.md (C11).
-/
import StVerif.FmtBase
import StVerif.Spec.RenderDigits
import StVerif.Spec.Unicode

namespace StVerif.Spec.Render
open StVerif StVerif.Fmt

/-! ### field grammar -/

/-- a one-character flag -/
def flag (c : Nat) (f : FormatSpec) : Option FormatSpec :=
  if c = 60 then some { f with alignment := .left }                -- '<'
  else if c = 62 then some { f with alignment := .right }          -- '>'
  else if c = 48 then some { f with pad := 48, numericPad := true } -- '0'
  else if c = 35 then some { f with classPrefix := true }          -- '#'
  else if c = 43 then some { f with alwaysSigned := true }         -- '+'
  else if c = 120 then some { f with digitClass := .hex }          -- 'x'
  else if c = 88 then some { f with digitClass := .hexUpper }      -- 'X'
  else if c = 100 then some { f with digitClass := .dec }          -- 'd'
  else if c = 111 then some { f with digitClass := .oct }          -- 'o'
  else if c = 98 then some { f with digitClass := .bin }           -- 'b'
  else if c = 99 then some { f with digitClass := .chr }           -- 'c'
  else if c = 102 then some { f with floatClass := .fixed }        -- 'f'
  else if c = 101 then some { f with floatClass := .exp }          -- 'e'
  else if c = 69 then some { f with floatClass := .expUpper }      -- 'E'
  else none

/-- the items of a field, up to and including the closing brace; `none` = malformed or
    unterminated.  Returns the spec and the text after the field. -/
def parseItems (s : List Nat) (f : FormatSpec) : Option (FormatSpec × List Nat) :=
  match s with
  | [] => none
  | c :: rest =>
    if c = 125 then some (f, rest)
    else if c = 95 then
      match rest with
      | [] => none
      | p :: rest' => parseItems rest' { f with pad := p, numericPad := false }
    else if 49 ≤ c ∧ c ≤ 57 then
      let r := strtol10 (c :: rest)
      parseItems (rest.drop (r.2 - 1)) { f with minimumLength := longToInt r.1 }
    else if c = 46 then
      if rest = [] then none
      else
        let r := strtol10 rest
        parseItems (rest.drop r.2) { f with precision := longToInt r.1 }
    else if c = 38 then
      if rest = [] then none
      else
        let r := strtol10 rest
        parseItems (rest.drop r.2) { f with argIndex := longToInt r.1 }
    else
      match flag c f with
      | some f' => parseItems rest f'
      | none => none
termination_by s.length
decreasing_by
  all_goals simp only [List.length_cons, List.length_drop]
  all_goals omega

theorem parseItems_length (s : List Nat) (f : FormatSpec) (f' : FormatSpec) (r : List Nat)
    (h : parseItems s f = some (f', r)) : r.length < s.length := by
  fun_induction parseItems s f
  all_goals first
    | (simp at h; done)
    | (simp at h; obtain ⟨_, rfl⟩ := h; simp; done)
    | (rename_i ih; have := ih h; simp only [List.length_cons, List.length_drop] at *; omega)

/-! ### literal text -/

/-- the literal text in front of the next field with `{{` and `}}` reduced, and what follows it
    (empty, or a `{` that opens a field) -/
def splitLiteral : List Nat → List Nat × List Nat
  | [] => ([], [])
  | 123 :: 123 :: rest => (123 :: (splitLiteral rest).1, (splitLiteral rest).2)
  | 125 :: 125 :: rest => (125 :: (splitLiteral rest).1, (splitLiteral rest).2)
  | 123 :: rest => ([], 123 :: rest)
  | c :: rest => (c :: (splitLiteral rest).1, (splitLiteral rest).2)

theorem splitLiteral_length (s : List Nat) : (splitLiteral s).2.length ≤ s.length := by
  fun_induction splitLiteral s <;> simp_all <;> omega

/-! ### renderings -/

def padChar (f : FormatSpec) : Nat := if f.pad = 0 then 32 else f.pad

inductive Side where
  | left | right
  deriving DecidableEq, Repr

/-- extend `body` to `width` bytes with `c` on the given side of the *text* (`Side.left` = text
    flush left, pad run after it); never truncates -/
def padTo (width : Int) (side : Side) (c : Nat) (body : List Nat) : List Nat :=
  let run := List.replicate (width - (body.length : Int)).toNat c
  match side with
  | .left => body ++ run
  | .right => run ++ body

def sideOf (f : FormatSpec) (dflt : Side) : Side :=
  match f.alignment with
  | .dflt => dflt
  | .left => .left
  | .right => .right

def radixOf (c : DigitClass) : Nat × Bool :=
  match c with
  | .hex => (16, false) | .hexUpper => (16, true) | .oct => (8, false) | .bin => (2, false) | _ => (10, false)

def signOf (f : FormatSpec) (v : Int) : List Nat :=
  if v < 0 then [45] else if f.alwaysSigned then [43] else []

def prefixOf (f : FormatSpec) (v : Int) : List Nat :=
  if f.classPrefix ∧ v ≠ 0 then
    match f.digitClass with
    | .hex => [48, 120] | .hexUpper => [48, 88] | .bin => [48, 98] | .oct => [48] | _ => []
  else []

/-- an integer value under a spec whose class is not `c` -/
def renderInt (f : FormatSpec) (v : Int) : List Nat :=
  let ds := digits (radixOf f.digitClass).1 (radixOf f.digitClass).2 v.natAbs
  let head := signOf f v ++ prefixOf f v
  if f.numericPad then
    -- zero padding sits between sign/prefix and digits, whatever the alignment says
    head ++ List.replicate (f.minimumLength - ((head ++ ds).length : Int)).toNat (padChar f) ++ ds
  else padTo f.minimumLength (sideOf f .right) (padChar f) (head ++ ds)

/-- text (strings, booleans): cut to the precision, then padded; default side is left -/
def renderText (f : FormatSpec) (text : List Nat) : List Nat :=
  let cut := if f.precision ≥ 0 then text.take f.precision.toNat else text
  padTo f.minimumLength (sideOf f .left) (padChar f) cut

/-- a code point as UTF-8, U+FFFD when it is not in 0..10FFFF -/
def renderChar (v : Int) : List Nat :=
  if 0 ≤ v ∧ v ≤ 0x10FFFF then Unicode.encUtf8 v.toNat else [0xEF, 0xBF, 0xBD]

/-- floating point: libc's rendering, then padded; default side is right -/
def renderFloat (f : FormatSpec) (r : Bool → Option Nat → FloatClass → List Nat) : List Nat :=
  let text := r f.alwaysSigned (if f.precision ≥ 0 then some f.precision.toNat else none) f.floatClass
  padTo f.minimumLength (sideOf f .right) (padChar f) text

/-- the mathematical value of an integer or character argument -/
def intValue : Arg → Option Int
  | .sint _ v => some v
  | .uint _ v => some (v : Int)
  | .char v => some v
  | .wchar v => some v
  | .char8 v => some (v : Int)
  | .char16 v => some (v : Int)
  | .char32 v => some (v : Int)
  | _ => none

def charPaddingContract : String := "Char formatting does not currently support padding"

/-- one field applied to its argument -/
def renderField (f : FormatSpec) (a : Arg) : Outcome (List Nat) :=
  match a with
  | .bool b => .ok (renderText f (if b then [116, 114, 117, 101] else [102, 97, 108, 115, 101]))
  | .str bs => .ok (renderText f bs)
  | .nullStr => .ok []
  | .wide src m us =>
      -- wide text renders as its UTF-8 transcoding (C02's reference transcoder under the default
      -- validation `m`: under check_validity malformed wide text is `unicode_error`), cut and padded like any text
      (Unicode.reference src .utf8 m true us).bind fun bs => .ok (renderText f bs)
  | .float r => .ok (renderFloat f r)
  | .char8 v =>
      -- a UTF-8 code unit: as a character it is copied as it is
      if f.digitClass = .chr then
        (if f.minimumLength ≠ 0 ∨ f.pad ≠ 0 then .assertFail charPaddingContract else .ok [v])
      else .ok (renderInt f v)
  | a =>
    match intValue a with
    | some v =>
      if f.digitClass = .chr then
        (if f.minimumLength ≠ 0 ∨ f.pad ≠ 0 then .assertFail charPaddingContract else .ok (renderChar v))
      else .ok (renderInt f v)
    | none => .ok []

/-- which argument a field takes, and the next sequential position -/
def select (f : FormatSpec) (seq : Nat) (args : List Arg) : Option Arg × Nat :=
  if f.argIndex ≥ 0 then
    (if f.argIndex ≥ 1 then args[(f.argIndex - 1).toNat]? else none, seq)
  else (args[seq]?, seq + 1)

/-! ### the whole call -/

set_option linter.unusedVariables false in
/-- the output of a format call with at least one argument, from sequential position `seq` -/
def renderFrom (s : List Nat) (args : List Arg) (seq : Nat) : Outcome (List Nat) :=
  match hsl : splitLiteral s with
  | (lit, []) => .ok lit
  | (lit, _ :: body) =>
    match hp : parseItems body {} with
    | none => .throw .badFormat
    | some (f, rest) =>
      match select f seq args with
      | (none, _) => .throw .outOfRange
      | (some a, seq') =>
        (renderField f a).bind fun bs =>
          (renderFrom rest args seq').bind fun tail => .ok (lit ++ bs ++ tail)
termination_by s.length
decreasing_by
  have h1 := parseItems_length body {} f rest hp
  have h2 := splitLiteral_length s
  rw [hsl] at h2
  simp only [List.length_cons] at h2
  omega

/-- the output of a format call.  With no argument at all any field is out of range (it is not
    even parsed). -/
def render (fmt : List Nat) (args : List Arg) : Outcome (List Nat) :=
  if args.isEmpty then
    match splitLiteral fmt with
    | (lit, []) => .ok lit
    | (_, _ :: _) => .throw .outOfRange
  else renderFrom fmt args 0

end StVerif.Spec.Render
