/-
  Spec for C08 — what slicing means, written on lists with `take` / `drop` / `dropWhile` and
  "first / last offset at which the separator occurs".  Nothing here follows the code's structure:
  no machine arithmetic, no pointer walks, no search loop.
-/
import StVerif.Base

namespace StVerif.Spec.Slice
open StVerif

/-- the count value that means "to the end" (`ST_AUTO_SIZE`) -/
def autoSize : Nat := 2^64 - 1

/-- `substr(start, count)`: the bytes `[start, start+count)` clipped to the string; a negative start
    counts from the end (clipped at the beginning); a start beyond the end gives the empty string -/
def substr (s : List Nat) (start : Int) (count : Nat) : List Nat :=
  if start > (s.length : Int) then []
  else
    let a : Nat := if 0 ≤ start then start.toNat else ((s.length : Int) + start).toNat
    if count = autoSize then s.drop a else (s.drop a).take count

/-- first `min n size` bytes -/
def left (s : List Nat) (n : Nat) : List Nat := s.take (min n s.length)

/-- last `min n size` bytes -/
def right (s : List Nat) (n : Nat) : List Nat := s.drop (s.length - min n s.length)

/-- the leading bytes that belong to the set are removed, nothing else -/
def trimLeft (s cset : List Nat) : List Nat := s.dropWhile (cset.contains ·)

/-- the trailing bytes that belong to the set are removed, nothing else -/
def trimRight (s cset : List Nat) : List Nat := (s.reverse.dropWhile (cset.contains ·)).reverse

def trim (s cset : List Nat) : List Nat := trimRight (trimLeft s cset) cset

/-- case folding of the insensitive mode: ASCII letters only -/
def foldAscii (c : Nat) : Nat := if 65 ≤ c ∧ c ≤ 90 then c + 32 else c

/-- two bytes are the same character under the case mode (`ci = true`: ASCII-folded) -/
def sameChar (ci : Bool) (a b : Nat) : Bool := a == b || (ci && foldAscii a == foldAscii b)

/-- the (non-empty) separator occurs in `s` at offset `i` -/
def occursAt (ci : Bool) (s sep : List Nat) (i : Nat) : Bool :=
  !sep.isEmpty && decide (i + sep.length ≤ s.length) &&
    (List.range sep.length).all fun j => sameChar ci (s.getD (i + j) 0) (sep.getD j 0)

/-- offset of the first occurrence -/
def firstOcc (ci : Bool) (s sep : List Nat) : Option Nat :=
  (List.range (s.length + 1)).find? (occursAt ci s sep)

/-- offset of the last occurrence -/
def lastOcc (ci : Bool) (s sep : List Nat) : Option Nat :=
  (List.range (s.length + 1)).reverse.find? (occursAt ci s sep)

/-- the separator occurs somewhere -/
def occurs (ci : Bool) (s sep : List Nat) : Bool := (firstOcc ci s sep).isSome

def beforeFirst (ci : Bool) (s sep : List Nat) : List Nat :=
  match firstOcc ci s sep with
  | some i => s.take i
  | none => s

def afterFirst (ci : Bool) (s sep : List Nat) : List Nat :=
  match firstOcc ci s sep with
  | some i => s.drop (i + sep.length)
  | none => []

def beforeLast (ci : Bool) (s sep : List Nat) : List Nat :=
  match lastOcc ci s sep with
  | some i => s.take i
  | none => []

def afterLast (ci : Bool) (s sep : List Nat) : List Nat :=
  match lastOcc ci s sep with
  | some i => s.drop (i + sep.length)
  | none => s

/-- the bytes a `const char*` argument denotes: those before the first NUL -/
def cString (p : List Nat) : List Nat := p.takeWhile (· ≠ 0)

/-- `ST_WHITESPACE` = `" \t\r\n"` -/
def whitespace : List Nat := [32, 9, 13, 10]

end StVerif.Spec.Slice
