/-
  Spec for C08 — what slicing means, written on lists with `take` / `drop` / `dropWhile` and
  "first / last offset at which the separator occurs".  Nothing here follows the code's structure:
  no machine arithmetic, no pointer walks, no search loop.
-/
import StVerif.Base
import StVerif.Spec.Search

namespace StVerif.Spec.Slice
open StVerif
open StVerif.Search (CaseMode)
open StVerif.Spec.Search (occursAt leastFrom greatestBelow)

/-- the count value that means "to the end" (`ST_AUTO_SIZE`) -/
def autoSize : Nat := 2^64 - 1

/-- `substr(start, count)`: the bytes `[start, start+count)` clipped to the string; a negative start
    counts from the end (clipped at the beginning); a start beyond the end gives the empty string -/
def substr (s : List Nat) (start : Int) (count : Nat) : List Nat :=
  if start > (s.length : Int) then []
  else
    let a : Nat := if 0 ≤ start then start.toNat else ((s.length : Int) + start).toNat
    if count = autoSize then s.drop a else (s.drop a).take count

/-- first `min n size` bytes -/
def left (s : List Nat) (n : Nat) : List Nat := s.take (min n s.length)

/-- last `min n size` bytes -/
def right (s : List Nat) (n : Nat) : List Nat := s.drop (s.length - min n s.length)

/-- the leading bytes that belong to the set are removed, nothing else -/
def trimLeft (s cset : List Nat) : List Nat := s.dropWhile (cset.contains ·)

/-- the trailing bytes that belong to the set are removed, nothing else -/
def trimRight (s cset : List Nat) : List Nat := (s.reverse.dropWhile (cset.contains ·)).reverse

def trim (s cset : List Nat) : List Nat := trimRight (trimLeft s cset) cset

/-! "The separator occurs in `s` at offset `i`" is `Spec.Search.occursAt` (C07's notion: the window
    of `sep.length` bytes at `i` lies inside `s` and equals `sep`, ASCII letters folded on both sides
    in the insensitive mode).  An empty separator occurs nowhere. -/

/-- offset of the first occurrence of a non-empty separator: the least `i` with `occursAt … i`
    (candidates `0 … |s|`; `leastFrom` is C07's generic bounded least-index search) -/
def firstOcc (cs : CaseMode) (s sep : List Nat) : Option Nat :=
  if sep = [] then none else leastFrom (fun i => decide (occursAt cs s sep i)) (s.length + 1) 0

/-- offset of the last occurrence of a non-empty separator: the greatest such `i` -/
def lastOcc (cs : CaseMode) (s sep : List Nat) : Option Nat :=
  if sep = [] then none else greatestBelow (fun i => decide (occursAt cs s sep i)) (s.length + 1)

/-- the separator occurs somewhere -/
def occurs (cs : CaseMode) (s sep : List Nat) : Bool := (firstOcc cs s sep).isSome

def beforeFirst (cs : CaseMode) (s sep : List Nat) : List Nat :=
  match firstOcc cs s sep with
  | some i => s.take i
  | none => s

def afterFirst (cs : CaseMode) (s sep : List Nat) : List Nat :=
  match firstOcc cs s sep with
  | some i => s.drop (i + sep.length)
  | none => []

def beforeLast (cs : CaseMode) (s sep : List Nat) : List Nat :=
  match lastOcc cs s sep with
  | some i => s.take i
  | none => []

def afterLast (cs : CaseMode) (s sep : List Nat) : List Nat :=
  match lastOcc cs s sep with
  | some i => s.drop (i + sep.length)
  | none => s

/-- the bytes a `const char*` argument denotes: those before the first NUL -/
def cString (p : List Nat) : List Nat := p.takeWhile (· ≠ 0)

/-- `ST_WHITESPACE` = `" \t\r\n"` -/
def whitespace : List Nat := [32, 9, 13, 10]

end StVerif.Spec.Slice
