/-
  Declarative side of C01–C03: the standard encodings (Unicode Table 3-6, D91) written with
  `/`, `%`, `+`; the left-to-right segmentation of arbitrary units into well-formed-by-design
  sequences and malformed units; and the reference transcoding under a validation mode.
  Nothing here mentions the code's masks, passes or helper functions.
-/
import StVerif.Base
import StVerif.Model.Utf   -- only for the `Enc` enumeration

namespace StVerif.Spec.Unicode
open StVerif
open StVerif.Utf (Enc)

def Scalar (c : Nat) : Prop := c < 0x110000 ∧ ¬ (0xD800 ≤ c ∧ c < 0xE000)

instance (c : Nat) : Decidable (Scalar c) := by unfold Scalar; exact inferInstance

/-- UTF-8 (Table 3-6), for any value below 0x200000 -/
def encUtf8 (c : Nat) : List Nat :=
  if c < 0x80 then [c]
  else if c < 0x800 then [0xC0 + c / 64, 0x80 + c % 64]
  else if c < 0x10000 then [0xE0 + c / 4096, 0x80 + c / 64 % 64, 0x80 + c % 64]
  else [0xF0 + c / 262144, 0x80 + c / 4096 % 64, 0x80 + c / 64 % 64, 0x80 + c % 64]

/-- UTF-16 (D91) -/
def encUtf16 (c : Nat) : List Nat :=
  if c < 0x10000 then [c] else [0xD800 + (c - 0x10000) / 1024, 0xDC00 + (c - 0x10000) % 1024]

/-- the standard encoding of a scalar sequence -/
def stdEnc (e : Enc) (s : List Nat) : List Nat :=
  match e with
  | .utf8 => s.flatMap encUtf8
  | .utf16 => s.flatMap encUtf16
  | .utf32 => s
  | .latin1 => s

/-! ### segmentation: which units form a sequence where they stand -/

inductive Seg where
  /-- a sequence accepted by design, its decoded value and the units it occupies -/
  | good (value : Nat) (units : List Nat)
  /-- a unit that cannot be part of a sequence where it stands (consumes exactly that unit) -/
  | bad (unit : Nat)
  deriving Repr, DecidableEq

def isCont (b : Nat) : Bool := 0x80 ≤ b && b < 0xC0

/-- UTF-8, tolerant by design: lead bytes C0–DF / E0–EF / F0–F7 followed by the right number of
    continuation bytes are sequences (overlong, surrogate and > 10FFFF values included);
    everything else is a malformed unit. -/
def segUtf8 : List Nat → List Seg
  | [] => []
  | b0 :: rest =>
    let next := fun (_ : Unit) => segUtf8 rest
    if b0 < 0x80 then .good b0 [b0] :: next ()
    else if 0xC0 ≤ b0 ∧ b0 < 0xE0 then
      match rest with
      | b1 :: r =>
        if isCont b1 then .good ((b0 - 0xC0) * 64 + (b1 - 0x80)) [b0, b1] :: segUtf8 r
        else .bad b0 :: next ()
      | _ => .bad b0 :: next ()
    else if 0xE0 ≤ b0 ∧ b0 < 0xF0 then
      match rest with
      | b1 :: b2 :: r =>
        if isCont b1 && isCont b2 then
          .good ((b0 - 0xE0) * 4096 + (b1 - 0x80) * 64 + (b2 - 0x80)) [b0, b1, b2] :: segUtf8 r
        else .bad b0 :: next ()
      | _ => .bad b0 :: next ()
    else if 0xF0 ≤ b0 ∧ b0 < 0xF8 then
      match rest with
      | b1 :: b2 :: b3 :: r =>
        if isCont b1 && isCont b2 && isCont b3 then
          .good ((b0 - 0xF0) * 262144 + (b1 - 0x80) * 4096 + (b2 - 0x80) * 64 + (b3 - 0x80)) [b0, b1, b2, b3] :: segUtf8 r
        else .bad b0 :: next ()
      | _ => .bad b0 :: next ()
    else .bad b0 :: next ()

def isHigh (u : Nat) : Bool := 0xD800 ≤ u && u < 0xDC00
def isLow (u : Nat) : Bool := 0xDC00 ≤ u && u < 0xE000

/-- UTF-16: a non-surrogate unit; a high+low pair; the tolerated low+high pair; otherwise an
    unpaired surrogate is a malformed unit. -/
def segUtf16 : List Nat → List Seg
  | [] => []
  | u0 :: rest =>
    let next := fun (_ : Unit) => segUtf16 rest
    if isHigh u0 then
      match rest with
      | u1 :: r =>
        if isLow u1 then .good (0x10000 + (u0 - 0xD800) * 1024 + (u1 - 0xDC00)) [u0, u1] :: segUtf16 r
        else .bad u0 :: next ()
      | [] => .bad u0 :: next ()
    else if isLow u0 then
      match rest with
      | u1 :: r =>
        if isHigh u1 then .good (0x10000 + (u0 - 0xDC00) + (u1 - 0xD800) * 1024) [u0, u1] :: segUtf16 r
        else .bad u0 :: next ()
      | [] => .bad u0 :: next ()
    else .good u0 [u0] :: next ()

def segUtf32 (xs : List Nat) : List Seg := xs.map fun u => if u ≤ 0x10FFFF then .good u [u] else .bad u
def segLatin1 (xs : List Nat) : List Seg := xs.map fun b => .good b [b]

def seg (src : Enc) (xs : List Nat) : List Seg :=
  match src with
  | .utf8 => segUtf8 xs | .utf16 => segUtf16 xs | .utf32 => segUtf32 xs | .latin1 => segLatin1 xs

def Seg.isGood : Seg → Bool | .good _ _ => true | .bad _ => false

/-- "well-formed, counting the tolerated forms": no unit is malformed where it stands -/
def wellFormedByDesign (src : Enc) (xs : List Nat) : Bool := (seg src xs).all Seg.isGood

/-! ### reference transcoding under a validation mode -/

def replacement (dst : Enc) : List Nat :=
  match dst with
  | .utf8 => [0xEF, 0xBF, 0xBD] | .utf16 => [0xFFFD] | .utf32 => [0xFFFD] | .latin1 => [63]

/-- what one segment contributes; `none` = the conversion must throw `unicode_error` -/
def refStep (src dst : Enc) (m : Mode) (subst : Bool) : Seg → Option (List Nat)
  | .bad _ =>
      if m = .checkValidity then none
      -- a UTF-32 value above 10FFFF is also "out of Latin-1 range": without substitution it is
      -- refused in every mode
      else if src = .utf32 ∧ dst = .latin1 ∧ subst = false then none
      else some (replacement dst)
  | .good v us =>
      match dst with
      | .utf8 => some (if src = .utf8 then us else encUtf8 v)
      | .utf16 =>
          if v ≤ 0x10FFFF then some (encUtf16 v)
          else if m = .checkValidity then none else some (replacement .utf16)   -- not representable
      | .utf32 => some [v]
      | .latin1 => if v < 0x100 then some [v] else if subst then some [63] else none

def refSteps (src dst : Enc) (m : Mode) (subst : Bool) : List Seg → Option (List Nat)
  | [] => some []
  | s :: rest =>
    match refStep src dst m subst s, refSteps src dst m subst rest with
    | some us, some r => some (us ++ r)
    | _, _ => none

/-- the reference result of converting `xs` from `src` to `dst` -/
def reference (src dst : Enc) (m : Mode) (subst : Bool) (xs : List Nat) : Outcome (List Nat) :=
  match refSteps src dst m subst (seg src xs) with
  | some out => .ok out
  | none => .throw .unicodeError

/-- reference for building an `ST::string` from UTF-8 bytes: `assume_valid` stores the bytes
    unchanged, the other modes are the UTF-8 → UTF-8 reference -/
def referenceString (m : Mode) (xs : List Nat) : Outcome (List Nat) :=
  match m with
  | .assumeValid => .ok xs
  | _ => reference .utf8 .utf8 m true xs

end StVerif.Spec.Unicode
