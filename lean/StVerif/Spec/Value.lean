/-
  Values of strings as the properties C04 / C18 speak about them: a string's value is a byte
  list, or unspecified (moved-from: "some valid value"; results whose content is the business of
  another property).
-/
namespace StVerif.Spec.Value

inductive V where
  | known (us : List Nat)
  | unspecified
  deriving Repr, DecidableEq, Inhabited

def append : V → V → V
  | .known a, .known b => .known (a ++ b)
  | _, _ => .unspecified

def mapKnown (f : List Nat → List Nat) : V → V
  | .known a => .known (f a)
  | .unspecified => .unspecified

end StVerif.Spec.Value
