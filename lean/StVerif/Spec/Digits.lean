/-
  Declarative meaning of "the canonical digit string of a number in base b" and of
  "the value of the longest valid numeral prefix" (what the C standard asks of strtol),
  written over unbounded naturals, independently of buffers, widths and loops.
-/
import StVerif.Base

namespace StVerif.Spec.Digits

/-- positional value of a digit list, most significant digit first -/
def ofDigits (b : Nat) (ds : List Nat) : Nat := ds.foldl (fun acc d => acc * b + d) 0

/-- `ds` is *the* canonical representation of `n` in base `b`: every digit below the base, the
    positional value is `n`, at least one digit, and no leading zero except for the single digit
    of zero itself. -/
structure Canonical (b n : Nat) (ds : List Nat) : Prop where
  lt_base : ∀ d ∈ ds, d < b
  value : ofDigits b ds = n
  nonempty : ds ≠ []
  no_leading_zero : ds.head? = some 0 → ds = [0]

/-- the digits of `n` in base `b`, most significant first (`[0]` for zero); the computable witness
    of `Canonical` (`Lemmas/Digits.lean`: `digits_canonical`, `canonical_unique`) -/
def digits (b n : Nat) : List Nat :=
  if _h : n < b ∨ b < 2 then [n] else digits b (n / b) ++ [n % b]
termination_by n
decreasing_by exact Nat.div_lt_self (by omega) (by omega)

/-- the character that stands for digit value `d < 36` in the requested letter case -/
def digitChar (upper : Bool) (d : Nat) : Nat :=
  if d < 10 then 48 + d else if upper then 55 + d else 87 + d

/-- digit value of a character, either letter case; `none` for anything that is not 0-9A-Za-z -/
def digitVal (c : Nat) : Option Nat :=
  if 48 ≤ c ∧ c ≤ 57 then some (c - 48)
  else if 65 ≤ c ∧ c ≤ 90 then some (c - 55)
  else if 97 ≤ c ∧ c ≤ 122 then some (c - 87)
  else none

/-- canonical text of a non-negative number -/
def natText (b : Nat) (upper : Bool) (n : Nat) : List Nat := (digits b n).map (digitChar upper)

/-- canonical text of an integer: a leading '-' for negatives, then the magnitude -/
def intText (b : Nat) (upper : Bool) (v : Int) : List Nat :=
  (if v < 0 then [45] else []) ++ natText b upper v.natAbs

/-! ### numeral prefix (ISO C 7.22.1.4) -/

/-- white space of the "C" locale -/
def isSpace (c : Nat) : Bool := c == 32 || (9 ≤ c && c ≤ 13)

def isDigitOf (b : Nat) (c : Nat) : Bool :=
  match digitVal c with
  | some d => d < b
  | none => false

def isX (c : Nat) : Bool := c == 120 || c == 88

/-- result of reading the subject sequence: sign, unbounded magnitude and how many characters of
    the text (leading white space included) belong to it; `consumed = 0` means "no conversion" -/
structure Numeral where
  negative : Bool
  magnitude : Nat
  consumed : Nat
  deriving Repr, DecidableEq

/-- value of the digit run `cs` (all valid in base `b`) -/
def runValue (b : Nat) (cs : List Nat) : Nat := ofDigits b (cs.map fun c => (digitVal c).getD 0)

/-- a `0x`/`0X` prefix counts only for bases 16 and 0 and only when a hexadecimal digit follows -/
def hasHexPrefix (base : Nat) (r : List Nat) : Bool :=
  (base == 0 || base == 16) &&
  (match r with
   | 48 :: x :: d :: _ => isX x && isDigitOf 16 d
   | _ => false)

/-- base 0 selects 16 after a hex prefix, 8 after a leading `0`, else 10 -/
def effectiveBase (base : Nat) (r : List Nat) : Nat :=
  if base != 0 then base
  else if hasHexPrefix base r then 16
  else (match r with | 48 :: _ => 8 | _ => 10)

/-- the digits part of a numeral: optional hex prefix, then the longest run of digits of the effective
    base; `(magnitude, characters)`, `none` if the run is empty.  (A `0x` not followed by a hexadecimal
    digit is not a prefix: the numeral is then the `0` alone.) -/
def numeralBody (base : Nat) (r : List Nat) : Option (Nat × Nat) :=
  let hex := hasHexPrefix base r
  let b := effectiveBase base r
  let run := (if hex then r.drop 2 else r).takeWhile (isDigitOf b)
  if run.isEmpty then none else some (runValue b run, (if hex then 2 else 0) + run.length)

/-- optional sign in front of the digits: (negative, characters) -/
def signOf (r : List Nat) : Bool × Nat :=
  match r with
  | 45 :: _ => (true, 1)
  | 43 :: _ => (false, 1)
  | _ => (false, 0)

/-- the numeral at the start of a NUL-free text: white space, optional sign, digits part -/
def parseCore (base : Nat) (s : List Nat) : Numeral :=
  let ws := s.takeWhile isSpace
  let r := s.drop ws.length
  let sg := signOf r
  match numeralBody base (r.drop sg.2) with
  | none => { negative := false, magnitude := 0, consumed := 0 }
  | some (m, k) => { negative := sg.1, magnitude := m, consumed := ws.length + sg.2 + k }

/-- The longest initial part of `s` (text up to, not including, the first NUL) that has the form
    *white space, optional sign, optional `0x`/`0X` when the base is 16 or 0, non-empty digit run*. -/
def parseSpec (base : Nat) (s : List Nat) : Numeral := parseCore base (s.takeWhile (· != 0))

/-- what `strtol`-like functions of a `w`-bit signed result return: the value when representable,
    else the nearest bound (with ERANGE) -/
def clampSigned (w : Nat) (n : Numeral) : Int :=
  let v : Int := if n.negative then -(n.magnitude : Int) else n.magnitude
  if v < -(2 ^ (w - 1) : Int) then -(2 ^ (w - 1) : Int)
  else if v > (2 ^ (w - 1) : Int) - 1 then (2 ^ (w - 1) : Int) - 1 else v

/-- `strtoul`-like: magnitude above the maximum saturates; otherwise the (possibly negated) value
    modulo 2^w -/
def clampUnsigned (w : Nat) (n : Numeral) : Nat :=
  if n.magnitude > 2 ^ w - 1 then 2 ^ w - 1
  else if n.negative then ((2 ^ w - n.magnitude) % 2 ^ w) else n.magnitude

end StVerif.Spec.Digits
