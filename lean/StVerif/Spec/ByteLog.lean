/-
  Declarative meaning of string_stream histories (C16): every live stream *is* a plain byte string.
  Nothing here knows about capacities, in-object buffers, heap blocks or pointers.
-/
import StVerif.Base

namespace StVerif.Spec.ByteLog

/-- live streams and the bytes each one holds -/
abbrev State := Nat → Option (List Nat)

def State.init : State := fun _ => none

def State.set (s : State) (o : Nat) (v : Option (List Nat)) : State := fun x => if x = o then v else s x

inductive Op where
  | create (o : Nat)                      -- a default-constructed stream is empty
  | destroy (o : Nat)
  | append (o : Nat) (xs : List Nat)      -- append / append_char / every operator<< : the rendering is appended
  | truncate (o n : Nat)                  -- keep the first n bytes
  | erase (o n : Nat)                     -- drop the last n bytes
  | moveNew (dst src : Nat)               -- move construction: dst comes alive with src's bytes, src is empty
  | moveTo (dst src : Nat)                -- move assignment: dst's bytes are replaced by src's, src is empty
  | nop                                   -- observations (to_string), operations that threw before changing anything
  deriving Repr, DecidableEq

def step (s : State) : Op → State
  | .create o => s.set o (some [])
  | .destroy o => s.set o none
  | .append o xs => match s o with | some b => s.set o (some (b ++ xs)) | none => s
  | .truncate o n => match s o with | some b => s.set o (some (b.take n)) | none => s
  | .erase o n => match s o with | some b => s.set o (some (b.take (b.length - n))) | none => s
  | .moveNew dst src | .moveTo dst src =>
      match s src with | some b => (s.set dst (some b)).set src (some []) | none => s
  | .nop => s

/-- the operation is meaningful in state `s` (what a C++ program may do: no member call on a dead
    object, no construction over a live one; self-move-assignment is outside the property) -/
def ok (s : State) : Op → Bool
  | .create o => (s o).isNone
  | .destroy o => (s o).isSome
  | .append o _ | .truncate o _ | .erase o _ => (s o).isSome
  | .moveNew dst src => (s dst).isNone && (s src).isSome
  | .moveTo dst src => (s dst).isSome && (s src).isSome && dst != src
  | .nop => true

def run (s : State) : List Op → State
  | [] => s
  | op :: rest => run (step s op) rest

end StVerif.Spec.ByteLog
