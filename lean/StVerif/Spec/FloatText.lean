/-
  Declarative meaning of C13: which printf conversion a floating-point field stands for, and how
  the C library's rendering of it is placed in the field.  The rendering itself (what printf
  produces for a conversion and a value) and the parsing (strtod/strtof) are *parameters*: the
  property defines the library's text as "whatever the C library gives", so the C library is not
  specified here.
-/
import StVerif.Spec.Digits

namespace StVerif.Spec.FloatText
open StVerif.Spec.Digits

/-- notation requested by the field: default `{}`, fixed `{f}`, exponent `{e}`, upper-case exponent `{E}` -/
inductive Notation where
  | dflt | fixed | exp | expUpper
  deriving DecidableEq, Repr, Inhabited

/-- the printf conversion letter of a notation: g, f, e, E -/
def letter : Notation → Nat
  | .dflt => 103 | .fixed => 102 | .exp => 101 | .expUpper => 69

/-- "the corresponding conversion": `%`, `+` when a sign is always wanted, `.<precision in decimal>`
    when a precision is given, then the letter -/
def printfFormat (alwaysSigned : Bool) (precision : Option Nat) (n : Notation) : List Nat :=
  [37] ++ (if alwaysSigned then [43] else []) ++
    (match precision with
     | some p => 46 :: natText 10 false p
     | none => []) ++ [letter n]

/-- pad `text` to `width` with `pad`; floating-point fields are right-aligned unless `<` was given.
    A text at least as long as the width is never cut. -/
def padTo (width : Nat) (left : Bool) (pad : Nat) (text : List Nat) : List Nat :=
  if left then text ++ List.replicate (width - text.length) pad
  else List.replicate (width - text.length) pad ++ text

end StVerif.Spec.FloatText
