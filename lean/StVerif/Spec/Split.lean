/-
  Spec for C09 — split / tokenize / replace on lists.

  `split`: cut at the first `max` non-overlapping occurrences of the separator found left to right
  (each next occurrence is looked for in what follows the previous one); the pieces in order.
  `tokenize`: the maximal non-empty runs of bytes that are not delimiters.
  `replace`: the pieces of the unlimited split, joined by the replacement.
  "Occurs" is C07's `occursAt` (through `Spec.Slice.firstOcc`); an empty separator occurs nowhere, so
  it leaves the text whole.
-/
import StVerif.Spec.Slice

namespace StVerif.Spec.Split
open StVerif
open StVerif.Search (CaseMode)
open StVerif.Spec.Slice (firstOcc)

/-- `fuel` only makes the recursion structural: a cut consumes at least one byte, so `|s| + 1`
    rounds are never exhausted (`Props.C09.spec_fuel_irrelevant`) -/
def splitAux (cs : CaseMode) (sep : List Nat) : (fuel : Nat) → (max : Nat) → (s : List Nat) → List (List Nat)
  | 0, _, s => [s]
  | fuel + 1, max, s =>
    if max = 0 then [s]
    else match firstOcc cs s sep with
      | none => [s]
      | some i => s.take i :: splitAux cs sep fuel (max - 1) (s.drop (i + sep.length))

/-- the pieces of `s` cut at the first `max` non-overlapping occurrences of `sep`, left to right -/
def split (cs : CaseMode) (sep : List Nat) (max : Nat) (s : List Nat) : List (List Nat) :=
  splitAux cs sep (s.length + 1) max s

/-- cut at every non-overlapping occurrence (there are at most `|s|` of them) -/
def splitAll (cs : CaseMode) (sep : List Nat) (s : List Nat) : List (List Nat) := split cs sep s.length s

/-- joining pieces with a separator -/
def join (sep : List Nat) (pieces : List (List Nat)) : List Nat := List.intercalate sep pieces

/-- number of non-overlapping left-to-right occurrences of `pat` -/
def occurrences (cs : CaseMode) (pat s : List Nat) : Nat := (splitAll cs pat s).length - 1

/-- every non-overlapping left-to-right occurrence of `pat` replaced by `to`, nothing else changed -/
def replace (cs : CaseMode) (pat to s : List Nat) : List Nat := join to (splitAll cs pat s)

/-- the stretches of `s` between delimiters (empty ones included) -/
def fields (isDelim : Nat → Bool) : List Nat → List (List Nat)
  | [] => [[]]
  | c :: rest =>
    if isDelim c then [] :: fields isDelim rest
    else match fields isDelim rest with
      | f :: fs => (c :: f) :: fs
      | [] => [[c]]

/-- the maximal non-empty runs of non-delimiters, in order -/
def tokens (delims s : List Nat) : List (List Nat) :=
  (fields (delims.contains ·) s).filter (fun f => !f.isEmpty)

/-- `ts` are exactly the maximal non-empty runs of non-delimiters of the text, in order: the text
    is a (possibly empty) gap of delimiters, then — if anything is left — a non-empty token without
    delimiters that ends at the end of the text or right before a delimiter, and so on.  (Each token
    is bounded by a delimiter or a text boundary on both sides, and every non-delimiter is in a token.) -/
inductive Runs (isDelim : Nat → Bool) : List Nat → List (List Nat) → Prop
  | done (g : List Nat) (hg : ∀ c ∈ g, isDelim c = true) : Runs isDelim g []
  | tok (g t rest : List Nat) (ts : List (List Nat)) (hg : ∀ c ∈ g, isDelim c = true) (hne : t ≠ [])
      (ht : ∀ c ∈ t, isDelim c = false) (hr : rest = [] ∨ ∃ c r, rest = c :: r ∧ isDelim c = true)
      (h : Runs isDelim rest ts) : Runs isDelim (g ++ t ++ rest) (t :: ts)

end StVerif.Spec.Split
