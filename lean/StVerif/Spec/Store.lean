/-
  Declarative meaning of buffer histories (C05): a map from live objects to values.
  A value is a list of units, each either known or unspecified (`none`): `allocate(n)` gives
  `n` unspecified units, a moved-from object holds *some* valid value (all we know is that it
  is one: `anyValue`).
-/
import StVerif.Base
import StVerif.Model.Pool   -- only for the `Op` vocabulary

namespace StVerif.Spec.Store
open StVerif.Pool (Op)

inductive Val where
  | known (us : List (Option Nat))   -- size and (partially specified) elements
  | anyValue                          -- valid, contents unspecified (moved-from)
  deriving Repr, DecidableEq

/-- live objects and their values (`none` = not alive) -/
abbrev Store := Nat → Option Val

def Store.empty : Store := fun _ => none
def Store.get (s : Store) (o : Nat) : Option Val := s o
def Store.set (s : Store) (o : Nat) (v : Val) : Store := fun x => if x = o then some v else s x
def Store.erase (s : Store) (o : Nat) : Store := fun x => if x = o then none else s x

def writeVal (v : Val) (at_ : Nat) (us : List Nat) : Val :=
  match v with
  | .known xs => .known (xs.take at_ ++ us.map some ++ xs.drop (at_ + us.length))
  | .anyValue => .anyValue

/-- what each operation means -/
def step (s : Store) : Op → Store
  | .ctorDefault o => s.set o (.known [])
  | .ctorUnits o us => s.set o (.known (us.map some))
  | .ctorCopy o src => match s.get src with | some v => s.set o v | none => s
  | .ctorMove o src => match s.get src with | some v => (s.set o v).set src .anyValue | none => s
  | .dtor o => s.erase o
  | .clear o => s.set o (.known [])
  | .assignCopy o src => match s.get src with | some v => s.set o v | none => s
  | .assignMove o src =>
      if o = src then s.set o .anyValue      -- self-move: still a valid object, value unspecified
      else match s.get src with | some v => (s.set o v).set src .anyValue | none => s
  | .allocate o n => s.set o (.known (List.replicate n none))
  | .allocateFill o n v => s.set o (.known (List.replicate n (some v)))
  | .writeData o at_ us => match s.get o with | some v => s.set o (writeVal v at_ us) | none => s

/-- a reported `(size, elements)` pair agrees with a specified value -/
def Matches : Val → Nat × List Nat → Prop
  | .anyValue, _ => True
  | .known xs, (n, us) => xs.length = n ∧ us.length = n ∧ ∀ (i x : Nat), xs[i]? = some (some x) → us[i]? = some x

end StVerif.Spec.Store
