/-
  Spec for comparison (C06): lexicographic order on lists of units.

  `LexLt lt a b` is the textbook definition: after a common prefix either `a` ends and `b` goes on
  (a proper prefix sorts first), or both go on with units `x`, `y` such that `lt x y`.  `lexSign`
  is the three-way form (-1 / 0 / 1) the driver evaluates; `Lemmas/CompareSpec` proves it agrees
  with `LexLt` and is a total order / preorder.
-/
import StVerif.Base
import StVerif.Spec.Search

namespace StVerif.Spec.Compare
open StVerif.Spec.Search (foldAscii)

/-- `a` sorts strictly before `b`: first difference decides, a proper prefix sorts first -/
def LexLt (lt : Nat → Nat → Prop) (a b : List Nat) : Prop :=
  ∃ p : List Nat,
    (∃ y t, a = p ∧ b = p ++ y :: t) ∨
    (∃ x y s t, a = p ++ x :: s ∧ b = p ++ y :: t ∧ lt x y)

/-- three-way lexicographic comparison with respect to the order of `key x` -/
def lexSign (key : Nat → Int) : List Nat → List Nat → Int
  | [], [] => 0
  | [], _ :: _ => -1
  | _ :: _, [] => 1
  | a :: as, b :: bs =>
    if key a < key b then -1 else if key b < key a then 1 else lexSign key as bs

/-- unsigned order of the unit values themselves (bytes 0..255 for `char`) -/
def unsignedKey (x : Nat) : Int := (x : Int)

/-- bytewise (unsigned) lexicographic three-way comparison: what case-sensitive `compare` must agree with in sign -/
def lexUnsigned (a b : List Nat) : Int := lexSign unsignedKey a b

/-- three-way comparison of two lengths -/
def lengthOrder (la lb : Nat) : Int := if la < lb then -1 else if lb < la then 1 else 0

/-- equivalence of the case-insensitive comparison: equality after folding ASCII `A`-`Z` to `a`-`z` -/
def FoldEq (a b : List Nat) : Prop := a.map foldAscii = b.map foldAscii

instance (a b : List Nat) : Decidable (FoldEq a b) := by unfold FoldEq; exact inferInstance

/-- a byte is an ASCII letter of the given case -/
def isUpperAscii (c : Nat) : Prop := 0x41 ≤ c ∧ c ≤ 0x5A
def isLowerAscii (c : Nat) : Prop := 0x61 ≤ c ∧ c ≤ 0x7A

instance (c : Nat) : Decidable (isUpperAscii c) := by unfold isUpperAscii; exact inferInstance
instance (c : Nat) : Decidable (isLowerAscii c) := by unfold isLowerAscii; exact inferInstance

/-- FNV-1a over 64 bits, as published (offset basis, prime; xor the octet, multiply) with the
    octet taken as the library takes it (see the model: a `char` converted to `size_t`) -/
def fnvOffsetBasis : Nat := 0xcbf29ce484222325
def fnvPrime : Nat := 0x100000001b3

end StVerif.Spec.Compare
