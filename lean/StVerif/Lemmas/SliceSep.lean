/-
  Helper lemmas for C08, separator part: `firstOcc` / `lastOcc` are the least / greatest occurrence,
  the three overload forms of `find(sep)` / `find_last(sep)` compute them (through C07's theorems),
  and before_* / after_* return the specified slices.
-/
import StVerif.Lemmas.Slice
import StVerif.Lemmas.SearchSpec
import StVerif.Lemmas.Find
import StVerif.Props.C07

namespace StVerif.Lemmas.Slice
open StVerif StVerif.Slice StVerif.Search StVerif.Spec.Search StVerif.Lemmas.SearchSpec
open StVerif.Spec.Slice (firstOcc lastOcc)

/-! ### `firstOcc` / `lastOcc` -/

theorem occursAt_le_length {cs : CaseMode} {s sep : List Nat} {i : Nat} (h : occursAt cs s sep i) :
    i + sep.length ≤ s.length := h.1

theorem firstOcc_some {cs : CaseMode} {s sep : List Nat} {i : Nat} (h : firstOcc cs s sep = some i) :
    sep ≠ [] ∧ occursAt cs s sep i ∧ ∀ j, j < i → ¬ occursAt cs s sep j := by
  unfold firstOcc at h
  by_cases he : sep = []
  · rw [if_pos he] at h; cases h
  · rw [if_neg he] at h
    obtain ⟨_, _, hp, hm⟩ := leastFrom_some _ _ _ _ h
    refine ⟨he, by simpa using hp, fun j hj => ?_⟩
    have := hm j (by omega) hj
    simpa using this

theorem firstOcc_none {cs : CaseMode} {s sep : List Nat} (h : firstOcc cs s sep = none) :
    sep = [] ∨ ∀ j, ¬ occursAt cs s sep j := by
  unfold firstOcc at h
  by_cases he : sep = []
  · exact Or.inl he
  · rw [if_neg he] at h
    refine Or.inr fun j hj => ?_
    have hle := hj.1
    have := leastFrom_none _ _ _ h j (by omega) (by omega)
    simp at this
    exact this hj

theorem lastOcc_some {cs : CaseMode} {s sep : List Nat} {i : Nat} (h : lastOcc cs s sep = some i) :
    sep ≠ [] ∧ occursAt cs s sep i ∧ ∀ j, i < j → ¬ occursAt cs s sep j := by
  unfold lastOcc at h
  by_cases he : sep = []
  · rw [if_pos he] at h; cases h
  · rw [if_neg he] at h
    obtain ⟨_, hp, hm⟩ := greatestBelow_some _ _ _ h
    refine ⟨he, by simpa using hp, fun j hj ho => ?_⟩
    have hle := ho.1
    have := hm j hj (by omega)
    simp at this
    exact this ho

theorem lastOcc_none {cs : CaseMode} {s sep : List Nat} (h : lastOcc cs s sep = none) :
    sep = [] ∨ ∀ j, ¬ occursAt cs s sep j := by
  unfold lastOcc at h
  by_cases he : sep = []
  · exact Or.inl he
  · rw [if_neg he] at h
    refine Or.inr fun j hj => ?_
    have hle := hj.1
    have := greatestBelow_none _ _ h j (by omega)
    simp at this
    exact this hj

/-- the index an `Option` offset denotes in the `ST_ssize_t` convention -/
def idx : Option Nat → Int
  | some i => (i : Int)
  | none => -1

theorem isFind_firstOcc (cs : CaseMode) (s sep : List Nat) : IsFind cs s 0 sep (idx (firstOcc cs s sep)) := by
  cases h : firstOcc cs s sep with
  | some i =>
    obtain ⟨hne, ho, hm⟩ := firstOcc_some h
    have hl := ho.1
    have : 0 < sep.length := List.length_pos_iff.2 hne
    exact Or.inl ⟨i, rfl, hne, by omega, by omega, ho, fun j _ hj => hm j hj⟩
  | none =>
    rcases firstOcc_none h with he | hn
    · exact Or.inr ⟨rfl, Or.inl he⟩
    · exact Or.inr ⟨rfl, Or.inr (Or.inr fun j _ => hn j)⟩

theorem isFindLast_lastOcc (cs : CaseMode) (s sep : List Nat) (max : Nat) (hmax : s.length ≤ max) :
    IsFindLast cs s max sep (idx (lastOcc cs s sep)) := by
  cases h : lastOcc cs s sep with
  | some i =>
    obtain ⟨hne, ho, hm⟩ := lastOcc_some h
    have hl := ho.1
    exact Or.inl ⟨i, rfl, hne, by omega, ho, fun j hj _ => hm j hj⟩
  | none =>
    rcases lastOcc_none h with he | hn
    · exact Or.inr ⟨rfl, Or.inl he⟩
    · exact Or.inr ⟨rfl, Or.inr fun j _ => hn j⟩

/-! ### the three separator forms -/

theorem toNeedle_text (sep : Sep) : sep.toNeedle.text = sep.bytes := by
  cases sep with
  | char c => rfl
  | cstr p => cases p <;> rfl
  | str b => rfl

/-- `find(sep, cs)` in every form is the first occurrence of the bytes the argument denotes -/
theorem findFirst_eq (cs : CaseMode) (s : List Nat) (sep : Sep) :
    findFirst cs s sep = idx (firstOcc cs s sep.bytes) := by
  have h := StVerif.Props.C07.find_all_eq_spec cs s sep.toNeedle
  rw [toNeedle_text] at h
  exact isFind_unique cs s 0 sep.bytes _ _ h (isFind_firstOcc cs s sep.bytes)

/-- `find_last(sep, cs)` in every form is the last occurrence -/
theorem findLast_eq (cs : CaseMode) (s : List Nat) (sep : Sep) (hs : s.length < 2^63) :
    findLast cs s sep = idx (lastOcc cs s sep.bytes) := by
  have h := StVerif.Props.C07.find_last_all_eq_spec cs s sep.toNeedle
  rw [toNeedle_text] at h
  exact isFindLast_unique cs s SIZE_MAX sep.bytes _ _ h
    (isFindLast_lastOcc cs s sep.bytes SIZE_MAX (by unfold SIZE_MAX; omega))

theorem take_window_drop (s : List Nat) (i n : Nat) :
    s.take i ++ window s i n ++ s.drop (i + n) = s := by
  unfold window
  rw [List.append_assoc, ← List.drop_drop, List.take_append_drop, List.take_append_drop]

/-! ### before_* / after_* -/

theorem skipOf_eq (sep : Sep) (i : Nat) (h : i + sep.bytes.length < 2^63) :
    skipOf .fixed (i : Int) sep = ((i + sep.bytes.length : Nat) : Int) := by
  cases sep with
  | char c => simp [skipOf, Sep.bytes]
  | cstr p =>
    simp only [skipOf, Sep.bytes] at h ⊢
    rw [toI64_wrap64 _ (by omega) (by omega)]; omega
  | str b =>
    simp only [skipOf, Sep.bytes] at h ⊢
    rw [toI64_wrap64 _ (by omega) (by omega)]; omega

theorem left_take_good (s : List Nat) (i : Nat) (hs : s.length < 2^63) (hi : i ≤ s.length) :
    Good s (s.take i) (left s (wrap64 (i : Int))) := by
  rw [wrap64_nat i (by omega)]
  have := left_good s i hs
  unfold Spec.Slice.left at this
  rwa [take_min_length] at this

theorem beforeFirst_good (cs : CaseMode) (s : List Nat) (sep : Sep) (hs : s.length < 2^63) :
    Good s (Spec.Slice.beforeFirst cs s sep.bytes) (beforeFirst cs s sep) := by
  unfold beforeFirst Spec.Slice.beforeFirst
  simp only [findFirst_eq]
  cases h : firstOcc cs s sep.bytes with
  | some i =>
    have hl := (firstOcc_some h).2.1.1
    rw [if_pos (show idx (some i) ≥ 0 from Int.natCast_nonneg i)]
    exact left_take_good s i hs (by omega)
  | none =>
    rw [if_neg (show ¬ idx none ≥ 0 from by decide)]
    exact good_whole s

theorem afterFirst_good (cs : CaseMode) (s : List Nat) (sep : Sep) (hs : s.length < 2^63) :
    Good s (Spec.Slice.afterFirst cs s sep.bytes) (afterFirst cs s sep) := by
  unfold afterFirst Spec.Slice.afterFirst
  simp only [findFirst_eq]
  cases h : firstOcc cs s sep.bytes with
  | some i =>
    have hl := (firstOcc_some h).2.1.1
    rw [if_pos (show idx (some i) ≥ 0 from Int.natCast_nonneg i)]
    show Good s (s.drop (i + sep.bytes.length)) (substr s (skipOf .fixed (i : Int) sep) SIZE_MAX)
    rw [skipOf_eq sep i (by omega), ← spec_substr_auto s _ hl]
    exact substr_good s _ _ hs (by omega) (by omega)
  | none =>
    rw [if_neg (show ¬ idx none ≥ 0 from by decide)]
    exact good_empty s

theorem beforeLast_good (cs : CaseMode) (s : List Nat) (sep : Sep) (hs : s.length < 2^63) :
    Good s (Spec.Slice.beforeLast cs s sep.bytes) (beforeLast cs s sep) := by
  unfold beforeLast Spec.Slice.beforeLast
  simp only [findLast_eq cs s sep hs]
  cases h : lastOcc cs s sep.bytes with
  | some i =>
    have hl := (lastOcc_some h).2.1.1
    rw [if_pos (show idx (some i) ≥ 0 from Int.natCast_nonneg i)]
    exact left_take_good s i hs (by omega)
  | none =>
    rw [if_neg (show ¬ idx none ≥ 0 from by decide)]
    exact good_empty s

theorem afterLast_good (cs : CaseMode) (s : List Nat) (sep : Sep) (hs : s.length < 2^63) :
    Good s (Spec.Slice.afterLast cs s sep.bytes) (afterLast cs s sep) := by
  unfold afterLast Spec.Slice.afterLast
  simp only [findLast_eq cs s sep hs]
  cases h : lastOcc cs s sep.bytes with
  | some i =>
    have hl := (lastOcc_some h).2.1.1
    rw [if_pos (show idx (some i) ≥ 0 from Int.natCast_nonneg i)]
    show Good s (s.drop (i + sep.bytes.length)) (substr s (skipOf .fixed (i : Int) sep) SIZE_MAX)
    rw [skipOf_eq sep i (by omega), ← spec_substr_auto s _ hl]
    exact substr_good s _ _ hs (by omega) (by omega)
  | none =>
    rw [if_neg (show ¬ idx none ≥ 0 from by decide)]
    exact good_whole s

end StVerif.Lemmas.Slice
