/-
  Value forms of three specification lemmas of `Lemmas/StrPool.lean` whose originals leave a value
  existentially quantified (C04/C18 did not need it): the result of `string + char32_t` / `+= char32_t`
  and the moved-from buffer of `set(char_buffer&&)`.  C20's locality argument needs the values
  themselves: a thread's own objects must report the same values under every schedule.
-/
import StVerif.Lemmas.StrPoolOps

namespace StVerif.StrPool
open StVerif StVerif.Pool

theorem overwrite_zero_then_tail {X U B : List Nat} (h : X.length = U.length + B.length) :
    overwrite (overwrite X 0 U) U.length B = U ++ B := by
  simp only [overwrite, List.take_zero, List.nil_append, Nat.zero_add]
  rw [List.take_left' rfl]
  have : (U ++ List.drop U.length X).drop (U.length + B.length) = [] := by
    apply List.drop_eq_nil_of_le
    simp; omega
  rw [this]; simp

/-- `operator+(const string&, char32_t)` into the dead id `d`, with the value of the result -/
theorem concatCharInto_value {p : Pool} (hI : Inv p) (hF : p.failAt = none) {d l : Nat} {bl : Buf}
    (hd : p.objs d = none) (hl : p.objs l = some bl) (hA : p.objs tmpA = none) (hdA : d ≠ tmpA) (ch : Nat)
    {bytes : List Nat} (hw : Utf.writeUtf8 ch = some bytes) :
    ∃ p', concatCharInto d l ch p = .ok () p' ∧ Succ p p' (fun x => x = d ∨ x = tmpA) ∧
        p'.objs tmpA = none ∧ p'.failAt = none ∧ view p' d = some ((units p bl ++ bytes).length, units p bl ++ bytes) := by
  have hlen : (units p bl).length = bl.size := (hI.view_length (view_of_alive hl)).1
  obtain ⟨p1, h1, s1, q1, f1⟩ := step hI hF (.ctorDefault tmpA) hA
  obtain ⟨b1, hb1⟩ := alive_of_view q1
  obtain ⟨p2, h2, s2, ⟨us2, hus2, q2⟩, f2⟩ := step s1.inv f1 (.allocate tmpA ((units p bl).length + Utf.utf8Measure ch)) ⟨b1, hb1⟩
  obtain ⟨b2, hb2⟩ := alive_of_view q2
  have hsz2 : b2.size = (units p bl).length + Utf.utf8Measure ch := view_size hb2 q2
  obtain ⟨p3, h3, s3, ⟨sz3, old3, q3a, _, q3c⟩, f3⟩ := step s2.inv f2 (.writeData tmpA 0 (units p bl)) ⟨b2, hb2, by omega⟩
  obtain ⟨b3, hb3⟩ := alive_of_view q3c
  rw [q2] at q3a
  have e3 : (units p bl).length + Utf.utf8Measure ch = sz3 ∧ us2 = old3 := by simpa using q3a
  obtain ⟨e3a, e3b⟩ := e3
  have hsz3 : b3.size = (units p bl).length + Utf.utf8Measure ch := by rw [view_size hb3 q3c, e3a]
  simp only [Op.run] at h1 h2 h3
  have hbl : bytes.length = Utf.utf8Measure ch := writeUtf8_length hw
  obtain ⟨p4, h4, s4, ⟨sz4, old4, q4a, _, q4c⟩, f4⟩ := step s3.inv f3 (.writeData tmpA (units p bl).length bytes) ⟨b3, hb3, by omega⟩
  obtain ⟨b4, hb4⟩ := alive_of_view q4c
  rw [q3c] at q4a
  have e4 : sz3 = sz4 ∧ overwrite old3 0 (units p bl) = old4 := by simpa using q4a
  obtain ⟨e4a, e4b⟩ := e4
  have hd4 : p4.objs d = none := by
    rw [s4.objs d hdA, s3.objs d hdA, s2.objs d hdA, s1.objs d hdA]; exact hd
  obtain ⟨p5, h5, s5, ⟨q5a, q5b⟩, f5⟩ := step s4.inv f4 (.ctorMove d tmpA) ⟨hd4, b4, hb4⟩
  obtain ⟨p6, h6, s6, q6, f6⟩ := dtor_step s5.inv f5 (alive_of_view q5b)
  simp only [Op.run] at h4 h5
  refine ⟨p6, ?_, ?_, q6, f6, ?_⟩
  · have hbody : (do allocate tmpA ((units p bl).length + Utf.utf8Measure ch); writeData tmpA 0 (units p bl);
                     (match Utf.writeUtf8 ch with
                      | some bytes => do writeData tmpA (units p bl).length bytes; ctorMove d tmpA
                      | none => throwE .unicodeError : M Unit)) p1 = .ok () p5 := by
      simp [h2, h3, hw, h4, h5]
    have hwt := withTemp_ok hbody h6
    simp only [concatCharInto, bind_apply, getObj_some hl, read_units hI hl, h1]
    exact hwt
  · have s14 : Succ p p4 (fun x => x = d ∨ x = tmpA) :=
      (((s1.trans s2).trans s3).trans s4).mono (fun x h => Or.inr h)
    exact Succ.trans' (Succ.trans' s14 s5 (fun x h => h) (fun x h => h)) s6 (fun x h => h) (fun x h => Or.inr h)
  · rw [s6.view d (by simpa using hdA), q5a, q4c, ← e4b, ← e3b]
    have hX : us2.length = (units p bl).length + bytes.length := by rw [hus2, hbl]
    rw [overwrite_zero_then_tail hX]
    simp only [Option.some.injEq, Prod.mk.injEq, and_true]
    rw [← e4a, ← e3a, List.length_append, hbl]

/-- `o += ch` for an encodable code point, with the value -/
theorem appendChar_value {p : Pool} (hI : Inv p) (hF : p.failAt = none) {o : Nat} {bo : Buf}
    (ho : p.objs o = some bo) (hA : p.objs tmpA = none) (hB : p.objs tmpB = none) (hoA : o ≠ tmpA) (hoB : o ≠ tmpB) (ch : Nat)
    {bytes : List Nat} (hw : Utf.writeUtf8 ch = some bytes) :
    ∃ p', appendChar o ch p = .ok () p' ∧ view p' o = some ((units p bo ++ bytes).length, units p bo ++ bytes) := by
  obtain ⟨p1, h1, s1, a1, f1, v1⟩ := concatCharInto_value hI hF hB ho hA tmpB_ne_tmpA ch hw
  obtain ⟨bB, hbB⟩ := alive_of_view v1
  have ho1 : p1.objs o = some bo := by
    rw [s1.objs o (by intro h; rcases h with h | h; exact hoB h; exact hoA h)]; exact ho
  obtain ⟨p2, h2, s2, ⟨q2a, q2b⟩, f2⟩ := step s1.inv f1 (.assignMove o tmpB) ⟨⟨bo, ho1⟩, bB, hbB⟩
  have hB2 : ∃ b, p2.objs tmpB = some b := by rw [view_of_alive ho1] at q2b; exact alive_of_view q2b
  obtain ⟨p3, h3, s3, q3, f3⟩ := dtor_step s2.inv f2 hB2
  refine ⟨p3, ?_, ?_⟩
  · simp only [Op.run] at h2
    have hwt : withTemp tmpB (assignMove o tmpB) p1 = .ok () p3 := withTemp_ok h2 h3
    simp [appendChar, h1, hwt]
  · rw [s3.view o (by simpa using hoB), q2a, v1]

/-- `o += ch` above U+10FFFF throws -/
theorem appendChar_throws {p : Pool} (hI : Inv p) (hF : p.failAt = none) {o : Nat} {bo : Buf}
    (ho : p.objs o = some bo) (hA : p.objs tmpA = none) (hB : p.objs tmpB = none) (hoA : o ≠ tmpA) (hoB : o ≠ tmpB) (ch : Nat)
    (hw : Utf.writeUtf8 ch = none) : ∃ p', appendChar o ch p = .throw .unicodeError p' := by
  rcases appendChar_spec hI hF ho hA hB hoA hoB ch with ⟨hs, _⟩ | ⟨_, p', h1, _⟩
  · rw [hw] at hs; cases hs
  · exact ⟨p', h1⟩

/-- `set(char_buffer &&init, validation)` with `init` = object `b ≠ o`, with the value the moved-from buffer is left with:
    what `o` held before (the two are swapped), or its own value when the text was repaired into a new buffer -/
theorem setBufMove_value {p : Pool} (hI : Inv p) (hF : p.failAt = none) {o b : Nat} {bo bb : Buf}
    (ho : p.objs o = some bo) (hb : p.objs b = some bb) (hC : p.objs tmpC = none) (hoC : o ≠ tmpC) (hbo : b ≠ o) (hbC : b ≠ tmpC)
    (m : Mode) (hn : ¬ setThrows m (units p bb)) :
    ∃ p', setBufMove o b m p = .ok () p' ∧ Succ p p' (fun x => x = o ∨ x = b ∨ x = tmpC) ∧ p'.objs tmpC = none ∧ p'.failAt = none ∧
      view p' o = some ((setVal m (units p bb)).length, setVal m (units p bb)) ∧
      view p' b = (if m = .substituteInvalid then view p b else view p o) := by
  have hlen : (units p bb).length = bb.size := (hI.view_length (view_of_alive hb)).1
  have mv : ∃ p', assignMove o b p = .ok () p' ∧ Succ p p' (fun x => x = o ∨ x = b ∨ x = tmpC) ∧
        p'.objs tmpC = none ∧ p'.failAt = none ∧ view p' o = some ((units p bb).length, units p bb) ∧ view p' b = view p o := by
    obtain ⟨p1, h1, s1, ⟨q1a, q1b⟩, f1⟩ := step hI hF (.assignMove o b) ⟨⟨bo, ho⟩, bb, hb⟩
    refine ⟨p1, h1, s1.mono (fun x h => by rcases h with h | h <;> simp [h]), ?_, f1, ?_, q1b⟩
    · rw [s1.objs tmpC (by simp only [Op.T]; intro h; rcases h with h | h; exact hoC h.symm; exact hbC h.symm)]; exact hC
    · rw [q1a, view_of_alive hb, hlen]
  cases m with
  | assumeValid =>
    obtain ⟨p', h1, s1, c1, f1, v1, w1⟩ := mv
    exact ⟨p', by simpa [setBufMove] using h1, s1, c1, f1, by simpa [setVal] using v1, by simpa using w1⟩
  | checkValidity =>
    have hv : Utf.validateUtf8 (units p bb) = 0 := Decidable.byContradiction fun h => hn ⟨rfl, h⟩
    obtain ⟨p', h1, s1, c1, f1, v1, w1⟩ := mv
    exact ⟨p', by simp [setBufMove, validateObj_ok hI hb hv, h1], s1, c1, f1, by simpa [setVal] using v1, by simpa using w1⟩
  | substituteInvalid =>
    obtain ⟨p', h1, s1, q1, f1, v1⟩ := setSubst_spec hI hF ho hb hC hoC
    refine ⟨p', by simpa [setBufMove] using h1, s1.mono (fun x h => by rcases h with h | h <;> simp [h]), q1, f1, by simpa [setVal] using v1, ?_⟩
    simp only [if_true]
    exact s1.view b (by intro h; rcases h with h | h; exact hbo h; exact hbC h)

end StVerif.StrPool
