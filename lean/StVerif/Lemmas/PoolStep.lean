/-
  One step of a history: precondition of each `Pool.Op`, the uniform statement
  `run_spec` (every operation started under `Inv` and its precondition completes, or throws
  `bad_alloc` exactly when the fault schedule fails its allocation; never a `fault`), and the
  refinement relation between `Spec.Store` states and pools with its preservation.
-/
import StVerif.Lemmas.PoolOps
import StVerif.Spec.Store

namespace StVerif.Pool
open StVerif.Spec.Store

/-- constructor targets are dead ids, every other named object is alive, stores stay within `size()` -/
def pre : Op → Pool → Prop
  | .ctorDefault o, p => p.objs o = none
  | .ctorUnits o _, p => p.objs o = none
  | .ctorCopy o s, p => p.objs o = none ∧ ∃ c, p.objs s = some c
  | .ctorMove o s, p => p.objs o = none ∧ ∃ c, p.objs s = some c
  | .dtor o, p => ∃ b, p.objs o = some b
  | .clear o, p => ∃ b, p.objs o = some b
  | .assignCopy o s, p => (∃ b, p.objs o = some b) ∧ ∃ c, p.objs s = some c
  | .assignMove o s, p => (∃ b, p.objs o = some b) ∧ ∃ c, p.objs s = some c
  | .allocate o _, p => ∃ b, p.objs o = some b
  | .allocateFill o _ _, p => ∃ b, p.objs o = some b
  | .writeData o a us, p => ∃ b, p.objs o = some b ∧ a + us.length ≤ b.size

/-- the objects an operation may change (its target, and the source of a move) -/
def Op.T : Op → Nat → Prop
  | .ctorDefault o | .ctorUnits o _ | .ctorCopy o _ | .dtor o | .clear o | .assignCopy o _
  | .allocate o _ | .allocateFill o _ _ | .writeData o _ _ => fun x => x = o
  | .ctorMove o s | .assignMove o s => fun x => x = o ∨ x = s

/-- what the operands report after a completed operation, in terms of what was reported before -/
def okPost (p : Pool) : Op → Pool → Prop
  | .ctorDefault o, p' => view p' o = some (0, [])
  | .ctorUnits o us, p' => view p' o = some (us.length, us)
  | .ctorCopy o s, p' => view p' o = view p s
  | .ctorMove o s, p' => view p' o = view p s ∧ view p' s = some (0, [])
  | .dtor o, p' => view p' o = none
  | .clear o, p' => view p' o = some (0, [])
  | .assignCopy o s, p' => view p' o = view p s
  | .assignMove o s, p' => view p' o = view p s ∧ view p' s = view p o
  | .allocate o n, p' => ∃ us, us.length = n ∧ view p' o = some (n, us)
  | .allocateFill o n v, p' => view p' o = some (n, List.replicate n v)
  | .writeData o a us, p' => ∃ sz old, view p o = some (sz, old) ∧ a + us.length ≤ sz ∧ view p' o = some (sz, overwrite old a us)

/-- the target after `bad_alloc`: never constructed, its previous value, or empty -/
def throwPost (p : Pool) : Op → Pool → Prop
  | .ctorUnits o _, p' | .ctorCopy o _, p' => view p' o = none
  | .assignCopy o _, p' => view p' o = view p o ∨ view p' o = some (0, [])
  | .allocate o _, p' | .allocateFill o _ _, p' => view p' o = some (0, [])
  | _, _ => False

theorem view_none_of_objs {p p' : Pool} {o : Nat} (h : ∀ x, p'.objs x = p.objs x) (ho : p.objs o = none) : view p' o = none := by
  simp [view, h o, ho]

/-- **every operation, every case**: under the invariant and the precondition the do-block ends in `.ok`, or in
    `.throw badAlloc` when (and only when) the fault schedule fails its allocation; `Succ` holds either way. -/
theorem run_spec {p : Pool} (hI : Inv p) (op : Op) (hpre : pre op p) :
    Outcome (op.run p) p op.T (okPost p op) (throwPost p op) := by
  cases op with
  | ctorDefault o => exact Or.inl (ctorDefault_spec hI hpre)
  | ctorUnits o us =>
    by_cases hs : us.length < p.L
    · exact Or.inl (ctorUnits_short hI hpre hs)
    · by_cases hf : p.failAt = some (p.allocs + 1)
      · obtain ⟨p', h1, h2, h3⟩ := ctorUnits_long_throw hI (o := o) (us := us) (Nat.le_of_not_lt hs) hf (· = o)
        exact Or.inr ⟨p', h1, hf, h2, view_none_of_objs h3 hpre⟩
      · exact Or.inl (ctorUnits_long_ok hI hpre (Nat.le_of_not_lt hs) hf)
  | ctorCopy o s =>
    obtain ⟨ho, c, hc⟩ := hpre
    by_cases hs : c.size < p.L
    · exact Or.inl (ctorCopy_short hI ho hc hs)
    · by_cases hf : p.failAt = some (p.allocs + 1)
      · obtain ⟨p', h1, h2, h3⟩ := ctorCopy_long_throw hI (o := o) hc (Nat.le_of_not_lt hs) hf (· = o)
        exact Or.inr ⟨p', h1, hf, h2, view_none_of_objs h3 ho⟩
      · exact Or.inl (ctorCopy_long_ok hI ho hc (Nat.le_of_not_lt hs) hf)
  | ctorMove o s =>
    obtain ⟨ho, c, hc⟩ := hpre
    by_cases hs : c.size < p.L
    · exact Or.inl (ctorMove_short hI ho hc hs)
    · exact Or.inl (ctorMove_long hI ho hc (Nat.le_of_not_lt hs))
  | dtor o =>
    obtain ⟨b, hb⟩ := hpre
    by_cases hs : b.size < p.L
    · exact Or.inl (dtor_short hI hb hs)
    · exact Or.inl (dtor_long hI hb (Nat.le_of_not_lt hs))
  | clear o =>
    obtain ⟨b, hb⟩ := hpre
    by_cases hs : b.size < p.L
    · exact Or.inl (clear_short hI hb hs)
    · exact Or.inl (clear_long hI hb (Nat.le_of_not_lt hs))
  | assignCopy o s =>
    obtain ⟨⟨b, hb⟩, c, hc⟩ := hpre
    exact assignCopy_spec hI hb hc
  | assignMove o s =>
    obtain ⟨⟨b, hb⟩, c, hc⟩ := hpre
    exact Or.inl (assignMove_spec hI hb hc)
  | allocate o n =>
    obtain ⟨b, hb⟩ := hpre
    exact allocate_spec hI n hb
  | allocateFill o n v =>
    obtain ⟨b, hb⟩ := hpre
    exact allocateFill_spec hI n v hb
  | writeData o a us =>
    obtain ⟨b, hb, hr⟩ := hpre
    obtain ⟨p', h1, h2, old, h3, h4⟩ := writeData_spec hI hb hr
    exact Or.inl ⟨p', h1, h2, b.size, old, h3, hr, h4⟩

/-- with no fault scheduled an operation cannot throw -/
theorem run_ok {p : Pool} (hI : Inv p) (hF : p.failAt = none) (op : Op) (hpre : pre op p) :
    ∃ p', op.run p = .ok () p' ∧ Succ p p' op.T ∧ okPost p op p' := by
  rcases run_spec hI op hpre with h | ⟨_, _, hf, _⟩
  · exact h
  · rw [hF] at hf; cases hf

/-! ### refinement -/

/-- value of the spec store against report of the pool, per object -/
def RelO : Option Val → Option (Nat × List Nat) → Prop
  | none, none => True
  | some v, some w => Matches v w
  | _, _ => False

/-- each live object reports the size and exactly the specified elements of the last value given to it
    (a moved-from object: some value); the same objects are alive on both sides -/
def R (s : Store) (p : Pool) : Prop := ∀ o, RelO (s o) (view p o)

theorem RelO.some_of_view {v : Option Val} {w : Nat × List Nat} (h : RelO v (some w)) : ∃ v', v = some v' ∧ Matches v' w := by
  cases v with
  | none => exact h.elim
  | some v' => exact ⟨v', rfl, h⟩

theorem view_some_of_objs {p : Pool} {o : Nat} {b : Buf} (h : p.objs o = some b) : ∃ w, view p o = some w := by
  simp [view, h]

theorem set_same (s : Store) (o : Nat) (v : Val) : s.set o v o = some v := by simp [Store.set]
theorem set_other (s : Store) {o x : Nat} (v : Val) (h : x ≠ o) : s.set o v x = s x := by simp [Store.set, h]

theorem matches_write {xs : List (Option Nat)} {sz a : Nat} {old us : List Nat} (h : Matches (.known xs) (sz, old))
    (hr : a + us.length ≤ sz) : Matches (writeVal (.known xs) a us) (sz, overwrite old a us) := by
  obtain ⟨h1, h2, h3⟩ := h
  refine ⟨?_, ?_, ?_⟩
  · simp; omega
  · rw [length_overwrite (by omega)]; exact h2
  · intro i x hx
    by_cases hi : i < a
    · rw [getElem?_overwrite_lt (by omega) hi]
      apply h3
      rw [← hx]
      simp only [List.append_assoc]
      rw [List.getElem?_append_left (by simp; omega)]
      simp [hi]
    · by_cases hi2 : i < a + us.length
      · obtain ⟨j, rfl⟩ : ∃ j, i = a + j := ⟨i - a, by omega⟩
        rw [getElem?_overwrite_mid (by omega) (by omega)]
        simp only [List.append_assoc] at hx
        rw [List.getElem?_append_right (by simp; omega)] at hx
        rw [List.getElem?_append_left (by simp; omega)] at hx
        have e : a + j - (List.take a xs).length = j := by simp; omega
        rw [e] at hx
        simp only [List.getElem?_map] at hx
        cases hu : us[j]? with
        | none => rw [hu] at hx; simp at hx
        | some y => rw [hu] at hx; simp at hx; rw [hx]
      · rw [getElem?_overwrite_ge (by omega) (by omega)]
        apply h3
        rw [← hx]
        rw [List.getElem?_append_right (by simp; omega)]
        simp only [List.length_append, List.length_take, List.length_map, List.getElem?_drop]
        congr 1
        omega

/-- **refinement**: one completed step of the machine is one step of the specification -/
theorem refines_step {s : Store} {p p' : Pool} (hR : R s p) (op : Op) (hpre : pre op p)
    (hS : Succ p p' op.T) (hpost : okPost p op p') : R (step s op) p' := by
  intro x
  have hfr : ∀ x, ¬ op.T x → RelO (s x) (view p' x) := fun x hx => by rw [hS.view x hx]; exact hR x
  cases op with
  | ctorDefault o =>
    by_cases hx : x = o
    · subst hx; simp only [step, set_same]; rw [hpost]; exact ⟨rfl, rfl, fun i y h => by simp at h⟩
    · simp only [step, set_other _ _ hx]; exact hfr x hx
  | ctorUnits o us =>
    by_cases hx : x = o
    · subst hx; simp only [step, set_same]; rw [hpost]
      refine ⟨by simp, rfl, fun i y h => ?_⟩
      simp only [List.getElem?_map] at h
      cases hu : us[i]? with
      | none => rw [hu] at h; simp at h
      | some z => rw [hu] at h; simp at h; rw [h]
    · simp only [step, set_other _ _ hx]; exact hfr x hx
  | ctorCopy o src =>
    obtain ⟨_, c, hc⟩ := hpre
    obtain ⟨w, hw⟩ := view_some_of_objs hc
    obtain ⟨v, hv, hm⟩ := RelO.some_of_view (hw ▸ hR src)
    simp only [step, Store.get, hv]
    by_cases hx : x = o
    · subst hx; simp only [set_same]; rw [hpost, hw]; exact hm
    · simp only [set_other _ _ hx]; exact hfr x hx
  | ctorMove o src =>
    obtain ⟨ho, c, hc⟩ := hpre
    have hne : o ≠ src := fun e => by rw [e, hc] at ho; cases ho
    obtain ⟨w, hw⟩ := view_some_of_objs hc
    obtain ⟨v, hv, hm⟩ := RelO.some_of_view (hw ▸ hR src)
    simp only [step, Store.get, hv]
    by_cases hx : x = src
    · subst hx; simp only [set_same]; rw [hpost.2]; exact True.intro
    · by_cases hx2 : x = o
      · subst hx2; simp only [set_other _ _ hx, set_same]; rw [hpost.1, hw]; exact hm
      · simp only [set_other _ _ hx, set_other _ _ hx2]
        exact hfr x (fun h => h.elim hx2 hx)
  | dtor o =>
    by_cases hx : x = o
    · subst hx; simp only [step, Store.erase, ↓reduceIte]; rw [hpost]; exact True.intro
    · simp only [step, Store.erase, hx, ↓reduceIte]; exact hfr x hx
  | clear o =>
    by_cases hx : x = o
    · subst hx; simp only [step, set_same]; rw [hpost]; exact ⟨rfl, rfl, fun i y h => by simp at h⟩
    · simp only [step, set_other _ _ hx]; exact hfr x hx
  | assignCopy o src =>
    obtain ⟨_, c, hc⟩ := hpre
    obtain ⟨w, hw⟩ := view_some_of_objs hc
    obtain ⟨v, hv, hm⟩ := RelO.some_of_view (hw ▸ hR src)
    simp only [step, Store.get, hv]
    by_cases hx : x = o
    · subst hx; simp only [set_same]; rw [hpost, hw]; exact hm
    · simp only [set_other _ _ hx]; exact hfr x hx
  | assignMove o src =>
    obtain ⟨⟨b, hb⟩, c, hc⟩ := hpre
    obtain ⟨w, hw⟩ := view_some_of_objs hc
    obtain ⟨v, hv, hm⟩ := RelO.some_of_view (hw ▸ hR src)
    by_cases hne : o = src
    · subst hne
      simp only [step, ↓reduceIte]
      by_cases hx : x = o
      · subst hx; simp only [set_same]; rw [hpost.1, hw]; exact True.intro
      · simp only [set_other _ _ hx]; exact hfr x (fun h => h.elim hx hx)
    · simp only [step, hne, ↓reduceIte, Store.get, hv]
      by_cases hx : x = src
      · subst hx; simp only [set_same]
        obtain ⟨w', hw'⟩ := view_some_of_objs hb
        rw [hpost.2, hw']; exact True.intro
      · by_cases hx2 : x = o
        · subst hx2; simp only [set_other _ _ hx, set_same]; rw [hpost.1, hw]; exact hm
        · simp only [set_other _ _ hx, set_other _ _ hx2]
          exact hfr x (fun h => h.elim hx2 hx)
  | allocate o n =>
    by_cases hx : x = o
    · subst hx; simp only [step, set_same]
      obtain ⟨us, hlen, hv⟩ := hpost
      rw [hv]
      exact ⟨by simp, hlen, fun i y h => by simp [List.getElem?_replicate] at h⟩
    · simp only [step, set_other _ _ hx]; exact hfr x hx
  | allocateFill o n v =>
    by_cases hx : x = o
    · subst hx; simp only [step, set_same]
      rw [hpost]
      refine ⟨by simp, by simp, fun i y h => ?_⟩
      simp only [List.getElem?_replicate] at h ⊢
      split at h
      · simp at h; simp [*]
      · cases h
    · simp only [step, set_other _ _ hx]; exact hfr x hx
  | writeData o a us =>
    obtain ⟨sz, old, hv, hr, hv'⟩ := hpost
    obtain ⟨v, hsv, hm⟩ := RelO.some_of_view (hv ▸ hR o)
    simp only [step, Store.get, hsv]
    by_cases hx : x = o
    · subst hx; simp only [set_same]; rw [hv']
      cases v with
      | anyValue => exact True.intro
      | known xs => exact matches_write hm hr
    · simp only [set_other _ _ hx]; exact hfr x hx

/-! ### observation, destruction of everything, histories -/

theorem view_eq_none {p : Pool} {o : Nat} : view p o = none ↔ p.objs o = none := by
  simp [view]

/-- every live object of a state satisfying the invariant can be read through `data()`/`size()`:
    the observation never faults, reports `view`, a NUL after the last element, and storage of the right kind -/
theorem observe_spec {p : Pool} (hI : Inv p) {o : Nat} {b : Buf} (ho : p.objs o = some b) :
    ∃ ob, observe o p = .ok ob p ∧ view p o = some (ob.size, ob.units) ∧ ob.size = b.size ∧ ob.units.length = ob.size ∧
      ob.terminator = 0 ∧ (ob.ownStorage = true ↔ b.size < p.L) ∧ (ob.block.isSome = true ↔ p.L ≤ b.size) := by
  by_cases hs : b.size < p.L
  · obtain ⟨hc, hterm, hlen⟩ := hI.short_chars ho hs
    simp only [observe, bind_apply, getObj_some ho, hc, readUnits_loc ho (show b.size + 1 ≤ b.data.length by omega), pure_apply]
    refine ⟨_, rfl, ?_, rfl, ?_, ?_, ?_, ?_⟩
    · rw [view_short ho hc]; simp [List.take_take]
    · simp [List.length_take]; omega
    · simp only [List.getD_eq_getElem?_getD, List.getElem?_take, Nat.lt_succ_self, ↓reduceIte, hterm]; rfl
    · simp [hs]
    · simp; omega
  · have hl : p.L ≤ b.size := by omega
    obtain ⟨k, blk, hc, hblk, hlen, hterm, _⟩ := hI.owner_block ho hl
    simp only [observe, bind_apply, getObj_some ho, hc, readUnits_heap hblk (show b.size + 1 ≤ blk.length by omega), pure_apply]
    refine ⟨_, rfl, ?_, rfl, ?_, ?_, ?_, ?_⟩
    · rw [view_long ho hc hblk]; simp [List.take_take]
    · simp [List.length_take]; omega
    · simp only [List.getD_eq_getElem?_getD, List.getElem?_take, Nat.lt_succ_self, ↓reduceIte, hterm]; rfl
    · simp; omega
    · simp [hl]

/-- run the destructor of each listed object, in list order -/
def destroyAll : List Nat → M Unit
  | [] => pure ()
  | o :: os => dtor o >>= fun _ => destroyAll os

theorem dtor_ok {p : Pool} (hI : Inv p) {o : Nat} {b : Buf} (ho : p.objs o = some b) :
    ∃ p', dtor o p = .ok () p' ∧ Succ p p' (· = o) ∧ p'.objs o = none := by
  rcases run_spec hI (.dtor o) ⟨b, ho⟩ with ⟨p', h1, h2, h3⟩ | ⟨_, _, _, _, hf⟩
  · exact ⟨p', h1, h2, view_eq_none.1 h3⟩
  · exact hf.elim

/-- destroying every live object, in any order, succeeds and leaves no object and an empty heap -/
theorem destroyAll_spec {p : Pool} (hI : Inv p) (os : List Nat) (hnd : os.Nodup)
    (hall : ∀ o, (p.objs o).isSome = true ↔ o ∈ os) :
    ∃ p', destroyAll os p = .ok () p' ∧ (∀ o, p'.objs o = none) ∧ (∀ k, p'.heap k = none) ∧ Inv p' := by
  induction os generalizing p with
  | nil =>
    have hdead : ∀ o, p.objs o = none := fun o => by
      cases h : p.objs o with
      | none => rfl
      | some b => exact absurd ((hall o).1 (by simp [h])) (by simp)
    refine ⟨p, rfl, hdead, fun k => ?_, hI⟩
    cases hk : p.heap k with
    | none => rfl
    | some blk =>
      obtain ⟨o, b, hb, _⟩ := hI.noLeak k blk hk
      rw [hdead o] at hb; cases hb
  | cons o os ih =>
    have halive : (p.objs o).isSome = true := (hall o).2 (by simp)
    obtain ⟨b, hb⟩ := Option.isSome_iff_exists.1 halive
    obtain ⟨p₁, h1, hS, hdead⟩ := dtor_ok hI hb
    have hnd' := List.nodup_cons.1 hnd
    have hall' : ∀ x, (p₁.objs x).isSome = true ↔ x ∈ os := by
      intro x
      by_cases hx : x = o
      · subst hx; simp [hdead, hnd'.1]
      · rw [hS.objs x hx, hall x]; simp [hx]
    obtain ⟨p', h2, h3⟩ := ih hS.inv hnd'.2 hall'
    exact ⟨p', by simp only [destroyAll, bind_apply, h1, h2], h3⟩

/-- the states reachable from the empty pool by a history of operations each executed under its precondition,
    together with the specification store the same history produces -/
inductive Reach (L : Nat) : Store → Pool → Prop
  | init : Reach L Store.empty (Pool.init L)
  | step {s : Store} {p p' : Pool} (op : Op) : Reach L s p → pre op p → op.run p = .ok () p' → Reach L (step s op) p'

/-- the ids an operation names -/
def Op.ids : Op → List Nat
  | .ctorDefault o | .ctorUnits o _ | .dtor o | .clear o | .allocate o _ | .allocateFill o _ _ | .writeData o _ _ => [o]
  | .ctorCopy o s | .ctorMove o s | .assignCopy o s | .assignMove o s => [o, s]

theorem Op.T_ids (op : Op) (x : Nat) : op.T x → x ∈ op.ids := by
  cases op <;> simp [Op.T, Op.ids] <;> intro h <;> simp [h]

/-- a finite superset of the live ids can be turned into the exact duplicate-free list of live ids -/
theorem exact_live_list (p : Pool) (cs : List Nat) :
    ∃ os : List Nat, os.Nodup ∧ ∀ o, o ∈ os ↔ (o ∈ cs ∧ (p.objs o).isSome = true) := by
  induction cs with
  | nil => exact ⟨[], List.nodup_nil, fun o => by simp⟩
  | cons c cs ih =>
    obtain ⟨os, hnd, h⟩ := ih
    by_cases hc : c ∈ os ∨ (p.objs c).isSome = false
    · refine ⟨os, hnd, fun o => ?_⟩
      rw [h o]
      constructor
      · rintro ⟨h1, h2⟩; exact ⟨List.mem_cons_of_mem _ h1, h2⟩
      · rintro ⟨h1, h2⟩
        rcases List.mem_cons.1 h1 with rfl | h1
        · rcases hc with hc | hc
          · exact (h o).1 hc
          · rw [hc] at h2; cases h2
        · exact ⟨h1, h2⟩
    · have hc1 : c ∉ os := fun h' => hc (Or.inl h')
      have hc2 : (p.objs c).isSome = true := by
        cases hh : (p.objs c).isSome with
        | true => rfl
        | false => exact absurd (Or.inr hh) hc
      refine ⟨c :: os, List.nodup_cons.2 ⟨hc1, hnd⟩, fun o => ?_⟩
      simp only [List.mem_cons, h o]
      constructor
      · rintro (rfl | ⟨h1, h2⟩)
        · exact ⟨Or.inl rfl, hc2⟩
        · exact ⟨Or.inr h1, h2⟩
      · rintro ⟨rfl | h1, h2⟩
        · exact Or.inl rfl
        · exact Or.inr ⟨h1, h2⟩

end StVerif.Pool
