/-
  C11 helper lemmas, part 3: the whole `apply_format` loop of the model equals the Spec's
  `renderFrom` (literal text, field grammar, argument selection, field rendering, repeat).
-/
import StVerif.Lemmas.FmtGrammar

namespace StVerif.Lemmas.Fmt
open StVerif StVerif.Fmt
open StVerif.Spec

theorem map_bind_congr {α α' β β' : Type} {x : Outcome α} {F : α → Outcome β} {g : α → α'} {g' : β → β'}
    {G : α' → Outcome β'} (h : ∀ a, (F a).map g' = G (g a)) : (x.bind F).map g' = (x.map g).bind G := by
  cases x with
  | ok a => exact h a
  | _ => rfl

/-- `renderFrom`, unfolded once -/
theorem renderFrom_unfold (s : List Nat) (args : List Arg) (seq : Nat) :
    Render.renderFrom s args seq =
      match (Render.splitLiteral s).2 with
      | [] => .ok (Render.splitLiteral s).1
      | _ :: body =>
        match Render.parseItems body {} with
        | none => .throw .badFormat
        | some (f, rest) =>
          match Render.select f seq args with
          | (none, _) => .throw .outOfRange
          | (some a, seq') =>
            (Render.renderField f a).bind fun bs =>
              (Render.renderFrom rest args seq').bind fun tail => .ok ((Render.splitLiteral s).1 ++ bs ++ tail) := by
  rw [Render.renderFrom.eq_def]
  split
  · rename_i lit hsl; simp [hsl]
  · rename_i lit c body hsl
    simp only [hsl]
    split
    · rename_i hp; simp [hp]
    · rename_i f rest hp
      simp only [hp]
      rfl

def OptSpecInt : Option FormatSpec → Prop
  | some f' => SpecInt f'
  | none => True

theorem flag_specInt' (c : Nat) (f : FormatSpec) (hf : SpecInt f) : OptSpecInt (Render.flag c f) := by
  unfold Render.flag
  simp only [apply_ite OptSpecInt]
  repeat' (apply ite_prop <;> intro _)
  all_goals first
    | exact hf
    | trivial

theorem flag_specInt (c : Nat) (f f' : FormatSpec) (hf : SpecInt f) (h : Render.flag c f = some f') : SpecInt f' := by
  have := flag_specInt' c f hf
  rw [h] at this
  exact this

/-- the parser only produces specs whose fields are `int`s -/
theorem parseItems_specInt (s : List Nat) (f f' : FormatSpec) (r : List Nat) (hf : SpecInt f)
    (h : Render.parseItems s f = some (f', r)) : SpecInt f' := by
  fun_induction Render.parseItems s f
  all_goals first
    | (simp at h; done)
    | (simp at h; obtain ⟨rfl, _⟩ := h; exact hf)
    | (rename_i ih; refine ih ?_ h
       first
         | exact hf
         | exact ⟨longToInt_range _, hf.2⟩
         | exact ⟨hf.1, longToInt_range _, hf.2.2⟩
         | exact ⟨hf.1, hf.2.1, longToInt_range _⟩)
    | (rename_i hfl ih; exact ih (flag_specInt _ _ _ hf hfl) h)

theorem specInt_default : SpecInt {} := by
  unfold SpecInt; decide

/-- `formatter_id` and the Spec's `select` pick the same argument -/
theorem select_eq (f : FormatSpec) (hf : SpecInt f) (index : Nat) (args : List Arg) (hn : args.length < 2 ^ 64) :
    Render.select f index args = (args[(formatterId f index).1]?, (formatterId f index).2) := by
  obtain ⟨_, _, h1, h2⟩ := hf
  unfold Render.select formatterId
  by_cases h0 : f.argIndex ≥ 0
  · simp only [h0, if_true]
    by_cases hge : f.argIndex ≥ 1
    · simp only [hge, if_true]
      rw [wrap64_of_nonneg (by omega) (by omega)]
    · have : f.argIndex = 0 := by omega
      simp only [this]
      have hw : wrap64 (0 - 1) = 18446744073709551615 := by decide
      have hl : args.length ≤ 18446744073709551615 := by
        have : (2 : Nat) ^ 64 = 18446744073709551616 := by decide
        omega
      rw [hw, List.getElem?_eq_none hl]
      simp
  · simp only [h0, if_false]

/-- hypotheses on the argument list under which the model and the Spec are compared -/
structure ArgsOk (args : List Arg) : Prop where
  inRange : ∀ a ∈ args, a.InRange
  libcRenders : ∀ a ∈ args, a.LibcRenders
  count : args.length < 2 ^ 64

theorem formattersOf_some {args : List Arg} {i : Nat} {a : Arg} (h : args[i]? = some a) (f : FormatSpec) :
    formattersOf args i f = formatType a f := by
  simp [formattersOf, h]

/-- **the `apply_format` loop renders what the Spec prescribes**, from any position of the format
    string and any sequential argument position -/
theorem applyLoop_eq_spec (fmt : List Nat) (hz : NoNul fmt) (args : List Arg) (ha : ArgsOk args) (pos index : Nat)
    (h : pos ≤ fmt.length) :
    (applyLoop fmt args.length (formattersOf args) pos index).map flatten = Render.renderFrom (fmt.drop pos) args index := by
  induction hm : fmt.length + 1 - pos using Nat.strongRecOn generalizing pos index with
  | _ m ih =>
    rw [applyLoop, renderFrom_unfold]
    have hn := nextFormat_spec fmt hz pos h
    have hs := nextFormat_sat fmt pos h
    revert hn hs
    cases nextFormat fmt pos with
    | ok r =>
      obtain ⟨ev, p, more⟩ := r
      simp only [Sat, Outcome.bind]
      intro ⟨h1, h2, h3⟩ ⟨hp0, hp1, hp2⟩
      cases more with
      | false =>
        rw [← h2, h3 rfl]
        simp [Outcome.map, h1]
      | true =>
        obtain ⟨hp, hc⟩ := hp2 rfl
        -- the text after the literal starts with the '{' at p
        have hdp : fmt.drop p = 123 :: fmt.drop (p + 1) := by
          have := drop_cons_of_lt hp
          rw [rd_of_lt hp] at hc; injection hc with hc
          rw [hc] at this; exact this
        rw [← h2, hdp]
        simp only [Bool.not_true, Bool.false_eq_true, if_false]
        have hpf := parseFormat_spec fmt hz p hp hc
        have hps := parseFormat_sat fmt p hp hc
        revert hpf hps
        cases parseFormat fmt p with
        | ok r =>
          obtain ⟨f, p'⟩ := r
          simp only [LoopRel, Sat, Outcome.bind]
          intro hpi ⟨hq1, hq2⟩
          rw [hpi]
          have hfi : SpecInt f := parseItems_specInt _ _ _ _ specInt_default hpi
          simp only [select_eq f hfi index args ha.count]
          by_cases hid : (formatterId f index).1 ≥ args.length
          · rw [List.getElem?_eq_none hid]
            simp [hid, Outcome.map]
          · have hlt : (formatterId f index).1 < args.length := by omega
            have hget : args[(formatterId f index).1]? = some (args[(formatterId f index).1]) := List.getElem?_eq_getElem hlt
            have hmem : args[(formatterId f index).1] ∈ args := List.getElem_mem hlt
            rw [hget]
            simp only [hid, if_false, formattersOf_some hget]
            have hg : pos < p' ∧ p' ≤ fmt.length := ⟨by omega, hq2⟩
            simp only [hg, and_self, dite_true]
            rw [← formatType_eq_spec _ f (ha.inRange _ hmem) hfi (ha.libcRenders _ hmem)]
            apply map_bind_congr
            intro ev'
            rw [← ih (fmt.length + 1 - p') (by omega) p' _ hq2 rfl]
            apply map_bind_congr
            intro rest
            simp [Outcome.map, h1]
        | throw e =>
          simp only [LoopRel, Sat, Outcome.bind]
          intro hpi he
          rw [hpi, he]
          rfl
        | _ => simp [Sat]
    | _ => simp [Sat]

end StVerif.Lemmas.Fmt
