/-
  Helper lemmas for C17: the never-failing sinks are concatenation; the UTF-8 segmentation and
  the reference transcoding distribute over concatenation behind a whole number of sequences.
-/
import StVerif.Model.Sinks
import StVerif.Lemmas.Utf8Split
import StVerif.Lemmas.UtfString
import StVerif.Lemmas.UtfStd

namespace StVerif.Lemmas.Sinks
open StVerif StVerif.Fmt StVerif.Utf StVerif.Sinks StVerif.Generated
open StVerif.Spec.Unicode
open StVerif.Lemmas.Utf StVerif.Lemmas.Utf8Split

/-! ### never-failing sinks -/

theorem putLoop_eq (x n : Nat) : putLoop x n = List.replicate n x := by
  induction n with
  | zero => rfl
  | succ k ih => simp [putLoop, ih, List.replicate_succ]

theorem runSink_eq (write : Event → List Nat) (ev : List Event) (buf : List Nat) :
    runSink write ev buf = buf ++ ev.flatMap write := by
  unfold runSink
  induction ev generalizing buf with
  | nil => simp
  | cons e rest ih => simp [List.foldl_cons, ih, List.append_assoc]

/-- a byte survives the round trip `char` → `int` → `unsigned char` -/
theorem wrap8_charVal (c : Nat) (h : c < 256) : wrapW 8 (charVal c) = c := by
  unfold wrapW charVal toSigned
  have e : c % 2 ^ 8 = c := Nat.mod_eq_of_lt (by omega)
  rw [e]
  split <;> omega

/-- an ASCII character converts to any wider character type unchanged -/
theorem widenChar_ascii (T : Enc) (c : Nat) (h : c < 0x80) : widenChar T c = c := by
  unfold widenChar wrapW charVal toSigned
  have e : c % 2 ^ 8 = c := Nat.mod_eq_of_lt (by omega)
  rw [e]
  have : c < 2 ^ (8 - 1) := by omega
  simp only [this, if_true]
  cases T <;> simp only [unitBits] <;> omega

/-- every event carries bytes -/
def EventsBytes (ev : List Event) : Prop :=
  ∀ e ∈ ev, match e with
    | .append bs => Bytes bs
    | .appendChar c _ => c < 256

theorem EventsBytes.cons {e : Event} {ev : List Event} (h : EventsBytes (e :: ev)) :
    EventsBytes [e] ∧ EventsBytes ev :=
  ⟨fun x hx => h x (by simp at hx; simp [hx]), fun x hx => h x (by simp [hx])⟩

theorem eventsBytes_flatten (ev : List Event) (h : EventsBytes ev) : Bytes (flatten ev) := by
  induction ev with
  | nil => intro x hx; simp at hx
  | cons e rest ih =>
    intro x hx
    rw [flatten_cons, List.mem_append] at hx
    rcases hx with hx | hx
    · have := h e (by simp)
      cases e with
      | append bs => exact this x hx
      | appendChar c n =>
        simp only [Event.bytes, List.mem_replicate] at hx
        simp only at this; omega
    · exact ih (fun e' he' => h e' (by simp [he'])) x hx

theorem fileWrite_eq (e : Event) (h : EventsBytes [e]) : fileWrite e = e.bytes := by
  cases e with
  | append bs => rfl
  | appendChar c n =>
    have hc : c < 256 := h (.appendChar c n) (by simp)
    simp [fileWrite, fputcByte, Event.bytes, putLoop_eq, wrap8_charVal c hc]

theorem ostreamWrite_eq (e : Event) (h : EventsBytes [e]) : ostreamWrite e = e.bytes := by
  cases e with
  | append bs => rfl
  | appendChar c n =>
    have hc : c < 256 := h (.appendChar c n) (by simp)
    simp [ostreamWrite, Event.bytes, putLoop_eq, wrap8_charVal c hc]

theorem streamWrite_eq (e : Event) : streamWrite e = e.bytes := by
  cases e <;> rfl

theorem flatMap_congr_mem {α β : Type} (l : List α) (f g : α → List β) (h : ∀ a ∈ l, f a = g a) : l.flatMap f = l.flatMap g := by
  induction l with
  | nil => rfl
  | cons a t ih =>
    simp only [List.flatMap_cons]
    rw [h a (by simp), ih (fun b hb => h b (by simp [hb]))]

theorem fileSink_eq (ev : List Event) (h : EventsBytes ev) : fileSink ev = flatten ev := by
  unfold fileSink flatten
  rw [runSink_eq, List.nil_append]
  exact flatMap_congr_mem ev _ _ fun e he => fileWrite_eq e (fun x hx => by simp at hx; subst hx; exact h x he)

theorem ostreamSink_eq (ev : List Event) (h : EventsBytes ev) : ostreamSink ev = flatten ev := by
  unfold ostreamSink flatten
  rw [runSink_eq, List.nil_append]
  exact flatMap_congr_mem ev _ _ fun e he => ostreamWrite_eq e (fun x hx => by simp at hx; subst hx; exact h x he)

theorem streamBytes_eq (ev : List Event) : streamBytes ev = flatten ev := by
  unfold streamBytes flatten
  rw [runSink_eq, List.nil_append]
  exact flatMap_congr_mem ev _ _ fun e _ => streamWrite_eq e

/-! ### segmentation behind a whole number of sequences -/

theorem seg_c1 (b : Nat) (t : List Nat) (h : b < 0x80) : segUtf8 (b :: t) = .good b [b] :: segUtf8 t := by
  rw [segUtf8.eq_def]; dsimp only; rw [if_pos h]

theorem seg_c2 (b0 b1 : Nat) (t : List Nat) (h0 : 0xC0 ≤ b0 ∧ b0 < 0xE0) (h1 : isCont b1 = true) :
    segUtf8 (b0 :: b1 :: t) = .good ((b0 - 0xC0) * 64 + (b1 - 0x80)) [b0, b1] :: segUtf8 t := by
  rw [segUtf8.eq_def]; dsimp only
  rw [if_neg (by omega), if_pos h0, if_pos h1]

theorem seg_c3 (b0 b1 b2 : Nat) (t : List Nat) (h0 : 0xE0 ≤ b0 ∧ b0 < 0xF0) (h1 : isCont b1 = true) (h2 : isCont b2 = true) :
    segUtf8 (b0 :: b1 :: b2 :: t) =
      .good ((b0 - 0xE0) * 4096 + (b1 - 0x80) * 64 + (b2 - 0x80)) [b0, b1, b2] :: segUtf8 t := by
  rw [segUtf8.eq_def]; dsimp only
  rw [if_neg (by omega), if_neg (by omega), if_pos h0, h1, h2]
  simp only [Bool.and_self, if_true]

theorem seg_c4 (b0 b1 b2 b3 : Nat) (t : List Nat) (h0 : 0xF0 ≤ b0 ∧ b0 < 0xF8) (h1 : isCont b1 = true) (h2 : isCont b2 = true)
    (h3 : isCont b3 = true) :
    segUtf8 (b0 :: b1 :: b2 :: b3 :: t) =
      .good ((b0 - 0xF0) * 262144 + (b1 - 0x80) * 4096 + (b2 - 0x80) * 64 + (b3 - 0x80)) [b0, b1, b2, b3] :: segUtf8 t := by
  rw [segUtf8.eq_def]; dsimp only
  rw [if_neg (by omega), if_neg (by omega), if_neg (by omega), if_pos h0, h1, h2, h3]
  simp only [Bool.and_self, if_true]

theorem isCont_of_Cont {b : Nat} (hb : b < 256) (h : Cont b) : isCont b = true := by
  have := cont_iff' hb
  by_cases q : isCont b = true
  · exact q
  · have q' : isCont b = false := by simpa using q
    rw [q'] at this
    simp only [eq_iff_iff, iff_true] at this
    exact absurd h this

/-- a whole number of UTF-8 sequences in front does not change how the rest is segmented -/
theorem segUtf8_append_valid (x y : List Nat) (hv : Valid x) (hb : Bytes x) :
    segUtf8 (x ++ y) = segUtf8 x ++ segUtf8 y := by
  induction hv with
  | nil => simp [segUtf8]
  | c1 b r hl _ ih =>
    rw [Bytes_cons] at hb
    rw [List.cons_append, seg_c1 b _ hl, seg_c1 b r hl, ih hb.2, List.cons_append]
  | c2 b0 b1 r hl hc _ ih =>
    simp only [Bytes_cons] at hb
    obtain ⟨h0, h1, hr⟩ := hb
    have r0 : 0xC0 ≤ b0 ∧ b0 < 0xE0 := by rw [← lead2_iff' h0]; exact hl.2
    have c1 := isCont_of_Cont h1 hc
    rw [List.cons_append, List.cons_append, seg_c2 b0 b1 _ r0 c1, seg_c2 b0 b1 r r0 c1, ih hr, List.cons_append]
  | c3 b0 b1 b2 r hl hc1 hc2 _ ih =>
    simp only [Bytes_cons] at hb
    obtain ⟨h0, h1, h2, hr⟩ := hb
    have r0 : 0xE0 ≤ b0 ∧ b0 < 0xF0 := by rw [← lead3_iff' h0]; exact hl.2.2
    have c1 := isCont_of_Cont h1 hc1
    have c2 := isCont_of_Cont h2 hc2
    rw [List.cons_append, List.cons_append, List.cons_append, seg_c3 b0 b1 b2 _ r0 c1 c2, seg_c3 b0 b1 b2 r r0 c1 c2, ih hr,
      List.cons_append]
  | c4 b0 b1 b2 b3 r hl hc1 hc2 hc3 _ ih =>
    simp only [Bytes_cons] at hb
    obtain ⟨h0, h1, h2, h3, hr⟩ := hb
    have r0 : 0xF0 ≤ b0 ∧ b0 < 0xF8 := by rw [← lead4_iff' h0]; exact hl.2.2.2
    have c1 := isCont_of_Cont h1 hc1
    have c2 := isCont_of_Cont h2 hc2
    have c3 := isCont_of_Cont h3 hc3
    rw [List.cons_append, List.cons_append, List.cons_append, List.cons_append, seg_c4 b0 b1 b2 b3 _ r0 c1 c2 c3,
      seg_c4 b0 b1 b2 b3 r r0 c1 c2 c3, ih hr, List.cons_append]

/-- the segment-wise transcoding of two segment lists, one after the other -/
def joinOpt (a b : Option (List Nat)) : Option (List Nat) :=
  match a, b with
  | some x, some y => some (x ++ y)
  | _, _ => none

theorem refSteps_append (src dst : Enc) (m : Mode) (subst : Bool) (a b : List Seg) :
    refSteps src dst m subst (a ++ b) = joinOpt (refSteps src dst m subst a) (refSteps src dst m subst b) := by
  induction a with
  | nil =>
    simp only [List.nil_append, refSteps, joinOpt]
    cases refSteps src dst m subst b <;> simp
  | cons s rest ih =>
    rw [List.cons_append, refSteps, ih, refSteps]
    cases refStep src dst m subst s <;> cases refSteps src dst m subst rest <;> cases refSteps src dst m subst b <;>
      simp [joinOpt, List.append_assoc]

/-- two outcomes of transcoding, one after the other: the first failure wins, otherwise the units are concatenated -/
def joinOutcome (a b : Outcome (List Nat)) : Outcome (List Nat) :=
  a.bind fun x => b.map fun y => x ++ y

theorem reference_append (dst : Enc) (m : Mode) (subst : Bool) (x y : List Nat) (hv : Valid x) (hb : Bytes x) :
    reference .utf8 dst m subst (x ++ y) = joinOutcome (reference .utf8 dst m subst x) (reference .utf8 dst m subst y) := by
  unfold reference
  simp only [seg]
  rw [segUtf8_append_valid x y hv hb, refSteps_append]
  cases refSteps .utf8 dst m subst (segUtf8 x) <;> cases refSteps .utf8 dst m subst (segUtf8 y) <;>
    simp [joinOpt, joinOutcome, Outcome.bind, Outcome.map]

/-- ASCII text is its own UTF-16 / UTF-32 transcoding -/
theorem reference_ascii (dst : Enc) (hd : dst = .utf16 ∨ dst = .utf32) (m : Mode) (subst : Bool) (c n : Nat) (hc : c < 0x80) :
    reference .utf8 dst m subst (List.replicate n c) = .ok (List.replicate n c) := by
  unfold reference
  simp only [seg]
  have : refSteps .utf8 dst m subst (segUtf8 (List.replicate n c)) = some (List.replicate n c) := by
    induction n with
    | zero => simp [segUtf8, refSteps]
    | succ k ih =>
      rw [List.replicate_succ, seg_c1 c _ hc, refSteps, ih]
      rcases hd with hd | hd <;> subst hd
      · have : c ≤ 0x10FFFF := by omega
        have e : encUtf16 c = [c] := by unfold encUtf16; simp [show c < 0x10000 by omega]
        simp [refStep, this, e]
      · simp [refStep]
  rw [this]

theorem valid_replicate_ascii (c n : Nat) (hc : c < 0x80) : Valid (List.replicate n c) := by
  induction n with
  | zero => exact Valid.nil
  | succ k ih => rw [List.replicate_succ]; exact Valid.c1 c _ hc ih

theorem bytes_append {x y : List Nat} (hx : Bytes x) (hy : Bytes y) : Bytes (x ++ y) := by
  intro b hb
  rw [List.mem_append] at hb
  rcases hb with h | h
  · exact hx b h
  · exact hy b h

theorem valid_append {x y : List Nat} (hx : Valid x) (hy : Valid y) : Valid (x ++ y) := by
  rw [valid_iff, validate_append x y hx]
  exact (valid_iff y).mp hy

end StVerif.Lemmas.Sinks
