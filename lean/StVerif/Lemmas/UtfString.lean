import StVerif.Lemmas.UtfStd

namespace StVerif.Lemmas.Utf
open StVerif StVerif.Utf StVerif.Bits StVerif.Generated
open StVerif.Spec.Unicode

/-- the units a segment occupies in the input -/
def Seg.units : Seg → List Nat
  | .good _ us => us
  | .bad u => [u]

/-- segmentation neither drops nor reorders units -/
theorem seg_units_utf8 (xs : List Nat) : (segUtf8 xs).flatMap Seg.units = xs := by
  induction xs using segUtf8.induct with
  | case1 => rw [segUtf8.eq_def]; rfl
  | case2 b0 rest hlt ih => rw [segUtf8.eq_def]; simp only [hlt, if_true, List.flatMap_cons, ih]; rfl
  | case3 b0 hn hr b1 r hc ih1 ih2 =>
    rw [segUtf8.eq_def]; simp only [hn, if_false, hr, and_self, if_true, hc, List.flatMap_cons, ih2]; rfl
  | case4 b0 hn hr b1 r hc ih1 =>
    rw [segUtf8.eq_def]; simp only [hn, if_false, hr, and_self, if_true, if_neg hc, List.flatMap_cons, ih1]; rfl
  | case5 b0 rest hn hr hno ih =>
    have : rest = [] := by cases rest with | nil => rfl | cons a l => exact absurd rfl (hno a l)
    subst this
    rw [segUtf8.eq_def]; simp only [hn, if_false, hr, and_self, if_true, List.flatMap_cons, ih]; rfl
  | case6 b0 hn hn2 hr b1 b2 r hc ih1 ih2 =>
    rw [segUtf8.eq_def]; simp only [hn, if_false, hn2, hr, and_self, if_true, hc, List.flatMap_cons, ih2]; rfl
  | case7 b0 hn hn2 hr b1 b2 r hc ih1 =>
    rw [segUtf8.eq_def]; simp only [hn, if_false, hn2, hr, and_self, if_true, if_neg hc, List.flatMap_cons, ih1]; rfl
  | case8 b0 rest hn hn2 hr hno ih =>
    rw [segUtf8.eq_def]; simp only [hn, if_false, hn2, hr, and_self, if_true]
    rcases rest with _ | ⟨b1, _ | ⟨b2, r⟩⟩
    · simp only [List.flatMap_cons, ih]; rfl
    · simp only [List.flatMap_cons, ih]; rfl
    · exact absurd rfl (hno b1 b2 r)
  | case9 b0 hn hn2 hn3 hr b1 b2 b3 r hc ih1 ih2 =>
    rw [segUtf8.eq_def]; simp only [hn, if_false, hn2, hn3, hr, and_self, if_true, hc, List.flatMap_cons, ih2]; rfl
  | case10 b0 hn hn2 hn3 hr b1 b2 b3 r hc ih1 =>
    rw [segUtf8.eq_def]; simp only [hn, if_false, hn2, hn3, hr, and_self, if_true, if_neg hc, List.flatMap_cons, ih1]; rfl
  | case11 b0 rest hn hn2 hn3 hr hno ih =>
    rw [segUtf8.eq_def]; simp only [hn, if_false, hn2, hn3, hr, and_self, if_true]
    rcases rest with _ | ⟨b1, _ | ⟨b2, _ | ⟨b3, r⟩⟩⟩
    · simp only [List.flatMap_cons, ih]; rfl
    · simp only [List.flatMap_cons, ih]; rfl
    · simp only [List.flatMap_cons, ih]; rfl
    · exact absurd rfl (hno b1 b2 b3 r)
  | case12 b0 rest hn hn2 hn3 hn4 ih =>
    rw [segUtf8.eq_def]; simp only [hn, if_false, hn2, hn3, hn4, List.flatMap_cons, ih]; rfl

/-- UTF-8 → UTF-8 reference steps in the two checking modes -/
theorem refSteps_utf8_check (sgs : List Seg) :
    refSteps .utf8 .utf8 .checkValidity true sgs = if sgs.all Seg.isGood then some (sgs.flatMap Seg.units) else none := by
  induction sgs with
  | nil => rfl
  | cons sg l ih =>
    rw [refSteps, ih]
    cases sg with
    | good v us => by_cases h : l.all Seg.isGood = true <;> simp [refStep, Seg.isGood, Seg.units, h]
    | bad u => simp [refStep, Seg.isGood]

theorem refSteps_utf8_subst (sgs : List Seg) :
    refSteps .utf8 .utf8 .substituteInvalid true sgs = some (sgs.flatMap Seg.repair) := by
  induction sgs with
  | nil => rfl
  | cons sg l ih =>
    rw [refSteps, ih]
    cases sg with
    | good v us => simp [refStep, Seg.repair]
    | bad u => simp [refStep, Seg.repair, repl8]

/-- `ST::string::set(char_buffer, validation)` is the reference for building a string from UTF-8 -/
theorem stringSet_eq_reference (m : Mode) (xs : List Nat) (hb : Bytes xs) (hlen : xs.length < hugeBufferSize) :
    stringSetUtf8 m (some xs) = referenceString m xs := by
  unfold stringSetUtf8 referenceString reference
  simp only [if_neg (by omega : ¬ xs.length ≥ hugeBufferSize), seg]
  cases m with
  | assumeValid => rfl
  | substituteInvalid => simp only; rw [refSteps_utf8_subst, cleanup_eq_seg xs hb]
  | checkValidity =>
    simp only; rw [refSteps_utf8_check]
    by_cases hv : validateUtf8 xs = 0
    · have := (validate_iff_seg xs hb).mp hv
      simp [hv, this, seg_units_utf8]
    · have : ¬ ((segUtf8 xs).all Seg.isGood = true) := fun h => hv ((validate_iff_seg xs hb).mpr h)
      simp [hv, this]

end StVerif.Lemmas.Utf

namespace StVerif.Lemmas.Utf
open StVerif StVerif.Utf StVerif.Bits StVerif.Generated
open StVerif.Spec.Unicode

theorem validate_sub (r : List Nat) : validateUtf8 (badcharSubstituteUtf8 ++ r) = validateUtf8 r := by
  show validateUtf8 (239 :: 191 :: 189 :: r) = validateUtf8 r
  rw [validateUtf8.eq_def]
  have a : ¬ (239 < 0x80) := by decide
  have b : ¬ (239 &&& 0xE0 = 0xC0) := by decide
  have c : 239 &&& 0xF0 = 0xE0 := by decide
  have d : ¬ (191 &&& 0xC0 ≠ 0x80) := by decide
  have e : ¬ (189 &&& 0xC0 ≠ 0x80) := by decide
  simp only [a, b, c, d, e, if_false, if_true]

/-- the repaired string always passes `check_validity` -/
theorem validate_cleanup (xs : List Nat) : Bytes xs → validateUtf8 (cleanupUtf8 xs) = 0 := by
  induction xs using segUtf8.induct with
  | case1 => intro _; rw [cleanupUtf8.eq_def]; rfl
  | case2 b0 rest hlt ih =>
    intro h; rw [Bytes_cons] at h
    rw [cleanupUtf8.eq_def]; simp only [hlt, if_true]
    rw [validateUtf8.eq_def]; simp only [hlt, if_true]; exact ih h.2
  | case3 b0 hn hr b1 r hc ih1 ih2 =>
    intro h; simp only [Bytes_cons] at h
    obtain ⟨h0, h1, hr'⟩ := h
    rw [cleanupUtf8.eq_def]
    simp only [hn, if_false, lead2_iff' h0, hr, and_self, if_true, not_cont h1 hc]
    rw [validateUtf8.eq_def]
    simp only [hn, if_false, lead2_iff' h0, hr, and_self, if_true, not_cont h1 hc]
    exact ih2 hr'
  | case4 b0 hn hr b1 r hc ih1 =>
    intro h; simp only [Bytes_cons] at h
    obtain ⟨h0, h1, hr'⟩ := h
    rw [cleanupUtf8.eq_def]
    simp only [hn, if_false, lead2_iff' h0, hr, and_self, if_true, if_pos (is_not_cont h1 hc)]
    rw [validate_sub]; exact ih1 (Bytes_cons.mpr ⟨h1, hr'⟩)
  | case5 b0 rest hn hr hno ih =>
    intro h; rw [Bytes_cons] at h
    have : rest = [] := by cases rest with | nil => rfl | cons a l => exact absurd rfl (hno a l)
    subst this
    rw [cleanupUtf8.eq_def]
    simp only [hn, if_false, lead2_iff' h.1, hr, and_self, if_true]
    rw [validate_sub]; exact ih h.2
  | case6 b0 hn hn2 hr b1 b2 r hc ih1 ih2 =>
    intro h; simp only [Bytes_cons] at h
    obtain ⟨h0, h1, h2, hr'⟩ := h
    rw [Bool.and_eq_true] at hc
    have l2 : ¬ (b0 &&& 0xE0 = 0xC0) := by rw [lead2_iff' h0]; exact hn2
    have m : ¬ (b1 &&& 0xC0 ≠ 0x80 ∨ b2 &&& 0xC0 ≠ 0x80) := by
      intro hm; rcases hm with hm | hm
      · exact not_cont h1 hc.1 hm
      · exact not_cont h2 hc.2 hm
    rw [cleanupUtf8.eq_def]
    simp only [hn, if_false, l2, lead3_iff' h0, hr, and_self, if_true, if_neg m]
    rw [validateUtf8.eq_def]
    simp only [hn, if_false, l2, lead3_iff' h0, hr, and_self, if_true, if_neg (not_cont h1 hc.1), if_neg (not_cont h2 hc.2)]
    exact ih2 hr'
  | case7 b0 hn hn2 hr b1 b2 r hc ih1 =>
    intro h; simp only [Bytes_cons] at h
    obtain ⟨h0, h1, h2, hr'⟩ := h
    have l2 : ¬ (b0 &&& 0xE0 = 0xC0) := by rw [lead2_iff' h0]; exact hn2
    have m : b1 &&& 0xC0 ≠ 0x80 ∨ b2 &&& 0xC0 ≠ 0x80 := by
      rw [Bool.and_eq_true] at hc
      by_cases q1 : isCont b1 = true
      · exact Or.inr (is_not_cont h2 (fun q2 => hc ⟨q1, q2⟩))
      · exact Or.inl (is_not_cont h1 q1)
    rw [cleanupUtf8.eq_def]
    simp only [hn, if_false, l2, lead3_iff' h0, hr, and_self, if_true, if_pos m]
    rw [validate_sub]; exact ih1 (Bytes_cons.mpr ⟨h1, Bytes_cons.mpr ⟨h2, hr'⟩⟩)
  | case8 b0 rest hn hn2 hr hno ih =>
    intro h; rw [Bytes_cons] at h
    have l2 : ¬ (b0 &&& 0xE0 = 0xC0) := by rw [lead2_iff' h.1]; exact hn2
    rw [cleanupUtf8.eq_def]
    simp only [hn, if_false, l2, lead3_iff' h.1, hr, and_self, if_true]
    rcases rest with _ | ⟨b1, _ | ⟨b2, r⟩⟩
    · rw [validate_sub]; exact ih h.2
    · rw [validate_sub]; exact ih h.2
    · exact absurd rfl (hno b1 b2 r)
  | case9 b0 hn hn2 hn3 hr b1 b2 b3 r hc ih1 ih2 =>
    intro h; simp only [Bytes_cons] at h
    obtain ⟨h0, h1, h2, h3, hr'⟩ := h
    simp only [Bool.and_eq_true] at hc
    obtain ⟨⟨hc1, hc2⟩, hc3⟩ := hc
    have l2 : ¬ (b0 &&& 0xE0 = 0xC0) := by rw [lead2_iff' h0]; exact hn2
    have l3 : ¬ (b0 &&& 0xF0 = 0xE0) := by rw [lead3_iff' h0]; exact hn3
    have m : ¬ (b1 &&& 0xC0 ≠ 0x80 ∨ b2 &&& 0xC0 ≠ 0x80 ∨ b3 &&& 0xC0 ≠ 0x80) := by
      intro hm; rcases hm with hm | hm | hm
      · exact not_cont h1 hc1 hm
      · exact not_cont h2 hc2 hm
      · exact not_cont h3 hc3 hm
    rw [cleanupUtf8.eq_def]
    simp only [hn, if_false, l2, l3, lead4_iff' h0, hr, and_self, if_true, if_neg m]
    rw [validateUtf8.eq_def]
    simp only [hn, if_false, l2, l3, lead4_iff' h0, hr, and_self, if_true, if_neg (not_cont h1 hc1), if_neg (not_cont h2 hc2),
      if_neg (not_cont h3 hc3)]
    exact ih2 hr'
  | case10 b0 hn hn2 hn3 hr b1 b2 b3 r hc ih1 =>
    intro h; simp only [Bytes_cons] at h
    obtain ⟨h0, h1, h2, h3, hr'⟩ := h
    have l2 : ¬ (b0 &&& 0xE0 = 0xC0) := by rw [lead2_iff' h0]; exact hn2
    have l3 : ¬ (b0 &&& 0xF0 = 0xE0) := by rw [lead3_iff' h0]; exact hn3
    have m : b1 &&& 0xC0 ≠ 0x80 ∨ b2 &&& 0xC0 ≠ 0x80 ∨ b3 &&& 0xC0 ≠ 0x80 := by
      simp only [Bool.and_eq_true] at hc
      by_cases q1 : isCont b1 = true
      · by_cases q2 : isCont b2 = true
        · exact Or.inr (Or.inr (is_not_cont h3 (fun q3 => hc ⟨⟨q1, q2⟩, q3⟩)))
        · exact Or.inr (Or.inl (is_not_cont h2 q2))
      · exact Or.inl (is_not_cont h1 q1)
    rw [cleanupUtf8.eq_def]
    simp only [hn, if_false, l2, l3, lead4_iff' h0, hr, and_self, if_true, if_pos m]
    rw [validate_sub]; exact ih1 (Bytes_cons.mpr ⟨h1, Bytes_cons.mpr ⟨h2, Bytes_cons.mpr ⟨h3, hr'⟩⟩⟩)
  | case11 b0 rest hn hn2 hn3 hr hno ih =>
    intro h; rw [Bytes_cons] at h
    have l2 : ¬ (b0 &&& 0xE0 = 0xC0) := by rw [lead2_iff' h.1]; exact hn2
    have l3 : ¬ (b0 &&& 0xF0 = 0xE0) := by rw [lead3_iff' h.1]; exact hn3
    rw [cleanupUtf8.eq_def]
    simp only [hn, if_false, l2, l3, lead4_iff' h.1, hr, and_self, if_true]
    rcases rest with _ | ⟨b1, _ | ⟨b2, _ | ⟨b3, r⟩⟩⟩
    · rw [validate_sub]; exact ih h.2
    · rw [validate_sub]; exact ih h.2
    · rw [validate_sub]; exact ih h.2
    · exact absurd rfl (hno b1 b2 b3 r)
  | case12 b0 rest hn hn2 hn3 hn4 ih =>
    intro h; rw [Bytes_cons] at h
    have l2 : ¬ (b0 &&& 0xE0 = 0xC0) := by rw [lead2_iff' h.1]; exact hn2
    have l3 : ¬ (b0 &&& 0xF0 = 0xE0) := by rw [lead3_iff' h.1]; exact hn3
    have l4 : ¬ (b0 &&& 0xF8 = 0xF0) := by rw [lead4_iff' h.1]; exact hn4
    rw [cleanupUtf8.eq_def]
    simp only [hn, if_false, l2, l3, l4]
    rw [validate_sub]; exact ih h.2

/-- `cleanup_utf8` changes nothing on text that validates (so it is idempotent) -/
theorem cleanup_of_valid (xs : List Nat) (hb : Bytes xs) (hv : validateUtf8 xs = 0) : cleanupUtf8 xs = xs := by
  have hall := (validate_iff_seg xs hb).mp hv
  rw [cleanup_eq_seg xs hb]
  conv => rhs; rw [← seg_units_utf8 xs]
  have : ∀ l : List Seg, l.all Seg.isGood = true → l.flatMap Seg.repair = l.flatMap Seg.units := by
    intro l
    induction l with
    | nil => intro _; rfl
    | cons sg t ih =>
      intro h
      cases sg with
      | good v us => simp only [List.flatMap_cons, Seg.repair, Seg.units]; rw [ih (by simpa [Seg.isGood] using h)]
      | bad u => simp [Seg.isGood] at h
  exact this _ hall

theorem cleanup_bytes (xs : List Nat) (hb : Bytes xs) : Bytes (cleanupUtf8 xs) := by
  rw [cleanup_eq_seg xs hb]
  intro x hx
  rw [List.mem_flatMap] at hx
  obtain ⟨sg, hsg, hxs⟩ := hx
  cases sg with
  | good v us =>
    have : x ∈ (segUtf8 xs).flatMap Seg.units := List.mem_flatMap.mpr ⟨_, hsg, hxs⟩
    rw [seg_units_utf8] at this; exact hb x this
  | bad u =>
    simp only [Seg.repair, badcharSubstituteUtf8] at hxs
    simp at hxs; rcases hxs with rfl | rfl | rfl <;> decide

end StVerif.Lemmas.Utf
