/-
  Vocabulary shared by the C16 theorems and the driver: the invariant of the stream machine, the
  abstraction to the byte-log spec, and what each model operation means at the spec level.
-/
import StVerif.Model.Stream
import StVerif.Spec.ByteLog
import StVerif.Spec.Unicode
import StVerif.Lemmas.UtfRef

namespace StVerif.Stream
open StVerif StVerif.Generated StVerif.Spec

/-- the storage `m_chars` points to (`[]` for a dangling pointer) -/
def content (p : Pool) (s : Obj) : List Nat :=
  match s.chars with
  | .stack o' => match p.objs o' with | some t => t.stack | none => []
  | .heap k => match p.heap k with | some blk => blk | none => []

/-- what the public interface shows: `raw_buffer()[0, size())` of every live stream -/
def abs (p : Pool) : ByteLog.State := fun o =>
  match p.objs o with
  | some s => some ((content p s).take s.size)
  | none => none

/-- per-object part of the invariant: in-object mode or heap mode, never anything else -/
def ObjOk (p : Pool) (o : Nat) (s : Obj) : Prop :=
  s.stack.length = stackStringSize ∧ s.size ≤ s.alloc ∧
  ((s.alloc = stackStringSize ∧ s.chars = .stack o) ∨
   (stackStringSize < s.alloc ∧ ∃ k blk, s.chars = .heap k ∧ p.heap k = some blk ∧ blk.length = s.alloc))

structure Inv (p : Pool) : Prop where
  /-- every live stream is in one of the two storage modes, with `size ≤ alloc` and a block of `alloc` bytes -/
  obj : ∀ o s, p.objs o = some s → ObjOk p o s
  /-- no block has two owners -/
  uniq : ∀ o₁ o₂ s₁ s₂ k, p.objs o₁ = some s₁ → p.objs o₂ = some s₂ → s₁.chars = .heap k → s₂.chars = .heap k → o₁ = o₂
  /-- no block without an owner (nothing leaked) -/
  owned : ∀ k blk, p.heap k = some blk → ∃ o s, p.objs o = some s ∧ s.chars = .heap k
  /-- block numbers not yet handed out are free -/
  fresh : ∀ k, p.next ≤ k → p.heap k = none

/-- the state of a default-constructed stream -/
def IsFresh (o : Nat) (s : Obj) : Prop := s.chars = .stack o ∧ s.alloc = stackStringSize ∧ s.size = 0

/-- the bytes an operation appends (`none`: it throws `unicode_error` before touching the stream).
    Wide text is the *reference* transcoding of Spec/Unicode.lean, not the model's conversion. -/
def textRendering (src : Utf.Enc) (m : Mode) (xs : List Nat) : Option (List Nat) :=
  match Unicode.reference src .utf8 m false xs with
  | .ok bytes => some bytes
  | _ => none

/-- meaning of a model operation in the byte-log spec -/
def Op.toSpec : Op → ByteLog.Op
  | .ctor o => .create o
  | .dtor o => .destroy o
  | .moveCtor o s => .moveNew o s
  | .moveAssign o s => .moveTo o s
  | .append o bs => .append o bs
  | .appendChar o c n => .append o (List.replicate n c)
  | .appendText o _ _ none => .append o []
  | .appendText o e m (some xs) => .append o ((textRendering e m xs).getD [])
  | .appendNum o neg ds => .append o ((if neg then [45] else []) ++ ds)
  | .truncate o n => .truncate o n
  | .erase o n => .erase o n
  | .toString o _ _ => .append o []

/-- side conditions of an operation that are not about liveness: wide text arrives as units of its
    width, fewer than 2^28 of them (C03's domain), in an encoding that needs converting -/
def Op.wf : Op → Prop
  | .appendText _ e _ (some xs) => e ≠ .utf8 ∧ UnitsLt (Lemmas.Utf.unitBound e) xs ∧ xs.length < hugeBufferSize
  | _ => True

/-- a history is admissible when every step is meaningful in the spec state it is applied to -/
def HistOk : ByteLog.State → List Op → Prop
  | _, [] => True
  | s, op :: rest => op.wf ∧ ByteLog.ok s op.toSpec = true ∧ HistOk (ByteLog.step s op.toSpec) rest

end StVerif.Stream
