/-
  Helper lemmas for C08: machine-integer conversions in range, the clamped copy of `substr`,
  the pointer walks of the trims.
-/
import StVerif.Model.Slice
import StVerif.Spec.Slice

namespace StVerif.Lemmas.Slice
open StVerif StVerif.Slice StVerif.Search

/-! ### conversions that do not wrap -/

theorem wrap64_nat (n : Nat) (h : n < 2^64) : wrap64 (n : Int) = n := by
  unfold wrap64; omega

theorem wrap64_of_range (x : Int) (h0 : 0 ≤ x) (h1 : x < 2^64) : wrap64 x = x.toNat := by
  unfold wrap64; omega

theorem toI64_small (n : Nat) (h : n < 2^63) : toI64 n = n := by
  unfold toI64; split <;> omega

theorem toI64_wrap64 (x : Int) (h0 : -(2^63 : Int) ≤ x) (h1 : x < 2^63) : toI64 (wrap64 x) = x := by
  unfold toI64 wrap64; split <;> omega

/-! ### the result predicate -/

/-- a call returned exactly `want` and asked the allocator for no more units than the subject
    itself occupies (its bytes and the terminator) -/
def Good (s want : List Nat) (o : Outcome Res) : Prop :=
  ∃ a, o = .ok ⟨want, a⟩ ∧ a ≤ s.length + 1

theorem allocReq_le (n : Nat) : allocReq n ≤ n + 1 := by
  unfold allocReq; split <;> omega

theorem good_whole (s : List Nat) : Good s s (.ok (whole s)) :=
  ⟨allocReq s.length, rfl, allocReq_le _⟩

theorem good_empty (s : List Nat) : Good s [] (.ok emptyRes) := ⟨0, rfl, by omega⟩

/-! ### `substr` -/

theorem take_drop_append_zero (s : List Nat) (a c : Nat) (h : a + c ≤ s.length) :
    ((s ++ [0]).drop a).take c = (s.drop a).take c := by
  rw [List.drop_append_of_le_length (by omega), List.take_append_of_le_length (by simp; omega)]

/-- the clamp + copy of the repaired `substr`, for a normalised start `a ≤ |s|` -/
theorem substrTail_good (s : List Nat) (count a : Nat) (hs : s.length < 2^63) (ha : a ≤ s.length) :
    Good s ((s.drop a).take count) (substrTail .fixed s count (a : Int)) := by
  have hw : wrap64 ((s.length : Int) - (a : Int)) = s.length - a := by
    rw [wrap64_of_range _ (by omega) (by omega)]; omega
  unfold substrTail
  simp only [hw]
  by_cases hc : count > s.length - a
  · -- clamped to the room after `a`
    rw [if_pos hc]
    have e : (s.drop a).take count = s.drop a := List.take_of_length_le (by simp; omega)
    rw [e]
    by_cases hz : ((a : Int) = 0 ∧ s.length - a = s.length)
    · rw [if_pos hz]
      have : a = 0 := by omega
      subst this
      exact good_whole s
    · rw [if_neg hz]
      have hlt : s.length - a < s.length := by omega
      rw [if_neg (by have := allocReq_le (s.length - a); unfold allocLimit; omega)]
      rw [if_neg (by simp; omega)]
      refine ⟨allocReq (s.length - a), ?_, Nat.le_trans (allocReq_le _) (by omega)⟩
      simp only [Int.toNat_natCast]
      rw [take_drop_append_zero s a _ (by omega), List.take_of_length_le (by simp)]
  · rw [if_neg hc]
    by_cases hz : ((a : Int) = 0 ∧ count = s.length)
    · rw [if_pos hz]
      have : a = 0 := by omega
      subst this
      rw [hz.2, List.drop_zero, List.take_length]
      exact good_whole s
    · rw [if_neg hz]
      have hlt : count < s.length := by omega
      rw [if_neg (by have := allocReq_le count; unfold allocLimit; omega)]
      rw [if_neg (by simp; omega)]
      refine ⟨allocReq count, ?_, Nat.le_trans (allocReq_le _) (by omega)⟩
      simp only [Int.toNat_natCast]
      rw [take_drop_append_zero s a _ (by omega)]

/-- the specified slice, by the position of `start` -/
theorem spec_substr_of_start (s : List Nat) (start : Int) (count : Nat) (a : Nat)
    (hle : start ≤ (s.length : Int)) (ha : a = if 0 ≤ start then start.toNat else ((s.length : Int) + start).toNat) :
    Spec.Slice.substr s start count = (s.drop a).take (if count = SIZE_MAX then s.length else count) := by
  unfold Spec.Slice.substr
  rw [if_neg (by omega)]
  simp only [← ha]
  have : Spec.Slice.autoSize = SIZE_MAX := rfl
  rw [this]
  split
  · exact (List.take_of_length_le (by simp)).symm
  · rfl

/-- `substr` returns the specified slice for every start of the signed and every count of the
    unsigned range, without an oversized request -/
theorem substr_good (s : List Nat) (start : Int) (count : Nat) (hs : s.length < 2^63)
    (h0 : -(2^63 : Int) ≤ start) (h1 : start < 2^63) :
    Good s (Spec.Slice.substr s start count) (substr s start count) := by
  unfold substr
  simp only []
  by_cases hneg : start < 0
  · rw [if_pos hneg]
    have e : toI64 (wrap64 (start + (s.length : Int))) = start + s.length := toI64_wrap64 _ (by omega) (by omega)
    rw [e]
    by_cases hb : start + (s.length : Int) < 0
    · rw [if_pos hb, spec_substr_of_start s start count 0 (by omega) (by rw [if_neg (by omega)]; omega)]
      exact substrTail_good s _ 0 hs (by omega)
    · rw [if_neg hb, spec_substr_of_start s start count ((s.length : Int) + start).toNat (by omega) (by rw [if_neg (by omega)])]
      have : start + (s.length : Int) = (((s.length : Int) + start).toNat : Int) := by omega
      rw [this]
      exact substrTail_good s _ _ hs (by omega)
  · rw [if_neg hneg]
    have hw : wrap64 start = start.toNat := wrap64_of_range _ (by omega) (by omega)
    rw [hw]
    by_cases hb : start.toNat > s.length
    · rw [if_pos hb]
      have : Spec.Slice.substr s start count = [] := by
        unfold Spec.Slice.substr; rw [if_pos (by omega)]
      rw [this]
      exact good_empty s
    · rw [if_neg hb, spec_substr_of_start s start count start.toNat (by omega) (by rw [if_pos (by omega)])]
      have : start = (start.toNat : Int) := by omega
      rw [this]
      simp only [Int.toNat_natCast]
      exact substrTail_good s _ _ hs (by omega)

/-! ### `left` / `right` -/

theorem take_min_length (s : List Nat) (n : Nat) : s.take (min n s.length) = s.take n := by
  by_cases h : n ≤ s.length
  · rw [Nat.min_eq_left h]
  · rw [Nat.min_eq_right (by omega), List.take_length, List.take_of_length_le (by omega)]

theorem spec_substr_zero (s : List Nat) (n : Nat) (hs : s.length < 2^63) :
    Spec.Slice.substr s 0 n = Spec.Slice.left s n := by
  rw [spec_substr_of_start s 0 n 0 (by omega) (by simp)]
  unfold Spec.Slice.left
  rw [take_min_length, List.drop_zero]
  split
  · next h => rw [h, List.take_length, List.take_of_length_le (by unfold SIZE_MAX; omega)]
  · rfl

theorem left_good (s : List Nat) (n : Nat) (hs : s.length < 2^63) :
    Good s (Spec.Slice.left s n) (left s n) := by
  unfold left
  rw [← spec_substr_zero s n hs]
  exact substr_good s 0 n hs (by omega) (by omega)

theorem right_good (s : List Nat) (n : Nat) (hs : s.length < 2^63) :
    Good s (Spec.Slice.right s n) (right s n) := by
  unfold right Spec.Slice.right
  simp only []
  by_cases h : n ≥ s.length
  · rw [if_pos h, Nat.min_eq_right h, Nat.sub_self, List.drop_zero]
    exact good_whole s
  · rw [if_neg h, Nat.min_eq_left (by omega)]
    have e : toI64 (wrap64 ((s.length : Int) - (n : Int))) = ((s.length - n : Nat) : Int) := by
      rw [toI64_wrap64 _ (by omega) (by omega)]; omega
    rw [e]
    have hsp : Spec.Slice.substr s ((s.length - n : Nat) : Int) n = s.drop (s.length - n) := by
      rw [spec_substr_of_start s _ n (s.length - n) (by omega) (by rw [if_pos (by omega)]; omega)]
      rw [if_neg (by unfold SIZE_MAX; omega)]
      exact List.take_of_length_le (by simp; omega)
    rw [← hsp]
    exact substr_good s _ n hs (by omega) (by omega)

/-! ### the trims -/

/-- a C string does not contain its terminator -/
theorem inSet_cBytes_zero (p : List Nat) : inSet (cBytes p) 0 = false := by
  unfold inSet cBytes
  induction p with
  | nil => rfl
  | cons c rest ih =>
    rw [List.takeWhile_cons]
    by_cases h : c = 0
    · simp [h]
    · simp only [ne_eq, h, not_false_eq_true, decide_true, if_true, List.contains_cons]
      rw [ih]
      simp; omega

theorem cBytes_eq_cString (p : List Nat) : cBytes p = Spec.Slice.cString p := rfl

theorem length_takeWhile_le (p : Nat → Bool) (s : List Nat) : (s.takeWhile p).length ≤ s.length := by
  have h := congrArg List.length (List.takeWhile_append_dropWhile (p := p) (l := s))
  rw [List.length_append] at h
  omega

theorem drop_length_takeWhile (p : Nat → Bool) (s : List Nat) : s.drop (s.takeWhile p).length = s.dropWhile p := by
  have h := List.takeWhile_append_dropWhile (p := p) (l := s)
  calc s.drop (s.takeWhile p).length
      = (s.takeWhile p ++ s.dropWhile p).drop (s.takeWhile p).length := by rw [h]
    _ = s.dropWhile p := List.drop_left

/-- the forward walk stops after exactly the leading members of the set -/
theorem walkUp_eq (cset : List Nat) (h0 : inSet cset 0 = false) (s : List Nat) (i : Nat) :
    walkUp cset s i = i + (s.takeWhile (inSet cset)).length := by
  induction s generalizing i with
  | nil => simp [walkUp]
  | cons c rest ih =>
    unfold walkUp
    rw [List.takeWhile_cons]
    by_cases hc : inSet cset c = true
    · have hne : c ≠ 0 := by intro h; rw [h, h0] at hc; exact absurd hc (by decide)
      rw [if_pos ⟨hne, hc⟩, if_pos hc, ih, List.length_cons]
      omega
    · rw [if_neg (fun h => hc h.2), if_neg hc]
      simp

/-- the backward walk from `lo + k` down to `lo` stops just below the trailing members of the set
    inside `[lo, lo + k)` -/
theorem walkDown_eq (cset s : List Nat) (lo k : Nat) (h : lo + k ≤ s.length) :
    walkDown cset s lo (lo + k) =
      (lo : Int) + ((((s.drop lo).take k).reverse.dropWhile (inSet cset)).length : Int) - 1 := by
  induction k with
  | zero =>
    cases lo with
    | zero => simp [walkDown]
    | succ r =>
      simp only [walkDown]
      rw [if_neg (by omega)]
      simp
  | succ k ih =>
    have hk : k < (s.drop lo).length := by simp; omega
    rw [show lo + (k + 1) = (lo + k) + 1 from by omega]
    unfold walkDown
    rw [List.take_succ_eq_append_getElem hk, List.reverse_append, List.reverse_cons, List.reverse_nil,
      List.nil_append, List.singleton_append, List.dropWhile_cons, List.getElem_drop]
    have hg : s.getD (lo + k) 0 = s[lo + k]'(by omega) := by
      rw [List.getD_eq_getElem?_getD, List.getElem?_eq_getElem (by omega)]; rfl
    rw [hg]
    by_cases hc : inSet cset (s[lo + k]'(by omega)) = true
    · rw [if_pos ⟨by omega, hc⟩, if_pos hc, ih (by omega)]
    · rw [if_neg (fun h => hc h.2), if_neg hc]
      simp only [List.length_cons, List.length_reverse, List.length_take, List.length_drop]
      omega

/-- removing the trailing members is taking a prefix -/
theorem reverse_dropWhile_reverse (p : Nat → Bool) (l : List Nat) :
    (l.reverse.dropWhile p).reverse = l.take (l.reverse.dropWhile p).length := by
  have h := List.takeWhile_append_dropWhile (p := p) (l := l.reverse)
  have h2 : l = (l.reverse.dropWhile p).reverse ++ (l.reverse.takeWhile p).reverse := by
    rw [← List.reverse_append, h, List.reverse_reverse]
  conv => rhs; rw [h2]
  rw [List.take_left' (by simp)]

theorem length_dropWhile_le (p : Nat → Bool) (s : List Nat) : (s.dropWhile p).length ≤ s.length := by
  have h := congrArg List.length (List.takeWhile_append_dropWhile (p := p) (l := s))
  rw [List.length_append] at h
  omega

theorem spec_substr_auto (s : List Nat) (a : Nat) (ha : a ≤ s.length) :
    Spec.Slice.substr s (a : Int) SIZE_MAX = s.drop a := by
  rw [spec_substr_of_start s _ _ a (by omega) (by rw [if_pos (by omega)]; omega), if_pos rfl]
  exact List.take_of_length_le (by simp)

theorem trimLeft_good (s charset : List Nat) (hs : s.length < 2^63) :
    Good s (Spec.Slice.trimLeft s (Spec.Slice.cString charset)) (trimLeft s charset) := by
  unfold trimLeft Spec.Slice.trimLeft
  by_cases he : s.isEmpty = true
  · rw [if_pos he]
    have : s = [] := List.isEmpty_iff.1 he
    subst this
    exact good_empty []
  · rw [if_neg he]
    simp only []
    rw [walkUp_eq _ (inSet_cBytes_zero charset), Nat.zero_add]
    have hle := length_takeWhile_le (inSet (cBytes charset)) s
    have e : s.dropWhile (fun x => (Spec.Slice.cString charset).contains x) = s.drop (s.takeWhile (inSet (cBytes charset))).length :=
      (drop_length_takeWhile _ s).symm
    rw [e, ← spec_substr_auto s _ hle]
    exact substr_good s _ _ hs (by omega) (by omega)

theorem trimRight_good (s charset : List Nat) (hs : s.length < 2^63) :
    Good s (Spec.Slice.trimRight s (Spec.Slice.cString charset)) (trimRight s charset) := by
  unfold trimRight Spec.Slice.trimRight
  by_cases he : s.isEmpty = true
  · rw [if_pos he]
    have : s = [] := List.isEmpty_iff.1 he
    subst this
    exact good_empty []
  · rw [if_neg he]
    simp only []
    have hne : s ≠ [] := fun h => he (by rw [h]; rfl)
    have hpos : 0 < s.length := List.length_pos_iff.2 hne
    have hw := walkDown_eq (cBytes charset) s 0 s.length (by omega)
    rw [Nat.zero_add] at hw
    rw [hw, List.drop_zero, List.take_length]
    change Good s ((s.reverse.dropWhile (inSet (cBytes charset))).reverse) _
    have hle : (s.reverse.dropWhile (inSet (cBytes charset))).length ≤ s.length := by
      have := length_dropWhile_le (inSet (cBytes charset)) s.reverse
      rw [List.length_reverse] at this; exact this
    rw [reverse_dropWhile_reverse]
    generalize (s.reverse.dropWhile (inSet (cBytes charset))).length = m at hle ⊢
    have ew : wrap64 (((0 : Nat) : Int) + (m : Int) - 1 + 1) = m := by
      rw [wrap64_of_range _ (by omega) (by omega)]; omega
    rw [ew]
    have hsp : Spec.Slice.substr s 0 m = s.take m := by
      rw [spec_substr_of_start s 0 m 0 (by omega) (by simp), if_neg (by unfold SIZE_MAX; omega), List.drop_zero]
    rw [← hsp]
    exact substr_good s 0 m hs (by omega) (by omega)

theorem trim_good (s charset : List Nat) (hs : s.length < 2^63) :
    Good s (Spec.Slice.trim s (Spec.Slice.cString charset)) (trim s charset) := by
  unfold trim Spec.Slice.trim Spec.Slice.trimRight Spec.Slice.trimLeft
  by_cases he : s.isEmpty = true
  · rw [if_pos he]
    have : s = [] := List.isEmpty_iff.1 he
    subst this
    exact good_empty []
  · rw [if_neg he]
    simp only []
    rw [walkUp_eq _ (inSet_cBytes_zero charset), Nat.zero_add]
    have hle := length_takeWhile_le (inSet (cBytes charset)) s
    have e : s.dropWhile (fun x => (Spec.Slice.cString charset).contains x) = s.drop (s.takeWhile (inSet (cBytes charset))).length :=
      (drop_length_takeWhile _ s).symm
    rw [e]
    generalize (s.takeWhile (inSet (cBytes charset))).length = lp at hle ⊢
    have hw := walkDown_eq (cBytes charset) s lp (s.length - lp) (by omega)
    rw [show lp + (s.length - lp) = s.length from by omega] at hw
    rw [hw]
    have ht : (s.drop lp).take (s.length - lp) = s.drop lp := List.take_of_length_le (by simp)
    rw [ht]
    change Good s (((s.drop lp).reverse.dropWhile (inSet (cBytes charset))).reverse) _
    have hle2 : ((s.drop lp).reverse.dropWhile (inSet (cBytes charset))).length ≤ s.length - lp := by
      have := length_dropWhile_le (inSet (cBytes charset)) (s.drop lp).reverse
      rw [List.length_reverse, List.length_drop] at this; exact this
    rw [reverse_dropWhile_reverse]
    generalize ((s.drop lp).reverse.dropWhile (inSet (cBytes charset))).length = m at hle2 ⊢
    have ew : wrap64 ((lp : Int) + (m : Int) - 1 - (lp : Int) + 1) = m := by
      rw [wrap64_of_range _ (by omega) (by omega)]; omega
    rw [ew]
    have hsp : Spec.Slice.substr s (lp : Int) m = (s.drop lp).take m := by
      rw [spec_substr_of_start s _ m lp (by omega) (by rw [if_pos (by omega)]; omega), if_neg (by unfold SIZE_MAX; omega)]
    rw [← hsp]
    exact substr_good s _ m hs (by omega) (by omega)

end StVerif.Lemmas.Slice
