/-
  Bridge for `_ST_PRIVATE::pad_size` (include/st_format_priv.h): the translated function
  (StVerif/Generated/Kernels.lean, `Kernels.pad_size`, the structure parameter split into one
  parameter per field read) equals the model's `Fmt.padSize` (StVerif/Model/FmtRender.lean) for
  every width an `int` can hold and every size below 2^62; in particular none of the signed
  subtractions (`chkS 64`) faults, i.e. the C++ function has no signed overflow there.
-/
import StVerif.Lemmas.KernelBridge
import StVerif.Model.FmtRender
open StVerif StVerif.Cxx StVerif.Generated StVerif.Fmt

namespace StVerif.KernelBridge

/-- the enumerator values of `ST::digit_class_t` -/
def digitCode : DigitClass → Int
  | .dflt => 0
  | .dec => 1
  | .hex => 2
  | .hexUpper => 3
  | .oct => 4
  | .bin => 5
  | .chr => 6

/-- the enumerator values of `_ST_PRIVATE::numeric_type` -/
def numCode : NumType → Int
  | .positive => 0
  | .negative => 1
  | .zero => 2

/-- the first statement of the translated function: `ST_ssize_t pad_size = format.minimum_length - size;`
    (the `int` converted to `size_t`, the unsigned subtraction, the conversion to the signed type) is the
    mathematical difference when it fits the signed 64-bit type -/
theorem pad_size_first (ml : Int) (size : Nat)
    (h0 : -(2:Int)^63 ≤ ml - (size : Int)) (h1 : ml - (size : Int) < (2:Int)^63)
    (hm0 : -(2:Int)^63 ≤ ml) (hm1 : ml < (2:Int)^63) :
    ((((((((ml % 18446744073709551616).toNat : Nat) : Int) - ((size : Nat) : Int)) + 18446744073709551616).toNat
        % 18446744073709551616 : Nat) : Int) + 9223372036854775808) % 18446744073709551616 - 9223372036854775808
      = ml - (size : Int) := by
  omega

/-- the model's first statement, same value -/
theorem padSize_first (ml : Int) (size : Nat)
    (h0 : -(2:Int)^63 ≤ ml - (size : Int)) (h1 : ml - (size : Int) < (2:Int)^63) :
    toI64 (wrap64 (ml - (size : Int))) = ml - (size : Int) := by
  unfold toI64 wrap64; split <;> omega

theorem chkS64_ok (x : Int) (h0 : -(2:Int)^63 ≤ x) (h1 : x < (2:Int)^63) : chkS 64 x = .ok x := by
  unfold chkS
  rw [if_pos (by constructor <;> omega)]

theorem pad_size_eq (f : FormatSpec) (size : Nat) (nt : NumType)
    (hmin : -(2:Int)^31 ≤ f.minimumLength ∧ f.minimumLength < (2:Int)^31) (hsize : size < 2 ^ 62) :
    Kernels.pad_size (if f.alwaysSigned then 1 else 0) (if f.classPrefix then 1 else 0)
      (digitCode f.digitClass) f.minimumLength size (numCode nt) = .ok (padSize f size nt) := by
  obtain ⟨hm0, hm1⟩ := hmin
  unfold Kernels.pad_size padSize
  rw [pad_size_first f.minimumLength size (by omega) (by omega) (by omega) (by omega),
      padSize_first f.minimumLength size (by omega) (by omega)]
  generalize hp : f.minimumLength - (size : Int) = p
  have hp0 : -(2:Int)^62 - (2:Int)^31 ≤ p := by omega
  have hp1 : p < (2:Int)^31 := by omega
  have c1 : chkS 64 (p - 1) = .ok (p - 1) := chkS64_ok _ (by omega) (by omega)
  have c2 : chkS 64 (p - 2) = .ok (p - 2) := chkS64_ok _ (by omega) (by omega)
  have c11 : chkS 64 (p - 1 - 1) = .ok (p - 1 - 1) := chkS64_ok _ (by omega) (by omega)
  have c12 : chkS 64 (p - 1 - 2) = .ok (p - 1 - 2) := chkS64_ok _ (by omega) (by omega)
  cases nt <;> cases hs : f.alwaysSigned <;> cases hc : f.classPrefix <;> cases hd : f.digitClass <;>
    simp [numCode, digitCode, bind, Except.bind, pure, Except.pure, c1, c2, c11, c12] <;>
    (repeat' split) <;> omega

end StVerif.KernelBridge
