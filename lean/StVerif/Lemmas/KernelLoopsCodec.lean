/-
  Bridge for the translated encoders of include/st_codecs_priv.h (as written by tools/gen_kernels.py):
  `hex_encode` and `b64_encode`, run over a whole source with enough fuel, return the model's
  `Codec.hexEncode` / `Codec.b64Encode` -- in particular they never read outside the source (also not `sp[1]` / `sp[2]`
  in the tails of `b64_encode`), never index their character table out of range (the translated tables carry the
  terminating NUL of the C string, the model's do not: the NUL is never read), and the `default:` branch of the
  `switch (size)` tail with its ST_ASSERT is unreachable.
-/
import StVerif.Lemmas.KernelLoops
import StVerif.Model.Codec
open StVerif StVerif.Cxx StVerif.Generated

namespace StVerif.KernelBridge

/-! ### the character tables -/

/-- the translated `hex_chars` agrees with the model's table on every index the code can form -/
theorem rd_hex_chars : ∀ i, i < 16 → rd Kernels.hex_encode_hex_chars i = .ok (Codec.hexChar i) := by
  decide +kernel

/-- the translated `b64_chars` agrees with the model's table on every index the code can form -/
theorem rd_b64_chars : ∀ i, i < 64 → rd Kernels.b64_encode_b64_chars i = .ok (Codec.b64Char i) := by
  decide +kernel

theorem and15_lt (x : Nat) : x &&& 15 < 16 := by
  have := @Nat.and_le_right x 15; omega

/-! ### index bounds of `b64_encode` -/

theorem b64_ix0 {a : Nat} (ha : a < 256) : a >>> 2 < 64 := by
  rw [Nat.shiftRight_eq_div_pow]; omega

theorem b64_ix1 (a b : Nat) : ((a &&& 3) <<< 4) ||| ((b &&& 240) >>> 4) < 64 := by
  have h1 := @Nat.and_le_right a 3
  have h2 := @Nat.and_le_right b 240
  apply Nat.or_lt_two_pow (n := 6)
  · rw [Nat.shiftLeft_eq]; omega
  · rw [Nat.shiftRight_eq_div_pow]; omega

theorem b64_ix2 (a b : Nat) : ((a &&& 15) <<< 2) ||| ((b &&& 192) >>> 6) < 64 := by
  have h1 := @Nat.and_le_right a 15
  have h2 := @Nat.and_le_right b 192
  apply Nat.or_lt_two_pow (n := 6)
  · rw [Nat.shiftLeft_eq]; omega
  · rw [Nat.shiftRight_eq_div_pow]; omega

theorem b64_ix3 (a : Nat) : a &&& 63 < 64 := by
  have := @Nat.and_le_right a 63; omega

theorem b64_ix1' (a : Nat) : (a &&& 3) <<< 4 < 64 := by
  have h1 := @Nat.and_le_right a 3
  rw [Nat.shiftLeft_eq]; omega

theorem b64_ix2' (a : Nat) : (a &&& 15) <<< 2 < 64 := by
  have h1 := @Nat.and_le_right a 15
  rw [Nat.shiftLeft_eq]; omega

/-! ### hex_encode -/

/-- the translated loop of `hex_encode` from any position inside the source, with `size` the number of bytes left -/
theorem hex_encode_loop_eq (mem : List Nat) (data : Nat) :
    ∀ fuel p out, p ≤ mem.length → mem.length - p < fuel →
      Kernels.hex_encode_loop1 mem data fuel (mem.length - p) p out
        = .ok (out ++ Codec.hexEncode (mem.drop p)) := by
  intro fuel
  induction fuel with
  | zero => intro p _ _ h; omega
  | succ n ih =>
    intro p out hp hf
    generalize hl : mem.drop p = l
    have hlen := len_drop hl hp
    have r0 := rd_drop hl 0
    have d1 := drop_add hl 1
    simp only [Nat.add_zero] at r0
    clear hl
    rcases l with _ | ⟨b0, r⟩
    · simp only [List.length_nil] at hlen
      have c0 : mem.length - p = 0 := by omega
      unfold Kernels.hex_encode_loop1
      simp only [c0, ne_eq, not_true_eq_false, ↓reduceIte, pure_eq_ok, Codec.hexEncode, List.append_nil]
    · simp only [List.length_cons, List.getElem?_cons_zero, List.drop_succ_cons, List.drop_zero] at hlen r0 d1
      have c0 : mem.length - p ≠ 0 := by omega
      have e1 : mem.length - p - 1 = mem.length - (p + 1) := by omega
      have i1 := ih (p + 1) ((out ++ [Codec.hexChar ((b0 >>> 4) &&& 15)]) ++ [Codec.hexChar (b0 &&& 15)])
        (by omega) (by omega)
      rw [d1] at i1
      simp only [List.append_assoc, List.cons_append, List.nil_append] at i1
      unfold Kernels.hex_encode_loop1
      simp only [rd8, c0, ne_eq, not_false_eq_true, ↓reduceIte, r0, ok_bind, Nat.zero_add,
        rd_hex_chars _ (and15_lt _), e1, i1, Codec.hexEncode, List.append_assoc, List.cons_append, List.nil_append]

/-- the translated `hex_encode` over a whole source is the model's `hexEncode`: same characters, no read outside
    the source, no table index out of range -/
theorem hex_encode_eq (mem : List Nat) (fuel : Nat) (hf : mem.length < fuel) :
    Kernels.hex_encode mem fuel 0 mem.length = .ok (Codec.hexEncode mem) := by
  unfold Kernels.hex_encode
  have h := hex_encode_loop_eq mem 0 fuel 0 [] (by omega) (by omega)
  simp only [Nat.sub_zero, List.drop_zero, List.nil_append] at h
  exact h

/-- the translated `hex_encode` never faults -/
theorem hex_encode_ok (mem : List Nat) (fuel : Nat) (hf : mem.length < fuel) :
    isOk (Kernels.hex_encode mem fuel 0 mem.length) = true := by
  rw [hex_encode_eq mem fuel hf]; rfl

/-! ### b64_encode -/

/-- the translated loop of `b64_encode` (the `while (size > 2)` loop followed by the `switch (size)` tail) from any
    position inside the source, with `size` the number of bytes left -/
theorem b64_encode_loop_eq (mem : List Nat) (hb : ∀ b ∈ mem, b < 256) (data : Nat) :
    ∀ fuel p out, p ≤ mem.length → mem.length - p < fuel →
      Kernels.b64_encode_loop1 mem data fuel (mem.length - p) p out
        = .ok (out ++ Codec.b64Encode (mem.drop p)) := by
  intro fuel
  induction fuel with
  | zero => intro p _ _ h; omega
  | succ n ih =>
    intro p out hp hf
    generalize hl : mem.drop p = l
    have hsub : ∀ b ∈ l, b < 256 := fun b h => hb b (List.mem_of_mem_drop (hl ▸ h))
    have hlen := len_drop hl hp
    have r0 := rd_drop hl 0
    have r1 := rd_drop hl 1
    have r2 := rd_drop hl 2
    have d3 := drop_add hl 3
    clear hl
    rcases l with _ | ⟨b0, _ | ⟨b1, _ | ⟨b2, r⟩⟩⟩
    · simp only [List.length_nil] at hlen
      have c0 : mem.length - p = 0 := by omega
      unfold Kernels.b64_encode_loop1
      simp [c0, Codec.b64Encode]
    · simp only [List.length_cons, List.length_nil, List.getElem?_cons_zero] at hlen r0
      have c0 : mem.length - p = 1 := by omega
      have h0 : b0 < 256 := hsub b0 (by simp)
      unfold Kernels.b64_encode_loop1
      simp only [rd8, c0, gt_iff_lt, ↓reduceIte, r0, ok_bind, Nat.zero_add,
        rd_b64_chars _ (b64_ix0 h0), rd_b64_chars _ (b64_ix1' _), pure_eq_ok, Codec.b64Encode, Codec.eqSign,
        List.append_assoc, List.cons_append, List.nil_append, show ¬ (1 > 2) by omega, show ¬ (1 = 2) by omega]
    · simp only [List.length_cons, List.length_nil, List.getElem?_cons_zero, List.getElem?_cons_succ] at hlen r0 r1
      have c0 : mem.length - p = 2 := by omega
      have h0 : b0 < 256 := hsub b0 (by simp)
      unfold Kernels.b64_encode_loop1
      simp only [rd8, c0, gt_iff_lt, Nat.lt_irrefl, ↓reduceIte, r0, r1, ok_bind, Nat.zero_add,
        rd_b64_chars _ (b64_ix0 h0), rd_b64_chars _ (b64_ix1 _ _), rd_b64_chars _ (b64_ix2' _), pure_eq_ok,
        Codec.b64Encode, Codec.eqSign, List.append_assoc, List.cons_append, List.nil_append]
    · simp only [List.length_cons, List.getElem?_cons_zero, List.getElem?_cons_succ, List.drop_succ_cons,
        List.drop_zero] at hlen r0 r1 r2 d3
      have c0 : mem.length - p > 2 := by omega
      have e3 : mem.length - p - 3 = mem.length - (p + 3) := by omega
      have h0 : b0 < 256 := hsub b0 (by simp)
      have i3 := ih (p + 3)
        ((((out ++ [Codec.b64Char (b0 >>> 2)])
            ++ [Codec.b64Char (((b0 &&& 3) <<< 4) ||| ((b1 &&& 240) >>> 4))])
            ++ [Codec.b64Char (((b1 &&& 15) <<< 2) ||| ((b2 &&& 192) >>> 6))])
            ++ [Codec.b64Char (b2 &&& 63)])
        (by omega) (by omega)
      rw [d3] at i3
      simp only [List.append_assoc, List.cons_append, List.nil_append] at i3
      unfold Kernels.b64_encode_loop1
      simp only [rd8, c0, ↓reduceIte, r0, r1, r2, ok_bind, Nat.zero_add,
        rd_b64_chars _ (b64_ix0 h0), rd_b64_chars _ (b64_ix1 _ _), rd_b64_chars _ (b64_ix2 _ _),
        rd_b64_chars _ (b64_ix3 _), e3, i3, Codec.b64Encode, List.append_assoc, List.cons_append, List.nil_append]

/-- the translated `b64_encode` over a whole source of bytes is the model's `b64Encode`: same characters and padding,
    no read outside the source, no table index out of range, and the `default:` assertion of the tail is not reached -/
theorem b64_encode_eq (mem : List Nat) (hb : ∀ b ∈ mem, b < 256) (fuel : Nat) (hf : mem.length < fuel) :
    Kernels.b64_encode mem fuel 0 mem.length = .ok (Codec.b64Encode mem) := by
  unfold Kernels.b64_encode
  have h := b64_encode_loop_eq mem hb 0 fuel 0 [] (by omega) (by omega)
  simp only [Nat.sub_zero, List.drop_zero, List.nil_append] at h
  exact h

/-- the translated `b64_encode` never faults on a source of bytes -/
theorem b64_encode_ok (mem : List Nat) (hb : ∀ b ∈ mem, b < 256) (fuel : Nat) (hf : mem.length < fuel) :
    isOk (Kernels.b64_encode mem fuel 0 mem.length) = true := by
  rw [b64_encode_eq mem hb fuel hf]; rfl

end StVerif.KernelBridge
