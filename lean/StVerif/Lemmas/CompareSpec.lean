/-
  Facts about the Spec of comparison alone: `lexSign key` is a three-way total preorder whose
  equivalence is equality of the keyed texts, it agrees with the textbook `LexLt` for injective
  keys, and it decomposes into "common prefix, then lengths".
-/
import StVerif.Spec.Compare

namespace StVerif.Lemmas.CompareSpec
open StVerif StVerif.Spec.Compare

theorem lexSign_range (key : Nat → Int) (a b : List Nat) :
    lexSign key a b = -1 ∨ lexSign key a b = 0 ∨ lexSign key a b = 1 := by
  induction a generalizing b with
  | nil => cases b <;> simp [lexSign]
  | cons x xs ih =>
    cases b with
    | nil => simp [lexSign]
    | cons y ys =>
      unfold lexSign
      split
      · simp
      · split
        · simp
        · exact ih ys

theorem lexSign_self (key : Nat → Int) (a : List Nat) : lexSign key a a = 0 := by
  induction a with
  | nil => rfl
  | cons x xs ih => unfold lexSign; simp [ih]

/-- antisymmetry: swapping the operands negates the result -/
theorem lexSign_swap (key : Nat → Int) (a b : List Nat) : lexSign key b a = - lexSign key a b := by
  induction a generalizing b with
  | nil => cases b <;> simp [lexSign]
  | cons x xs ih =>
    cases b with
    | nil => simp [lexSign]
    | cons y ys =>
      unfold lexSign
      by_cases h1 : key x < key y
      · have h2 : ¬ key y < key x := by omega
        simp [h1, h2]
      · by_cases h2 : key y < key x
        · simp [h1, h2]
        · simp [h1, h2, ih ys]

/-- zero exactly when the keyed texts are equal -/
theorem lexSign_eq_zero_iff (key : Nat → Int) (a b : List Nat) :
    lexSign key a b = 0 ↔ a.map key = b.map key := by
  induction a generalizing b with
  | nil => cases b <;> simp [lexSign]
  | cons x xs ih =>
    cases b with
    | nil => simp [lexSign]
    | cons y ys =>
      unfold lexSign
      by_cases h1 : key x < key y
      · have : key x ≠ key y := by omega
        simp [h1, this]
      · by_cases h2 : key y < key x
        · have : key x ≠ key y := by omega
          simp [h1, h2, this]
        · have : key x = key y := by omega
          simp [this, ih ys]

theorem lexSign_eq_zero_iff_eq (key : Nat → Int) (inj : ∀ x y, key x = key y → x = y) (a b : List Nat) :
    lexSign key a b = 0 ↔ a = b := by
  rw [lexSign_eq_zero_iff]
  constructor
  · intro h
    induction a generalizing b with
    | nil => cases b <;> simp_all
    | cons x xs ih =>
      cases b with
      | nil => simp at h
      | cons y ys =>
        simp only [List.map_cons, List.cons.injEq] at h
        rw [inj x y h.1, ih ys h.2]
  · intro h; rw [h]

/-- transitivity, in the general form: the sign of (a,c) is forced by the signs of (a,b) and (b,c) -/
theorem lexSign_trans (key : Nat → Int) (a b c : List Nat) :
    (lexSign key a b ≤ 0 → lexSign key b c ≤ 0 → lexSign key a c ≤ 0) ∧
    (lexSign key a b < 0 → lexSign key b c ≤ 0 → lexSign key a c < 0) ∧
    (lexSign key a b ≤ 0 → lexSign key b c < 0 → lexSign key a c < 0) := by
  induction a generalizing b c with
  | nil =>
    cases b <;> cases c <;> simp [lexSign]
    all_goals (try (split <;> (try split) <;> simp))
  | cons x xs ih =>
    cases b with
    | nil => cases c <;> simp [lexSign]
    | cons y ys =>
      cases c with
      | nil =>
        simp only [lexSign]
        refine ⟨?_, ?_, ?_⟩ <;> intro h1 h2 <;> omega
      | cons z zs =>
        have ih' := ih ys zs
        simp only [lexSign]
        by_cases hxy : key x < key y
        · by_cases hyz : key y < key z
          · have : key x < key z := by omega
            simp [hxy, hyz, this]
          · by_cases hzy : key z < key y
            · simp [hxy, hyz, hzy]
            · have : key x < key z := by omega
              simp [hxy, this]
        · by_cases hyx : key y < key x
          · simp [hxy, hyx]
          · have exy : key x = key y := by omega
            by_cases hyz : key y < key z
            · have : key x < key z := by omega
              simp [hxy, hyx, hyz, this]
            · by_cases hzy : key z < key y
              · simp [hxy, hyx, hyz, hzy]
              · have h1 : ¬ key x < key z := by omega
                have h2 : ¬ key z < key x := by omega
                simp only [hxy, hyx, hyz, hzy, h1, h2, if_false]
                exact ih'

/-- for an injective key, `lexSign = -1` is the textbook "sorts strictly before" -/
theorem lexSign_neg_iff_LexLt (key : Nat → Int) (inj : ∀ x y, key x = key y → x = y) (a b : List Nat) :
    lexSign key a b = -1 ↔ LexLt (fun x y => key x < key y) a b := by
  induction a generalizing b with
  | nil =>
    cases b with
    | nil =>
      simp only [lexSign]
      constructor
      · intro h; omega
      · rintro ⟨p, ⟨y, t, h1, h2⟩ | ⟨x, y, s, t, h1, h2, _⟩⟩
        · subst h1; simp at h2
        · simp at h1
    | cons y ys =>
      simp only [lexSign, true_iff]
      exact ⟨[], Or.inl ⟨y, ys, rfl, rfl⟩⟩
  | cons x xs ih =>
    cases b with
    | nil =>
      simp only [lexSign]
      constructor
      · intro h; omega
      · rintro ⟨p, ⟨y, t, h1, h2⟩ | ⟨x', y, s, t, h1, h2, _⟩⟩
        · simp at h2
        · simp at h2
    | cons y ys =>
      unfold lexSign
      by_cases h1 : key x < key y
      · simp only [h1, if_true, true_iff]
        exact ⟨[], Or.inr ⟨x, y, xs, ys, rfl, rfl, h1⟩⟩
      · by_cases h2 : key y < key x
        · simp only [h1, h2, if_false, if_true]
          constructor
          · intro h; omega
          · rintro ⟨p, ⟨y', t, e1, e2⟩ | ⟨x', y', s, t, e1, e2, hlt⟩⟩
            · subst e1
              simp only [List.cons_append, List.cons.injEq] at e2
              rw [e2.1] at h2; omega
            · cases p with
              | nil =>
                simp only [List.nil_append, List.cons.injEq] at e1 e2
                rw [← e1.1, ← e2.1] at hlt; omega
              | cons q qs =>
                simp only [List.cons_append, List.cons.injEq] at e1 e2
                rw [e1.1, e2.1] at h2; omega
        · have exy : x = y := inj x y (by omega)
          subst exy
          simp only [h1, if_false]
          rw [ih ys]
          constructor
          · rintro ⟨p, ⟨y', t, e1, e2⟩ | ⟨x', y', s, t, e1, e2, hlt⟩⟩
            · exact ⟨x :: p, Or.inl ⟨y', t, by simp [e1], by simp [e2]⟩⟩
            · exact ⟨x :: p, Or.inr ⟨x', y', s, t, by simp [e1], by simp [e2], hlt⟩⟩
          · rintro ⟨p, ⟨y', t, e1, e2⟩ | ⟨x', y', s, t, e1, e2, hlt⟩⟩
            · cases p with
              | nil => simp at e1
              | cons q qs =>
                simp only [List.cons_append, List.cons.injEq] at e1 e2
                exact ⟨qs, Or.inl ⟨y', t, e1.2, e2.2⟩⟩
            · cases p with
              | nil =>
                simp only [List.nil_append, List.cons.injEq] at e1 e2
                rw [← e1.1, ← e2.1] at hlt; omega
              | cons q qs =>
                simp only [List.cons_append, List.cons.injEq] at e1 e2
                exact ⟨qs, Or.inr ⟨x', y', s, t, e1.2, e2.2, hlt⟩⟩

theorem unsignedKey_inj (x y : Nat) (h : unsignedKey x = unsignedKey y) : x = y := by
  unfold unsignedKey at h; omega

theorem lengthOrder_self (n : Nat) : lengthOrder n n = 0 := by simp [lengthOrder]

/-- "common prefix, then lengths": the comparison is decided by the first `min |a| |b|` units, and
    by the lengths when those agree -/
theorem lexSign_decomp (key : Nat → Int) (a b : List Nat) :
    lexSign key a b =
      (let m := min a.length b.length
       let c := lexSign key (a.take m) (b.take m)
       if c ≠ 0 then c else lengthOrder a.length b.length) := by
  induction a generalizing b with
  | nil => cases b <;> simp [lexSign, lengthOrder]
  | cons x xs ih =>
    cases b with
    | nil => simp [lexSign, lengthOrder]
    | cons y ys =>
      have e : min (x :: xs).length (y :: ys).length = min xs.length ys.length + 1 := by
        simp only [List.length_cons]; omega
      simp only [e, List.take_succ_cons, lexSign]
      by_cases h1 : key x < key y
      · simp [h1]
      · by_cases h2 : key y < key x
        · simp [h1, h2]
        · simp only [h1, h2, if_false]
          rw [ih ys]
          simp only [lengthOrder, List.length_cons]
          have : (xs.length + 1 < ys.length + 1) = (xs.length < ys.length) := by simp
          have : (ys.length + 1 < xs.length + 1) = (ys.length < xs.length) := by simp
          simp_all

end StVerif.Lemmas.CompareSpec
