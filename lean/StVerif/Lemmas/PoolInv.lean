/-
  The invariant of the pool machine (`Pool.Inv`), the abstraction `view` (size and elements an
  object reports) and the generic preservation lemmas that carry every member function:
    * an object is set to a self-contained local state (its former block, if any, released);
    * an object is removed (destructor);
    * an object takes a freshly allocated block;
    * a block is transferred between two objects / two objects exchange their storage;
    * units are stored inside an object's own elements.
  Every lemma is stated for an arbitrary successor state `p'` described field by field, so the
  per-operation proofs only have to match the state computed by the do-block against the pattern.
-/
import StVerif.Lemmas.PoolBasic

namespace StVerif.Pool

/-- per-object part of the invariant (`L`, the heap and the object's own id are parameters) -/
structure ObjOk (L : Nat) (heap : Nat → Option (List Nat)) (o : Nat) (b : Buf) : Prop where
  len : b.data.length = L
  short : b.size < L → b.chars = .loc o ∧ b.data[b.size]? = some 0
  long : L ≤ b.size → ∃ k blk, b.chars = .heap k ∧ heap k = some blk ∧ blk.length = b.size + 1 ∧ blk[b.size]? = some 0

/-- object `o` is alive, long, and its `m_chars` is heap block `k` -/
def Owns (p : Pool) (o k : Nat) : Prop := ∃ b, p.objs o = some b ∧ p.L ≤ b.size ∧ b.chars = .heap k

/-- C05's invariant: every live object is well-formed, blocks are owned exclusively, nothing leaks -/
structure Inv (p : Pool) : Prop where
  Lpos : 0 < p.L
  obj : ∀ o b, p.objs o = some b → ObjOk p.L p.heap o b
  uniq : ∀ o₁ o₂ k, Owns p o₁ k → Owns p o₂ k → o₁ = o₂
  noLeak : ∀ k blk, p.heap k = some blk → ∃ o, Owns p o k
  bound : ∀ k blk, p.heap k = some blk → k < p.next

/-- `o` holds no heap block: it is not alive, or short -/
def NotOwning (p : Pool) (o : Nat) : Prop := ∀ b, p.objs o = some b → b.size < p.L

/-- a self-contained in-object state for object `o` -/
structure ShortOk (L : Nat) (o : Nat) (b : Buf) : Prop where
  len : b.data.length = L
  size : b.size < L
  chars : b.chars = .loc o
  term : b.data[b.size]? = some 0

/-! ### what an object reports -/

/-- `data()[0 .. size)` -/
def units (p : Pool) (b : Buf) : List Nat :=
  match b.chars with
  | .loc o' => match p.objs o' with | some b' => b'.data.take b.size | none => []
  | .heap k => match p.heap k with | some blk => blk.take b.size | none => []

/-- `(size(), data()[0 .. size))` of a live object -/
def view (p : Pool) (o : Nat) : Option (Nat × List Nat) := (p.objs o).map fun b => (b.size, units p b)

theorem Inv.owner_block {p : Pool} (hI : Inv p) {o : Nat} {b : Buf} (h : p.objs o = some b) (hl : p.L ≤ b.size) :
    ∃ k blk, b.chars = .heap k ∧ p.heap k = some blk ∧ blk.length = b.size + 1 ∧ blk[b.size]? = some 0 ∧ Owns p o k := by
  obtain ⟨k, blk, h1, h2, h3, h4⟩ := (hI.obj o b h).long hl
  exact ⟨k, blk, h1, h2, h3, h4, b, h, hl, h1⟩

theorem Inv.short_chars {p : Pool} (hI : Inv p) {o : Nat} {b : Buf} (h : p.objs o = some b) (hs : b.size < p.L) :
    b.chars = .loc o ∧ b.data[b.size]? = some 0 ∧ b.data.length = p.L :=
  ⟨((hI.obj o b h).short hs).1, ((hI.obj o b h).short hs).2, (hI.obj o b h).len⟩

theorem units_short {p : Pool} {o : Nat} {b : Buf} (h : p.objs o = some b) (hc : b.chars = .loc o) :
    units p b = b.data.take b.size := by
  simp [units, hc, h]

theorem units_long {p : Pool} {b : Buf} {k : Nat} {blk : List Nat} (hc : b.chars = .heap k) (hk : p.heap k = some blk) :
    units p b = blk.take b.size := by
  simp [units, hc, hk]

theorem view_short {p : Pool} {o : Nat} {b : Buf} (h : p.objs o = some b) (hc : b.chars = .loc o) :
    view p o = some (b.size, b.data.take b.size) := by
  simp [view, h, units_short h hc]

theorem view_long {p : Pool} {o : Nat} {b : Buf} {k : Nat} {blk : List Nat} (h : p.objs o = some b)
    (hc : b.chars = .heap k) (hk : p.heap k = some blk) : view p o = some (b.size, blk.take b.size) := by
  simp [view, h, units_long hc hk]

/-- the view of an object only depends on the object and (when long) on its own block -/
theorem view_frame {p p' : Pool} (hI : Inv p) (_hL : p'.L = p.L) {x : Nat}
    (hx : p'.objs x = p.objs x)
    (hh : ∀ k, Owns p x k → p'.heap k = p.heap k) : view p' x = view p x := by
  unfold view
  rw [hx]
  cases hb : p.objs x with
  | none => rfl
  | some b =>
    simp only [Option.map_some, Option.some.injEq, Prod.mk.injEq, true_and]
    by_cases hs : b.size < p.L
    · have hc := (hI.short_chars hb hs).1
      simp [units, hc, hx, hb]
    · obtain ⟨k, blk, h1, h2, _, _, hown⟩ := hI.owner_block hb (by omega)
      simp [units, h1, hh k hown, h2]

/-- what every operation guarantees about its successor state: the invariant, and that every object
    outside the set `T` of operands is the very same object (pointer included) reporting the same value -/
structure Succ (p p' : Pool) (T : Nat → Prop) : Prop where
  inv : Inv p'
  L : p'.L = p.L
  failAt : p'.failAt = p.failAt
  objs : ∀ x, ¬ T x → p'.objs x = p.objs x
  view : ∀ x, ¬ T x → view p' x = view p x

theorem Succ.mono {p p' : Pool} {T T' : Nat → Prop} (h : Succ p p' T) (hT : ∀ x, T x → T' x) : Succ p p' T' :=
  ⟨h.inv, h.L, h.failAt, fun x hx => h.objs x (fun h' => hx (hT x h')), fun x hx => h.view x (fun h' => hx (hT x h'))⟩

theorem Succ.trans {p p₁ p₂ : Pool} {T : Nat → Prop} (h₁ : Succ p p₁ T) (h₂ : Succ p₁ p₂ T) : Succ p p₂ T :=
  ⟨h₂.inv, h₂.L.trans h₁.L, h₂.failAt.trans h₁.failAt, fun x hx => (h₂.objs x hx).trans (h₁.objs x hx),
   fun x hx => (h₂.view x hx).trans (h₁.view x hx)⟩

/-! ### ownership facts -/

theorem Owns_of_eq {p p' : Pool} (hL : p'.L = p.L) {x k : Nat} (hx : p'.objs x = p.objs x) :
    Owns p' x k ↔ Owns p x k := by
  simp [Owns, hL, hx]

theorem Owns.inj {p : Pool} {o k k' : Nat} (h : Owns p o k) (h' : Owns p o k') : k = k' := by
  obtain ⟨b, h1, _, h3⟩ := h
  obtain ⟨b', h1', _, h3'⟩ := h'
  rw [h1] at h1'; cases h1'
  rw [h3] at h3'; cases h3'; rfl

theorem NotOwning.not_owns {p : Pool} {o : Nat} (h : NotOwning p o) (k : Nat) : ¬ Owns p o k := by
  rintro ⟨b, h1, h2, _⟩
  have := h b h1; omega

theorem notOwning_of_none {p : Pool} {o : Nat} (h : p.objs o = none) : NotOwning p o := by
  intro b hb; rw [h] at hb; cases hb

theorem notOwning_of_short {p : Pool} {o : Nat} {b : Buf} (h : p.objs o = some b) (hs : b.size < p.L) : NotOwning p o := by
  intro b' hb; rw [h] at hb; cases hb; exact hs

theorem Inv.owns_heap {p : Pool} (hI : Inv p) {o k : Nat} (h : Owns p o k) :
    ∃ b blk, p.objs o = some b ∧ p.L ≤ b.size ∧ b.chars = .heap k ∧ p.heap k = some blk ∧
      blk.length = b.size + 1 ∧ blk[b.size]? = some 0 := by
  obtain ⟨b, h1, h2, h3⟩ := h
  obtain ⟨k', blk, e1, e2, e3, e4, _⟩ := hI.owner_block h1 h2
  rw [h3] at e1; cases e1
  exact ⟨b, blk, h1, h2, h3, e2, e3, e4⟩

theorem ShortOk.objOk {L o : Nat} {b : Buf} (h : ShortOk L o b) (heap : Nat → Option (List Nat)) : ObjOk L heap o b :=
  ⟨h.len, fun _ => ⟨h.chars, h.term⟩, fun _ => absurd h.size (by omega)⟩

theorem ShortOk.not_owns {p : Pool} {o : Nat} {b : Buf} (h : ShortOk p.L o b) (hb : p.objs o = some b) (k : Nat) : ¬ Owns p o k :=
  (notOwning_of_short hb h.size).not_owns k

/-! ### the frame lemma: everything outside a set `T` of touched objects is as before -/

theorem Inv.frame {p p' : Pool} (hI : Inv p) (T : Nat → Prop) (hL : p'.L = p.L)
    (hobjs : ∀ x, ¬ T x → p'.objs x = p.objs x)
    (hheap : ∀ x k, ¬ T x → Owns p x k → p'.heap k = p.heap k)
    (hok : ∀ x b, T x → p'.objs x = some b → ObjOk p.L p'.heap x b)
    (huniq : ∀ x y k, T x → T y → Owns p' x k → Owns p' y k → x = y)
    (hsep : ∀ x y k, T x → ¬ T y → Owns p' x k → ¬ Owns p y k)
    (hleak : ∀ k blk, p'.heap k = some blk → (∃ x, T x ∧ Owns p' x k) ∨ (∃ y, ¬ T y ∧ Owns p y k))
    (hbound : ∀ k blk, p'.heap k = some blk → k < p'.next) :
    Inv p' ∧ ∀ x, ¬ T x → view p' x = view p x := by
  refine ⟨⟨by rw [hL]; exact hI.Lpos, ?_, ?_, ?_, hbound⟩, ?_⟩
  · intro x b hx
    rw [hL]
    by_cases hT : T x
    · exact hok x b hT hx
    · rw [hobjs x hT] at hx
      have h0 := hI.obj x b hx
      refine ⟨h0.len, h0.short, fun hl => ?_⟩
      obtain ⟨k, blk, h1, h2, h3, h4⟩ := h0.long hl
      exact ⟨k, blk, h1, by rw [hheap x k hT ⟨b, hx, hl, h1⟩]; exact h2, h3, h4⟩
  · intro x y k h1 h2
    by_cases hx : T x <;> by_cases hy : T y
    · exact huniq x y k hx hy h1 h2
    · exact absurd ((Owns_of_eq hL (hobjs y hy)).1 h2) (hsep x y k hx hy h1)
    · exact absurd ((Owns_of_eq hL (hobjs x hx)).1 h1) (hsep y x k hy hx h2)
    · exact hI.uniq x y k ((Owns_of_eq hL (hobjs x hx)).1 h1) ((Owns_of_eq hL (hobjs y hy)).1 h2)
  · intro k blk hk
    rcases hleak k blk hk with ⟨x, _, hx⟩ | ⟨y, hy, hy'⟩
    · exact ⟨x, hx⟩
    · exact ⟨y, (Owns_of_eq hL (hobjs y hy)).2 hy'⟩
  · intro x hx
    exact view_frame hI hL (hobjs x hx) (fun k hk => hheap x k hx hk)

/-- nothing the invariant talks about changed (e.g. only the allocation counter moved) -/
theorem Inv.same {p p' : Pool} (hI : Inv p) (hL : p'.L = p.L) (hobjs : ∀ x, p'.objs x = p.objs x)
    (hheap : ∀ k, p'.heap k = p.heap k) (hnext : p'.next = p.next) (hF : p'.failAt = p.failAt) :
    Succ p p' (fun _ => False) ∧ ∀ x, view p' x = view p x := by
  have := hI.frame (p' := p') (fun _ => False) hL (fun x _ => hobjs x) (fun _ k _ _ => hheap k)
    (fun _ _ h => h.elim) (fun _ _ _ h => h.elim) (fun _ _ _ h => h.elim)
    (fun k blk hk => by
      rw [hheap] at hk
      obtain ⟨y, hy⟩ := hI.noLeak k blk hk
      exact Or.inr ⟨y, fun h => h, hy⟩)
    (fun k blk hk => by rw [hheap] at hk; rw [hnext]; exact hI.bound k blk hk)
  exact ⟨⟨this.1, hL, hF, fun x _ => hobjs x, this.2⟩, fun x => this.2 x (fun h => h)⟩

/-- the invariant does not mention the allocation counter or the fault schedule -/
theorem Inv.congr {p p' : Pool} (hI : Inv p) (hL : p'.L = p.L) (hobjs : ∀ x, p'.objs x = p.objs x)
    (hheap : ∀ k, p'.heap k = p.heap k) (hnext : p'.next = p.next) : Inv p' :=
  (hI.frame (p' := p') (fun _ => False) hL (fun x _ => hobjs x) (fun _ k _ _ => hheap k)
    (fun _ _ h => h.elim) (fun _ _ _ h => h.elim) (fun _ _ _ h => h.elim)
    (fun k blk hk => by
      rw [hheap] at hk
      obtain ⟨y, hy⟩ := hI.noLeak k blk hk
      exact Or.inr ⟨y, fun h => h, hy⟩)
    (fun k blk hk => by rw [hheap] at hk; rw [hnext]; exact hI.bound k blk hk)).1

/-! ### generic preservation lemmas -/

/-- **an object is set to a self-contained local state, or removed**; its former block, if any, is released -/
theorem Inv.set_local {p p' : Pool} (hI : Inv p) {o : Nat} {nb : Option Buf} (hL : p'.L = p.L)
    (hself : p'.objs o = nb) (hoth : ∀ x, x ≠ o → p'.objs x = p.objs x)
    (hrel : ∀ k, Owns p o k → p'.heap k = none) (hheap : ∀ k, ¬ Owns p o k → p'.heap k = p.heap k)
    (hnext : p'.next = p.next) (hF : p'.failAt = p.failAt) (hb : ∀ b', nb = some b' → ShortOk p.L o b') :
    Succ p p' (· = o) ∧ view p' o = nb.map (fun b' => (b'.size, b'.data.take b'.size)) := by
  have hnown : ∀ k, ¬ Owns p' o k := by
    rintro k ⟨b, h1, h2, _⟩
    rw [hself] at h1
    have := (hb b h1).size; omega
  have hheap' : ∀ k blk, p'.heap k = some blk → ¬ Owns p o k ∧ p.heap k = some blk := by
    intro k blk hk
    have hno : ¬ Owns p o k := fun h => by rw [hrel k h] at hk; cases hk
    exact ⟨hno, by rw [← hheap k hno]; exact hk⟩
  have := hI.frame (p' := p') (fun x => x = o) hL hoth
    (fun x k hx hk => hheap k (fun h => hx (hI.uniq x o k hk h)))
    (fun x b hx hxb => by
      subst hx; rw [hself] at hxb; exact (hb b hxb).objOk _)
    (fun x y k hx hy _ _ => by rw [hx, hy])
    (fun x y k hx _ hk => by subst hx; exact absurd hk (hnown k))
    (fun k blk hk => by
      obtain ⟨hno, hk'⟩ := hheap' k blk hk
      obtain ⟨y, hy⟩ := hI.noLeak k blk hk'
      exact Or.inr ⟨y, fun e => hno (e ▸ hy), hy⟩)
    (fun k blk hk => by rw [hnext]; exact hI.bound k blk (hheap' k blk hk).2)
  refine ⟨⟨this.1, hL, hF, hoth, this.2⟩, ?_⟩
  cases nb with
  | none => simp [view, hself]
  | some b' => simpa using view_short hself (hb b' rfl).chars

/-- an object is set to a self-contained local state (its former block, if any, released) -/
theorem Inv.set_short {p p' : Pool} (hI : Inv p) {o n : Nat} {b' : Buf} {vs : List Nat} (hL : p'.L = p.L)
    (hself : p'.objs o = some b') (hoth : ∀ x, x ≠ o → p'.objs x = p.objs x)
    (hrel : ∀ k, Owns p o k → p'.heap k = none) (hheap : ∀ k, ¬ Owns p o k → p'.heap k = p.heap k)
    (hnext : p'.next = p.next) (hF : p'.failAt = p.failAt) (hb : ShortOk p.L o b')
    (hn : b'.size = n) (hv : b'.data.take n = vs) :
    Succ p p' (· = o) ∧ view p' o = some (n, vs) := by
  have := hI.set_local hL hself hoth hrel hheap hnext hF (fun b h => by cases h; exact hb)
  refine ⟨this.1, ?_⟩
  rw [this.2, ← hn, ← hv, ← hn]; rfl

/-- an object is destroyed (its block, if any, released) -/
theorem Inv.drop {p p' : Pool} (hI : Inv p) {o : Nat} (hL : p'.L = p.L)
    (hself : p'.objs o = none) (hoth : ∀ x, x ≠ o → p'.objs x = p.objs x)
    (hrel : ∀ k, Owns p o k → p'.heap k = none) (hheap : ∀ k, ¬ Owns p o k → p'.heap k = p.heap k)
    (hnext : p'.next = p.next) (hF : p'.failAt = p.failAt) :
    Succ p p' (· = o) ∧ view p' o = none := by
  have := hI.set_local hL hself hoth hrel hheap hnext hF (fun b h => by cases h)
  exact ⟨this.1, by rw [this.2]; rfl⟩

/-- **an object that holds no block takes a freshly allocated one** -/
theorem Inv.fresh {p p' : Pool} (hI : Inv p) {o n : Nat} {b' : Buf} {blk : List Nat} (hL : p'.L = p.L)
    (hself : p'.objs o = some b') (hoth : ∀ x, x ≠ o → p'.objs x = p.objs x)
    (hk : p'.heap p.next = some blk) (hheap : ∀ k, k ≠ p.next → p'.heap k = p.heap k)
    (hnext : p'.next = p.next + 1) (ho : NotOwning p o)
    (hc : b'.chars = .heap p.next) (hs : b'.size = n) (hn : p.L ≤ n) (hd : b'.data.length = p.L)
    (hlen : blk.length = n + 1) (hterm : blk[n]? = some 0) (hF : p'.failAt = p.failAt)
    {vs : List Nat} (hv : blk.take n = vs) :
    Succ p p' (· = o) ∧ view p' o = some (n, vs) := by
  have hfresh : ∀ x, ¬ Owns p x p.next := by
    intro x hx
    obtain ⟨b, blk0, _, _, _, h4, _⟩ := hI.owns_heap hx
    exact absurd (hI.bound _ _ h4) (by omega)
  have hown' : ∀ k, Owns p' o k → k = p.next := by
    rintro k ⟨b, h1, _, h3⟩
    rw [hself] at h1; cases h1
    rw [hc] at h3; cases h3; rfl
  have := hI.frame (p' := p') (fun x => x = o) hL hoth
    (fun x k _ hk => hheap k (fun e => hfresh x (e ▸ hk)))
    (fun x b hx hxb => by
      subst hx; rw [hself] at hxb; cases hxb
      exact ⟨hd, fun h => by omega, fun _ => ⟨p.next, blk, hc, hk, by omega, by rw [hs]; exact hterm⟩⟩)
    (fun x y k hx hy _ _ => by rw [hx, hy])
    (fun x y k hx _ hk hy => by subst hx; exact hfresh y (hown' k hk ▸ hy))
    (fun k blk0 hk0 => by
      by_cases e : k = p.next
      · exact Or.inl ⟨o, rfl, b', hself, by rw [hL]; omega, by rw [hc, e]⟩
      · rw [hheap k e] at hk0
        obtain ⟨y, hy⟩ := hI.noLeak k blk0 hk0
        exact Or.inr ⟨y, fun e' => (ho.not_owns k) (e' ▸ hy), hy⟩)
    (fun k blk0 hk0 => by
      by_cases e : k = p.next
      · omega
      · rw [hheap k e] at hk0
        have := hI.bound k blk0 hk0; omega)
  refine ⟨⟨this.1, hL, hF, hoth, this.2⟩, ?_⟩
  rw [view_long hself hc hk, hs, hv]

/-- **a block is transferred**: `o` (holding none) takes over the block and size of `src`, which becomes local -/
theorem Inv.transfer {p p' : Pool} (hI : Inv p) {o src k : Nat} {bs bo' bs' : Buf} (hL : p'.L = p.L)
    (hne : o ≠ src) (ho : NotOwning p o) (hsrc : p.objs src = some bs) (hsl : p.L ≤ bs.size) (hsc : bs.chars = .heap k)
    (ho' : p'.objs o = some bo') (hs' : p'.objs src = some bs')
    (hoth : ∀ x, x ≠ o → x ≠ src → p'.objs x = p.objs x)
    (hheap : ∀ k, p'.heap k = p.heap k) (hnext : p'.next = p.next)
    (hc : bo'.chars = .heap k) (hsz : bo'.size = bs.size) (hd : bo'.data.length = p.L)
    (hb : ShortOk p.L src bs') (hF : p'.failAt = p.failAt) :
    Succ p p' (fun x => x = o ∨ x = src) ∧ view p' o = view p src ∧
      view p' src = some (bs'.size, bs'.data.take bs'.size) := by
  have hown : Owns p src k := ⟨bs, hsrc, hsl, hsc⟩
  obtain ⟨_, blk, e1, _, _, hblk, hlen, hterm⟩ := hI.owns_heap hown
  rw [hsrc] at e1; cases e1
  have hown' : ∀ x k', (x = o ∨ x = src) → Owns p' x k' → x = o ∧ k' = k := by
    rintro x k' (rfl | rfl) ⟨b, h1, h2, h3⟩
    · rw [ho'] at h1; cases h1; rw [hc] at h3; cases h3; exact ⟨rfl, rfl⟩
    · rw [hs'] at h1; cases h1; have := hb.size; omega
  have := hI.frame (p' := p') (fun x => x = o ∨ x = src) hL
    (fun x hx => hoth x (fun e => hx (Or.inl e)) (fun e => hx (Or.inr e)))
    (fun _ k _ _ => hheap k)
    (fun x b hx hxb => by
      rcases hx with rfl | rfl
      · rw [ho'] at hxb; cases hxb
        exact ⟨hd, fun h => by omega, fun _ => ⟨k, blk, hc, by rw [hheap]; exact hblk, by omega, by rw [hsz]; exact hterm⟩⟩
      · rw [hs'] at hxb; cases hxb; exact hb.objOk _)
    (fun x y k' hx hy h1 h2 => by rw [(hown' x k' hx h1).1, (hown' y k' hy h2).1])
    (fun x y k' hx hy h1 h2 => by
      obtain ⟨_, rfl⟩ := hown' x k' hx h1
      exact hy (Or.inr (hI.uniq y src _ h2 hown)))
    (fun k' blk' hk' => by
      rw [hheap] at hk'
      obtain ⟨y, hy⟩ := hI.noLeak k' blk' hk'
      by_cases e : y = src
      · subst e
        have := hy.inj hown; subst this
        exact Or.inl ⟨o, Or.inl rfl, bo', ho', by rw [hL, hsz]; exact hsl, hc⟩
      · exact Or.inr ⟨y, fun h => h.elim (fun e' => ho.not_owns k' (e' ▸ hy)) e, hy⟩)
    (fun k' blk' hk' => by rw [hheap] at hk'; rw [hnext]; exact hI.bound k' blk' hk')
  refine ⟨⟨this.1, hL, hF, fun x hx => hoth x (fun e => hx (Or.inl e)) (fun e => hx (Or.inr e)), this.2⟩, ?_, view_short hs' hb.chars⟩
  rw [view_long ho' hc (by rw [hheap]; exact hblk), view_long hsrc hsc hblk, hsz]

/-- **two long objects exchange their blocks** -/
theorem Inv.swap_long {p p' : Pool} (hI : Inv p) {o src k₁ k₂ : Nat} {bo bs bo' bs' : Buf} (hL : p'.L = p.L)
    (hne : o ≠ src)
    (hobj : p.objs o = some bo) (hol : p.L ≤ bo.size) (hoc : bo.chars = .heap k₁)
    (hsrc : p.objs src = some bs) (hsl : p.L ≤ bs.size) (hsc : bs.chars = .heap k₂)
    (ho' : p'.objs o = some bo') (hs' : p'.objs src = some bs')
    (hoth : ∀ x, x ≠ o → x ≠ src → p'.objs x = p.objs x)
    (hheap : ∀ k, p'.heap k = p.heap k) (hnext : p'.next = p.next)
    (hc₁ : bo'.chars = .heap k₂) (hsz₁ : bo'.size = bs.size) (hd₁ : bo'.data.length = p.L)
    (hc₂ : bs'.chars = .heap k₁) (hsz₂ : bs'.size = bo.size) (hd₂ : bs'.data.length = p.L)
    (hF : p'.failAt = p.failAt) :
    Succ p p' (fun x => x = o ∨ x = src) ∧ view p' o = view p src ∧ view p' src = view p o := by
  have hown₁ : Owns p o k₁ := ⟨bo, hobj, hol, hoc⟩
  have hown₂ : Owns p src k₂ := ⟨bs, hsrc, hsl, hsc⟩
  obtain ⟨_, blk₁, e1, _, _, hblk₁, hlen₁, hterm₁⟩ := hI.owns_heap hown₁
  rw [hobj] at e1; cases e1
  obtain ⟨_, blk₂, e2, _, _, hblk₂, hlen₂, hterm₂⟩ := hI.owns_heap hown₂
  rw [hsrc] at e2; cases e2
  have hk : k₁ ≠ k₂ := fun e => hne (hI.uniq o src k₁ hown₁ (e ▸ hown₂))
  have hown' : ∀ x k', (x = o ∨ x = src) → Owns p' x k' → (x = o ∧ k' = k₂) ∨ (x = src ∧ k' = k₁) := by
    rintro x k' (rfl | rfl) ⟨b, h1, h2, h3⟩
    · rw [ho'] at h1; cases h1; rw [hc₁] at h3; cases h3; exact Or.inl ⟨rfl, rfl⟩
    · rw [hs'] at h1; cases h1; rw [hc₂] at h3; cases h3; exact Or.inr ⟨rfl, rfl⟩
  have := hI.frame (p' := p') (fun x => x = o ∨ x = src) hL
    (fun x hx => hoth x (fun e => hx (Or.inl e)) (fun e => hx (Or.inr e)))
    (fun _ k _ _ => hheap k)
    (fun x b hx hxb => by
      rcases hx with rfl | rfl
      · rw [ho'] at hxb; cases hxb
        exact ⟨hd₁, fun h => by omega, fun _ => ⟨k₂, blk₂, hc₁, by rw [hheap]; exact hblk₂, by omega, by rw [hsz₁]; exact hterm₂⟩⟩
      · rw [hs'] at hxb; cases hxb
        exact ⟨hd₂, fun h => by omega, fun _ => ⟨k₁, blk₁, hc₂, by rw [hheap]; exact hblk₁, by omega, by rw [hsz₂]; exact hterm₁⟩⟩)
    (fun x y k' hx hy h1 h2 => by
      rcases hown' x k' hx h1 with ⟨rfl, rfl⟩ | ⟨rfl, rfl⟩ <;> rcases hown' y _ hy h2 with ⟨rfl, e⟩ | ⟨rfl, e⟩
      · rfl
      · exact absurd e.symm hk
      · exact absurd e hk
      · rfl)
    (fun x y k' hx hy h1 h2 => by
      rcases hown' x k' hx h1 with ⟨rfl, rfl⟩ | ⟨rfl, rfl⟩
      · exact hy (Or.inr (hI.uniq y src _ h2 hown₂))
      · exact hy (Or.inl (hI.uniq y o _ h2 hown₁)))
    (fun k' blk' hk' => by
      rw [hheap] at hk'
      obtain ⟨y, hy⟩ := hI.noLeak k' blk' hk'
      by_cases e₁ : y = o
      · subst e₁
        have := hy.inj hown₁; subst this
        exact Or.inl ⟨src, Or.inr rfl, bs', hs', by rw [hL, hsz₂]; exact hol, hc₂⟩
      · by_cases e₂ : y = src
        · subst e₂
          have := hy.inj hown₂; subst this
          exact Or.inl ⟨o, Or.inl rfl, bo', ho', by rw [hL, hsz₁]; exact hsl, hc₁⟩
        · exact Or.inr ⟨y, fun h => h.elim e₁ e₂, hy⟩)
    (fun k' blk' hk' => by rw [hheap] at hk'; rw [hnext]; exact hI.bound k' blk' hk')
  refine ⟨⟨this.1, hL, hF, fun x hx => hoth x (fun e => hx (Or.inl e)) (fun e => hx (Or.inr e)), this.2⟩, ?_, ?_⟩
  · rw [view_long ho' hc₁ (by rw [hheap]; exact hblk₂), view_long hsrc hsc hblk₂, hsz₁]
  · rw [view_long hs' hc₂ (by rw [hheap]; exact hblk₁), view_long hobj hoc hblk₁, hsz₂]

/-- **units are stored into a long object's own block** without touching the terminator -/
theorem Inv.write_long {p p' : Pool} (hI : Inv p) {o k : Nat} {b : Buf} {blk blk' : List Nat} (hL : p'.L = p.L)
    (hobj : p.objs o = some b) (hl : p.L ≤ b.size) (hc : b.chars = .heap k) (hblk : p.heap k = some blk)
    (hobjs : ∀ x, p'.objs x = p.objs x)
    (hk : p'.heap k = some blk') (hheap : ∀ x, x ≠ k → p'.heap x = p.heap x) (hnext : p'.next = p.next)
    (hlen : blk'.length = blk.length) (hterm : blk'[b.size]? = some 0) (hF : p'.failAt = p.failAt) :
    Succ p p' (· = o) ∧ view p' o = some (b.size, blk'.take b.size) := by
  have hown : Owns p o k := ⟨b, hobj, hl, hc⟩
  obtain ⟨_, blk0, e1, _, _, hblk0, hlen0, _⟩ := hI.owns_heap hown
  rw [hobj] at e1; cases e1
  rw [hblk] at hblk0; cases hblk0
  have hown' : ∀ x k', x = o → Owns p' x k' → k' = k := by
    rintro x k' rfl ⟨b0, h1, _, h3⟩
    rw [hobjs, hobj] at h1; cases h1; rw [hc] at h3; cases h3; rfl
  have hpos : ∀ k' blk0, p'.heap k' = some blk0 → ∃ blk1, p.heap k' = some blk1 := by
    intro k' blk0 h
    by_cases e : k' = k
    · exact ⟨blk, e ▸ hblk⟩
    · exact ⟨blk0, by rw [← hheap k' e]; exact h⟩
  have := hI.frame (p' := p') (fun x => x = o) hL (fun x _ => hobjs x)
    (fun x k' hx hk' => hheap k' (fun e => hx (hI.uniq x o k (e ▸ hk') hown)))
    (fun x b0 hx hxb => by
      subst hx; rw [hobjs, hobj] at hxb; cases hxb
      exact ⟨(hI.obj _ _ hobj).len, fun h => by omega, fun _ => ⟨k, blk', hc, hk, by omega, hterm⟩⟩)
    (fun x y k hx hy _ _ => by rw [hx, hy])
    (fun x y k' hx hy h1 h2 => by
      have := hown' x k' hx h1; subst this
      exact hy (hI.uniq y o _ h2 hown))
    (fun k' blk0 hk0 => by
      obtain ⟨blk1, h1⟩ := hpos k' blk0 hk0
      obtain ⟨y, hy⟩ := hI.noLeak k' blk1 h1
      by_cases e : y = o
      · subst e
        exact Or.inl ⟨y, rfl, (Owns_of_eq hL (hobjs y)).2 hy⟩
      · exact Or.inr ⟨y, e, hy⟩)
    (fun k' blk0 hk0 => by
      obtain ⟨blk1, h1⟩ := hpos k' blk0 hk0
      rw [hnext]; exact hI.bound k' blk1 h1)
  refine ⟨⟨this.1, hL, hF, fun x _ => hobjs x, this.2⟩, ?_⟩
  rw [view_long (by rw [hobjs]; exact hobj) hc hk]

end StVerif.Pool
