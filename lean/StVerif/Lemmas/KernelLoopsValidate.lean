/-
  Bridge for the translated `validate_utf8` (include/st_utf_conv_priv.h as written by tools/gen_kernels.py):
  the translated loop, run over a whole source with enough fuel, returns the model's `validateUtf8`
  (0 = success, 1 = incomplete sequence, 3 = invalid sequence) -- in particular it never reads outside the source.
-/
import StVerif.Lemmas.KernelLoops
open StVerif StVerif.Cxx StVerif.Generated StVerif.Utf

namespace StVerif.KernelBridge

theorem validateUtf8_nil : validateUtf8 [] = 0 := by simp [validateUtf8]

set_option hygiene false in
/-- one iteration, for a known shape of the rest of the source: which bounds tests succeed is decided from the length,
    the recursive calls at the positions still inside the source are rewritten with the induction hypothesis, and what
    remains is the same cascade of tests on both sides -/
macro "validate_step" : tactic => `(tactic| (
    simp only [List.getElem?_cons_zero, List.getElem?_cons_succ, List.getElem?_nil, List.length_cons, List.length_nil,
      List.drop_succ_cons, List.drop_zero, List.drop_nil, Nat.zero_add] at hlen r0 r1 r2 r3 d1 d2 d3 d4 ⊢
    first | (have c0 : p < mem.length := by omega) | (have c0 : ¬ (p < mem.length) := by omega)
    first | (have c2 : p + 2 > mem.length := by omega) | (have c2 : ¬ (p + 2 > mem.length) := by omega)
    first | (have c3 : p + 3 > mem.length := by omega) | (have c3 : ¬ (p + 3 > mem.length) := by omega)
    first | (have c4 : p + 4 > mem.length := by omega) | (have c4 : ¬ (p + 4 > mem.length) := by omega)
    first | (have i1 := ih (p + 1) (by omega) (by omega); rw [d1] at i1) | (have i1 := True.intro)
    first | (have i2 := ih (p + 2) (by omega) (by omega); rw [d2] at i2) | (have i2 := True.intro)
    first | (have i3 := ih (p + 3) (by omega) (by omega); rw [d3] at i3) | (have i3 := True.intro)
    first | (have i4 := ih (p + 4) (by omega) (by omega); rw [d4] at i4) | (have i4 := True.intro)
    unfold Kernels.validate_utf8_loop1
    rw [validateUtf8]
    simp only [rd8, r0, r1, r2, r3, e2, e3, e4, ok_bind, error_bind, pure_eq_ok, i1, i2, i3, i4, c0, c2, c3, c4, ↓reduceIte]
    try simp only [apply_ite (fun x : Nat => (Except.ok (x : Int) : M Int)), errInvalidUtf8, errIncompleteUtf8]
    try rfl))

/-- the translated loop of `validate_utf8` from any position inside the source: the model's `validateUtf8` of the rest -/
theorem validate_utf8_loop_eq (mem : List Nat) :
    ∀ fuel p, p ≤ mem.length → mem.length - p < fuel →
      Kernels.validate_utf8_loop1 mem 0 mem.length mem.length fuel p
        = .ok ((validateUtf8 (mem.drop p) : Nat) : Int) := by
  intro fuel
  induction fuel with
  | zero => intro p _ h; omega
  | succ n ih =>
    intro p hp hf
    generalize hl : mem.drop p = l
    have hlen := len_drop hl hp
    have r0 := rd_drop hl 0
    have r1 := rd_drop hl 1
    have r2 := rd_drop hl 2
    have r3 := rd_drop hl 3
    have d1 := drop_add hl 1
    have d2 := drop_add hl 2
    have d3 := drop_add hl 3
    have d4 := drop_add hl 4
    have e2 : p + 1 + 1 = p + 2 := by omega
    have e3 : p + 2 + 1 = p + 3 := by omega
    have e4 : p + 3 + 1 = p + 4 := by omega
    simp only [Nat.add_zero] at r0
    clear hl
    rcases l with _ | ⟨b0, _ | ⟨b1, _ | ⟨b2, _ | ⟨b3, r⟩⟩⟩⟩
    · validate_step
    · validate_step
    · validate_step
    · validate_step
    · validate_step

/-- the translated `validate_utf8` over a whole source is the model's `validateUtf8`: same verdict, same error code,
    and no read outside the source -/
theorem validate_utf8_eq (mem : List Nat) (fuel : Nat) (hf : mem.length < fuel) :
    Kernels.validate_utf8 mem fuel 0 mem.length = .ok ((validateUtf8 mem : Nat) : Int) := by
  unfold Kernels.validate_utf8
  simp only [Nat.zero_add]
  rw [validate_utf8_loop_eq mem fuel 0 (by omega) (by omega), List.drop_zero]

/-- the translated `validate_utf8` never faults -/
theorem validate_utf8_ok (mem : List Nat) (fuel : Nat) (hf : mem.length < fuel) :
    isOk (Kernels.validate_utf8 mem fuel 0 mem.length) = true := by
  rw [validate_utf8_eq mem fuel hf]; rfl

/-- the translated `validate_utf8` accepts exactly what the model's `validateUtf8` accepts -/
theorem validate_utf8_accepts_iff (mem : List Nat) (fuel : Nat) (hf : mem.length < fuel) :
    Kernels.validate_utf8 mem fuel 0 mem.length = .ok (0 : Int) ↔ validateUtf8 mem = 0 := by
  rw [validate_utf8_eq mem fuel hf]
  constructor
  · intro h
    have h' : ((validateUtf8 mem : Nat) : Int) = 0 := by injection h
    omega
  · intro h; rw [h]; rfl

end StVerif.KernelBridge
