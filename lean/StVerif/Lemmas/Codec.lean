import StVerif.Bits
import StVerif.Model.Codec
import StVerif.Spec.Rfc4648

namespace StVerif.Lemmas.Codec
open StVerif StVerif.Codec StVerif.Generated StVerif.Bits
open StVerif.Spec

/-! ### facts about the regenerated tables (whole table, `decide +kernel`) -/

theorem hexChar_eq_digit : ∀ i : Fin 16, hexChar i.val = Rfc4648.hexDigit i.val := by decide +kernel
theorem b64Char_eq_alphabet : ∀ i : Fin 64, b64Char i.val = Rfc4648.alphabet i.val := by decide +kernel
theorem hexVal_hexChar : ∀ i : Fin 16, hexVal (hexChar i.val) = (i.val : Int) := by decide +kernel
theorem hexVal_upper : ∀ i : Fin 16, hexVal (Rfc4648.upperHex (hexChar i.val)) = (i.val : Int) := by decide +kernel
theorem b64Val_b64Char : ∀ i : Fin 64, b64Val (b64Char i.val) = (i.val : Int) := by decide +kernel
theorem hexVal_nonneg_iff : ∀ b : Fin 256, decide (0 ≤ hexVal b.val) = Rfc4648.isHexDigit b.val := by decide +kernel
theorem b64Val_nonneg_iff : ∀ b : Fin 256, decide (0 ≤ b64Val b.val) = Rfc4648.isB64Char b.val := by decide +kernel
theorem hexVal_lt : ∀ b : Fin 256, hexVal b.val < 16 := by decide +kernel
theorem b64Val_lt : ∀ b : Fin 256, b64Val b.val < 64 := by decide +kernel
theorem b64Char_ne_eq : ∀ i : Fin 64, b64Char i.val ≠ eqSign := by decide +kernel
theorem b64Val_eqSign : b64Val eqSign < 0 := by decide +kernel
theorem isB64Char_eqSign : Rfc4648.isB64Char 61 = false := by decide

theorem hexChar_eq_digit' {i : Nat} (h : i < 16) : hexChar i = Rfc4648.hexDigit i := hexChar_eq_digit ⟨i, h⟩
theorem b64Char_eq_alphabet' {i : Nat} (h : i < 64) : b64Char i = Rfc4648.alphabet i := b64Char_eq_alphabet ⟨i, h⟩
theorem hexVal_hexChar' {i : Nat} (h : i < 16) : hexVal (hexChar i) = (i : Int) := hexVal_hexChar ⟨i, h⟩
theorem hexVal_upper' {i : Nat} (h : i < 16) : hexVal (Rfc4648.upperHex (hexChar i)) = (i : Int) := hexVal_upper ⟨i, h⟩
theorem b64Val_b64Char' {i : Nat} (h : i < 64) : b64Val (b64Char i) = (i : Int) := b64Val_b64Char ⟨i, h⟩
theorem b64Char_ne_eq' {i : Nat} (h : i < 64) : b64Char i ≠ eqSign := b64Char_ne_eq ⟨i, h⟩
theorem hexVal_nonneg_iff' {b : Nat} (h : b < 256) : (0 ≤ hexVal b) ↔ Rfc4648.isHexDigit b = true := by
  have := hexVal_nonneg_iff ⟨b, h⟩; simp only at this; rw [← this]; simp
theorem b64Val_nonneg_iff' {b : Nat} (h : b < 256) : (0 ≤ b64Val b) ↔ Rfc4648.isB64Char b = true := by
  have := b64Val_nonneg_iff ⟨b, h⟩; simp only at this; rw [← this]; simp
theorem hexVal_lt' {b : Nat} (h : b < 256) : hexVal b < 16 := hexVal_lt ⟨b, h⟩
theorem b64Val_lt' {b : Nat} (h : b < 256) : b64Val b < 64 := b64Val_lt ⟨b, h⟩

/-! ### the encoder's index expressions, normalised -/

theorem idx_hex_hi (b : Nat) (h : b < 256) : (b >>> 4) &&& 0x0F = b / 16 := by
  rw [and_0F, Nat.shiftRight_eq_div_pow]; omega
theorem idx_hex_lo (b : Nat) : b &&& 0x0F = b % 16 := and_0F b

theorem idx_b64_0 (a : Nat) : a >>> 2 = a / 4 := by rw [Nat.shiftRight_eq_div_pow]
theorem idx_b64_1 (a b : Nat) (_ha : a < 256) (hb : b < 256) :
    ((a &&& 0x03) <<< 4) ||| ((b &&& 0xF0) >>> 4) = (a % 4) * 16 + b / 16 := by
  simp only [and_03, and_F0, Nat.shiftLeft_eq, Nat.shiftRight_eq_div_pow]
  rw [or_mul_eq_add _ _ 4 (by omega)]; omega
theorem idx_b64_2 (b c : Nat) (_hb : b < 256) (hc : c < 256) :
    ((b &&& 0x0F) <<< 2) ||| ((c &&& 0xC0) >>> 6) = (b % 16) * 4 + c / 64 := by
  simp only [and_0F, and_C0, Nat.shiftLeft_eq, Nat.shiftRight_eq_div_pow]
  rw [or_mul_eq_add _ _ 2 (by omega)]; omega
theorem idx_b64_3 (c : Nat) : c &&& 0x3F = c % 64 := and_3F c
theorem idx_b64_t2 (b : Nat) : (b &&& 0x0F) <<< 2 = (b % 16) * 4 := by
  simp only [and_0F, Nat.shiftLeft_eq]
theorem idx_b64_t1 (a : Nat) : (a &&& 0x03) <<< 4 = (a % 4) * 16 := by
  simp only [and_03, Nat.shiftLeft_eq]

/-! ### the decoder's byte expressions on sextets, normalised -/

theorem dec_o0 (n0 n1 : Nat) (h0 : n0 < 64) (_h1 : n1 < 64) :
    chr ((n0 <<< 2) ||| ((n1 >>> 4) &&& 0x03)) = n0 * 4 + n1 / 16 := by
  simp only [chr, and_03, Nat.shiftLeft_eq, Nat.shiftRight_eq_div_pow]
  rw [or_mul_eq_add _ _ 2 (by omega)]; omega
theorem dec_o1 (n1 n2 : Nat) (_h1 : n1 < 64) (h2 : n2 < 64) :
    chr (((n1 <<< 4) &&& 0xF0) ||| ((n2 >>> 2) &&& 0x0F)) = (n1 % 16) * 16 + n2 / 4 := by
  simp only [chr, and_0F, and_F0, Nat.shiftLeft_eq, Nat.shiftRight_eq_div_pow]
  rw [or_mul_eq_add _ _ 4 (by omega)]; omega
theorem dec_o2 (n2 n3 : Nat) (_h2 : n2 < 64) (h3 : n3 < 64) :
    chr (((n2 <<< 6) &&& 0xC0) ||| (n3 &&& 0x3F)) = (n2 % 4) * 64 + n3 := by
  simp only [chr, and_3F, and_C0, Nat.shiftLeft_eq]
  rw [or_mul_eq_add _ _ 6 (by omega)]; omega
theorem dec_hex (hi lo : Nat) (hh : hi < 16) (hl : lo < 16) : chr (hi <<< 4 ||| lo) = hi * 16 + lo := by
  simp only [chr, Nat.shiftLeft_eq]
  rw [or_mul_eq_add _ _ 4 (by omega)]; omega

end StVerif.Lemmas.Codec
