/-
  Bridge for the translated `find_ci(haystack, size, ch)` of include/st_string_priv.h (the case-insensitive scan for one
  character; a pointer result is `Option Nat`: the index found, or `none` for the null pointer).
-/
import StVerif.Lemmas.KernelLoopsCompare
import StVerif.Lemmas.KernelLoopsMisc
import StVerif.Model.Find
open StVerif StVerif.Cxx StVerif.Generated StVerif.Search

namespace StVerif.KernelBridge

theorem toChar_inj : ∀ a, a < 256 → ∀ b, b < 256 → (toChar a = toChar b ↔ a = b) := by
  intro a ha b hb
  unfold toChar
  constructor
  · intro h; split at h <;> split at h <;> omega
  · intro h; rw [h]

theorem find_ci_loop_eq (mem : List Nat) (hb : ∀ b ∈ mem, b < 256) (c : Nat) (hc : c < 256) (hay sz : Nat) (ch : Int) :
    ∀ fuel p, p ≤ mem.length → mem.length - p < fuel →
      Kernels.find_ci_loop1 mem hay sz ch mem.length (toChar (lower c)) fuel p
        = .ok (scanChar .insensitive c (mem.drop p) p) := by
  intro fuel
  induction fuel with
  | zero => intro p _ h; omega
  | succ n ih =>
    intro p hp hf
    unfold Kernels.find_ci_loop1
    by_cases hlt : p < mem.length
    · obtain ⟨t, hr, hd⟩ := misc_rd_lt mem p hlt
      have ht : t < 256 := hb t (by
        have : t ∈ mem.drop p := by rw [hd]; simp
        exact List.mem_of_mem_drop this)
      simp only [hlt, ↓reduceIte, rd8, hr, ok_bind, cl_fast_lower_eq t ht, hd, scanChar, eqv]
      have hl1 := lower_lt_256 t ht
      have hl2 := lower_lt_256 c hc
      by_cases he : lower t = lower c
      · simp [he]
      · have : ¬ toChar (lower t) = toChar (lower c) := fun h => he ((toChar_inj _ hl1 _ hl2).1 h)
        simp only [this, ↓reduceIte, he, beq_iff_eq, Bool.false_eq_true]
        exact ih (p + 1) (by omega) (by omega)
    · have hd : mem.drop p = [] := List.drop_eq_nil_of_le (by omega)
      simp [hlt, hd, scanChar]

/-- the translated `find_ci(haystack, size, ch)` is the model's scan: the first index whose folded byte equals the folded
    needle, or the null pointer; it never reads outside the haystack -/
theorem find_ci_eq (mem : List Nat) (hb : ∀ b ∈ mem, b < 256) (c : Nat) (hc : c < 256) (fuel : Nat) (hf : mem.length < fuel) :
    Kernels.find_ci mem fuel 0 mem.length (toChar c) = .ok (scanChar .insensitive c mem 0) := by
  unfold Kernels.find_ci
  simp only [cl_fast_lower_eq c hc, ok_bind, Nat.zero_add]
  have := find_ci_loop_eq mem hb c hc 0 mem.length (toChar c) fuel 0 (by omega) (by omega)
  simpa using this

end StVerif.KernelBridge
