/-
  Bridge for the translated conversion loops whose source is UTF-8 (built on `extract_utf8`):
  utf16_measure_from_utf8 / utf16_convert_from_utf8 / utf32_measure_from_utf8 / utf32_convert_from_utf8
  (include/st_utf_conv_priv.h as written by tools/gen_kernels.py).  Same shape as the template
  (KernelLoops.lean): each translated loop, run over a whole source with enough fuel, is the model's
  `measure` / `fill (stepCh …)` over the model's `decodeUtf8`.
-/
import StVerif.Lemmas.KernelLoops
open StVerif StVerif.Cxx StVerif.Generated StVerif.Utf
namespace StVerif.KernelBridge

theorem or_lt23 {a b : Nat} (ha : a < 2 ^ 23) (hb : b < 2 ^ 23) : a ||| b < 2 ^ 23 := Nat.or_lt_two_pow ha hb

set_option hygiene false in
macro "kernel8_lt" : tactic => `(tactic| (
    simp only [List.getElem?_cons_zero, List.getElem?_cons_succ, List.getElem?_nil, List.length_cons, List.length_nil,
      Nat.zero_add, Nat.add_zero] at hlen r0 r1 r2 r3 h
    unfold Kernels.extract_utf8 at h
    simp only [rd8, r0, r1, r2, r3, e2, e3, e4, ok_bind, error_bind, pure_eq_ok, Kernels.error_char] at h
    repeat' split at h
    all_goals first
      | (cases h; first | omega | (simp; done) | decide | (simp only [Nat.shiftLeft_eq]; (repeat' apply or_lt23) <;> omega))
      | (exfalso; first | omega | (cases h)) ))

/-- the value one call of the translated `extract_utf8` returns fits 23 bits (a decoded sequence of at most 21 bits, or a
    flagged error); no hypothesis on the bytes is needed: every byte but an ASCII one is masked -/
theorem extract_utf8_lt (mem : List Nat) (p v p' : Nat) (hp : p < mem.length)
    (h : Kernels.extract_utf8 mem p mem.length = .ok (v, p')) : v < 2 ^ 23 := by
  generalize hl : mem.drop p = l
  have hlen := len_drop hl (by omega)
  have r0 := rd_drop hl 0
  have r1 := rd_drop hl 1
  have r2 := rd_drop hl 2
  have r3 := rd_drop hl 3
  have e2 : p + 1 + 1 = p + 2 := by omega
  have e3 : p + 2 + 1 = p + 3 := by omega
  have e4 : p + 3 + 1 = p + 4 := by omega
  simp only [Nat.add_zero] at r0
  rw [hlen] at h
  clear hl
  rcases l with _ | ⟨b0, _ | ⟨b1, _ | ⟨b2, _ | ⟨b3, r⟩⟩⟩⟩
  · simp at hlen; omega
  · kernel8_lt
  · have a0 : b0 &&& 31 ≤ 31 := Nat.and_le_right
    have a1 : b1 &&& 63 ≤ 63 := Nat.and_le_right
    kernel8_lt
  · have a0 : b0 &&& 31 ≤ 31 := Nat.and_le_right
    have a0' : b0 &&& 15 ≤ 15 := Nat.and_le_right
    have a1 : b1 &&& 63 ≤ 63 := Nat.and_le_right
    have a2 : b2 &&& 63 ≤ 63 := Nat.and_le_right
    kernel8_lt
  · have a0 : b0 &&& 31 ≤ 31 := Nat.and_le_right
    have a0' : b0 &&& 15 ≤ 15 := Nat.and_le_right
    have a0'' : b0 &&& 7 ≤ 7 := Nat.and_le_right
    have a1 : b1 &&& 63 ≤ 63 := Nat.and_le_right
    have a2 : b2 &&& 63 ≤ 63 := Nat.and_le_right
    have a3 : b3 &&& 63 ≤ 63 := Nat.and_le_right
    kernel8_lt

theorem u8src_utf16Measure_le (ch : Nat) : utf16Measure ch ≤ 2 := by
  unfold utf16Measure; split <;> omega

/-! ### UTF-8 -> UTF-16 -/

theorem utf16_measure_from_utf8_loop_eq (mem : List Nat) :
    ∀ fuel acc p, p ≤ mem.length → mem.length - p < fuel → acc + 2 * (mem.length - p) < 2 ^ 64 →
      Kernels.utf16_measure_from_utf8_loop1 mem 0 mem.length mem.length false fuel acc p
        = .ok (acc + ((decodeUtf8 (mem.drop p)).map utf16Measure).sum) := by
  intro fuel
  induction fuel with
  | zero => intro acc p _ h; omega
  | succ n ih =>
    intro acc p hp hf hb
    unfold Kernels.utf16_measure_from_utf8_loop1
    by_cases hlt : p < mem.length
    · simp only [hlt, ↓reduceIte]
      obtain ⟨⟨v, p'⟩, hs⟩ := (isOk_iff _).1 (extract_utf8_ok mem p hlt)
      obtain ⟨h1, h2, h3⟩ := extract_utf8_sound mem p v p' hlt hs
      have hm := u8src_utf16Measure_le v
      simp only [hs, ok_bind, utf16_measure_eq]
      rw [Nat.mod_eq_of_lt (by omega), ih _ _ h2 (by omega) (by omega), h3]
      simp [Nat.add_assoc]
    · have hd : mem.drop p = [] := List.drop_eq_nil_of_le (by omega)
      simp [hlt, hd, decodeUtf8_nil]

/-- the translated sizing pass UTF-8 -> UTF-16 is the model's `measure` -/
theorem utf16_measure_from_utf8_eq (mem : List Nat) (fuel : Nat) (hf : mem.length < fuel) (hl : 2 * mem.length < 2 ^ 64) :
    Kernels.utf16_measure_from_utf8 mem fuel 0 false mem.length = .ok (Utf.measure .utf8 .utf16 mem) := by
  unfold Kernels.utf16_measure_from_utf8
  simp only [↓reduceIte, Nat.zero_add]
  rw [utf16_measure_from_utf8_loop_eq mem fuel 0 0 (by omega) (by omega) (by omega)]
  simp only [Utf.measure, decode, Nat.zero_add]
  congr 1

theorem utf16_convert_from_utf8_loop_eq (mem : List Nat) (m : Mode) (subst : Bool) :
    ∀ fuel out p, p ≤ mem.length → mem.length - p < fuel →
      Kernels.utf16_convert_from_utf8_loop1 mem 0 mem.length (modeCode m) mem.length fuel p out
        = (fillResult (fill (stepCh .utf8 .utf16 m subst) (decodeUtf8 (mem.drop p)))).map (fun r => (r.1, out ++ r.2)) := by
  intro fuel
  induction fuel with
  | zero => intro out p _ h; omega
  | succ n ih =>
    intro out p hp hf
    unfold Kernels.utf16_convert_from_utf8_loop1
    by_cases hlt : p < mem.length
    · simp only [hlt, ↓reduceIte]
      obtain ⟨⟨v, p'⟩, hs⟩ := (isOk_iff _).1 (extract_utf8_ok mem p hlt)
      obtain ⟨h1, h2, h3⟩ := extract_utf8_sound mem p v p' hlt hs
      have hv := extract_utf8_lt mem p v p' hlt hs
      simp only [hs, ok_bind, h3, fill, stepCh, char_error_eq v (by omega), write_utf16_eq]
      have ih' := fun o => ih o p' h2 (by omega)
      simp only [ih']
      generalize fill (stepCh Enc.utf8 Enc.utf16 m subst) (decodeUtf8 (List.drop p' mem)) = F
      obtain ⟨o, st⟩ := F
      by_cases he : charError v = 0 <;> cases m <;> cases hw : writeUtf16 v <;> cases st <;>
        simp [he, modeCode, fillResult, Except.map, badcharSubstitute, errOutOfRange, List.append_assoc]
    · have hd : mem.drop p = [] := List.drop_eq_nil_of_le (by omega)
      simp [hlt, hd, decodeUtf8_nil, fill, fillResult, Except.map]

/-- the translated filling pass UTF-8 -> UTF-16 is the model's `fill` over the model's decoder: same units stored, same
    error code -/
theorem utf16_convert_from_utf8_eq (mem : List Nat) (m : Mode) (subst : Bool) (fuel : Nat) (hf : mem.length < fuel) :
    Kernels.utf16_convert_from_utf8 mem fuel 0 mem.length (modeCode m)
      = fillResult (fill (stepCh .utf8 .utf16 m subst) (decode .utf8 mem)) := by
  unfold Kernels.utf16_convert_from_utf8
  simp only [Nat.zero_add]
  rw [utf16_convert_from_utf8_loop_eq mem m subst fuel [] 0 (by omega) (by omega)]
  simp only [List.drop_zero, decode]
  exact map_fillResult_nil _

/-! ### UTF-8 -> UTF-32 -/

theorem utf32_measure_from_utf8_loop_eq (mem : List Nat) :
    ∀ fuel acc p, p ≤ mem.length → mem.length - p < fuel → acc + (mem.length - p) < 2 ^ 64 →
      Kernels.utf32_measure_from_utf8_loop1 mem 0 mem.length mem.length false fuel acc p
        = .ok (acc + ((decodeUtf8 (mem.drop p)).map (measureCh .utf8 .utf32)).sum) := by
  intro fuel
  induction fuel with
  | zero => intro acc p _ h; omega
  | succ n ih =>
    intro acc p hp hf hb
    unfold Kernels.utf32_measure_from_utf8_loop1
    by_cases hlt : p < mem.length
    · simp only [hlt, ↓reduceIte]
      obtain ⟨⟨v, p'⟩, hs⟩ := (isOk_iff _).1 (extract_utf8_ok mem p hlt)
      obtain ⟨h1, h2, h3⟩ := extract_utf8_sound mem p v p' hlt hs
      simp only [hs, ok_bind]
      rw [Nat.mod_eq_of_lt (by omega), ih _ _ h2 (by omega) (by omega), h3]
      simp [measureCh, Nat.add_assoc]
    · have hd : mem.drop p = [] := List.drop_eq_nil_of_le (by omega)
      simp [hlt, hd, decodeUtf8_nil]

/-- the translated sizing pass UTF-8 -> UTF-32 is the model's `measure` -/
theorem utf32_measure_from_utf8_eq (mem : List Nat) (fuel : Nat) (hf : mem.length < fuel) (hl : mem.length < 2 ^ 64) :
    Kernels.utf32_measure_from_utf8 mem fuel 0 false mem.length = .ok (Utf.measure .utf8 .utf32 mem) := by
  unfold Kernels.utf32_measure_from_utf8
  simp only [↓reduceIte, Nat.zero_add]
  rw [utf32_measure_from_utf8_loop_eq mem fuel 0 0 (by omega) (by omega) (by omega)]
  simp only [Utf.measure, decode, Nat.zero_add, List.drop_zero]

theorem utf32_convert_from_utf8_loop_eq (mem : List Nat) (m : Mode) (subst : Bool) :
    ∀ fuel out p, p ≤ mem.length → mem.length - p < fuel →
      Kernels.utf32_convert_from_utf8_loop1 mem 0 mem.length (modeCode m) mem.length fuel p out
        = (fillResult (fill (stepCh .utf8 .utf32 m subst) (decodeUtf8 (mem.drop p)))).map (fun r => (r.1, out ++ r.2)) := by
  intro fuel
  induction fuel with
  | zero => intro out p _ h; omega
  | succ n ih =>
    intro out p hp hf
    unfold Kernels.utf32_convert_from_utf8_loop1
    by_cases hlt : p < mem.length
    · simp only [hlt, ↓reduceIte]
      obtain ⟨⟨v, p'⟩, hs⟩ := (isOk_iff _).1 (extract_utf8_ok mem p hlt)
      obtain ⟨h1, h2, h3⟩ := extract_utf8_sound mem p v p' hlt hs
      have hv := extract_utf8_lt mem p v p' hlt hs
      simp only [hs, ok_bind, h3, fill, stepCh, char_error_eq v (by omega)]
      have ih' := fun o => ih o p' h2 (by omega)
      simp only [ih']
      generalize fill (stepCh Enc.utf8 Enc.utf32 m subst) (decodeUtf8 (List.drop p' mem)) = F
      obtain ⟨o, st⟩ := F
      by_cases he : charError v = 0 <;> cases m <;> cases st <;>
        simp [he, modeCode, fillResult, Except.map, badcharSubstitute, List.append_assoc]
    · have hd : mem.drop p = [] := List.drop_eq_nil_of_le (by omega)
      simp [hlt, hd, decodeUtf8_nil, fill, fillResult, Except.map]

/-- the translated filling pass UTF-8 -> UTF-32 is the model's `fill` over the model's decoder: same units stored, same
    error code -/
theorem utf32_convert_from_utf8_eq (mem : List Nat) (m : Mode) (subst : Bool) (fuel : Nat) (hf : mem.length < fuel) :
    Kernels.utf32_convert_from_utf8 mem fuel 0 mem.length (modeCode m)
      = fillResult (fill (stepCh .utf8 .utf32 m subst) (decode .utf8 mem)) := by
  unfold Kernels.utf32_convert_from_utf8
  simp only [Nat.zero_add]
  rw [utf32_convert_from_utf8_loop_eq mem m subst fuel [] 0 (by omega) (by omega)]
  simp only [List.drop_zero, decode]
  exact map_fillResult_nil _

end StVerif.KernelBridge
