/-
  Bridge for the translated decoders into a caller buffer of include/st_codecs_priv.h (as written by
  tools/gen_kernels.py): `b64_decode_size`, `hex_decode` and `b64_decode`.

  The `const ST::string &` parameter is the source range `txt ++ [0]` (the text followed by the terminating NUL of
  `c_str()`) plus the parameter `<name>_size = txt.length`; `void *output` is the flag `output_null` plus the list of
  units stored.  Run with enough fuel the translated functions return the model's `Codec.b64DecodeSize`,
  `Codec.hexDecodeInto` and `Codec.b64DecodeInto` (return value and bytes stored, in order) -- in particular they
  never read outside the text (not even its NUL), never index the value tables out of range, and every stored value
  fits a byte (the model's narrowing `Codec.chr` is the identity on them).
-/
import StVerif.Lemmas.KernelLoops
import StVerif.Model.Codec
open StVerif StVerif.Cxx StVerif.Generated

namespace StVerif.KernelBridge

/-! ### the value tables -/

/-- the translated `hex_values` is the model's table on every `unsigned char` index -/
theorem rdI_hex_values : ∀ b, b < 256 → rdI Kernels.hex_decode_hex_values b = .ok (Codec.hexVal b) := by
  decide +kernel

/-- the translated `b64_values` is the model's table on every `unsigned char` index -/
theorem rdI_b64_values : ∀ b, b < 256 → rdI Kernels.b64_decode_b64_values b = .ok (Codec.b64Val b) := by
  decide +kernel

theorem hexVal_le15 : ∀ b, b < 256 → Codec.hexVal b ≤ 15 := by decide +kernel
theorem b64Val_le63 : ∀ b, b < 256 → Codec.b64Val b ≤ 63 := by decide +kernel

/-! ### reads of the text inside `txt ++ s` -/

/-- a read of `txt ++ s` at a position whose unit is known from `txt.drop p` -/
theorem rd_app_drop {txt l s : List Nat} {p : Nat} (h : txt.drop p = l) (k v : Nat) (hv : l[k]? = some v) :
    rd (txt ++ s) (p + k) = .ok v := by
  subst h
  rw [List.getElem?_drop] at hv
  have hlt : p + k < txt.length := by
    rcases List.getElem?_eq_some_iff.mp hv with ⟨h, _⟩; exact h
  apply rd_of_getElem?
  rw [List.getElem?_append_left hlt]; exact hv

/-- a read of `txt ++ s` inside the text -/
theorem rd_app_getD (txt s : List Nat) (i : Nat) (hi : i < txt.length) :
    rd (txt ++ s) i = .ok (txt.getD i 0) := by
  apply rd_of_getElem?
  rw [List.getElem?_append_left hi, List.getD_eq_getElem?_getD, List.getElem?_eq_getElem hi]
  rfl

/-! ### the stored values fit a byte -/

theorem chr_of_lt {x : Nat} (h : x < 256) : Codec.chr x = x := by
  unfold Codec.chr; omega

theorem toNat_lt_of_le {v : Int} {c : Nat} (h : v ≤ (c : Int)) : v.toNat < c + 1 := by omega

theorem chr_hex {x y : Nat} (hx : x < 16) (hy : y < 16) : Codec.chr (x <<< 4 ||| y) = x <<< 4 ||| y := by
  apply chr_of_lt
  apply Nat.or_lt_two_pow (n := 8)
  · rw [Nat.shiftLeft_eq]; omega
  · omega

theorem chr_b64_0 {x : Nat} (hx : x < 64) (y : Nat) :
    Codec.chr ((x <<< 2) ||| ((y >>> 4) &&& 3)) = (x <<< 2) ||| ((y >>> 4) &&& 3) := by
  apply chr_of_lt
  have := @Nat.and_le_right (y >>> 4) 3
  apply Nat.or_lt_two_pow (n := 8)
  · rw [Nat.shiftLeft_eq]; omega
  · omega

theorem chr_b64_1 (x y : Nat) :
    Codec.chr (((x <<< 4) &&& 240) ||| ((y >>> 2) &&& 15)) = ((x <<< 4) &&& 240) ||| ((y >>> 2) &&& 15) := by
  apply chr_of_lt
  have := @Nat.and_le_right (x <<< 4) 240
  have := @Nat.and_le_right (y >>> 2) 15
  apply Nat.or_lt_two_pow (n := 8) <;> omega

theorem chr_b64_2 (x y : Nat) :
    Codec.chr (((x <<< 6) &&& 192) ||| (y &&& 63)) = ((x <<< 6) &&& 192) ||| (y &&& 63) := by
  apply chr_of_lt
  have := @Nat.and_le_right (x <<< 6) 192
  have := @Nat.and_le_right y 63
  apply Nat.or_lt_two_pow (n := 8) <;> omega

/-! ### hex_decode -/

/-- the translated loop of `hex_decode` from any position inside the text, with `n` output bytes still to produce
    (`endp - outp`): the model's loop over the rest of the text, the stored bytes being the model's accumulator -/
theorem hex_decode_loop_eq (txt s : List Nat) (hb : ∀ b ∈ txt, b < 256) (osz dsz endp hsz : Nat) (onull : Bool) :
    ∀ fuel p out n, p + 2 * n ≤ txt.length → out.length + n = endp → n < fuel →
      Kernels.hex_decode_loop1 (txt ++ s) osz dsz endp hsz onull fuel p out
        = .ok ((Codec.hexDecodeLoop n (txt.drop p) out.reverse).ret,
               (Codec.hexDecodeLoop n (txt.drop p) out.reverse).writes) := by
  intro fuel
  induction fuel with
  | zero => intro p out n _ _ h; omega
  | succ f ih =>
    intro p out n hp he hf
    cases n with
    | zero =>
      have c0 : ¬ out.length < endp := by omega
      unfold Kernels.hex_decode_loop1
      simp only [c0, ↓reduceIte, pure_eq_ok, Codec.hexDecodeLoop, List.reverse_reverse, List.length_reverse]
    | succ n =>
      generalize hl : txt.drop p = l
      have hlen := len_drop hl (by omega)
      have hsub : ∀ b ∈ l, b < 256 := fun b h => hb b (List.mem_of_mem_drop (hl ▸ h))
      have d2 := drop_add hl 2
      rcases l with _ | ⟨a, _ | ⟨b, rest⟩⟩
      · simp only [List.length_nil] at hlen; omega
      · simp only [List.length_cons, List.length_nil] at hlen; omega
      · have r0 := rd_app_drop (s := s) hl 0 a rfl
        have r1 := rd_app_drop (s := s) hl 1 b rfl
        have ha : a < 256 := hsub a (by simp)
        have hb' : b < 256 := hsub b (by simp)
        have c0 : out.length < endp := by omega
        simp only [List.drop_succ_cons, List.drop_zero] at d2
        unfold Kernels.hex_decode_loop1
        simp only [c0, ↓reduceIte, rd8, r0, r1, ok_bind, Nat.zero_add, rdI_hex_values _ ha, rdI_hex_values _ hb',
          Codec.hexDecodeLoop]
        by_cases h0 : Codec.hexVal a < 0
        · simp only [h0, ↓reduceIte, true_or, pure_eq_ok, List.reverse_reverse]
        · by_cases h1 : Codec.hexVal b < 0
          · simp only [h0, h1, ↓reduceIte, or_true, pure_eq_ok, List.reverse_reverse]
          · have i2 := ih (p + 2) (out ++ [(Codec.hexVal a).toNat <<< 4 ||| (Codec.hexVal b).toNat]) n
              (by omega) (by simp only [List.length_append, List.length_cons, List.length_nil]; omega) (by omega)
            have ba := toNat_lt_of_le (c := 15) (hexVal_le15 a ha)
            have bb := toNat_lt_of_le (c := 15) (hexVal_le15 b hb')
            rw [d2] at i2
            simp only [List.reverse_append, List.reverse_cons, List.reverse_nil, List.nil_append,
              List.cons_append] at i2
            simp only [h0, h1, ↓reduceIte, or_self, i2, chr_hex ba bb]

/-- the translated `hex_decode` of a text (`c_str()` range and `size()`) into a caller buffer of `cap` bytes
    (`none` = null `output`) is the model's `hexDecodeInto`: same return value, same bytes stored in the same order;
    no read outside the text, no table index out of range -/
theorem hex_decode_eq (txt : List Nat) (hb : ∀ b ∈ txt, b < 256) (cap : Option Nat) (fuel : Nat)
    (hf : txt.length < fuel) :
    Kernels.hex_decode (txt ++ [0]) fuel txt.length cap.isNone (cap.getD 0)
      = .ok ((Codec.hexDecodeInto txt cap).ret, (Codec.hexDecodeInto txt cap).writes) := by
  unfold Kernels.hex_decode Codec.hexDecodeInto
  by_cases hodd : txt.length % 2 ≠ 0
  · simp only [hodd, ne_eq, not_false_eq_true, ↓reduceIte, pure_eq_ok]
  · simp only [hodd, ↓reduceIte]
    cases cap with
    | none => simp only [Option.isNone_none, Bool.true_eq_false, ↓reduceIte, pure_eq_ok]
    | some c =>
      simp only [Option.isNone_some, ↓reduceIte, Option.getD_some]
      by_cases hc : txt.length / 2 > c
      · simp only [hc, ↓reduceIte, pure_eq_ok]
      · have h := hex_decode_loop_eq txt [0] hb c (txt.length / 2) (0 + txt.length / 2) txt.length false fuel 0 []
          (txt.length / 2) (by omega) (by simp) (by omega)
        simp only [List.drop_zero, List.reverse_nil] at h
        simp only [hc, ↓reduceIte, h]

/-! ### b64_decode_size -/

theorem toChar_eq_61 {v : Nat} (hv : v < 256) : (toChar v = (61 : Int)) ↔ v = 61 := by
  unfold toChar; split <;> omega

theorem getD_lt_256 (txt : List Nat) (hb : ∀ b ∈ txt, b < 256) (i : Nat) : txt.getD i 0 < 256 := by
  rw [List.getD_eq_getElem?_getD]
  cases h : txt[i]? with
  | none => simp
  | some v => exact hb v (List.mem_of_getElem? h)

/-- the translated `b64_decode_size` of a text is the model's `b64DecodeSize`; the two reads (`data[size - 1]`,
    `data[size - 2]`) are inside the text, the `size_t` decrements do not wrap, and the conversion of the `size_t`
    result to `ST_ssize_t` is value preserving for every text below ST::string's size limit -/
theorem b64_decode_size_eq (txt : List Nat) (hb : ∀ b ∈ txt, b < 256) (hlen : txt.length < 2 ^ 28) :
    Kernels.b64_decode_size (txt ++ [0]) txt.length 0 = .ok (Codec.b64DecodeSize txt) := by
  unfold Kernels.b64_decode_size Codec.b64DecodeSize
  by_cases h4 : txt.length % 4 ≠ 0
  · simp only [h4, ne_eq, not_false_eq_true, ↓reduceIte, pure_eq_ok]
  · by_cases h0 : txt.length > 0
    · have h1 : txt.length > 1 := by omega
      have r1 := rd_app_getD txt [0] (txt.length - 1) (by omega)
      have r2 := rd_app_getD txt [0] (txt.length - 2) (by omega)
      have b1 := getD_lt_256 txt hb (txt.length - 1)
      have b2 := getD_lt_256 txt hb (txt.length - 2)
      simp only [h4, h0, h1, ↓reduceIte, rd8, Nat.zero_add, r1, r2, ok_bind, toChar_eq_61 b1, toChar_eq_61 b2,
        Codec.eqSign, true_and, pure_eq_ok]
      generalize txt.getD (txt.length - 1) 0 = x at *
      generalize txt.getD (txt.length - 2) 0 = y at *
      have hl' : txt.length < 268435456 := by omega
      clear hlen r1 r2
      generalize txt.length = L at *
      by_cases hx : x = 61
      · by_cases hy : y = 61
        · rw [if_pos hx, if_pos hy, if_pos hy, if_pos hx]
          refine congrArg Except.ok ?_
          omega
        · rw [if_pos hx, if_neg hy, if_neg hy, if_pos hx]
          refine congrArg Except.ok ?_
          omega
      · by_cases hy : y = 61
        · rw [if_neg hx, if_pos hy, if_pos hy, if_neg hx]
          refine congrArg Except.ok ?_
          omega
        · rw [if_neg hx, if_neg hy, if_neg hy, if_neg hx]
          refine congrArg Except.ok ?_
          omega
    · have hz : txt.length = 0 := by omega
      simp [hz]

/-! ### b64_decode -/

/-- the model's main loop followed by its "final chars treated specially" part, as (return value, bytes stored) -/
def b64Tail (endp outp : Nat) (l acc : List Nat) : Int × List Nat :=
  match Codec.b64MainLoop endp outp l acc with
  | .inl r => (r.ret, r.writes)
  | .inr (acc, rest) => ((Codec.b64Final acc rest).ret, (Codec.b64Final acc rest).writes)

/-- the translated loop of `b64_decode` (the `while (outp + 3 < endp)` loop followed by the final group) from any
    position inside the text with `r ≥ 1` groups of four characters left and `endp` at most `3 * r` bytes away -/
theorem b64_decode_loop_eq (txt s : List Nat) (hb : ∀ b ∈ txt, b < 256) (osz : Nat) (dsz : Int) (endp bsz : Nat)
    (onull : Bool) :
    ∀ fuel p out r, 1 ≤ r → p + 4 * r ≤ txt.length → endp ≤ out.length + 3 * r → r ≤ fuel →
      Kernels.b64_decode_loop1 (txt ++ s) osz dsz endp bsz onull fuel p out
        = .ok (b64Tail endp out.length (txt.drop p) out.reverse) := by
  intro fuel
  induction fuel with
  | zero => intro p out r h1 _ _ h; omega
  | succ f ih =>
    intro p out r hr hp he hf
    generalize hl : txt.drop p = l
    have hlen := len_drop hl (by omega)
    have hsub : ∀ b ∈ l, b < 256 := fun b h => hb b (List.mem_of_mem_drop (hl ▸ h))
    have d4 := drop_add hl 4
    rcases l with _ | ⟨c0, _ | ⟨c1, _ | ⟨c2, _ | ⟨c3, rest⟩⟩⟩⟩
    · simp only [List.length_nil] at hlen; omega
    · simp only [List.length_cons, List.length_nil] at hlen; omega
    · simp only [List.length_cons, List.length_nil] at hlen; omega
    · simp only [List.length_cons, List.length_nil] at hlen; omega
    · have r0 := rd_app_drop (s := s) hl 0 c0 rfl
      have r1 := rd_app_drop (s := s) hl 1 c1 rfl
      have r2 := rd_app_drop (s := s) hl 2 c2 rfl
      have r3 := rd_app_drop (s := s) hl 3 c3 rfl
      have k0 : c0 < 256 := hsub c0 (by simp)
      have k1 : c1 < 256 := hsub c1 (by simp)
      have k2 : c2 < 256 := hsub c2 (by simp)
      have k3 : c3 < 256 := hsub c3 (by simp)
      have n0 := toNat_lt_of_le (c := 63) (b64Val_le63 c0 k0)
      simp only [List.drop_succ_cons, List.drop_zero] at d4
      unfold Kernels.b64_decode_loop1 b64Tail
      rw [Codec.b64MainLoop]
      simp only [rd8, r0, r1, r2, r3, ok_bind, Nat.zero_add, rdI_b64_values _ k0, rdI_b64_values _ k1,
        rdI_b64_values _ k2, rdI_b64_values _ k3]
      by_cases hm : out.length + 3 < endp
      · simp only [hm, ↓reduceIte]
        by_cases h0 : Codec.b64Val c0 < 0
        · simp only [h0, ↓reduceIte, true_or, pure_eq_ok, List.reverse_reverse]
        · by_cases h1 : Codec.b64Val c1 < 0
          · simp only [h0, h1, ↓reduceIte, true_or, or_true, pure_eq_ok, List.reverse_reverse]
          · by_cases h2 : Codec.b64Val c2 < 0
            · simp only [h0, h1, h2, ↓reduceIte, true_or, or_true, pure_eq_ok, List.reverse_reverse]
            · by_cases h3 : Codec.b64Val c3 < 0
              · simp only [h0, h1, h2, h3, ↓reduceIte, or_true, pure_eq_ok, List.reverse_reverse]
              · have i4 := ih (p + 4)
                  (((out ++ [((Codec.b64Val c0).toNat <<< 2) ||| (((Codec.b64Val c1).toNat >>> 4) &&& 3)])
                    ++ [(((Codec.b64Val c1).toNat <<< 4) &&& 240) ||| (((Codec.b64Val c2).toNat >>> 2) &&& 15)])
                    ++ [(((Codec.b64Val c2).toNat <<< 6) &&& 192) ||| ((Codec.b64Val c3).toNat &&& 63)])
                  (r - 1) (by omega) (by omega)
                  (by simp only [List.length_append, List.length_cons, List.length_nil]; omega) (by omega)
                rw [d4] at i4
                unfold b64Tail at i4
                simp only [List.reverse_append, List.reverse_cons, List.reverse_nil, List.nil_append,
                  List.cons_append, List.length_append, List.length_cons, List.length_nil, Nat.zero_add,
                  Nat.add_assoc, Nat.reduceAdd] at i4
                simp only [h0, h1, h2, h3, ↓reduceIte, or_self, i4, chr_b64_0 n0, chr_b64_1, chr_b64_2]
      · simp only [hm, ↓reduceIte]
        unfold Codec.b64Final
        simp only [Codec.eqSign]
        by_cases h0 : Codec.b64Val c0 < 0
        · simp only [h0, ↓reduceIte, true_or, pure_eq_ok, List.reverse_reverse]
        · by_cases h1 : Codec.b64Val c1 < 0
          · simp only [h0, h1, ↓reduceIte, or_true, pure_eq_ok, List.reverse_reverse]
          · by_cases e2 : c2 = 61
            · subst e2
              have h2 : Codec.b64Val 61 < 0 := by decide +kernel
              by_cases e3 : c3 = 61
              · simp [h0, h1, e3, chr_b64_0 n0]
              · simp [h0, h1, e3, h2, chr_b64_0 n0]
            · by_cases h2 : Codec.b64Val c2 < 0
              · simp [h0, h1, e2, h2, chr_b64_0 n0]
              · by_cases e3 : c3 = 61
                · simp only [h0, ↓reduceIte, h1, ne_eq, e2, not_false_eq_true, h2, e3, not_true_eq_false,
                    List.append_assoc, List.cons_append, List.nil_append, List.length_append, List.length_cons,
                    List.length_nil, Nat.zero_add, Nat.reduceAdd, Int.natCast_add, Int.cast_ofNat_Int, pure_eq_ok,
                    or_self, and_false, false_or, false_and, chr_b64_1, chr_b64_0 n0, List.reverse_cons,
                    List.reverse_reverse, List.length_reverse, Except.ok.injEq, Prod.mk.injEq, and_true]
                  omega
                · by_cases h3 : Codec.b64Val c3 < 0
                  · simp [h0, h1, e2, e3, h2, h3, chr_b64_0 n0, chr_b64_1]
                  · simp only [h0, ↓reduceIte, h1, ne_eq, e2, not_false_eq_true, h2, e3, h3, List.append_assoc,
                      List.cons_append, List.nil_append, List.length_append, List.length_cons, List.length_nil,
                      Nat.zero_add, Nat.reduceAdd, Int.natCast_add, Int.cast_ofNat_Int, pure_eq_ok, or_self,
                      and_false, chr_b64_2, chr_b64_1, chr_b64_0 n0, List.reverse_cons, List.reverse_reverse,
                      List.length_reverse, Except.ok.injEq, Prod.mk.injEq, and_true]
                    omega

/-- a positive `b64DecodeSize` means a non-empty text of whole groups, and is at most three bytes per group -/
theorem b64DecodeSize_pos (txt : List Nat) (h : 0 < Codec.b64DecodeSize txt) :
    txt.length % 4 = 0 ∧ 4 ≤ txt.length ∧ Codec.b64DecodeSize txt ≤ ((txt.length / 4 * 3 : Nat) : Int) := by
  unfold Codec.b64DecodeSize at h ⊢
  by_cases h4 : txt.length % 4 ≠ 0
  · simp only [h4, ne_eq, not_false_eq_true, ↓reduceIte] at h; omega
  · simp only [h4, ↓reduceIte] at h ⊢
    by_cases hA : (txt.length > 0 ∧ txt.getD (txt.length - 1) 0 = Codec.eqSign) <;>
      by_cases hB : (txt.length > 1 ∧ txt.getD (txt.length - 2) 0 = Codec.eqSign) <;>
      simp only [if_neg, hA, hB, not_false_eq_true] at h ⊢ <;> omega

/-- the translated `b64_decode` of a text (`c_str()` range and `size()`) into a caller buffer of `cap` bytes
    (`none` = null `output`) is the model's `b64DecodeInto`: same return value, same bytes stored in the same order;
    no read outside the text, no table index out of range -/
theorem b64_decode_eq (txt : List Nat) (hb : ∀ b ∈ txt, b < 256) (hlen : txt.length < 2 ^ 28) (cap : Option Nat)
    (fuel : Nat) (hf : txt.length < fuel) :
    Kernels.b64_decode (txt ++ [0]) fuel txt.length cap.isNone (cap.getD 0)
      = .ok ((Codec.b64DecodeInto txt cap).ret, (Codec.b64DecodeInto txt cap).writes) := by
  unfold Kernels.b64_decode Codec.b64DecodeInto
  simp only [b64_decode_size_eq txt hb hlen, ok_bind]
  cases cap with
  | none => simp only [Option.isNone_none, Bool.true_eq_false, ↓reduceIte, pure_eq_ok]
  | some c =>
    simp only [Option.isNone_some, ↓reduceIte, Option.getD_some]
    by_cases hneg : Codec.b64DecodeSize txt < 0
    · simp only [hneg, ↓reduceIte, true_or, pure_eq_ok]
    · by_cases hc : Codec.b64DecodeSize txt > (c : Int)
      · have hc' : (Codec.b64DecodeSize txt).toNat > c := by omega
        simp only [hneg, hc, hc', ↓reduceIte, or_true, pure_eq_ok]
      · have hc' : ¬ (Codec.b64DecodeSize txt).toNat > c := by omega
        by_cases hz : Codec.b64DecodeSize txt = 0
        · simp only [hneg, hc, hc', if_pos hz, ↓reduceIte, or_self, pure_eq_ok]
        · obtain ⟨p4, p1, ple⟩ := b64DecodeSize_pos txt (by omega)
          have h := b64_decode_loop_eq txt [0] hb c (Codec.b64DecodeSize txt)
            (0 + (Codec.b64DecodeSize txt).toNat) txt.length false fuel 0 [] (txt.length / 4)
            (by omega) (by omega) (by simp only [List.length_nil]; omega) (by omega)
          unfold b64Tail at h
          simp only [List.drop_zero, List.reverse_nil, List.length_nil, Nat.zero_add] at h
          simp only [hneg, hc, hc', hz, ↓reduceIte, or_self, h, Nat.zero_add]
          generalize Codec.b64MainLoop (Codec.b64DecodeSize txt).toNat 0 txt [] = m
          rcases m with r | ⟨acc, rest⟩ <;> rfl

/-! ### no faults -/

/-- the translated `hex_decode` never faults on a text of bytes: no read outside `c_str()`'s range, no table index
    out of range, enough fuel -/
theorem hex_decode_ok (txt : List Nat) (hb : ∀ b ∈ txt, b < 256) (cap : Option Nat) (fuel : Nat)
    (hf : txt.length < fuel) :
    isOk (Kernels.hex_decode (txt ++ [0]) fuel txt.length cap.isNone (cap.getD 0)) = true := by
  rw [hex_decode_eq txt hb cap fuel hf]; rfl

/-- the translated `b64_decode` never faults on a text of bytes below ST::string's size limit -/
theorem b64_decode_ok (txt : List Nat) (hb : ∀ b ∈ txt, b < 256) (hlen : txt.length < 2 ^ 28) (cap : Option Nat)
    (fuel : Nat) (hf : txt.length < fuel) :
    isOk (Kernels.b64_decode (txt ++ [0]) fuel txt.length cap.isNone (cap.getD 0)) = true := by
  rw [b64_decode_eq txt hb hlen cap fuel hf]; rfl

end StVerif.KernelBridge
