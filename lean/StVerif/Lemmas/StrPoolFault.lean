/-
  The string-level do-blocks of `Model/StrPool.lean` under an ARBITRARY fault schedule
  (`Pool.failAt` is whatever it is): every block completes, or an exception reaches the caller
  after the temporaries alive at that point were destroyed.  Compared with `Lemmas/StrPool.lean`
  (runs without faults, values tracked) the statements here track ownership only: which objects
  may have changed (`Succ`), which are alive, and — after `bad_alloc` — that the target still holds
  its previous value or is empty.

  Two generic lemmas carry all the unwinding: `scope_f` (a temporary is created, a body runs with
  the temporary alive, the temporary is destroyed on every exit: `mk t; withTemp t body`) and
  `ctorThen_f` (a constructor body after the member was default-constructed).  Almost every
  exception leaves *everything* unchanged once the temporaries are gone (`ThrowUnch`); the
  exceptions to that are copy assignment (`setBufCopy`, `Pool.assignCopy`: the target may be
  empty) and `deriveAll` (results already built stay).
-/
import StVerif.Lemmas.StrPoolReach

namespace StVerif.StrPool
open StVerif StVerif.Pool

/-! ### one buffer-level step, any fault schedule -/

/-- a buffer-level operation completes or throws `bad_alloc` (only when a fault is scheduled) -/
theorem stepF {p : Pool} (hI : Inv p) (op : Op) (hpre : pre op p) :
    (∃ p', op.run p = .ok () p' ∧ Succ p p' op.T ∧ okPost p op p') ∨
    (∃ p', op.run p = .throw .badAlloc p' ∧ p.failAt ≠ none ∧ Succ p p' op.T ∧ throwPost p op p') := by
  rcases run_spec hI op hpre with h | ⟨p', h1, hf, h2, h3⟩
  · exact Or.inl h
  · exact Or.inr ⟨p', h1, by rw [hf]; simp, h2, h3⟩

/-- the operations that do not allocate (`throwPost = False`) complete under every schedule -/
theorem stepN {p : Pool} (hI : Inv p) (op : Op) (hpre : pre op p) (hn : ∀ p', ¬ throwPost p op p') :
    ∃ p', op.run p = .ok () p' ∧ Succ p p' op.T ∧ okPost p op p' := by
  rcases stepF hI op hpre with h | ⟨p', _, _, _, h3⟩
  · exact h
  · exact absurd h3 (hn p')

theorem alive_of_view_eq {p p' : Pool} {x y : Nat} (h : view p' x = view p y) (hy : alive p y) : alive p' x := by
  obtain ⟨b, hb⟩ := hy
  rw [view_of_alive hb] at h
  exact alive_of_view h

theorem alive_of_objs_eq {p p' : Pool} {x : Nat} (h : p'.objs x = p.objs x) (hx : alive p x) : alive p' x := by
  obtain ⟨b, hb⟩ := hx
  exact ⟨b, by rw [h]; exact hb⟩

theorem ctorDefault_f {p : Pool} (hI : Inv p) {o : Nat} (ho : p.objs o = none) :
    ∃ p', ctorDefault o p = .ok () p' ∧ Succ p p' (· = o) ∧ alive p' o := by
  obtain ⟨p', h1, s1, q1⟩ := ctorDefault_spec hI ho
  exact ⟨p', h1, s1, alive_of_view q1⟩

theorem assignMove_f {p : Pool} (hI : Inv p) {o s : Nat} (ho : alive p o) (hs : alive p s) :
    ∃ p', assignMove o s p = .ok () p' ∧ Succ p p' (fun x => x = o ∨ x = s) ∧ alive p' o ∧ alive p' s := by
  obtain ⟨bo, hbo⟩ := ho
  obtain ⟨bs, hbs⟩ := hs
  obtain ⟨p', h1, s1, q1, q2⟩ := assignMove_spec hI hbo hbs
  exact ⟨p', h1, s1, alive_of_view_eq q1 ⟨bs, hbs⟩, alive_of_view_eq q2 ⟨bo, hbo⟩⟩

theorem ctorMove_f {p : Pool} (hI : Inv p) {d s : Nat} (hd : p.objs d = none) (hs : alive p s) :
    ∃ p', ctorMove d s p = .ok () p' ∧ Succ p p' (fun x => x = d ∨ x = s) ∧ alive p' d ∧ alive p' s := by
  obtain ⟨p', h1, s1, q1, q2⟩ := stepN hI (.ctorMove d s) ⟨hd, hs⟩ (fun _ h => h)
  exact ⟨p', h1, s1, alive_of_view_eq q1 hs, alive_of_view q2⟩

/-! ### exceptions that leave everything as it was -/

/-- an exception reached the caller and, the temporaries being destroyed, every object is the very same object with the
    same value as before the call (`Succ` with an empty operand set; the invariant holds); `bad_alloc` only when a
    fault is scheduled -/
def ThrowUnch (r : Res Unit) (p : Pool) : Prop :=
  ∃ e p', r = .throw e p' ∧ Succ p p' (fun _ => False) ∧ (e = .badAlloc → p.failAt ≠ none)

/-- the same, the exception being `bad_alloc` -/
def BadUnch (r : Res Unit) (p : Pool) : Prop :=
  ∃ p', r = .throw .badAlloc p' ∧ p.failAt ≠ none ∧ Succ p p' (fun _ => False)

theorem BadUnch.throwUnch {r : Res Unit} {p : Pool} (h : BadUnch r p) : ThrowUnch r p := by
  obtain ⟨p', h1, f1, s1⟩ := h
  exact ⟨_, p', h1, s1, fun _ => f1⟩

/-- destroying a temporary that did not exist when the block started removes it from the set of changed objects -/
theorem unwind {p p2 : Pool} {T : Nat → Prop} {t : Nat} (s : Succ p p2 T) (ht : p.objs t = none) (ha : alive p2 t) :
    ∃ p3, dtor t p2 = .ok () p3 ∧ Succ p p3 (fun x => T x ∧ x ≠ t) ∧ Succ p2 p3 (· = t) := by
  obtain ⟨b, hb⟩ := ha
  obtain ⟨p3, h1, s3, d3⟩ := dtor_ok s.inv hb
  refine ⟨p3, h1, ?_, s3⟩
  have s13 : Succ p p3 (fun x => T x ∨ x = t) := Succ.trans' s s3 (fun x h => Or.inl h) (fun x h => Or.inr h)
  refine s13.shrink_dead fun x hx hnx => ?_
  have hxt : x = t := by
    by_cases h : x = t
    · exact h
    · rcases hx with hx | hx
      · exact absurd ⟨hx, h⟩ hnx
      · exact hx
  subst hxt
  exact ⟨ht, d3⟩

/-- **a temporary's scope**: `mk` creates the temporary `t`, `body` runs with `t` alive and `t` is destroyed on every exit.
    If `mk` completes having touched only `t` (or throws with nothing changed) and `body` completes having touched `T` and
    `t` (or throws having touched only `t`), the whole block completes having touched `T` only, or throws with nothing
    changed. -/
theorem scope_f {p : Pool} {mk body : M Unit} {t o' : Nat} {T : Nat → Prop} (ht : p.objs t = none) (hot : o' ≠ t)
    (hmk : (∃ p1, mk p = .ok () p1 ∧ Succ p p1 (· = t) ∧ alive p1 t) ∨ ThrowUnch (mk p) p)
    (hbody : ∀ p1, Succ p p1 (· = t) → alive p1 t →
      (∃ p2, body p1 = .ok () p2 ∧ Succ p1 p2 (fun x => T x ∨ x = t) ∧ alive p2 t ∧ alive p2 o') ∨
      (∃ e p2, body p1 = .throw e p2 ∧ Succ p1 p2 (· = t) ∧ alive p2 t ∧ (e = .badAlloc → p1.failAt ≠ none))) :
    (∃ p', (mk >>= fun _ => withTemp t body) p = .ok () p' ∧ Succ p p' T ∧ alive p' o') ∨
    ThrowUnch ((mk >>= fun _ => withTemp t body) p) p := by
  rcases hmk with ⟨p1, h1, s1, a1⟩ | ⟨e, p1, h1, s1, f1⟩
  · rcases hbody p1 s1 a1 with ⟨p2, h2, s2, a2, o2⟩ | ⟨e, p2, h2, s2, a2, f2⟩
    · have s12 : Succ p p2 (fun x => T x ∨ x = t) := Succ.trans' s1 s2 (fun x h => Or.inr h) (fun x h => h)
      obtain ⟨p3, h3, s3, s23⟩ := unwind s12 ht a2
      left
      refine ⟨p3, ?_, s3.mono (fun x h => ?_), alive_of_objs_eq (s23.objs o' hot) o2⟩
      · simp only [bind_apply, h1]; exact withTemp_ok h2 h3
      · rcases h with ⟨h | h, hn⟩
        · exact h
        · exact absurd h hn
    · have s12 : Succ p p2 (· = t) := s1.trans s2
      obtain ⟨p3, h3, s3, _⟩ := unwind s12 ht a2
      right
      refine ⟨e, p3, ?_, s3.mono (fun x h => h.2 h.1), fun he => ?_⟩
      · simp only [bind_apply, h1]; exact withTemp_throw h2 h3
      · rw [← s1.failAt]; exact f2 he
  · right
    exact ⟨e, p1, by simp only [bind_apply, h1], s1, f1⟩

/-- **a constructor body**: the member is default-constructed, the body runs; a body that throws has the member destroyed.
    The target `o` did not exist before, so after an exception nothing has changed. -/
theorem ctorThen_f {p : Pool} {body : M Unit} {o : Nat} {T : Nat → Prop} (hI : Inv p) (ho : p.objs o = none)
    (hbody : ∀ p1, Succ p p1 (· = o) → alive p1 o →
      (∃ p2, body p1 = .ok () p2 ∧ Succ p1 p2 (fun x => T x ∨ x = o) ∧ alive p2 o) ∨
      (∃ e p2, body p1 = .throw e p2 ∧ Succ p1 p2 (· = o) ∧ alive p2 o ∧ (e = .badAlloc → p1.failAt ≠ none))) :
    (∃ p', ctorThen o body p = .ok () p' ∧ Succ p p' (fun x => T x ∨ x = o) ∧ alive p' o) ∨
    ThrowUnch (ctorThen o body p) p := by
  obtain ⟨p1, h1, s1, a1⟩ := ctorDefault_f hI ho
  rcases hbody p1 s1 a1 with ⟨p2, h2, s2, a2⟩ | ⟨e, p2, h2, s2, a2, f2⟩
  · left
    exact ⟨p2, ctorThen_ok h1 h2, Succ.trans' s1 s2 (fun x h => Or.inr h) (fun x h => h), a2⟩
  · have s12 : Succ p p2 (· = o) := s1.trans s2
    obtain ⟨p3, h3, s3, _⟩ := unwind s12 ho a2
    right
    exact ⟨e, p3, ctorThen_throw h1 h2 h3, s3.mono (fun x h => h.2 h.1), fun he => by rw [← s1.failAt]; exact f2 he⟩

/-- a block that throws with nothing changed, seen from inside an enclosing scope whose temporary `t` is alive -/
theorem ThrowUnch.inScope {r : Res Unit} {p1 : Pool} {t : Nat} (h : ThrowUnch r p1) (a1 : alive p1 t) :
    ∃ e p2, r = .throw e p2 ∧ Succ p1 p2 (· = t) ∧ alive p2 t ∧ (e = .badAlloc → p1.failAt ≠ none) := by
  obtain ⟨e, p2, h1, s1, f1⟩ := h
  exact ⟨e, p2, h1, s1.mono (fun _ h => h.elim), alive_of_objs_eq (s1.objs t (fun h => h)) a1, f1⟩

/-! ### `fresh` -/

/-- a fresh result in the dead id `d`: built, or `bad_alloc` and no object (the local buffer was destroyed) -/
theorem fresh_f {p : Pool} (hI : Inv p) {d : Nat} (hd : p.objs d = none) (val : List Nat) :
    (∃ p', fresh d val p = .ok () p' ∧ Succ p p' (· = d) ∧ alive p' d) ∨ BadUnch (fresh d val p) p := by
  obtain ⟨p1, h1, s1, a1⟩ := ctorDefault_f hI hd
  rcases stepF s1.inv (.allocate d val.length) a1 with ⟨p2, h2, s2, us, hus, q2⟩ | ⟨p2, h2, f2, s2, q2⟩
  · obtain ⟨b2, hb2⟩ := alive_of_view q2
    have hsz : b2.size = val.length := view_size hb2 q2
    obtain ⟨p3, h3, s3, old, _, q3⟩ := writeData_spec s2.inv (a := 0) (us := val) hb2 (by omega)
    left
    simp only [Op.run] at h2
    exact ⟨p3, ctorThen_ok h1 (by simp [h2, h3]), (s1.trans s2).trans s3, alive_of_view q3⟩
  · simp only [Op.run] at h2
    have s12 : Succ p p2 (· = d) := s1.trans s2
    obtain ⟨p3, h3, s3, _⟩ := unwind s12 hd (alive_of_view q2)
    right
    exact ⟨p3, ctorThen_throw h1 (by simp [h2]) h3, by rw [← s1.failAt]; exact f2, s3.mono (fun x h => h.2 h.1)⟩

theorem cleanupInto_eq {p : Pool} (hI : Inv p) {t b : Nat} {bb : Buf} (hb : p.objs b = some bb) :
    cleanupInto t b p = fresh t (Utf.cleanupUtf8 (units p bb)) p := by
  simp [cleanupInto, getObj_some hb, read_units hI hb]

/-- a value built in the temporary `t` and moved into the live object `o` -/
theorem assignFromTemp_f {p : Pool} (hI : Inv p) {o t : Nat} (ho : alive p o) (ht : p.objs t = none) (hot : o ≠ t) (val : List Nat) :
    (∃ p', (fresh t val >>= fun _ => withTemp t (assignMove o t)) p = .ok () p' ∧ Succ p p' (· = o) ∧ alive p' o) ∨
    ThrowUnch ((fresh t val >>= fun _ => withTemp t (assignMove o t)) p) p := by
  refine scope_f (T := (· = o)) ht hot ?_ ?_
  · rcases fresh_f hI ht val with h | h
    · exact Or.inl h
    · exact Or.inr h.throwUnch
  · intro p1 s1 a1
    obtain ⟨p2, h2, s2, a2, b2⟩ := assignMove_f s1.inv (alive_of_objs_eq (s1.objs o hot) ho) a1
    exact Or.inl ⟨p2, h2, s2, b2, a2⟩

/-- the repair path shared by both `set(char_buffer)` overloads -/
theorem setSubst_f {p : Pool} (hI : Inv p) {o b : Nat} {bb : Buf} (ho : alive p o) (hb : p.objs b = some bb)
    (hC : p.objs tmpC = none) (hoC : o ≠ tmpC) :
    (∃ p', (cleanupInto tmpC b >>= fun _ => withTemp tmpC (assignMove o tmpC)) p = .ok () p' ∧ Succ p p' (· = o) ∧ alive p' o) ∨
    ThrowUnch ((cleanupInto tmpC b >>= fun _ => withTemp tmpC (assignMove o tmpC)) p) p := by
  have e : (cleanupInto tmpC b >>= fun _ => withTemp tmpC (assignMove o tmpC)) p =
      (fresh tmpC (Utf.cleanupUtf8 (units p bb)) >>= fun _ => withTemp tmpC (assignMove o tmpC)) p := by
    simp only [bind_apply, cleanupInto_eq hI hb]
  rw [e]
  exact assignFromTemp_f hI ho hC hoC _

/-! ### `set(char_buffer)`, both overloads -/

theorem validateObj_cases {p : Pool} (hI : Inv p) {b : Nat} {ob : Buf} (hb : p.objs b = some ob) :
    validateObj b p = .ok () p ∨ validateObj b p = .throw .unicodeError p := by
  by_cases hv : Utf.validateUtf8 (units p ob) = 0
  · exact Or.inl (validateObj_ok hI hb hv)
  · exact Or.inr (validateObj_throw hI hb hv)

theorem throwUnch_refl {r : Res Unit} {p : Pool} (hI : Inv p) {e : Exc} (h : r = .throw e p) (he : e ≠ .badAlloc) : ThrowUnch r p :=
  ⟨e, p, h, hI.succ_refl _, fun h' => absurd h' he⟩

/-- `set(char_buffer &&init, validation)` with `init` = object `b` -/
theorem setBufMove_f {p : Pool} (hI : Inv p) {o b : Nat} {bb : Buf} (ho : alive p o) (hb : p.objs b = some bb)
    (hC : p.objs tmpC = none) (hoC : o ≠ tmpC) (m : Mode) :
    (∃ p', setBufMove o b m p = .ok () p' ∧ Succ p p' (fun x => x = o ∨ x = b) ∧ alive p' o ∧ alive p' b) ∨
    ThrowUnch (setBufMove o b m p) p := by
  have mv := assignMove_f hI ho ⟨bb, hb⟩
  cases m with
  | assumeValid => exact Or.inl (by simpa [setBufMove] using mv)
  | checkValidity =>
    rcases validateObj_cases hI hb with hv | hv
    · obtain ⟨p', h1, rest⟩ := mv
      exact Or.inl ⟨p', by simp [setBufMove, hv, h1], rest⟩
    · exact Or.inr (throwUnch_refl (e := .unicodeError) hI (by simp [setBufMove, hv]) (by decide))
  | substituteInvalid =>
    rcases setSubst_f hI ho hb hC hoC with ⟨p', h1, s1, a1⟩ | h
    · refine Or.inl ⟨p', by simpa [setBufMove] using h1, s1.mono (fun x h => Or.inl h), a1, ?_⟩
      by_cases hbo : b = o
      · subst hbo; exact a1
      · exact alive_of_objs_eq (s1.objs b hbo) ⟨bb, hb⟩
    · exact Or.inr (by simpa [setBufMove] using h)

/-- `bad_alloc` in a copy assignment: only the target may have changed, and it holds its previous value or is empty -/
def BadTarget (r : Res Unit) (p : Pool) (o : Nat) : Prop :=
  ∃ p', r = .throw .badAlloc p' ∧ p.failAt ≠ none ∧ Succ p p' (· = o) ∧ (view p' o = view p o ∨ view p' o = some (0, []))

theorem alive_of_prev_or_empty {p p' : Pool} {o : Nat} (ho : alive p o)
    (hv : view p' o = view p o ∨ view p' o = some (0, [])) : alive p' o := by
  rcases hv with hv | hv
  · exact alive_of_view_eq hv ho
  · exact alive_of_view hv

/-- `set(const char_buffer &init, validation)` with `init` = object `b`: `b` is never changed -/
theorem setBufCopy_f {p : Pool} (hI : Inv p) {o b : Nat} {bb : Buf} (ho : alive p o) (hb : p.objs b = some bb)
    (hC : p.objs tmpC = none) (hoC : o ≠ tmpC) (m : Mode) :
    (∃ p', setBufCopy o b m p = .ok () p' ∧ Succ p p' (· = o) ∧ alive p' o) ∨
    ThrowUnch (setBufCopy o b m p) p ∨ BadTarget (setBufCopy o b m p) p o := by
  have cp : (∃ p', assignCopy o b p = .ok () p' ∧ Succ p p' (· = o) ∧ alive p' o) ∨ BadTarget (assignCopy o b p) p o := by
    rcases stepF hI (.assignCopy o b) ⟨ho, bb, hb⟩ with ⟨p', h1, s1, q1⟩ | ⟨p', h1, f1, s1, q1⟩
    · exact Or.inl ⟨p', h1, s1, alive_of_view_eq q1 ⟨bb, hb⟩⟩
    · exact Or.inr ⟨p', h1, f1, s1, q1⟩
  cases m with
  | assumeValid =>
    rcases cp with h | h
    · exact Or.inl (by simpa [setBufCopy] using h)
    · exact Or.inr (Or.inr (by simpa [setBufCopy] using h))
  | checkValidity =>
    rcases validateObj_cases hI hb with hv | hv
    · rcases cp with ⟨p', h1, rest⟩ | ⟨p', h1, rest⟩
      · exact Or.inl ⟨p', by simp [setBufCopy, hv, h1], rest⟩
      · exact Or.inr (Or.inr ⟨p', by simp [setBufCopy, hv, h1], rest⟩)
    · exact Or.inr (Or.inl (throwUnch_refl (e := .unicodeError) hI (by simp [setBufCopy, hv]) (by decide)))
  | substituteInvalid =>
    rcases setSubst_f hI ho hb hC hoC with h | h
    · exact Or.inl (by simpa [setBufCopy] using h)
    · exact Or.inr (Or.inl (by simpa [setBufCopy] using h))

/-! ### `_set_utf8` and the constructors -/

theorem setUtf8_f {p : Pool} (hI : Inv p) {o : Nat} (ho : alive p o) (hA : p.objs tmpA = none) (hC : p.objs tmpC = none)
    (hoA : o ≠ tmpA) (hoC : o ≠ tmpC) (us : List Nat) (m : Mode) :
    (∃ p', setUtf8 o us m p = .ok () p' ∧ Succ p p' (· = o) ∧ alive p' o) ∨ ThrowUnch (setUtf8 o us m p) p := by
  refine scope_f (mk := ctorUnits tmpA us) (body := setBufMove o tmpA m) (T := (· = o)) hA hoA ?_ ?_
  · rcases stepF hI (.ctorUnits tmpA us) hA with ⟨p1, h1, s1, q1⟩ | ⟨p1, h1, f1, s1, q1⟩
    · exact Or.inl ⟨p1, h1, s1, alive_of_view q1⟩
    · refine Or.inr ⟨_, p1, h1, s1.shrink_dead (fun x hx _ => ?_), fun _ => f1⟩
      simp only [Op.T] at hx; subst hx
      exact ⟨hA, view_eq_none.mp q1⟩
  · intro p1 s1 a1
    obtain ⟨bA, hbA⟩ := a1
    have ho1 : alive p1 o := alive_of_objs_eq (s1.objs o hoA) ho
    have hC1 : p1.objs tmpC = none := by rw [s1.objs tmpC tmpC_ne_tmpA]; exact hC
    rcases setBufMove_f s1.inv ho1 hbA hC1 hoC m with ⟨p2, h2, s2, a2, b2⟩ | h
    · exact Or.inl ⟨p2, h2, s2, b2, a2⟩
    · exact Or.inr (h.inScope ⟨bA, hbA⟩)

/-- `ST::string(const char *, size, validation)` into the dead id `o` -/
theorem ctorText_f {p : Pool} (hI : Inv p) {o : Nat} (ho : p.objs o = none) (hA : p.objs tmpA = none) (hC : p.objs tmpC = none)
    (hoA : o ≠ tmpA) (hoC : o ≠ tmpC) (us : List Nat) (m : Mode) :
    (∃ p', ctorText o us m p = .ok () p' ∧ Succ p p' (· = o) ∧ alive p' o) ∨ ThrowUnch (ctorText o us m p) p := by
  have := ctorThen_f (body := setUtf8 o us m) (T := fun _ => False) hI ho (fun p1 s1 a1 => by
    have hA1 : p1.objs tmpA = none := by rw [s1.objs tmpA (fun h => hoA h.symm)]; exact hA
    have hC1 : p1.objs tmpC = none := by rw [s1.objs tmpC (fun h => hoC h.symm)]; exact hC
    rcases setUtf8_f s1.inv a1 hA1 hC1 hoA hoC us m with ⟨p2, h2, s2, a2⟩ | h
    · exact Or.inl ⟨p2, h2, s2.mono (fun x h => Or.inr h), a2⟩
    · exact Or.inr (h.inScope a1))
  rcases this with ⟨p', h1, s1, a1⟩ | h
  · exact Or.inl ⟨p', h1, s1.mono (fun x h => h.elim (fun f => f.elim) id), a1⟩
  · exact Or.inr h

/-- `ST::string(char_buffer &&init, validation)` into the dead id `o` -/
theorem ctorBufMove_f {p : Pool} (hI : Inv p) {o b : Nat} {bb : Buf} (ho : p.objs o = none) (hb : p.objs b = some bb)
    (hC : p.objs tmpC = none) (hoC : o ≠ tmpC) (m : Mode) :
    (∃ p', ctorBufMove o b m p = .ok () p' ∧ Succ p p' (fun x => x = b ∨ x = o) ∧ alive p' o) ∨ ThrowUnch (ctorBufMove o b m p) p := by
  have hob : b ≠ o := fun h => by rw [h, ho] at hb; cases hb
  refine ctorThen_f (body := setBufMove o b m) (T := (· = b)) hI ho (fun p1 s1 a1 => ?_)
  have hb1 : p1.objs b = some bb := by rw [s1.objs b hob]; exact hb
  have hC1 : p1.objs tmpC = none := by rw [s1.objs tmpC (fun h => hoC h.symm)]; exact hC
  rcases setBufMove_f s1.inv a1 hb1 hC1 hoC m with ⟨p2, h2, s2, a2, _⟩ | h
  · exact Or.inl ⟨p2, h2, s2.mono (fun x h => h.elim Or.inr Or.inl), a2⟩
  · exact Or.inr (h.inScope a1)

/-- `ST::string(const char_buffer &init, validation)` into the dead id `o` -/
theorem ctorBufCopy_f {p : Pool} (hI : Inv p) {o b : Nat} {bb : Buf} (ho : p.objs o = none) (hb : p.objs b = some bb)
    (hC : p.objs tmpC = none) (hoC : o ≠ tmpC) (m : Mode) :
    (∃ p', ctorBufCopy o b m p = .ok () p' ∧ Succ p p' (· = o) ∧ alive p' o) ∨ ThrowUnch (ctorBufCopy o b m p) p := by
  have hob : b ≠ o := fun h => by rw [h, ho] at hb; cases hb
  have := ctorThen_f (body := setBufCopy o b m) (T := fun _ => False) hI ho (fun p1 s1 a1 => by
    have hb1 : p1.objs b = some bb := by rw [s1.objs b hob]; exact hb
    have hC1 : p1.objs tmpC = none := by rw [s1.objs tmpC (fun h => hoC h.symm)]; exact hC
    rcases setBufCopy_f s1.inv a1 hb1 hC1 hoC m with ⟨p2, h2, s2, a2⟩ | h | ⟨p2, h2, f2, s2, v2⟩
    · exact Or.inl ⟨p2, h2, s2.mono (fun x h => Or.inr h), a2⟩
    · exact Or.inr (h.inScope a1)
    · exact Or.inr ⟨_, p2, h2, s2, alive_of_prev_or_empty a1 v2, fun _ => f2⟩)
  rcases this with ⟨p', h1, s1, a1⟩ | h
  · exact Or.inl ⟨p', h1, s1.mono (fun x h => h.elim (fun f => f.elim) id), a1⟩
  · exact Or.inr h

/-! ### concatenation -/

/-- `operator+(const string&, const string&)` into the dead id `d` -/
theorem concatInto_f {p : Pool} (hI : Inv p) {d l r : Nat} {bl br : Buf} (hd : p.objs d = none) (hl : p.objs l = some bl)
    (hr : p.objs r = some br) (hA : p.objs tmpA = none) (hdA : d ≠ tmpA) :
    (∃ p', concatInto d l r p = .ok () p' ∧ Succ p p' (· = d) ∧ alive p' d) ∨ ThrowUnch (concatInto d l r p) p := by
  have e : concatInto d l r p = (fresh tmpA (units p bl ++ units p br) >>= fun _ => withTemp tmpA (ctorMove d tmpA)) p := by
    simp [concatInto, getObj_some hl, getObj_some hr, read_units hI hl, read_units hI hr]
  rw [e]
  refine scope_f (T := (· = d)) hA hdA ?_ ?_
  · rcases fresh_f hI hA (units p bl ++ units p br) with h | h
    · exact Or.inl h
    · exact Or.inr h.throwUnch
  · intro p1 s1 a1
    have hd1 : p1.objs d = none := by rw [s1.objs d hdA]; exact hd
    obtain ⟨p2, h2, s2, a2, b2⟩ := ctorMove_f s1.inv hd1 a1
    exact Or.inl ⟨p2, h2, s2, b2, a2⟩

/-- `o += s` (`s` may be `o` itself) -/
theorem appendStr_f {p : Pool} (hI : Inv p) {o s : Nat} (ho : alive p o) (hs : alive p s) (hA : p.objs tmpA = none)
    (hB : p.objs tmpB = none) (hoB : o ≠ tmpB) :
    (∃ p', appendStr o s p = .ok () p' ∧ Succ p p' (· = o) ∧ alive p' o) ∨ ThrowUnch (appendStr o s p) p := by
  obtain ⟨bo, hbo⟩ := ho
  obtain ⟨bs, hbs⟩ := hs
  refine scope_f (mk := concatInto tmpB o s) (body := assignMove o tmpB) (T := (· = o)) hB hoB ?_ ?_
  · exact concatInto_f hI hB hbo hbs hA tmpB_ne_tmpA
  · intro p1 s1 a1
    obtain ⟨p2, h2, s2, a2, b2⟩ := assignMove_f s1.inv (alive_of_objs_eq (s1.objs o hoB) ⟨bo, hbo⟩) a1
    exact Or.inl ⟨p2, h2, s2, b2, a2⟩

/-- `o += cstr` -/
theorem appendText_f {p : Pool} (hI : Inv p) {o : Nat} (ho : alive p o) (hT : TempsDead p) (hoT : ¬ isTemp o) (us : List Nat) (m : Mode) :
    (∃ p', appendText o us m p = .ok () p' ∧ Succ p p' (· = o) ∧ alive p' o) ∨ ThrowUnch (appendText o us m p) p := by
  have hoA : o ≠ tmpA := fun h => hoT (Or.inl h)
  have hoB : o ≠ tmpB := fun h => hoT (Or.inr (Or.inl h))
  have hoD : o ≠ tmpD := fun h => hoT (Or.inr (Or.inr (Or.inr h)))
  have dA := hT tmpA isTemp_A
  have dB := hT tmpB isTemp_B
  have dC := hT tmpC isTemp_C
  have dD := hT tmpD isTemp_D
  have e : appendText o us m = (ctorText tmpD us m >>= fun _ => withTemp tmpD (appendStr o tmpD)) := rfl
  rw [e]
  refine scope_f (T := (· = o)) dD hoD (ctorText_f hI dD dA dC tmpD_ne_tmpA tmpD_ne_tmpC us m) ?_
  intro p1 s1 a1
  have hA1 : p1.objs tmpA = none := by rw [s1.objs tmpA (fun h => tmpD_ne_tmpA h.symm)]; exact dA
  have hB1 : p1.objs tmpB = none := by rw [s1.objs tmpB (fun h => tmpD_ne_tmpB h.symm)]; exact dB
  rcases appendStr_f s1.inv (alive_of_objs_eq (s1.objs o hoD) ho) a1 hA1 hB1 hoB with ⟨p2, h2, s2, a2⟩ | h
  · exact Or.inl ⟨p2, h2, s2.mono (fun x h => Or.inl h), alive_of_objs_eq (s2.objs tmpD (fun h => hoD h.symm)) a1, a2⟩
  · exact Or.inr (h.inScope a1)

/-! ### appending a code point -/

/-- the statements of `operator+(const string&, char32_t)` that run with the concatenation buffer `tmpA` alive -/
def concatCharBody (d : Nat) (la : List Nat) (ch : Nat) : M Unit := do
  allocate tmpA (la.length + Utf.utf8Measure ch)
  writeData tmpA 0 la
  match Utf.writeUtf8 ch with
  | some bytes => do writeData tmpA la.length bytes; ctorMove d tmpA
  | none => throwE .unicodeError

theorem concatCharBody_f {p1 : Pool} (hI : Inv p1) {d : Nat} (a1 : alive p1 tmpA) (hd : p1.objs d = none) (la : List Nat) (ch : Nat) :
    (∃ p2, concatCharBody d la ch p1 = .ok () p2 ∧ Succ p1 p2 (fun x => x = d ∨ x = tmpA) ∧ alive p2 tmpA ∧ alive p2 d) ∨
    (∃ e p2, concatCharBody d la ch p1 = .throw e p2 ∧ Succ p1 p2 (· = tmpA) ∧ alive p2 tmpA ∧ (e = .badAlloc → p1.failAt ≠ none)) := by
  have hdA : d ≠ tmpA := fun h => by obtain ⟨b, hb⟩ := a1; rw [h, hb] at hd; cases hd
  rcases stepF hI (.allocate tmpA (la.length + Utf.utf8Measure ch)) a1 with ⟨p2, h2, s2, us2, hus2, q2⟩ | ⟨p2, h2, f2, s2, q2⟩
  · obtain ⟨b2, hb2⟩ := alive_of_view q2
    have hsz2 : b2.size = la.length + Utf.utf8Measure ch := view_size hb2 q2
    obtain ⟨p3, h3, s3, old3, _, q3⟩ := writeData_spec s2.inv (a := 0) (us := la) hb2 (by omega)
    obtain ⟨b3, hb3⟩ := alive_of_view q3
    have hsz3 : b3.size = la.length + Utf.utf8Measure ch := by rw [view_size hb3 q3, hsz2]
    simp only [Op.run] at h2
    cases hw : Utf.writeUtf8 ch with
    | some bytes =>
      have hbl : bytes.length = Utf.utf8Measure ch := writeUtf8_length hw
      obtain ⟨p4, h4, s4, old4, _, q4⟩ := writeData_spec s3.inv (a := la.length) (us := bytes) hb3 (by omega)
      have hd4 : p4.objs d = none := by rw [s4.objs d hdA, s3.objs d hdA, s2.objs d hdA]; exact hd
      obtain ⟨p5, h5, s5, a5, b5⟩ := ctorMove_f s4.inv hd4 (alive_of_view q4)
      left
      refine ⟨p5, by simp [concatCharBody, h2, h3, hw, h4, h5], ?_, b5, a5⟩
      exact Succ.trans' (((s2.trans s3).trans s4).mono (fun x h => Or.inr h)) s5 (fun x h => h) (fun x h => h)
    | none =>
      right
      exact ⟨.unicodeError, p3, by simp [concatCharBody, h2, h3, hw], s2.trans s3, ⟨b3, hb3⟩, fun h => by cases h⟩
  · simp only [Op.run] at h2
    right
    exact ⟨.badAlloc, p2, by simp [concatCharBody, h2], s2, alive_of_view q2, fun _ => f2⟩

/-- `operator+(const string&, char32_t)` into the dead id `d` -/
theorem concatCharInto_f {p : Pool} (hI : Inv p) {d l : Nat} {bl : Buf} (hd : p.objs d = none) (hl : p.objs l = some bl)
    (hA : p.objs tmpA = none) (hdA : d ≠ tmpA) (ch : Nat) :
    (∃ p', concatCharInto d l ch p = .ok () p' ∧ Succ p p' (· = d) ∧ alive p' d) ∨ ThrowUnch (concatCharInto d l ch p) p := by
  have e : concatCharInto d l ch p = (ctorDefault tmpA >>= fun _ => withTemp tmpA (concatCharBody d (units p bl) ch)) p := by
    simp only [concatCharInto, bind_apply, getObj_some hl, read_units hI hl]
    rfl
  rw [e]
  refine scope_f (T := (· = d)) hA hdA (Or.inl (ctorDefault_f hI hA)) ?_
  intro p1 s1 a1
  have hd1 : p1.objs d = none := by rw [s1.objs d hdA]; exact hd
  exact concatCharBody_f s1.inv a1 hd1 (units p bl) ch

/-- `o += ch` -/
theorem appendChar_f {p : Pool} (hI : Inv p) {o : Nat} (ho : alive p o) (hA : p.objs tmpA = none) (hB : p.objs tmpB = none)
    (hoB : o ≠ tmpB) (ch : Nat) :
    (∃ p', appendChar o ch p = .ok () p' ∧ Succ p p' (· = o) ∧ alive p' o) ∨ ThrowUnch (appendChar o ch p) p := by
  obtain ⟨bo, hbo⟩ := ho
  refine scope_f (mk := concatCharInto tmpB o ch) (body := assignMove o tmpB) (T := (· = o)) hB hoB ?_ ?_
  · exact concatCharInto_f hI hB hbo hA tmpB_ne_tmpA ch
  · intro p1 s1 a1
    obtain ⟨p2, h2, s2, a2, b2⟩ := assignMove_f s1.inv (alive_of_objs_eq (s1.objs o hoB) ⟨bo, hbo⟩) a1
    exact Or.inl ⟨p2, h2, s2, b2, a2⟩

/-! ### values converted from another encoding -/

theorem setConverted_f {p : Pool} (hI : Inv p) {o : Nat} (ho : alive p o) (hA : p.objs tmpA = none) (hoA : o ≠ tmpA)
    {c : Outcome (List Nat)} (hc : ConvOk c) :
    (∃ p', setConverted o c p = .ok () p' ∧ Succ p p' (· = o) ∧ alive p' o) ∨ ThrowUnch (setConverted o c p) p := by
  rcases hc with ⟨v, rfl⟩ | rfl
  · exact assignFromTemp_f hI ho hA hoA v
  · exact Or.inr (throwUnch_refl (e := .unicodeError) hI rfl (by decide))

/-- `o = ST::string(text in another encoding)` -/
theorem assignConverted_f {p : Pool} (hI : Inv p) {o : Nat} (ho : alive p o) (hA : p.objs tmpA = none) (hB : p.objs tmpB = none)
    (hoB : o ≠ tmpB) {c : Outcome (List Nat)} (hc : ConvOk c) :
    (∃ p', assignConverted o c p = .ok () p' ∧ Succ p p' (· = o) ∧ alive p' o) ∨ ThrowUnch (assignConverted o c p) p := by
  refine scope_f (mk := ctorDefault tmpB) (body := (do setConverted tmpB c; assignMove o tmpB)) (T := (· = o)) hB hoB
    (Or.inl (ctorDefault_f hI hB)) ?_
  intro p1 s1 a1
  have hA1 : p1.objs tmpA = none := by rw [s1.objs tmpA tmpA_ne_tmpB]; exact hA
  rcases setConverted_f s1.inv a1 hA1 tmpB_ne_tmpA hc with ⟨p2, h2, s2, a2⟩ | h
  · have ho2 : alive p2 o := alive_of_objs_eq (s2.objs o hoB) (alive_of_objs_eq (s1.objs o hoB) ho)
    obtain ⟨p3, h3, s3, a3, b3⟩ := assignMove_f s2.inv ho2 a2
    exact Or.inl ⟨p3, by simp [h2, h3], Succ.trans' s2 s3 (fun x h => Or.inr h) (fun x h => h), b3, a3⟩
  · obtain ⟨e, p2, h2, rest⟩ := h.inScope a1
    exact Or.inr ⟨e, p2, by simp [h2], rest⟩

/-! ### results of const operations -/

/-- new objects holding computed values: all built, or `bad_alloc` while building one of them — the results built before
    stay (the caller constructs them one after the other), nothing else is touched -/
theorem deriveAll_f {p : Pool} (hI : Inv p) (ds : List (Nat × List Nat)) (hdead : ∀ d ∈ ds.map (·.1), p.objs d = none)
    (hnd : (ds.map (·.1)).Nodup) :
    (∃ p', deriveAll ds p = .ok () p' ∧ Succ p p' (fun x => x ∈ ds.map (·.1))) ∨
    (∃ p', deriveAll ds p = .throw .badAlloc p' ∧ p.failAt ≠ none ∧ Succ p p' (fun x => x ∈ ds.map (·.1))) := by
  induction ds generalizing p with
  | nil => exact Or.inl ⟨p, rfl, hI.succ_refl _⟩
  | cons dv rest ih =>
    obtain ⟨d, v⟩ := dv
    simp only [List.map_cons, List.nodup_cons] at hnd
    rcases fresh_f hI (hdead d (by simp)) v with ⟨p1, h1, s1, _⟩ | ⟨p1, h1, f1, s1⟩
    · have hdead1 : ∀ x ∈ rest.map (·.1), p1.objs x = none := by
        intro x hx
        rw [s1.objs x (by rintro rfl; exact hnd.1 hx)]
        exact hdead x (by simp [hx])
      have m1 : ∀ x, x = d → x ∈ ((d, v) :: rest).map (·.1) := fun x h => by simp [h]
      have m2 : ∀ x, x ∈ rest.map (·.1) → x ∈ ((d, v) :: rest).map (·.1) := fun x h => by
        simp only [List.map_cons, List.mem_cons]; exact Or.inr h
      rcases ih s1.inv hdead1 hnd.2 with ⟨p2, h2, s2⟩ | ⟨p2, h2, f2, s2⟩
      · exact Or.inl ⟨p2, by simp [deriveAll, h1, h2], Succ.trans' s1 s2 m1 m2⟩
      · exact Or.inr ⟨p2, by simp [deriveAll, h1, h2], by rw [← s1.failAt]; exact f2, Succ.trans' s1 s2 m1 m2⟩
    · exact Or.inr ⟨p1, by simp [deriveAll, h1], f1, s1.mono (fun _ h => h.elim)⟩

/-! ### every string-level operation, any fault schedule -/

/-- outcome of a string-level operation when an allocation may fail: it completes having changed only its targets; or it
    throws an exception other than `bad_alloc` and nothing has changed; or it throws `bad_alloc` — only when a fault is
    scheduled — having changed only its targets, each of which holds its previous value, or is empty, or was a constructor
    target (then it does not exist, except for the results of a const operation built before the failing one).
    In every case the invariant of C05 holds afterwards (`Succ.inv`) and no temporary survives. -/
def SFOutcome (r : Res Unit) (p : Pool) (targets : List Nat) : Prop :=
  (∃ p', r = .ok () p' ∧ Succ p p' (· ∈ targets) ∧ TempsDead p')
  ∨ (∃ e p', r = .throw e p' ∧ e ≠ .badAlloc ∧ Succ p p' (fun _ => False) ∧ TempsDead p')
  ∨ (∃ p', r = .throw .badAlloc p' ∧ p.failAt ≠ none ∧ Succ p p' (· ∈ targets) ∧ TempsDead p' ∧
        ∀ t ∈ targets, view p' t = view p t ∨ view p' t = some (0, []) ∨ p.objs t = none)

theorem tempsDead_of_user {p p' : Pool} {T : Nat → Prop} (s : Succ p p' T) (hT : TempsDead p) (hu : ∀ x, T x → userId x) :
    TempsDead p' :=
  tempsDead_of s hT fun x hx ht => absurd hx (userId_not_temp (hu x ht))

theorem sf_of_ok {r : Res Unit} {p p' : Pool} {T : Nat → Prop} {targets : List Nat} (h : r = .ok () p') (s : Succ p p' T)
    (hT : TempsDead p) (hsub : ∀ x, T x → x ∈ targets) (hu : ∀ x, T x → userId x) : SFOutcome r p targets :=
  Or.inl ⟨p', h, s.mono hsub, tempsDead_of_user s hT hu⟩

theorem sf_of_throwUnch {r : Res Unit} {p : Pool} {targets : List Nat} (h : ThrowUnch r p) (hT : TempsDead p) :
    SFOutcome r p targets := by
  obtain ⟨e, p', h1, s1, f1⟩ := h
  have t1 : TempsDead p' := tempsDead_of s1 hT fun _ _ f => f.elim
  by_cases he : e = .badAlloc
  · subst he
    exact Or.inr (Or.inr ⟨p', h1, f1 rfl, s1.mono (fun _ f => f.elim), t1, fun t _ => Or.inl (s1.view t (fun f => f))⟩)
  · exact Or.inr (Or.inl ⟨e, p', h1, he, s1, t1⟩)

theorem sf_of_cases {r : Res Unit} {p : Pool} {o : Nat} {targets : List Nat} (hT : TempsDead p) (ho : o ∈ targets) (hu : userId o)
    (h : (∃ p', r = .ok () p' ∧ Succ p p' (· = o) ∧ alive p' o) ∨ ThrowUnch r p) : SFOutcome r p targets := by
  rcases h with ⟨p', h1, s1, _⟩ | h
  · exact sf_of_ok h1 s1 hT (fun x hx => hx ▸ ho) (fun x hx => hx ▸ hu)
  · exact sf_of_throwUnch h hT

/-- a buffer-level operation lifted to the string level, any fault schedule -/
theorem lift_stepF {p : Pool} (hI : Inv p) (hT : TempsDead p) (op : Op) (hpre : Pool.pre op p)
    (targets : List Nat) (hsub : ∀ x, op.T x → x ∈ targets) (hu : ∀ x, op.T x → userId x)
    (hth : ∀ p', throwPost p op p' → ∀ t ∈ targets, view p' t = view p t ∨ view p' t = some (0, []) ∨ p.objs t = none) :
    SFOutcome (op.run p) p targets := by
  rcases stepF hI op hpre with ⟨p', h1, s1, _⟩ | ⟨p', h1, f1, s1, q1⟩
  · exact sf_of_ok h1 s1 hT hsub hu
  · exact Or.inr (Or.inr ⟨p', h1, f1, s1.mono hsub, tempsDead_of_user s1 hT hu, hth p' q1⟩)

theorem userId_bufSlot : userId bufSlot := by unfold userId bufSlot; omega

/-- **every string-level operation, any fault schedule**: see `SFOutcome`; in particular never a memory fault -/
theorem sop_fault_spec {p : Pool} (hI : Inv p) (hT : TempsDead p) (op : SOp) (hpre : op.pre p) :
    SFOutcome (op.run p) p op.targets := by
  have dA := hT tmpA isTemp_A
  have dB := hT tmpB isTemp_B
  have dC := hT tmpC isTemp_C
  have ne : ∀ {o : Nat}, userId o → o ≠ tmpA ∧ o ≠ tmpB ∧ o ≠ tmpC ∧ o ≠ tmpD := by
    intro o h; unfold userId at h; unfold tmpA tmpB tmpC tmpD; omega
  cases op with
  | ctorText o us m =>
    obtain ⟨hu, ho⟩ := hpre
    obtain ⟨nA, _, nC, _⟩ := ne hu
    exact sf_of_cases hT (by simp [SOp.targets]) hu (ctorText_f hI ho dA dC nA nC us m)
  | ctorDefault o =>
    obtain ⟨hu, ho⟩ := hpre
    exact lift_stepF hI hT (.ctorDefault o) ho _ (fun x h => by simp only [Op.T] at h; simp [SOp.targets, h])
      (fun x h => by simp only [Op.T] at h; subst h; exact hu) (fun _ h => h.elim)
  | ctorCopy o s =>
    obtain ⟨hu, _, ho, hs⟩ := hpre
    exact lift_stepF hI hT (.ctorCopy o s) ⟨ho, hs⟩ _ (fun x h => by simp only [Op.T] at h; simp [SOp.targets, h])
      (fun x h => by simp only [Op.T] at h; subst h; exact hu)
      (fun _ _ t ht => by simp only [SOp.targets, List.mem_cons, List.not_mem_nil, or_false] at ht; subst ht; exact Or.inr (Or.inr ho))
  | ctorMove o s =>
    obtain ⟨hu, hus, ho, hs⟩ := hpre
    exact lift_stepF hI hT (.ctorMove o s) ⟨ho, hs⟩ _
      (fun x h => by simp only [Op.T] at h; simp only [SOp.targets, List.mem_cons, List.not_mem_nil, or_false]; exact h)
      (fun x h => by simp only [Op.T] at h; rcases h with rfl | rfl; exact hu; exact hus) (fun _ h => h.elim)
  | dtor o =>
    obtain ⟨hu, ho⟩ := hpre
    exact lift_stepF hI hT (.dtor o) ho _ (fun x h => by simp only [Op.T] at h; simp [SOp.targets, h])
      (fun x h => by simp only [Op.T] at h; subst h; exact hu) (fun _ h => h.elim)
  | clear o =>
    obtain ⟨hu, ho⟩ := hpre
    exact lift_stepF hI hT (.clear o) ho _ (fun x h => by simp only [Op.T] at h; simp [SOp.targets, h])
      (fun x h => by simp only [Op.T] at h; subst h; exact hu) (fun _ h => h.elim)
  | assignCopy o s =>
    obtain ⟨hu, _, ho, hs⟩ := hpre
    exact lift_stepF hI hT (.assignCopy o s) ⟨ho, hs⟩ _ (fun x h => by simp only [Op.T] at h; simp [SOp.targets, h])
      (fun x h => by simp only [Op.T] at h; subst h; exact hu)
      (fun p' q t ht => by
        simp only [SOp.targets, List.mem_cons, List.not_mem_nil, or_false] at ht; subst ht
        exact q.elim Or.inl (fun h => Or.inr (Or.inl h)))
  | assignMove o s =>
    obtain ⟨hu, hus, ho, hs⟩ := hpre
    exact lift_stepF hI hT (.assignMove o s) ⟨ho, hs⟩ _
      (fun x h => by simp only [Op.T] at h; simp only [SOp.targets, List.mem_cons, List.not_mem_nil, or_false]; exact h)
      (fun x h => by simp only [Op.T] at h; rcases h with rfl | rfl; exact hu; exact hus) (fun _ h => h.elim)
  | appendStr o s =>
    obtain ⟨hu, _, ho, hs⟩ := hpre
    obtain ⟨_, nB, _, _⟩ := ne hu
    exact sf_of_cases hT (by simp [SOp.targets]) hu (appendStr_f hI ho hs dA dB nB)
  | appendText o us m =>
    obtain ⟨hu, ho⟩ := hpre
    exact sf_of_cases hT (by simp [SOp.targets]) hu (appendText_f hI ho hT (userId_not_temp hu) us m)
  | appendChar o ch =>
    obtain ⟨hu, ho⟩ := hpre
    obtain ⟨_, nB, _, _⟩ := ne hu
    exact sf_of_cases hT (by simp [SOp.targets]) hu (appendChar_f hI ho dA dB nB ch)
  | setText o us m =>
    obtain ⟨hu, ho⟩ := hpre
    obtain ⟨nA, _, nC, _⟩ := ne hu
    exact sf_of_cases hT (by simp [SOp.targets]) hu (setUtf8_f hI ho dA dC nA nC us m)
  | setConv o c =>
    obtain ⟨hu, ho, hc⟩ := hpre
    obtain ⟨nA, _, _, _⟩ := ne hu
    exact sf_of_cases hT (by simp [SOp.targets]) hu (setConverted_f hI ho dA nA hc)
  | assignConv o c =>
    obtain ⟨hu, ho, hc⟩ := hpre
    obtain ⟨_, nB, _, _⟩ := ne hu
    exact sf_of_cases hT (by simp [SOp.targets]) hu (assignConverted_f hI ho dA dB nB hc)
  | bufCtor us =>
    exact lift_stepF hI hT (.ctorUnits bufSlot us) hpre _ (fun x h => by simp only [Op.T] at h; simp [SOp.targets, h])
      (fun x h => by simp only [Op.T] at h; subst h; exact userId_bufSlot)
      (fun _ _ t ht => by simp only [SOp.targets, List.mem_cons, List.not_mem_nil, or_false] at ht; subst ht; exact Or.inr (Or.inr hpre))
  | setBufMove o m =>
    obtain ⟨hu, _, ho, ⟨bb, hb⟩⟩ := hpre
    obtain ⟨_, _, nC, _⟩ := ne hu
    rcases setBufMove_f hI ho hb dC nC m with ⟨p', h1, s1, _⟩ | h
    · exact sf_of_ok h1 s1 hT (fun x hx => by simp only [SOp.targets, List.mem_cons, List.not_mem_nil, or_false]; exact hx)
        (fun x hx => by rcases hx with rfl | rfl; exact hu; exact userId_bufSlot)
    · exact sf_of_throwUnch h hT
  | setBufCopy o m =>
    obtain ⟨hu, _, ho, ⟨bb, hb⟩⟩ := hpre
    obtain ⟨_, _, nC, _⟩ := ne hu
    rcases setBufCopy_f hI ho hb dC nC m with h | h | ⟨p', h1, f1, s1, v1⟩
    · exact sf_of_cases hT (by simp [SOp.targets]) hu (Or.inl h)
    · exact sf_of_throwUnch h hT
    · have hsub : ∀ x, x = o → x ∈ (SOp.setBufCopy o m).targets := fun x hx => by simp [SOp.targets, hx]
      refine Or.inr (Or.inr ⟨p', h1, f1, s1.mono hsub, tempsDead_of_user s1 hT (fun x hx => hx ▸ hu), fun t ht => ?_⟩)
      simp only [SOp.targets, List.mem_cons, List.not_mem_nil, or_false] at ht; subst ht
      exact v1.elim Or.inl (fun h => Or.inr (Or.inl h))
  | ctorBufMove o m =>
    obtain ⟨hu, _, ho, ⟨bb, hb⟩⟩ := hpre
    obtain ⟨_, _, nC, _⟩ := ne hu
    rcases ctorBufMove_f hI ho hb dC nC m with ⟨p', h1, s1, _⟩ | h
    · exact sf_of_ok h1 s1 hT (fun x hx => by simp only [SOp.targets, List.mem_cons, List.not_mem_nil, or_false]; exact hx.symm)
        (fun x hx => by rcases hx with rfl | rfl; exact userId_bufSlot; exact hu)
    · exact sf_of_throwUnch h hT
  | ctorBufCopy o m =>
    obtain ⟨hu, _, ho, ⟨bb, hb⟩⟩ := hpre
    obtain ⟨_, _, nC, _⟩ := ne hu
    exact sf_of_cases hT (by simp [SOp.targets]) hu (ctorBufCopy_f hI ho hb dC nC m)
  | derive ds =>
    obtain ⟨hd, hnd⟩ := hpre
    rcases deriveAll_f hI ds (fun d h => (hd d h).2) hnd with ⟨p', h1, s1⟩ | ⟨p', h1, f1, s1⟩
    · exact sf_of_ok h1 s1 hT (fun x hx => hx) (fun x hx => (hd x hx).1)
    · exact Or.inr (Or.inr ⟨p', h1, f1, s1, tempsDead_of_user s1 hT (fun x hx => (hd x hx).1), fun t ht => Or.inr (Or.inr (hd t ht).2)⟩)
  | deriveThrow e =>
    exact Or.inr (Or.inl ⟨e, p, rfl, hpre, hI.succ_refl _, hT⟩)
  | query =>
    exact Or.inl ⟨p, rfl, hI.succ_refl _, hT⟩

/-! ### histories under fault schedules -/

/-- states reachable by any finite history of string-level operations in which any fault schedule may be installed
    before any operation (an operation that throws — `bad_alloc` included — is part of the history like any other) -/
inductive SReachF (L : Nat) : Pool → Prop
  | init : SReachF L (Pool.init L)
  | ok {p p' : Pool} {op : SOp} : SReachF L p → op.pre p → op.run p = .ok () p' → SReachF L p'
  | thrown {p p' : Pool} {op : SOp} {e : Exc} : SReachF L p → op.pre p → op.run p = .throw e p' → SReachF L p'
  | arm {p : Pool} (f : Option Nat) : SReachF L p → SReachF L { p with failAt := f }

theorem inv_setFailAt {p : Pool} (hI : Inv p) (f : Option Nat) : Inv { p with failAt := f } :=
  hI.congr (p' := { p with failAt := f }) rfl (fun _ => rfl) (fun _ => rfl) rfl

/-- every such state satisfies the invariant and has no temporary alive -/
theorem sreachF_inv {L : Nat} (hL : 0 < L) {p : Pool} (h : SReachF L p) : Inv p ∧ TempsDead p := by
  induction h with
  | init => exact ⟨Props.C05.inv_init L hL, tempsDead_init L⟩
  | @ok p p' op _ hpre hrun ih =>
    obtain ⟨hI, hT⟩ := ih
    rcases sop_fault_spec hI hT op hpre with ⟨p'', h1, s1, t1⟩ | ⟨e, p'', h1, _⟩ | ⟨p'', h1, _⟩
    · rw [hrun] at h1; cases h1; exact ⟨s1.inv, t1⟩
    · rw [hrun] at h1; cases h1
    · rw [hrun] at h1; cases h1
  | @thrown p p' op e _ hpre hrun ih =>
    obtain ⟨hI, hT⟩ := ih
    rcases sop_fault_spec hI hT op hpre with ⟨p'', h1, _⟩ | ⟨e', p'', h1, _, s1, t1⟩ | ⟨p'', h1, _, s1, t1, _⟩
    · rw [hrun] at h1; cases h1
    · rw [hrun] at h1; cases h1; exact ⟨s1.inv, t1⟩
    · rw [hrun] at h1; cases h1; exact ⟨s1.inv, t1⟩
  | arm f _ ih => exact ⟨inv_setFailAt ih.1 f, ih.2⟩

/-- a history without faults is a history -/
theorem SReach.toF {L : Nat} {p : Pool} (h : SReach L p) : SReachF L p := by
  induction h with
  | init => exact .init
  | ok _ hpre hrun ih => exact .ok ih hpre hrun
  | thrown _ hpre hrun ih => exact .thrown ih hpre hrun

/-! ### the fault really fires (for the non-vacuity example of C19) -/

/-- `allocate(n)` with `n` beyond the in-object capacity throws when its allocation is the scheduled one -/
theorem allocate_throws {p : Pool} (hI : Inv p) {o : Nat} (ho : alive p o) {n : Nat} (hn : p.L ≤ n)
    (hf : p.failAt = some (p.allocs + 1)) : ∃ p', allocate o n p = .throw .badAlloc p' := by
  obtain ⟨b, hb⟩ := ho
  obtain ⟨p1, h1, s1, hal, _⟩ := allocateReset_spec hI hb
  obtain ⟨p', h2, _⟩ := allocateTail_long_throw s1.inv (o := o) (n := n) (by rw [s1.L]; exact hn)
    (by rw [s1.failAt, hal]; exact hf) (· = o)
  rw [s1.L] at h2
  exact ⟨p', by rw [allocate_phases]; simp only [bind_apply, h1, h2]⟩

/-- a long fresh result whose allocation is the scheduled one: `bad_alloc`, nothing changed -/
theorem fresh_throws {p : Pool} (hI : Inv p) {d : Nat} (hd : p.objs d = none) {val : List Nat} (hn : p.L ≤ val.length)
    (hf : p.failAt = some (p.allocs + 1)) : BadUnch (fresh d val p) p := by
  rcases fresh_f hI hd val with ⟨p', h, _⟩ | h
  · exfalso
    obtain ⟨p1, h1, s1, a1⟩ := ctorDefault_f hI hd
    have hal : p1.allocs = p.allocs := by
      simp only [ctorDefault, bind_apply, getP_apply, setObj_eq] at h1; cases h1; rfl
    obtain ⟨p2, h2⟩ := allocate_throws s1.inv a1 (n := val.length) (by rw [s1.L]; exact hn) (by rw [s1.failAt, hal]; exact hf)
    simp only [fresh, ctorThen, bind_apply, h1, h2] at h
    split at h <;> cases h
  · exact h

theorem concatInto_eq {p : Pool} (hI : Inv p) {d l r : Nat} {bl br : Buf} (hl : p.objs l = some bl) (hr : p.objs r = some br) :
    concatInto d l r p = (fresh tmpA (units p bl ++ units p br) >>= fun _ => withTemp tmpA (ctorMove d tmpA)) p := by
  simp [concatInto, getObj_some hl, getObj_some hr, read_units hI hl, read_units hI hr]

/-- `o += s` whose concatenation does not fit the in-object array, with the next allocation scheduled to fail:
    `bad_alloc` reaches the caller and nothing has changed -/
theorem appendStr_throws {p : Pool} (hI : Inv p) {o s : Nat} {bo bs : Buf} (ho : p.objs o = some bo) (hs : p.objs s = some bs)
    (hA : p.objs tmpA = none) (hn : p.L ≤ (units p bo ++ units p bs).length) (hf : p.failAt = some (p.allocs + 1)) :
    BadUnch (appendStr o s p) p := by
  obtain ⟨p', h1, rest⟩ := fresh_throws hI hA hn hf
  exact ⟨p', by simp [appendStr, concatInto_eq hI ho hs, h1], rest⟩

end StVerif.StrPool
