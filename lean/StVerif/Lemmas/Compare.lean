/-
  Helper lemmas about the comparison core (Model/Compare.lean).
-/
import StVerif.Model.Compare
import StVerif.Lemmas.Search
import StVerif.Lemmas.CompareSpec

namespace StVerif.Lemmas.Compare
open StVerif StVerif.Search StVerif.Compare StVerif.Spec.Search StVerif.Lemmas.Search
open StVerif.Spec.Compare StVerif.Lemmas.CompareSpec

theorem schar_eq_iff (x y : Nat) (hx : x < 256) (hy : y < 256) : schar x = schar y ↔ x = y := by
  unfold schar toSigned
  constructor
  · intro h
    split at h <;> split at h <;> omega
  · intro h; rw [h]

theorem lower_lt (b : Nat) (h : b < 256) : lower b < 256 := by
  unfold lower; split <;> omega

theorem upper_lt (b : Nat) (h : b < 256) : upper b < 256 := by
  unfold upper; split <;> omega

theorem sizeDiffNarrowed_self (n : Nat) : sizeDiffNarrowed n n = 0 := by
  simp [sizeDiffNarrowed, wrap64, toI32]

theorem sizeOrder_self (n : Nat) : sizeOrder n n = 0 := by simp [sizeOrder]

/-- the traits comparison of two equally long texts is zero exactly for equal texts, wherever the
    element order distinguishes the units involved -/
theorem traitsCompare_eq_zero_iff (e : Elem) (a b : List Nat) (h : a.length = b.length)
    (inj : ∀ x ∈ a, ∀ y ∈ b, e.key x = e.key y → x = y) :
    traitsCompare e a b = 0 ↔ a = b := by
  induction a generalizing b with
  | nil => cases b with
    | nil => simp [traitsCompare]
    | cons y ys => simp at h
  | cons x xs ih =>
    cases b with
    | nil => simp at h
    | cons y ys =>
      simp only [List.length_cons, Nat.add_right_cancel_iff] at h
      unfold traitsCompare
      by_cases h1 : e.key x < e.key y
      · rw [if_pos h1]
        have : x ≠ y := fun e' => by subst e'; omega
        simp [this]
      · rw [if_neg h1]
        by_cases h2 : e.key y < e.key x
        · rw [if_pos h2]
          have : x ≠ y := fun e' => by subst e'; omega
          simp [this]
        · rw [if_neg h2, ih ys h (fun x' hx' y' hy' => inj x' (by simp [hx']) y' (by simp [hy']))]
          have : x = y := inj x (by simp) y (by simp) (by omega)
          simp [this]

theorem key_char (x : Nat) : Elem.key .char x = (x : Int) := rfl

theorem traitsCompare_char_eq_zero_iff (a b : List Nat) (h : a.length = b.length) :
    traitsCompare .char a b = 0 ↔ a = b :=
  traitsCompare_eq_zero_iff .char a b h (fun x _ y _ hk => by rw [key_char, key_char] at hk; exact Int.ofNat.inj hk)

/-- the folded comparison of two equally long byte texts is zero exactly for fold-equal texts -/
theorem compareCi3_eq_zero_iff (a b : List Nat) (h : a.length = b.length) (ha : Bytes a) (hb : Bytes b) :
    compareCi3 a b = 0 ↔ a.map foldAscii = b.map foldAscii := by
  induction a generalizing b with
  | nil => cases b with
    | nil => simp [compareCi3]
    | cons y ys => simp at h
  | cons x xs ih =>
    cases b with
    | nil => simp at h
    | cons y ys =>
      simp only [List.length_cons, Nat.add_right_cancel_iff] at h
      have hx : x < 256 := ha x (by simp)
      have hy : y < 256 := hb y (by simp)
      have hxs : Bytes xs := fun z hz => ha z (by simp [hz])
      have hys : Bytes ys := fun z hz => hb z (by simp [hz])
      unfold compareCi3
      simp only [List.map_cons, List.cons.injEq, ← lower_eq_foldAscii]
      have inj := schar_eq_iff (lower x) (lower y) (lower_lt x hx) (lower_lt y hy)
      by_cases hc : schar (lower x) = schar (lower y)
      · rw [if_neg (by simpa using hc), ih ys h hxs hys]
        simp [inj.1 hc]
      · rw [if_pos hc]
        have : lower x ≠ lower y := fun e => hc (inj.2 e)
        simp [this]; omega

/-! ### the model's prefix comparisons are the Spec's three-way comparison on equally long texts -/

theorem traitsCompare_eq_lexSign (e : Elem) (a b : List Nat) (h : a.length = b.length) :
    traitsCompare e a b = lexSign e.key a b := by
  induction a generalizing b with
  | nil => cases b with
    | nil => rfl
    | cons y ys => simp at h
  | cons x xs ih =>
    cases b with
    | nil => simp at h
    | cons y ys =>
      simp only [List.length_cons, Nat.add_right_cancel_iff] at h
      unfold traitsCompare lexSign
      rw [ih ys h]

/-- the order `compare_ci` sorts by: the folded byte as a signed char -/
def ciKey (x : Nat) : Int := schar (lower x)

theorem compareCi3_sign (a b : List Nat) (h : a.length = b.length) :
    Int.sign (compareCi3 a b) = lexSign ciKey a b := by
  induction a generalizing b with
  | nil => cases b with
    | nil => rfl
    | cons y ys => simp at h
  | cons x xs ih =>
    cases b with
    | nil => simp at h
    | cons y ys =>
      simp only [List.length_cons, Nat.add_right_cancel_iff] at h
      unfold compareCi3 lexSign
      simp only []
      rw [show schar (lower x) = ciKey x from rfl, show schar (lower y) = ciKey y from rfl]
      by_cases h1 : ciKey x < ciKey y
      · have hne : ciKey x ≠ ciKey y := by omega
        rw [if_pos hne, if_pos h1]
        exact Int.sign_eq_neg_one_of_neg (by omega)
      · by_cases h2 : ciKey y < ciKey x
        · have hne : ciKey x ≠ ciKey y := by omega
          rw [if_pos hne, if_neg h1, if_pos h2]
          exact Int.sign_eq_one_of_pos (by omega)
        · have he : ¬ (ciKey x ≠ ciKey y) := by omega
          rw [if_neg he, if_neg h1, if_neg h2]
          exact ih ys h

theorem sign_lexSign (key : Nat → Int) (a b : List Nat) : Int.sign (lexSign key a b) = lexSign key a b := by
  rcases lexSign_range key a b with h | h | h <;> rw [h] <;> rfl

theorem sign_lengthOrder (la lb : Nat) : Int.sign (lengthOrder la lb) = lengthOrder la lb := by
  unfold lengthOrder; split
  · rfl
  · split <;> rfl

theorem take_min_length (a b : List Nat) :
    (a.take (min a.length b.length)).length = (b.take (min a.length b.length)).length := by
  simp only [List.length_take]; omega

/-- the narrowed size difference has the sign of the size comparison as long as the difference fits an `int` -/
theorem sizeDiffNarrowed_sign (ls rs : Nat) (_h1 : ls < 2 ^ 64) (_h2 : rs < 2 ^ 64)
    (hd : (ls : Int) - rs < 2 ^ 31 ∧ (rs : Int) - ls ≤ 2 ^ 31) :
    Int.sign (sizeDiffNarrowed ls rs) = lengthOrder ls rs := by
  unfold sizeDiffNarrowed wrap64 toI32 lengthOrder
  by_cases hlt : ls < rs
  · rw [if_pos hlt]
    have e : (((ls : Int) - rs) % (2 ^ 64 : Int)).toNat = 2 ^ 64 - (rs - ls) := by omega
    rw [e]
    apply Int.sign_eq_neg_one_of_neg
    split <;> omega
  · rw [if_neg hlt]
    have e : (((ls : Int) - rs) % (2 ^ 64 : Int)).toNat = ls - rs := by omega
    rw [e]
    by_cases hgt : rs < ls
    · rw [if_pos hgt]
      apply Int.sign_eq_one_of_pos
      split <;> omega
    · rw [if_neg hgt]
      have : ls - rs = 0 := by omega
      rw [this]; rfl

theorem sizeOrder_eq_lengthOrder (ls rs : Nat) : sizeOrder ls rs = lengthOrder ls rs := rfl

/-! ### the repaired `compare` is the Spec's three-way comparison -/

/-- `buffer<char_T>::compare` on two whole texts *is* `lexSign` in the element order (value, not only sign) -/
theorem compareSized_eq_lexSign (e : Elem) (a b : List Nat) :
    compareSized e a a.length b b.length = lexSign e.key a b := by
  unfold compareSized
  simp only []
  rw [traitsCompare_eq_lexSign e _ _ (take_min_length a b), lexSign_decomp e.key a b, sizeOrder_eq_lengthOrder]

theorem compareCiSized_sign (a b : List Nat) :
    Int.sign (compareCiSized a a.length b b.length) = lexSign ciKey a b := by
  unfold compareCiSized
  simp only []
  rw [lexSign_decomp ciKey a b]
  simp only []
  have h := compareCi3_sign _ _ (take_min_length a b)
  by_cases hz : compareCi3 (a.take (min a.length b.length)) (b.take (min a.length b.length)) = 0
  · have : lexSign ciKey (a.take (min a.length b.length)) (b.take (min a.length b.length)) = 0 := by
      rw [← h, hz]; rfl
    rw [if_neg (by simpa using hz), if_neg (by simpa using this), sizeOrder_eq_lengthOrder, sign_lengthOrder]
  · have : lexSign ciKey (a.take (min a.length b.length)) (b.take (min a.length b.length)) ≠ 0 := by
      rw [← h]; intro h0; exact hz (Int.sign_eq_zero_iff_zero.1 h0)
    rw [if_pos hz, if_pos this, h]

/-- the order a comparison in mode `cs` sorts `char` strings by -/
def modeKey : CaseMode → Nat → Int
  | .sensitive => unsignedKey
  | .insensitive => ciKey

theorem compareMode_sign (cs : CaseMode) (a b : List Nat) :
    Int.sign (compareMode cs a a.length b b.length) = lexSign (modeKey cs) a b := by
  cases cs with
  | sensitive =>
    simp only [compareMode, modeKey, compareSized_eq_lexSign]
    exact sign_lexSign ..
  | insensitive => exact compareCiSized_sign a b

/-! ### only the common prefix is read -/

theorem compareSized_congr (e : Elem) (l l' r r' : List Nat) (ls rs : Nat)
    (hl : l.take (min ls rs) = l'.take (min ls rs)) (hr : r.take (min ls rs) = r'.take (min ls rs)) :
    compareSized e l ls r rs = compareSized e l' ls r' rs := by
  simp only [compareSized, hl, hr]

theorem compareCiSized_congr (l l' r r' : List Nat) (ls rs : Nat)
    (hl : l.take (min ls rs) = l'.take (min ls rs)) (hr : r.take (min ls rs) = r'.take (min ls rs)) :
    compareCiSized l ls r rs = compareCiSized l' ls r' rs := by
  simp only [compareCiSized, hl, hr]

theorem compareMode_congr (cs : CaseMode) (l l' r r' : List Nat) (ls rs : Nat)
    (hl : l.take (min ls rs) = l'.take (min ls rs)) (hr : r.take (min ls rs) = r'.take (min ls rs)) :
    compareMode cs l ls r rs = compareMode cs l' ls r' rs := by
  cases cs
  · exact compareSized_congr _ _ _ _ _ _ _ hl hr
  · exact compareCiSized_congr _ _ _ _ _ _ hl hr

/-! ### right-hand operand forms -/

end StVerif.Lemmas.Compare

namespace StVerif.Compare
/-- the text a right-hand operand denotes -/
def Rhs.text : Rhs → List Nat
  | .str b => b
  | .cstr none => []
  | .cstr (some p) => Spec.Search.cstr p
end StVerif.Compare

namespace StVerif.Lemmas.Compare
open StVerif StVerif.Search StVerif.Compare StVerif.Spec.Search StVerif.Lemmas.Search
open StVerif.Spec.Compare StVerif.Lemmas.CompareSpec

theorem take_strlen (p : List Nat) : p.take (strlen p) = cstr p := by
  induction p with
  | nil => rfl
  | cons c rest ih =>
    unfold strlen cstr
    by_cases hc : c = 0
    · subst hc; simp
    · rw [if_neg hc]
      simp only [List.take_succ_cons, List.takeWhile_cons, ne_eq, hc, not_false_eq_true, decide_true, if_true]
      rw [ih]; rfl

theorem strlen_eq (p : List Nat) : strlen p = (cstr p).length := by
  rw [← take_strlen, List.length_take]
  have : strlen p ≤ p.length := by
    induction p with
    | nil => simp [strlen]
    | cons c rest ih => unfold strlen; split <;> simp <;> omega
  omega

theorem Rhs.size_eq (r : Rhs) : r.size = r.text.length := by
  cases r with
  | str b => rfl
  | cstr p => cases p with
    | none => rfl
    | some p => exact strlen_eq p

theorem Rhs.take_data (r : Rhs) (m : Nat) (h : m ≤ r.size) : r.data.take m = r.text.take m := by
  cases r with
  | str b => rfl
  | cstr p => cases p with
    | none => rfl
    | some p =>
      simp only [Rhs.data, Rhs.text, Rhs.size] at *
      rw [← take_strlen, List.take_take, Nat.min_eq_left h]

/-- every right-hand form compares as the text it denotes -/
theorem strCompare_eq_text (cs : CaseMode) (a : List Nat) (r : Rhs) :
    strCompare cs a r = strCompare cs a (.str r.text) := by
  show compareMode cs a a.length r.data r.size = compareMode cs a a.length r.text r.text.length
  rw [← Rhs.size_eq]
  exact compareMode_congr cs _ _ _ _ _ _ rfl (Rhs.take_data r _ (Nat.min_le_right ..))

theorem strCompareN_eq_text (cs : CaseMode) (a : List Nat) (r : Rhs) (n : Nat) :
    strCompareN cs a r n = strCompareN cs a (.str r.text) n := by
  show compareModeN cs a a.length r.data r.size n = compareModeN cs a a.length r.text r.text.length n
  rw [← Rhs.size_eq]
  cases cs
  · exact compareSized_congr _ _ _ _ _ _ _ rfl (Rhs.take_data r _ (by omega))
  · exact compareCiSized_congr _ _ _ _ _ _ rfl (Rhs.take_data r _ (by omega))

theorem bufCompare_eq_text (e : Elem) (a : List Nat) (r : Rhs) :
    bufCompare e a r = bufCompare e a (.str r.text) := by
  show compareSized e a a.length r.data r.size = compareSized e a a.length r.text r.text.length
  rw [← Rhs.size_eq]
  exact compareSized_congr e _ _ _ _ _ _ rfl (Rhs.take_data r _ (Nat.min_le_right ..))

theorem bufCompareN_eq_text (e : Elem) (a : List Nat) (r : Rhs) (n : Nat) :
    bufCompareN e a r n = bufCompareN e a (.str r.text) n := by
  show compareSizedN e a a.length r.data r.size n = compareSizedN e a a.length r.text r.text.length n
  rw [← Rhs.size_eq]
  exact compareSized_congr e _ _ _ _ _ _ rfl (Rhs.take_data r _ (by omega))

/-! ### `compare_n` is `compare` of the first `n` units -/

theorem compareSizedN_eq_take (e : Elem) (a b : List Nat) (n : Nat) :
    compareSizedN e a a.length b b.length n = compareSized e (a.take n) (a.take n).length (b.take n) (b.take n).length := by
  unfold compareSizedN
  simp only [List.length_take, Nat.min_comm n]
  apply compareSized_congr
  · rw [List.take_take]; congr 1; omega
  · rw [List.take_take]; congr 1; omega

theorem compareCiSizedN_eq_take (a b : List Nat) (n : Nat) :
    compareCiSizedN a a.length b b.length n = compareCiSized (a.take n) (a.take n).length (b.take n) (b.take n).length := by
  unfold compareCiSizedN
  simp only [List.length_take, Nat.min_comm n]
  apply compareCiSized_congr
  · rw [List.take_take]; congr 1; omega
  · rw [List.take_take]; congr 1; omega

/-! ### keys -/

theorem ciKey_eq_iff (x y : Nat) (hx : x < 256) (hy : y < 256) : ciKey x = ciKey y ↔ foldAscii x = foldAscii y := by
  unfold ciKey
  rw [schar_eq_iff _ _ (lower_lt x hx) (lower_lt y hy), lower_eq_foldAscii, lower_eq_foldAscii]

theorem map_ciKey_eq_iff (a b : List Nat) (ha : Bytes a) (hb : Bytes b) :
    a.map ciKey = b.map ciKey ↔ a.map foldAscii = b.map foldAscii := by
  induction a generalizing b with
  | nil => cases b <;> simp
  | cons x xs ih =>
    cases b with
    | nil => simp
    | cons y ys =>
      have hx : x < 256 := ha x (by simp)
      have hy : y < 256 := hb y (by simp)
      have hxs : Bytes xs := fun z hz => ha z (by simp [hz])
      have hys : Bytes ys := fun z hz => hb z (by simp [hz])
      simp only [List.map_cons, List.cons.injEq, ciKey_eq_iff x y hx hy, ih ys hxs hys]

theorem toSigned32_inj (x y : Nat) (hx : x < 2 ^ 32) (hy : y < 2 ^ 32) (h : toSigned 32 x = toSigned 32 y) : x = y := by
  unfold toSigned at h
  split at h <;> split at h <;> omega

theorem key_inj (e : Elem) (x y : Nat) (hx : x < 2 ^ e.bits) (hy : y < 2 ^ e.bits) (h : e.key x = e.key y) : x = y := by
  cases e with
  | wchar => exact toSigned32_inj x y hx hy h
  | char => simp only [Elem.key] at h; omega
  | char16 => simp only [Elem.key] at h; omega
  | char32 => simp only [Elem.key] at h; omega

theorem key_unsigned (e : Elem) (h : e ≠ .wchar) : e.key = unsignedKey := by
  cases e <;> first | rfl | exact absurd rfl h

theorem map_key_inj (e : Elem) (a b : List Nat) (ha : UnitsLt (2 ^ e.bits) a) (hb : UnitsLt (2 ^ e.bits) b)
    (h : a.map e.key = b.map e.key) : a = b := by
  induction a generalizing b with
  | nil => cases b <;> simp_all
  | cons x xs ih =>
    cases b with
    | nil => simp at h
    | cons y ys =>
      simp only [List.map_cons, List.cons.injEq] at h
      have hx := ha x (by simp)
      have hy := hb y (by simp)
      rw [key_inj e x y hx hy h.1, ih ys (fun z hz => ha z (by simp [hz])) (fun z hz => hb z (by simp [hz])) h.2]

/-- on units below 2^31 the signed `wchar_t` order is the unsigned order -/
theorem lexSign_wchar_low (a b : List Nat) (ha : UnitsLt (2 ^ 31) a) (hb : UnitsLt (2 ^ 31) b) :
    lexSign (Elem.key .wchar) a b = lexSign unsignedKey a b := by
  induction a generalizing b with
  | nil => cases b <;> rfl
  | cons x xs ih =>
    cases b with
    | nil => rfl
    | cons y ys =>
      have hx := ha x (by simp)
      have hy := hb y (by simp)
      have kx : Elem.key .wchar x = unsignedKey x := by
        simp only [Elem.key, toSigned, unsignedKey]; split <;> omega
      have ky : Elem.key .wchar y = unsignedKey y := by
        simp only [Elem.key, toSigned, unsignedKey]; split <;> omega
      unfold lexSign
      rw [kx, ky, ih ys (fun z hz => ha z (by simp [hz])) (fun z hz => hb z (by simp [hz]))]

/-! ### hashes and case maps -/

theorem hashI_eq_hash_map (s : List Nat) : hashI s = Compare.hash (s.map lower) := by
  unfold hashI Compare.hash
  rw [List.foldl_map]

theorem upper_spec (c : Nat) : upper c = if isLowerAscii c then c - 32 else c := rfl
theorem lower_spec (c : Nat) : lower c = if isUpperAscii c then c + 32 else c := rfl

end StVerif.Lemmas.Compare
