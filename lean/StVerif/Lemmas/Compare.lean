/-
  Helper lemmas about the comparison core (Model/Compare.lean).
-/
import StVerif.Model.Compare
import StVerif.Lemmas.Search
import StVerif.Lemmas.CompareSpec

namespace StVerif.Lemmas.Compare
open StVerif StVerif.Search StVerif.Compare StVerif.Spec.Search StVerif.Lemmas.Search
open StVerif.Spec.Compare StVerif.Lemmas.CompareSpec

theorem schar_eq_iff (x y : Nat) (hx : x < 256) (hy : y < 256) : schar x = schar y ↔ x = y := by
  unfold schar toSigned
  constructor
  · intro h
    split at h <;> split at h <;> omega
  · intro h; rw [h]

theorem lower_lt (b : Nat) (h : b < 256) : lower b < 256 := by
  unfold lower; split <;> omega

theorem upper_lt (b : Nat) (h : b < 256) : upper b < 256 := by
  unfold upper; split <;> omega

theorem sizeDiffNarrowed_self (n : Nat) : sizeDiffNarrowed n n = 0 := by
  simp [sizeDiffNarrowed, wrap64, toI32]

/-- the traits comparison of two equally long texts is zero exactly for equal texts, wherever the
    element order distinguishes the units involved -/
theorem traitsCompare_eq_zero_iff (e : Elem) (a b : List Nat) (h : a.length = b.length)
    (inj : ∀ x ∈ a, ∀ y ∈ b, e.key x = e.key y → x = y) :
    traitsCompare e a b = 0 ↔ a = b := by
  induction a generalizing b with
  | nil => cases b with
    | nil => simp [traitsCompare]
    | cons y ys => simp at h
  | cons x xs ih =>
    cases b with
    | nil => simp at h
    | cons y ys =>
      simp only [List.length_cons, Nat.add_right_cancel_iff] at h
      unfold traitsCompare
      by_cases h1 : e.key x < e.key y
      · rw [if_pos h1]
        have : x ≠ y := fun e' => by subst e'; omega
        simp [this]
      · rw [if_neg h1]
        by_cases h2 : e.key y < e.key x
        · rw [if_pos h2]
          have : x ≠ y := fun e' => by subst e'; omega
          simp [this]
        · rw [if_neg h2, ih ys h (fun x' hx' y' hy' => inj x' (by simp [hx']) y' (by simp [hy']))]
          have : x = y := inj x (by simp) y (by simp) (by omega)
          simp [this]

theorem key_char (x : Nat) : Elem.key .char x = (x : Int) := rfl

theorem traitsCompare_char_eq_zero_iff (a b : List Nat) (h : a.length = b.length) :
    traitsCompare .char a b = 0 ↔ a = b :=
  traitsCompare_eq_zero_iff .char a b h (fun x _ y _ hk => by rw [key_char, key_char] at hk; exact Int.ofNat.inj hk)

/-- the folded comparison of two equally long byte texts is zero exactly for fold-equal texts -/
theorem compareCi3_eq_zero_iff (a b : List Nat) (h : a.length = b.length) (ha : Bytes a) (hb : Bytes b) :
    compareCi3 a b = 0 ↔ a.map foldAscii = b.map foldAscii := by
  induction a generalizing b with
  | nil => cases b with
    | nil => simp [compareCi3]
    | cons y ys => simp at h
  | cons x xs ih =>
    cases b with
    | nil => simp at h
    | cons y ys =>
      simp only [List.length_cons, Nat.add_right_cancel_iff] at h
      have hx : x < 256 := ha x (by simp)
      have hy : y < 256 := hb y (by simp)
      have hxs : Bytes xs := fun z hz => ha z (by simp [hz])
      have hys : Bytes ys := fun z hz => hb z (by simp [hz])
      unfold compareCi3
      simp only [List.map_cons, List.cons.injEq, ← lower_eq_foldAscii]
      have inj := schar_eq_iff (lower x) (lower y) (lower_lt x hx) (lower_lt y hy)
      by_cases hc : schar (lower x) = schar (lower y)
      · rw [if_neg (by simpa using hc), ih ys h hxs hys]
        simp [inj.1 hc]
      · rw [if_pos hc]
        have : lower x ≠ lower y := fun e => hc (inj.2 e)
        simp [this]; omega

/-! ### the model's prefix comparisons are the Spec's three-way comparison on equally long texts -/

theorem traitsCompare_eq_lexSign (e : Elem) (a b : List Nat) (h : a.length = b.length) :
    traitsCompare e a b = lexSign e.key a b := by
  induction a generalizing b with
  | nil => cases b with
    | nil => rfl
    | cons y ys => simp at h
  | cons x xs ih =>
    cases b with
    | nil => simp at h
    | cons y ys =>
      simp only [List.length_cons, Nat.add_right_cancel_iff] at h
      unfold traitsCompare lexSign
      rw [ih ys h]

/-- the order `compare_ci` sorts by: the folded byte as a signed char -/
def ciKey (x : Nat) : Int := schar (lower x)

theorem compareCi3_sign (a b : List Nat) (h : a.length = b.length) :
    Int.sign (compareCi3 a b) = lexSign ciKey a b := by
  induction a generalizing b with
  | nil => cases b with
    | nil => rfl
    | cons y ys => simp at h
  | cons x xs ih =>
    cases b with
    | nil => simp at h
    | cons y ys =>
      simp only [List.length_cons, Nat.add_right_cancel_iff] at h
      unfold compareCi3 lexSign
      simp only []
      rw [show schar (lower x) = ciKey x from rfl, show schar (lower y) = ciKey y from rfl]
      by_cases h1 : ciKey x < ciKey y
      · have hne : ciKey x ≠ ciKey y := by omega
        rw [if_pos hne, if_pos h1]
        exact Int.sign_eq_neg_one_of_neg (by omega)
      · by_cases h2 : ciKey y < ciKey x
        · have hne : ciKey x ≠ ciKey y := by omega
          rw [if_pos hne, if_neg h1, if_pos h2]
          exact Int.sign_eq_one_of_pos (by omega)
        · have he : ¬ (ciKey x ≠ ciKey y) := by omega
          rw [if_neg he, if_neg h1, if_neg h2]
          exact ih ys h

theorem sign_lexSign (key : Nat → Int) (a b : List Nat) : Int.sign (lexSign key a b) = lexSign key a b := by
  rcases lexSign_range key a b with h | h | h <;> rw [h] <;> rfl

theorem sign_lengthOrder (la lb : Nat) : Int.sign (lengthOrder la lb) = lengthOrder la lb := by
  unfold lengthOrder; split
  · rfl
  · split <;> rfl

theorem take_min_length (a b : List Nat) :
    (a.take (min a.length b.length)).length = (b.take (min a.length b.length)).length := by
  simp only [List.length_take]; omega

/-- the narrowed size difference has the sign of the size comparison as long as the difference fits an `int` -/
theorem sizeDiffNarrowed_sign (ls rs : Nat) (h1 : ls < 2 ^ 64) (h2 : rs < 2 ^ 64)
    (hd : (ls : Int) - rs < 2 ^ 31 ∧ (rs : Int) - ls ≤ 2 ^ 31) :
    Int.sign (sizeDiffNarrowed ls rs) = lengthOrder ls rs := by
  unfold sizeDiffNarrowed wrap64 toI32 lengthOrder
  by_cases hlt : ls < rs
  · rw [if_pos hlt]
    have e : (((ls : Int) - rs) % (2 ^ 64 : Int)).toNat = 2 ^ 64 - (rs - ls) := by omega
    rw [e]
    apply Int.sign_eq_neg_one_of_neg
    split <;> omega
  · rw [if_neg hlt]
    have e : (((ls : Int) - rs) % (2 ^ 64 : Int)).toNat = ls - rs := by omega
    rw [e]
    by_cases hgt : rs < ls
    · rw [if_pos hgt]
      apply Int.sign_eq_one_of_pos
      split <;> omega
    · rw [if_neg hgt]
      have : ls - rs = 0 := by omega
      rw [this]; rfl

end StVerif.Lemmas.Compare
