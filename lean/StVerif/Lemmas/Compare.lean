/-
  Helper lemmas about the comparison core (Model/Compare.lean).
-/
import StVerif.Model.Compare
import StVerif.Lemmas.Search

namespace StVerif.Lemmas.Compare
open StVerif StVerif.Search StVerif.Compare StVerif.Spec.Search StVerif.Lemmas.Search

theorem schar_eq_iff (x y : Nat) (hx : x < 256) (hy : y < 256) : schar x = schar y ↔ x = y := by
  unfold schar toSigned
  constructor
  · intro h
    split at h <;> split at h <;> omega
  · intro h; rw [h]

theorem lower_lt (b : Nat) (h : b < 256) : lower b < 256 := by
  unfold lower; split <;> omega

theorem upper_lt (b : Nat) (h : b < 256) : upper b < 256 := by
  unfold upper; split <;> omega

theorem sizeDiffNarrowed_self (n : Nat) : sizeDiffNarrowed n n = 0 := by
  simp [sizeDiffNarrowed, wrap64, toI32]

/-- the traits comparison of two equally long texts is zero exactly for equal texts, wherever the
    element order distinguishes the units involved -/
theorem traitsCompare_eq_zero_iff (e : Elem) (a b : List Nat) (h : a.length = b.length)
    (inj : ∀ x ∈ a, ∀ y ∈ b, e.key x = e.key y → x = y) :
    traitsCompare e a b = 0 ↔ a = b := by
  induction a generalizing b with
  | nil => cases b with
    | nil => simp [traitsCompare]
    | cons y ys => simp at h
  | cons x xs ih =>
    cases b with
    | nil => simp at h
    | cons y ys =>
      simp only [List.length_cons, Nat.add_right_cancel_iff] at h
      unfold traitsCompare
      by_cases h1 : e.key x < e.key y
      · rw [if_pos h1]
        have : x ≠ y := fun e' => by subst e'; omega
        simp [this]
      · rw [if_neg h1]
        by_cases h2 : e.key y < e.key x
        · rw [if_pos h2]
          have : x ≠ y := fun e' => by subst e'; omega
          simp [this]
        · rw [if_neg h2, ih ys h (fun x' hx' y' hy' => inj x' (by simp [hx']) y' (by simp [hy']))]
          have : x = y := inj x (by simp) y (by simp) (by omega)
          simp [this]

theorem key_char (x : Nat) : Elem.key .char x = (x : Int) := rfl

theorem traitsCompare_char_eq_zero_iff (a b : List Nat) (h : a.length = b.length) :
    traitsCompare .char a b = 0 ↔ a = b :=
  traitsCompare_eq_zero_iff .char a b h (fun x _ y _ hk => by rw [key_char, key_char] at hk; exact Int.ofNat.inj hk)

/-- the folded comparison of two equally long byte texts is zero exactly for fold-equal texts -/
theorem compareCi3_eq_zero_iff (a b : List Nat) (h : a.length = b.length) (ha : Bytes a) (hb : Bytes b) :
    compareCi3 a b = 0 ↔ a.map foldAscii = b.map foldAscii := by
  induction a generalizing b with
  | nil => cases b with
    | nil => simp [compareCi3]
    | cons y ys => simp at h
  | cons x xs ih =>
    cases b with
    | nil => simp at h
    | cons y ys =>
      simp only [List.length_cons, Nat.add_right_cancel_iff] at h
      have hx : x < 256 := ha x (by simp)
      have hy : y < 256 := hb y (by simp)
      have hxs : Bytes xs := fun z hz => ha z (by simp [hz])
      have hys : Bytes ys := fun z hz => hb z (by simp [hz])
      unfold compareCi3
      simp only [List.map_cons, List.cons.injEq, ← lower_eq_foldAscii]
      have inj := schar_eq_iff (lower x) (lower y) (lower_lt x hx) (lower_lt y hy)
      by_cases hc : schar (lower x) = schar (lower y)
      · rw [if_neg (by simpa using hc), ih ys h hxs hys]
        simp [inj.1 hc]
      · rw [if_pos hc]
        have : lower x ≠ lower y := fun e => hc (inj.2 e)
        simp [this]; omega

end StVerif.Lemmas.Compare
