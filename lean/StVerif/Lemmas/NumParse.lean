/-
  The transcription of glibc's strtol (Model/Num.lean) computes the declarative numeral prefix of
  Spec/Digits.lean (`parseSpec`) with the standard saturation: `strtol_eq_spec`, `strtoul_eq_spec`.
-/
import StVerif.Lemmas.Num
namespace StVerif.Lemmas.NumParse
open StVerif StVerif.Num StVerif.Spec.Digits StVerif.Lemmas.Digits StVerif.Lemmas.Num

theorem digitOf_eq_digitVal (c : Nat) : digitOf c = digitVal c := by
  unfold digitOf digitVal isAlpha toUpper
  by_cases h1 : 48 ≤ c ∧ c ≤ 57
  · simp [h1]
  · by_cases h2 : 65 ≤ c ∧ c ≤ 90
    · have : ¬ (97 ≤ c ∧ c ≤ 122) := by omega
      simp [h1, h2, this]; omega
    · by_cases h3 : 97 ≤ c ∧ c ≤ 122
      · simp [h1, h2, h3]; omega
      · simp [h1, h2, h3]

theorem isSpace_eq (c : Nat) : Num.isSpace c = Spec.Digits.isSpace c := rfl

/-- value of a digit run continued from `i` -/
def accum (b : Nat) (run : List Nat) (i : Nat) : Nat := (run.map fun c => (digitVal c).getD 0).foldl (fun acc d => acc * b + d) i

theorem accum_nil (b i : Nat) : accum b [] i = i := rfl
theorem accum_cons (b c : Nat) (run : List Nat) (i : Nat) : accum b (c :: run) i = accum b run (i * b + (digitVal c).getD 0) := rfl

theorem accum_ge (b : Nat) (hb : 1 ≤ b) (run : List Nat) (i : Nat) : i ≤ accum b run i := by
  unfold accum; exact foldl_ge b _ i hb

theorem accum_zero (b : Nat) (run : List Nat) : accum b run 0 = runValue b run := rfl

/-- the number of characters the loop consumes is the length of the longest run of valid digits -/
theorem loop_count (b q r : Nat) : ∀ (s : List Nat) (i n : Nat) (ovf : Bool),
    (strtoLoop b q r s i ovf n).2.2 = n + (s.takeWhile (isDigitOf b)).length := by
  intro s
  induction s with
  | nil => intro i n ovf; simp [strtoLoop]
  | cons c rest ih =>
    intro i n ovf
    unfold strtoLoop
    rw [digitOf_eq_digitVal]
    cases hd : digitVal c with
    | none => simp [isDigitOf, hd]
    | some d =>
      simp only []
      by_cases hlt : d ≥ b
      · simp [isDigitOf, hd, hlt]
      · have hlt' : d < b := by omega
        rw [if_neg hlt]
        split
        · rw [ih]; simp [isDigitOf, hd, hlt']; omega
        · rw [ih]; simp [isDigitOf, hd, hlt']; omega

/-- once set, the overflow flag stays set -/
theorem loop_ovf_mono (b q r : Nat) : ∀ (s : List Nat) (i n : Nat), (strtoLoop b q r s i true n).2.1 = true := by
  intro s
  induction s with
  | nil => intro i n; simp [strtoLoop]
  | cons c rest ih =>
    intro i n
    unfold strtoLoop
    split
    · rfl
    · split
      · rfl
      · split
        · exact ih _ _
        · exact ih _ _

/-- if the value of the whole run fits an `unsigned long`, the loop computes it and leaves the flag alone -/
theorem loop_fits (b : Nat) (hb : 2 ≤ b) : ∀ (s : List Nat) (i n : Nat) (ovf : Bool),
    accum b (s.takeWhile (isDigitOf b)) i ≤ ULONG_MAX →
    strtoLoop b (ULONG_MAX / b) (ULONG_MAX % b) s i ovf n =
      (accum b (s.takeWhile (isDigitOf b)) i, ovf, n + (s.takeWhile (isDigitOf b)).length) := by
  intro s
  induction s with
  | nil => intro i n ovf _; simp [strtoLoop, accum]
  | cons c rest ih =>
    intro i n ovf hle
    unfold strtoLoop
    rw [digitOf_eq_digitVal]
    cases hd : digitVal c with
    | none => simp [isDigitOf, hd, accum]
    | some d =>
      simp only []
      by_cases hlt : d ≥ b
      · simp [isDigitOf, hd, hlt, accum]
      · have hlt' : d < b := by omega
        have htw : (c :: rest).takeWhile (isDigitOf b) = c :: rest.takeWhile (isDigitOf b) := by
          simp [isDigitOf, hd, hlt']
        rw [htw, accum_cons, hd] at hle
        simp only [Option.getD_some] at hle
        have hstep : i * b + d ≤ ULONG_MAX := Nat.le_trans (accum_ge b (by omega) _ _) hle
        rw [if_neg hlt, if_neg (no_overflow_step b i d hb hstep), ih _ _ _ hle, htw, accum_cons, hd]
        simp only [Option.getD_some, List.length_cons]
        congr 2; omega

/-- if it does not fit, the loop reports overflow -/
theorem loop_overflows (b : Nat) (hb : 2 ≤ b) : ∀ (s : List Nat) (i n : Nat) (ovf : Bool),
    accum b (s.takeWhile (isDigitOf b)) i > ULONG_MAX → i ≤ ULONG_MAX →
    (strtoLoop b (ULONG_MAX / b) (ULONG_MAX % b) s i ovf n).2.1 = true := by
  intro s
  induction s with
  | nil => intro i n ovf hgt hi; simp [accum] at hgt; omega
  | cons c rest ih =>
    intro i n ovf hgt hi
    unfold strtoLoop
    rw [digitOf_eq_digitVal]
    cases hd : digitVal c with
    | none => simp [isDigitOf, hd, accum] at hgt; omega
    | some d =>
      simp only []
      by_cases hlt : d ≥ b
      · simp [isDigitOf, hd, hlt, accum] at hgt; omega
      · have hlt' : d < b := by omega
        have htw : (c :: rest).takeWhile (isDigitOf b) = c :: rest.takeWhile (isDigitOf b) := by
          simp [isDigitOf, hd, hlt']
        rw [htw, accum_cons, hd] at hgt
        simp only [Option.getD_some] at hgt
        rw [if_neg hlt]
        split
        · exact loop_ovf_mono _ _ _ _ _ _
        · rename_i hno
          exact ih _ _ _ hgt (step_fits b i d hb hlt' hno)


/-- the model's counterpart on the text after white space and sign:
    `(conv, i, overflow, characters consumed)`; on `noconv` the last component is 1 exactly when a `0x` was skipped -/
def scanBody (base : Nat) (r : List Nat) : Bool × Nat × Bool × Nat :=
  let bp := basePrefix base r
  let L := strtoLoop bp.1 (ULONG_MAX / bp.1) (ULONG_MAX % bp.1) (r.drop bp.2) 0 false 0
  if L.2.2 = 0 then (false, 0, false, if bp.2 = 2 then 1 else 0) else (true, L.1, L.2.1, bp.2 + L.2.2)

theorem isX_iff (x : Nat) : isX x = true ↔ toUpper x = 88 := by
  unfold isX toUpper
  by_cases h : 97 ≤ x ∧ x ≤ 122
  · simp [h]; omega
  · simp [h]; omega

theorem x_not_digit16 (x : Nat) (h : toUpper x = 88) (b : Nat) (hb : b ≤ 16) : isDigitOf b x = false := by
  have hx : x = 88 ∨ x = 120 := by
    unfold toUpper at h; split at h <;> omega
  rcases hx with rfl | rfl <;> simp [isDigitOf, digitVal] <;> omega

theorem zero_is_digit (b : Nat) (hb : 2 ≤ b) : isDigitOf b 48 = true := by
  simp [isDigitOf, digitVal]; omega

/-- relation between the two "bodies" for a legal base -/
theorem scanBody_spec (base : Nat) (hbase : base = 0 ∨ (2 ≤ base ∧ base ≤ 36)) (r : List Nat) :
    match numeralBody base r with
    | none => scanBody base r = (false, 0, false, 0)
    | some (m, k) =>
        (scanBody base r = (false, 0, false, 1) ∧ m = 0 ∧ k = 1 ∧ (basePrefix base r).2 = 2) ∨
        (∃ i ovf, scanBody base r = (true, i, ovf, k) ∧ (m ≤ ULONG_MAX → i = m ∧ ovf = false) ∧ (m > ULONG_MAX → ovf = true)) := by
  -- generic treatment of "loop over `body` in base `b`" once prefix handling is settled
  have generic : ∀ (b skip : Nat) (body : List Nat), 2 ≤ b →
      let L := strtoLoop b (ULONG_MAX / b) (ULONG_MAX % b) body 0 false 0
      let run := body.takeWhile (isDigitOf b)
      L.2.2 = run.length ∧ (runValue b run ≤ ULONG_MAX → L.1 = runValue b run ∧ L.2.1 = false) ∧ (runValue b run > ULONG_MAX → L.2.1 = true) := by
    intro b skip body hb
    refine ⟨by simpa using loop_count b _ _ body 0 0 false, fun h => ?_, fun h => ?_⟩
    · have := loop_fits b hb body 0 0 false (by rw [accum_zero]; exact h)
      rw [this, accum_zero]; exact ⟨rfl, rfl⟩
    · exact loop_overflows b hb body 0 0 false (by rw [accum_zero]; exact h) (by simp)
  by_cases hP : r.head? = some 48 ∧ (base = 0 ∨ base = 16) ∧ toUpper (r.getD 1 0) = 88
  · obtain ⟨h0, hb16, hx⟩ := hP
    -- r = '0' :: x :: rest
    match r, h0, hx with
    | [_], _, hx => simp [toUpper] at hx
    | c :: x :: rest, h0, hx =>
      have hc : c = 48 := by simpa using h0
      subst hc
      have hx' : toUpper x = 88 := by simpa using hx
      have hbp : basePrefix base (48 :: x :: rest) = (16, 2) := by
        unfold basePrefix; simp [hb16, hx']
      by_cases hd : ∃ d rest', rest = d :: rest' ∧ isDigitOf 16 d = true
      · obtain ⟨d, rest', rfl, hdd⟩ := hd
        have hhex : hasHexPrefix base (48 :: x :: d :: rest') = true := by
          have := (isX_iff x).mpr hx'
          unfold hasHexPrefix
          rcases hb16 with h | h <;> simp [h, this, hdd]
        have hb : effectiveBase base (48 :: x :: d :: rest') = 16 := by
          unfold effectiveBase; rw [hhex]; rcases hb16 with h | h <;> simp [h]
        obtain ⟨g1, g2, g3⟩ := generic 16 2 (d :: rest') (by omega)
        have hrun : (d :: rest').takeWhile (isDigitOf 16) ≠ [] := by simp [hdd]
        have hlen : ((d :: rest').takeWhile (isDigitOf 16)).length ≠ 0 := fun h => hrun (List.eq_nil_of_length_eq_zero h)
        simp only [numeralBody, hhex, if_true, hb, List.drop_succ_cons, List.drop_zero]
        rw [if_neg (by simpa using hrun)]
        simp only []
        right
        refine ⟨_, _, ?_, g2, g3⟩
        simp only [scanBody, hbp, List.drop_succ_cons, List.drop_zero]
        rw [if_neg (by rw [g1]; exact hlen), g1]
      · -- "0x" not followed by a hexadecimal digit: the numeral is the "0"
        have hnd : (rest.takeWhile (isDigitOf 16)) = [] := by
          cases rest with
          | nil => rfl
          | cons d rest' =>
            have : isDigitOf 16 d = false := by
              cases h : isDigitOf 16 d with
              | false => rfl
              | true => exact absurd ⟨d, rest', rfl, h⟩ hd
            simp [this]
        have hhex : hasHexPrefix base (48 :: x :: rest) = false := by
          unfold hasHexPrefix
          cases rest with
          | nil => simp
          | cons d rest' =>
            have : isDigitOf 16 d = false := by
              cases h : isDigitOf 16 d with
              | false => rfl
              | true => exact absurd ⟨d, rest', rfl, h⟩ hd
            simp [this]
        obtain ⟨g1, _, _⟩ := generic 16 2 rest (by omega)
        have hb : 2 ≤ effectiveBase base (48 :: x :: rest) ∧ effectiveBase base (48 :: x :: rest) ≤ 16 := by
          unfold effectiveBase; rw [hhex]; rcases hb16 with h | h <;> simp [h]
        have hrun : (48 :: x :: rest).takeWhile (isDigitOf (effectiveBase base (48 :: x :: rest))) = [48] := by
          simp [zero_is_digit _ hb.1, x_not_digit16 x hx' _ hb.2]
        simp only [numeralBody, hhex, Bool.false_eq_true, if_false, hrun]
        simp only [List.isEmpty_cons, Bool.false_eq_true, if_false]
        left
        refine ⟨?_, by simp [runValue, ofDigits, digitVal], by simp, by rw [hbp]⟩
        simp only [scanBody, hbp, List.drop_succ_cons, List.drop_zero]
        rw [if_pos (by rw [g1, hnd]; rfl)]
        simp
  · -- no prefix is skipped
    have hhex : hasHexPrefix base r = false := by
      unfold hasHexPrefix
      match r, hP with
      | [], _ => simp
      | [_], _ => simp
      | [a, b'], _ =>
        by_cases ha : a = 48
        · subst ha; simp
        · simp
      | a :: x :: d :: rest, hP =>
        by_cases ha : a = 48
        · subst ha
          by_cases hb : base = 0 ∨ base = 16
          · have hx : toUpper x ≠ 88 := fun h => hP ⟨rfl, hb, by simpa using h⟩
            have : isX x = false := by
              cases h : isX x with
              | false => rfl
              | true => exact absurd ((isX_iff x).mp h) hx
            simp [this]
          · have : (base == 0 || base == 16) = false := by simp; omega
            simp [this]
        · simp [ha]
    have hbp : basePrefix base r = (effectiveBase base r, 0) ∧ 2 ≤ effectiveBase base r := by
      unfold basePrefix effectiveBase
      rw [hhex]
      by_cases h48 : r.head? = some 48
      · have hne : ¬ ((base = 0 ∨ base = 16) ∧ toUpper (r.getD 1 0) = 88) := fun h => hP ⟨h48, h.1, h.2⟩
        rw [if_pos h48, if_neg hne]
        match r, h48 with
        | c :: rest, h48 =>
          have : c = 48 := by simpa using h48
          subst this
          by_cases hb0 : base = 0
          · simp [hb0]
          · simp [hb0]; omega
      · rw [if_neg h48]
        by_cases hb0 : base = 0
        · match r, h48 with
          | [], _ => simp [hb0]
          | c :: rest, h48 =>
            have : c ≠ 48 := by simpa using h48
            simp [hb0, this]
        · simp [hb0]; omega
    obtain ⟨hbpe, hb2⟩ := hbp
    obtain ⟨g1, g2, g3⟩ := generic (effectiveBase base r) 0 r hb2
    simp only [numeralBody, hhex, Bool.false_eq_true, if_false]
    by_cases hrun : r.takeWhile (isDigitOf (effectiveBase base r)) = []
    · rw [if_pos (by simp [hrun])]
      simp only [scanBody, hbpe, List.drop_zero]
      rw [if_pos (by rw [g1, hrun]; rfl)]
      simp
    · rw [if_neg (by simpa using hrun)]
      simp only []
      right
      have hlen : (r.takeWhile (isDigitOf (effectiveBase base r))).length ≠ 0 := fun h => hrun (List.eq_nil_of_length_eq_zero h)
      refine ⟨_, _, ?_, g2, g3⟩
      simp only [scanBody, hbpe, List.drop_zero]
      rw [if_neg (by rw [g1]; exact hlen), g1]


theorem isSpace_fun_eq : Num.isSpace = Spec.Digits.isSpace := by funext c; rfl

theorem takeWhile_getD {α : Type} (p : α → Bool) (d : α) : ∀ (l : List α) (i : Nat), i < (l.takeWhile p).length → p (l.getD i d) = true := by
  intro l
  induction l with
  | nil => intro i h; simp at h
  | cons a t ih =>
    intro i h
    by_cases ha : p a = true
    · simp only [List.takeWhile_cons, ha, if_true, List.length_cons] at h
      cases i with
      | zero => simpa using ha
      | succ j => simpa using ih j (by omega)
    · simp [ha] at h

theorem getD_drop (l : List Nat) (a j : Nat) : (l.drop a).getD j 0 = l.getD (a + j) 0 := by
  simp [List.getD_eq_getElem?_getD, List.getElem?_drop]

theorem space_not_x (c : Nat) (h : Spec.Digits.isSpace c = true) : toUpper c ≠ 88 := by
  unfold Spec.Digits.isSpace at h
  unfold toUpper
  simp at h
  split <;> omega

theorem signAt_eq_signOf (c0 : Nat) (t : List Nat) : signAt c0 = signOf (c0 :: t) := by
  unfold signAt signOf
  by_cases h1 : c0 = 45
  · subst h1; rfl
  · by_cases h2 : c0 = 43
    · subst h2; rfl
    · simp [h1, h2]

theorem basePrefix_two (base : Nat) (r : List Nat) (h : (basePrefix base r).2 = 2) :
    r.getD 0 0 = 48 ∧ toUpper (r.getD 1 0) = 88 := by
  unfold basePrefix at h
  split at h
  · rename_i h48
    split at h
    · rename_i hc
      refine ⟨?_, hc.2⟩
      cases r with
      | nil => simp at h48
      | cons a t => simpa using h48
    · split at h <;> simp at h
  · split at h <;> simp at h

theorem basePrefix_zero_or_two (base : Nat) (r : List Nat) : (basePrefix base r).2 = 0 ∨ (basePrefix base r).2 = 2 := by
  unfold basePrefix
  split
  · split
    · right; rfl
    · split <;> (left; rfl)
  · split <;> (left; rfl)

/-- the scan of the model against the declarative numeral, on any text -/
theorem strtoScan_spec (base : Nat) (hbase : base = 0 ∨ (2 ≤ base ∧ base ≤ 36)) (s : List Nat) :
    (strtoScan s base).endp = (parseCore base s).consumed ∧
    ((strtoScan s base).conv = false → (parseCore base s).magnitude = 0) ∧
    ((strtoScan s base).conv = true →
      (strtoScan s base).negative = (parseCore base s).negative ∧
      ((parseCore base s).magnitude ≤ ULONG_MAX → (strtoScan s base).i = (parseCore base s).magnitude ∧ (strtoScan s base).overflow = false) ∧
      ((parseCore base s).magnitude > ULONG_MAX → (strtoScan s base).overflow = true)) := by
  obtain ⟨p0, hp0⟩ : ∃ p0, (List.takeWhile Spec.Digits.isSpace s).length = p0 := ⟨_, rfl⟩
  unfold strtoScan parseCore
  rw [isSpace_fun_eq]
  simp only [hp0]
  cases hr : s.drop p0 with
  | nil =>
    have : numeralBody base ([] : List Nat) = none := by
      simp [numeralBody, hasHexPrefix]
    simp [signOf, this]
  | cons c0 t =>
    simp only []
    rw [signAt_eq_signOf c0 t]
    generalize hsg : signOf (c0 :: t) = sg
    have hsg2 : sg.2 ≤ 1 := by rw [← hsg, ← signAt_eq_signOf]; exact signAt_skip_le c0
    have hdrop : s.drop (p0 + sg.2) = (c0 :: t).drop sg.2 := by rw [← hr, List.drop_drop]
    rw [hdrop]
    generalize hr2 : (c0 :: t).drop sg.2 = r2
    have hdrop2 : ∀ k, s.drop (p0 + sg.2 + k) = r2.drop k := by
      intro k; rw [← hr2, ← hdrop, List.drop_drop]
    rw [hdrop2]
    have hspec := scanBody_spec base hbase r2
    have hgetD : ∀ j, s.getD (p0 + sg.2 + j) 0 = r2.getD j 0 := by
      intro j; rw [← getD_drop, hdrop, hr2]
    -- the character before the digits part is white space or a sign, never an 'x'
    have hbefore : p0 + sg.2 ≥ 1 → toUpper (s.getD (p0 + sg.2 - 1) 0) ≠ 88 := by
      intro hge
      by_cases h1 : sg.2 = 1
      · have hc : s.getD p0 0 = c0 := by
          have := getD_drop s p0 0; rw [hr] at this; simpa using this.symm
        rw [h1, show p0 + 1 - 1 = p0 by omega, hc]
        have : c0 = 45 ∨ c0 = 43 := by
          rw [← hsg] at h1
          unfold signOf at h1
          by_cases a : c0 = 45
          · exact Or.inl a
          · by_cases b : c0 = 43
            · exact Or.inr b
            · simp [a, b] at h1
        unfold toUpper; rcases this with h | h <;> (subst h; decide)
      · have h0 : sg.2 = 0 := by omega
        rw [h0, Nat.add_zero]
        have := takeWhile_getD Spec.Digits.isSpace 0 s (p0 - 1) (by rw [hp0]; omega)
        exact space_not_x _ this
    generalize hbp : basePrefix base r2 = bp at *
    generalize hL : strtoLoop bp.1 (ULONG_MAX / bp.1) (ULONG_MAX % bp.1) (r2.drop bp.2) 0 false 0 = L at *
    have hsb : scanBody base r2 = if L.2.2 = 0 then (false, 0, false, if bp.2 = 2 then 1 else 0) else (true, L.1, L.2.1, bp.2 + L.2.2) := by
      unfold scanBody; rw [hbp]; simp only []; rw [hL]
    cases hnb : numeralBody base r2 with
    | none =>
      rw [hnb] at hspec
      simp only [] at hspec
      rw [hsb] at hspec
      by_cases hz : L.2.2 = 0
      · rw [if_pos hz] at hspec
        have hbp2 : bp.2 ≠ 2 := by
          intro h; rw [if_pos h] at hspec; simp at hspec
        have hbp0 : bp.2 = 0 := by
          have := basePrefix_zero_or_two base r2; rw [hbp] at this; omega
        rw [if_pos hz]
        simp only [hbp0, Nat.add_zero]
        refine ⟨?_, fun _ => trivial, fun h => by simp at h⟩
        rw [if_neg]
        intro hc
        exact hbefore (by omega) hc.2.1
      · rw [if_neg hz] at hspec; simp at hspec
    | some mk =>
      obtain ⟨m, k⟩ := mk
      rw [hnb] at hspec
      simp only [] at hspec
      rw [hsb] at hspec
      rcases hspec with ⟨h1, hm, hk, hb2⟩ | ⟨i, ovf, h1, h2, h3⟩
      · by_cases hz : L.2.2 = 0
        · rw [if_pos hz]
          have hpre := basePrefix_two base r2 (by rw [hbp]; exact hb2)
          simp only [hb2, hm, hk]
          refine ⟨?_, fun _ => trivial, fun h => by simp at h⟩
          rw [if_pos]
          · omega
          · refine ⟨by omega, ?_, ?_⟩
            · rw [show p0 + sg.2 + 2 - 1 = p0 + sg.2 + 1 by omega, hgetD]; exact hpre.2
            · rw [show p0 + sg.2 + 2 - 2 = p0 + sg.2 + 0 by omega, hgetD]; exact hpre.1
        · rw [if_neg hz] at h1; simp at h1
      · by_cases hz : L.2.2 = 0
        · rw [if_pos hz] at h1; simp at h1
        · rw [if_neg hz] at h1
          rw [if_neg hz]
          simp only [Prod.mk.injEq, true_and] at h1
          obtain ⟨hi, ho, hk⟩ := h1
          simp only []
          refine ⟨by omega, fun h => by simp at h, fun _ => ⟨trivial, ?_, ?_⟩⟩
          · intro hle; rw [hi, ho]; exact h2 hle
          · intro hgt; rw [ho]; exact h3 hgt


/-- glibc's `strtol` (as transcribed) returns the clamped value of the declarative numeral prefix and stores
    its length through `endptr`, for every text and every legal base -/
theorem strtol_eq_spec (base : Nat) (hbase : base = 0 ∨ (2 ≤ base ∧ base ≤ 36)) (s : List Nat) :
    (strtol s base).value = clampSigned 64 (parseSpec base s) ∧ (strtol s base).endp = (parseSpec base s).consumed := by
  obtain ⟨hend, hnc, hc⟩ := strtoScan_spec base hbase (cstr s)
  have hcs : parseSpec base s = parseCore base (cstr s) := rfl
  rw [hcs]
  refine ⟨?_, by rw [strtol_endp]; exact hend⟩
  generalize parseCore base (cstr s) = n at *
  unfold strtol
  generalize strtoScan (cstr s) base = sc at *
  simp only []
  cases hconv : sc.conv with
  | false =>
    have hm := hnc hconv
    simp [clampSigned, hm]
  | true =>
    obtain ⟨hneg, hfit, hbig⟩ := hc hconv
    simp only [Bool.not_true, Bool.false_eq_true, if_false]
    by_cases hM : n.magnitude ≤ ULONG_MAX
    · obtain ⟨hi, ho⟩ := hfit hM
      rw [ho, hi, hneg]
      unfold ULONG_MAX at hM
      cases hn : n.negative with
      | true =>
        simp only [if_true, Bool.false_or]
        by_cases hlim : n.magnitude > 2 ^ 63
        · simp [hlim, clampSigned, hn, LONG_MIN]; omega
        · simp [hlim, clampSigned, hn, toSigned, wrapW]; omega
      | false =>
        simp only [Bool.false_eq_true, if_false, Bool.false_or]
        by_cases hlim : n.magnitude > 2 ^ 63 - 1
        · simp [hlim, clampSigned, hn, LONG_MAX]; omega
        · simp [hlim, clampSigned, hn, toSigned]; omega
    · have ho := hbig (by omega)
      rw [ho, hneg]
      unfold ULONG_MAX at hM
      cases hn : n.negative with
      | true => simp [clampSigned, hn, LONG_MIN]; omega
      | false => simp [clampSigned, hn, LONG_MAX]; omega

theorem strtoul_endp (s : List Nat) (base : Nat) : (strtoul s base).endp = (strtoScan (cstr s) base).endp := by
  unfold strtoul
  simp only []
  split
  · rfl
  · split <;> rfl

theorem strtoul_eq_spec (base : Nat) (hbase : base = 0 ∨ (2 ≤ base ∧ base ≤ 36)) (s : List Nat) :
    (strtoul s base).value = clampUnsigned 64 (parseSpec base s) ∧ (strtoul s base).endp = (parseSpec base s).consumed := by
  obtain ⟨hend, hnc, hc⟩ := strtoScan_spec base hbase (cstr s)
  have hcs : parseSpec base s = parseCore base (cstr s) := rfl
  rw [hcs]
  refine ⟨?_, by rw [strtoul_endp]; exact hend⟩
  generalize parseCore base (cstr s) = n at *
  unfold strtoul
  generalize strtoScan (cstr s) base = sc at *
  simp only []
  cases hconv : sc.conv with
  | false =>
    have hm := hnc hconv
    simp [clampUnsigned, hm]
  | true =>
    obtain ⟨hneg, hfit, hbig⟩ := hc hconv
    simp only [Bool.not_true, Bool.false_eq_true, if_false]
    by_cases hM : n.magnitude ≤ ULONG_MAX
    · obtain ⟨hi, ho⟩ := hfit hM
      rw [ho, hi, hneg]
      unfold ULONG_MAX at hM
      have hnot : ¬ (18446744073709551615 < n.magnitude) := by omega
      cases hn : n.negative with
      | true => simp [clampUnsigned, wrapW, hn, hnot]; omega
      | false => simp [clampUnsigned, hn, hnot]
    · have ho := hbig (by omega)
      rw [ho]
      unfold ULONG_MAX at hM ⊢
      simp [clampUnsigned]; omega

end StVerif.Lemmas.NumParse
