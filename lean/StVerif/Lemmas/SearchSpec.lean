/-
  Facts about the Spec of searching alone (no model): the executable forms `findRef` / `findLastRef`
  used by the driver satisfy the declarative predicates `IsFind` / `IsFindLast`, and those predicates
  determine their answer uniquely.
-/
import StVerif.Spec.Search

namespace StVerif.Lemmas.SearchSpec
open StVerif StVerif.Search StVerif.Spec.Search

theorem leastFrom_some (p : Nat → Bool) (fuel i r : Nat) (h : leastFrom p fuel i = some r) :
    i ≤ r ∧ r < i + fuel ∧ p r = true ∧ ∀ j, i ≤ j → j < r → p j = false := by
  induction fuel generalizing i with
  | zero => simp [leastFrom] at h
  | succ fuel ih =>
    unfold leastFrom at h
    by_cases hp : p i = true
    · rw [if_pos hp] at h
      have : i = r := by simpa using h
      subst this
      exact ⟨Nat.le_refl _, by omega, hp, fun j h1 h2 => by omega⟩
    · rw [if_neg hp] at h
      obtain ⟨a, b, c, d⟩ := ih (i + 1) h
      refine ⟨by omega, by omega, c, ?_⟩
      intro j h1 h2
      by_cases e : j = i
      · subst e; simpa using hp
      · exact d j (by omega) h2

theorem leastFrom_none (p : Nat → Bool) (fuel i : Nat) (h : leastFrom p fuel i = none) :
    ∀ j, i ≤ j → j < i + fuel → p j = false := by
  induction fuel generalizing i with
  | zero => intro j h1 h2; omega
  | succ fuel ih =>
    unfold leastFrom at h
    by_cases hp : p i = true
    · rw [if_pos hp] at h; cases h
    · rw [if_neg hp] at h
      intro j h1 h2
      by_cases e : j = i
      · subst e; simpa using hp
      · exact ih (i + 1) h j (by omega) (by omega)

theorem greatestBelow_some (p : Nat → Bool) (n r : Nat) (h : greatestBelow p n = some r) :
    r < n ∧ p r = true ∧ ∀ j, r < j → j < n → p j = false := by
  induction n with
  | zero => simp [greatestBelow] at h
  | succ n ih =>
    unfold greatestBelow at h
    by_cases hp : p n = true
    · rw [if_pos hp] at h
      have : n = r := by simpa using h
      subst this
      exact ⟨by omega, hp, fun j h1 h2 => by omega⟩
    · rw [if_neg hp] at h
      obtain ⟨a, b, c⟩ := ih h
      refine ⟨by omega, b, ?_⟩
      intro j h1 h2
      by_cases e : j = n
      · subst e; simpa using hp
      · exact c j h1 (by omega)

theorem greatestBelow_none (p : Nat → Bool) (n : Nat) (h : greatestBelow p n = none) :
    ∀ j, j < n → p j = false := by
  induction n with
  | zero => intro j h1; omega
  | succ n ih =>
    unfold greatestBelow at h
    by_cases hp : p n = true
    · rw [if_pos hp] at h; cases h
    · rw [if_neg hp] at h
      intro j h1
      by_cases e : j = n
      · subst e; simpa using hp
      · exact ih h j (by omega)

/-- the executable `findRef` satisfies the declarative predicate -/
theorem findRef_isFind (cs : CaseMode) (hay : List Nat) (start : Nat) (needle : List Nat) :
    IsFind cs hay start needle (findRef cs hay start needle) := by
  unfold findRef
  by_cases h0 : needle = [] ∨ hay.length ≤ start
  · rw [if_pos h0]
    refine Or.inr ⟨rfl, ?_⟩
    rcases h0 with h | h
    · exact Or.inl h
    · exact Or.inr (Or.inl h)
  · rw [if_neg h0]
    have hne : needle ≠ [] := fun h => h0 (Or.inl h)
    have hst : start < hay.length := by omega
    split
    · next i hi =>
      obtain ⟨a, b, c, d⟩ := leastFrom_some _ _ _ _ hi
      refine Or.inl ⟨i, rfl, hne, hst, a, by simpa using c, ?_⟩
      intro j h1 h2
      simpa using d j h1 h2
    · next hi =>
      refine Or.inr ⟨rfl, Or.inr (Or.inr ?_)⟩
      intro j h1 ho
      have := leastFrom_none _ _ _ hi j h1 (by have := ho.1; omega)
      simp [ho] at this

/-- `IsFind` has at most one answer -/
theorem isFind_unique (cs : CaseMode) (hay : List Nat) (start : Nat) (needle : List Nat) (r r' : Int)
    (h : IsFind cs hay start needle r) (h' : IsFind cs hay start needle r') : r = r' := by
  rcases h with ⟨i, e, hne, hst, hle, ho, hm⟩ | ⟨e, hn⟩ <;> rcases h' with ⟨i', e', hne', hst', hle', ho', hm'⟩ | ⟨e', hn'⟩
  · have h1 : ¬ i < i' := fun hlt => hm' i hle hlt ho
    have h2 : ¬ i' < i := fun hlt => hm i' hle' hlt ho'
    have : i = i' := by omega
    subst this; rw [e, e']
  · rcases hn' with h | h | h
    · exact absurd h hne
    · omega
    · exact absurd ho (h i hle)
  · rcases hn with h | h | h
    · exact absurd h hne'
    · omega
    · exact absurd ho' (h i' hle')
  · rw [e, e']

theorem isFind_iff_findRef (cs : CaseMode) (hay : List Nat) (start : Nat) (needle : List Nat) (r : Int) :
    IsFind cs hay start needle r ↔ r = findRef cs hay start needle :=
  ⟨fun h => isFind_unique _ _ _ _ _ _ h (findRef_isFind ..), fun h => h ▸ findRef_isFind ..⟩

theorem findLastRef_isFindLast (cs : CaseMode) (hay : List Nat) (max : Nat) (needle : List Nat) :
    IsFindLast cs hay max needle (findLastRef cs hay max needle) := by
  unfold findLastRef
  by_cases h0 : needle = []
  · rw [if_pos h0]; exact Or.inr ⟨rfl, Or.inl h0⟩
  · rw [if_neg h0]
    split
    · next i hi =>
      obtain ⟨a, b, c⟩ := greatestBelow_some _ _ _ hi
      have b' : i + needle.length ≤ max ∧ occursAt cs hay needle i := by simpa using b
      refine Or.inl ⟨i, rfl, h0, b'.1, b'.2, ?_⟩
      intro j h1 h2 ho
      have := c j h1 (by have := ho.1; omega)
      simp [ho, h2] at this
    · next hi =>
      refine Or.inr ⟨rfl, Or.inr ?_⟩
      intro j h1 ho
      have := greatestBelow_none _ _ hi j (by have := ho.1; omega)
      simp [ho, h1] at this

theorem isFindLast_unique (cs : CaseMode) (hay : List Nat) (max : Nat) (needle : List Nat) (r r' : Int)
    (h : IsFindLast cs hay max needle r) (h' : IsFindLast cs hay max needle r') : r = r' := by
  rcases h with ⟨i, e, hne, hle, ho, hm⟩ | ⟨e, hn⟩ <;> rcases h' with ⟨i', e', hne', hle', ho', hm'⟩ | ⟨e', hn'⟩
  · have h1 : ¬ i < i' := fun hlt => hm i' hlt hle' ho'
    have h2 : ¬ i' < i := fun hlt => hm' i hlt hle ho
    have : i = i' := by omega
    subst this; rw [e, e']
  · rcases hn' with h | h
    · exact absurd h hne
    · exact absurd ho (h i hle)
  · rcases hn with h | h
    · exact absurd h hne'
    · exact absurd ho' (h i' hle')
  · rw [e, e']

theorem isFindLast_iff_findLastRef (cs : CaseMode) (hay : List Nat) (max : Nat) (needle : List Nat) (r : Int) :
    IsFindLast cs hay max needle r ↔ r = findLastRef cs hay max needle :=
  ⟨fun h => isFindLast_unique _ _ _ _ _ _ h (findLastRef_isFindLast ..), fun h => h ▸ findLastRef_isFindLast ..⟩

/-! ### case-insensitive = case-sensitive on folded text -/

theorem norm_insensitive_eq (xs : List Nat) : norm .insensitive xs = norm .sensitive (xs.map foldAscii) := rfl

theorem occursAt_fold (hay needle : List Nat) (i : Nat) :
    occursAt .insensitive hay needle i ↔ occursAt .sensitive (hay.map foldAscii) (needle.map foldAscii) i := by
  simp only [occursAt, window, norm, List.length_map, List.map_take, List.map_drop]

theorem foldAscii_eq_zero (c : Nat) : foldAscii c = 0 ↔ c = 0 := by
  unfold foldAscii; split <;> omega

theorem cstr_map_fold (p : List Nat) : cstr (p.map foldAscii) = (cstr p).map foldAscii := by
  induction p with
  | nil => rfl
  | cons c rest ih =>
    simp only [cstr, List.map_cons, List.takeWhile_cons] at *
    have := foldAscii_eq_zero c
    by_cases hc : c = 0
    · subst hc; simp [foldAscii]
    · have h2 : foldAscii c ≠ 0 := fun h => hc (this.1 h)
      simp [hc, h2]
      simpa using ih

end StVerif.Lemmas.SearchSpec
