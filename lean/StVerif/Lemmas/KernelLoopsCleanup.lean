/-
  Bridge for the translated `cleanup_utf8` (include/st_utf_conv_priv.h as written by tools/gen_kernels.py):
  the translated loop, run over a whole source with enough fuel, stores the model's `cleanupUtf8` and returns its
  length; run with a null output pointer (the sizing pass) it stores nothing and returns the same length.  In
  particular neither pass reads outside the source, and the sizing pass returns exactly the number of units the
  filling pass stores.
-/
import StVerif.Lemmas.KernelLoops
open StVerif StVerif.Cxx StVerif.Generated StVerif.Utf

namespace StVerif.KernelBridge

theorem cleanupUtf8_nil : cleanupUtf8 [] = [] := by simp [cleanupUtf8]

/-- what the translated loop returns when it starts with the count `acc` and the stored prefix `out` and the rest of the
    source cleans up to `x` (`nul` = null output pointer: only counted) -/
def cleanupRes (nul : Bool) (acc : Nat) (out x : List Nat) : M (Nat × List Nat) :=
  .ok (acc + x.length, if nul then out else out ++ x)

theorem cleanupRes_app_false (acc : Nat) (out us x : List Nat) :
    cleanupRes false (acc + us.length) (out ++ us) x = cleanupRes false acc out (us ++ x) := by
  simp [cleanupRes, List.length_append, Nat.add_assoc, List.append_assoc]

theorem cleanupRes_app_true (acc : Nat) (out us x : List Nat) :
    cleanupRes true (acc + us.length) out x = cleanupRes true acc out (us ++ x) := by
  simp [cleanupRes, List.length_append, Nat.add_assoc]

theorem cleanupRes_nil (nul : Bool) (acc : Nat) (out : List Nat) : cleanupRes nul acc out [] = .ok (acc, out) := by
  cases nul <;> simp [cleanupRes]

/-- `if a ∨ b` as the cascade of tests the C++ code writes -/
theorem ite_or_cascade {α : Type} (a b : Prop) [Decidable a] [Decidable b] (x y : α) :
    (if a ∨ b then x else y) = if a then x else if b then x else y := by
  by_cases ha : a <;> by_cases hb : b <;> simp [ha, hb]

theorem cleanup_append_chars1_false : Kernels.cleanup_utf8_append_chars1 false 0 = .ok (3, [239, 191, 189]) := rfl
theorem cleanup_append_chars1_true : Kernels.cleanup_utf8_append_chars1 true 0 = .ok (3, []) := rfl

set_option hygiene false in
/-- one iteration, for a known shape of the rest of the source: the bounds tests are decided from the length, the
    `% 2^64` of the running count is the identity, the recursive calls at the positions still inside the source are
    rewritten with the induction hypothesis (brought to the form `cleanupRes nul acc out _`), and what remains is the same
    cascade of tests on both sides.  `$o1 … $o4`, `$ob`: the stored prefix after keeping 1..4 units / after a substitute;
    `$sh`: the matching shift lemma -/
macro "cleanup_step " sh:term " , " o1:term " , " o2:term " , " o3:term " , " o4:term " , " ob:term : tactic => `(tactic| (
    simp only [List.getElem?_cons_zero, List.getElem?_cons_succ, List.getElem?_nil, List.length_cons, List.length_nil,
      List.drop_succ_cons, List.drop_zero, List.drop_nil, Nat.zero_add] at hlen r0 r1 r2 r3 d1 d2 d3 d4 ⊢
    first | (have c0 : p < mem.length := by omega) | (have c0 : ¬ (p < mem.length) := by omega)
    first | (have c2 : p + 2 > mem.length := by omega) | (have c2 : ¬ (p + 2 > mem.length) := by omega)
    first | (have c3 : p + 3 > mem.length := by omega) | (have c3 : ¬ (p + 3 > mem.length) := by omega)
    first | (have c4 : p + 4 > mem.length := by omega) | (have c4 : ¬ (p + 4 > mem.length) := by omega)
    first | (have m1 : (acc + 1) % 18446744073709551616 = acc + 1 := Nat.mod_eq_of_lt (by omega)) | (have m1 := True.intro)
    first | (have m2 : (acc + 2) % 18446744073709551616 = acc + 2 := Nat.mod_eq_of_lt (by omega)) | (have m2 := True.intro)
    first | (have m3 : (acc + 3) % 18446744073709551616 = acc + 3 := Nat.mod_eq_of_lt (by omega)) | (have m3 := True.intro)
    first | (have m4 : (acc + 4) % 18446744073709551616 = acc + 4 := Nat.mod_eq_of_lt (by omega)) | (have m4 := True.intro)
    first | (have i1 := (ih (p + 1) (acc + 1) $o1 (by omega) (by omega) (by omega)).trans ($sh acc out [b0] _); rw [d1] at i1)
          | (have i1 := True.intro)
    first | (have ib := (ih (p + 1) (acc + 3) $ob (by omega) (by omega) (by omega)).trans ($sh acc out [239, 191, 189] _); rw [d1] at ib)
          | (have ib := True.intro)
    first | (have i2 := (ih (p + 2) (acc + 2) $o2 (by omega) (by omega) (by omega)).trans ($sh acc out [b0, b1] _); rw [d2] at i2)
          | (have i2 := True.intro)
    first | (have i3 := (ih (p + 3) (acc + 3) $o3 (by omega) (by omega) (by omega)).trans ($sh acc out [b0, b1, b2] _); rw [d3] at i3)
          | (have i3 := True.intro)
    first | (have i4 := (ih (p + 4) (acc + 4) $o4 (by omega) (by omega) (by omega)).trans ($sh acc out [b0, b1, b2, b3] _); rw [d4] at i4)
          | (have i4 := True.intro)
    unfold Kernels.cleanup_utf8_loop1
    rw [cleanupUtf8]
    simp only [Kernels.cleanup_utf8_append_chars2, Kernels.cleanup_utf8_append_chars3, Kernels.cleanup_utf8_append_chars4,
      cleanup_append_chars1_false, cleanup_append_chars1_true,
      rd8, r0, r1, r2, r3, e2, e3, e4, ok_bind, error_bind, pure_eq_ok, c0, c2, c3, c4, ↓reduceIte,
      m1, m2, m3, m4, List.nil_append, List.append_nil, Bool.true_eq_false, i1, ib, i2, i3, i4]
    try simp only [cleanupRes_nil, ite_or_cascade, apply_ite (cleanupRes _ acc out), badcharSubstituteUtf8, List.cons_append, List.nil_append]
    try rfl))

/-- the translated loop of `cleanup_utf8` (filling pass) from any position inside the source -/
theorem cleanup_utf8_loop_false_eq (mem : List Nat) :
    ∀ fuel p acc out, p ≤ mem.length → mem.length - p < fuel → acc + 3 * (mem.length - p) < 18446744073709551616 →
      Kernels.cleanup_utf8_loop1 mem 0 mem.length mem.length false fuel acc p out
        = cleanupRes false acc out (cleanupUtf8 (mem.drop p)) := by
  intro fuel
  induction fuel with
  | zero => intro p _ _ _ h; omega
  | succ n ih =>
    intro p acc out hp hf hb
    generalize hl : mem.drop p = l
    have hlen := len_drop hl hp
    have r0 := rd_drop hl 0
    have r1 := rd_drop hl 1
    have r2 := rd_drop hl 2
    have r3 := rd_drop hl 3
    have d1 := drop_add hl 1
    have d2 := drop_add hl 2
    have d3 := drop_add hl 3
    have d4 := drop_add hl 4
    have e2 : p + 1 + 1 = p + 2 := by omega
    have e3 : p + 2 + 1 = p + 3 := by omega
    have e4 : p + 3 + 1 = p + 4 := by omega
    simp only [Nat.add_zero] at r0
    clear hl
    rcases l with _ | ⟨b0, _ | ⟨b1, _ | ⟨b2, _ | ⟨b3, r⟩⟩⟩⟩
    · cleanup_step cleanupRes_app_false, (out ++ [b0]), (out ++ [b0, b1]), (out ++ [b0, b1, b2]), (out ++ [b0, b1, b2, b3]), (out ++ [239, 191, 189])
    · cleanup_step cleanupRes_app_false, (out ++ [b0]), (out ++ [b0, b1]), (out ++ [b0, b1, b2]), (out ++ [b0, b1, b2, b3]), (out ++ [239, 191, 189])
    · cleanup_step cleanupRes_app_false, (out ++ [b0]), (out ++ [b0, b1]), (out ++ [b0, b1, b2]), (out ++ [b0, b1, b2, b3]), (out ++ [239, 191, 189])
    · cleanup_step cleanupRes_app_false, (out ++ [b0]), (out ++ [b0, b1]), (out ++ [b0, b1, b2]), (out ++ [b0, b1, b2, b3]), (out ++ [239, 191, 189])
    · cleanup_step cleanupRes_app_false, (out ++ [b0]), (out ++ [b0, b1]), (out ++ [b0, b1, b2]), (out ++ [b0, b1, b2, b3]), (out ++ [239, 191, 189])

/-- the translated loop of `cleanup_utf8` with a null output pointer (sizing pass) from any position inside the source -/
theorem cleanup_utf8_loop_true_eq (mem : List Nat) :
    ∀ fuel p acc out, p ≤ mem.length → mem.length - p < fuel → acc + 3 * (mem.length - p) < 18446744073709551616 →
      Kernels.cleanup_utf8_loop1 mem 0 mem.length mem.length true fuel acc p out
        = cleanupRes true acc out (cleanupUtf8 (mem.drop p)) := by
  intro fuel
  induction fuel with
  | zero => intro p _ _ _ h; omega
  | succ n ih =>
    intro p acc out hp hf hb
    generalize hl : mem.drop p = l
    have hlen := len_drop hl hp
    have r0 := rd_drop hl 0
    have r1 := rd_drop hl 1
    have r2 := rd_drop hl 2
    have r3 := rd_drop hl 3
    have d1 := drop_add hl 1
    have d2 := drop_add hl 2
    have d3 := drop_add hl 3
    have d4 := drop_add hl 4
    have e2 : p + 1 + 1 = p + 2 := by omega
    have e3 : p + 2 + 1 = p + 3 := by omega
    have e4 : p + 3 + 1 = p + 4 := by omega
    simp only [Nat.add_zero] at r0
    clear hl
    rcases l with _ | ⟨b0, _ | ⟨b1, _ | ⟨b2, _ | ⟨b3, r⟩⟩⟩⟩
    · cleanup_step cleanupRes_app_true, out, out, out, out, out
    · cleanup_step cleanupRes_app_true, out, out, out, out, out
    · cleanup_step cleanupRes_app_true, out, out, out, out, out
    · cleanup_step cleanupRes_app_true, out, out, out, out, out
    · cleanup_step cleanupRes_app_true, out, out, out, out, out

/-- the translated `cleanup_utf8` over a whole source: the filling pass stores the model's `cleanupUtf8` and returns its
    length; the sizing pass (null output pointer) stores nothing and returns the same length -- exactly the number of units
    the filling pass stores; neither pass reads outside the source -/
theorem cleanup_utf8_eq (mem : List Nat) (fuel : Nat) (hf : mem.length < fuel) (hl : 3 * mem.length < 2 ^ 64) :
    Kernels.cleanup_utf8 mem fuel false 0 mem.length = .ok ((cleanupUtf8 mem).length, cleanupUtf8 mem)
    ∧ Kernels.cleanup_utf8 mem fuel true 0 mem.length = .ok ((cleanupUtf8 mem).length, []) := by
  unfold Kernels.cleanup_utf8
  simp only [Nat.zero_add]
  rw [cleanup_utf8_loop_false_eq mem fuel 0 0 [] (by omega) (by omega) (by omega),
    cleanup_utf8_loop_true_eq mem fuel 0 0 [] (by omega) (by omega) (by omega), List.drop_zero]
  simp [cleanupRes]

/-- neither pass of the translated `cleanup_utf8` faults -/
theorem cleanup_utf8_ok (mem : List Nat) (fuel : Nat) (hf : mem.length < fuel) (hl : 3 * mem.length < 2 ^ 64) (nul : Bool) :
    isOk (Kernels.cleanup_utf8 mem fuel nul 0 mem.length) = true := by
  cases nul
  · rw [(cleanup_utf8_eq mem fuel hf hl).1]; rfl
  · rw [(cleanup_utf8_eq mem fuel hf hl).2]; rfl

end StVerif.KernelBridge
