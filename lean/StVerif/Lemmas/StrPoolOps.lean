/-
  One specification for every string-level operation (`SOp`), in the shape the properties C04 and
  C18 need: an operation either completes, and then every object that is not one of its targets is
  the very same object (pointer included) reporting the same value; or it throws an exception
  other than `bad_alloc`, and then *every* object — target and arguments included — is unchanged.
  Either way the invariant of C05 holds afterwards (storage exclusively owned, nothing leaked) and
  no temporary survives.
-/
import StVerif.Lemmas.StrPool
import StVerif.Props.C05

namespace StVerif.StrPool
open StVerif StVerif.Pool

/-- ids of history objects (strings 0..7, the buffer slot 8, …) are below the temporaries -/
def userId (x : Nat) : Prop := x < 100

theorem userId_not_temp {x : Nat} (h : userId x) : ¬ isTemp x := by
  unfold userId at h; unfold isTemp tmpA tmpB tmpC tmpD; omega

def alive (p : Pool) (o : Nat) : Prop := ∃ b, p.objs o = some b

/-- preconditions: constructor targets are dead user ids, every other named object is alive -/
def SOp.pre : SOp → Pool → Prop
  | .ctorText o _ _, p | .ctorDefault o, p => userId o ∧ p.objs o = none
  | .ctorCopy o s, p | .ctorMove o s, p => userId o ∧ userId s ∧ p.objs o = none ∧ alive p s
  | .dtor o, p | .clear o, p | .appendText o _ _, p | .appendChar o _, p | .setText o _ _, p => userId o ∧ alive p o
  | .assignCopy o s, p | .assignMove o s, p | .appendStr o s, p => userId o ∧ userId s ∧ alive p o ∧ alive p s
  | .setConv o c, p | .assignConv o c, p => userId o ∧ alive p o ∧ ConvOk c
  | .bufCtor _, p => p.objs bufSlot = none
  | .setBufMove o _, p | .setBufCopy o _, p => userId o ∧ o ≠ bufSlot ∧ alive p o ∧ alive p bufSlot
  | .ctorBufMove o _, p | .ctorBufCopy o _, p => userId o ∧ o ≠ bufSlot ∧ p.objs o = none ∧ alive p bufSlot
  | .derive ds, p => (∀ d ∈ ds.map (·.1), userId d ∧ p.objs d = none) ∧ (ds.map (·.1)).Nodup
  | .deriveThrow e, _ => e ≠ .badAlloc
  | .query, _ => True

/-- the two outcomes of a string-level operation -/
def SOutcome (r : Res Unit) (p : Pool) (targets : List Nat) : Prop :=
  (∃ p', r = .ok () p' ∧ Succ p p' (fun x => x ∈ targets) ∧ TempsDead p' ∧ p'.failAt = none) ∨
  (∃ e p', r = .throw e p' ∧ e ≠ .badAlloc ∧ Succ p p' (fun _ => False) ∧ TempsDead p' ∧ p'.failAt = none)

theorem view_none_of_dead {p : Pool} {x : Nat} (h : p.objs x = none) : view p x = none := view_eq_none.mpr h

/-- operands that are dead before and after are as good as untouched -/
theorem _root_.StVerif.Pool.Succ.shrink_dead {p p' : Pool} {T T' : Nat → Prop} (h : Succ p p' T)
    (hx : ∀ x, T x → ¬ T' x → p.objs x = none ∧ p'.objs x = none) : Succ p p' T' :=
  h.shrink fun x ht hnt => by
    obtain ⟨a, b⟩ := hx x ht hnt
    exact ⟨by rw [a, b], by rw [view_none_of_dead a, view_none_of_dead b]⟩

theorem tempsDead_of {p p' : Pool} {T : Nat → Prop} (h : Succ p p' T) (hT : TempsDead p)
    (hx : ∀ x, isTemp x → T x → p'.objs x = none) : TempsDead p' := by
  intro x hx'
  by_cases ht : T x
  · exact hx x hx' ht
  · rw [h.objs x ht]; exact hT x hx'

theorem isTemp_A : isTemp tmpA := Or.inl rfl
theorem isTemp_B : isTemp tmpB := Or.inr (Or.inl rfl)
theorem isTemp_C : isTemp tmpC := Or.inr (Or.inr (Or.inl rfl))
theorem isTemp_D : isTemp tmpD := Or.inr (Or.inr (Or.inr rfl))

/-- a buffer-level operation lifted to the string level -/
theorem lift_step {p : Pool} (hI : Inv p) (hF : p.failAt = none) (hT : TempsDead p) (op : Op) (hpre : Pool.pre op p)
    (targets : List Nat) (hsub : ∀ x, op.T x → x ∈ targets) (hu : ∀ x, op.T x → userId x) :
    SOutcome (op.run p) p targets := by
  obtain ⟨p', h1, s1, _, f1⟩ := step hI hF op hpre
  refine Or.inl ⟨p', h1, s1.mono hsub, ?_, f1⟩
  exact tempsDead_of s1 hT fun x hx ht => absurd hx (userId_not_temp (hu x ht))

set_option maxHeartbeats 800000 in
/-- **every string-level operation** (no injected allocation fault): completes with only its targets
    changed, or throws (never `bad_alloc`) with nothing changed; never a memory fault. -/
theorem sop_spec {p : Pool} (hI : Inv p) (hF : p.failAt = none) (hT : TempsDead p) (op : SOp) (hpre : op.pre p) :
    SOutcome (op.run p) p op.targets := by
  have dA := hT tmpA isTemp_A
  have dB := hT tmpB isTemp_B
  have dC := hT tmpC isTemp_C
  have dD := hT tmpD isTemp_D
  have ne : ∀ {o : Nat}, userId o → o ≠ tmpA ∧ o ≠ tmpB ∧ o ≠ tmpC ∧ o ≠ tmpD := by
    intro o h; unfold userId at h; unfold tmpA tmpB tmpC tmpD; omega
  cases op with
  | ctorText o us m =>
    obtain ⟨hu, ho⟩ := hpre
    obtain ⟨nA, _, nC, _⟩ := ne hu
    rcases ctorText_spec hI hF ho dA dC nA nC us m with ⟨_, p', h1, s1, a1, c1, f1, _⟩ | ⟨_, p', h1, s1, o1, a1, f1⟩
    · refine Or.inl ⟨p', h1, ?_, ?_, f1⟩
      · refine s1.shrink_dead fun x ht hnt => ?_
        rcases ht with rfl | rfl | rfl
        · exact absurd (by simp [SOp.targets]) hnt
        · exact ⟨dA, a1⟩
        · exact ⟨dC, c1⟩
      · refine tempsDead_of s1 hT fun x hx ht => ?_
        rcases ht with rfl | rfl | rfl
        · exact absurd hx (userId_not_temp hu)
        · exact a1
        · exact c1
    · refine Or.inr ⟨_, p', h1, by decide, ?_, ?_, f1⟩
      · refine s1.shrink_dead fun x ht _ => ?_
        rcases ht with rfl | rfl
        · exact ⟨ho, o1⟩
        · exact ⟨dA, a1⟩
      · refine tempsDead_of s1 hT fun x hx ht => ?_
        rcases ht with rfl | rfl
        · exact o1
        · exact a1
  | ctorDefault o =>
    obtain ⟨hu, ho⟩ := hpre
    exact lift_step hI hF hT (.ctorDefault o) ho _ (fun x h => by simp only [Op.T] at h; simp [SOp.targets, h]) (fun x h => by simp only [Op.T] at h; subst h; exact hu)
  | ctorCopy o s =>
    obtain ⟨hu, _, ho, hs⟩ := hpre
    exact lift_step hI hF hT (.ctorCopy o s) ⟨ho, hs⟩ _ (fun x h => by simp only [Op.T] at h; simp [SOp.targets, h]) (fun x h => by simp only [Op.T] at h; subst h; exact hu)
  | ctorMove o s =>
    obtain ⟨hu, hus, ho, hs⟩ := hpre
    exact lift_step hI hF hT (.ctorMove o s) ⟨ho, hs⟩ _ (fun x h => by simp only [Op.T] at h; simp only [SOp.targets, List.mem_cons, List.not_mem_nil, or_false]; exact h)
      (fun x h => by simp only [Op.T] at h; rcases h with rfl | rfl; exact hu; exact hus)
  | dtor o =>
    obtain ⟨hu, ho⟩ := hpre
    exact lift_step hI hF hT (.dtor o) ho _ (fun x h => by simp only [Op.T] at h; simp [SOp.targets, h]) (fun x h => by simp only [Op.T] at h; subst h; exact hu)
  | clear o =>
    obtain ⟨hu, ho⟩ := hpre
    exact lift_step hI hF hT (.clear o) ho _ (fun x h => by simp only [Op.T] at h; simp [SOp.targets, h]) (fun x h => by simp only [Op.T] at h; subst h; exact hu)
  | assignCopy o s =>
    obtain ⟨hu, _, ho, hs⟩ := hpre
    exact lift_step hI hF hT (.assignCopy o s) ⟨ho, hs⟩ _ (fun x h => by simp only [Op.T] at h; simp [SOp.targets, h]) (fun x h => by simp only [Op.T] at h; subst h; exact hu)
  | assignMove o s =>
    obtain ⟨hu, hus, ho, hs⟩ := hpre
    exact lift_step hI hF hT (.assignMove o s) ⟨ho, hs⟩ _ (fun x h => by simp only [Op.T] at h; simp only [SOp.targets, List.mem_cons, List.not_mem_nil, or_false]; exact h)
      (fun x h => by simp only [Op.T] at h; rcases h with rfl | rfl; exact hu; exact hus)
  | appendStr o s =>
    obtain ⟨hu, _, ⟨bo, ho⟩, ⟨bs, hs⟩⟩ := hpre
    obtain ⟨nA, nB, _, _⟩ := ne hu
    obtain ⟨p', h1, s1, a1, b1, f1, _⟩ := appendStr_spec hI hF ho hs dA dB nA nB
    refine Or.inl ⟨p', h1, ?_, ?_, f1⟩
    · refine s1.shrink_dead fun x ht hnt => ?_
      rcases ht with rfl | rfl | rfl
      · exact absurd (by simp [SOp.targets]) hnt
      · exact ⟨dA, a1⟩
      · exact ⟨dB, b1⟩
    · refine tempsDead_of s1 hT fun x hx ht => ?_
      rcases ht with rfl | rfl | rfl
      · exact absurd hx (userId_not_temp hu)
      · exact a1
      · exact b1
  | appendText o us m =>
    obtain ⟨hu, ⟨bo, ho⟩⟩ := hpre
    rcases appendText_spec hI hF ho hT (userId_not_temp hu) us m with ⟨_, p', h1, s1, t1, f1, _⟩ | ⟨_, p', h1, s1, t1, f1⟩
    · refine Or.inl ⟨p', h1, ?_, t1, f1⟩
      refine s1.shrink_dead fun x ht hnt => ?_
      rcases ht with rfl | ht
      · exact absurd (by simp [SOp.targets]) hnt
      · exact ⟨hT x ht, t1 x ht⟩
    · refine Or.inr ⟨_, p', h1, by decide, ?_, t1, f1⟩
      exact s1.shrink_dead fun x ht _ => ⟨hT x ht, t1 x ht⟩
  | appendChar o ch =>
    obtain ⟨hu, ⟨bo, ho⟩⟩ := hpre
    obtain ⟨nA, nB, _, _⟩ := ne hu
    rcases appendChar_spec hI hF ho dA dB nA nB ch with ⟨_, p', h1, s1, a1, b1, f1⟩ | ⟨_, p', h1, s1, a1, b1, f1⟩
    · refine Or.inl ⟨p', h1, ?_, ?_, f1⟩
      · refine s1.shrink_dead fun x ht hnt => ?_
        rcases ht with rfl | rfl | rfl
        · exact absurd (by simp [SOp.targets]) hnt
        · exact ⟨dA, a1⟩
        · exact ⟨dB, b1⟩
      · refine tempsDead_of s1 hT fun x hx ht => ?_
        rcases ht with rfl | rfl | rfl
        · exact absurd hx (userId_not_temp hu)
        · exact a1
        · exact b1
    · refine Or.inr ⟨_, p', h1, by decide, ?_, ?_, f1⟩
      · exact s1.shrink_dead fun x ht _ => by subst ht; exact ⟨dA, a1⟩
      · exact tempsDead_of s1 hT fun x _ ht => by subst ht; exact a1
  | setText o us m =>
    obtain ⟨hu, ⟨bo, ho⟩⟩ := hpre
    obtain ⟨nA, _, nC, _⟩ := ne hu
    rcases setUtf8_spec hI hF ho dA dC nA nC us m with ⟨_, p', h1, s1, a1, c1, f1, _⟩ | ⟨_, p', h1, s1, a1, f1⟩
    · refine Or.inl ⟨p', h1, ?_, ?_, f1⟩
      · refine s1.shrink_dead fun x ht hnt => ?_
        rcases ht with rfl | rfl | rfl
        · exact absurd (by simp [SOp.targets]) hnt
        · exact ⟨dA, a1⟩
        · exact ⟨dC, c1⟩
      · refine tempsDead_of s1 hT fun x hx ht => ?_
        rcases ht with rfl | rfl | rfl
        · exact absurd hx (userId_not_temp hu)
        · exact a1
        · exact c1
    · refine Or.inr ⟨_, p', h1, by decide, ?_, ?_, f1⟩
      · exact s1.shrink_dead fun x ht _ => by subst ht; exact ⟨dA, a1⟩
      · exact tempsDead_of s1 hT fun x _ ht => by subst ht; exact a1
  | setConv o c =>
    obtain ⟨hu, ⟨bo, ho⟩, hc⟩ := hpre
    obtain ⟨nA, _, _, _⟩ := ne hu
    rcases setConverted_spec hI hF ho dA nA hc with ⟨v, p', _, h1, s1, a1, f1, _⟩ | ⟨_, h1⟩
    · refine Or.inl ⟨p', h1, ?_, ?_, f1⟩
      · refine s1.shrink_dead fun x ht hnt => ?_
        rcases ht with rfl | rfl
        · exact absurd (by simp [SOp.targets]) hnt
        · exact ⟨dA, a1⟩
      · refine tempsDead_of s1 hT fun x hx ht => ?_
        rcases ht with rfl | rfl
        · exact absurd hx (userId_not_temp hu)
        · exact a1
    · exact Or.inr ⟨_, p, h1, by decide, hI.succ_refl _, hT, hF⟩
  | assignConv o c =>
    obtain ⟨hu, ⟨bo, ho⟩, hc⟩ := hpre
    obtain ⟨nA, nB, _, _⟩ := ne hu
    rcases assignConverted_spec hI hF ho dA dB nA nB hc with ⟨v, p', _, h1, s1, a1, b1, f1, _⟩ | ⟨_, p', h1, s1, a1, b1, f1⟩
    · refine Or.inl ⟨p', h1, ?_, ?_, f1⟩
      · refine s1.shrink_dead fun x ht hnt => ?_
        rcases ht with rfl | rfl | rfl
        · exact absurd (by simp [SOp.targets]) hnt
        · exact ⟨dA, a1⟩
        · exact ⟨dB, b1⟩
      · refine tempsDead_of s1 hT fun x hx ht => ?_
        rcases ht with rfl | rfl | rfl
        · exact absurd hx (userId_not_temp hu)
        · exact a1
        · exact b1
    · refine Or.inr ⟨_, p', h1, by decide, ?_, ?_, f1⟩
      · exact s1.shrink_dead fun x ht _ => by subst ht; exact ⟨dB, b1⟩
      · exact tempsDead_of s1 hT fun x _ ht => by subst ht; exact b1
  | bufCtor us =>
    exact lift_step hI hF hT (.ctorUnits bufSlot us) hpre _ (fun x h => by simp only [Op.T] at h; simp [SOp.targets, h])
      (fun x h => by simp only [Op.T] at h; subst h; unfold userId bufSlot; omega)
  | setBufMove o m =>
    obtain ⟨hu, hob, ⟨bo, ho⟩, ⟨bb, hb⟩⟩ := hpre
    obtain ⟨_, _, nC, _⟩ := ne hu
    have hbu : userId bufSlot := by unfold userId bufSlot; omega
    rcases setBufMove_spec hI hF ho hb dC nC m with ⟨_, p', h1, s1, c1, f1, _, _⟩ | ⟨_, h1⟩
    · refine Or.inl ⟨p', h1, ?_, ?_, f1⟩
      · refine s1.shrink_dead fun x ht hnt => ?_
        rcases ht with rfl | rfl | rfl
        · exact absurd (by simp [SOp.targets]) hnt
        · exact absurd (by simp [SOp.targets]) hnt
        · exact ⟨dC, c1⟩
      · refine tempsDead_of s1 hT fun x hx ht => ?_
        rcases ht with rfl | rfl | rfl
        · exact absurd hx (userId_not_temp hu)
        · exact absurd hx (userId_not_temp hbu)
        · exact c1
    · exact Or.inr ⟨_, p, h1, by decide, hI.succ_refl _, hT, hF⟩
  | setBufCopy o m =>
    obtain ⟨hu, hob, ⟨bo, ho⟩, ⟨bb, hb⟩⟩ := hpre
    obtain ⟨_, _, nC, _⟩ := ne hu
    rcases setBufCopy_spec hI hF ho hb dC nC m with ⟨_, p', h1, s1, c1, f1, _⟩ | ⟨_, h1⟩
    · refine Or.inl ⟨p', h1, ?_, ?_, f1⟩
      · refine s1.shrink_dead fun x ht hnt => ?_
        rcases ht with rfl | rfl
        · exact absurd (by simp [SOp.targets]) hnt
        · exact ⟨dC, c1⟩
      · refine tempsDead_of s1 hT fun x hx ht => ?_
        rcases ht with rfl | rfl
        · exact absurd hx (userId_not_temp hu)
        · exact c1
    · exact Or.inr ⟨_, p, h1, by decide, hI.succ_refl _, hT, hF⟩
  | ctorBufMove o m =>
    obtain ⟨hu, hob, ho, ⟨bb, hb⟩⟩ := hpre
    obtain ⟨_, _, nC, _⟩ := ne hu
    have hbu : userId bufSlot := by unfold userId bufSlot; omega
    obtain ⟨p1, h1, s1, q1, f1⟩ := step hI hF (.ctorDefault o) ho
    simp only [Op.run] at h1
    obtain ⟨bo, hbo⟩ := alive_of_view q1
    have hb1 : p1.objs bufSlot = some bb := by rw [s1.objs bufSlot (fun h => hob h.symm)]; exact hb
    have hC1 : p1.objs tmpC = none := by rw [s1.objs tmpC (fun h => nC h.symm)]; exact dC
    rcases setBufMove_spec s1.inv f1 hbo hb1 hC1 nC m with ⟨_, p2, h2, s2, c2, f2, _, _⟩ | ⟨_, h2⟩
    · have s12 := Succ.trans' s1 s2 (T := fun x => x = o ∨ x = bufSlot ∨ x = tmpC) (fun x h => Or.inl h) (fun x h => h)
      refine Or.inl ⟨p2, ctorThen_ok h1 h2, ?_, ?_, f2⟩
      · refine s12.shrink_dead fun x ht hnt => ?_
        rcases ht with rfl | rfl | rfl
        · exact absurd (by simp [SOp.targets]) hnt
        · exact absurd (by simp [SOp.targets]) hnt
        · exact ⟨dC, c2⟩
      · refine tempsDead_of s12 hT fun x hx ht => ?_
        rcases ht with rfl | rfl | rfl
        · exact absurd hx (userId_not_temp hu)
        · exact absurd hx (userId_not_temp hbu)
        · exact c2
    · obtain ⟨p3, h3, s3, q3, f3⟩ := dtor_step s1.inv f1 ⟨bo, hbo⟩
      have s13 := s1.trans s3
      refine Or.inr ⟨_, p3, ctorThen_throw h1 h2 h3, by decide, ?_, ?_, f3⟩
      · exact s13.shrink_dead fun x ht _ => by subst ht; exact ⟨ho, q3⟩
      · exact tempsDead_of s13 hT fun x hx ht => by subst ht; exact q3
  | ctorBufCopy o m =>
    obtain ⟨hu, hob, ho, ⟨bb, hb⟩⟩ := hpre
    obtain ⟨_, _, nC, _⟩ := ne hu
    obtain ⟨p1, h1, s1, q1, f1⟩ := step hI hF (.ctorDefault o) ho
    simp only [Op.run] at h1
    obtain ⟨bo, hbo⟩ := alive_of_view q1
    have hb1 : p1.objs bufSlot = some bb := by rw [s1.objs bufSlot (fun h => hob h.symm)]; exact hb
    have hC1 : p1.objs tmpC = none := by rw [s1.objs tmpC (fun h => nC h.symm)]; exact dC
    rcases setBufCopy_spec s1.inv f1 hbo hb1 hC1 nC m with ⟨_, p2, h2, s2, c2, f2, _⟩ | ⟨_, h2⟩
    · have s12 := Succ.trans' s1 s2 (T := fun x => x = o ∨ x = tmpC) (fun x h => Or.inl h) (fun x h => h)
      refine Or.inl ⟨p2, ctorThen_ok h1 h2, ?_, ?_, f2⟩
      · refine s12.shrink_dead fun x ht hnt => ?_
        rcases ht with rfl | rfl
        · exact absurd (by simp [SOp.targets]) hnt
        · exact ⟨dC, c2⟩
      · refine tempsDead_of s12 hT fun x hx ht => ?_
        rcases ht with rfl | rfl
        · exact absurd hx (userId_not_temp hu)
        · exact c2
    · obtain ⟨p3, h3, s3, q3, f3⟩ := dtor_step s1.inv f1 ⟨bo, hbo⟩
      have s13 := s1.trans s3
      refine Or.inr ⟨_, p3, ctorThen_throw h1 h2 h3, by decide, ?_, ?_, f3⟩
      · exact s13.shrink_dead fun x ht _ => by subst ht; exact ⟨ho, q3⟩
      · exact tempsDead_of s13 hT fun x hx ht => by subst ht; exact q3
  | derive ds =>
    obtain ⟨hd, hnd⟩ := hpre
    obtain ⟨p', h1, s1, f1, _⟩ := deriveAll_spec hI hF ds (fun d h => (hd d h).2) hnd
    refine Or.inl ⟨p', h1, s1, ?_, f1⟩
    exact tempsDead_of s1 hT fun x hx ht => absurd hx (userId_not_temp (hd x ht).1)
  | deriveThrow e =>
    exact Or.inr ⟨e, p, rfl, hpre, hI.succ_refl _, hT, hF⟩
  | query =>
    exact Or.inl ⟨p, rfl, hI.succ_refl _, hT, hF⟩

end StVerif.StrPool
