/-
  Specifications of the string-level do-blocks of `Model/StrPool.lean`, composed from the
  buffer-level specifications (`Lemmas/PoolStep.lean: run_ok`).  Everything here is for runs
  without injected allocation faults (`failAt = none`); `Succ p p' T` is the frame statement:
  the invariant holds in `p'` and every object outside `T` is the very same object (pointer
  included) reporting the same value.
-/
import StVerif.Model.StrPool
import StVerif.Lemmas.PoolStep

namespace StVerif.StrPool
open StVerif StVerif.Pool

/-! ### small facts -/

def isTemp (x : Nat) : Prop := x = tmpA ∨ x = tmpB ∨ x = tmpC ∨ x = tmpD

/-- no temporary is alive (true between any two operations of a history) -/
def TempsDead (p : Pool) : Prop := ∀ x, isTemp x → p.objs x = none

theorem alive_of_view {p : Pool} {o : Nat} {w : Nat × List Nat} (h : view p o = some w) : ∃ b, p.objs o = some b := by
  cases hb : p.objs o with
  | none => simp [view, hb] at h
  | some b => exact ⟨b, rfl⟩

theorem view_size {p : Pool} {o : Nat} {b : Buf} {n : Nat} {us : List Nat} (hb : p.objs o = some b)
    (h : view p o = some (n, us)) : b.size = n := by
  simp [view, hb] at h; exact h.1

theorem view_of_alive {p : Pool} {o : Nat} {b : Buf} (hb : p.objs o = some b) : view p o = some (b.size, units p b) := by
  simp [view, hb]

/-- reading an object's own storage returns what it reports -/
theorem read_units {p : Pool} (hI : Inv p) {o : Nat} {b : Buf} (ho : p.objs o = some b) :
    readUnits b.chars b.size p = .ok (units p b) p := by
  by_cases hs : b.size < p.L
  · obtain ⟨hc, _, hlen⟩ := hI.short_chars ho hs
    rw [hc, readUnits_loc ho (by omega), units_short ho hc]
  · obtain ⟨k, blk, hc, hblk, hlen, _, _⟩ := hI.owner_block ho (by omega)
    rw [hc, readUnits_heap hblk (by omega), units_long hc hblk]

theorem _root_.StVerif.Pool.Succ.refl' {p : Pool} (hI : Inv p) (T : Nat → Prop) : Succ p p T := hI.succ_refl T

/-- restrict the operand set when the dropped operands are in fact unchanged -/
theorem _root_.StVerif.Pool.Succ.shrink {p p' : Pool} {T T' : Nat → Prop} (h : Succ p p' T)
    (hx : ∀ x, T x → ¬ T' x → p'.objs x = p.objs x ∧ view p' x = view p x) : Succ p p' T' := by
  refine ⟨h.inv, h.L, h.failAt, fun x hnx => ?_, fun x hnx => ?_⟩
  · by_cases ht : T x
    · exact (hx x ht hnx).1
    · exact h.objs x ht
  · by_cases ht : T x
    · exact (hx x ht hnx).2
    · exact h.view x ht

theorem _root_.StVerif.Pool.Succ.trans' {p p₁ p₂ : Pool} {T₁ T₂ T : Nat → Prop} (h₁ : Succ p p₁ T₁) (h₂ : Succ p₁ p₂ T₂)
    (m₁ : ∀ x, T₁ x → T x) (m₂ : ∀ x, T₂ x → T x) : Succ p p₂ T :=
  (h₁.mono m₁).trans (h₂.mono m₂)

theorem failAt_none {p p' : Pool} {T : Nat → Prop} (h : Succ p p' T) (hF : p.failAt = none) : p'.failAt = none := by
  rw [h.failAt]; exact hF

/-- one buffer-level step without faults -/
theorem step {p : Pool} (hI : Inv p) (hF : p.failAt = none) (op : Op) (hpre : pre op p) :
    ∃ p', op.run p = .ok () p' ∧ Succ p p' op.T ∧ okPost p op p' ∧ p'.failAt = none := by
  obtain ⟨p', h1, h2, h3⟩ := run_ok hI hF op hpre
  exact ⟨p', h1, h2, h3, failAt_none h2 hF⟩

/-! ### `withTemp` -/

theorem withTemp_ok {α : Type} {t : Nat} {body : M α} {p p₁ p₂ : Pool} {a : α}
    (h₁ : body p = .ok a p₁) (h₂ : dtor t p₁ = .ok () p₂) : withTemp t body p = .ok a p₂ := by
  simp [withTemp, h₁, h₂]

theorem withTemp_throw {α : Type} {t : Nat} {body : M α} {p p₁ p₂ : Pool} {e : Exc}
    (h₁ : body p = .throw e p₁) (h₂ : dtor t p₁ = .ok () p₂) : withTemp t body p = .throw e p₂ := by
  simp [withTemp, h₁, h₂]

/-- destroying a live temporary -/
theorem dtor_step {p : Pool} (hI : Inv p) (hF : p.failAt = none) {t : Nat} (ht : ∃ b, p.objs t = some b) :
    ∃ p', dtor t p = .ok () p' ∧ Succ p p' (· = t) ∧ p'.objs t = none ∧ p'.failAt = none := by
  obtain ⟨p', h1, h2, h3, h4⟩ := step hI hF (.dtor t) ht
  exact ⟨p', h1, h2, view_eq_none.mp h3, h4⟩

/-! ### `fresh`: a result built by allocate + copy -/

theorem ctorThen_ok {o : Nat} {body : M Unit} {p p1 p2 : Pool} (h1 : ctorDefault o p = .ok () p1)
    (h2 : body p1 = .ok () p2) : ctorThen o body p = .ok () p2 := by
  simp [ctorThen, h1, h2]

theorem ctorThen_throw {o : Nat} {body : M Unit} {p p1 p2 p3 : Pool} {e : Exc} (h1 : ctorDefault o p = .ok () p1)
    (h2 : body p1 = .throw e p2) (h3 : dtor o p2 = .ok () p3) : ctorThen o body p = .throw e p3 := by
  simp [ctorThen, h1, h2, h3]

theorem fresh_spec {p : Pool} (hI : Inv p) (hF : p.failAt = none) {d : Nat} (hd : p.objs d = none) (val : List Nat) :
    ∃ p', fresh d val p = .ok () p' ∧ Succ p p' (· = d) ∧ view p' d = some (val.length, val) ∧ p'.failAt = none := by
  obtain ⟨p1, h1, s1, q1, f1⟩ := step hI hF (.ctorDefault d) hd
  obtain ⟨b1, hb1⟩ := alive_of_view q1
  obtain ⟨p2, h2, s2, ⟨us, hus, q2⟩, f2⟩ := step s1.inv f1 (.allocate d val.length) ⟨b1, hb1⟩
  obtain ⟨b2, hb2⟩ := alive_of_view q2
  have hsz : b2.size = val.length := view_size hb2 q2
  obtain ⟨p3, h3, s3, ⟨sz, old, q3a, _, q3c⟩, f3⟩ := step s2.inv f2 (.writeData d 0 val) ⟨b2, hb2, by omega⟩
  refine ⟨p3, ?_, ?_, ?_, f3⟩
  · simp only [Op.run] at h1 h2 h3
    exact ctorThen_ok h1 (by simp [h2, h3])
  · exact (s1.trans s2).trans s3
  · rw [q2] at q3a
    obtain ⟨rfl, rfl⟩ : val.length = sz ∧ us = old := by simpa using q3a
    rw [q3c, overwrite_all hus]


/-! ### validation of an object's contents -/

@[simp] theorem throwE_apply {α : Type} (e : Exc) (p : Pool) : (throwE e : M α) p = .throw e p := rfl

theorem validateObj_ok {p : Pool} (hI : Inv p) {b : Nat} {ob : Buf} (hb : p.objs b = some ob)
    (hv : Utf.validateUtf8 (units p ob) = 0) : validateObj b p = .ok () p := by
  simp [validateObj, getObj_some hb, read_units hI hb, hv]

theorem validateObj_throw {p : Pool} (hI : Inv p) {b : Nat} {ob : Buf} (hb : p.objs b = some ob)
    (hv : Utf.validateUtf8 (units p ob) ≠ 0) : validateObj b p = .throw .unicodeError p := by
  simp [validateObj, getObj_some hb, read_units hI hb, hv]

/-- the value a `set` stores under each validation mode (when it does not throw) -/
def setVal (m : Mode) (us : List Nat) : List Nat :=
  match m with
  | .substituteInvalid => Utf.cleanupUtf8 us
  | _ => us

/-- `set` throws exactly in this case -/
def setThrows (m : Mode) (us : List Nat) : Prop := m = .checkValidity ∧ Utf.validateUtf8 us ≠ 0

/-- the repair path shared by both `set(char_buffer)` overloads: a cleaned copy in `tmpC`, moved into `o` -/
theorem setSubst_spec {p : Pool} (hI : Inv p) (hF : p.failAt = none) {o b : Nat} {bo bb : Buf}
    (ho : p.objs o = some bo) (hb : p.objs b = some bb) (hC : p.objs tmpC = none) (hoC : o ≠ tmpC) :
    ∃ p', (do cleanupInto tmpC b; withTemp tmpC (assignMove o tmpC)) p = .ok () p' ∧
      Succ p p' (fun x => x = o ∨ x = tmpC) ∧ p'.objs tmpC = none ∧ p'.failAt = none ∧
      view p' o = some ((Utf.cleanupUtf8 (units p bb)).length, Utf.cleanupUtf8 (units p bb)) := by
  obtain ⟨p1, h1, s1, q1, f1⟩ := fresh_spec hI hF hC (Utf.cleanupUtf8 (units p bb))
  have ho1 : p1.objs o = some bo := by rw [s1.objs o hoC]; exact ho
  obtain ⟨bc, hbc⟩ := alive_of_view q1
  obtain ⟨p2, h2, s2, ⟨q2a, q2b⟩, f2⟩ := step s1.inv f1 (.assignMove o tmpC) ⟨⟨bo, ho1⟩, bc, hbc⟩
  have hC2 : ∃ b, p2.objs tmpC = some b := by
    rw [view_of_alive ho1] at q2b; exact alive_of_view q2b
  obtain ⟨p3, h3, s3, q3, f3⟩ := dtor_step s2.inv f2 hC2
  refine ⟨p3, ?_, ?_, q3, f3, ?_⟩
  · simp only [Op.run] at h2
    have hw : withTemp tmpC (assignMove o tmpC) p1 = .ok () p3 := withTemp_ok h2 h3
    simp [cleanupInto, getObj_some hb, read_units hI hb, h1, hw]
  · exact Succ.trans' (Succ.trans' s1 s2 (fun x h => Or.inr h) (fun x h => h)) s3 (fun x h => h) (fun x h => Or.inr h)
  · rw [s3.view o (by simpa using hoC), q2a, q1]

/-- `set(char_buffer &&init, validation)` with `init` = object `b ≠ o` -/
theorem setBufMove_spec {p : Pool} (hI : Inv p) (hF : p.failAt = none) {o b : Nat} {bo bb : Buf}
    (ho : p.objs o = some bo) (hb : p.objs b = some bb) (hC : p.objs tmpC = none) (hoC : o ≠ tmpC) (m : Mode) :
    (¬ setThrows m (units p bb) ∧ ∃ p', setBufMove o b m p = .ok () p' ∧ Succ p p' (fun x => x = o ∨ x = b ∨ x = tmpC) ∧
        p'.objs tmpC = none ∧ p'.failAt = none ∧
        view p' o = some ((setVal m (units p bb)).length, setVal m (units p bb)) ∧ (b ≠ tmpC → ∃ w, view p' b = some w)) ∨
    (setThrows m (units p bb) ∧ setBufMove o b m p = .throw .unicodeError p) := by
  have hlen : (units p bb).length = bb.size := by
    exact (hI.view_length (view_of_alive hb)).1
  have mv : ∃ p', assignMove o b p = .ok () p' ∧ Succ p p' (fun x => x = o ∨ x = b ∨ x = tmpC) ∧
        p'.objs tmpC = none ∧ p'.failAt = none ∧ view p' o = some ((units p bb).length, units p bb) ∧ (b ≠ tmpC → ∃ w, view p' b = some w) := by
    obtain ⟨p1, h1, s1, ⟨q1a, q1b⟩, f1⟩ := step hI hF (.assignMove o b) ⟨⟨bo, ho⟩, bb, hb⟩
    refine ⟨p1, h1, s1.mono (fun x h => by rcases h with h | h <;> simp [h]), ?_, f1, ?_, fun _ => ?_⟩
    · by_cases hbC : b = tmpC
      · subst hbC; rw [hb] at hC; cases hC
      · rw [s1.objs tmpC (by simp only [Op.T]; intro h; rcases h with h | h; exact hoC h.symm; exact hbC h.symm)]; exact hC
    · rw [q1a, view_of_alive hb, hlen]
    · rw [q1b, view_of_alive ho]; exact ⟨_, rfl⟩
  cases m with
  | assumeValid =>
    left
    refine ⟨fun h => Mode.noConfusion h.1, ?_⟩
    simpa [setBufMove, setVal] using mv
  | checkValidity =>
    by_cases hv : Utf.validateUtf8 (units p bb) = 0
    · left
      refine ⟨fun h => h.2 hv, ?_⟩
      obtain ⟨p', h1, rest⟩ := mv
      exact ⟨p', by simp [setBufMove, validateObj_ok hI hb hv, h1], by simpa [setVal] using rest⟩
    · right
      exact ⟨⟨rfl, hv⟩, by simp [setBufMove, validateObj_throw hI hb hv]⟩
  | substituteInvalid =>
    left
    refine ⟨fun h => Mode.noConfusion h.1, ?_⟩
    obtain ⟨p', h1, s1, q1, f1, v1⟩ := setSubst_spec hI hF ho hb hC hoC
    refine ⟨p', by simpa [setBufMove] using h1, s1.mono (fun x h => by rcases h with h | h <;> simp [h]), q1, f1, by simpa [setVal] using v1, fun hbC => ?_⟩
    by_cases hbo : b = o
    · subst hbo; exact ⟨_, v1⟩
    · rw [s1.view b (by intro h; rcases h with h | h; exact hbo h; exact hbC h), view_of_alive hb]; exact ⟨_, rfl⟩

/-- `set(const char_buffer &init, validation)` with `init` = object `b ≠ o`: `b` is never changed -/
theorem setBufCopy_spec {p : Pool} (hI : Inv p) (hF : p.failAt = none) {o b : Nat} {bo bb : Buf}
    (ho : p.objs o = some bo) (hb : p.objs b = some bb) (hC : p.objs tmpC = none) (hoC : o ≠ tmpC) (m : Mode) :
    (¬ setThrows m (units p bb) ∧ ∃ p', setBufCopy o b m p = .ok () p' ∧ Succ p p' (fun x => x = o ∨ x = tmpC) ∧
        p'.objs tmpC = none ∧ p'.failAt = none ∧
        view p' o = some ((setVal m (units p bb)).length, setVal m (units p bb))) ∨
    (setThrows m (units p bb) ∧ setBufCopy o b m p = .throw .unicodeError p) := by
  have hlen : (units p bb).length = bb.size := (hI.view_length (view_of_alive hb)).1
  have cp : ∃ p', assignCopy o b p = .ok () p' ∧ Succ p p' (fun x => x = o ∨ x = tmpC) ∧
        p'.objs tmpC = none ∧ p'.failAt = none ∧ view p' o = some ((units p bb).length, units p bb) := by
    obtain ⟨p1, h1, s1, q1, f1⟩ := step hI hF (.assignCopy o b) ⟨⟨bo, ho⟩, bb, hb⟩
    refine ⟨p1, h1, s1.mono (fun x h => Or.inl h), ?_, f1, ?_⟩
    · rw [s1.objs tmpC (by simp only [Op.T]; exact fun h => hoC h.symm)]; exact hC
    · rw [q1, view_of_alive hb, hlen]
  cases m with
  | assumeValid =>
    left
    exact ⟨fun h => Mode.noConfusion h.1, by simpa [setBufCopy, setVal] using cp⟩
  | checkValidity =>
    by_cases hv : Utf.validateUtf8 (units p bb) = 0
    · left
      refine ⟨fun h => h.2 hv, ?_⟩
      obtain ⟨p', h1, rest⟩ := cp
      exact ⟨p', by simp [setBufCopy, validateObj_ok hI hb hv, h1], by simpa [setVal] using rest⟩
    · right
      exact ⟨⟨rfl, hv⟩, by simp [setBufCopy, validateObj_throw hI hb hv]⟩
  | substituteInvalid =>
    left
    refine ⟨fun h => Mode.noConfusion h.1, ?_⟩
    obtain ⟨p', h1, s1, q1, f1, v1⟩ := setSubst_spec hI hF ho hb hC hoC
    exact ⟨p', by simpa [setBufCopy] using h1, s1, q1, f1, by simpa [setVal] using v1⟩


/-! ### a value built in a temporary and moved into the target -/

theorem assignFromTemp_spec {p : Pool} (hI : Inv p) (hF : p.failAt = none) {o t : Nat} {bo : Buf}
    (ho : p.objs o = some bo) (ht : p.objs t = none) (hot : o ≠ t) (val : List Nat) :
    ∃ p', (do fresh t val; withTemp t (assignMove o t)) p = .ok () p' ∧
      Succ p p' (fun x => x = o ∨ x = t) ∧ p'.objs t = none ∧ p'.failAt = none ∧ view p' o = some (val.length, val) := by
  obtain ⟨p1, h1, s1, q1, f1⟩ := fresh_spec hI hF ht val
  have ho1 : p1.objs o = some bo := by rw [s1.objs o hot]; exact ho
  obtain ⟨bc, hbc⟩ := alive_of_view q1
  obtain ⟨p2, h2, s2, ⟨q2a, q2b⟩, f2⟩ := step s1.inv f1 (.assignMove o t) ⟨⟨bo, ho1⟩, bc, hbc⟩
  have hC2 : ∃ b, p2.objs t = some b := by
    rw [view_of_alive ho1] at q2b; exact alive_of_view q2b
  obtain ⟨p3, h3, s3, q3, f3⟩ := dtor_step s2.inv f2 hC2
  refine ⟨p3, ?_, ?_, q3, f3, ?_⟩
  · simp only [Op.run] at h2
    have hw : withTemp t (assignMove o t) p1 = .ok () p3 := withTemp_ok h2 h3
    simp [h1, hw]
  · exact Succ.trans' (Succ.trans' s1 s2 (fun x h => Or.inr h) (fun x h => h)) s3 (fun x h => h) (fun x h => Or.inr h)
  · rw [s3.view o (by simpa using hot), q2a, q1]

/-! ### `_set_utf8`, constructors -/

theorem units_of_view {p : Pool} {o : Nat} {b : Buf} {n : Nat} {us : List Nat} (hb : p.objs o = some b)
    (h : view p o = some (n, us)) : units p b = us := by
  simp [view, hb] at h; exact h.2

theorem tmpA_ne_tmpC : tmpA ≠ tmpC := by decide
theorem tmpC_ne_tmpA : tmpC ≠ tmpA := by decide

theorem setUtf8_spec {p : Pool} (hI : Inv p) (hF : p.failAt = none) {o : Nat} {bo : Buf}
    (ho : p.objs o = some bo) (hA : p.objs tmpA = none) (hC : p.objs tmpC = none) (hoA : o ≠ tmpA) (hoC : o ≠ tmpC)
    (us : List Nat) (m : Mode) :
    (¬ setThrows m us ∧ ∃ p', setUtf8 o us m p = .ok () p' ∧ Succ p p' (fun x => x = o ∨ x = tmpA ∨ x = tmpC) ∧
        p'.objs tmpA = none ∧ p'.objs tmpC = none ∧ p'.failAt = none ∧ view p' o = some ((setVal m us).length, setVal m us)) ∨
    (setThrows m us ∧ ∃ p', setUtf8 o us m p = .throw .unicodeError p' ∧ Succ p p' (· = tmpA) ∧
        p'.objs tmpA = none ∧ p'.failAt = none) := by
  obtain ⟨p1, h1, s1, q1, f1⟩ := step hI hF (.ctorUnits tmpA us) hA
  simp only [Op.run] at h1
  obtain ⟨bA, hbA⟩ := alive_of_view q1
  have hu : units p1 bA = us := units_of_view hbA q1
  have ho1 : p1.objs o = some bo := by rw [s1.objs o hoA]; exact ho
  have hC1 : p1.objs tmpC = none := by rw [s1.objs tmpC tmpC_ne_tmpA]; exact hC
  rcases setBufMove_spec s1.inv f1 ho1 hbA hC1 hoC m with ⟨hn, p2, h2, s2, c2, f2, v2, w2⟩ | ⟨ht, h2⟩
  · left
    rw [hu] at hn v2
    refine ⟨hn, ?_⟩
    obtain ⟨p3, h3, s3, q3, f3⟩ := dtor_step s2.inv f2 (by obtain ⟨w, hw⟩ := w2 tmpA_ne_tmpC; exact alive_of_view hw)
    refine ⟨p3, ?_, ?_, q3, ?_, f3, ?_⟩
    · have hw : withTemp tmpA (setBufMove o tmpA m) p1 = .ok () p3 := withTemp_ok h2 h3
      simp [setUtf8, h1, hw]
    · exact Succ.trans' (Succ.trans' s1 s2 (fun x h => Or.inr (Or.inl h)) (fun x h => h)) s3 (fun x h => h) (fun x h => Or.inr (Or.inl h))
    · rw [s3.objs tmpC tmpC_ne_tmpA]; exact c2
    · rw [s3.view o (by simpa using hoA)]; exact v2
  · right
    rw [hu] at ht
    refine ⟨ht, ?_⟩
    obtain ⟨p3, h3, s3, q3, f3⟩ := dtor_step s1.inv f1 ⟨bA, hbA⟩
    refine ⟨p3, ?_, s1.trans s3, q3, f3⟩
    have hw : withTemp tmpA (setBufMove o tmpA m) p1 = .throw .unicodeError p3 := withTemp_throw h2 h3
    simp [setUtf8, h1, hw]

/-- `ST::string(const char *, size, validation)` into the dead id `o` -/
theorem ctorText_spec {p : Pool} (hI : Inv p) (hF : p.failAt = none) {o : Nat}
    (ho : p.objs o = none) (hA : p.objs tmpA = none) (hC : p.objs tmpC = none) (hoA : o ≠ tmpA) (hoC : o ≠ tmpC)
    (us : List Nat) (m : Mode) :
    (¬ setThrows m us ∧ ∃ p', ctorText o us m p = .ok () p' ∧ Succ p p' (fun x => x = o ∨ x = tmpA ∨ x = tmpC) ∧
        p'.objs tmpA = none ∧ p'.objs tmpC = none ∧ p'.failAt = none ∧ view p' o = some ((setVal m us).length, setVal m us)) ∨
    (setThrows m us ∧ ∃ p', ctorText o us m p = .throw .unicodeError p' ∧ Succ p p' (fun x => x = o ∨ x = tmpA) ∧
        p'.objs o = none ∧ p'.objs tmpA = none ∧ p'.failAt = none) := by
  obtain ⟨p1, h1, s1, q1, f1⟩ := step hI hF (.ctorDefault o) ho
  simp only [Op.run] at h1
  obtain ⟨bo, hbo⟩ := alive_of_view q1
  have hA1 : p1.objs tmpA = none := by rw [s1.objs tmpA (fun h => hoA h.symm)]; exact hA
  have hC1 : p1.objs tmpC = none := by rw [s1.objs tmpC (fun h => hoC h.symm)]; exact hC
  rcases setUtf8_spec s1.inv f1 hbo hA1 hC1 hoA hoC us m with ⟨hn, p2, h2, s2, a2, c2, f2, v2⟩ | ⟨ht, p2, h2, s2, a2, f2⟩
  · left
    exact ⟨hn, p2, ctorThen_ok h1 h2, Succ.trans' s1 s2 (fun x h => Or.inl h) (fun x h => h), a2, c2, f2, v2⟩
  · right
    have ho2 : p2.objs o = some bo := by rw [s2.objs o hoA]; exact hbo
    obtain ⟨p3, h3, s3, q3, f3⟩ := dtor_step s2.inv f2 ⟨bo, ho2⟩
    refine ⟨ht, p3, ctorThen_throw h1 h2 h3, ?_, q3, ?_, f3⟩
    · exact Succ.trans' (Succ.trans' s1 s2 (fun x h => Or.inl h) (fun x h => Or.inr h)) s3 (fun x h => h) (fun x h => Or.inl h)
    · rw [s3.objs tmpA (fun h => hoA h.symm)]; exact a2


/-! ### concatenation -/

theorem tmpA_ne_tmpB : tmpA ≠ tmpB := by decide
theorem tmpB_ne_tmpA : tmpB ≠ tmpA := by decide

/-- `operator+(const string&, const string&)` into the dead id `d`; `l` and `r` may be the same object -/
theorem concatInto_spec {p : Pool} (hI : Inv p) (hF : p.failAt = none) {d l r : Nat} {bl br : Buf}
    (hd : p.objs d = none) (hl : p.objs l = some bl) (hr : p.objs r = some br) (hA : p.objs tmpA = none) (hdA : d ≠ tmpA) :
    ∃ p', concatInto d l r p = .ok () p' ∧ Succ p p' (fun x => x = d ∨ x = tmpA) ∧ p'.objs tmpA = none ∧ p'.failAt = none ∧
      view p' d = some ((units p bl ++ units p br).length, units p bl ++ units p br) := by
  obtain ⟨p1, h1, s1, q1, f1⟩ := fresh_spec hI hF hA (units p bl ++ units p br)
  obtain ⟨bA, hbA⟩ := alive_of_view q1
  have hd1 : p1.objs d = none := by rw [s1.objs d hdA]; exact hd
  obtain ⟨p2, h2, s2, ⟨q2a, q2b⟩, f2⟩ := step s1.inv f1 (.ctorMove d tmpA) ⟨hd1, bA, hbA⟩
  obtain ⟨p3, h3, s3, q3, f3⟩ := dtor_step s2.inv f2 (alive_of_view q2b)
  refine ⟨p3, ?_, ?_, q3, f3, ?_⟩
  · simp only [Op.run] at h2
    have hw : withTemp tmpA (ctorMove d tmpA) p1 = .ok () p3 := withTemp_ok h2 h3
    simp [concatInto, getObj_some hl, getObj_some hr, read_units hI hl, read_units hI hr, h1, hw]
  · exact Succ.trans' (Succ.trans' s1 s2 (fun x h => Or.inr h) (fun x h => h)) s3 (fun x h => h) (fun x h => Or.inr h)
  · rw [s3.view d (by simpa using hdA), q2a, q1]

/-- `o += s` (`s` may be `o` itself) -/
theorem appendStr_spec {p : Pool} (hI : Inv p) (hF : p.failAt = none) {o s : Nat} {bo bs : Buf}
    (ho : p.objs o = some bo) (hs : p.objs s = some bs) (hA : p.objs tmpA = none) (hB : p.objs tmpB = none)
    (hoA : o ≠ tmpA) (hoB : o ≠ tmpB) :
    ∃ p', appendStr o s p = .ok () p' ∧ Succ p p' (fun x => x = o ∨ x = tmpA ∨ x = tmpB) ∧
      p'.objs tmpA = none ∧ p'.objs tmpB = none ∧ p'.failAt = none ∧
      view p' o = some ((units p bo ++ units p bs).length, units p bo ++ units p bs) := by
  obtain ⟨p1, h1, s1, a1, f1, v1⟩ := concatInto_spec hI hF hB ho hs hA tmpB_ne_tmpA
  obtain ⟨bB, hbB⟩ := alive_of_view v1
  have ho1 : p1.objs o = some bo := by
    rw [s1.objs o (by intro h; rcases h with h | h; exact hoB h; exact hoA h)]; exact ho
  obtain ⟨p2, h2, s2, ⟨q2a, q2b⟩, f2⟩ := step s1.inv f1 (.assignMove o tmpB) ⟨⟨bo, ho1⟩, bB, hbB⟩
  have hB2 : ∃ b, p2.objs tmpB = some b := by rw [view_of_alive ho1] at q2b; exact alive_of_view q2b
  obtain ⟨p3, h3, s3, q3, f3⟩ := dtor_step s2.inv f2 hB2
  refine ⟨p3, ?_, ?_, ?_, q3, f3, ?_⟩
  · simp only [Op.run] at h2
    have hw : withTemp tmpB (assignMove o tmpB) p1 = .ok () p3 := withTemp_ok h2 h3
    simp [appendStr, h1, hw]
  · refine Succ.trans' (Succ.trans' s1 s2 (T := fun x => x = o ∨ x = tmpA ∨ x = tmpB) ?_ ?_) s3 (fun x h => h) (fun x h => Or.inr (Or.inr h))
    · intro x h; rcases h with h | h; exact Or.inr (Or.inr h); exact Or.inr (Or.inl h)
    · intro x h; rcases h with h | h; exact Or.inl h; exact Or.inr (Or.inr h)
  · rw [s3.objs tmpA tmpA_ne_tmpB, s2.objs tmpA (by simp only [Op.T]; intro h; rcases h with h | h; exact hoA h.symm; exact tmpA_ne_tmpB h)]
    exact a1
  · rw [s3.view o (by simpa using hoB), q2a, v1]

theorem tmpD_ne_tmpA : tmpD ≠ tmpA := by decide
theorem tmpD_ne_tmpB : tmpD ≠ tmpB := by decide
theorem tmpD_ne_tmpC : tmpD ≠ tmpC := by decide

/-- `o += cstr`: the text is converted into a temporary string first; a conversion that throws leaves everything as it was -/
theorem appendText_spec {p : Pool} (hI : Inv p) (hF : p.failAt = none) {o : Nat} {bo : Buf}
    (ho : p.objs o = some bo) (hT : TempsDead p) (hoT : ¬ isTemp o) (us : List Nat) (m : Mode) :
    (¬ setThrows m us ∧ ∃ p', appendText o us m p = .ok () p' ∧ Succ p p' (fun x => x = o ∨ isTemp x) ∧ TempsDead p' ∧ p'.failAt = none ∧
        view p' o = some ((units p bo ++ setVal m us).length, units p bo ++ setVal m us)) ∨
    (setThrows m us ∧ ∃ p', appendText o us m p = .throw .unicodeError p' ∧ Succ p p' isTemp ∧ TempsDead p' ∧ p'.failAt = none) := by
  have hoA : o ≠ tmpA := fun h => hoT (Or.inl h)
  have hoB : o ≠ tmpB := fun h => hoT (Or.inr (Or.inl h))
  have hoC : o ≠ tmpC := fun h => hoT (Or.inr (Or.inr (Or.inl h)))
  have hoD : o ≠ tmpD := fun h => hoT (Or.inr (Or.inr (Or.inr h)))
  have dA := hT tmpA (Or.inl rfl)
  have dB := hT tmpB (Or.inr (Or.inl rfl))
  have dC := hT tmpC (Or.inr (Or.inr (Or.inl rfl)))
  have dD := hT tmpD (Or.inr (Or.inr (Or.inr rfl)))
  rcases ctorText_spec hI hF dD dA dC tmpD_ne_tmpA tmpD_ne_tmpC us m with ⟨hn, p1, h1, s1, a1, c1, f1, v1⟩ | ⟨ht, p1, h1, s1, d1, a1, f1⟩
  · left
    refine ⟨hn, ?_⟩
    obtain ⟨bD, hbD⟩ := alive_of_view v1
    have hu : units p1 bD = setVal m us := units_of_view hbD v1
    have nT1 : ∀ x, x ≠ tmpD → x ≠ tmpA → x ≠ tmpC → p1.objs x = p.objs x := fun x h1 h2 h3 =>
      s1.objs x (by intro h; rcases h with h | h | h <;> contradiction)
    have ho1 : p1.objs o = some bo := by rw [nT1 o hoD hoA hoC]; exact ho
    have hB1 : p1.objs tmpB = none := by rw [nT1 tmpB (by decide) (by decide) (by decide)]; exact dB
    have hv1 : units p1 bo = units p bo := by
      have := s1.view o (by intro h; rcases h with h | h | h <;> contradiction)
      rw [view_of_alive ho1, view_of_alive ho] at this; simpa using this
    obtain ⟨p2, h2, s2, a2, b2, f2, v2⟩ := appendStr_spec s1.inv f1 ho1 hbD a1 hB1 hoA hoB
    have hD2 : p2.objs tmpD = some bD := by
      rw [s2.objs tmpD (by intro h; rcases h with h | h | h; exact hoD h.symm; exact tmpD_ne_tmpA h; exact tmpD_ne_tmpB h)]; exact hbD
    obtain ⟨p3, h3, s3, q3, f3⟩ := dtor_step s2.inv f2 ⟨bD, hD2⟩
    refine ⟨p3, ?_, ?_, ?_, f3, ?_⟩
    · have hw : withTemp tmpD (appendStr o tmpD) p1 = .ok () p3 := withTemp_ok h2 h3
      have : appendText o us m = (do ctorText tmpD us m; withTemp tmpD (appendStr o tmpD)) := rfl
      rw [this]; simp [h1, hw]
    · refine Succ.trans' (Succ.trans' s1 s2 (T := fun x => x = o ∨ isTemp x) ?_ ?_) s3 (fun x h => h) (fun x h => Or.inr (Or.inr (Or.inr (Or.inr h))))
      · intro x h; rcases h with h | h | h
        · exact Or.inr (Or.inr (Or.inr (Or.inr h)))
        · exact Or.inr (Or.inl h)
        · exact Or.inr (Or.inr (Or.inr (Or.inl h)))
      · intro x h; rcases h with h | h | h
        · exact Or.inl h
        · exact Or.inr (Or.inl h)
        · exact Or.inr (Or.inr (Or.inl h))
    · intro x hx
      rcases hx with h | h | h | h
      · subst h; rw [s3.objs tmpA (fun h => tmpD_ne_tmpA h.symm)]; exact a2
      · subst h; rw [s3.objs tmpB (fun h => tmpD_ne_tmpB h.symm)]; exact b2
      · subst h; rw [s3.objs tmpC (fun h => tmpD_ne_tmpC h.symm), s2.objs tmpC (by intro h; rcases h with h | h | h; exact hoC h.symm; exact tmpC_ne_tmpA h; exact absurd h (by decide))]; exact c1
      · subst h; exact q3
    · rw [s3.view o (by simpa using hoD), v2, hv1, hu]
  · right
    refine ⟨ht, p1, ?_, ?_, ?_, f1⟩
    · have : appendText o us m = (do ctorText tmpD us m; withTemp tmpD (appendStr o tmpD)) := rfl
      rw [this]; simp [h1]
    · exact s1.mono (fun x h => by rcases h with h | h; exact Or.inr (Or.inr (Or.inr h)); exact Or.inl h)
    · intro x hx
      rcases hx with h | h | h | h
      · subst h; exact a1
      · subst h; rw [s1.objs tmpB (by intro h; rcases h with h | h <;> exact absurd h (by decide))]; exact dB
      · subst h; rw [s1.objs tmpC (by intro h; rcases h with h | h <;> exact absurd h (by decide))]; exact dC
      · subst h; exact d1


/-! ### appending a code point -/

theorem writeUtf8_length {ch : Nat} {bytes : List Nat} (h : Utf.writeUtf8 ch = some bytes) :
    bytes.length = Utf.utf8Measure ch := by
  unfold Utf.writeUtf8 at h
  unfold Utf.utf8Measure
  split at h
  · cases h; simp [*]
  · split at h
    · cases h; simp [*]
    · split at h
      · cases h; simp [*]
      · split at h
        · cases h; simp [*]
        · cases h

/-- `operator+(const string&, char32_t)` into the dead id `d` -/
theorem concatCharInto_spec {p : Pool} (hI : Inv p) (hF : p.failAt = none) {d l : Nat} {bl : Buf}
    (hd : p.objs d = none) (hl : p.objs l = some bl) (hA : p.objs tmpA = none) (hdA : d ≠ tmpA) (hlA : l ≠ tmpA) (ch : Nat) :
    ((Utf.writeUtf8 ch).isSome ∧ ∃ p', concatCharInto d l ch p = .ok () p' ∧ Succ p p' (fun x => x = d ∨ x = tmpA) ∧
        p'.objs tmpA = none ∧ p'.failAt = none ∧ ∃ w, view p' d = some w) ∨
    (Utf.writeUtf8 ch = none ∧ ∃ p', concatCharInto d l ch p = .throw .unicodeError p' ∧ Succ p p' (· = tmpA) ∧
        p'.objs tmpA = none ∧ p'.failAt = none) := by
  have hlen : (units p bl).length = bl.size := (hI.view_length (view_of_alive hl)).1
  obtain ⟨p1, h1, s1, q1, f1⟩ := step hI hF (.ctorDefault tmpA) hA
  obtain ⟨b1, hb1⟩ := alive_of_view q1
  obtain ⟨p2, h2, s2, ⟨us2, hus2, q2⟩, f2⟩ := step s1.inv f1 (.allocate tmpA ((units p bl).length + Utf.utf8Measure ch)) ⟨b1, hb1⟩
  obtain ⟨b2, hb2⟩ := alive_of_view q2
  have hsz2 : b2.size = (units p bl).length + Utf.utf8Measure ch := view_size hb2 q2
  obtain ⟨p3, h3, s3, ⟨sz3, old3, q3a, _, q3c⟩, f3⟩ := step s2.inv f2 (.writeData tmpA 0 (units p bl)) ⟨b2, hb2, by omega⟩
  obtain ⟨b3, hb3⟩ := alive_of_view q3c
  have hsz3 : b3.size = (units p bl).length + Utf.utf8Measure ch := by
    rw [q2] at q3a
    have : (units p bl).length + Utf.utf8Measure ch = sz3 := by simpa using congrArg (fun o => o.map Prod.fst) q3a
    rw [view_size hb3 q3c, this]
  simp only [Op.run] at h1 h2 h3
  cases hw : Utf.writeUtf8 ch with
  | some bytes =>
    left
    have hbl : bytes.length = Utf.utf8Measure ch := writeUtf8_length hw
    obtain ⟨p4, h4, s4, ⟨sz4, old4, q4a, _, q4c⟩, f4⟩ := step s3.inv f3 (.writeData tmpA (units p bl).length bytes) ⟨b3, hb3, by omega⟩
    obtain ⟨b4, hb4⟩ := alive_of_view q4c
    have hd4 : p4.objs d = none := by
      rw [s4.objs d hdA, s3.objs d hdA, s2.objs d hdA, s1.objs d hdA]; exact hd
    obtain ⟨p5, h5, s5, ⟨q5a, q5b⟩, f5⟩ := step s4.inv f4 (.ctorMove d tmpA) ⟨hd4, b4, hb4⟩
    obtain ⟨p6, h6, s6, q6, f6⟩ := dtor_step s5.inv f5 (alive_of_view q5b)
    simp only [Op.run] at h4 h5
    refine ⟨rfl, p6, ?_, ?_, q6, f6, ?_⟩
    · have hbody : (do allocate tmpA ((units p bl).length + Utf.utf8Measure ch); writeData tmpA 0 (units p bl);
                       (match Utf.writeUtf8 ch with
                        | some bytes => do writeData tmpA (units p bl).length bytes; ctorMove d tmpA
                        | none => throwE .unicodeError : M Unit)) p1 = .ok () p5 := by
        simp [h2, h3, hw, h4, h5]
      have hwt := withTemp_ok hbody h6
      simp only [concatCharInto, bind_apply, getObj_some hl, read_units hI hl, h1]
      exact hwt
    · have s14 : Succ p p4 (fun x => x = d ∨ x = tmpA) :=
        (((s1.trans s2).trans s3).trans s4).mono (fun x h => Or.inr h)
      exact Succ.trans' (Succ.trans' s14 s5 (fun x h => h) (fun x h => h)) s6 (fun x h => h) (fun x h => Or.inr h)
    · rw [s6.view d (by simpa using hdA), q5a, q4c]; exact ⟨_, rfl⟩
  | none =>
    right
    obtain ⟨p4, h4, s4, q4, f4⟩ := dtor_step s3.inv f3 ⟨b3, hb3⟩
    refine ⟨rfl, p4, ?_, ((s1.trans s2).trans s3).trans s4, q4, f4⟩
    have hbody : (do allocate tmpA ((units p bl).length + Utf.utf8Measure ch); writeData tmpA 0 (units p bl);
                     (match Utf.writeUtf8 ch with
                      | some bytes => do writeData tmpA (units p bl).length bytes; ctorMove d tmpA
                      | none => throwE .unicodeError : M Unit)) p1 = .throw .unicodeError p3 := by
      simp [h2, h3, hw]
    have hwt := withTemp_throw hbody h4
    simp only [concatCharInto, bind_apply, getObj_some hl, read_units hI hl, h1]
    exact hwt

/-- `o += ch` -/
theorem appendChar_spec {p : Pool} (hI : Inv p) (hF : p.failAt = none) {o : Nat} {bo : Buf}
    (ho : p.objs o = some bo) (hA : p.objs tmpA = none) (hB : p.objs tmpB = none) (hoA : o ≠ tmpA) (hoB : o ≠ tmpB) (ch : Nat) :
    ((Utf.writeUtf8 ch).isSome ∧ ∃ p', appendChar o ch p = .ok () p' ∧ Succ p p' (fun x => x = o ∨ x = tmpA ∨ x = tmpB) ∧
        p'.objs tmpA = none ∧ p'.objs tmpB = none ∧ p'.failAt = none) ∨
    (Utf.writeUtf8 ch = none ∧ ∃ p', appendChar o ch p = .throw .unicodeError p' ∧ Succ p p' (· = tmpA) ∧
        p'.objs tmpA = none ∧ p'.objs tmpB = none ∧ p'.failAt = none) := by
  rcases concatCharInto_spec hI hF hB ho hA tmpB_ne_tmpA hoA ch with ⟨hw, p1, h1, s1, a1, f1, ⟨w1, v1⟩⟩ | ⟨hw, p1, h1, s1, a1, f1⟩
  · left
    refine ⟨hw, ?_⟩
    obtain ⟨bB, hbB⟩ := alive_of_view v1
    have ho1 : p1.objs o = some bo := by
      rw [s1.objs o (by intro h; rcases h with h | h; exact hoB h; exact hoA h)]; exact ho
    obtain ⟨p2, h2, s2, ⟨q2a, q2b⟩, f2⟩ := step s1.inv f1 (.assignMove o tmpB) ⟨⟨bo, ho1⟩, bB, hbB⟩
    have hB2 : ∃ b, p2.objs tmpB = some b := by rw [view_of_alive ho1] at q2b; exact alive_of_view q2b
    obtain ⟨p3, h3, s3, q3, f3⟩ := dtor_step s2.inv f2 hB2
    refine ⟨p3, ?_, ?_, ?_, q3, f3⟩
    · simp only [Op.run] at h2
      have hwt : withTemp tmpB (assignMove o tmpB) p1 = .ok () p3 := withTemp_ok h2 h3
      simp [appendChar, h1, hwt]
    · refine Succ.trans' (Succ.trans' s1 s2 (T := fun x => x = o ∨ x = tmpA ∨ x = tmpB) ?_ ?_) s3 (fun x h => h) (fun x h => Or.inr (Or.inr h))
      · intro x h; rcases h with h | h; exact Or.inr (Or.inr h); exact Or.inr (Or.inl h)
      · intro x h; rcases h with h | h; exact Or.inl h; exact Or.inr (Or.inr h)
    · rw [s3.objs tmpA tmpA_ne_tmpB, s2.objs tmpA (by simp only [Op.T]; intro h; rcases h with h | h; exact hoA h.symm; exact tmpA_ne_tmpB h)]
      exact a1
  · right
    refine ⟨hw, p1, by simp [appendChar, h1], s1, a1, ?_, f1⟩
    rw [s1.objs tmpB tmpB_ne_tmpA]; exact hB

/-! ### values converted from another encoding -/

/-- a conversion (C01–C03) either yields a value or throws `unicode_error` before anything is touched -/
def ConvOk (c : Outcome (List Nat)) : Prop := (∃ v, c = .ok v) ∨ c = .throw .unicodeError

theorem setConverted_spec {p : Pool} (hI : Inv p) (hF : p.failAt = none) {o : Nat} {bo : Buf}
    (ho : p.objs o = some bo) (hA : p.objs tmpA = none) (hoA : o ≠ tmpA) {c : Outcome (List Nat)} (hc : ConvOk c) :
    (∃ v p', c = .ok v ∧ setConverted o c p = .ok () p' ∧ Succ p p' (fun x => x = o ∨ x = tmpA) ∧ p'.objs tmpA = none ∧
        p'.failAt = none ∧ view p' o = some (v.length, v)) ∨
    (c = .throw .unicodeError ∧ setConverted o c p = .throw .unicodeError p) := by
  rcases hc with ⟨v, rfl⟩ | rfl
  · left
    obtain ⟨p', h1, s1, a1, f1, v1⟩ := assignFromTemp_spec hI hF ho hA hoA v
    exact ⟨v, p', rfl, by simpa [setConverted] using h1, s1, a1, f1, v1⟩
  · right
    exact ⟨rfl, rfl⟩

/-- `o = ST::string(text in another encoding)` -/
theorem assignConverted_spec {p : Pool} (hI : Inv p) (hF : p.failAt = none) {o : Nat} {bo : Buf}
    (ho : p.objs o = some bo) (hA : p.objs tmpA = none) (hB : p.objs tmpB = none) (hoA : o ≠ tmpA) (hoB : o ≠ tmpB)
    {c : Outcome (List Nat)} (hc : ConvOk c) :
    (∃ v p', c = .ok v ∧ assignConverted o c p = .ok () p' ∧ Succ p p' (fun x => x = o ∨ x = tmpA ∨ x = tmpB) ∧
        p'.objs tmpA = none ∧ p'.objs tmpB = none ∧ p'.failAt = none ∧ view p' o = some (v.length, v)) ∨
    (c = .throw .unicodeError ∧ ∃ p', assignConverted o c p = .throw .unicodeError p' ∧ Succ p p' (· = tmpB) ∧
        p'.objs tmpA = none ∧ p'.objs tmpB = none ∧ p'.failAt = none) := by
  obtain ⟨p1, h1, s1, q1, f1⟩ := step hI hF (.ctorDefault tmpB) hB
  simp only [Op.run] at h1
  obtain ⟨bB, hbB⟩ := alive_of_view q1
  have hA1 : p1.objs tmpA = none := by rw [s1.objs tmpA tmpA_ne_tmpB]; exact hA
  have ho1 : p1.objs o = some bo := by rw [s1.objs o hoB]; exact ho
  rcases setConverted_spec s1.inv f1 hbB hA1 tmpB_ne_tmpA hc with ⟨v, p2, rfl, h2, s2, a2, f2, v2⟩ | ⟨rfl, h2⟩
  · left
    obtain ⟨bB2, hbB2⟩ := alive_of_view v2
    have ho2 : p2.objs o = some bo := by
      rw [s2.objs o (by intro h; rcases h with h | h; exact hoB h; exact hoA h)]; exact ho1
    obtain ⟨p3, h3, s3, ⟨q3a, q3b⟩, f3⟩ := step s2.inv f2 (.assignMove o tmpB) ⟨⟨bo, ho2⟩, bB2, hbB2⟩
    have hB3 : ∃ b, p3.objs tmpB = some b := by rw [view_of_alive ho2] at q3b; exact alive_of_view q3b
    obtain ⟨p4, h4, s4, q4, f4⟩ := dtor_step s3.inv f3 hB3
    simp only [Op.run] at h3
    refine ⟨v, p4, rfl, ?_, ?_, ?_, q4, f4, ?_⟩
    · have hbody : (do setConverted tmpB (.ok v); assignMove o tmpB) p1 = .ok () p3 := by simp [h2, h3]
      have hwt := withTemp_ok hbody h4
      simp only [assignConverted, bind_apply, h1]; exact hwt
    · refine Succ.trans' (Succ.trans' (Succ.trans' s1 s2 (T := fun x => x = o ∨ x = tmpA ∨ x = tmpB) ?_ ?_) s3 (fun x h => h) ?_) s4 (fun x h => h) (fun x h => Or.inr (Or.inr h))
      · intro x h; exact Or.inr (Or.inr h)
      · intro x h; rcases h with h | h; exact Or.inr (Or.inr h); exact Or.inr (Or.inl h)
      · intro x h; rcases h with h | h; exact Or.inl h; exact Or.inr (Or.inr h)
    · rw [s4.objs tmpA tmpA_ne_tmpB, s3.objs tmpA (by simp only [Op.T]; intro h; rcases h with h | h; exact hoA h.symm; exact tmpA_ne_tmpB h)]
      exact a2
    · rw [s4.view o (by simpa using hoB), q3a, v2]
  · right
    obtain ⟨p3, h3, s3, q3, f3⟩ := dtor_step s1.inv f1 ⟨bB, hbB⟩
    refine ⟨rfl, p3, ?_, s1.trans s3, ?_, q3, f3⟩
    · have hbody : (do setConverted tmpB (.throw .unicodeError); assignMove o tmpB) p1 = .throw .unicodeError p1 := by simp [h2]
      have hwt := withTemp_throw hbody h3
      simp only [assignConverted, bind_apply, h1]; exact hwt
    · rw [s3.objs tmpA tmpA_ne_tmpB]; exact hA1

/-! ### results of const operations -/

/-- new objects holding computed values: every listed id is dead and they are pairwise distinct -/
theorem deriveAll_spec {p : Pool} (hI : Inv p) (hF : p.failAt = none) (ds : List (Nat × List Nat))
    (hdead : ∀ d ∈ ds.map (·.1), p.objs d = none) (hnd : (ds.map (·.1)).Nodup) :
    ∃ p', deriveAll ds p = .ok () p' ∧ Succ p p' (fun x => x ∈ ds.map (·.1)) ∧ p'.failAt = none ∧
      ∀ dv ∈ ds, view p' dv.1 = some (dv.2.length, dv.2) := by
  induction ds generalizing p with
  | nil => exact ⟨p, rfl, hI.succ_refl _, hF, by simp⟩
  | cons dv rest ih =>
    obtain ⟨d, v⟩ := dv
    simp only [List.map_cons, List.nodup_cons] at hnd
    obtain ⟨p1, h1, s1, q1, f1⟩ := fresh_spec hI hF (hdead d (by simp)) v
    have hdead1 : ∀ x ∈ rest.map (·.1), p1.objs x = none := by
      intro x hx
      rw [s1.objs x (by rintro rfl; exact hnd.1 hx)]
      exact hdead x (by simp [hx])
    obtain ⟨p2, h2, s2, f2, v2⟩ := ih s1.inv f1 hdead1 hnd.2
    refine ⟨p2, by simp [deriveAll, h1, h2], ?_, f2, ?_⟩
    · exact Succ.trans' s1 s2 (fun x h => by simp [h]) (fun x h => by simp only [List.map_cons, List.mem_cons]; exact Or.inr h)
    · intro dv hdv
      simp only [List.mem_cons] at hdv
      rcases hdv with rfl | hdv
      · rw [s2.view d (fun h => hnd.1 h)]; exact q1
      · exact v2 dv hdv

end StVerif.StrPool
