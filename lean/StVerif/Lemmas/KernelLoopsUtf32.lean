/-
  Bridge for the translated conversion loops whose source is UTF-32 (include/st_utf_conv_priv.h as written by
  tools/gen_kernels.py): `utf8_measure_from_utf32`, `utf8_convert_from_utf32`, `utf16_measure_from_utf32`,
  `utf16_convert_from_utf32`.  These loops read the source directly (`rd32`, one unit per iteration, no extract
  step), so the model's decoder is the identity (`decode .utf32 mem = mem`).  No hypothesis on the size of the
  source units is needed: the translated tests and the model's tests are the same tests on the same naturals.
-/
import StVerif.Lemmas.KernelLoops
open StVerif StVerif.Cxx StVerif.Generated StVerif.Utf

namespace StVerif.KernelBridge

theorem utf16Measure_le (ch : Nat) : utf16Measure ch ≤ 2 := by
  unfold utf16Measure; split <;> omega

/-- a read at a position inside the source returns the head of what is left of the source there -/
theorem rd_lt (mem : List Nat) (p : Nat) (hp : p < mem.length) :
    ∃ v, rd mem p = .ok v ∧ mem.drop p = v :: mem.drop (p + 1) := by
  refine ⟨mem[p], ?_, ?_⟩
  · simp [rd, List.getElem?_eq_getElem hp]
  · exact List.drop_eq_getElem_cons hp

/-! ### UTF-32 -> UTF-8 -/

theorem utf8_measure_from_utf32_loop_eq (mem : List Nat) :
    ∀ fuel acc p, p ≤ mem.length → mem.length - p < fuel → acc + 4 * (mem.length - p) < 2 ^ 64 →
      Kernels.utf8_measure_from_utf32_loop1 mem 0 mem.length mem.length false fuel acc p
        = .ok (acc + ((mem.drop p).map utf8Measure).sum) := by
  intro fuel
  induction fuel with
  | zero => intro acc p _ h; omega
  | succ n ih =>
    intro acc p hp hf hb
    unfold Kernels.utf8_measure_from_utf32_loop1
    by_cases hlt : p < mem.length
    · simp only [hlt, ↓reduceIte]
      obtain ⟨v, hr, hd⟩ := rd_lt mem p hlt
      have hm := utf8Measure_le v
      simp only [rd32, hr, ok_bind, utf8_measure_eq]
      rw [Nat.mod_eq_of_lt (by omega), ih _ _ (by omega) (by omega) (by omega), hd]
      simp [Nat.add_assoc]
    · have hd : mem.drop p = [] := List.drop_eq_nil_of_le (by omega)
      simp [hlt, hd]

/-- the translated sizing pass UTF-32 -> UTF-8 is the model's `measure` -/
theorem utf8_measure_from_utf32_eq (mem : List Nat) (fuel : Nat) (hf : mem.length < fuel) (hl : 4 * mem.length < 2 ^ 64) :
    Kernels.utf8_measure_from_utf32 mem fuel 0 false mem.length = .ok (Utf.measure .utf32 .utf8 mem) := by
  unfold Kernels.utf8_measure_from_utf32
  simp only [↓reduceIte, Nat.zero_add]
  rw [utf8_measure_from_utf32_loop_eq mem fuel 0 0 (by omega) (by omega) (by omega)]
  simp only [Utf.measure, decode, Nat.zero_add, List.drop_zero]
  congr 1

theorem utf8_convert_from_utf32_loop_eq (mem : List Nat) (m : Mode) (subst : Bool) :
    ∀ fuel out p, p ≤ mem.length → mem.length - p < fuel →
      Kernels.utf8_convert_from_utf32_loop1 mem 0 mem.length (modeCode m) mem.length fuel p out
        = (fillResult (fill (stepCh .utf32 .utf8 m subst) (mem.drop p))).map (fun r => (r.1, out ++ r.2)) := by
  intro fuel
  induction fuel with
  | zero => intro out p _ h; omega
  | succ n ih =>
    intro out p hp hf
    unfold Kernels.utf8_convert_from_utf32_loop1
    by_cases hlt : p < mem.length
    · simp only [hlt, ↓reduceIte]
      obtain ⟨v, hr, hd⟩ := rd_lt mem p hlt
      simp only [rd32, hr, ok_bind, hd, fill, stepCh, write_utf8_eq]
      have ih' := fun o => ih o (p + 1) (by omega) (by omega)
      simp only [ih']
      generalize fill (stepCh Enc.utf32 Enc.utf8 m subst) (List.drop (p + 1) mem) = F
      obtain ⟨o, st⟩ := F
      cases m <;> cases hw : writeUtf8 v <;> cases st <;>
        simp [modeCode, fillResult, Except.map, badcharSubstituteUtf8, errOutOfRange, List.append_assoc]
    · have hd : mem.drop p = [] := List.drop_eq_nil_of_le (by omega)
      simp [hlt, hd, fill, fillResult, Except.map]

/-- the translated filling pass UTF-32 -> UTF-8 is the model's `fill` over the source: same units stored, same
    error code -/
theorem utf8_convert_from_utf32_eq (mem : List Nat) (m : Mode) (subst : Bool)
    (fuel : Nat) (hf : mem.length < fuel) :
    Kernels.utf8_convert_from_utf32 mem fuel 0 mem.length (modeCode m)
      = fillResult (fill (stepCh .utf32 .utf8 m subst) (decode .utf32 mem)) := by
  unfold Kernels.utf8_convert_from_utf32
  simp only [Nat.zero_add]
  rw [utf8_convert_from_utf32_loop_eq mem m subst fuel [] 0 (by omega) (by omega)]
  simp only [List.drop_zero, decode]
  exact map_fillResult_nil _

/-! ### UTF-32 -> UTF-16 -/

theorem utf16_measure_from_utf32_loop_eq (mem : List Nat) :
    ∀ fuel acc p, p ≤ mem.length → mem.length - p < fuel → acc + 2 * (mem.length - p) < 2 ^ 64 →
      Kernels.utf16_measure_from_utf32_loop1 mem 0 mem.length mem.length false fuel acc p
        = .ok (acc + ((mem.drop p).map utf16Measure).sum) := by
  intro fuel
  induction fuel with
  | zero => intro acc p _ h; omega
  | succ n ih =>
    intro acc p hp hf hb
    unfold Kernels.utf16_measure_from_utf32_loop1
    by_cases hlt : p < mem.length
    · simp only [hlt, ↓reduceIte]
      obtain ⟨v, hr, hd⟩ := rd_lt mem p hlt
      have hm := utf16Measure_le v
      simp only [rd32, hr, ok_bind, utf16_measure_eq]
      rw [Nat.mod_eq_of_lt (by omega), ih _ _ (by omega) (by omega) (by omega), hd]
      simp [Nat.add_assoc]
    · have hd : mem.drop p = [] := List.drop_eq_nil_of_le (by omega)
      simp [hlt, hd]

/-- the translated sizing pass UTF-32 -> UTF-16 is the model's `measure` -/
theorem utf16_measure_from_utf32_eq (mem : List Nat) (fuel : Nat) (hf : mem.length < fuel) (hl : 2 * mem.length < 2 ^ 64) :
    Kernels.utf16_measure_from_utf32 mem fuel 0 false mem.length = .ok (Utf.measure .utf32 .utf16 mem) := by
  unfold Kernels.utf16_measure_from_utf32
  simp only [↓reduceIte, Nat.zero_add]
  rw [utf16_measure_from_utf32_loop_eq mem fuel 0 0 (by omega) (by omega) (by omega)]
  simp only [Utf.measure, decode, Nat.zero_add, List.drop_zero]
  congr 1

theorem utf16_convert_from_utf32_loop_eq (mem : List Nat) (m : Mode) (subst : Bool) :
    ∀ fuel out p, p ≤ mem.length → mem.length - p < fuel →
      Kernels.utf16_convert_from_utf32_loop1 mem 0 mem.length (modeCode m) mem.length fuel p out
        = (fillResult (fill (stepCh .utf32 .utf16 m subst) (mem.drop p))).map (fun r => (r.1, out ++ r.2)) := by
  intro fuel
  induction fuel with
  | zero => intro out p _ h; omega
  | succ n ih =>
    intro out p hp hf
    unfold Kernels.utf16_convert_from_utf32_loop1
    by_cases hlt : p < mem.length
    · simp only [hlt, ↓reduceIte]
      obtain ⟨v, hr, hd⟩ := rd_lt mem p hlt
      simp only [rd32, hr, ok_bind, hd, fill, stepCh, write_utf16_eq]
      have ih' := fun o => ih o (p + 1) (by omega) (by omega)
      simp only [ih']
      generalize fill (stepCh Enc.utf32 Enc.utf16 m subst) (List.drop (p + 1) mem) = F
      obtain ⟨o, st⟩ := F
      cases m <;> cases hw : writeUtf16 v <;> cases st <;>
        simp [modeCode, fillResult, Except.map, badcharSubstitute, errOutOfRange, List.append_assoc]
    · have hd : mem.drop p = [] := List.drop_eq_nil_of_le (by omega)
      simp [hlt, hd, fill, fillResult, Except.map]

/-- the translated filling pass UTF-32 -> UTF-16 is the model's `fill` over the source: same units stored, same
    error code -/
theorem utf16_convert_from_utf32_eq (mem : List Nat) (m : Mode) (subst : Bool)
    (fuel : Nat) (hf : mem.length < fuel) :
    Kernels.utf16_convert_from_utf32 mem fuel 0 mem.length (modeCode m)
      = fillResult (fill (stepCh .utf32 .utf16 m subst) (decode .utf32 mem)) := by
  unfold Kernels.utf16_convert_from_utf32
  simp only [Nat.zero_add]
  rw [utf16_convert_from_utf32_loop_eq mem m subst fuel [] 0 (by omega) (by omega)]
  simp only [List.drop_zero, decode]
  exact map_fillResult_nil _

end StVerif.KernelBridge
