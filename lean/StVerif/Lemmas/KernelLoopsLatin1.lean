/-
  Bridge for the translated conversion loops whose target is Latin-1 (include/st_utf_conv_priv.h as written by
  tools/gen_kernels.py): `latin_1_measure_from_utf8/16` (which call `utf32_measure_from_utf8/16`) and
  `latin_1_convert_from_utf8/16/32`, each equal to the model's `measure` / `fill (stepCh … .latin1 …)`.
  Same shape as the template pair of KernelLoops.lean.
-/
import StVerif.Lemmas.KernelLoops
open StVerif StVerif.Cxx StVerif.Generated StVerif.Utf

namespace StVerif.KernelBridge

/-! ### sizing passes: one unit per decoded value -/

theorem l1_utf32_measure_from_utf8_loop_eq (mem : List Nat) :
    ∀ fuel acc p, p ≤ mem.length → mem.length - p < fuel → acc + (mem.length - p) < 2 ^ 64 →
      Kernels.utf32_measure_from_utf8_loop1 mem 0 mem.length mem.length false fuel acc p
        = .ok (acc + ((decodeUtf8 (mem.drop p)).map (measureCh .utf8 .latin1)).sum) := by
  intro fuel
  induction fuel with
  | zero => intro acc p _ h; omega
  | succ n ih =>
    intro acc p hp hf hb
    unfold Kernels.utf32_measure_from_utf8_loop1
    by_cases hlt : p < mem.length
    · simp only [hlt, ↓reduceIte]
      obtain ⟨⟨v, p'⟩, hs⟩ := (isOk_iff _).1 (extract_utf8_ok mem p hlt)
      obtain ⟨h1, h2, h3⟩ := extract_utf8_sound mem p v p' hlt hs
      simp only [hs, ok_bind]
      rw [Nat.mod_eq_of_lt (by omega), ih _ _ h2 (by omega) (by omega), h3]
      simp [measureCh, Nat.add_assoc]
    · have hd : mem.drop p = [] := List.drop_eq_nil_of_le (by omega)
      simp [hlt, hd, decodeUtf8_nil]

theorem l1_utf32_measure_from_utf16_loop_eq (mem : List Nat) :
    ∀ fuel acc p, p ≤ mem.length → mem.length - p < fuel → acc + (mem.length - p) < 2 ^ 64 →
      Kernels.utf32_measure_from_utf16_loop1 mem 0 mem.length mem.length false fuel acc p
        = .ok (acc + ((decodeUtf16 (mem.drop p)).map (measureCh .utf16 .latin1)).sum) := by
  intro fuel
  induction fuel with
  | zero => intro acc p _ h; omega
  | succ n ih =>
    intro acc p hp hf hb
    unfold Kernels.utf32_measure_from_utf16_loop1
    by_cases hlt : p < mem.length
    · simp only [hlt, ↓reduceIte]
      obtain ⟨⟨v, p'⟩, hs⟩ := (isOk_iff _).1 (extract_utf16_ok mem p hlt)
      obtain ⟨h1, h2, h3⟩ := extract_utf16_sound mem p v p' hlt hs
      simp only [hs, ok_bind]
      rw [Nat.mod_eq_of_lt (by omega), ih _ _ h2 (by omega) (by omega), h3]
      simp [measureCh, Nat.add_assoc]
    · have hd : mem.drop p = [] := List.drop_eq_nil_of_le (by omega)
      simp [hlt, hd, decodeUtf16_nil]

/-- the translated `utf32_measure_from_utf8` counts the values the model's decoder yields -/
theorem l1_utf32_measure_from_utf8_eq (mem : List Nat) (fuel : Nat) (hf : mem.length < fuel) (hl : mem.length < 2 ^ 64) :
    Kernels.utf32_measure_from_utf8 mem fuel 0 false mem.length
      = .ok (((decodeUtf8 mem).map (measureCh .utf8 .latin1)).sum) := by
  unfold Kernels.utf32_measure_from_utf8
  simp only [↓reduceIte, Nat.zero_add]
  rw [l1_utf32_measure_from_utf8_loop_eq mem fuel 0 0 (by omega) (by omega) (by omega)]
  simp only [Nat.zero_add, List.drop_zero]

theorem l1_utf32_measure_from_utf16_eq (mem : List Nat) (fuel : Nat) (hf : mem.length < fuel) (hl : mem.length < 2 ^ 64) :
    Kernels.utf32_measure_from_utf16 mem fuel 0 false mem.length
      = .ok (((decodeUtf16 mem).map (measureCh .utf16 .latin1)).sum) := by
  unfold Kernels.utf32_measure_from_utf16
  simp only [↓reduceIte, Nat.zero_add]
  rw [l1_utf32_measure_from_utf16_loop_eq mem fuel 0 0 (by omega) (by omega) (by omega)]
  simp only [Nat.zero_add, List.drop_zero]

/-- the translated sizing pass UTF-8 -> Latin-1 is the model's `measure` -/
theorem latin_1_measure_from_utf8_eq (mem : List Nat) (fuel : Nat) (hf : mem.length < fuel) (hl : mem.length < 2 ^ 64) :
    Kernels.latin_1_measure_from_utf8 mem fuel 0 false mem.length = .ok (Utf.measure .utf8 .latin1 mem) := by
  unfold Kernels.latin_1_measure_from_utf8
  rw [l1_utf32_measure_from_utf8_eq mem fuel hf hl]
  rfl

/-- the translated sizing pass UTF-16 -> Latin-1 is the model's `measure` -/
theorem latin_1_measure_from_utf16_eq (mem : List Nat) (fuel : Nat) (hf : mem.length < fuel) (hl : mem.length < 2 ^ 64) :
    Kernels.latin_1_measure_from_utf16 mem fuel 0 false mem.length = .ok (Utf.measure .utf16 .latin1 mem) := by
  unfold Kernels.latin_1_measure_from_utf16
  rw [l1_utf32_measure_from_utf16_eq mem fuel hf hl]
  rfl

/-! ### the value `extract_utf8` returns fits 23 bits -/

set_option hygiene false in
macro "l1_kernel8_lt" : tactic => `(tactic| (
    simp only [List.getElem?_cons_zero, List.getElem?_cons_succ, List.getElem?_nil, List.length_cons, List.length_nil,
      Nat.zero_add, Nat.add_zero] at hlen r0 r1 r2 r3 h
    unfold Kernels.extract_utf8 at h
    simp only [rd8, r0, r1, r2, r3, e2, e3, e4, ok_bind, error_bind, pure_eq_ok, Kernels.error_char] at h
    repeat' split at h
    all_goals first
      | (cases h
         first
           | omega
           | (refine Nat.or_lt_two_pow ?_ ?_ <;> first | omega | (refine Nat.or_lt_two_pow ?_ ?_ <;> first | omega | (refine Nat.or_lt_two_pow ?_ ?_ <;> omega))))
      | (exfalso; first | omega | (cases h)) ))

/-- the value one call of the translated `extract_utf8` returns fits 23 bits (an ASCII unit, a masked multi-byte
    value, or a flagged error); the masks make this hold whatever the units are -/
theorem l1_extract_utf8_lt (mem : List Nat) (p v p' : Nat) (hp : p < mem.length)
    (h : Kernels.extract_utf8 mem p mem.length = .ok (v, p')) : v < 2 ^ 23 := by
  generalize hl : mem.drop p = l
  have hlen := len_drop hl (by omega)
  have r0 := rd_drop hl 0
  have r1 := rd_drop hl 1
  have r2 := rd_drop hl 2
  have r3 := rd_drop hl 3
  have e2 : p + 1 + 1 = p + 2 := by omega
  have e3 : p + 2 + 1 = p + 3 := by omega
  have e4 : p + 3 + 1 = p + 4 := by omega
  simp only [Nat.add_zero] at r0
  rw [hlen] at h
  clear hl
  rcases l with _ | ⟨b0, _ | ⟨b1, _ | ⟨b2, _ | ⟨b3, r⟩⟩⟩⟩
  · simp at hlen; omega
  · l1_kernel8_lt
  · have a0 : b0 &&& 31 ≤ 31 := Nat.and_le_right
    have a1 : b1 &&& 63 ≤ 63 := Nat.and_le_right
    l1_kernel8_lt
  · have a0 : b0 &&& 31 ≤ 31 := Nat.and_le_right
    have a0' : b0 &&& 15 ≤ 15 := Nat.and_le_right
    have a1 : b1 &&& 63 ≤ 63 := Nat.and_le_right
    have a2 : b2 &&& 63 ≤ 63 := Nat.and_le_right
    l1_kernel8_lt
  · have a0 : b0 &&& 31 ≤ 31 := Nat.and_le_right
    have a0' : b0 &&& 15 ≤ 15 := Nat.and_le_right
    have a0'' : b0 &&& 7 ≤ 7 := Nat.and_le_right
    have a1 : b1 &&& 63 ≤ 63 := Nat.and_le_right
    have a2 : b2 &&& 63 ≤ 63 := Nat.and_le_right
    have a3 : b3 &&& 63 ≤ 63 := Nat.and_le_right
    l1_kernel8_lt

/-! ### filling passes -/

/-- the store `*dp++ = static_cast<char>(bigch)` of a value below 0x100 keeps the value (as an unsigned byte) -/
theorem l1_char_cast (v : Nat) (h : v < 256) : (((((v : Nat) : Int) + 128) % 256 - 128) % 256).toNat = v := by
  omega

theorem latin_1_convert_from_utf8_loop_eq (mem : List Nat) (m : Mode) (subst : Bool) :
    ∀ fuel out p, p ≤ mem.length → mem.length - p < fuel →
      Kernels.latin_1_convert_from_utf8_loop1 mem 0 mem.length (modeCode m) (if subst then 1 else 0) mem.length fuel p out
        = (fillResult (fill (stepCh .utf8 .latin1 m subst) (decodeUtf8 (mem.drop p)))).map (fun r => (r.1, out ++ r.2)) := by
  intro fuel
  induction fuel with
  | zero => intro out p _ h; omega
  | succ n ih =>
    intro out p hp hf
    unfold Kernels.latin_1_convert_from_utf8_loop1
    by_cases hlt : p < mem.length
    · simp only [hlt, ↓reduceIte]
      obtain ⟨⟨v, p'⟩, hs⟩ := (isOk_iff _).1 (extract_utf8_ok mem p hlt)
      obtain ⟨h1, h2, h3⟩ := extract_utf8_sound mem p v p' hlt hs
      have hv := l1_extract_utf8_lt mem p v p' hlt hs
      simp only [hs, ok_bind, h3, fill, stepCh, char_error_eq v (by omega)]
      have ih' := fun o => ih o p' h2 (by omega)
      simp only [ih']
      generalize fill (stepCh Enc.utf8 Enc.latin1 m subst) (decodeUtf8 (List.drop p' mem)) = F
      obtain ⟨o, st⟩ := F
      by_cases he : charError v = 0 <;> by_cases hb : v ≥ 256 <;> cases m <;> cases subst <;> cases st <;>
        first
          | (simp [he, hb, modeCode, fillResult, Except.map, latin1Tail, questionMark, errLatin1OutOfRange, List.append_assoc]
             done)
          | (simp [he, hb, fillResult, Except.map, latin1Tail, List.append_assoc]
             omega)
    · have hd : mem.drop p = [] := List.drop_eq_nil_of_le (by omega)
      simp [hlt, hd, decodeUtf8_nil, fill, fillResult, Except.map]

/-- the translated filling pass UTF-8 -> Latin-1 is the model's `fill` over the model's decoder: same units stored, same
    error code -/
theorem latin_1_convert_from_utf8_eq (mem : List Nat) (m : Mode) (subst : Bool) (fuel : Nat) (hf : mem.length < fuel) :
    Kernels.latin_1_convert_from_utf8 mem fuel 0 mem.length (modeCode m) (if subst then 1 else 0)
      = fillResult (fill (stepCh .utf8 .latin1 m subst) (decode .utf8 mem)) := by
  unfold Kernels.latin_1_convert_from_utf8
  simp only [Nat.zero_add]
  rw [latin_1_convert_from_utf8_loop_eq mem m subst fuel [] 0 (by omega) (by omega)]
  simp only [List.drop_zero, decode]
  exact map_fillResult_nil _

theorem latin_1_convert_from_utf16_loop_eq (mem : List Nat) (m : Mode) (subst : Bool) (hu : ∀ u ∈ mem, u < 65536) :
    ∀ fuel out p, p ≤ mem.length → mem.length - p < fuel →
      Kernels.latin_1_convert_from_utf16_loop1 mem 0 mem.length (modeCode m) (if subst then 1 else 0) mem.length fuel p out
        = (fillResult (fill (stepCh .utf16 .latin1 m subst) (decodeUtf16 (mem.drop p)))).map (fun r => (r.1, out ++ r.2)) := by
  intro fuel
  induction fuel with
  | zero => intro out p _ h; omega
  | succ n ih =>
    intro out p hp hf
    unfold Kernels.latin_1_convert_from_utf16_loop1
    by_cases hlt : p < mem.length
    · simp only [hlt, ↓reduceIte]
      obtain ⟨⟨v, p'⟩, hs⟩ := (isOk_iff _).1 (extract_utf16_ok mem p hlt)
      obtain ⟨h1, h2, h3⟩ := extract_utf16_sound mem p v p' hlt hs
      have hv := extract_utf16_lt mem hu p v p' hlt hs
      simp only [hs, ok_bind, h3, fill, stepCh, char_error_eq v (by omega)]
      have ih' := fun o => ih o p' h2 (by omega)
      simp only [ih']
      generalize fill (stepCh Enc.utf16 Enc.latin1 m subst) (decodeUtf16 (List.drop p' mem)) = F
      obtain ⟨o, st⟩ := F
      by_cases he : charError v = 0 <;> by_cases hb : v ≥ 256 <;> cases m <;> cases subst <;> cases st <;>
        first
          | (simp [he, hb, modeCode, fillResult, Except.map, latin1Tail, questionMark, errLatin1OutOfRange, List.append_assoc]
             done)
          | (simp [he, hb, fillResult, Except.map, latin1Tail, List.append_assoc]
             omega)
    · have hd : mem.drop p = [] := List.drop_eq_nil_of_le (by omega)
      simp [hlt, hd, decodeUtf16_nil, fill, fillResult, Except.map]

/-- the translated filling pass UTF-16 -> Latin-1 is the model's `fill` over the model's decoder -/
theorem latin_1_convert_from_utf16_eq (mem : List Nat) (m : Mode) (subst : Bool) (hu : ∀ u ∈ mem, u < 65536)
    (fuel : Nat) (hf : mem.length < fuel) :
    Kernels.latin_1_convert_from_utf16 mem fuel 0 mem.length (modeCode m) (if subst then 1 else 0)
      = fillResult (fill (stepCh .utf16 .latin1 m subst) (decode .utf16 mem)) := by
  unfold Kernels.latin_1_convert_from_utf16
  simp only [Nat.zero_add]
  rw [latin_1_convert_from_utf16_loop_eq mem m subst hu fuel [] 0 (by omega) (by omega)]
  simp only [List.drop_zero, decode]
  exact map_fillResult_nil _

theorem latin_1_convert_from_utf32_loop_eq (mem : List Nat) (m : Mode) (subst : Bool) :
    ∀ fuel out p, p ≤ mem.length → mem.length - p < fuel →
      Kernels.latin_1_convert_from_utf32_loop1 mem 0 mem.length (modeCode m) (if subst then 1 else 0) mem.length fuel p out
        = (fillResult (fill (stepCh .utf32 .latin1 m subst) (mem.drop p))).map (fun r => (r.1, out ++ r.2)) := by
  intro fuel
  induction fuel with
  | zero => intro out p _ h; omega
  | succ n ih =>
    intro out p hp hf
    unfold Kernels.latin_1_convert_from_utf32_loop1
    by_cases hlt : p < mem.length
    · simp only [hlt, ↓reduceIte]
      have hd : mem.drop p = mem[p] :: mem.drop (p + 1) := List.drop_eq_getElem_cons hlt
      have hr : rd32 mem p = .ok mem[p] := rd_of_getElem? (List.getElem?_eq_getElem hlt)
      generalize mem[p] = v at hd hr
      simp only [hr, ok_bind, hd, fill, stepCh]
      have ih' := fun o => ih o (p + 1) (by omega) (by omega)
      simp only [ih']
      generalize fill (stepCh Enc.utf32 Enc.latin1 m subst) (List.drop (p + 1) mem) = F
      obtain ⟨o, st⟩ := F
      by_cases he : v > 1114111 <;> by_cases hb : v ≥ 256 <;> cases m <;> cases subst <;> cases st <;>
        first
          | (exfalso; omega)
          | (simp [he, hb, modeCode, fillResult, Except.map, latin1Tail, questionMark, errLatin1OutOfRange, errOutOfRange,
              List.append_assoc]
             done)
          | (simp [he, hb, fillResult, Except.map, latin1Tail, List.append_assoc]
             omega)
    · have hd : mem.drop p = [] := List.drop_eq_nil_of_le (by omega)
      simp [hlt, hd, fill, fillResult, Except.map]

/-- the translated filling pass UTF-32 -> Latin-1 is the model's `fill` over the source units -/
theorem latin_1_convert_from_utf32_eq (mem : List Nat) (m : Mode) (subst : Bool) (fuel : Nat) (hf : mem.length < fuel) :
    Kernels.latin_1_convert_from_utf32 mem fuel 0 mem.length (modeCode m) (if subst then 1 else 0)
      = fillResult (fill (stepCh .utf32 .latin1 m subst) (decode .utf32 mem)) := by
  unfold Kernels.latin_1_convert_from_utf32
  simp only [Nat.zero_add]
  rw [latin_1_convert_from_utf32_loop_eq mem m subst fuel [] 0 (by omega) (by omega)]
  simp only [List.drop_zero, decode]
  exact map_fillResult_nil _

end StVerif.KernelBridge
