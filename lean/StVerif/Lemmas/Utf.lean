import StVerif.Bits
import StVerif.Model.Utf
import StVerif.Spec.Unicode

namespace StVerif.Lemmas.Utf
open StVerif StVerif.Utf StVerif.Bits StVerif.Generated
open StVerif.Spec.Unicode

/-! ### the decoder's mask tests on a byte are range tests -/

theorem lead2_iff : ∀ b : Fin 256, (b.val &&& 0xE0 = 0xC0) = (0xC0 ≤ b.val ∧ b.val < 0xE0) := by decide +kernel
theorem lead3_iff : ∀ b : Fin 256, (b.val &&& 0xF0 = 0xE0) = (0xE0 ≤ b.val ∧ b.val < 0xF0) := by decide +kernel
theorem lead4_iff : ∀ b : Fin 256, (b.val &&& 0xF8 = 0xF0) = (0xF0 ≤ b.val ∧ b.val < 0xF8) := by decide +kernel
theorem cont_iff : ∀ b : Fin 256, (b.val &&& 0xC0 ≠ 0x80) = (isCont b.val = false) := by decide +kernel
theorem hibit_iff : ∀ b : Fin 256, (b.val &&& 0x80 ≠ 0) = (0x80 ≤ b.val) := by decide +kernel

theorem lead2_iff' {b : Nat} (h : b < 256) : (b &&& 0xE0 = 0xC0) = (0xC0 ≤ b ∧ b < 0xE0) := lead2_iff ⟨b, h⟩
theorem lead3_iff' {b : Nat} (h : b < 256) : (b &&& 0xF0 = 0xE0) = (0xE0 ≤ b ∧ b < 0xF0) := lead3_iff ⟨b, h⟩
theorem lead4_iff' {b : Nat} (h : b < 256) : (b &&& 0xF8 = 0xF0) = (0xF0 ≤ b ∧ b < 0xF8) := lead4_iff ⟨b, h⟩
theorem cont_iff' {b : Nat} (h : b < 256) : (b &&& 0xC0 ≠ 0x80) = (isCont b = false) := cont_iff ⟨b, h⟩
theorem hibit_iff' {b : Nat} (h : b < 256) : (b &&& 0x80 ≠ 0) = (0x80 ≤ b) := hibit_iff ⟨b, h⟩

theorem isCont_range {b : Nat} (h : isCont b = true) : 0x80 ≤ b ∧ b < 0xC0 := by
  simpa [isCont] using h

/-! ### decoded values, normalised -/

theorem val2 (b0 b1 : Nat) (h0 : 0xC0 ≤ b0 ∧ b0 < 0xE0) (h1 : 0x80 ≤ b1 ∧ b1 < 0xC0) :
    ((b0 &&& 0x1F) <<< 6) ||| (b1 &&& 0x3F) = (b0 - 0xC0) * 64 + (b1 - 0x80) := by
  simp only [and_1F, and_3F, Nat.shiftLeft_eq]
  rw [or_mul_eq_add _ _ 6 (by omega)]; omega

theorem val3 (b0 b1 b2 : Nat) (h0 : 0xE0 ≤ b0 ∧ b0 < 0xF0) (h1 : 0x80 ≤ b1 ∧ b1 < 0xC0) (h2 : 0x80 ≤ b2 ∧ b2 < 0xC0) :
    ((b0 &&& 0x0F) <<< 12) ||| ((b1 &&& 0x3F) <<< 6) ||| (b2 &&& 0x3F)
      = (b0 - 0xE0) * 4096 + (b1 - 0x80) * 64 + (b2 - 0x80) := by
  simp only [and_0F, and_3F, Nat.shiftLeft_eq]
  rw [or_mul_eq_add (b0 % 16) (b1 % 64 * 2 ^ 6) 12 (by omega)]
  rw [or_eq_add_of_dvd (b0 % 16 * 2 ^ 12 + b1 % 64 * 2 ^ 6) (b2 % 64) 6 (by omega) (by omega)]; omega

theorem val4 (b0 b1 b2 b3 : Nat) (h0 : 0xF0 ≤ b0 ∧ b0 < 0xF8) (h1 : 0x80 ≤ b1 ∧ b1 < 0xC0) (h2 : 0x80 ≤ b2 ∧ b2 < 0xC0)
    (h3 : 0x80 ≤ b3 ∧ b3 < 0xC0) :
    ((b0 &&& 0x07) <<< 18) ||| ((b1 &&& 0x3F) <<< 12) ||| ((b2 &&& 0x3F) <<< 6) ||| (b3 &&& 0x3F)
      = (b0 - 0xF0) * 262144 + (b1 - 0x80) * 4096 + (b2 - 0x80) * 64 + (b3 - 0x80) := by
  simp only [and_07, and_3F, Nat.shiftLeft_eq]
  rw [or_mul_eq_add (b0 % 8) (b1 % 64 * 2 ^ 12) 18 (by omega)]
  rw [or_eq_add_of_dvd (b0 % 8 * 2 ^ 18 + b1 % 64 * 2 ^ 12) (b2 % 64 * 2 ^ 6) 12 (by omega) (by omega)]
  rw [or_eq_add_of_dvd (b0 % 8 * 2 ^ 18 + b1 % 64 * 2 ^ 12 + b2 % 64 * 2 ^ 6) (b3 % 64) 6 (by omega) (by omega)]; omega

theorem val16_hl (u0 u1 : Nat) (h0 : 0xD800 ≤ u0 ∧ u0 < 0xDC00) (h1 : 0xDC00 ≤ u1 ∧ u1 < 0xE000) :
    0x10000 + ((u0 &&& 0x3FF) <<< 10) + (u1 &&& 0x3FF) = 0x10000 + (u0 - 0xD800) * 1024 + (u1 - 0xDC00) := by
  simp only [and_3FF, Nat.shiftLeft_eq]; omega

theorem val16_lh (u0 u1 : Nat) (h0 : 0xDC00 ≤ u0 ∧ u0 < 0xE000) (h1 : 0xD800 ≤ u1 ∧ u1 < 0xDC00) :
    0x10000 + (u0 &&& 0x3FF) + ((u1 &&& 0x3FF) <<< 10) = 0x10000 + (u0 - 0xDC00) + (u1 - 0xD800) * 1024 := by
  simp only [and_3FF, Nat.shiftLeft_eq]; omega

/-! ### error flags never collide with decoded values -/

theorem charError_of_lt {v : Nat} (h : v < 0x400000) : charError v = 0 := by
  unfold charError; rw [and_bit22_of_lt v h]; simp

theorem charError_errorChar : charError (errorChar errIncompleteUtf8) = errIncompleteUtf8 ∧
    charError (errorChar errInvalidUtf8) = errInvalidUtf8 ∧
    charError (errorChar errIncompleteSurrogate) = errIncompleteSurrogate := by decide

theorem errorChar_gt : errorChar errIncompleteUtf8 > 0x10FFFF ∧ errorChar errInvalidUtf8 > 0x10FFFF ∧
    errorChar errIncompleteSurrogate > 0x10FFFF := by decide

/-! ### writers produce the standard encodings -/

theorem writeUtf8_eq (c : Nat) (h : c ≤ 0x10FFFF) : writeUtf8 c = some (encUtf8 c) := by
  unfold writeUtf8 encUtf8
  by_cases h1 : c < 0x80
  · simp [h1]
  · by_cases h2 : c < 0x800
    · simp only [h1, h2, if_false, if_true, and_1F, and_3F, Nat.shiftRight_eq_div_pow]
      rw [or_C0 _ (by omega), or_80 _ (by omega)]
      have e : c / 2 ^ 6 % 32 = c / 64 := by omega
      rw [e]
    · by_cases h3 : c < 0x10000
      · simp only [h1, h2, h3, if_false, if_true, and_0F, and_3F, Nat.shiftRight_eq_div_pow]
        rw [or_E0 _ (by omega), or_80 _ (by omega), or_80 _ (by omega)]
        have e : c / 2 ^ 12 % 16 = c / 4096 := by omega
        have e' : c / 2 ^ 6 % 64 = c / 64 % 64 := by omega
        rw [e, e']
      · simp only [h1, h2, h3, h, if_false, if_true, and_07, and_3F, Nat.shiftRight_eq_div_pow]
        rw [or_F0 _ (by omega), or_80 _ (by omega), or_80 _ (by omega), or_80 _ (by omega)]
        have e : c / 2 ^ 18 % 8 = c / 262144 := by omega
        have e' : c / 2 ^ 12 % 64 = c / 4096 % 64 := by omega
        have e'' : c / 2 ^ 6 % 64 = c / 64 % 64 := by omega
        rw [e, e', e'']

theorem writeUtf8_none (c : Nat) (h : c > 0x10FFFF) : writeUtf8 c = none := by
  unfold writeUtf8
  rw [if_neg (by omega), if_neg (by omega), if_neg (by omega), if_neg (by omega)]

theorem writeUtf16_eq (c : Nat) (h : c ≤ 0x10FFFF) : writeUtf16 c = some (encUtf16 c) := by
  unfold writeUtf16 encUtf16
  by_cases h1 : c < 0x10000
  · simp [h1]
  · simp only [h1, h, if_false, if_true, and_3FF, Nat.shiftRight_eq_div_pow]
    rw [or_D800 _ (by omega), or_DC00 _ (by omega)]
    have e : (c - 65536) / 2 ^ 10 % 1024 = (c - 65536) / 1024 := by omega
    rw [e]

theorem writeUtf16_none (c : Nat) (h : c > 0x10FFFF) : writeUtf16 c = none := by
  unfold writeUtf16
  rw [if_neg (by omega), if_neg (by omega)]

theorem encUtf8_length (c : Nat) : (encUtf8 c).length = if c < 0x80 then 1 else if c < 0x800 then 2 else if c < 0x10000 then 3 else 4 := by
  unfold encUtf8
  by_cases h1 : c < 0x80
  · simp [h1]
  · by_cases h2 : c < 0x800
    · simp [h1, h2]
    · by_cases h3 : c < 0x10000 <;> simp [h1, h2, h3]

theorem utf8Measure_eq (c : Nat) (h : c ≤ 0x10FFFF) : utf8Measure c = (encUtf8 c).length := by
  rw [encUtf8_length]; unfold utf8Measure
  by_cases h1 : c < 0x80
  · simp [h1]
  · by_cases h2 : c < 0x800
    · simp [h1, h2]
    · by_cases h3 : c < 0x10000 <;> simp [h1, h2, h3, h]

theorem utf16Measure_eq (c : Nat) (h : c ≤ 0x10FFFF) : utf16Measure c = (encUtf16 c).length := by
  unfold utf16Measure encUtf16
  by_cases h1 : c < 0x10000
  · simp [h1]
  · rw [if_neg (by omega), if_neg h1]; rfl

end StVerif.Lemmas.Utf
