/-
  Bridge for `ST::format_string(const format_spec &, format_writer &, const char *text, size_t size,
  alignment_t default_alignment)` (include/st_formatter.h), the padding / truncation routine of every
  text-like format argument: the translated function (StVerif/Generated/Kernels.lean; the
  `ST::format_writer &output` parameter is the list of the calls made on it, the
  `const ST::format_spec &` parameter one parameter per field read) makes exactly the calls of the
  model's `Fmt.formatString` (StVerif/Model/FmtRender.lean), for every text shorter than 2^64, every
  precision and every width an `int` can hold.  In particular the narrowing `static_cast<int>(size)`
  of a size of 2^31 or more wraps the same way on both sides (`toI32`), the unsigned
  `format.minimum_length - size` is `wrap64`, a precision cut reads exactly `text.take precision`,
  and the `.ok` result says that nothing outside the text is read, whatever the width and precision.
-/
import StVerif.Lemmas.KernelNumericString
open StVerif StVerif.Cxx StVerif.Generated StVerif.Fmt

namespace StVerif.KernelBridge

/-- the translated `static_cast<int>(size)` is the model's `toI32` -/
theorem narrow_int_eq (n : Nat) :
    (((n : Nat) : Int) + 2147483648) % 4294967296 - 2147483648 = toI32 n := by
  unfold toI32; split <;> omega

/-- the translated `format.minimum_length - size` (the `int` converted to `size_t`, the unsigned
    subtraction) is the model's `wrap64` of the mathematical difference (stated after `size_cast_eq`
    has turned the conversion of the `int` into `wrap64`) -/
theorem unsigned_sub_eq (ml : Int) (n : Nat) (hn : n < 2 ^ 64) :
    (((((wrap64 ml : Nat) : Int) - ((n : Nat) : Int)) + 18446744073709551616).toNat
        % 18446744073709551616) = wrap64 (ml - (n : Int)) := by
  unfold wrap64; omega

/-- the translated `static_cast<size_t>(format.precision)` is the model's `wrap64` -/
theorem size_cast_eq (p : Int) : (p % 18446744073709551616).toNat = wrap64 p := by
  unfold wrap64; rfl

/-- a prefix of the source read as one block: exactly `text.take n`, no fault -/
theorem rdRange_take (text : List Nat) (n : Nat) (hn : n ≤ text.length) :
    rdRange text 0 n = .ok (text.take n) := by
  unfold rdRange
  rw [if_pos (by omega)]
  simp

/-- `format_string` over the text `text` (the source range is exactly the text), default alignment
    `align_left` as in the declaration.  The equality does not even need the width and the precision
    to fit an `int`: both sides convert them the same way. -/
theorem format_string_eq_gen (f : FormatSpec) (text : List Nat)
    (hpad : f.pad < 256) (hlen : text.length < 2 ^ 64) :
    Kernels.format_string text (alignCode f.alignment) f.minimumLength (toChar f.pad) f.precision
      0 text.length 1 = .ok ((formatString f text).map ofEvent) := by
  unfold Kernels.format_string formatString padOf
  simp only [narrow_int_eq, size_cast_eq, pad_char_eq f.pad hpad]
  by_cases hp : f.precision ≥ 0
  · by_cases hs : text.length > wrap64 f.precision
    · have hw : wrap64 f.precision < 2 ^ 64 := by omega
      simp only [hp, hs, and_self, if_true, unsigned_sub_eq f.minimumLength _ hw,
        rdRange_take text _ (Nat.le_of_lt hs), ok_bind, pure_eq_ok]
      by_cases hm : f.minimumLength > toI32 (wrap64 f.precision)
      · cases ha : f.alignment <;> simp [hm, alignCode, ofEvent]
      · simp [hm, ofEvent]
    · simp only [hp, hs, and_false, if_true, if_false, unsigned_sub_eq f.minimumLength _ hlen,
        rdRange_all, List.take_length, ok_bind, pure_eq_ok]
      by_cases hm : f.minimumLength > toI32 text.length
      · cases ha : f.alignment <;> simp [hm, alignCode, ofEvent]
      · simp [hm, ofEvent]
  · simp only [hp, false_and, if_false, unsigned_sub_eq f.minimumLength _ hlen,
      rdRange_all, List.take_length, ok_bind, pure_eq_ok]
    by_cases hm : f.minimumLength > toI32 text.length
    · cases ha : f.alignment <;> simp [hm, alignCode, ofEvent]
    · simp [hm, ofEvent]

/-- the statement for the values the C++ types hold (`int minimum_length`, `int precision`) -/
theorem format_string_eq (f : FormatSpec) (text : List Nat)
    (hpad : f.pad < 256)
    (_hmin : -(2:Int)^31 ≤ f.minimumLength ∧ f.minimumLength < (2:Int)^31)
    (_hprec : -(2:Int)^31 ≤ f.precision ∧ f.precision < (2:Int)^31)
    (hlen : text.length < 2 ^ 64) :
    Kernels.format_string text (alignCode f.alignment) f.minimumLength (toChar f.pad) f.precision
      0 text.length 1 = .ok ((formatString f text).map ofEvent) :=
  format_string_eq_gen f text hpad hlen

/-- the same, stated on the images of the recorded calls -/
theorem format_string_events (f : FormatSpec) (text : List Nat)
    (hpad : f.pad < 256)
    (hmin : -(2:Int)^31 ≤ f.minimumLength ∧ f.minimumLength < (2:Int)^31)
    (hprec : -(2:Int)^31 ≤ f.precision ∧ f.precision < (2:Int)^31)
    (hlen : text.length < 2 ^ 64) :
    ∃ evs, Kernels.format_string text (alignCode f.alignment) f.minimumLength (toChar f.pad) f.precision
      0 text.length 1 = .ok evs ∧ evs.map evOf = formatString f text :=
  ⟨_, format_string_eq f text hpad hmin hprec hlen, map_evOf_map_ofEvent _⟩

end StVerif.KernelBridge
