/-
  C16 helper lemmas, part 2: for every member function of the stream machine, what it returns on a
  pool that satisfies the invariant — the new pool satisfies it again and its abstraction is the spec
  step.  (Free to change; the property theorems are in Props/C16.lean.)
-/
import StVerif.Lemmas.Stream

namespace StVerif.Stream
open StVerif StVerif.Generated StVerif.Spec

theorem abs_stack {p : Pool} {o : Nat} {s : Obj} (ho : p.objs o = some s) (hc : s.chars = .stack o) :
    abs p o = some (s.stack.take s.size) := by simp [abs, content, ho, hc]
theorem abs_heap {p : Pool} {o k : Nat} {s : Obj} {blk : List Nat} (ho : p.objs o = some s) (hc : s.chars = .heap k) (hk : p.heap k = some blk) :
    abs p o = some (blk.take s.size) := by simp [abs, content, ho, hc, hk]
theorem abs_none {p : Pool} {o : Nat} (ho : p.objs o = none) : abs p o = none := by simp [abs, ho]

theorem Inv.lt_next {p : Pool} (hi : Inv p) {k : Nat} {blk : List Nat} (hk : p.heap k = some blk) : k < p.next := by
  rcases Nat.lt_or_ge k p.next with h | h
  · exact h
  · rw [hi.fresh k h] at hk; cases hk

/-- a stream whose fields and whose block (if any) are untouched shows the same bytes -/
theorem abs_frame {p p' : Pool} (hi : Inv p) (x : Nat) (hobjs : p'.objs x = p.objs x)
    (hheap : ∀ t k, p.objs x = some t → t.chars = .heap k → p'.heap k = p.heap k) : abs p' x = abs p x := by
  cases hx : p.objs x with
  | none => rw [abs_none hx, abs_none (hobjs.trans hx)]
  | some t =>
    cases hi.mode hx with
    | stack ha hc => rw [abs_stack hx hc, abs_stack (hobjs.trans hx) hc]
    | heap k blk ha hc hk hl => rw [abs_heap hx hc hk, abs_heap (hobjs.trans hx) hc ((hheap t k hx hc).trans hk)]

/-- result of `expand_buffer` when it has to grow -/
theorem expand_grow {p : Pool} {o : Nat} {s : Obj} (hi : Inv p) (ho : p.objs o = some s) (added : Nat)
    (hneed : s.size + added > s.alloc) (hfail : p.failAt ≠ some (p.allocs + 1)) :
    ∃ p', expandBuffer o added p = .ok () p' ∧ Inv p' ∧ abs p' = abs p ∧
      (∃ s', p'.objs o = some s' ∧ s'.size = s.size ∧ s.size + added ≤ s'.alloc) ∧ p'.failAt = p.failAt := by
  have hlen := hi.stackLen ho
  have hsz := hi.sizeLe ho
  have hobj := hi.obj; simp only [ObjOk] at hobj; have huniq := hi.uniq; have howned := hi.owned; have hfresh := hi.fresh
  cases hi.mode ho with
  | stack ha hc =>
    obtain ⟨big, hg, hb1, hb2⟩ := growLoop_spec (s.size + added) (s.size + added + 1) s.alloc (by have := cap_pos; omega) (by omega) (by omega)
    have hnh : s.isHeap = false := by simp [Obj.isHeap, ha]
    have ho1 : (p.setH p.next (some (List.replicate big 0xCD))).bump.objs o = some s := ho
    have hh1 : (p.setH p.next (some (List.replicate big 0xCD))).bump.heap p.next = some (List.replicate big 0xCD) := by simp
    have hr := readUnits_stack s.alloc ho1 (Nat.le_of_eq (ha.trans hlen.symm))
    have hw := writeUnits_heap 0 (s.stack.take s.alloc) hh1 (by simp [hlen, ha]; omega)
    simp only [expandBuffer, bind_apply, getObj_eq ho, if_pos hneed, hg, pure_apply, newBlock_eq _ hfail, hc,
      hr, hw, hnh, Bool.false_eq_true, if_false, setObj_eq]
    refine ⟨_, rfl, ?_, ?_, ⟨{ s with chars := .heap p.next, alloc := big }, by simp, rfl, hb1⟩, rfl⟩
    · constructor
      · intro x t hx
        simp only [setO_objs, bump_objs, setH_objs] at hx
        split at hx
        · cases hx; subst_vars
          refine ⟨hlen, by simp; omega, Or.inr ⟨by simp; omega, p.next, _, rfl, by simp; rfl, ?_⟩⟩
          rw [overwrite_length] <;> simp [hlen, ha]; omega
        · obtain ⟨h1, h2, h3⟩ := hobj x t hx
          refine ⟨h1, h2, ?_⟩
          rcases h3 with h3 | ⟨h3, k, blk, hk1, hk2, hk3⟩
          · exact Or.inl h3
          · refine Or.inr ⟨h3, k, blk, hk1, ?_, hk3⟩
            simp
            have : k ≠ p.next := by intro h; subst h; have := hfresh p.next (Nat.le_refl _); simp [this] at hk2
            simp [this, hk2]
      · intro o₁ o₂ s₁ s₂ k h1 h2 c1 c2
        simp only [setO_objs, bump_objs, setH_objs] at h1 h2
        grind
      · intro k blk hk
        simp only [setO_heap, bump_heap, setH_heap] at hk
        simp only [setO_objs, bump_objs, setH_objs]
        grind
      · intro k hk
        simp only [setO_next, bump_next, setH_next] at hk
        simp only [setO_heap, bump_heap, setH_heap]
        have := hfresh k (by omega)
        grind
    · funext x
      by_cases hxo : x = o
      · subst hxo
        rw [abs_stack ho hc, abs_heap (k := p.next) (s := { s with chars := .heap p.next, alloc := big }) (by simp) rfl (by simp; rfl)]
        rw [overwrite_zero_take _ _ _ (by simp [hlen, ha]; omega), List.take_take, Nat.min_eq_left hsz]
      · apply abs_frame hi x (by simp [hxo])
        intro t k hx hc
        obtain ⟨_, _, h | ⟨_, k', blk', hk1, hk2, _⟩⟩ := hobj x t hx
        · rw [h.2] at hc; cases hc
        · rw [hk1] at hc; cases hc
          have := hi.lt_next hk2
          have hne : k ≠ p.next := by omega
          simp [hne]
  | heap k blk ha hc hk hl =>
    obtain ⟨big, hg, hb1, hb2⟩ := growLoop_spec (s.size + added) (s.size + added + 1) s.alloc (by omega) (by omega) (by omega)
    have hnh : s.isHeap = true := by simp [Obj.isHeap, ha]
    have hkn : k ≠ p.next := by have := hi.lt_next hk; omega
    have hk1 : (p.setH p.next (some (List.replicate big 0xCD))).bump.heap k = some blk := by simp [hkn, hk]
    have hh1 : (p.setH p.next (some (List.replicate big 0xCD))).bump.heap p.next = some (List.replicate big 0xCD) := by simp
    have hr := readUnits_heap s.alloc hk1 (Nat.le_of_eq hl.symm)
    have hw := writeUnits_heap 0 (blk.take s.alloc) hh1 (by simp [hl]; omega)
    have hk2 : ((p.setH p.next (some (List.replicate big 0xCD))).bump.setH p.next
        (some (overwrite (List.replicate big 0xCD) 0 (blk.take s.alloc)))).heap k = some blk := by simp [hkn, hk]
    have hd := deleteBlock_eq hk2
    simp only [expandBuffer, bind_apply, getObj_eq ho, if_pos hneed, hg, pure_apply, newBlock_eq _ hfail, hc,
      hr, hw, hnh, if_true, hd, setObj_eq]
    refine ⟨_, rfl, ?_, ?_, ⟨{ s with chars := .heap p.next, alloc := big }, by simp, rfl, hb1⟩, rfl⟩
    · constructor
      · intro x t hx
        simp only [setO_objs, bump_objs, setH_objs] at hx
        split at hx
        · cases hx; subst_vars
          refine ⟨hlen, by simp; omega, Or.inr ⟨by simp; omega, p.next, _, rfl, by simp [Ne.symm hkn]; rfl, ?_⟩⟩
          rw [overwrite_length] <;> simp [hl]; omega
        · obtain ⟨h1, h2, h3⟩ := hobj x t hx
          refine ⟨h1, h2, ?_⟩
          rcases h3 with h3 | ⟨h3, k', blk', hk1', hk2', hk3'⟩
          · exact Or.inl h3
          · refine Or.inr ⟨h3, k', blk', hk1', ?_, hk3'⟩
            have h1 : k' ≠ p.next := by have := hi.lt_next hk2'; omega
            have h2 : k' ≠ k := by
              intro h; subst h
              have := huniq x o t s k' hx ho hk1' hc
              contradiction
            simp [h1, h2, hk2']
      · intro o₁ o₂ s₁ s₂ k h1 h2 c1 c2
        simp only [setO_objs, bump_objs, setH_objs] at h1 h2
        grind
      · intro k blk hk
        simp only [setO_heap, bump_heap, setH_heap] at hk
        simp only [setO_objs, bump_objs, setH_objs]
        grind
      · intro k hk
        simp only [setO_next, bump_next, setH_next] at hk
        simp only [setO_heap, bump_heap, setH_heap]
        have := hfresh k (by omega)
        grind
    · funext x
      by_cases hxo : x = o
      · subst hxo
        rw [abs_heap ho hc hk, abs_heap (k := p.next) (s := { s with chars := .heap p.next, alloc := big }) (by simp) rfl (by simp [Ne.symm hkn]; rfl)]
        rw [overwrite_zero_take _ _ _ (by simp [hl]; omega), List.take_take, Nat.min_eq_left hsz]
      · apply abs_frame hi x (by simp [hxo])
        intro t k' hx hc'
        obtain ⟨_, _, h | ⟨_, k'', blk', hk1', hk2', _⟩⟩ := hobj x t hx
        · rw [h.2] at hc'; cases hc'
        · rw [hk1'] at hc'; cases hc'
          have h1 : k' ≠ p.next := by have := hi.lt_next hk2'; omega
          have h2 : k' ≠ k := by
            intro h; subst h
            exact hxo (huniq x o t s k' hx ho hk1' hc)
          simp [h1, h2]

theorem expand_nogrow {p : Pool} {o : Nat} {s : Obj} (ho : p.objs o = some s) (added : Nat)
    (h : s.size + added ≤ s.alloc) : expandBuffer o added p = .ok () p := by
  simp [expandBuffer, getObj_eq ho, Nat.not_lt.mpr h]

theorem expand_fail {p : Pool} {o : Nat} {s : Obj} (hi : Inv p) (ho : p.objs o = some s) (added : Nat)
    (hneed : s.size + added > s.alloc) (hfail : p.failAt = some (p.allocs + 1)) :
    expandBuffer o added p = .throw .badAlloc { p with allocs := p.allocs + 1 } := by
  have hpos : 0 < s.alloc := by
    cases hi.mode ho with
    | stack ha hc => have := cap_pos; omega
    | heap k blk ha hc hk hl => omega
  obtain ⟨big, hg, _, _⟩ := growLoop_spec (s.size + added) (s.size + added + 1) s.alloc hpos (by omega) (by omega)
  simp only [expandBuffer, bind_apply, getObj_eq ho, if_pos hneed, hg, pure_apply, newBlock_fail _ hfail]

/-- the bytes a live stream shows, under the invariant -/
theorem abs_some {p : Pool} (hi : Inv p) {o : Nat} {s : Obj} (ho : p.objs o = some s) : ∃ b, abs p o = some b ∧ b.length = s.size := by
  have hsz := hi.sizeLe ho
  cases hi.mode ho with
  | stack ha hc => exact ⟨_, abs_stack ho hc, by simp [hi.stackLen ho]; omega⟩
  | heap k blk ha hc hk hl => exact ⟨_, abs_heap ho hc hk, by simp [hl]; omega⟩

theorem storeAtEnd_ok {p : Pool} {o : Nat} {s : Obj} (hi : Inv p) (ho : p.objs o = some s) (bytes : List Nat)
    (hroom : s.size + bytes.length ≤ s.alloc) {b : List Nat} (hb : abs p o = some b) :
    ∃ p', storeAtEnd o bytes p = .ok () p' ∧ Inv p' ∧ abs p' = (abs p).set o (some (b ++ bytes)) ∧ p'.failAt = p.failAt := by
  have hlen := hi.stackLen ho
  have hsz := hi.sizeLe ho
  have hobj := hi.obj; simp only [ObjOk] at hobj; have huniq := hi.uniq; have howned := hi.owned; have hfresh := hi.fresh
  cases hi.mode ho with
  | stack ha hc =>
    have hw : writeUnits s.chars s.size bytes p = .ok () (p.setO o (some { s with stack := overwrite s.stack s.size bytes })) := by
      have := writeUnits_stack s.size bytes ho (by omega); rwa [← hc] at this
    have ho2 : (p.setO o (some { s with stack := overwrite s.stack s.size bytes })).objs o = some { s with stack := overwrite s.stack s.size bytes } := by simp
    simp only [storeAtEnd, bind_apply, getObj_eq ho, hw, getObj_eq ho2, setObj_eq]
    refine ⟨_, rfl, ?_, ?_, rfl⟩
    · constructor
      · intro x t hx
        simp only [setO_objs] at hx
        split at hx
        · cases hx; subst_vars
          refine ⟨by simp; rw [overwrite_length _ _ _ (by omega)]; exact hlen, by simp; omega, Or.inl ⟨ha, hc⟩⟩
        · obtain ⟨h1, h2, h3⟩ := hobj x t hx
          exact ⟨h1, h2, h3⟩
      · intro o₁ o₂ s₁ s₂ k h1 h2 c1 c2
        simp only [setO_objs] at h1 h2
        grind
      · intro k blk hk
        simp only [setO_heap] at hk
        simp only [setO_objs]
        grind
      · exact hfresh
    · funext x
      by_cases hxo : x = o
      · subst hxo
        rw [abs_stack ho hc] at hb; cases hb
        rw [abs_stack (s := { s with stack := overwrite s.stack s.size bytes, size := s.size + bytes.length }) (by simp) hc]
        simp [ByteLog.State.set, overwrite_take_end _ _ _ (by omega : s.size ≤ s.stack.length)]
      · rw [abs_frame hi x (by simp [hxo]) (by intros; rfl)]
        simp [ByteLog.State.set, hxo]
  | heap k blk ha hc hk hl =>
    have hw : writeUnits s.chars s.size bytes p = .ok () (p.setH k (some (overwrite blk s.size bytes))) := by
      have := writeUnits_heap s.size bytes hk (by omega); rwa [← hc] at this
    have ho2 : (p.setH k (some (overwrite blk s.size bytes))).objs o = some s := ho
    simp only [storeAtEnd, bind_apply, getObj_eq ho, hw, getObj_eq ho2, setObj_eq]
    refine ⟨_, rfl, ?_, ?_, rfl⟩
    · constructor
      · intro x t hx
        simp only [setO_objs, setH_objs] at hx
        split at hx
        · cases hx; subst_vars
          refine ⟨hlen, by simp; omega, Or.inr ⟨ha, k, _, hc, by simp; rfl, ?_⟩⟩
          rw [overwrite_length _ _ _ (by omega)]; exact hl
        · obtain ⟨h1, h2, h3⟩ := hobj x t hx
          refine ⟨h1, h2, ?_⟩
          rcases h3 with h3 | ⟨h3, k', blk', hk1', hk2', hk3'⟩
          · exact Or.inl h3
          · have h2 : k' ≠ k := by
              intro h; subst h
              have := huniq x o t s k' hx ho hk1' hc
              contradiction
            exact Or.inr ⟨h3, k', blk', hk1', by simp [h2, hk2'], hk3'⟩
      · intro o₁ o₂ s₁ s₂ k h1 h2 c1 c2
        simp only [setO_objs, setH_objs] at h1 h2
        grind
      · intro k blk hk
        simp only [setO_heap, setH_heap] at hk
        simp only [setO_objs, setH_objs]
        grind
      · intro k' hk'
        simp only [setO_heap, setH_heap]
        have := hfresh k' hk'
        have := hi.lt_next hk
        grind
    · funext x
      by_cases hxo : x = o
      · subst hxo
        rw [abs_heap ho hc hk] at hb; cases hb
        rw [abs_heap (k := k) (s := { s with size := s.size + bytes.length }) (blk := overwrite blk s.size bytes) (by simp) hc (by simp)]
        simp [ByteLog.State.set, overwrite_take_end _ _ _ (by omega : s.size ≤ blk.length)]
      · rw [abs_frame hi x (by simp [hxo])]
        · simp [ByteLog.State.set, hxo]
        · intro t k' hx hc'
          have h2 : k' ≠ k := by
            intro h; subst h
            exact hxo (huniq x o t s k' hx ho hc' hc)
          simp [h2]

theorem set_same (st : ByteLog.State) (o : Nat) (v : Option (List Nat)) (h : st o = v) : st.set o v = st := by
  funext x; simp only [ByteLog.State.set]; split
  · rename_i hx; rw [hx, h]
  · rfl

/-- `expand_buffer(n); store; m_size += n` — what `append` and `append_char` do after their early return -/
theorem growStore_spec {p : Pool} {o : Nat} {s : Obj} (hi : Inv p) (ho : p.objs o = some s) {b : List Nat} (hb : abs p o = some b)
    (bytes : List Nat) :
    (∃ p', (expandBuffer o bytes.length >>= fun _ => storeAtEnd o bytes) p = .ok () p' ∧ Inv p' ∧
        abs p' = (abs p).set o (some (b ++ bytes)) ∧ p'.failAt = p.failAt)
    ∨ ((expandBuffer o bytes.length >>= fun _ => storeAtEnd o bytes) p = .throw .badAlloc { p with allocs := p.allocs + 1 } ∧
        p.failAt = some (p.allocs + 1)) := by
  by_cases hneed : s.size + bytes.length > s.alloc
  · by_cases hfail : p.failAt = some (p.allocs + 1)
    · right
      simp only [bind_apply, expand_fail hi ho _ hneed hfail]
      exact ⟨trivial, hfail⟩
    · left
      obtain ⟨p1, h1, hi1, ha1, ⟨s1, ho1, hs1, hr1⟩, hf1⟩ := expand_grow hi ho bytes.length hneed hfail
      obtain ⟨p2, h2, hi2, ha2, hf2⟩ := storeAtEnd_ok hi1 ho1 bytes (by omega) (b := b) (by rw [ha1]; exact hb)
      refine ⟨p2, ?_, hi2, ?_, hf2.trans hf1⟩
      · simp only [bind_apply, h1, h2]
      · rw [ha2, ha1]
  · left
    obtain ⟨p2, h2, hi2, ha2, hf2⟩ := storeAtEnd_ok hi ho bytes (by omega) hb
    refine ⟨p2, ?_, hi2, ha2, hf2⟩
    simp only [bind_apply, expand_nogrow ho _ (by omega : s.size + bytes.length ≤ s.alloc), h2]

theorem append_spec {p : Pool} {o : Nat} {s : Obj} (hi : Inv p) (ho : p.objs o = some s) {b : List Nat} (hb : abs p o = some b)
    (bytes : List Nat) :
    (∃ p', append o bytes p = .ok () p' ∧ Inv p' ∧ abs p' = (abs p).set o (some (b ++ bytes)) ∧ p'.failAt = p.failAt)
    ∨ (append o bytes p = .throw .badAlloc { p with allocs := p.allocs + 1 } ∧ p.failAt = some (p.allocs + 1)) := by
  by_cases h0 : bytes.length = 0
  · left
    have : bytes = [] := List.eq_nil_of_length_eq_zero h0
    subst this
    refine ⟨p, by simp [append], hi, ?_, rfl⟩
    rw [List.append_nil, set_same _ _ _ hb]
  · have : append o bytes = (expandBuffer o bytes.length >>= fun _ => storeAtEnd o bytes) := by
      simp [append, h0]
    rw [this]
    exact growStore_spec hi ho hb bytes

theorem appendChar_spec {p : Pool} {o : Nat} {s : Obj} (hi : Inv p) (ho : p.objs o = some s) {b : List Nat} (hb : abs p o = some b)
    (ch n : Nat) :
    (∃ p', appendChar o ch n p = .ok () p' ∧ Inv p' ∧ abs p' = (abs p).set o (some (b ++ List.replicate n ch)) ∧ p'.failAt = p.failAt)
    ∨ (appendChar o ch n p = .throw .badAlloc { p with allocs := p.allocs + 1 } ∧ p.failAt = some (p.allocs + 1)) := by
  by_cases h0 : n = 0
  · left
    subst h0
    refine ⟨p, by simp [appendChar], hi, ?_, rfl⟩
    rw [List.replicate_zero, List.append_nil, set_same _ _ _ hb]
  · have : appendChar o ch n = (expandBuffer o (List.replicate n ch).length >>= fun _ => storeAtEnd o (List.replicate n ch)) := by
      simp [appendChar, h0]
    rw [this]
    exact growStore_spec hi ho hb _

/-- changing only `m_size` (downwards) -/
theorem setSize_ok {p : Pool} {o : Nat} {s : Obj} (hi : Inv p) (ho : p.objs o = some s) {b : List Nat} (hb : abs p o = some b)
    (n : Nat) (hn : n ≤ s.size) :
    Inv (p.setO o (some { s with size := n })) ∧ abs (p.setO o (some { s with size := n })) = (abs p).set o (some (b.take n)) := by
  have hlen := hi.stackLen ho
  have hsz := hi.sizeLe ho
  have hobj := hi.obj; simp only [ObjOk] at hobj; have huniq := hi.uniq; have howned := hi.owned; have hfresh := hi.fresh
  constructor
  · constructor
    · intro x t hx
      simp only [setO_objs] at hx
      split at hx
      · cases hx; subst_vars
        obtain ⟨h1, h2, h3⟩ := hobj _ _ ho
        exact ⟨h1, by simp; omega, h3⟩
      · exact hobj x t hx
    · intro o₁ o₂ s₁ s₂ k h1 h2 c1 c2
      simp only [setO_objs] at h1 h2
      grind
    · intro k blk hk
      simp only [setO_heap] at hk
      simp only [setO_objs]
      grind
    · exact hfresh
  · funext x
    by_cases hxo : x = o
    · subst hxo
      cases hi.mode ho with
      | stack ha hc =>
        rw [abs_stack ho hc] at hb; cases hb
        rw [abs_stack (s := { s with size := n }) (by simp) hc]
        simp [ByteLog.State.set, List.take_take, Nat.min_eq_left hn]
      | heap k blk ha hc hk hl =>
        rw [abs_heap ho hc hk] at hb; cases hb
        rw [abs_heap (s := { s with size := n }) (by simp) hc (show (p.setO x _).heap k = some blk from hk)]
        simp [ByteLog.State.set, List.take_take, Nat.min_eq_left hn]
    · rw [abs_frame hi x (by simp [hxo]) (by intros; rfl)]
      simp [ByteLog.State.set, hxo]

theorem truncate_spec {p : Pool} {o : Nat} {s : Obj} (hi : Inv p) (ho : p.objs o = some s) {b : List Nat} (hb : abs p o = some b) (n : Nat) :
    ∃ p', truncate o n p = .ok () p' ∧ Inv p' ∧ abs p' = (abs p).set o (some (b.take n)) ∧ p'.failAt = p.failAt := by
  obtain ⟨b', hb', hbl⟩ := abs_some hi ho
  rw [hb] at hb'; cases hb'
  by_cases h : n < s.size
  · obtain ⟨h1, h2⟩ := setSize_ok hi ho hb n (by omega)
    exact ⟨_, by simp only [truncate, bind_apply, getObj_eq ho, if_pos h, setObj_eq], h1, h2, rfl⟩
  · refine ⟨p, by simp [truncate, getObj_eq ho, h], hi, ?_, rfl⟩
    rw [List.take_of_length_le (by omega), set_same _ _ _ hb]

theorem erase_spec {p : Pool} {o : Nat} {s : Obj} (hi : Inv p) (ho : p.objs o = some s) {b : List Nat} (hb : abs p o = some b) (n : Nat) :
    ∃ p', erase o n p = .ok () p' ∧ Inv p' ∧ abs p' = (abs p).set o (some (b.take (b.length - n))) ∧ p'.failAt = p.failAt := by
  obtain ⟨b', hb', hbl⟩ := abs_some hi ho
  rw [hb] at hb'; cases hb'
  by_cases h : n < s.size
  · obtain ⟨h1, h2⟩ := setSize_ok hi ho hb (s.size - n) (by omega)
    refine ⟨_, by simp only [erase, bind_apply, getObj_eq ho, if_pos h, setObj_eq], h1, ?_, rfl⟩
    rw [h2, hbl]
  · obtain ⟨h1, h2⟩ := setSize_ok hi ho hb 0 (by omega)
    refine ⟨_, by simp only [erase, bind_apply, getObj_eq ho, if_neg h, setObj_eq], h1, ?_, rfl⟩
    rw [h2, hbl, Nat.sub_eq_zero_of_le (by omega)]

theorem setO_setO (p : Pool) (o : Nat) (a b : Option Obj) : (p.setO o a).setO o b = p.setO o b := by
  simp only [Pool.setO]; congr; funext x; split <;> rfl

/-- the fields of a default-constructed stream (whatever its in-object array holds) -/
def freshObj (o : Nat) (stack : List Nat) : Obj := { chars := .stack o, alloc := stackStringSize, size := 0, stack := stack }

/-- a vacant slot or a stream in in-object mode is (re)initialised -/
theorem fresh_ok {p : Pool} {o : Nat} (hi : Inv p) (hv : ∀ a, p.objs o = some a → a.chars = .stack o) (st : List Nat) (hst : st.length = stackStringSize) :
    Inv (p.setO o (some (freshObj o st))) ∧ abs (p.setO o (some (freshObj o st))) = (abs p).set o (some []) := by
  have hobj := hi.obj; simp only [ObjOk] at hobj; have huniq := hi.uniq; have howned := hi.owned; have hfresh := hi.fresh
  constructor
  · constructor
    · intro x t hx
      simp only [setO_objs] at hx
      split at hx
      · cases hx; subst_vars
        exact ⟨hst, by simp [freshObj], Or.inl ⟨rfl, rfl⟩⟩
      · exact hobj x t hx
    · intro o₁ o₂ s₁ s₂ k h1 h2 c1 c2
      simp only [setO_objs] at h1 h2
      simp only [freshObj] at h1 h2
      grind
    · intro k blk hk
      simp only [setO_heap] at hk
      simp only [setO_objs]
      obtain ⟨o', s', h1, h2⟩ := howned k blk hk
      have : o' ≠ o := by
        intro h; subst h
        rw [hv s' h1] at h2; cases h2
      exact ⟨o', s', by simp [this, h1], h2⟩
    · exact hfresh
  · funext x
    by_cases hxo : x = o
    · subst hxo
      rw [abs_stack (s := freshObj x st) (by simp) rfl]
      simp [ByteLog.State.set, freshObj]
    · rw [abs_frame hi x (by simp [hxo]) (by intros; rfl)]
      simp [ByteLog.State.set, hxo]

/-- a stream in in-object mode disappears -/
theorem drop_ok {p : Pool} {o : Nat} (hi : Inv p) (hv : ∀ a, p.objs o = some a → a.chars = .stack o) :
    Inv (p.setO o none) ∧ abs (p.setO o none) = (abs p).set o none := by
  have hobj := hi.obj; simp only [ObjOk] at hobj; have huniq := hi.uniq; have howned := hi.owned; have hfresh := hi.fresh
  constructor
  · constructor
    · intro x t hx
      simp only [setO_objs] at hx
      split at hx
      · cases hx
      · exact hobj x t hx
    · intro o₁ o₂ s₁ s₂ k h1 h2 c1 c2
      simp only [setO_objs] at h1 h2
      grind
    · intro k blk hk
      simp only [setO_heap] at hk
      simp only [setO_objs]
      obtain ⟨o', s', h1, h2⟩ := howned k blk hk
      have : o' ≠ o := by
        intro h; subst h
        rw [hv s' h1] at h2; cases h2
      exact ⟨o', s', by simp [this, h1], h2⟩
    · exact hfresh
  · funext x
    by_cases hxo : x = o
    · subst hxo
      rw [abs_none (by simp)]
      simp [ByteLog.State.set]
    · rw [abs_frame hi x (by simp [hxo]) (by intros; rfl)]
      simp [ByteLog.State.set, hxo]

/-- a stream in heap mode gives its block back and becomes a fresh stream -/
theorem release_ok {p : Pool} {o k : Nat} {a : Obj} {blk : List Nat} (hi : Inv p) (ho : p.objs o = some a)
    (hc : a.chars = .heap k) (hk : p.heap k = some blk) :
    Inv ((p.setH k none).setO o (some (freshObj o a.stack))) ∧
    abs ((p.setH k none).setO o (some (freshObj o a.stack))) = (abs p).set o (some []) := by
  have hlen := hi.stackLen ho
  have hobj := hi.obj; simp only [ObjOk] at hobj; have huniq := hi.uniq; have howned := hi.owned; have hfresh := hi.fresh
  constructor
  · constructor
    · intro x t hx
      simp only [setO_objs, setH_objs] at hx
      split at hx
      · cases hx; subst_vars
        exact ⟨hlen, by simp [freshObj], Or.inl ⟨rfl, rfl⟩⟩
      · rename_i hxo
        obtain ⟨h1, h2, h3⟩ := hobj x t hx
        refine ⟨h1, h2, ?_⟩
        rcases h3 with h3 | ⟨h3, k', blk', hk1', hk2', hk3'⟩
        · exact Or.inl h3
        · have h2 : k' ≠ k := by
            intro h; subst h
            exact hxo (huniq x o t a k' hx ho hk1' hc)
          exact Or.inr ⟨h3, k', blk', hk1', by simp [h2, hk2'], hk3'⟩
    · intro o₁ o₂ s₁ s₂ k h1 h2 c1 c2
      simp only [setO_objs, setH_objs, freshObj] at h1 h2
      grind
    · intro k' blk' hk'
      simp only [setO_heap, setH_heap] at hk'
      simp only [setO_objs, setH_objs]
      split at hk'
      · cases hk'
      · rename_i hkk
        obtain ⟨o', s', h1, h2⟩ := howned k' blk' hk'
        have : o' ≠ o := by
          intro h; subst h
          rw [ho] at h1; cases h1
          rw [hc] at h2; cases h2; exact hkk rfl
        exact ⟨o', s', by simp [this, h1], h2⟩
    · intro k' hk'
      simp only [setO_heap, setH_heap]
      have := hfresh k' hk'
      split <;> simp_all
  · funext x
    by_cases hxo : x = o
    · subst hxo
      rw [abs_stack (s := freshObj x a.stack) (by simp) rfl]
      simp [ByteLog.State.set, freshObj]
    · rw [abs_frame hi x (by simp [hxo])]
      · simp [ByteLog.State.set, hxo]
      · intro t k' hx hc'
        have h2 : k' ≠ k := by
          intro h; subst h
          exact hxo (huniq x o t a k' hx ho hc' hc)
        simp [h2]

theorem movedFrom_repaired (src : Nat) (mv : Obj) : movedFrom .repaired src mv = freshObj src mv.stack := rfl

/-- what both (repaired) move operations do once the target owns no block: the target takes the source's
    fields (and its block, in heap mode), the source becomes a fresh stream -/
theorem transfer_ok {p : Pool} {o src : Nat} {mv : Obj} (hi : Inv p) (hs : p.objs src = some mv) (hne : o ≠ src)
    (hv : ∀ a, p.objs o = some a → a.chars = .stack o) {b : List Nat} (hb : abs p src = some b) :
    Inv ((p.setO o (some { chars := if mv.isHeap then mv.chars else .stack o, alloc := mv.alloc, size := mv.size, stack := mv.stack })).setO
          src (some (freshObj src mv.stack))) ∧
    abs ((p.setO o (some { chars := if mv.isHeap then mv.chars else .stack o, alloc := mv.alloc, size := mv.size, stack := mv.stack })).setO
          src (some (freshObj src mv.stack))) = ((abs p).set o (some b)).set src (some []) := by
  have hlen := hi.stackLen hs
  have hsz := hi.sizeLe hs
  have hobj := hi.obj; simp only [ObjOk] at hobj; have huniq := hi.uniq; have howned := hi.owned; have hfresh := hi.fresh
  cases hi.mode hs with
  | stack ha hc =>
    have hnh : mv.isHeap = false := by simp [Obj.isHeap, ha]
    simp only [hnh, Bool.false_eq_true, if_false]
    constructor
    · constructor
      · intro x t hx
        simp only [setO_objs] at hx
        split at hx
        · cases hx; subst_vars
          exact ⟨hlen, by simp [freshObj], Or.inl ⟨rfl, rfl⟩⟩
        · split at hx
          · cases hx; subst_vars
            exact ⟨hlen, hsz, Or.inl ⟨ha, rfl⟩⟩
          · exact hobj x t hx
      · intro o₁ o₂ s₁ s₂ k h1 h2 c1 c2
        simp only [setO_objs, freshObj] at h1 h2
        grind
      · intro k blk hk
        simp only [setO_heap] at hk
        simp only [setO_objs]
        obtain ⟨o', s', h1, h2⟩ := howned k blk hk
        have h3 : o' ≠ o := by
          intro h; subst h
          rw [hv s' h1] at h2; cases h2
        have h4 : o' ≠ src := by
          intro h; subst h
          rw [hs] at h1; cases h1
          rw [hc] at h2; cases h2
        exact ⟨o', s', by simp [h3, h4, h1], h2⟩
      · exact hfresh
    · funext x
      rw [abs_stack hs hc] at hb; cases hb
      by_cases hxs : x = src
      · subst hxs
        rw [abs_stack (s := freshObj x mv.stack) (by simp) rfl]
        simp [ByteLog.State.set, freshObj]
      · by_cases hxo : x = o
        · subst hxo
          rw [abs_stack (s := { chars := .stack x, alloc := mv.alloc, size := mv.size, stack := mv.stack }) (by simp [hxs]) rfl]
          simp [ByteLog.State.set, hxs]
        · rw [abs_frame hi x (by simp [hxo, hxs]) (by intros; rfl)]
          simp [ByteLog.State.set, hxo, hxs]
  | heap k blk ha hc hk hl =>
    have hnh : mv.isHeap = true := by simp [Obj.isHeap, ha]
    simp only [hnh, if_true]
    constructor
    · constructor
      · intro x t hx
        simp only [setO_objs] at hx
        split at hx
        · cases hx; subst_vars
          exact ⟨hlen, by simp [freshObj], Or.inl ⟨rfl, rfl⟩⟩
        · split at hx
          · cases hx; subst_vars
            exact ⟨hlen, hsz, Or.inr ⟨ha, k, blk, hc, hk, hl⟩⟩
          · exact hobj x t hx
      · intro o₁ o₂ s₁ s₂ k' h1 h2 c1 c2
        simp only [setO_objs, freshObj] at h1 h2
        have := huniq o₁ src
        have := huniq o₂ src
        have := huniq o₁ o₂
        grind
      · intro k' blk' hk'
        simp only [setO_heap] at hk'
        simp only [setO_objs]
        obtain ⟨o', s', h1, h2⟩ := howned k' blk' hk'
        have h3 : o' ≠ o := by
          intro h; subst h
          rw [hv s' h1] at h2; cases h2
        by_cases h4 : o' = src
        · subst h4
          rw [hs] at h1; cases h1
          rw [hc] at h2; cases h2
          exact ⟨o, _, by simp [hne], hc⟩
        · exact ⟨o', s', by simp [h3, h4, h1], h2⟩
      · exact hfresh
    · funext x
      rw [abs_heap hs hc hk] at hb; cases hb
      by_cases hxs : x = src
      · subst hxs
        rw [abs_stack (s := freshObj x mv.stack) (by simp) rfl]
        simp [ByteLog.State.set, freshObj]
      · by_cases hxo : x = o
        · subst hxo
          rw [abs_heap (s := { chars := mv.chars, alloc := mv.alloc, size := mv.size, stack := mv.stack }) (by simp [hxs]) hc
            (show ((p.setO x _).setO src _).heap k = some blk from hk)]
          simp [ByteLog.State.set, hxs]
        · rw [abs_frame hi x (by simp [hxo, hxs]) (by intros; rfl)]
          simp [ByteLog.State.set, hxo, hxs]

theorem abs_dead {p : Pool} {o : Nat} : abs p o = none ↔ p.objs o = none := by
  simp only [abs]; split <;> simp_all

theorem ctor_spec {p : Pool} {o : Nat} (hi : Inv p) (hd : p.objs o = none) :
    ∃ p', ctor o p = .ok () p' ∧ Inv p' ∧ abs p' = (abs p).set o (some []) ∧ p'.failAt = p.failAt := by
  obtain ⟨h1, h2⟩ := fresh_ok hi (o := o) (by intro a ha; rw [hd] at ha; cases ha) (List.replicate stackStringSize 0xCD) (by simp)
  exact ⟨_, by simp only [ctor, bind_apply, requireDead_eq hd, setObj_eq]; rfl, h1, h2, rfl⟩

theorem dtor_spec {p : Pool} {o : Nat} {s : Obj} (hi : Inv p) (ho : p.objs o = some s) :
    ∃ p', dtor o p = .ok () p' ∧ Inv p' ∧ abs p' = (abs p).set o none ∧ p'.failAt = p.failAt := by
  cases hi.mode ho with
  | stack ha hc =>
    have hnh : s.isHeap = false := by simp [Obj.isHeap, ha]
    obtain ⟨h1, h2⟩ := drop_ok hi (o := o) (by intro a h; rw [ho] at h; cases h; exact hc)
    exact ⟨_, by simp only [dtor, bind_apply, getObj_eq ho, hnh, Bool.false_eq_true, if_false, dropObj_eq], h1, h2, rfl⟩
  | heap k blk ha hc hk hl =>
    have hnh : s.isHeap = true := by simp [Obj.isHeap, ha]
    obtain ⟨h1, h2⟩ := release_ok hi ho hc hk
    obtain ⟨h3, h4⟩ := drop_ok h1 (o := o) (by intro a h; simp at h; cases h; rfl)
    rw [setO_setO] at h3 h4
    refine ⟨_, by simp only [dtor, bind_apply, getObj_eq ho, hnh, if_true, hc, deleteBlock_eq hk, dropObj_eq], h3, ?_, rfl⟩
    rw [h4, h2]
    funext x; simp only [ByteLog.State.set]; split <;> rfl

theorem moveCtor_spec {p : Pool} {o src : Nat} {mv : Obj} (hi : Inv p) (hd : p.objs o = none) (hs : p.objs src = some mv)
    {b : List Nat} (hb : abs p src = some b) :
    ∃ p', moveCtor .repaired o src p = .ok () p' ∧ Inv p' ∧ abs p' = ((abs p).set o (some b)).set src (some []) ∧
      p'.failAt = p.failAt ∧ p'.objs src = some (freshObj src mv.stack) := by
  have hne : o ≠ src := by intro h; subst h; rw [hd] at hs; cases hs
  obtain ⟨h1, h2⟩ := transfer_ok hi hs hne (by intro a ha; rw [hd] at ha; cases ha) hb
  have hs' : (p.setO o (some { chars := if mv.isHeap then mv.chars else .stack o, alloc := mv.alloc, size := mv.size, stack := mv.stack })).objs src = some mv := by
    simp [Ne.symm hne, hs]
  refine ⟨_, ?_, h1, h2, rfl, by simp⟩
  simp only [moveCtor, bind_apply, requireDead_eq hd, getObj_eq hs, setObj_eq, movedFrom_repaired]

theorem moveAssign_spec {p : Pool} {o src : Nat} {a mv : Obj} (hi : Inv p) (ho : p.objs o = some a) (hs : p.objs src = some mv)
    (hne : o ≠ src) {b : List Nat} (hb : abs p src = some b) :
    ∃ p', moveAssign .repaired o src p = .ok () p' ∧ Inv p' ∧ abs p' = ((abs p).set o (some b)).set src (some []) ∧
      p'.failAt = p.failAt ∧ p'.objs src = some (freshObj src mv.stack) := by
  cases hi.mode ho with
  | stack ha hc =>
    have hnh : a.isHeap = false := by simp [Obj.isHeap, ha]
    obtain ⟨h1, h2⟩ := transfer_ok hi hs hne (by intro a' h; rw [ho] at h; cases h; exact hc) hb
    refine ⟨_, ?_, h1, h2, rfl, by simp⟩
    simp only [moveAssign, bind_apply, getObj_eq ho, hnh, Bool.false_eq_true, if_false, getObj_eq hs, setObj_eq, movedFrom_repaired]
  | heap k blk ha hc hk hl =>
    have hnh : a.isHeap = true := by simp [Obj.isHeap, ha]
    obtain ⟨h1, h2⟩ := release_ok hi ho hc hk
    have hs1 : ((p.setH k none).setO o (some (freshObj o a.stack))).objs src = some mv := by simp [Ne.symm hne, hs]
    have hb1 : abs ((p.setH k none).setO o (some (freshObj o a.stack))) src = some b := by
      rw [h2]; simp [ByteLog.State.set, Ne.symm hne, hb]
    obtain ⟨h3, h4⟩ := transfer_ok h1 hs1 hne (by intro a' h; simp at h; cases h; rfl) hb1
    rw [setO_setO] at h3 h4
    have hs2 : (p.setH k none).objs src = some mv := hs
    refine ⟨_, ?_, h3, ?_, rfl, by simp⟩
    · simp only [moveAssign, bind_apply, getObj_eq ho, hnh, if_true, hc, deleteBlock_eq hk, getObj_eq hs2, setObj_eq, movedFrom_repaired]
    · rw [h4, h2]
      funext x; simp only [ByteLog.State.set]; split <;> (try rfl)
      split <;> rfl

theorem toString_spec {p : Pool} {o : Nat} {s : Obj} (hi : Inv p) (ho : p.objs o = some s) {b : List Nat} (hb : abs p o = some b)
    (u : Bool) (m : Mode) : toString o u m p = .ok (toStringOf b u m) p := by
  have hsz := hi.sizeLe ho
  cases hi.mode ho with
  | stack ha hc =>
    rw [abs_stack ho hc] at hb; cases hb
    have hr : readUnits s.chars s.size p = .ok (s.stack.take s.size) p := by
      rw [hc]; exact readUnits_stack _ ho (by have := hi.stackLen ho; omega)
    simp only [toString, bind_apply, getObj_eq ho, hr, pure_apply]
  | heap k blk ha hc hk hl =>
    rw [abs_heap ho hc hk] at hb; cases hb
    have hr : readUnits s.chars s.size p = .ok (blk.take s.size) p := by
      rw [hc]; exact readUnits_heap _ hk (by omega)
    simp only [toString, bind_apply, getObj_eq ho, hr, pure_apply]

/-- the fault-schedule counter is not part of the invariant or of what a stream shows -/
theorem inv_allocs {p : Pool} (hi : Inv p) (n : Nat) : Inv { p with allocs := n } :=
  ⟨hi.obj, hi.uniq, hi.owned, hi.fresh⟩
theorem abs_allocs (p : Pool) (n : Nat) : abs { p with allocs := n } = abs p := rfl

theorem append_nil_set {st : ByteLog.State} {o : Nat} {b : List Nat} (hb : st o = some b) : st.set o (some (b ++ [])) = st := by
  rw [List.append_nil]; exact set_same _ _ _ hb

theorem live_of_abs {p : Pool} {o : Nat} (h : (abs p o).isSome = true) : ∃ s b, p.objs o = some s ∧ abs p o = some b := by
  cases hs : p.objs o with
  | none => rw [abs_none hs] at h; cases h
  | some s =>
    cases hb : abs p o with
    | none => rw [hb] at h; cases h
    | some b => exact ⟨s, b, rfl, rfl⟩

theorem dead_of_abs {p : Pool} {o : Nat} (h : (abs p o).isNone = true) : p.objs o = none := by
  cases hs : p.objs o with
  | none => rfl
  | some s => simp [abs, hs] at h

/-- wide text: the conversion either yields the reference rendering, which is appended, or rejects the
    text with `unicode_error` before the stream is touched -/
theorem appendText_spec {p : Pool} {o : Nat} {s : Obj} (hi : Inv p) (ho : p.objs o = some s) {b : List Nat} (hb : abs p o = some b)
    (e : Utf.Enc) (m : Mode) (xs : List Nat) (hne : e ≠ .utf8) (hu : UnitsLt (Lemmas.Utf.unitBound e) xs) (hlen : xs.length < hugeBufferSize) :
    (∃ p', appendText o e m (some xs) p = .ok () p' ∧ Inv p' ∧ (∃ bytes, textRendering e m xs = some bytes ∧
        abs p' = (abs p).set o (some (b ++ bytes))) ∧ p'.failAt = p.failAt)
    ∨ (∃ p', appendText o e m (some xs) p = .throw .unicodeError p' ∧ Inv p' ∧ abs p' = abs p ∧ textRendering e m xs = none ∧ p'.failAt = p.failAt)
    ∨ (∃ p', appendText o e m (some xs) p = .throw .badAlloc p' ∧ Inv p' ∧ abs p' = abs p ∧ p.failAt ≠ none ∧ p'.failAt = p.failAt) := by
  have hconv := Lemmas.Utf.convert_eq_reference e .utf8 hne m false xs hu hlen
  -- the state after the conversion's own allocation (if any)
  have key : ∀ p0 : Pool, Inv p0 → p0.objs o = some s → abs p0 = abs p → p0.failAt = p.failAt →
      (∃ p', (match Utf.convert e .utf8 m false (some xs) with
                | .ok bytes => append o bytes
                | .throw e => throwE e
                | _ => fault .convAbort) p0 = .ok () p' ∧ Inv p' ∧ (∃ bytes, textRendering e m xs = some bytes ∧
          abs p' = (abs p).set o (some (b ++ bytes))) ∧ p'.failAt = p.failAt)
      ∨ (∃ p', (match Utf.convert e .utf8 m false (some xs) with
                | .ok bytes => append o bytes
                | .throw e => throwE e
                | _ => fault .convAbort) p0 = .throw .unicodeError p' ∧ Inv p' ∧ abs p' = abs p ∧ textRendering e m xs = none ∧ p'.failAt = p.failAt)
      ∨ (∃ p', (match Utf.convert e .utf8 m false (some xs) with
                | .ok bytes => append o bytes
                | .throw e => throwE e
                | _ => fault .convAbort) p0 = .throw .badAlloc p' ∧ Inv p' ∧ abs p' = abs p ∧ p.failAt ≠ none ∧ p'.failAt = p.failAt) := by
    intro p0 hi0 ho0 ha0 hf0
    rw [hconv]
    cases h : Unicode.refSteps e .utf8 m false (Unicode.seg e xs) with
    | some out =>
      have hr : Unicode.reference e .utf8 m false xs = .ok out := by simp [Unicode.reference, h]
      have ht : textRendering e m xs = some out := by simp [textRendering, hr]
      rw [hr]
      rcases append_spec hi0 ho0 (b := b) (by rw [ha0]; exact hb) out with ⟨p', h1, h2, h3, h4⟩ | ⟨h1, h2⟩
      · exact Or.inl ⟨p', h1, h2, ⟨out, ht, by rw [h3, ha0]⟩, h4.trans hf0⟩
      · refine Or.inr (Or.inr ⟨_, h1, inv_allocs hi0 _, ha0, ?_, hf0⟩)
        rw [← hf0, h2]; simp
    | none =>
      have hr : Unicode.reference e .utf8 m false xs = .throw .unicodeError := by simp [Unicode.reference, h]
      have ht : textRendering e m xs = none := by simp [textRendering, hr]
      rw [hr]
      exact Or.inr (Or.inl ⟨p0, rfl, hi0, ha0, ht, hf0⟩)
  by_cases hm : Utf.measure e .utf8 xs ≥ maxSsoLength
  · by_cases hfail : p.failAt = some (p.allocs + 1)
    · refine Or.inr (Or.inr ⟨{ p with allocs := p.allocs + 1 }, ?_, inv_allocs hi _, rfl, by rw [hfail]; simp, rfl⟩)
      simp only [appendText, bind_apply, if_pos hm, tickAlloc, if_pos hfail]
    · have h0 := key { p with allocs := p.allocs + 1 } (inv_allocs hi _) ho rfl rfl
      simp only [appendText, bind_apply, if_pos hm, tickAlloc, if_neg hfail]
      exact h0
  · have h0 := key p hi ho rfl rfl
    simp only [appendText, if_neg hm]
    exact h0

theorem set_set (st : ByteLog.State) (o : Nat) (a b : Option (List Nat)) : (st.set o a).set o b = st.set o b := by
  funext x; simp only [ByteLog.State.set]; split <;> rfl

theorem set_get (st : ByteLog.State) (o : Nat) (a : Option (List Nat)) : (st.set o a) o = a := by
  simp [ByteLog.State.set]


/-- the fields of the stream after the two closing statements of an append -/
theorem storeAtEnd_fields {p : Pool} {o : Nat} {s : Obj} (hi : Inv p) (ho : p.objs o = some s) (bytes : List Nat)
    (hroom : s.size + bytes.length ≤ s.alloc) (p' : Pool) (h : storeAtEnd o bytes p = .ok () p') :
    ∃ s', p'.objs o = some s' ∧ s'.alloc = s.alloc ∧ s'.size = s.size + bytes.length := by
  have hlen := hi.stackLen ho
  cases hi.mode ho with
  | stack ha hc =>
    have hw : writeUnits s.chars s.size bytes p = .ok () (p.setO o (some { s with stack := overwrite s.stack s.size bytes })) := by
      have := writeUnits_stack s.size bytes ho (by omega); rwa [← hc] at this
    have ho2 : (p.setO o (some { s with stack := overwrite s.stack s.size bytes })).objs o = some { s with stack := overwrite s.stack s.size bytes } := by simp
    simp only [storeAtEnd, bind_apply, getObj_eq ho, hw, getObj_eq ho2, setObj_eq] at h
    cases h
    exact ⟨{ s with stack := overwrite s.stack s.size bytes, size := s.size + bytes.length }, by simp, rfl, rfl⟩
  | heap k blk ha hc hk hl =>
    have hw : writeUnits s.chars s.size bytes p = .ok () (p.setH k (some (overwrite blk s.size bytes))) := by
      have := writeUnits_heap s.size bytes hk (by omega); rwa [← hc] at this
    have ho2 : (p.setH k (some (overwrite blk s.size bytes))).objs o = some s := ho
    simp only [storeAtEnd, bind_apply, getObj_eq ho, hw, getObj_eq ho2, setObj_eq] at h
    cases h
    exact ⟨{ s with size := s.size + bytes.length }, by simp, rfl, rfl⟩

/-- with room for the bytes nothing is allocated: the store cannot throw, the capacity stays -/
theorem growStore_room {p : Pool} {o : Nat} {s : Obj} (hi : Inv p) (ho : p.objs o = some s) {b : List Nat} (hb : abs p o = some b)
    (bytes : List Nat) (hroom : s.size + bytes.length ≤ s.alloc) :
    ∃ p' s', (expandBuffer o bytes.length >>= fun _ => storeAtEnd o bytes) p = .ok () p' ∧ Inv p' ∧
      abs p' = (abs p).set o (some (b ++ bytes)) ∧ p'.failAt = p.failAt ∧
      p'.objs o = some s' ∧ s'.alloc = s.alloc ∧ s'.size = s.size + bytes.length := by
  obtain ⟨p2, h2, hi2, ha2, hf2⟩ := storeAtEnd_ok hi ho bytes hroom hb
  obtain ⟨s', h3, h4, h5⟩ := storeAtEnd_fields hi ho bytes hroom p2 h2
  refine ⟨p2, s', ?_, hi2, ha2, hf2, h3, h4, h5⟩
  simp only [bind_apply, expand_nogrow ho _ hroom, h2]

theorem append_room {p : Pool} {o : Nat} {s : Obj} (hi : Inv p) (ho : p.objs o = some s) {b : List Nat} (hb : abs p o = some b)
    (bytes : List Nat) (hroom : s.size + bytes.length ≤ s.alloc) :
    ∃ p' s', append o bytes p = .ok () p' ∧ Inv p' ∧ abs p' = (abs p).set o (some (b ++ bytes)) ∧ p'.failAt = p.failAt ∧
      p'.objs o = some s' ∧ s'.alloc = s.alloc ∧ s'.size = s.size + bytes.length := by
  by_cases h0 : bytes.length = 0
  · have : bytes = [] := List.eq_nil_of_length_eq_zero h0
    subst this
    refine ⟨p, s, by simp [append], hi, ?_, rfl, ho, rfl, rfl⟩
    rw [List.append_nil, set_same _ _ _ hb]
  · have : append o bytes = (expandBuffer o bytes.length >>= fun _ => storeAtEnd o bytes) := by
      simp [append, h0]
    rw [this]
    exact growStore_room hi ho hb bytes hroom

theorem appendChar_room {p : Pool} {o : Nat} {s : Obj} (hi : Inv p) (ho : p.objs o = some s) {b : List Nat} (hb : abs p o = some b)
    (ch n : Nat) (hroom : s.size + n ≤ s.alloc) :
    ∃ p' s', appendChar o ch n p = .ok () p' ∧ Inv p' ∧ abs p' = (abs p).set o (some (b ++ List.replicate n ch)) ∧ p'.failAt = p.failAt ∧
      p'.objs o = some s' ∧ s'.alloc = s.alloc ∧ s'.size = s.size + n := by
  by_cases h0 : n = 0
  · subst h0
    refine ⟨p, s, by simp [appendChar], hi, ?_, rfl, ho, rfl, rfl⟩
    rw [List.replicate_zero, List.append_nil, set_same _ _ _ hb]
  · have : appendChar o ch n = (expandBuffer o (List.replicate n ch).length >>= fun _ => storeAtEnd o (List.replicate n ch)) := by
      simp [appendChar, h0]
    rw [this]
    have := growStore_room hi ho hb (List.replicate n ch) (by simpa using hroom)
    simpa using this

/-- `operator<<` of a number (repaired): room for sign and digits is made first, so a failed allocation leaves
    every stream as it was -/
theorem appendNum_spec {p : Pool} {o : Nat} {s : Obj} (hi : Inv p) (ho : p.objs o = some s) {b : List Nat} (hb : abs p o = some b)
    (neg : Bool) (ds : List Nat) :
    (∃ p', appendNum o neg ds p = .ok () p' ∧ Inv p' ∧ abs p' = (abs p).set o (some (b ++ ((if neg then [45] else []) ++ ds))) ∧ p'.failAt = p.failAt)
    ∨ (∃ p', appendNum o neg ds p = .throw .badAlloc p' ∧ Inv p' ∧ p.failAt ≠ none ∧ p'.failAt = p.failAt ∧ abs p' = abs p) := by
  cases neg with
  | false =>
    have : appendNum o false ds = append o ds := by simp [appendNum]
    rw [this]
    rcases append_spec hi ho hb ds with ⟨p', h1, h2, h3, h4⟩ | ⟨h1, h2⟩
    · exact Or.inl ⟨p', h1, h2, by simpa using h3, h4⟩
    · exact Or.inr ⟨{ p with allocs := p.allocs + 1 }, h1, inv_allocs hi _, by rw [h2]; simp, rfl, rfl⟩
  | true =>
    have : appendNum o true ds = (expandBuffer o (ds.length + 1) >>= fun _ => appendChar o 45 1 >>= fun _ => append o ds) := by
      simp [appendNum]
    rw [this]
    -- after the reservation: a pool p1 with the same contents in which sign and digits fit
    have key : ∀ p1 s1, Inv p1 → p1.objs o = some s1 → abs p1 = abs p → p1.failAt = p.failAt → s1.size + (ds.length + 1) ≤ s1.alloc →
        ∃ p', (appendChar o 45 1 >>= fun _ => append o ds) p1 = .ok () p' ∧ Inv p' ∧
          abs p' = (abs p).set o (some (b ++ ([45] ++ ds))) ∧ p'.failAt = p.failAt := by
      intro p1 s1 hi1 ho1 ha1 hf1 hr1
      have hb1 : abs p1 o = some b := by rw [ha1]; exact hb
      obtain ⟨p2, s2, h2, hi2, ha2, hf2, ho2, hal2, hsz2⟩ := appendChar_room hi1 ho1 hb1 45 1 (by omega)
      have hb2 : abs p2 o = some (b ++ [45]) := by rw [ha2, set_get]; rfl
      obtain ⟨p3, s3, h3, hi3, ha3, hf3, _⟩ := append_room hi2 ho2 hb2 ds (by omega)
      refine ⟨p3, by simp only [bind_apply, h2, h3], hi3, ?_, hf3.trans (hf2.trans hf1)⟩
      rw [ha3, ha2, set_set, ha1]; simp
    by_cases hneed : s.size + (ds.length + 1) > s.alloc
    · by_cases hfail : p.failAt = some (p.allocs + 1)
      · refine Or.inr ⟨{ p with allocs := p.allocs + 1 }, ?_, inv_allocs hi _, by rw [hfail]; simp, rfl, rfl⟩
        simp only [bind_apply, expand_fail hi ho _ hneed hfail]
      · obtain ⟨p1, h1, hi1, ha1, ⟨s1, ho1, hs1, hr1⟩, hf1⟩ := expand_grow hi ho (ds.length + 1) hneed hfail
        obtain ⟨p', h2, h3, h4, h5⟩ := key p1 s1 hi1 ho1 ha1 hf1 (by omega)
        exact Or.inl ⟨p', by simp only [bind_apply, h1]; exact h2, h3, by simpa using h4, h5⟩
    · obtain ⟨p', h2, h3, h4, h5⟩ := key p s hi ho rfl rfl (by omega)
      exact Or.inl ⟨p', by simp only [bind_apply, expand_nogrow ho _ (by omega : s.size + (ds.length + 1) ≤ s.alloc)]; exact h2, h3, by simpa using h4, h5⟩

/-- One step of any admissible history from a pool that satisfies the invariant: the operation returns
    (or throws `unicode_error` for malformed wide text, or `bad_alloc` under a fault schedule, in both
    cases showing the same bytes in every stream as before) — never a
    fault, never `stuck` —, the invariant holds again, and the abstraction moved by the spec step. -/
theorem step_sound {p : Pool} (hi : Inv p) (op : Op) (hwf : op.wf) (hok : ByteLog.ok (abs p) op.toSpec = true) :
    (∃ p', op.run .repaired p = .ok () p' ∧ Inv p' ∧ abs p' = ByteLog.step (abs p) op.toSpec ∧ p'.failAt = p.failAt)
    ∨ (∃ p', op.run .repaired p = .throw .unicodeError p' ∧ Inv p' ∧ abs p' = abs p ∧ ByteLog.step (abs p) op.toSpec = abs p ∧
          p'.failAt = p.failAt)
    ∨ (∃ p', op.run .repaired p = .throw .badAlloc p' ∧ Inv p' ∧ p.failAt ≠ none ∧ p'.failAt = p.failAt ∧ abs p' = abs p) := by
  cases op with
  | ctor o =>
    simp only [Op.toSpec, ByteLog.ok] at hok
    obtain ⟨p', h1, h2, h3, h4⟩ := ctor_spec hi (dead_of_abs hok)
    exact Or.inl ⟨p', h1, h2, h3, h4⟩
  | dtor o =>
    simp only [Op.toSpec, ByteLog.ok] at hok
    obtain ⟨s, b, ho, hb⟩ := live_of_abs hok
    obtain ⟨p', h1, h2, h3, h4⟩ := dtor_spec hi ho
    exact Or.inl ⟨p', h1, h2, h3, h4⟩
  | moveCtor o src =>
    simp only [Op.toSpec, ByteLog.ok, Bool.and_eq_true] at hok
    obtain ⟨s, b, hs, hb⟩ := live_of_abs hok.2
    obtain ⟨p', h1, h2, h3, h4, _⟩ := moveCtor_spec hi (dead_of_abs hok.1) hs hb
    exact Or.inl ⟨p', h1, h2, by simp only [Op.toSpec, ByteLog.step, hb]; exact h3, h4⟩
  | moveAssign o src =>
    simp only [Op.toSpec, ByteLog.ok, Bool.and_eq_true, bne_iff_ne, ne_eq] at hok
    obtain ⟨a, _, ho, _⟩ := live_of_abs hok.1.1
    obtain ⟨s, b, hs, hb⟩ := live_of_abs hok.1.2
    obtain ⟨p', h1, h2, h3, h4, _⟩ := moveAssign_spec hi ho hs hok.2 hb
    exact Or.inl ⟨p', h1, h2, by simp only [Op.toSpec, ByteLog.step, hb]; exact h3, h4⟩
  | append o bs =>
    simp only [Op.toSpec, ByteLog.ok] at hok
    obtain ⟨s, b, ho, hb⟩ := live_of_abs hok
    rcases append_spec hi ho hb bs with ⟨p', h1, h2, h3, h4⟩ | ⟨h1, h2⟩
    · exact Or.inl ⟨p', h1, h2, by simp only [Op.toSpec, ByteLog.step, hb]; exact h3, h4⟩
    · exact Or.inr (Or.inr ⟨{ p with allocs := p.allocs + 1 }, h1, inv_allocs hi _, by rw [h2]; simp, rfl, rfl⟩)
  | appendChar o c n =>
    simp only [Op.toSpec, ByteLog.ok] at hok
    obtain ⟨s, b, ho, hb⟩ := live_of_abs hok
    rcases appendChar_spec hi ho hb c n with ⟨p', h1, h2, h3, h4⟩ | ⟨h1, h2⟩
    · exact Or.inl ⟨p', h1, h2, by simp only [Op.toSpec, ByteLog.step, hb]; exact h3, h4⟩
    · exact Or.inr (Or.inr ⟨{ p with allocs := p.allocs + 1 }, h1, inv_allocs hi _, by rw [h2]; simp, rfl, rfl⟩)
  | appendText o e m us =>
    cases us with
    | none =>
      simp only [Op.toSpec, ByteLog.ok] at hok
      obtain ⟨s, b, ho, hb⟩ := live_of_abs hok
      refine Or.inl ⟨p, by simp [Op.run, appendText], hi, ?_, rfl⟩
      simp only [Op.toSpec, ByteLog.step, hb]
      exact (append_nil_set hb).symm
    | some xs =>
      simp only [Op.toSpec, ByteLog.ok] at hok
      obtain ⟨s, b, ho, hb⟩ := live_of_abs hok
      obtain ⟨hne, hu, hlen⟩ := hwf
      rcases appendText_spec hi ho hb e m xs hne hu hlen with ⟨p', h1, h2, ⟨bytes, h3, h4⟩, h5⟩ | ⟨p', h1, h2, h3, h4, h5⟩ | ⟨p', h1, h2, h3, h4, h5⟩
      · exact Or.inl ⟨p', h1, h2, by simp only [Op.toSpec, ByteLog.step, hb, h3, Option.getD_some]; exact h4, h5⟩
      · refine Or.inr (Or.inl ⟨p', h1, h2, h3, ?_, h5⟩)
        simp only [Op.toSpec, ByteLog.step, hb, h4, Option.getD_none]
        exact append_nil_set hb
      · exact Or.inr (Or.inr ⟨p', h1, h2, h4, h5, h3⟩)
  | appendNum o neg ds =>
    simp only [Op.toSpec, ByteLog.ok] at hok
    obtain ⟨s, b, ho, hb⟩ := live_of_abs hok
    rcases appendNum_spec hi ho hb neg ds with ⟨p', h1, h2, h3, h4⟩ | ⟨p', h1, h2, h3, h4, h5⟩
    · exact Or.inl ⟨p', h1, h2, by simp only [Op.toSpec, ByteLog.step, hb]; exact h3, h4⟩
    · exact Or.inr (Or.inr ⟨p', h1, h2, h3, h4, h5⟩)
  | truncate o n =>
    simp only [Op.toSpec, ByteLog.ok] at hok
    obtain ⟨s, b, ho, hb⟩ := live_of_abs hok
    obtain ⟨p', h1, h2, h3, h4⟩ := truncate_spec hi ho hb n
    exact Or.inl ⟨p', h1, h2, by simp only [Op.toSpec, ByteLog.step, hb]; exact h3, h4⟩
  | erase o n =>
    simp only [Op.toSpec, ByteLog.ok] at hok
    obtain ⟨s, b, ho, hb⟩ := live_of_abs hok
    obtain ⟨p', h1, h2, h3, h4⟩ := erase_spec hi ho hb n
    exact Or.inl ⟨p', h1, h2, by simp only [Op.toSpec, ByteLog.step, hb]; exact h3, h4⟩
  | toString o u m =>
    simp only [Op.toSpec, ByteLog.ok] at hok
    obtain ⟨s, b, ho, hb⟩ := live_of_abs hok
    refine Or.inl ⟨p, by simp only [Op.run, bind_apply, toString_spec hi ho hb, pure_apply], hi, ?_, rfl⟩
    simp only [Op.toSpec, ByteLog.step, hb]
    exact (append_nil_set hb).symm

theorem observe_spec {p : Pool} {o : Nat} {s : Obj} (hi : Inv p) (ho : p.objs o = some s) {b : List Nat} (hb : abs p o = some b) :
    observe o p = .ok { size := b.length, bytes := b, ptr := s.chars } p := by
  have hsz := hi.sizeLe ho
  obtain ⟨b', hb', hbl⟩ := abs_some hi ho
  rw [hb] at hb'; cases hb'
  cases hi.mode ho with
  | stack ha hc =>
    rw [abs_stack ho hc] at hb; cases hb
    have hr : readUnits s.chars s.size p = .ok (s.stack.take s.size) p := by
      rw [hc]; exact readUnits_stack _ ho (by have := hi.stackLen ho; omega)
    simp only [observe, bind_apply, getObj_eq ho, hr, pure_apply, hbl]
  | heap k blk ha hc hk hl =>
    rw [abs_heap ho hc hk] at hb; cases hb
    have hr : readUnits s.chars s.size p = .ok (blk.take s.size) p := by
      rw [hc]; exact readUnits_heap _ hk (by omega)
    simp only [observe, bind_apply, getObj_eq ho, hr, pure_apply, hbl]

theorem inv_init : Inv Pool.init where
  obj := by intro o s h; cases h
  uniq := by intro o₁ o₂ s₁ s₂ k h; cases h
  owned := by intro k blk h; cases h
  fresh := by intro k _; rfl

theorem abs_init : abs Pool.init = ByteLog.State.init := rfl

/-- histories: from any pool satisfying the invariant with no fault schedule armed -/
theorem run_sound : ∀ (ops : List Op) (p : Pool), Inv p → p.failAt = none → HistOk (abs p) ops →
    ∃ p', runOps .repaired ops p = .ok () p' ∧ Inv p' ∧ abs p' = ByteLog.run (abs p) (ops.map Op.toSpec) ∧ p'.failAt = none := by
  intro ops
  induction ops with
  | nil => intro p hi hf _; exact ⟨p, rfl, hi, rfl, hf⟩
  | cons op rest ih =>
    intro p hi hf hh
    obtain ⟨hwf, hok, hrest⟩ := hh
    rcases step_sound hi op hwf hok with ⟨p1, h1, hi1, ha1, hf1⟩ | ⟨p1, h1, hi1, ha1, hs1, hf1⟩ | ⟨p1, h1, _, hne, _⟩
    · obtain ⟨p2, h2, hi2, ha2, hf2⟩ := ih p1 hi1 (hf1.trans hf) (by rw [ha1]; exact hrest)
      exact ⟨p2, by simp only [runOps, h1, h2], hi2, by rw [ha2, ha1]; rfl, hf2⟩
    · obtain ⟨p2, h2, hi2, ha2, hf2⟩ := ih p1 hi1 (hf1.trans hf) (by rw [ha1]; rw [hs1] at hrest; exact hrest)
      refine ⟨p2, by simp only [runOps, h1, h2], hi2, ?_, hf2⟩
      show abs p2 = ByteLog.run (ByteLog.step (abs p) op.toSpec) (rest.map Op.toSpec)
      rw [hs1, ha2, ha1]
    · exact absurd hf hne

theorem destroyAll_spec : ∀ (ids : List Nat) (p : Pool), Inv p →
    ∃ p', destroyAll ids p = .ok () p' ∧ Inv p' ∧ (∀ o, o ∈ ids → p'.objs o = none) ∧ (∀ o, p.objs o = none → p'.objs o = none) := by
  intro ids
  induction ids with
  | nil => intro p hi; exact ⟨p, rfl, hi, (by intro o h; cases h), fun _ h => h⟩
  | cons o rest ih =>
    intro p hi
    cases ho : p.objs o with
    | none =>
      obtain ⟨p', h1, h2, h3, h4⟩ := ih p hi
      refine ⟨p', by simp [destroyAll, ho, h1], h2, ?_, h4⟩
      intro x hx
      rcases List.mem_cons.mp hx with h | h
      · subst h; exact h4 _ ho
      · exact h3 x h
    | some s =>
      obtain ⟨p1, h1, hi1, ha1, _⟩ := dtor_spec hi ho
      obtain ⟨p', h2, hi2, h3, h4⟩ := ih p1 hi1
      have hdead : ∀ x, abs p1 x = none → p1.objs x = none := fun x h => abs_dead.mp h
      refine ⟨p', by simp [destroyAll, ho, h1, h2], hi2, ?_, ?_⟩
      · intro x hx
        rcases List.mem_cons.mp hx with h | h
        · subst h; exact h4 _ (hdead _ (by rw [ha1]; simp [ByteLog.State.set]))
        · exact h3 x h
      · intro x hx
        apply h4
        apply hdead
        rw [ha1]; simp only [ByteLog.State.set]; split
        · rfl
        · exact abs_dead.mpr hx

/-- destroying every live stream of a pool satisfying the invariant succeeds and leaves an empty heap -/
theorem destroyAll_empty {p : Pool} (hi : Inv p) (ids : List Nat) (hall : ∀ o, p.objs o ≠ none → o ∈ ids) :
    ∃ p', destroyAll ids p = .ok () p' ∧ (∀ o, p'.objs o = none) ∧ ∀ k, p'.heap k = none := by
  obtain ⟨p', h4, h5, h6, h7⟩ := destroyAll_spec ids p hi
  have hdead : ∀ o, p'.objs o = none := by
    intro o
    by_cases ho : o ∈ ids
    · exact h6 o ho
    · exact h7 o (Classical.byContradiction fun hne => ho (hall o hne))
  refine ⟨p', h4, hdead, fun k => ?_⟩
  cases hk : p'.heap k with
  | none => rfl
  | some blk =>
    obtain ⟨o, s, ho, _⟩ := h5.owned k blk hk
    rw [hdead o] at ho; cases ho

end StVerif.Stream
