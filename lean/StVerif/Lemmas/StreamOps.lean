/-
  C16 helper lemmas, part 2: for every member function of the stream machine, what it returns on a
  pool that satisfies the invariant — the new pool satisfies it again and its abstraction is the spec
  step.  (Free to change; the property theorems are in Props/C16.lean.)
-/
import StVerif.Lemmas.Stream

namespace StVerif.Stream
open StVerif StVerif.Generated StVerif.Spec

theorem abs_stack {p : Pool} {o : Nat} {s : Obj} (ho : p.objs o = some s) (hc : s.chars = .stack o) :
    abs p o = some (s.stack.take s.size) := by simp [abs, content, ho, hc]
theorem abs_heap {p : Pool} {o k : Nat} {s : Obj} {blk : List Nat} (ho : p.objs o = some s) (hc : s.chars = .heap k) (hk : p.heap k = some blk) :
    abs p o = some (blk.take s.size) := by simp [abs, content, ho, hc, hk]
theorem abs_none {p : Pool} {o : Nat} (ho : p.objs o = none) : abs p o = none := by simp [abs, ho]

theorem Inv.lt_next {p : Pool} (hi : Inv p) {k : Nat} {blk : List Nat} (hk : p.heap k = some blk) : k < p.next := by
  rcases Nat.lt_or_ge k p.next with h | h
  · exact h
  · rw [hi.fresh k h] at hk; cases hk

/-- a stream whose fields and whose block (if any) are untouched shows the same bytes -/
theorem abs_frame {p p' : Pool} (hi : Inv p) (x : Nat) (hobjs : p'.objs x = p.objs x)
    (hheap : ∀ t k, p.objs x = some t → t.chars = .heap k → p'.heap k = p.heap k) : abs p' x = abs p x := by
  cases hx : p.objs x with
  | none => rw [abs_none hx, abs_none (hobjs.trans hx)]
  | some t =>
    cases hi.mode hx with
    | stack ha hc => rw [abs_stack hx hc, abs_stack (hobjs.trans hx) hc]
    | heap k blk ha hc hk hl => rw [abs_heap hx hc hk, abs_heap (hobjs.trans hx) hc ((hheap t k hx hc).trans hk)]

/-- result of `expand_buffer` when it has to grow -/
theorem expand_grow {p : Pool} {o : Nat} {s : Obj} (hi : Inv p) (ho : p.objs o = some s) (added : Nat)
    (hneed : s.size + added > s.alloc) (hfail : p.failAt ≠ some (p.allocs + 1)) :
    ∃ p', expandBuffer o added p = .ok () p' ∧ Inv p' ∧ abs p' = abs p ∧
      (∃ s', p'.objs o = some s' ∧ s'.size = s.size ∧ s.size + added ≤ s'.alloc) ∧ p'.failAt = p.failAt := by
  have hlen := hi.stackLen ho
  have hsz := hi.sizeLe ho
  have hobj := hi.obj; simp only [ObjOk] at hobj; have huniq := hi.uniq; have howned := hi.owned; have hfresh := hi.fresh
  cases hi.mode ho with
  | stack ha hc =>
    obtain ⟨big, hg, hb1, hb2⟩ := growLoop_spec (s.size + added) (s.size + added + 1) s.alloc (by have := cap_pos; omega) (by omega) (by omega)
    have hnh : s.isHeap = false := by simp [Obj.isHeap, ha]
    have ho1 : (p.setH p.next (some (List.replicate big 0xCD))).bump.objs o = some s := ho
    have hh1 : (p.setH p.next (some (List.replicate big 0xCD))).bump.heap p.next = some (List.replicate big 0xCD) := by simp
    have hr := readUnits_stack s.alloc ho1 (Nat.le_of_eq (ha.trans hlen.symm))
    have hw := writeUnits_heap 0 (s.stack.take s.alloc) hh1 (by simp [hlen, ha]; omega)
    simp only [expandBuffer, bind_apply, getObj_eq ho, if_pos hneed, hg, pure_apply, newBlock_eq _ hfail, hc,
      hr, hw, hnh, Bool.false_eq_true, if_false, setObj_eq]
    refine ⟨_, rfl, ?_, ?_, ⟨{ s with chars := .heap p.next, alloc := big }, by simp, rfl, hb1⟩, rfl⟩
    · constructor
      · intro x t hx
        simp only [setO_objs, bump_objs, setH_objs] at hx
        split at hx
        · cases hx; subst_vars
          refine ⟨hlen, by simp; omega, Or.inr ⟨by simp; omega, p.next, _, rfl, by simp; rfl, ?_⟩⟩
          rw [overwrite_length] <;> simp [hlen, ha]; omega
        · obtain ⟨h1, h2, h3⟩ := hobj x t hx
          refine ⟨h1, h2, ?_⟩
          rcases h3 with h3 | ⟨h3, k, blk, hk1, hk2, hk3⟩
          · exact Or.inl h3
          · refine Or.inr ⟨h3, k, blk, hk1, ?_, hk3⟩
            simp
            have : k ≠ p.next := by intro h; subst h; have := hfresh p.next (Nat.le_refl _); simp [this] at hk2
            simp [this, hk2]
      · intro o₁ o₂ s₁ s₂ k h1 h2 c1 c2
        simp only [setO_objs, bump_objs, setH_objs] at h1 h2
        grind
      · intro k blk hk
        simp only [setO_heap, bump_heap, setH_heap] at hk
        simp only [setO_objs, bump_objs, setH_objs]
        grind
      · intro k hk
        simp only [setO_next, bump_next, setH_next] at hk
        simp only [setO_heap, bump_heap, setH_heap]
        have := hfresh k (by omega)
        grind
    · funext x
      by_cases hxo : x = o
      · subst hxo
        rw [abs_stack ho hc, abs_heap (k := p.next) (s := { s with chars := .heap p.next, alloc := big }) (by simp) rfl (by simp; rfl)]
        rw [overwrite_zero_take _ _ _ (by simp [hlen, ha]; omega), List.take_take, Nat.min_eq_left hsz]
      · apply abs_frame hi x (by simp [hxo])
        intro t k hx hc
        obtain ⟨_, _, h | ⟨_, k', blk', hk1, hk2, _⟩⟩ := hobj x t hx
        · rw [h.2] at hc; cases hc
        · rw [hk1] at hc; cases hc
          have := hi.lt_next hk2
          have hne : k ≠ p.next := by omega
          simp [hne]
  | heap k blk ha hc hk hl =>
    obtain ⟨big, hg, hb1, hb2⟩ := growLoop_spec (s.size + added) (s.size + added + 1) s.alloc (by omega) (by omega) (by omega)
    have hnh : s.isHeap = true := by simp [Obj.isHeap, ha]
    have hkn : k ≠ p.next := by have := hi.lt_next hk; omega
    have hk1 : (p.setH p.next (some (List.replicate big 0xCD))).bump.heap k = some blk := by simp [hkn, hk]
    have hh1 : (p.setH p.next (some (List.replicate big 0xCD))).bump.heap p.next = some (List.replicate big 0xCD) := by simp
    have hr := readUnits_heap s.alloc hk1 (Nat.le_of_eq hl.symm)
    have hw := writeUnits_heap 0 (blk.take s.alloc) hh1 (by simp [hl]; omega)
    have hk2 : ((p.setH p.next (some (List.replicate big 0xCD))).bump.setH p.next
        (some (overwrite (List.replicate big 0xCD) 0 (blk.take s.alloc)))).heap k = some blk := by simp [hkn, hk]
    have hd := deleteBlock_eq hk2
    simp only [expandBuffer, bind_apply, getObj_eq ho, if_pos hneed, hg, pure_apply, newBlock_eq _ hfail, hc,
      hr, hw, hnh, if_true, hd, setObj_eq]
    refine ⟨_, rfl, ?_, ?_, ⟨{ s with chars := .heap p.next, alloc := big }, by simp, rfl, hb1⟩, rfl⟩
    · constructor
      · intro x t hx
        simp only [setO_objs, bump_objs, setH_objs] at hx
        split at hx
        · cases hx; subst_vars
          refine ⟨hlen, by simp; omega, Or.inr ⟨by simp; omega, p.next, _, rfl, by simp [Ne.symm hkn]; rfl, ?_⟩⟩
          rw [overwrite_length] <;> simp [hl]; omega
        · obtain ⟨h1, h2, h3⟩ := hobj x t hx
          refine ⟨h1, h2, ?_⟩
          rcases h3 with h3 | ⟨h3, k', blk', hk1', hk2', hk3'⟩
          · exact Or.inl h3
          · refine Or.inr ⟨h3, k', blk', hk1', ?_, hk3'⟩
            have h1 : k' ≠ p.next := by have := hi.lt_next hk2'; omega
            have h2 : k' ≠ k := by
              intro h; subst h
              have := huniq x o t s k' hx ho hk1' hc
              contradiction
            simp [h1, h2, hk2']
      · intro o₁ o₂ s₁ s₂ k h1 h2 c1 c2
        simp only [setO_objs, bump_objs, setH_objs] at h1 h2
        grind
      · intro k blk hk
        simp only [setO_heap, bump_heap, setH_heap] at hk
        simp only [setO_objs, bump_objs, setH_objs]
        grind
      · intro k hk
        simp only [setO_next, bump_next, setH_next] at hk
        simp only [setO_heap, bump_heap, setH_heap]
        have := hfresh k (by omega)
        grind
    · funext x
      by_cases hxo : x = o
      · subst hxo
        rw [abs_heap ho hc hk, abs_heap (k := p.next) (s := { s with chars := .heap p.next, alloc := big }) (by simp) rfl (by simp [Ne.symm hkn]; rfl)]
        rw [overwrite_zero_take _ _ _ (by simp [hl]; omega), List.take_take, Nat.min_eq_left hsz]
      · apply abs_frame hi x (by simp [hxo])
        intro t k' hx hc'
        obtain ⟨_, _, h | ⟨_, k'', blk', hk1', hk2', _⟩⟩ := hobj x t hx
        · rw [h.2] at hc'; cases hc'
        · rw [hk1'] at hc'; cases hc'
          have h1 : k' ≠ p.next := by have := hi.lt_next hk2'; omega
          have h2 : k' ≠ k := by
            intro h; subst h
            exact hxo (huniq x o t s k' hx ho hk1' hc)
          simp [h1, h2]

end StVerif.Stream
