/-
  Bridge for the translated 3-argument `compare_ci(left, right, fsize)` of include/st_string_priv.h
  (StVerif/Generated/Kernels.lean `compare_ci` / `compare_ci_loop1`) to the model
  `StVerif.Compare.compareCi3`.

  The translated loop reads two separate source ranges `mem_left` / `mem_right`; `while (fsize--)`
  carries `fsize` with the unsigned wrap-around of the post-decrement.  The theorem: comparing the
  first `n` units of two ranges that both hold at least `n` units never reads outside either range
  and returns the model's value.
-/
import StVerif.Lemmas.KernelLoops
import StVerif.Model.Compare
open StVerif StVerif.Cxx StVerif.Generated

namespace StVerif.KernelBridge

/-- the byte as the machine's `char` is the model's `schar` -/
theorem toChar_eq_schar : ∀ b, b < 256 → toChar b = Compare.schar b := by
  decide +kernel

theorem lower_lt_256 : ∀ b, b < 256 → Search.lower b < 256 := by
  decide +kernel

/-- `cl_fast_lower` on the byte read as a signed char is the model's folded signed char -/
theorem cl_fast_lower_schar (b : Nat) (hb : b < 256) :
    Kernels.cl_fast_lower (toChar b) = .ok (Compare.schar (Search.lower b)) := by
  rw [cl_fast_lower_eq b hb, toChar_eq_schar _ (lower_lt_256 b hb)]

theorem rd_getElem (mem : List Nat) (i : Nat) (h : i < mem.length) : rd mem i = .ok mem[i] := by
  simp [rd, List.getElem?_eq_getElem h]

theorem take_succ_drop (mem : List Nat) (p n : Nat) (h : p < mem.length) :
    (mem.drop p).take (n + 1) = mem[p] :: (mem.drop (p + 1)).take n := by
  rw [List.drop_eq_getElem_cons h, List.take_succ_cons]

/-- the loop at any pair of positions with `n` units remaining on both sides -/
theorem compare_ci_loop1_eq (l r : List Nat) (hl : ∀ b ∈ l, b < 256) (hr : ∀ b ∈ r, b < 256) :
    ∀ (fuel p q n : Nat), p + n ≤ l.length → q + n ≤ r.length → n < 2 ^ 64 → n < fuel →
      Kernels.compare_ci_loop1 l r fuel p q n
        = .ok (Compare.compareCi3 ((l.drop p).take n) ((r.drop q).take n)) := by
  intro fuel
  induction fuel with
  | zero => intro p q n _ _ _ h; omega
  | succ fuel ih =>
    intro p q n hp hq hn64 hf
    unfold Kernels.compare_ci_loop1
    cases n with
    | zero =>
      simp only [ne_eq, not_true_eq_false, ↓reduceIte, pure_eq_ok, List.take_zero]
      rfl
    | succ n =>
      have hpl : p < l.length := by omega
      have hql : q < r.length := by omega
      have hdec : (n + 1 + 18446744073709551615) % 18446744073709551616 = n := by omega
      simp only [ne_eq, Nat.succ_ne_zero, not_false_eq_true, ↓reduceIte, hdec,
        rd8, rd_getElem l p hpl, rd_getElem r q hql, ok_bind,
        cl_fast_lower_schar _ (hl _ (List.getElem_mem hpl)), cl_fast_lower_schar _ (hr _ (List.getElem_mem hql))]
      rw [take_succ_drop l p n hpl, take_succ_drop r q n hql]
      simp only [Compare.compareCi3, ne_eq]
      split
      · rfl
      · exact ih (p + 1) (q + 1) n (by omega) (by omega) (by omega) (by omega)

/-- `compare_ci(left, right, n)` on two ranges that both hold at least `n` units never reads outside
    either range and returns the model's `compareCi3` of the first `n` units of each -/
theorem compare_ci_eq (l r : List Nat) (hl : ∀ b ∈ l, b < 256) (hr : ∀ b ∈ r, b < 256)
    (n : Nat) (hn : n ≤ l.length) (hn' : n ≤ r.length) (hn64 : n < 2 ^ 64) (fuel : Nat) (hf : n < fuel) :
    Kernels.compare_ci l r fuel 0 0 n = .ok (Compare.compareCi3 (l.take n) (r.take n)) := by
  unfold Kernels.compare_ci
  have := compare_ci_loop1_eq l r hl hr fuel 0 0 n (by omega) (by omega) hn64 hf
  simpa using this

end StVerif.KernelBridge
