/-
  Helper lemmas for the substring search core: characterisation of `findSub` (the model of
  `find_cs`/`find_ci`) by the Spec predicate `occursAt`.
-/
import StVerif.Model.Search
import StVerif.Spec.Search

namespace StVerif.Lemmas.Search
open StVerif StVerif.Search StVerif.Spec.Search

/-! ### folding -/

theorem lower_eq_foldAscii (c : Nat) : lower c = foldAscii c := by
  unfold lower foldAscii
  by_cases h : 0x41 ≤ c ∧ c ≤ 0x5A
  · rw [if_pos h, if_pos (by omega)]
  · rw [if_neg h, if_neg (by omega)]

theorem eqv_sensitive (a b : Nat) : eqv .sensitive a b = true ↔ a = b := by
  simp [eqv]

theorem eqv_insensitive (a b : Nat) : eqv .insensitive a b = true ↔ foldAscii a = foldAscii b := by
  simp [eqv, lower_eq_foldAscii]

/-- one step of the model's comparison is equality of the normalised singletons -/
theorem eqv_iff_norm (cs : CaseMode) (a b : Nat) : eqv cs a b = true ↔ norm cs [a] = norm cs [b] := by
  cases cs <;> simp [eqv, norm, lower_eq_foldAscii]

theorem norm_nil (cs : CaseMode) : norm cs [] = [] := by cases cs <;> rfl

theorem norm_cons (cs : CaseMode) (a : Nat) (xs : List Nat) : norm cs (a :: xs) = norm cs [a] ++ norm cs xs := by
  cases cs <;> simp [norm]

theorem norm_length (cs : CaseMode) (xs : List Nat) : (norm cs xs).length = xs.length := by
  cases cs <;> simp [norm]

theorem norm_append (cs : CaseMode) (xs ys : List Nat) : norm cs (xs ++ ys) = norm cs xs ++ norm cs ys := by
  cases cs <;> simp [norm]

theorem norm_take (cs : CaseMode) (xs : List Nat) (n : Nat) : norm cs (xs.take n) = (norm cs xs).take n := by
  cases cs <;> simp [norm, List.map_take]

theorem norm_drop (cs : CaseMode) (xs : List Nat) (n : Nat) : norm cs (xs.drop n) = (norm cs xs).drop n := by
  cases cs <;> simp [norm, List.map_drop]

theorem norm_cons_eq (cs : CaseMode) (a b : Nat) (xs ys : List Nat) :
    norm cs (a :: xs) = norm cs (b :: ys) ↔ norm cs [a] = norm cs [b] ∧ norm cs xs = norm cs ys := by
  cases cs <;> simp [norm]

/-! ### `prefixEq` -/

/-- `prefixEq` (the model of `compare_cs/ci(cp, needle, n) == 0`) says: `needle` fits and the first
    `needle.length` units equal it modulo `norm` -/
theorem prefixEq_iff (cs : CaseMode) (hay needle : List Nat) :
    prefixEq cs hay needle = true ↔
      needle.length ≤ hay.length ∧ norm cs (hay.take needle.length) = norm cs needle := by
  induction needle generalizing hay with
  | nil => simp [prefixEq, norm_nil]
  | cons n ns ih =>
    cases hay with
    | nil => simp [prefixEq]
    | cons h hs =>
      rw [List.length_cons, List.take_succ_cons, norm_cons_eq, ← eqv_iff_norm]
      simp only [prefixEq, Bool.and_eq_true, ih, List.length_cons]
      constructor
      · rintro ⟨a, b, c⟩; exact ⟨by omega, a, c⟩
      · rintro ⟨a, b, c⟩; exact ⟨b, by omega, c⟩

/-- "matches at `i`" in model terms is the Spec's `occursAt` -/
theorem occursAt_iff_prefixEq (cs : CaseMode) (hay needle : List Nat) (i : Nat) :
    occursAt cs hay needle i ↔
      i + needle.length ≤ hay.length ∧ prefixEq cs (hay.drop i) needle = true := by
  unfold occursAt window
  rw [prefixEq_iff]
  simp only [List.length_drop]
  constructor
  · rintro ⟨a, b⟩; exact ⟨a, by omega, b⟩
  · rintro ⟨a, _, b⟩; exact ⟨a, b⟩

theorem occursAt_cons_succ (cs : CaseMode) (h : Nat) (t needle : List Nat) (i : Nat) :
    occursAt cs (h :: t) needle (i + 1) ↔ occursAt cs t needle i := by
  simp only [occursAt, window, List.drop_succ_cons, List.length_cons]
  constructor
  · rintro ⟨a, b⟩; exact ⟨by omega, b⟩
  · rintro ⟨a, b⟩; exact ⟨by omega, b⟩

theorem occursAt_cons_zero (cs : CaseMode) (h : Nat) (t : List Nat) (n0 : Nat) (rest : List Nat) :
    occursAt cs (h :: t) (n0 :: rest) 0 ↔ eqv cs h n0 = true ∧ prefixEq cs t rest = true := by
  rw [occursAt_iff_prefixEq]
  simp only [List.drop_zero, prefixEq, Bool.and_eq_true, List.length_cons]
  constructor
  · rintro ⟨_, a⟩; exact a
  · rintro ⟨a, b⟩
    have := (prefixEq_iff cs t rest).1 b
    exact ⟨by omega, a, b⟩

/-- an occurrence lies inside the text -/
theorem occursAt_le (cs : CaseMode) (hay needle : List Nat) (i : Nat) (h : occursAt cs hay needle i) :
    i + needle.length ≤ hay.length := h.1

/-- occurrences of a text in `hay.drop s` are the occurrences in `hay` shifted by `s` -/
theorem occursAt_drop (cs : CaseMode) (hay needle : List Nat) (s i : Nat) (hs : s ≤ hay.length) :
    occursAt cs (hay.drop s) needle i ↔ occursAt cs hay needle (s + i) := by
  simp only [occursAt, window, List.drop_drop, List.length_drop]
  constructor
  · rintro ⟨a, b⟩; exact ⟨by omega, b⟩
  · rintro ⟨a, b⟩; exact ⟨by omega, b⟩

/-- occurrences in a prefix `hay.take e` are the occurrences in `hay` ending at or before `e` -/
theorem occursAt_take (cs : CaseMode) (hay needle : List Nat) (e i : Nat) :
    occursAt cs (hay.take e) needle i ↔ i + needle.length ≤ e ∧ occursAt cs hay needle i := by
  simp only [occursAt, window, List.length_take]
  constructor
  · rintro ⟨a, b⟩
    refine ⟨by omega, by omega, ?_⟩
    rw [← b, List.drop_take, List.take_take]
    congr 2; omega
  · rintro ⟨a, b, c⟩
    refine ⟨by omega, ?_⟩
    rw [← c, List.drop_take, List.take_take]
    congr 2; omega

/-! ### `findFrom` / `findSub` -/

/-- the scanning loop returns the least matching offset, or `none` when nothing matches -/
theorem findFrom_spec (cs : CaseMode) (n0 : Nat) (rest hay : List Nat) (off : Nat) :
    match findFrom cs n0 rest hay off with
    | some r => ∃ i, r = off + i ∧ occursAt cs hay (n0 :: rest) i ∧
        ∀ j, j < i → ¬ occursAt cs hay (n0 :: rest) j
    | none => ∀ i, ¬ occursAt cs hay (n0 :: rest) i := by
  induction hay generalizing off with
  | nil =>
    simp only [findFrom]
    intro i h
    have := h.1
    simp at this
  | cons h t ih =>
    -- nothing matches at a later index iff nothing matches in the tail
    have shift : ∀ i, occursAt cs (h :: t) (n0 :: rest) (i + 1) ↔ occursAt cs t (n0 :: rest) i :=
      fun i => occursAt_cons_succ cs h t _ i
    have tail_case : ¬ occursAt cs (h :: t) (n0 :: rest) 0 →
        match findFrom cs n0 rest t (off + 1) with
        | some r => ∃ i, r = off + i ∧ occursAt cs (h :: t) (n0 :: rest) i ∧
            ∀ j, j < i → ¬ occursAt cs (h :: t) (n0 :: rest) j
        | none => ∀ i, ¬ occursAt cs (h :: t) (n0 :: rest) i := by
      intro h0
      have := ih (off + 1)
      split at this
      · next r hr =>
        obtain ⟨i, e, o, m⟩ := this
        refine ⟨i + 1, by omega, (shift i).2 o, ?_⟩
        intro j hj
        cases j with
        | zero => exact h0
        | succ j => rw [shift]; exact m j (by omega)
      · next hr =>
        intro i
        cases i with
        | zero => exact h0
        | succ i => rw [shift]; exact this i
    unfold findFrom
    by_cases he : eqv cs h n0 = true
    · rw [if_pos he]
      by_cases hl : (n0 :: rest).length > (h :: t).length
      · rw [if_pos hl]
        intro i hi
        have := hi.1
        omega
      · rw [if_neg hl]
        by_cases hp : prefixEq cs t rest = true
        · rw [if_pos hp]
          exact ⟨0, by omega, (occursAt_cons_zero cs h t n0 rest).2 ⟨he, hp⟩, fun j hj => by omega⟩
        · rw [if_neg hp]
          exact tail_case (fun h0 => hp ((occursAt_cons_zero cs h t n0 rest).1 h0).2)
    · rw [if_neg he]
      exact tail_case (fun h0 => he ((occursAt_cons_zero cs h t n0 rest).1 h0).1)

/-- **Characterisation of `findSub`** (model of `find_cs` / `find_ci` with a non-empty needle):
    it returns `some i` exactly for the least index at which the needle occurs. -/
theorem findSub_eq_some_iff (cs : CaseMode) (hay needle : List Nat) (i : Nat) :
    findSub cs hay needle = some i ↔
      needle ≠ [] ∧ occursAt cs hay needle i ∧ ∀ j, j < i → ¬ occursAt cs hay needle j := by
  cases needle with
  | nil => simp [findSub]
  | cons n0 rest =>
    simp only [findSub, ne_eq, reduceCtorEq, not_false_eq_true, true_and]
    have sp := findFrom_spec cs n0 rest hay 0
    constructor
    · intro h
      rw [h] at sp
      obtain ⟨k, e, o, m⟩ := sp
      have : i = k := by omega
      subst this
      exact ⟨o, m⟩
    · rintro ⟨o, m⟩
      split at sp
      · next r hr =>
        obtain ⟨k, e, o', m'⟩ := sp
        rw [hr]
        have h1 : ¬ k < i := fun hlt => m k hlt o'
        have h2 : ¬ i < k := fun hlt => m' i hlt o
        congr 1; omega
      · next hr => exact absurd o (sp i)

/-- `findSub` fails exactly when the needle is empty or occurs nowhere -/
theorem findSub_eq_none_iff (cs : CaseMode) (hay needle : List Nat) :
    findSub cs hay needle = none ↔ needle = [] ∨ ∀ i, ¬ occursAt cs hay needle i := by
  cases needle with
  | nil => simp [findSub]
  | cons n0 rest =>
    simp only [findSub, reduceCtorEq, false_or]
    have sp := findFrom_spec cs n0 rest hay 0
    constructor
    · intro h; rw [h] at sp; exact sp
    · intro h
      split at sp
      · next r hr =>
        obtain ⟨k, _, o, _⟩ := sp
        exact absurd o (h k)
      · next hr => exact hr

/-- the same two facts in the model's own vocabulary ("matches at `i`" = `prefixEq` on the suffix) -/
theorem findSub_eq_some_iff_prefixEq (cs : CaseMode) (hay needle : List Nat) (i : Nat) :
    findSub cs hay needle = some i ↔
      needle ≠ [] ∧ i + needle.length ≤ hay.length ∧ prefixEq cs (hay.drop i) needle = true ∧
        ∀ j, j < i → ¬ (j + needle.length ≤ hay.length ∧ prefixEq cs (hay.drop j) needle = true) := by
  rw [findSub_eq_some_iff]
  simp only [occursAt_iff_prefixEq, and_assoc]

theorem findSub_eq_none_iff_prefixEq (cs : CaseMode) (hay needle : List Nat) :
    findSub cs hay needle = none ↔
      needle = [] ∨ ∀ i, ¬ (i + needle.length ≤ hay.length ∧ prefixEq cs (hay.drop i) needle = true) := by
  rw [findSub_eq_none_iff]
  simp only [occursAt_iff_prefixEq]

/-- a hit lies inside the haystack -/
theorem findSub_some_le (cs : CaseMode) (hay needle : List Nat) (i : Nat)
    (h : findSub cs hay needle = some i) : i + needle.length ≤ hay.length :=
  ((findSub_eq_some_iff cs hay needle i).1 h).2.1.1

end StVerif.Lemmas.Search
