/-
  Histories of string-level operations: every state reached from the empty pool — through completed
  operations and through operations that threw — satisfies the invariant, has no temporary alive and
  no fault scheduled.
-/
import StVerif.Lemmas.StrPoolOps

namespace StVerif.StrPool
open StVerif StVerif.Pool

/-- states reachable by any finite history of string-level operations; an operation that throws is part
    of the history like any other -/
inductive SReach (L : Nat) : Pool → Prop
  | init : SReach L (Pool.init L)
  | ok {p p' : Pool} {op : SOp} : SReach L p → op.pre p → op.run p = .ok () p' → SReach L p'
  | thrown {p p' : Pool} {op : SOp} {e : Exc} : SReach L p → op.pre p → op.run p = .throw e p' → SReach L p'

theorem tempsDead_init (L : Nat) : TempsDead (Pool.init L) := fun _ _ => rfl

theorem sreach_inv {L : Nat} (hL : 0 < L) {p : Pool} (h : SReach L p) : Inv p ∧ TempsDead p ∧ p.failAt = none := by
  induction h with
  | init => exact ⟨Props.C05.inv_init L hL, tempsDead_init L, rfl⟩
  | @ok p p' op _ hpre hrun ih =>
    obtain ⟨hI, hT, hF⟩ := ih
    rcases sop_spec hI hF hT op hpre with ⟨p'', h1, s1, t1, f1⟩ | ⟨e, p'', h1, _, _, _, _⟩
    · rw [hrun] at h1; cases h1; exact ⟨s1.inv, t1, f1⟩
    · rw [hrun] at h1; cases h1
  | @thrown p p' op e _ hpre hrun ih =>
    obtain ⟨hI, hT, hF⟩ := ih
    rcases sop_spec hI hF hT op hpre with ⟨p'', h1, _, _, _⟩ | ⟨e', p'', h1, _, s1, t1, f1⟩
    · rw [hrun] at h1; cases h1
    · rw [hrun] at h1; cases h1; exact ⟨s1.inv, t1, f1⟩

/-- an operation's precondition only looks at which objects are alive -/
theorem pre_congr {p p' : Pool} (h : ∀ x, p'.objs x = p.objs x) (op : SOp) (hpre : op.pre p) : op.pre p' := by
  cases op <;> simp only [SOp.pre, alive, h] at hpre ⊢ <;> exact hpre

end StVerif.StrPool
