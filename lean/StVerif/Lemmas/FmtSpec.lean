/-
  C11 helper lemmas, part 1: each per-argument formatter of the model emits exactly the bytes
  the Spec's `renderField` prescribes.
-/
import StVerif.Lemmas.FmtRender
import StVerif.Spec.Render
import StVerif.Lemmas.Utf
import StVerif.Lemmas.UtfLen

namespace StVerif.Lemmas.Fmt
open StVerif StVerif.Fmt
open StVerif.Spec

/-! ### digits -/

theorem digitChar_eq_sym (d : Nat) (u : Bool) : digitChar d u = Render.digitSym d u := by
  unfold digitChar Render.digitSym
  split
  · rfl
  · split <;> omega

theorem digits_lt {b n : Nat} (u : Bool) (h : n < b) : Render.digits b u n = [Render.digitSym n u] := by
  rw [Render.digits]; simp [h]

theorem digits_ge {b n : Nat} (u : Bool) (hb : 2 ≤ b) (h : b ≤ n) :
    Render.digits b u n = Render.digits b u (n / b) ++ [Render.digitSym (n % b) u] := by
  rw [Render.digits]; simp [show ¬(n < b ∨ b < 2) by omega]

theorem uintLoop_zero (r : Nat) (u : Bool) (acc : List Nat) : uintLoop r u 0 acc = acc := by
  rw [uintLoop]; simp

theorem uintLoop_pos {r v : Nat} (u : Bool) (hr : 2 ≤ r) (hv : v ≠ 0) (acc : List Nat) :
    uintLoop r u v acc = uintLoop r u (v / r) (digitChar (v % r) u :: acc) := by
  rw [uintLoop]; simp [show ¬(v = 0 ∨ r < 2) by omega]

theorem uintLoop_eq (r : Nat) (u : Bool) (hr : 2 ≤ r) (v : Nat) (acc : List Nat) :
    uintLoop r u v acc = (if v = 0 then [] else Render.digits r u v) ++ acc := by
  induction v using Nat.strongRecOn generalizing acc with
  | _ v ih =>
    by_cases hv : v = 0
    · subst hv; simp [uintLoop_zero]
    · rw [uintLoop_pos u hr hv, ih (v / r) (Nat.div_lt_self (by omega) (by omega))]
      simp only [hv, if_false]
      by_cases hlt : v < r
      · have hd : v / r = 0 := Nat.div_eq_of_lt hlt
        have hm : v % r = v := Nat.mod_eq_of_lt hlt
        simp [hd, hm, digits_lt u hlt, digitChar_eq_sym]
      · have hd : v / r ≠ 0 := by
          intro h0
          have := Nat.div_add_mod v r
          have hm := Nat.mod_lt v (show r > 0 by omega)
          rw [h0] at this; omega
        simp [hd, digits_ge u hr (by omega : r ≤ v), digitChar_eq_sym]

/-- `uint_formatter` produces positional notation -/
theorem uintFormat_eq_digits (v r : Nat) (u : Bool) (hr : 2 ≤ r) : uintFormat v r u = Render.digits r u v := by
  unfold uintFormat
  by_cases hv : v = 0
  · subst hv
    rw [digits_lt u (show 0 < r by omega)]
    simp [Render.digitSym]
  · simp only [hv, if_false]
    rw [uintLoop_eq r u hr v []]
    simp [hv]

theorem digits_length_le (b : Nat) (u : Bool) (hb : 2 ≤ b) (k n : Nat) (h : n < 2 ^ k) :
    (Render.digits b u n).length ≤ max k 1 := by
  induction k generalizing n with
  | zero =>
    have : n = 0 := by simpa using h
    subst this
    rw [digits_lt u (show 0 < b by omega)]; simp
  | succ k ih =>
    by_cases hlt : n < b
    · rw [digits_lt u hlt]; simp
    · rw [digits_ge u hb (by omega)]
      simp only [List.length_append, List.length_cons, List.length_nil]
      have hdiv : n / b < 2 ^ k := by
        have h1 : n / b ≤ n / 2 := Nat.div_le_div_left hb (by omega)
        have h2 : n / 2 < 2 ^ k := by
          rw [Nat.pow_succ] at h; omega
        omega
      have := ih (n / b) hdiv
      have hk : 1 ≤ k := by
        -- n ≥ b ≥ 2 and n < 2^(k+1) force k ≥ 1
        by_cases hk0 : k = 0
        · subst hk0; simp at h; omega
        · omega
      omega

theorem digits_ne_nil (b : Nat) (u : Bool) (n : Nat) : Render.digits b u n ≠ [] := by
  rw [Render.digits]; split <;> simp

/-! ### machine arithmetic is exact in range -/

theorem wrap64_of_nonneg {x : Int} (h0 : 0 ≤ x) (h1 : x < 2 ^ 64) : wrap64 x = x.toNat := by
  unfold wrap64
  rw [Int.emod_eq_of_lt h0 (by simpa using h1)]

theorem wrap64_of_neg {x : Int} (h0 : x < 0) (h1 : -(2 ^ 64 : Int) ≤ x) : wrap64 x = (x + 2 ^ 64).toNat := by
  unfold wrap64
  have : x % (2 ^ 64 : Int) = x + 2 ^ 64 := by
    rw [← Int.add_emod_right]
    exact Int.emod_eq_of_lt (by omega) (by omega)
  rw [this]

theorem toI64_wrap64 {x : Int} (h0 : -(2 ^ 63 : Int) ≤ x) (h1 : x < 2 ^ 63) : toI64 (wrap64 x) = x := by
  by_cases hx : 0 ≤ x
  · rw [wrap64_of_nonneg hx (by omega)]
    unfold toI64
    have : x.toNat % 2 ^ 64 = x.toNat := Nat.mod_eq_of_lt (by omega)
    rw [this]
    rw [if_pos (by omega)]
    omega
  · rw [wrap64_of_neg (by omega) (by omega)]
    unfold toI64
    have : (x + 2 ^ 64).toNat % 2 ^ 64 = (x + 2 ^ 64).toNat := Nat.mod_eq_of_lt (by omega)
    rw [this]
    rw [if_neg (by omega)]
    omega

theorem toI32_of_lt {x : Nat} (h : x < 2 ^ 31) : toI32 x = x := by
  unfold toI32
  have : x % 2 ^ 32 = x := Nat.mod_eq_of_lt (by omega)
  rw [this, if_pos h]

theorem toI32_range (x : Nat) : -(2 ^ 31 : Int) ≤ toI32 x ∧ toI32 x < 2 ^ 31 := by
  unfold toI32
  have := Nat.mod_lt x (show 2 ^ 32 > 0 by decide)
  split <;> omega

/-- the fields of a `format_spec` are `int`s -/
def SpecInt (f : FormatSpec) : Prop :=
  (-(2 ^ 31 : Int) ≤ f.minimumLength ∧ f.minimumLength < 2 ^ 31) ∧
  (-(2 ^ 31 : Int) ≤ f.precision ∧ f.precision < 2 ^ 31) ∧
  (-(2 ^ 31 : Int) ≤ f.argIndex ∧ f.argIndex < 2 ^ 31)

theorem longToInt_range (v : Int) : -(2 ^ 31 : Int) ≤ longToInt v ∧ longToInt v < 2 ^ 31 := toI32_range _

/-! ### numeric layout -/

def ntOf (v : Int) : NumType := if v = 0 then .zero else if v < 0 then .negative else .positive

theorem padOf_eq (f : FormatSpec) : padOf f = Render.padChar f := by
  unfold padOf Render.padChar; by_cases h : f.pad = 0 <;> simp [h]

theorem numericPrefix_flatten (f : FormatSpec) (v : Int) :
    flatten (numericPrefix f (ntOf v)) = Render.signOf f v ++ Render.prefixOf f v := by
  unfold numericPrefix ntOf Render.signOf Render.prefixOf
  by_cases h0 : v = 0
  · subst h0; cases f.alwaysSigned <;> simp [flatten, Event.bytes]
  · by_cases hneg : v < 0
    · cases hp : f.classPrefix <;> cases hd : f.digitClass <;> simp [h0, hneg, flatten, Event.bytes]
    · cases hs : f.alwaysSigned <;> cases hp : f.classPrefix <;> cases hd : f.digitClass <;>
        simp [h0, hneg, flatten, Event.bytes]

theorem padSize_eq (f : FormatSpec) (hf : SpecInt f) (size : Nat) (hs : size < 2 ^ 32) (v : Int) :
    padSize f size (ntOf v) =
      (f.minimumLength - ((Render.signOf f v ++ Render.prefixOf f v).length + size : Nat)).toNat := by
  obtain ⟨⟨h1, h2⟩, _⟩ := hf
  unfold padSize
  rw [toI64_wrap64 (by omega) (by omega)]
  unfold ntOf Render.signOf Render.prefixOf
  by_cases h0 : v = 0
  · subst h0
    cases hs' : f.alwaysSigned <;> simp <;> (first | omega | (split <;> omega) | (intros; omega))
  · by_cases hneg : v < 0
    · cases hp : f.classPrefix <;> cases hd : f.digitClass <;> simp [h0, hneg] <;>
        (first | omega | (split <;> omega) | (intros; omega))
    · cases hs' : f.alwaysSigned <;> cases hp : f.classPrefix <;> cases hd : f.digitClass <;>
        simp [h0, hneg] <;> (first | omega | (split <;> omega) | (intros; omega))

theorem flatten_appendChar (c n : Nat) (ev : List Event) : flatten (.appendChar c n :: ev) = List.replicate n c ++ flatten ev := by
  simp [Event.bytes]

theorem flatten_appendBytes (bs : List Nat) (ev : List Event) : flatten (.append bs :: ev) = bs ++ flatten ev := by
  simp [Event.bytes]

theorem formatNumericString_flatten (f : FormatSpec) (hf : SpecInt f) (text : List Nat) (ht : text.length < 2 ^ 32) (v : Int) :
    flatten (formatNumericString f text (ntOf v)) =
      if f.numericPad then
        (Render.signOf f v ++ Render.prefixOf f v) ++
          List.replicate (f.minimumLength - (((Render.signOf f v ++ Render.prefixOf f v) ++ text).length : Int)).toNat (Render.padChar f) ++ text
      else Render.padTo f.minimumLength (Render.sideOf f .right) (Render.padChar f) ((Render.signOf f v ++ Render.prefixOf f v) ++ text) := by
  have hp := padSize_eq f hf text.length ht v
  have hl : (((Render.signOf f v ++ Render.prefixOf f v) ++ text).length : Int) =
      (((Render.signOf f v ++ Render.prefixOf f v).length + text.length : Nat) : Int) := by
    simp only [List.length_append]
  unfold formatNumericString
  simp only [hp, padOf_eq, hl]
  by_cases hn : f.numericPad = true
  · simp only [hn, if_true, flatten_append, numericPrefix_flatten, flatten_appendChar, flatten_appendBytes, flatten_nil,
      List.append_nil, List.append_assoc]
  · simp only [hn, if_false, Bool.false_eq_true]
    unfold Render.padTo Render.sideOf
    cases ha : f.alignment <;>
      simp [flatten_append, numericPrefix_flatten, List.append_assoc, Event.bytes, Int.add_assoc]

theorem radixOf_eq {c : DigitClass} (h : c ≠ .chr) : Fmt.radixOf c = some (Render.radixOf c) ∧ 2 ≤ (Render.radixOf c).1 := by
  cases c <;> simp [Fmt.radixOf, Render.radixOf] at h ⊢

theorem ntOf_nat (n : Nat) : (if n = 0 then NumType.zero else .positive) = ntOf (n : Int) := by
  unfold ntOf
  by_cases h : n = 0
  · simp [h]
  · have : ¬ ((n : Int) = 0) := by omega
    have h2 : ¬ ((n : Int) < 0) := by omega
    simp [h, h2]

/-- signed integers of every width (|v| < 2^64), class other than `c` -/
theorem formatNumericS_eq (f : FormatSpec) (hf : SpecInt f) (hc : f.digitClass ≠ .chr) (v : Int) (hv : v.natAbs < 2 ^ 64) :
    (formatNumericS f v).map flatten = .ok (Render.renderInt f v) := by
  obtain ⟨hr, hr2⟩ := radixOf_eq hc
  unfold formatNumericS
  simp only [hr, Outcome.map]
  rw [uintFormat_eq_digits _ _ _ hr2]
  have hlen := digits_length_le (Render.radixOf f.digitClass).1 (Render.radixOf f.digitClass).2 hr2 64 v.natAbs hv
  have := formatNumericString_flatten f hf (Render.digits (Render.radixOf f.digitClass).1 (Render.radixOf f.digitClass).2 v.natAbs)
    (by omega) v
  unfold ntOf at this
  rw [this]
  unfold Render.renderInt
  simp only

/-- unsigned integers of every width -/
theorem formatNumericU_eq (f : FormatSpec) (hf : SpecInt f) (hc : f.digitClass ≠ .chr) (v : Nat) (hv : v < 2 ^ 64) :
    (formatNumericU f v).map flatten = .ok (Render.renderInt f (v : Int)) := by
  obtain ⟨hr, hr2⟩ := radixOf_eq hc
  unfold formatNumericU
  simp only [hr, Outcome.map]
  rw [uintFormat_eq_digits _ _ _ hr2, ntOf_nat]
  have hlen := digits_length_le (Render.radixOf f.digitClass).1 (Render.radixOf f.digitClass).2 hr2 64 v hv
  rw [formatNumericString_flatten f hf _ (by omega) (v : Int)]
  unfold Render.renderInt
  simp only [Int.natAbs_natCast]

/-! ### text -/

theorem formatString_flatten (f : FormatSpec) (hf : SpecInt f) (text : List Nat) (ht : text.length < 2 ^ 31) :
    flatten (formatString f text) = Render.renderText f text := by
  obtain ⟨⟨h1, h2⟩, ⟨h3, h4⟩, _⟩ := hf
  unfold formatString Render.renderText
  simp only [padOf_eq]
  -- the size after the precision cut
  have hcut : (if f.precision ≥ 0 ∧ text.length > wrap64 f.precision then wrap64 f.precision else text.length) =
      (if f.precision ≥ 0 then text.take f.precision.toNat else text).length := by
    by_cases hp : f.precision ≥ 0
    · rw [wrap64_of_nonneg hp (by omega)]
      simp only [hp, true_and, if_true, List.length_take]
      split <;> omega
    · simp [hp]
  have htake : text.take (if f.precision ≥ 0 ∧ text.length > wrap64 f.precision then wrap64 f.precision else text.length) =
      (if f.precision ≥ 0 then text.take f.precision.toNat else text) := by
    by_cases hp : f.precision ≥ 0
    · rw [wrap64_of_nonneg hp (by omega)]
      simp only [hp, true_and, if_true]
      split
      · rfl
      · rw [List.take_of_length_le (Nat.le_refl _), List.take_of_length_le (by omega)]
    · simp [hp]
  rw [htake, hcut]
  generalize hcutdef : (if f.precision ≥ 0 then text.take f.precision.toNat else text) = cut
  have hcl : cut.length ≤ text.length := by
    rw [← hcutdef]; split
    · simp only [List.length_take]; omega
    · exact Nat.le_refl _
  rw [toI32_of_lt (by omega)]
  unfold Render.padTo Render.sideOf
  by_cases hw : f.minimumLength > (cut.length : Int)
  · simp only [hw, if_true]
    rw [wrap64_of_nonneg (by omega) (by omega)]
    cases ha : f.alignment <;> simp [Event.bytes]
  · simp only [hw, if_false]
    have : (f.minimumLength - (cut.length : Int)).toNat = 0 := by omega
    cases ha : f.alignment <;> simp [Event.bytes, this]

/-! ### character class -/

theorem wrapW32_of_nonneg {x : Int} (h0 : 0 ≤ x) (h1 : x < 2 ^ 32) : wrapW 32 x = x.toNat := by
  unfold wrapW
  rw [Int.emod_eq_of_lt h0 (by simpa using h1)]

theorem wrapW32_of_neg {x : Int} (h0 : x < 0) (h1 : -(2 ^ 32 : Int) ≤ x) : wrapW 32 x = (x + 2 ^ 32).toNat := by
  unfold wrapW
  have : x % (2 ^ 32 : Int) = x + 2 ^ 32 := by
    rw [← Int.add_emod_right]
    exact Int.emod_eq_of_lt (by omega) (by omega)
  rw [this]

/-- `format_char` without padding: the code point `u` (as the `char32_t` that `write_utf8`
    receives) encoded, or U+FFFD -/
theorem formatChar_flatten (f : FormatSpec) (hnp : ¬(f.minimumLength ≠ 0 ∨ f.pad ≠ 0)) (ch : Int) (v : Int)
    (hin : 0 ≤ v ∧ v ≤ 0x10FFFF → wrapW 32 ch = v.toNat)
    (hout : ¬(0 ≤ v ∧ v ≤ 0x10FFFF) → wrapW 32 ch > 0x10FFFF) :
    (formatChar f ch).map flatten = .ok (Render.renderChar v) := by
  unfold formatChar Render.renderChar
  simp only [hnp, if_false]
  by_cases hv : 0 ≤ v ∧ v ≤ 0x10FFFF
  · rw [hin hv, StVerif.Lemmas.Utf.writeUtf8_eq _ (by omega)]
    simp [hv, Outcome.map, Event.bytes]
  · rw [StVerif.Lemmas.Utf.writeUtf8_none _ (hout hv)]
    simp [hv, Outcome.map, Event.bytes, Generated.badcharSubstituteUtf8]

theorem formatChar_assert (f : FormatSpec) (hp : f.minimumLength ≠ 0 ∨ f.pad ≠ 0) (ch : Int) :
    formatChar f ch = .assertFail charPaddingMsg := by
  unfold formatChar; simp only [hp, if_true]

/-! ### floating point -/

theorem formatFloat_flatten (f : FormatSpec) (hf : SpecInt f) (r : Bool → Option Nat → FloatClass → List Nat)
    (hfl : (Arg.float r).LibcRenders) : (formatFloat f r).map flatten = .ok (Render.renderFloat f r) := by
  obtain ⟨⟨h1, h2⟩, _⟩ := hf
  have h := hfl f.alwaysSigned (if f.precision ≥ 0 then some f.precision.toNat else none) f.floatClass
  unfold formatFloat Render.renderFloat
  simp only [padOf_eq]
  generalize r f.alwaysSigned (if f.precision ≥ 0 then some f.precision.toNat else none) f.floatClass = text at h ⊢
  rw [if_neg (by omega)]
  unfold Render.padTo Render.sideOf
  by_cases hw : f.minimumLength > (text.length : Int)
  · simp only [hw, if_true]
    rw [wrap64_of_nonneg (by omega) (by omega)]
    cases ha : f.alignment <;> simp [Outcome.map, Event.bytes]
  · simp only [hw, if_false]
    have : (f.minimumLength - (text.length : Int)).toNat = 0 := by omega
    cases ha : f.alignment <;> simp [Outcome.map, Event.bytes, this]

/-! ### the overload table -/

theorem charPadding_same : charPaddingMsg = Render.charPaddingContract := rfl

/-- the character class on a value that reaches `format_char` as `ch` -/
theorem charClass_eq (f : FormatSpec) (ch v : Int)
    (hin : 0 ≤ v ∧ v ≤ 0x10FFFF → wrapW 32 ch = v.toNat)
    (hout : ¬(0 ≤ v ∧ v ≤ 0x10FFFF) → wrapW 32 ch > 0x10FFFF) :
    (formatChar f ch).map flatten =
      (if f.minimumLength ≠ 0 ∨ f.pad ≠ 0 then .assertFail Render.charPaddingContract else .ok (Render.renderChar v)) := by
  by_cases hp : f.minimumLength ≠ 0 ∨ f.pad ≠ 0
  · rw [formatChar_assert f hp, if_pos hp]; rfl
  · rw [formatChar_flatten f hp ch v hin hout, if_neg hp]

theorem charCode_in {v : Int} (h : 0 ≤ v ∧ v ≤ 0x10FFFF) : wrapW 32 (charCode v) = v.toNat := by
  unfold charCode
  rw [wrap64_of_nonneg h.1 (by omega), if_neg (by omega), wrapW32_of_nonneg h.1 (by omega)]

theorem charCode_out {v : Int} (hr : -(2 ^ 63 : Int) ≤ v ∧ v < 2 ^ 64) (h : ¬(0 ≤ v ∧ v ≤ 0x10FFFF)) :
    wrapW 32 (charCode v) > 0x10FFFF := by
  unfold charCode
  by_cases hneg : v < 0
  · rw [wrap64_of_neg hneg (by omega), if_pos (by omega)]; decide
  · rw [wrap64_of_nonneg (by omega) hr.2, if_pos (by omega)]; decide

theorem wrapW32_toI32 {v : Nat} (h : v < 2 ^ 32) : wrapW 32 (toI32 v) = v := by
  unfold toI32
  have hm : v % 2 ^ 32 = v := Nat.mod_eq_of_lt h
  rw [hm]
  split
  · rw [wrapW32_of_nonneg (by omega) (by omega)]; omega
  · rw [wrapW32_of_neg (by omega) (by omega)]; omega

theorem pow_bound {w : Nat} (hw : w = 8 ∨ w = 16 ∨ w = 32 ∨ w = 64) : (2 : Int) ^ (w - 1) ≤ 2 ^ 63 ∧ (2 : Nat) ^ w ≤ 2 ^ 64 := by
  rcases hw with rfl | rfl | rfl | rfl <;> decide

/-- **every formatter emits the specified rendering** (all eight integer types, the five character
    types, booleans, every narrow string type, null strings, floating point with a rendering of any
    length), for every spec the parser can produce -/
theorem formatType_eq_spec (a : Arg) (f : FormatSpec) (ha : a.InRange) (hf : SpecInt f) (hfl : a.LibcRenders) :
    (formatType a f).map flatten = Render.renderField f a := by
  cases a with
  | sint w v =>
    obtain ⟨hw, h1, h2⟩ := ha
    have hb := (pow_bound hw).1
    simp only [formatType, Render.renderField, Render.intValue]
    by_cases hc : f.digitClass = .chr
    · simp only [hc, if_true]
      exact charClass_eq f _ v charCode_in (charCode_out ⟨by omega, by omega⟩)
    · simp only [hc, if_false]
      exact formatNumericS_eq f hf hc v (by omega)
  | uint w v =>
    obtain ⟨hw, h1⟩ := ha
    have hb := (pow_bound hw).2
    simp only [formatType, Render.renderField, Render.intValue]
    by_cases hc : f.digitClass = .chr
    · simp only [hc, if_true]
      exact charClass_eq f _ (v : Int) charCode_in (charCode_out ⟨by omega, by omega⟩)
    · simp only [hc, if_false]
      exact formatNumericU_eq f hf hc v (by omega)
  | char v =>
    obtain ⟨h1, h2⟩ := ha
    simp only [formatType, Render.renderField, Render.intValue]
    by_cases hc : f.digitClass = .chr
    · simp only [hc, if_true]
      refine charClass_eq f v v (fun h => wrapW32_of_nonneg h.1 (by omega)) (fun h => ?_)
      rw [wrapW32_of_neg (by omega) (by omega)]; omega
    · simp only [hc, if_false]
      exact formatNumericS_eq f hf hc v (by omega)
  | wchar v =>
    obtain ⟨h1, h2⟩ := ha
    simp only [formatType, Render.renderField, Render.intValue]
    by_cases hc : f.digitClass = .chr
    · simp only [hc, if_true]
      refine charClass_eq f v v (fun h => wrapW32_of_nonneg h.1 (by omega)) (fun h => ?_)
      by_cases hneg : v < 0
      · rw [wrapW32_of_neg hneg (by omega)]; omega
      · rw [wrapW32_of_nonneg (by omega) (by omega)]; omega
    · simp only [hc, if_false]
      exact formatNumericS_eq f hf hc v (by omega)
  | char16 v =>
    have h1 : v < 2 ^ 16 := ha
    simp only [formatType, Render.renderField, Render.intValue]
    by_cases hc : f.digitClass = .chr
    · simp only [hc, if_true]
      refine charClass_eq f _ (v : Int) (fun _ => ?_) (fun h => ?_)
      · rw [wrapW32_toI32 (by omega)]; omega
      · omega
    · simp only [hc, if_false]
      exact formatNumericU_eq f hf hc v (by omega)
  | char32 v =>
    have h1 : v < 2 ^ 32 := ha
    simp only [formatType, Render.renderField, Render.intValue]
    by_cases hc : f.digitClass = .chr
    · simp only [hc, if_true]
      refine charClass_eq f _ (v : Int) (fun _ => ?_) (fun h => ?_)
      · rw [wrapW32_toI32 h1]; omega
      · rw [wrapW32_toI32 h1]; omega
    · simp only [hc, if_false]
      exact formatNumericU_eq f hf hc v (by omega)
  | char8 v =>
    have h1 : v < 256 := ha
    simp only [formatType, Render.renderField]
    by_cases hc : f.digitClass = .chr
    · simp only [hc, if_true]
      by_cases hp : f.minimumLength ≠ 0 ∨ f.pad ≠ 0
      · simp only [hp, if_true, Outcome.map]; rfl
      · simp [hp, Outcome.map, Event.bytes]
    · simp only [hc, if_false]
      exact formatNumericU_eq f hf hc v (by omega)
  | bool b =>
    simp only [formatType, Render.renderField, Outcome.map]
    rw [formatString_flatten f hf _ (by cases b <;> simp)]
  | str bs =>
    simp only [formatType, Render.renderField, Outcome.map]
    rw [formatString_flatten f hf _ ha]
  | nullStr => simp [formatType, Render.renderField, Outcome.map]
  | wide src m us =>
    obtain ⟨hsrc, hlen⟩ := ha
    have hs : src = .utf16 ∨ src = .utf32 := by rcases hsrc with ⟨h, _⟩ | ⟨h, _⟩ <;> simp [h]
    have hconv : Utf.stringFrom src m (some us) = Utf.convert src .utf8 m true (some us) := by
      rcases hs with rfl | rfl <;> rfl
    have href : Utf.convert src .utf8 m true (some us) = Unicode.reference src .utf8 m true us := by
      rcases hsrc with ⟨rfl, hu⟩ | ⟨rfl, hu⟩
      · exact StVerif.Lemmas.Utf.convert_eq_reference .utf16 .utf8 (by decide) m true us hu hlen
      · exact StVerif.Lemmas.Utf.convert_eq_reference .utf32 .utf8 (by decide) m true us hu hlen
    simp only [formatType, Render.renderField, hconv]
    cases hc : Utf.convert src .utf8 m true (some us) with
    | ok bs =>
      have hb : bs.length < 2 ^ 31 := by
        have := StVerif.Lemmas.Utf.convert_wide_utf8_length_le src hs _ _ us bs hc
        have h28 : Generated.hugeBufferSize = 2 ^ 28 := by decide
        omega
      rw [← href, hc]
      simp only [Outcome.bind, Outcome.map]
      rw [formatString_flatten f hf bs hb]
    | throw e => rw [← href, hc]; rfl
    | assertFail w => rw [← href, hc]; rfl
    | ub w => rw [← href, hc]; rfl
    | oob => rw [← href, hc]; rfl
    | stuck => rw [← href, hc]; rfl
  | float r =>
    simp only [formatType, Render.renderField]
    exact formatFloat_flatten f hf r hfl

end StVerif.Lemmas.Fmt
