/-
  C11 helper lemmas, part 1: each per-argument formatter of the model emits exactly the bytes
  the Spec's `renderField` prescribes.
-/
import StVerif.Lemmas.FmtRender
import StVerif.Spec.Render
import StVerif.Lemmas.Utf

namespace StVerif.Lemmas.Fmt
open StVerif StVerif.Fmt
open StVerif.Spec

/-! ### digits -/

theorem digitChar_eq_sym (d : Nat) (u : Bool) : digitChar d u = Render.digitSym d u := by
  unfold digitChar Render.digitSym
  split
  · rfl
  · split <;> omega

theorem digits_lt {b n : Nat} (u : Bool) (h : n < b) : Render.digits b u n = [Render.digitSym n u] := by
  rw [Render.digits]; simp [h]

theorem digits_ge {b n : Nat} (u : Bool) (hb : 2 ≤ b) (h : b ≤ n) :
    Render.digits b u n = Render.digits b u (n / b) ++ [Render.digitSym (n % b) u] := by
  rw [Render.digits]; simp [show ¬(n < b ∨ b < 2) by omega]

theorem uintLoop_zero (r : Nat) (u : Bool) (acc : List Nat) : uintLoop r u 0 acc = acc := by
  rw [uintLoop]; simp

theorem uintLoop_pos {r v : Nat} (u : Bool) (hr : 2 ≤ r) (hv : v ≠ 0) (acc : List Nat) :
    uintLoop r u v acc = uintLoop r u (v / r) (digitChar (v % r) u :: acc) := by
  rw [uintLoop]; simp [show ¬(v = 0 ∨ r < 2) by omega]

theorem uintLoop_eq (r : Nat) (u : Bool) (hr : 2 ≤ r) (v : Nat) (acc : List Nat) :
    uintLoop r u v acc = (if v = 0 then [] else Render.digits r u v) ++ acc := by
  induction v using Nat.strongRecOn generalizing acc with
  | _ v ih =>
    by_cases hv : v = 0
    · subst hv; simp [uintLoop_zero]
    · rw [uintLoop_pos u hr hv, ih (v / r) (Nat.div_lt_self (by omega) (by omega))]
      simp only [hv, if_false]
      by_cases hlt : v < r
      · have hd : v / r = 0 := Nat.div_eq_of_lt hlt
        have hm : v % r = v := Nat.mod_eq_of_lt hlt
        simp [hd, hm, digits_lt u hlt, digitChar_eq_sym]
      · have hd : v / r ≠ 0 := by
          intro h0
          have := Nat.div_add_mod v r
          have hm := Nat.mod_lt v (show r > 0 by omega)
          rw [h0] at this; omega
        simp [hd, digits_ge u hr (by omega : r ≤ v), digitChar_eq_sym]

/-- `uint_formatter` produces positional notation -/
theorem uintFormat_eq_digits (v r : Nat) (u : Bool) (hr : 2 ≤ r) : uintFormat v r u = Render.digits r u v := by
  unfold uintFormat
  by_cases hv : v = 0
  · subst hv
    rw [digits_lt u (show 0 < r by omega)]
    simp [Render.digitSym]
  · simp only [hv, if_false]
    rw [uintLoop_eq r u hr v []]
    simp [hv]

theorem digits_length_le (b : Nat) (u : Bool) (hb : 2 ≤ b) (k n : Nat) (h : n < 2 ^ k) :
    (Render.digits b u n).length ≤ max k 1 := by
  induction k generalizing n with
  | zero =>
    have : n = 0 := by simpa using h
    subst this
    rw [digits_lt u (show 0 < b by omega)]; simp
  | succ k ih =>
    by_cases hlt : n < b
    · rw [digits_lt u hlt]; simp
    · rw [digits_ge u hb (by omega)]
      simp only [List.length_append, List.length_cons, List.length_nil]
      have hdiv : n / b < 2 ^ k := by
        have h1 : n / b ≤ n / 2 := Nat.div_le_div_left hb (by omega)
        have h2 : n / 2 < 2 ^ k := by
          rw [Nat.pow_succ] at h; omega
        omega
      have := ih (n / b) hdiv
      have hk : 1 ≤ k := by
        -- n ≥ b ≥ 2 and n < 2^(k+1) force k ≥ 1
        by_cases hk0 : k = 0
        · subst hk0; simp at h; omega
        · omega
      omega

theorem digits_ne_nil (b : Nat) (u : Bool) (n : Nat) : Render.digits b u n ≠ [] := by
  rw [Render.digits]; split <;> simp

end StVerif.Lemmas.Fmt
