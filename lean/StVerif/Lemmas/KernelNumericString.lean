/-
  Bridge for `_ST_PRIVATE::format_numeric_prefix` and `_ST_PRIVATE::format_numeric_string`
  (include/st_format_priv.h): the translated functions (StVerif/Generated/Kernels.lean; the
  `ST::format_writer &output` parameter is the list of the calls made on it, the
  `const ST::format_spec &` parameter one parameter per field read) produce exactly the events of the
  model's `Fmt.numericPrefix` / `Fmt.formatNumericString` (StVerif/Model/FmtRender.lean), for every
  field specification whose width an `int` can hold and every digit text shorter than 2^62: the sign,
  the radix prefix, the padding and the digits come in the order the alignment and the `'0'` flag
  select, the function reads exactly the digit text (`rdRange` over the whole source, nothing else),
  and none of the signed subtractions of `pad_size` overflows.
-/
import StVerif.Lemmas.KernelPadSize
open StVerif StVerif.Cxx StVerif.Generated StVerif.Fmt

namespace StVerif.KernelBridge

/-- a call recorded by the translated code as the model's event -/
def evOf : Ev → Fmt.Event
  | .append bs => .append bs
  | .appendChar c n => .appendChar c n

/-- the inverse map -/
def ofEvent : Fmt.Event → Ev
  | .append bs => .append bs
  | .appendChar c n => .appendChar c n

@[simp] theorem evOf_ofEvent (e : Fmt.Event) : evOf (ofEvent e) = e := by cases e <;> rfl
@[simp] theorem ofEvent_evOf (e : Ev) : ofEvent (evOf e) = e := by cases e <;> rfl

theorem map_evOf_map_ofEvent (l : List Fmt.Event) : (l.map ofEvent).map evOf = l := by
  induction l with
  | nil => rfl
  | cons e l ih => simp [ih]

theorem map_ofEvent_map_evOf (l : List Ev) : (l.map evOf).map ofEvent = l := by
  induction l with
  | nil => rfl
  | cons e l ih => simp [ih]

/-- the enumerator values of `ST::alignment_t` -/
def alignCode : Align → Int
  | .dflt => 0
  | .left => 1
  | .right => 2

/-- the whole source read as one block -/
theorem rdRange_all (text : List Nat) : rdRange text 0 text.length = .ok text := by
  simp [rdRange]

/-- `char pad = format.pad ? format.pad : ' '` and its conversion back to the byte `append_char` stores -/
theorem pad_char_eq (b : Nat) (hb : b < 256) :
    ((if toChar b ≠ (0 : Int) then toChar b else (32 : Int)) % 256).toNat = (if b ≠ 0 then b else 32) := by
  unfold toChar
  by_cases h0 : b = 0
  · subst h0; simp
  · by_cases h1 : b < 128
    · rw [if_pos h1, if_pos (by omega), if_pos h0]; omega
    · rw [if_neg h1, if_pos (by omega), if_pos h0]; omega

/-- `format_numeric_prefix`: the translated function makes the model's calls, in every case -/
theorem format_numeric_prefix_eq (f : FormatSpec) (nt : NumType) :
    Kernels.format_numeric_prefix (if f.alwaysSigned then 1 else 0) (if f.classPrefix then 1 else 0)
      (digitCode f.digitClass) (numCode nt) = .ok ((numericPrefix f nt).map ofEvent) := by
  unfold Kernels.format_numeric_prefix numericPrefix
  cases nt <;> cases hs : f.alwaysSigned <;> cases hc : f.classPrefix <;> cases hd : f.digitClass <;>
    simp [numCode, digitCode, ofEvent]

/-- the same, stated on the images of the recorded calls -/
theorem format_numeric_prefix_events (f : FormatSpec) (nt : NumType) :
    ∃ evs, Kernels.format_numeric_prefix (if f.alwaysSigned then 1 else 0) (if f.classPrefix then 1 else 0)
      (digitCode f.digitClass) (numCode nt) = .ok evs ∧ evs.map evOf = numericPrefix f nt :=
  ⟨_, format_numeric_prefix_eq f nt, map_evOf_map_ofEvent _⟩

/-- `format_numeric_string` over the digit text `text` (the source range is exactly the text) -/
theorem format_numeric_string_eq' (f : FormatSpec) (text : List Nat) (nt : NumType)
    (hpad : f.pad < 256)
    (hmin : -(2:Int)^31 ≤ f.minimumLength ∧ f.minimumLength < (2:Int)^31)
    (hlen : text.length < 2 ^ 62) :
    Kernels.format_numeric_string text (alignCode f.alignment)
      (if f.alwaysSigned then 1 else 0) (if f.classPrefix then 1 else 0) (digitCode f.digitClass) f.minimumLength
      (if f.numericPad then 1 else 0) (toChar f.pad) 0 text.length (numCode nt)
      = .ok ((formatNumericString f text nt).map ofEvent) := by
  unfold Kernels.format_numeric_string formatNumericString padOf
  simp only [pad_size_eq f text.length nt hmin hlen, format_numeric_prefix_eq f nt, rdRange_all,
    pad_char_eq f.pad hpad, ok_bind, pure_eq_ok]
  cases hn : f.numericPad <;> cases ha : f.alignment <;> simp [alignCode, ofEvent]

theorem format_numeric_string_eq (f : FormatSpec) (text : List Nat) (nt : NumType)
    (hpad : f.pad < 256)
    (hmin : -(2:Int)^31 ≤ f.minimumLength ∧ f.minimumLength < (2:Int)^31)
    (hlen : text.length < 2 ^ 62) :
    ∃ evs, Kernels.format_numeric_string text (alignCode f.alignment)
      (if f.alwaysSigned then 1 else 0) (if f.classPrefix then 1 else 0) (digitCode f.digitClass) f.minimumLength
      (if f.numericPad then 1 else 0) (toChar f.pad) 0 text.length (numCode nt) = .ok evs
      ∧ evs.map evOf = formatNumericString f text nt :=
  ⟨_, format_numeric_string_eq' f text nt hpad hmin hlen, map_evOf_map_ofEvent _⟩

end StVerif.KernelBridge
