/-
  Bridge for the translated conversion loops (the `…_measure_from_…` / `…_convert_from_…` pairs of
  include/st_utf_conv_priv.h as written by tools/gen_kernels.py): each translated loop, run over a whole
  source with enough fuel, is the model's `measure` / `fill (stepCh …)` over the model's decoder.
  This file: shared definitions and the UTF-16 -> UTF-8 pair (the template for the other pairs).
-/
import StVerif.Lemmas.KernelBridge
open StVerif StVerif.Cxx StVerif.Generated StVerif.Utf

namespace StVerif.KernelBridge

theorem utf8Measure_le (ch : Nat) : utf8Measure ch ≤ 4 := by
  unfold utf8Measure; repeat' split
  all_goals simp [badcharSubstituteUtf8]

theorem utf8_measure_from_utf16_loop_eq (mem : List Nat) :
    ∀ fuel acc p, p ≤ mem.length → mem.length - p < fuel → acc + 4 * (mem.length - p) < 2 ^ 64 →
      Kernels.utf8_measure_from_utf16_loop1 mem 0 mem.length mem.length false fuel acc p
        = .ok (acc + ((decodeUtf16 (mem.drop p)).map utf8Measure).sum) := by
  intro fuel
  induction fuel with
  | zero => intro acc p _ h; omega
  | succ n ih =>
    intro acc p hp hf hb
    unfold Kernels.utf8_measure_from_utf16_loop1
    by_cases hlt : p < mem.length
    · simp only [hlt, ↓reduceIte]
      obtain ⟨⟨v, p'⟩, hs⟩ := (isOk_iff _).1 (extract_utf16_ok mem p hlt)
      obtain ⟨h1, h2, h3⟩ := extract_utf16_sound mem p v p' hlt hs
      have hm := utf8Measure_le v
      simp only [hs, ok_bind, utf8_measure_eq]
      rw [Nat.mod_eq_of_lt (by omega), ih _ _ h2 (by omega) (by omega), h3]
      simp [Nat.add_assoc]
    · have hd : mem.drop p = [] := List.drop_eq_nil_of_le (by omega)
      simp [hlt, hd, decodeUtf16_nil]

/-- the translated sizing pass UTF-16 -> UTF-8 is the model's `measure` -/
theorem utf8_measure_from_utf16_eq (mem : List Nat) (fuel : Nat) (hf : mem.length < fuel) (hl : 4 * mem.length < 2 ^ 64) :
    Kernels.utf8_measure_from_utf16 mem fuel 0 false mem.length = .ok (Utf.measure .utf16 .utf8 mem) := by
  unfold Kernels.utf8_measure_from_utf16
  simp only [↓reduceIte, Nat.zero_add]
  rw [utf8_measure_from_utf16_loop_eq mem fuel 0 0 (by omega) (by omega) (by omega)]
  simp only [Utf.measure, decode, Nat.zero_add]
  congr 1

set_option hygiene false in
macro "kernel16_lt" : tactic => `(tactic| (
    simp only [List.getElem?_cons_zero, List.getElem?_cons_succ, List.getElem?_nil, List.length_cons, List.length_nil,
      Nat.zero_add, Nat.add_zero] at hlen r0 r1 h
    unfold Kernels.extract_utf16 at h
    simp only [rd16, r0, r1, Nat.add_zero, ok_bind, error_bind, pure_eq_ok, Kernels.error_char] at h
    repeat' split at h
    all_goals first
      | (cases h; first | omega | (simp; done) | decide)
      | (exfalso; first | omega | (cases h)) ))

/-- the value one call of the translated `extract_utf16` returns fits 23 bits (a unit, a decoded pair, or a flagged error) -/
theorem extract_utf16_lt (mem : List Nat) (hu : ∀ u ∈ mem, u < 65536) (p v p' : Nat) (hp : p < mem.length)
    (h : Kernels.extract_utf16 mem p mem.length = .ok (v, p')) : v < 2 ^ 23 := by
  generalize hl : mem.drop p = l
  have hlen := len_drop hl (by omega)
  have r0 := rd_drop hl 0
  have r1 := rd_drop hl 1
  have hul : ∀ u ∈ l, u < 65536 := fun u hu' => hu u (List.mem_of_mem_drop (hl ▸ hu'))
  simp only [Nat.add_zero] at r0
  rw [hlen] at h
  clear hl
  rcases l with _ | ⟨u0, _ | ⟨u1, r⟩⟩
  · simp at hlen; omega
  · have b0 := hul u0 (by simp)
    kernel16_lt
  · have b0 := hul u0 (by simp)
    have b1 := hul u1 (by simp)
    have a0 : u0 &&& 1023 ≤ 1023 := Nat.and_le_right
    have a1 : u1 &&& 1023 ≤ 1023 := Nat.and_le_right
    kernel16_lt

/-- what the translated fill pass returns for a model `Fill`: the error code (0 = success) and the units stored -/
def fillResult (f : Fill) : M (Int × List Nat) :=
  match f.status with
  | .done => .ok ((0 : Int), f.out)
  | .error k => .ok ((k : Int), f.out)
  | .assertFail msg => .error (.assertFail msg)

def modeCode : Mode → Int
  | .assumeValid => 0
  | .substituteInvalid => 1
  | .checkValidity => 2

theorem utf8_convert_from_utf16_loop_eq (mem : List Nat) (m : Mode) (subst : Bool) (hu : ∀ u ∈ mem, u < 65536) :
    ∀ fuel out p, p ≤ mem.length → mem.length - p < fuel →
      Kernels.utf8_convert_from_utf16_loop1 mem 0 mem.length (modeCode m) mem.length fuel p out
        = (fillResult (fill (stepCh .utf16 .utf8 m subst) (decodeUtf16 (mem.drop p)))).map (fun r => (r.1, out ++ r.2)) := by
  intro fuel
  induction fuel with
  | zero => intro out p _ h; omega
  | succ n ih =>
    intro out p hp hf
    unfold Kernels.utf8_convert_from_utf16_loop1
    by_cases hlt : p < mem.length
    · simp only [hlt, ↓reduceIte]
      obtain ⟨⟨v, p'⟩, hs⟩ := (isOk_iff _).1 (extract_utf16_ok mem p hlt)
      obtain ⟨h1, h2, h3⟩ := extract_utf16_sound mem p v p' hlt hs
      have hv := extract_utf16_lt mem hu p v p' hlt hs
      simp only [hs, ok_bind, h3, fill, stepCh, char_error_eq v (by omega), write_utf8_eq]
      have ih' := fun o => ih o p' h2 (by omega)
      simp only [ih']
      generalize fill (stepCh Enc.utf16 Enc.utf8 m subst) (decodeUtf16 (List.drop p' mem)) = F
      obtain ⟨o, st⟩ := F
      by_cases he : charError v = 0 <;> cases m <;> cases hw : writeUtf8 v <;> cases st <;>
        simp [he, modeCode, fillResult, Except.map, badcharSubstituteUtf8, List.append_assoc]
    · have hd : mem.drop p = [] := List.drop_eq_nil_of_le (by omega)
      simp [hlt, hd, decodeUtf16_nil, fill, fillResult, Except.map]

theorem map_fillResult_nil (f : Fill) : Except.map (fun r : Int × List Nat => (r.fst, [] ++ r.snd)) (fillResult f) = fillResult f := by
  unfold fillResult; cases f.status <;> simp [Except.map]

/-- the translated filling pass UTF-16 -> UTF-8 is the model's `fill` over the model's decoder: same units stored, same
    error code, same assertion -/
theorem utf8_convert_from_utf16_eq (mem : List Nat) (m : Mode) (subst : Bool) (hu : ∀ u ∈ mem, u < 65536)
    (fuel : Nat) (hf : mem.length < fuel) :
    Kernels.utf8_convert_from_utf16 mem fuel 0 mem.length (modeCode m)
      = fillResult (fill (stepCh .utf16 .utf8 m subst) (decode .utf16 mem)) := by
  unfold Kernels.utf8_convert_from_utf16
  simp only [Nat.zero_add]
  rw [utf8_convert_from_utf16_loop_eq mem m subst hu fuel [] 0 (by omega) (by omega)]
  simp only [List.drop_zero, decode]
  exact map_fillResult_nil _

end StVerif.KernelBridge
