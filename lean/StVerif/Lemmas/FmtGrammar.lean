/-
  C11 helper lemmas, part 2: the pointer-walking parser of the model computes the Spec's field
  grammar (`parse_format` = `parseItems`) and its literal scanner the Spec's `splitLiteral`.
-/
import StVerif.Lemmas.FmtSpec

namespace StVerif.Lemmas.Fmt
open StVerif StVerif.Fmt
open StVerif.Spec

/-- a C string: no zero byte inside -/
def NoNul (fmt : List Nat) : Prop := ∀ b ∈ fmt, b ≠ 0

theorem drop_cons_of_lt {fmt : List Nat} {i : Nat} (h : i < fmt.length) :
    fmt.drop i = fmt.getD i 0 :: fmt.drop (i + 1) := by
  rw [List.drop_eq_getElem_cons h]
  congr 1
  simp [List.getD_eq_getElem?_getD, h]

theorem getD_ne_zero {fmt : List Nat} (hz : NoNul fmt) {i : Nat} (h : i < fmt.length) : fmt.getD i 0 ≠ 0 := by
  have : fmt.getD i 0 = fmt[i] := by simp [List.getD_eq_getElem?_getD, h]
  rw [this]
  exact hz _ (List.getElem_mem h)

/-- the relation between one iteration of the specifier loop and one item of the grammar -/
def StepRel (fmt : List Nat) (pos : Nat) (spec : FormatSpec) : Outcome PStep → Prop
  | .ok (.cont f np) => Render.parseItems (fmt.drop (pos + 1)) spec = Render.parseItems (fmt.drop (np + 1)) f
  | .ok (.done f np) => Render.parseItems (fmt.drop (pos + 1)) spec = some (f, fmt.drop np)
  | .throw _ => Render.parseItems (fmt.drop (pos + 1)) spec = none
  | _ => True

/-- one item of the grammar, unfolded -/
theorem parseItems_cons (c : Nat) (rest : List Nat) (f : FormatSpec) :
    Render.parseItems (c :: rest) f =
      if c = 125 then some (f, rest)
      else if c = 95 then
        match rest with
        | [] => none
        | p :: rest' => Render.parseItems rest' { f with pad := p, numericPad := false }
      else if 49 ≤ c ∧ c ≤ 57 then
        Render.parseItems (rest.drop ((strtol10 (c :: rest)).2 - 1)) { f with minimumLength := longToInt (strtol10 (c :: rest)).1 }
      else if c = 46 then
        if rest = [] then none
        else Render.parseItems (rest.drop (strtol10 rest).2) { f with precision := longToInt (strtol10 rest).1 }
      else if c = 38 then
        if rest = [] then none
        else Render.parseItems (rest.drop (strtol10 rest).2) { f with argIndex := longToInt (strtol10 rest).1 }
      else
        match Render.flag c f with
        | some f' => Render.parseItems rest f'
        | none => none := by
  rw [Render.parseItems.eq_def]
  rfl

theorem parseItems_nil (f : FormatSpec) : Render.parseItems [] f = none := by
  rw [Render.parseItems.eq_def]

theorem strtolAt_fst (fmt : List Nat) (p : Nat) : (strtolAt fmt p).1 = (strtol10 (fmt.drop p)).1 := rfl
theorem strtolAt_snd (fmt : List Nat) (p : Nat) : (strtolAt fmt p).2 = p + (strtol10 (fmt.drop p)).2 := rfl

theorem parseStep_spec (fmt : List Nat) (hz : NoNul fmt) (pos : Nat) (h : pos < fmt.length) (spec : FormatSpec) :
    StepRel fmt pos spec (parseStep fmt pos spec) := by
  by_cases h1 : pos + 1 < fmt.length
  · -- a byte `c ≠ 0` at pos+1
    have hc := rd_of_lt h1
    have hc0 := getD_ne_zero hz h1
    have hd := drop_cons_of_lt h1
    generalize fmt.getD (pos + 1) 0 = c at hc hc0 hd
    have hk : 49 ≤ c ∧ c ≤ 57 → 1 ≤ (strtol10 (c :: fmt.drop (pos + 1 + 1))).2 :=
      fun hdg => strtol10_pos_of_digit c _ hdg
    by_cases h2 : pos + 1 + 1 < fmt.length
    · have hc1 := rd_of_lt h2
      have hc10 := getD_ne_zero hz h2
      have hd1 := drop_cons_of_lt h2
      generalize fmt.getD (pos + 1 + 1) 0 = c1 at hc1 hc10 hd1
      unfold parseStep
      simp only [hc, hc1, hc0, hc10, if_false, apply_ite (StepRel fmt pos spec)]
      repeat' (apply ite_prop <;> intro _)
      all_goals simp only [StepRel, hd, strtolAt_fst, strtolAt_snd]
      all_goals rw [parseItems_cons]
      all_goals first
        | (subst_vars; simp [Render.flag]; done)
        | (simp [*, Render.flag, hd1, List.drop_drop]; done)
        | (simp [*, -hd1, Render.flag, List.drop_drop]; congr 2; have := hk (by assumption); omega)
        | (simp [*, -hd1, Render.flag, List.drop_drop]; rw [if_neg (by omega)]; congr 2; omega)
    · have hl : pos + 1 + 1 = fmt.length := by omega
      have hc1 : rd fmt (pos + 1 + 1) = some 0 := by rw [hl]; exact rd_at_end fmt
      have hd1 : fmt.drop (pos + 1 + 1) = [] := by rw [hl]; simp
      unfold parseStep
      simp only [hc, hc1, hc0, if_false, if_true, apply_ite (StepRel fmt pos spec)]
      repeat' (apply ite_prop <;> intro _)
      all_goals simp only [StepRel, hd, strtolAt_fst, strtolAt_snd]
      all_goals rw [parseItems_cons]
      all_goals first
        | (subst_vars; simp [Render.flag, hd1]; done)
        | (simp [*, Render.flag, hd1, List.drop_drop]; done)
        | (simp [*, Render.flag, List.drop_drop]
           have hk' := strtol10_pos_of_digit c [] (by assumption)
           rw [List.drop_eq_nil_of_le (by omega)])
  · have hl : pos + 1 = fmt.length := by omega
    have hc : rd fmt (pos + 1) = some 0 := by rw [hl]; exact rd_at_end fmt
    have hd : fmt.drop (pos + 1) = [] := by rw [hl]; simp
    unfold parseStep
    simp only [hc, if_true, StepRel, hd]
    exact parseItems_nil spec

def LoopRel (fmt : List Nat) (pos : Nat) (spec : FormatSpec) : Outcome (FormatSpec × Nat) → Prop
  | .ok (f, np) => Render.parseItems (fmt.drop (pos + 1)) spec = some (f, fmt.drop np)
  | .throw _ => Render.parseItems (fmt.drop (pos + 1)) spec = none
  | _ => True

/-- `parse_format` computes the field grammar: the spec and the text after the closing brace -/
theorem parseLoop_spec (fmt : List Nat) (hz : NoNul fmt) (pos : Nat) (h : pos < fmt.length) (spec : FormatSpec) :
    LoopRel fmt pos spec (parseLoop fmt pos spec) := by
  fun_induction parseLoop fmt pos spec with
  | case1 pos spec s np hs =>
    have := parseStep_spec fmt hz pos h spec; rw [hs] at this; exact this
  | case2 pos spec s np hs hg ih =>
    have h1 := parseStep_spec fmt hz pos h spec; rw [hs] at h1; simp only [StepRel] at h1
    have h2 := parseStep_ok fmt pos spec h; rw [hs] at h2; simp only [PStepOk] at h2
    have := ih h2.2
    revert this
    cases parseLoop fmt np s with
    | ok r => obtain ⟨f, np'⟩ := r; simp only [LoopRel]; intro h3; rw [h1, h3]
    | throw e => simp only [LoopRel]; intro h3; rw [h1, h3]
    | _ => simp [LoopRel]
  | case3 pos spec s np hs hg => trivial
  | case4 pos spec e hs =>
    have := parseStep_spec fmt hz pos h spec; rw [hs] at this; exact this
  | case5 => trivial
  | case6 => trivial
  | case7 => trivial
  | case8 => trivial

/-- `parse_format` entered at a '{' at index `p` -/
theorem parseFormat_spec (fmt : List Nat) (hz : NoNul fmt) (p : Nat) (h : p < fmt.length) (hc : rd fmt p = some 123) :
    LoopRel fmt p {} (parseFormat fmt p) := by
  unfold parseFormat
  simp only [hc]
  exact parseLoop_spec fmt hz p h {}

/-! ### the literal scanner -/

theorem splitLiteral_open2 (rest : List Nat) :
    Render.splitLiteral (123 :: 123 :: rest) = (123 :: (Render.splitLiteral rest).1, (Render.splitLiteral rest).2) := by
  rw [Render.splitLiteral]

theorem splitLiteral_close2 (rest : List Nat) :
    Render.splitLiteral (125 :: 125 :: rest) = (125 :: (Render.splitLiteral rest).1, (Render.splitLiteral rest).2) := by
  rw [Render.splitLiteral]

theorem splitLiteral_open1 (rest : List Nat) (h : rest.head? ≠ some 123) :
    Render.splitLiteral (123 :: rest) = ([], 123 :: rest) := by
  cases rest with
  | nil => rw [Render.splitLiteral]; simp
  | cons c r =>
    have : c ≠ 123 := by simpa using h
    rw [Render.splitLiteral]
    intro r' heq; injection heq with h3 _; exact this h3

theorem splitLiteral_close1 (rest : List Nat) (h : rest.head? ≠ some 125) :
    Render.splitLiteral (125 :: rest) = (125 :: (Render.splitLiteral rest).1, (Render.splitLiteral rest).2) := by
  cases rest with
  | nil => rw [Render.splitLiteral] <;> simp [Render.splitLiteral]
  | cons c r =>
    have : c ≠ 125 := by simpa using h
    rw [Render.splitLiteral] <;> simp [this]

theorem splitLiteral_other (c : Nat) (rest : List Nat) (h1 : c ≠ 123) (h2 : c ≠ 125) :
    Render.splitLiteral (c :: rest) = (c :: (Render.splitLiteral rest).1, (Render.splitLiteral rest).2) := by
  rw [Render.splitLiteral] <;> simp [h1, h2]

theorem slice_self (fmt : List Nat) (a : Nat) : slice fmt a a = [] := by simp [slice]

theorem slice_succ {fmt : List Nat} {a b : Nat} (hab : a ≤ b) (hb : b < fmt.length) :
    slice fmt a (b + 1) = slice fmt a b ++ [fmt.getD b 0] := by
  unfold slice
  have h1 : b + 1 - a = (b - a) + 1 := by omega
  rw [h1, List.take_succ]
  congr 1
  have : (fmt.drop a)[b - a]? = some (fmt.getD b 0) := by
    rw [List.getElem?_drop]
    have : a + (b - a) = b := by omega
    rw [this]
    simp [List.getD_eq_getElem?_getD, hb]
  rw [this]; rfl

/-- what the scanner has produced so far: the events already emitted plus the pending run
    `[m_format_str, next)` that the next `append` will copy -/
def pending (fmt : List Nat) (s : FState) : List Nat := flatten s.out.reverse ++ slice fmt s.m s.next

def FetchRel (fmt : List Nat) (s : FState) : Outcome FStep → Prop
  | .ok (.cont s') =>
      s'.m ≤ s'.next ∧
      pending fmt s' ++ (Render.splitLiteral (fmt.drop s'.next)).1 = pending fmt s ++ (Render.splitLiteral (fmt.drop s.next)).1 ∧
      (Render.splitLiteral (fmt.drop s'.next)).2 = (Render.splitLiteral (fmt.drop s.next)).2
  | .ok (.stop s') => s' = s ∧ Render.splitLiteral (fmt.drop s.next) = ([], fmt.drop s.next)
  | _ => True

theorem pending_push (fmt : List Nat) (s : FState) (n : Nat) :
    pending fmt { m := s.next + 1, next := s.next + 2, out := .append (slice fmt s.m s.next) :: s.out } =
      pending fmt s ++ slice fmt (s.next + 1) (s.next + 2) := by
  simp [pending, Event.bytes]

theorem getD_of_drop {fmt : List Nat} {i c : Nat} {r : List Nat} (h : i < fmt.length) (he : fmt.drop i = c :: r) :
    fmt.getD i 0 = c := by
  have := drop_cons_of_lt h; rw [he] at this; injection this with h1 _; exact h1.symm

theorem slice_one {fmt : List Nat} {i : Nat} (h : i < fmt.length) : slice fmt i (i + 1) = [fmt.getD i 0] := by
  rw [slice_succ (Nat.le_refl _) h, slice_self]; rfl

theorem fetchStep_spec (fmt : List Nat) (hz : NoNul fmt) (s : FState) (hm : s.m ≤ s.next) (hn : s.next ≤ fmt.length) :
    FetchRel fmt s (fetchStep fmt s) := by
  by_cases h1 : s.next < fmt.length
  · have hc := rd_of_lt h1
    have hc0 := getD_ne_zero hz h1
    have hd := drop_cons_of_lt h1
    have hs1 := slice_succ hm h1
    generalize fmt.getD s.next 0 = c at hc hc0 hd hs1
    -- the byte after it (0 at the end of the string)
    have hnext : ∃ c1, rd fmt (s.next + 1) = some c1 ∧
        ((c1 = 0 ∧ fmt.drop (s.next + 1) = []) ∨
         (c1 ≠ 0 ∧ s.next + 1 < fmt.length ∧ fmt.drop (s.next + 1) = c1 :: fmt.drop (s.next + 2))) := by
      by_cases h2 : s.next + 1 < fmt.length
      · exact ⟨fmt.getD (s.next + 1) 0, rd_of_lt h2, Or.inr ⟨getD_ne_zero hz h2, h2, drop_cons_of_lt h2⟩⟩
      · have hl : s.next + 1 = fmt.length := by omega
        exact ⟨0, by rw [hl]; exact rd_at_end fmt, Or.inl ⟨rfl, by rw [hl]; simp⟩⟩
    obtain ⟨c1, hc1, hcase⟩ := hnext
    unfold fetchStep
    simp only [hc, hc1, hc0, if_false, apply_ite (FetchRel fmt s)]
    repeat' (apply ite_prop <;> intro _)
    all_goals simp only [FetchRel]
    · -- '{' not followed by '{': stop
      rename_i hc123 hne
      subst hc123
      refine ⟨trivial, ?_⟩
      rw [hd]
      apply splitLiteral_open1
      rcases hcase with ⟨h0, he⟩ | ⟨_, _, he⟩
      · rw [he]; simp
      · rw [he]; simpa using hne
    · -- "{{"
      rename_i hc123 hne
      subst hc123
      have e : c1 = 123 := Decidable.of_not_not hne
      subst e
      rcases hcase with ⟨h0, _⟩ | ⟨_, h2, he⟩
      · exact absurd h0 (by decide)
      · refine ⟨Nat.le_succ _, ?_, ?_⟩
        · rw [pending_push fmt s 0, hd, he, splitLiteral_open2, slice_one h2, getD_of_drop h2 he]; simp
        · rw [hd, he, splitLiteral_open2]
    · -- "}}"
      rename_i _ hc125 he125
      subst hc125
      subst he125
      rcases hcase with ⟨h0, _⟩ | ⟨_, h2, he⟩
      · exact absurd h0 (by decide)
      · refine ⟨Nat.le_succ _, ?_, ?_⟩
        · rw [pending_push fmt s 0, hd, he, splitLiteral_close2, slice_one h2, getD_of_drop h2 he]; simp
        · rw [hd, he, splitLiteral_close2]
    · -- a lone '}'
      rename_i _ hc125 hne
      subst hc125
      have hne' : (fmt.drop (s.next + 1)).head? ≠ some 125 := by
        rcases hcase with ⟨_, he⟩ | ⟨_, _, he⟩
        · rw [he]; simp
        · rw [he]; simpa using hne
      refine ⟨Nat.le_succ_of_le hm, ?_, ?_⟩
      · simp only [pending]
        rw [hs1, hd, splitLiteral_close1 _ hne']; simp
      · rw [hd, splitLiteral_close1 _ hne']
    · -- any other byte
      rename_i hn123 hn125
      refine ⟨Nat.le_succ_of_le hm, ?_, ?_⟩
      · simp only [pending]
        rw [hs1, hd, splitLiteral_other c _ hn123 hn125]; simp
      · rw [hd, splitLiteral_other c _ hn123 hn125]
  · have hl : s.next = fmt.length := by omega
    have hc : rd fmt s.next = some 0 := by rw [hl]; exact rd_at_end fmt
    have hd : fmt.drop s.next = [] := by rw [hl]; simp
    unfold fetchStep
    simp only [hc, if_true, FetchRel, hd]
    exact ⟨trivial, by rw [Render.splitLiteral]⟩

def FetchLoopRel (fmt : List Nat) (s : FState) : Outcome FState → Prop
  | .ok s' =>
      s'.m ≤ s'.next ∧
      pending fmt s' = pending fmt s ++ (Render.splitLiteral (fmt.drop s.next)).1 ∧
      fmt.drop s'.next = (Render.splitLiteral (fmt.drop s.next)).2
  | _ => True

theorem fetchLoop_spec (fmt : List Nat) (hz : NoNul fmt) (s : FState) (hm : s.m ≤ s.next) (hn : s.next ≤ fmt.length) :
    FetchLoopRel fmt s (fetchLoop fmt s) := by
  fun_induction fetchLoop fmt s with
  | case1 s s' hs =>
    have := fetchStep_spec fmt hz s hm hn; rw [hs] at this; simp only [FetchRel] at this
    obtain ⟨rfl, h2⟩ := this
    simp only [FetchLoopRel, h2]
    exact ⟨hm, by simp, trivial⟩
  | case2 s s' hs hg ih =>
    have h1 := fetchStep_spec fmt hz s hm hn; rw [hs] at h1; simp only [FetchRel] at h1
    have := ih h1.1 hg.2
    revert this
    cases fetchLoop fmt s' with
    | ok r =>
      simp only [FetchLoopRel]
      intro ⟨h3, h4, h5⟩
      refine ⟨h3, ?_, ?_⟩
      · rw [h4, h1.2.1]
      · rw [h5, h1.2.2]
    | _ => simp [FetchLoopRel]
  | case3 => trivial
  | case4 => trivial
  | case5 => trivial
  | case6 => trivial
  | case7 => trivial
  | case8 => trivial

/-- `fetch_prefix` emits the literal text in front of the next field with the brace escapes
    reduced, and stops at that field (or at the end) -/
theorem fetchPrefix_spec (fmt : List Nat) (hz : NoNul fmt) (pos : Nat) (h : pos ≤ fmt.length) :
    match fetchPrefix fmt pos with
    | .ok (ev, p, _) => flatten ev = (Render.splitLiteral (fmt.drop pos)).1 ∧ fmt.drop p = (Render.splitLiteral (fmt.drop pos)).2
    | _ => True := by
  have hl := fetchLoop_spec fmt hz { m := pos, next := pos, out := [] } (Nat.le_refl _) h
  have hs := fetchLoop_sat fmt { m := pos, next := pos, out := [] } h
  unfold fetchPrefix
  revert hl hs
  cases fetchLoop fmt { m := pos, next := pos, out := [] } with
  | ok s' =>
    simp only [FetchLoopRel, Sat, Outcome.bind]
    intro ⟨h1, h2, h3⟩ ⟨_, _, c, hc, _⟩
    simp only [hc]
    refine ⟨?_, h3⟩
    simp only [pending, slice_self, flatten_nil, List.reverse_nil, List.append_nil, List.nil_append] at h2
    rw [← h2]
    by_cases hne : s'.next ≠ s'.m
    · simp [hne, Event.bytes]
    · have : s'.next = s'.m := Decidable.of_not_not hne
      simp [this, slice_self]
  | _ => simp [Outcome.bind]

theorem nextFormat_spec (fmt : List Nat) (hz : NoNul fmt) (pos : Nat) (h : pos ≤ fmt.length) :
    match nextFormat fmt pos with
    | .ok (ev, p, more) =>
        flatten ev = (Render.splitLiteral (fmt.drop pos)).1 ∧ fmt.drop p = (Render.splitLiteral (fmt.drop pos)).2 ∧
        (more = false → fmt.drop p = [])
    | _ => True := by
  have h1 := fetchPrefix_spec fmt hz pos h
  have h2 := fetchPrefix_sat fmt pos h
  unfold nextFormat
  revert h1 h2
  cases fetchPrefix fmt pos with
  | ok r =>
    obtain ⟨ev, p, c⟩ := r
    simp only [Sat, Outcome.bind]
    intro ⟨h3, h4⟩ ⟨_, hp, hc, h01⟩
    rcases h01 with rfl | rfl
    · simp only [if_true]
      refine ⟨h3, h4, fun _ => ?_⟩
      -- the byte at p is the terminator, so p is the end of the string (no NUL inside)
      by_cases hlt : p < fmt.length
      · rw [rd_of_lt hlt] at hc; injection hc with hc; exact absurd hc (getD_ne_zero hz hlt)
      · exact List.drop_eq_nil_of_le (by omega)
    · simp only [show ¬((123 : Nat) = 0) by decide, if_false, if_true]
      exact ⟨h3, h4, fun hf => by simp at hf⟩
  | _ => simp [Outcome.bind]

end StVerif.Lemmas.Fmt
