import StVerif.Lemmas.Codec

namespace StVerif.Lemmas.Codec
open StVerif StVerif.Codec StVerif.Generated StVerif.Bits
open StVerif.Spec

/-! ### hex decoder loop -/

def hexOk (txt : List Nat) : Bool := txt.all fun c => decide (0 ≤ hexVal c)

/-- the bytes the loop stores, as a pure function of the text -/
def hexDecPairs : List Nat → List Nat
  | a :: b :: rest => chr ((hexVal a).toNat <<< 4 ||| (hexVal b).toNat) :: hexDecPairs rest
  | _ => []

theorem hexDecPairs_length : ∀ (n : Nat) (txt : List Nat), txt.length = 2 * n → (hexDecPairs txt).length = n
  | 0, txt, h => by
      have : txt = [] := List.eq_nil_of_length_eq_zero (by omega)
      subst this; rfl
  | n+1, txt, h => by
      match txt, h with
      | a :: b :: rest, h =>
        simp only [hexDecPairs, List.length_cons]
        rw [hexDecPairs_length n rest (by simp only [List.length_cons] at h; omega)]

theorem hexLoop_ok : ∀ (n : Nat) (txt acc : List Nat), txt.length = 2 * n → hexOk txt = true →
    hexDecodeLoop n txt acc = { writes := acc.reverse ++ hexDecPairs txt, ret := (acc.length + n : Nat) }
  | 0, txt, acc, h, _ => by
      have : txt = [] := List.eq_nil_of_length_eq_zero (by omega)
      subst this; simp [hexDecodeLoop, hexDecPairs]
  | n+1, txt, acc, h, hok => by
      match txt, h, hok with
      | a :: b :: rest, h, hok =>
        simp only [hexOk, List.all_cons, Bool.and_eq_true, decide_eq_true_eq] at hok
        obtain ⟨ha, hb, hr⟩ := hok
        have hlen : rest.length = 2 * n := by simp only [List.length_cons] at h; omega
        simp only [hexDecodeLoop]
        rw [if_neg (by omega)]
        rw [hexLoop_ok n rest _ hlen (by simpa [hexOk] using hr)]
        simp only [hexDecPairs, List.reverse_cons, List.append_assoc, List.singleton_append, List.length_cons]
        congr 1; omega

theorem hexLoop_bad : ∀ (n : Nat) (txt acc : List Nat), txt.length = 2 * n → hexOk txt = false →
    ∃ w, hexDecodeLoop n txt acc = { writes := w, ret := -1 } ∧ w.length ≤ acc.length + n
  | 0, txt, acc, h, hbad => by
      have : txt = [] := List.eq_nil_of_length_eq_zero (by omega)
      subst this; simp [hexOk] at hbad
  | n+1, txt, acc, h, hbad => by
      match txt, h, hbad with
      | a :: b :: rest, h, hbad =>
        have hlen : rest.length = 2 * n := by simp only [List.length_cons] at h; omega
        simp only [hexDecodeLoop]
        by_cases hab : hexVal a < 0 ∨ hexVal b < 0
        · rw [if_pos hab]; exact ⟨acc.reverse, rfl, by simp⟩
        · rw [if_neg hab]
          have hr : hexOk rest = false := by
            simp only [hexOk, List.all_cons] at hbad
            have ha : decide (0 ≤ hexVal a) = true := by simp; omega
            have hb : decide (0 ≤ hexVal b) = true := by simp; omega
            rw [ha, hb] at hbad; simpa [hexOk] using hbad
          obtain ⟨w, hw, hl⟩ := hexLoop_bad n rest (chr ((hexVal a).toNat <<< 4 ||| (hexVal b).toNat) :: acc) hlen hr
          exact ⟨w, hw, by simp only [List.length_cons] at hl; omega⟩

theorem hexOk_iff_all_digits (txt : List Nat) (h : Bytes txt) : hexOk txt = txt.all Rfc4648.isHexDigit := by
  induction txt with
  | nil => rfl
  | cons c rest ih =>
    have hc : c < 256 := h c (by simp)
    have hr : Bytes rest := fun x hx => h x (by simp [hx])
    simp only [hexOk, List.all_cons] at *
    rw [ih hr]
    congr 1
    have := hexVal_nonneg_iff ⟨c, hc⟩
    simpa using this

/-- decoding the encoder's own output, pair by pair -/
theorem hexDecPairs_encode (bs : List Nat) (h : Bytes bs) : hexDecPairs (hexEncode bs) = bs := by
  induction bs with
  | nil => rfl
  | cons b rest ih =>
    have hb : b < 256 := h b (by simp)
    have hr : Bytes rest := fun x hx => h x (by simp [hx])
    simp only [hexEncode, hexDecPairs, idx_hex_hi b hb, idx_hex_lo, ih hr]
    rw [hexVal_hexChar' (by omega : b / 16 < 16), hexVal_hexChar' (by omega : b % 16 < 16)]
    simp only [Int.toNat_natCast]
    rw [dec_hex _ _ (by omega) (by omega)]
    congr 1; omega

theorem hexDecPairs_encode_upper (bs : List Nat) (h : Bytes bs) :
    hexDecPairs ((hexEncode bs).map Rfc4648.upperHex) = bs := by
  induction bs with
  | nil => rfl
  | cons b rest ih =>
    have hb : b < 256 := h b (by simp)
    have hr : Bytes rest := fun x hx => h x (by simp [hx])
    simp only [hexEncode, List.map_cons, hexDecPairs, idx_hex_hi b hb, idx_hex_lo, ih hr]
    rw [hexVal_upper' (by omega : b / 16 < 16), hexVal_upper' (by omega : b % 16 < 16)]
    simp only [Int.toNat_natCast]
    rw [dec_hex _ _ (by omega) (by omega)]
    congr 1; omega

theorem hexOk_encode (bs : List Nat) (h : Bytes bs) : hexOk (hexEncode bs) = true := by
  induction bs with
  | nil => rfl
  | cons b rest ih =>
    have hb : b < 256 := h b (by simp)
    have hr : Bytes rest := fun x hx => h x (by simp [hx])
    simp only [hexEncode, hexOk, List.all_cons, idx_hex_hi b hb, idx_hex_lo] at *
    rw [hexVal_hexChar' (by omega : b / 16 < 16), hexVal_hexChar' (by omega : b % 16 < 16), ih hr]
    simp; omega

theorem hexOk_encode_upper (bs : List Nat) (h : Bytes bs) : hexOk ((hexEncode bs).map Rfc4648.upperHex) = true := by
  induction bs with
  | nil => rfl
  | cons b rest ih =>
    have hb : b < 256 := h b (by simp)
    have hr : Bytes rest := fun x hx => h x (by simp [hx])
    simp only [hexEncode, List.map_cons, hexOk, List.all_cons, idx_hex_hi b hb, idx_hex_lo] at *
    rw [hexVal_upper' (by omega : b / 16 < 16), hexVal_upper' (by omega : b % 16 < 16), ih hr]
    simp; omega

end StVerif.Lemmas.Codec

namespace StVerif.Lemmas.Codec
open StVerif StVerif.Codec StVerif.Generated StVerif.Bits
open StVerif.Spec

/-! ### base64 decoder: main loop and final group -/

def b64Ok (txt : List Nat) : Bool := txt.all fun c => decide (0 ≤ b64Val c)

def dec0 (c0 c1 : Nat) : Nat := chr (((b64Val c0).toNat <<< 2) ||| (((b64Val c1).toNat >>> 4) &&& 0x03))
def dec1 (c1 c2 : Nat) : Nat := chr ((((b64Val c1).toNat <<< 4) &&& 0xF0) ||| (((b64Val c2).toNat >>> 2) &&& 0x0F))
def dec2 (c2 c3 : Nat) : Nat := chr ((((b64Val c2).toNat <<< 6) &&& 0xC0) ||| ((b64Val c3).toNat &&& 0x3F))

/-- bytes stored by the main loop for a run of full groups -/
def decBody : List Nat → List Nat
  | c0 :: c1 :: c2 :: c3 :: rest => dec0 c0 c1 :: dec1 c1 c2 :: dec2 c2 c3 :: decBody rest
  | _ => []

theorem decBody_length : ∀ (m : Nat) (body : List Nat), body.length = 4 * m → (decBody body).length = 3 * m
  | 0, body, h => by
      have : body = [] := List.eq_nil_of_length_eq_zero (by omega)
      subst this; rfl
  | m+1, body, h => by
      match body, h with
      | c0 :: c1 :: c2 :: c3 :: rest, h =>
        simp only [decBody, List.length_cons]
        rw [decBody_length m rest (by simp only [List.length_cons] at h; omega)]; omega

theorem mainLoop_ok (endp : Nat) : ∀ (m : Nat) (body : List Nat) (outp : Nat) (acc last : List Nat),
    body.length = 4 * m → b64Ok body = true → last.length = 4 →
    outp + 3 * m < endp → endp ≤ outp + 3 * m + 3 →
    b64MainLoop endp outp (body ++ last) acc = .inr ((decBody body).reverse ++ acc, last)
  | 0, body, outp, acc, last, h, _, hl, _, h2 => by
      have : body = [] := List.eq_nil_of_length_eq_zero (by omega)
      subst this
      match last, hl with
      | [c0, c1, c2, c3], _ =>
        simp only [List.nil_append, b64MainLoop, decBody, List.reverse_nil]
        rw [if_neg (by omega)]
  | m+1, body, outp, acc, last, h, hok, hl, h1, h2 => by
      match body, h, hok with
      | c0 :: c1 :: c2 :: c3 :: rest, h, hok =>
        simp only [b64Ok, List.all_cons, Bool.and_eq_true, decide_eq_true_eq] at hok
        obtain ⟨h0, h1', h2', h3', hr⟩ := hok
        have hlen : rest.length = 4 * m := by simp only [List.length_cons] at h; omega
        have hc : outp + 3 < endp := by omega
        have hn : ¬ (b64Val c0 < 0 ∨ b64Val c1 < 0 ∨ b64Val c2 < 0 ∨ b64Val c3 < 0) := by omega
        simp only [List.cons_append, b64MainLoop, hc, hn, if_true, if_false]
        rw [mainLoop_ok endp m rest (outp + 3) _ last hlen (by simpa [b64Ok] using hr) hl (by omega) (by omega)]
        simp [decBody, dec0, dec1, dec2]

theorem mainLoop_bad (endp : Nat) : ∀ (m : Nat) (body : List Nat) (outp : Nat) (acc last : List Nat),
    body.length = 4 * m → b64Ok body = false → outp + 3 * m < endp →
    ∃ w, b64MainLoop endp outp (body ++ last) acc = .inl { writes := w, ret := -1 } ∧ w.length ≤ acc.length + 3 * m
  | 0, body, outp, acc, last, h, hbad, _ => by
      have : body = [] := List.eq_nil_of_length_eq_zero (by omega)
      subst this; simp [b64Ok] at hbad
  | m+1, body, outp, acc, last, h, hbad, h1 => by
      match body, h, hbad with
      | c0 :: c1 :: c2 :: c3 :: rest, h, hbad =>
        have hlen : rest.length = 4 * m := by simp only [List.length_cons] at h; omega
        have hc : outp + 3 < endp := by omega
        simp only [List.cons_append, b64MainLoop, hc, if_true]
        by_cases hneg : b64Val c0 < 0 ∨ b64Val c1 < 0 ∨ b64Val c2 < 0 ∨ b64Val c3 < 0
        · rw [if_pos hneg]; exact ⟨acc.reverse, rfl, by simp⟩
        · rw [if_neg hneg]
          have hr : b64Ok rest = false := by
            simp only [b64Ok, List.all_cons] at hbad
            have e0 : decide (0 ≤ b64Val c0) = true := by simp; omega
            have e1 : decide (0 ≤ b64Val c1) = true := by simp; omega
            have e2 : decide (0 ≤ b64Val c2) = true := by simp; omega
            have e3 : decide (0 ≤ b64Val c3) = true := by simp; omega
            rw [e0, e1, e2, e3] at hbad; simpa [b64Ok] using hbad
          obtain ⟨w, hw, hl⟩ := mainLoop_bad endp m rest (outp + 3) _ last hlen hr (by omega)
          exact ⟨w, hw, by simp only [List.length_cons] at hl; omega⟩

/-- acceptance condition of the final group, as the code tests it -/
def finalOk (c0 c1 c2 c3 : Nat) : Bool :=
  decide (0 ≤ b64Val c0) && decide (0 ≤ b64Val c1) && (c2 == eqSign || decide (0 ≤ b64Val c2))
    && (c3 == eqSign || (decide (0 ≤ b64Val c2) && decide (0 ≤ b64Val c3)))

def finalBytes (c0 c1 c2 c3 : Nat) : List Nat :=
  dec0 c0 c1 :: ((if c2 ≠ eqSign then [dec1 c1 c2] else []) ++ (if c3 ≠ eqSign then [dec2 c2 c3] else []))

def eqCount (c2 c3 : Nat) : Nat := (if c3 = eqSign then 1 else 0) + (if c2 = eqSign then 1 else 0)

theorem finalBytes_length (c0 c1 c2 c3 : Nat) : (finalBytes c0 c1 c2 c3).length + eqCount c2 c3 = 3 := by
  unfold finalBytes eqCount; split <;> split <;> simp_all

theorem final_ok (acc : List Nat) (c0 c1 c2 c3 : Nat) (h : finalOk c0 c1 c2 c3 = true) :
    b64Final acc [c0, c1, c2, c3] =
      { writes := acc.reverse ++ finalBytes c0 c1 c2 c3, ret := ((acc.length + (finalBytes c0 c1 c2 c3).length : Nat) : Int) } := by
  simp only [finalOk, Bool.and_eq_true, Bool.or_eq_true, decide_eq_true_eq, beq_iff_eq] at h
  obtain ⟨⟨⟨h0, h1⟩, h2⟩, h3⟩ := h
  have hn : ¬ (b64Val c0 < 0 ∨ b64Val c1 < 0) := by omega
  simp only [b64Final, finalBytes, dec0, dec1, dec2, hn, if_false]
  by_cases e2 : c2 = eqSign <;> by_cases e3 : c3 = eqSign
  · simp [e2, e3]
  · exfalso; rcases h3 with h3 | h3
    · exact e3 h3
    · rw [e2] at h3; have := b64Val_eqSign; omega
  · have h2' : 0 ≤ b64Val c2 := by rcases h2 with h2 | h2; exact absurd h2 e2; exact h2
    have hn2 : ¬ b64Val c2 < 0 := by omega
    simp [e2, e3, hn2]
    omega
  · have h2' : 0 ≤ b64Val c2 := by rcases h2 with h2 | h2; exact absurd h2 e2; exact h2
    have h3' : 0 ≤ b64Val c3 := by rcases h3 with h3 | h3; exact absurd h3 e3; exact h3.2
    have hn2 : ¬ b64Val c2 < 0 := by omega
    have hn3 : ¬ b64Val c3 < 0 := by omega
    simp [e2, e3, hn2, hn3]
    omega

theorem final_bad (acc : List Nat) (c0 c1 c2 c3 : Nat) (h : finalOk c0 c1 c2 c3 = false) :
    ∃ w, b64Final acc [c0, c1, c2, c3] = { writes := w, ret := -1 } ∧ w.length + eqCount c2 c3 ≤ acc.length + 3 := by
  simp only [b64Final]
  by_cases h01 : b64Val c0 < 0 ∨ b64Val c1 < 0
  · rw [if_pos h01]; exact ⟨acc.reverse, rfl, by simp [eqCount]; split <;> split <;> omega⟩
  · rw [if_neg h01]
    by_cases h2 : c2 ≠ eqSign ∧ b64Val c2 < 0
    · rw [if_pos h2]; refine ⟨_, rfl, ?_⟩
      simp [eqCount, h2.1]; split <;> omega
    · rw [if_neg h2]
      by_cases h3 : c3 ≠ eqSign ∧ (b64Val c2 < 0 ∨ b64Val c3 < 0)
      · rw [if_pos h3]; refine ⟨_, rfl, ?_⟩
        simp [eqCount, h3.1]; split <;> simp <;> omega
      · exfalso
        have : finalOk c0 c1 c2 c3 = true := by
          simp only [finalOk, Bool.and_eq_true, Bool.or_eq_true, decide_eq_true_eq, beq_iff_eq]
          refine ⟨⟨⟨by omega, by omega⟩, ?_⟩, ?_⟩
          · by_cases e : c2 = eqSign
            · exact Or.inl e
            · exact Or.inr (by have := not_and.mp h2 e; omega)
          · by_cases e : c3 = eqSign
            · exact Or.inl e
            · have := not_and.mp h3 e
              exact Or.inr ⟨by omega, by omega⟩
        rw [this] at h; exact Bool.noConfusion h

/-! ### shape of a text whose length is a positive multiple of four -/

theorem split_last4 (txt : List Nat) (m : Nat) (h : txt.length = 4 * (m + 1)) :
    ∃ body c0 c1 c2 c3, txt = body ++ [c0, c1, c2, c3] ∧ body.length = 4 * m := by
  have hd : (txt.drop (4 * m)).length = 4 := by rw [List.length_drop]; omega
  match hlast : txt.drop (4 * m), hd with
  | [c0, c1, c2, c3], _ =>
    refine ⟨txt.take (4 * m), c0, c1, c2, c3, ?_, ?_⟩
    · rw [← hlast, List.take_append_drop]
    · rw [List.length_take]; omega

theorem getD_last (body : List Nat) (c0 c1 c2 c3 : Nat) :
    (body ++ [c0, c1, c2, c3]).getD (body.length + 3) 0 = c3 ∧
    (body ++ [c0, c1, c2, c3]).getD (body.length + 2) 0 = c2 := by
  constructor <;> simp [List.getD_eq_getElem?_getD]

theorem b64DecodeSize_split (body : List Nat) (c0 c1 c2 c3 : Nat) (m : Nat) (hb : body.length = 4 * m) :
    b64DecodeSize (body ++ [c0, c1, c2, c3]) = ((3 * m + 3 - eqCount c2 c3 : Nat) : Int) := by
  have hlen : (body ++ [c0, c1, c2, c3]).length = 4 * m + 4 := by simp [hb]
  have g := getD_last body c0 c1 c2 c3
  unfold b64DecodeSize
  simp only [hlen]
  rw [if_neg (by omega)]
  have e1 : 4 * m + 4 - 1 = body.length + 3 := by omega
  have e2 : 4 * m + 4 - 2 = body.length + 2 := by omega
  rw [e1, e2, g.1, g.2]
  have e3 : (4 * m + 4) / 4 = m + 1 := by omega
  unfold eqCount
  by_cases h3 : c3 = eqSign <;> by_cases h2 : c2 = eqSign <;> simp [h3, h2] <;> omega

end StVerif.Lemmas.Codec

namespace StVerif.Lemmas.Codec
open StVerif StVerif.Codec StVerif.Generated StVerif.Bits
open StVerif.Spec

/-! ### the whole caller-buffer base64 decoder on a non-empty text of acceptable length -/

theorem b64Into_too_small (body : List Nat) (c0 c1 c2 c3 m cap : Nat) (hb : body.length = 4 * m)
    (hc : cap < 3 * m + 3 - eqCount c2 c3) :
    b64DecodeInto (body ++ [c0, c1, c2, c3]) (some cap) = { writes := [], ret := -1 } := by
  unfold b64DecodeInto
  simp only [b64DecodeSize_split body c0 c1 c2 c3 m hb]
  rw [if_pos (by right; simp only [Int.toNat_natCast]; omega)]

theorem eqCount_le (c2 c3 : Nat) : eqCount c2 c3 ≤ 2 := by unfold eqCount; split <;> split <;> omega

theorem b64Into_ok (body : List Nat) (c0 c1 c2 c3 m cap : Nat) (hb : body.length = 4 * m)
    (hc : 3 * m + 3 - eqCount c2 c3 ≤ cap) (hbody : b64Ok body = true) (hfin : finalOk c0 c1 c2 c3 = true) :
    b64DecodeInto (body ++ [c0, c1, c2, c3]) (some cap) =
      { writes := decBody body ++ finalBytes c0 c1 c2 c3, ret := ((3 * m + 3 - eqCount c2 c3 : Nat) : Int) } := by
  have hle := eqCount_le c2 c3
  unfold b64DecodeInto
  simp only [b64DecodeSize_split body c0 c1 c2 c3 m hb, Int.toNat_natCast]
  rw [if_neg (by omega), if_neg (by omega)]
  rw [mainLoop_ok _ m body 0 [] [c0, c1, c2, c3] hb hbody rfl (by omega) (by omega)]
  simp only [List.append_nil]
  rw [final_ok _ c0 c1 c2 c3 hfin]
  have hl := finalBytes_length c0 c1 c2 c3
  have hd := decBody_length m body hb
  simp only [List.reverse_reverse, List.length_reverse, hd]
  congr 1
  omega

theorem b64Into_bad (body : List Nat) (c0 c1 c2 c3 m cap : Nat) (hb : body.length = 4 * m)
    (hc : 3 * m + 3 - eqCount c2 c3 ≤ cap) (hbad : (b64Ok body && finalOk c0 c1 c2 c3) = false) :
    ∃ w, b64DecodeInto (body ++ [c0, c1, c2, c3]) (some cap) = { writes := w, ret := -1 } ∧
      w.length ≤ 3 * m + 3 - eqCount c2 c3 := by
  have hle := eqCount_le c2 c3
  unfold b64DecodeInto
  simp only [b64DecodeSize_split body c0 c1 c2 c3 m hb, Int.toNat_natCast]
  rw [if_neg (by omega), if_neg (by omega)]
  by_cases hbody : b64Ok body = true
  · rw [mainLoop_ok _ m body 0 [] [c0, c1, c2, c3] hb hbody rfl (by omega) (by omega)]
    simp only [List.append_nil]
    have hfin : finalOk c0 c1 c2 c3 = false := by rw [hbody] at hbad; simpa using hbad
    obtain ⟨w, hw, hl⟩ := final_bad (decBody body).reverse c0 c1 c2 c3 hfin
    refine ⟨w, hw, ?_⟩
    have hd := decBody_length m body hb
    simp only [List.length_reverse, hd] at hl
    omega
  · have hbody' : b64Ok body = false := by simpa using hbody
    obtain ⟨w, hw, hl⟩ := mainLoop_bad (3 * m + 3 - eqCount c2 c3) m body 0 [] [c0, c1, c2, c3] hb hbody' (by omega)
    rw [hw]
    exact ⟨w, rfl, by simp at hl; omega⟩

theorem b64Ok_eq_all (txt : List Nat) (h : Bytes txt) : b64Ok txt = txt.all Rfc4648.isB64Char := by
  induction txt with
  | nil => rfl
  | cons c rest ih =>
    have hc : c < 256 := h c (by simp)
    have hr : Bytes rest := fun x hx => h x (by simp [hx])
    simp only [b64Ok, List.all_cons] at *
    rw [ih hr]
    congr 1
    have := b64Val_nonneg_iff ⟨c, hc⟩
    simpa using this

/-- the code's acceptance test coincides with the declarative validity predicate -/
theorem accept_iff_valid (body : List Nat) (c0 c1 c2 c3 m : Nat) (hb : body.length = 4 * m)
    (hbytes : Bytes (body ++ [c0, c1, c2, c3])) :
    (b64Ok body && finalOk c0 c1 c2 c3) = Rfc4648.b64Valid (body ++ [c0, c1, c2, c3]) := by
  have hbody : Bytes body := fun x hx => hbytes x (by simp [hx])
  have h0 : c0 < 256 := hbytes c0 (by simp)
  have h1 : c1 < 256 := hbytes c1 (by simp)
  have h2 : c2 < 256 := hbytes c2 (by simp)
  have h3 : c3 < 256 := hbytes c3 (by simp)
  have okBody : b64Ok body = body.all Rfc4648.isB64Char := b64Ok_eq_all body hbody
  have tk : ∀ k, List.take (body.length + k) body = body := fun k => List.take_of_length_le (by omega)
  have v0 := b64Val_nonneg_iff ⟨c0, h0⟩
  have v1 := b64Val_nonneg_iff ⟨c1, h1⟩
  have v2 := b64Val_nonneg_iff ⟨c2, h2⟩
  have v3 := b64Val_nonneg_iff ⟨c3, h3⟩
  simp only at v0 v1 v2 v3
  have g := getD_last body c0 c1 c2 c3
  have hlen : (body ++ [c0, c1, c2, c3]).length = body.length + 4 := by simp
  unfold Rfc4648.b64Valid Rfc4648.padCount finalOk
  simp only [hlen]
  have e1 : body.length + 4 - 1 = body.length + 3 := by omega
  have e2 : body.length + 4 - 2 = body.length + 2 := by omega
  rw [e1, e2, g.1, g.2, v0, v1, v2, v3, okBody]
  have hmod : (body.length + 4) % 4 = 0 := by omega
  simp only [hmod, eqSign]
  by_cases q3 : c3 = 61 <;> by_cases q2 : c2 = 61
  · subst q3; subst q2
    have : body.length + 4 - 2 = body.length + 2 := by omega
    simp [this, List.take_append, isB64Char_eqSign, tk]
  · subst q3
    have : body.length + 4 - 1 = body.length + 3 := by omega
    have hc2 : (c2 == 61) = false := by simpa using q2
    simp [q2, hc2, this, List.take_append, isB64Char_eqSign, tk, Bool.and_assoc]
  · subst q2
    have hc3 : (c3 == 61) = false := by simpa using q3
    simp [q3, hc3, List.take_append, isB64Char_eqSign, tk]
  · have hc3 : (c3 == 61) = false := by simpa using q3
    have hc2 : (c2 == 61) = false := by simpa using q2
    simp [q3, hc3, hc2, List.take_append, Bool.and_assoc, tk]

theorem decodedLength_split (body : List Nat) (c0 c1 c2 c3 m : Nat) (hb : body.length = 4 * m)
    (hv : Rfc4648.b64Valid (body ++ [c0, c1, c2, c3]) = true) (hbytes : Bytes (body ++ [c0, c1, c2, c3])) :
    Rfc4648.b64DecodedLength (body ++ [c0, c1, c2, c3]) = 3 * m + 3 - eqCount c2 c3 := by
  rw [← accept_iff_valid body c0 c1 c2 c3 m hb hbytes] at hv
  simp only [Bool.and_eq_true] at hv
  have hfin := hv.2
  simp only [finalOk, Bool.and_eq_true, Bool.or_eq_true, decide_eq_true_eq, beq_iff_eq] at hfin
  obtain ⟨⟨⟨_, _⟩, f2⟩, f3⟩ := hfin
  have g := getD_last body c0 c1 c2 c3
  have hlen : (body ++ [c0, c1, c2, c3]).length = body.length + 4 := by simp
  unfold Rfc4648.b64DecodedLength Rfc4648.padCount eqCount
  simp only [hlen]
  have e1 : body.length + 4 - 1 = body.length + 3 := by omega
  have e2 : body.length + 4 - 2 = body.length + 2 := by omega
  rw [e1, e2, g.1, g.2]
  have hd : (body.length + 4) / 4 * 3 = 3 * m + 3 := by omega
  rw [hd]
  simp only [eqSign] at *
  by_cases q3 : c3 = 61 <;> by_cases q2 : c2 = 61
  · simp [q3, q2]
  · simp [q3, q2]
  · exfalso
    rcases f3 with f3 | f3
    · exact q3 f3
    · rw [q2] at f3; have := b64Val_eqSign; simp only [eqSign] at this; omega
  · simp [q3, q2]

end StVerif.Lemmas.Codec

namespace StVerif.Lemmas.Codec
open StVerif StVerif.Codec StVerif.Generated StVerif.Bits
open StVerif.Spec

/-! ### decoding what the encoder produced -/

theorem dec0_char (s0 s1 : Nat) (h0 : s0 < 64) (h1 : s1 < 64) : dec0 (b64Char s0) (b64Char s1) = s0 * 4 + s1 / 16 := by
  unfold dec0; rw [b64Val_b64Char' h0, b64Val_b64Char' h1]; simp only [Int.toNat_natCast]; exact dec_o0 s0 s1 h0 h1
theorem dec1_char (s1 s2 : Nat) (h1 : s1 < 64) (h2 : s2 < 64) : dec1 (b64Char s1) (b64Char s2) = (s1 % 16) * 16 + s2 / 4 := by
  unfold dec1; rw [b64Val_b64Char' h1, b64Val_b64Char' h2]; simp only [Int.toNat_natCast]; exact dec_o1 s1 s2 h1 h2
theorem dec2_char (s2 s3 : Nat) (h2 : s2 < 64) (h3 : s3 < 64) : dec2 (b64Char s2) (b64Char s3) = (s2 % 4) * 64 + s3 := by
  unfold dec2; rw [b64Val_b64Char' h2, b64Val_b64Char' h3]; simp only [Int.toNat_natCast]; exact dec_o2 s2 s3 h2 h3

theorem ok_char (s : Nat) (h : s < 64) : decide (0 ≤ b64Val (b64Char s)) = true := by
  rw [b64Val_b64Char' h]; simp

/-- shape of the encoder's output, with everything the decoder theorems need -/
theorem b64Encode_shape (bs : List Nat) (h : Bytes bs) (hne : bs ≠ []) :
    ∃ body c0 c1 c2 c3 m, b64Encode bs = body ++ [c0, c1, c2, c3] ∧ body.length = 4 * m ∧ b64Ok body = true ∧
      finalOk c0 c1 c2 c3 = true ∧ decBody body ++ finalBytes c0 c1 c2 c3 = bs ∧ 3 * m + 3 - eqCount c2 c3 = bs.length := by
  fun_induction b64Encode bs with
  | case1 a b c rest ih =>
    have ha : a < 256 := h a (by simp)
    have hb : b < 256 := h b (by simp)
    have hc : c < 256 := h c (by simp)
    have hr : Bytes rest := fun x hx => h x (by simp [hx])
    simp only [idx_b64_0, idx_b64_1 a b ha hb, idx_b64_2 b c hb hc, idx_b64_3]
    have l0 : a / 4 < 64 := by omega
    have l1 : a % 4 * 16 + b / 16 < 64 := by omega
    have l2 : b % 16 * 4 + c / 64 < 64 := by omega
    have l3 : c % 64 < 64 := by omega
    have d0 := dec0_char _ _ l0 l1
    have d1 := dec1_char _ _ l1 l2
    have d2 := dec2_char _ _ l2 l3
    have ea : a / 4 * 4 + (a % 4 * 16 + b / 16) / 16 = a := by omega
    have eb : (a % 4 * 16 + b / 16) % 16 * 16 + (b % 16 * 4 + c / 64) / 4 = b := by omega
    have ec : (b % 16 * 4 + c / 64) % 4 * 64 + c % 64 = c := by omega
    by_cases hrest : rest = []
    · subst hrest
      refine ⟨[], _, _, _, _, 0, rfl, rfl, rfl, ?_, ?_, ?_⟩
      · simp only [finalOk, ok_char _ l0, ok_char _ l1, ok_char _ l2, ok_char _ l3]; simp
      · simp only [finalBytes, decBody, List.nil_append, b64Char_ne_eq' l2, b64Char_ne_eq' l3, ne_eq, not_false_eq_true, if_true,
          List.singleton_append, d0, d1, d2, ea, eb, ec]
      · simp [eqCount, b64Char_ne_eq' l2, b64Char_ne_eq' l3]
    · obtain ⟨body, c0, c1, c2, c3, m, he, hbl, hok, hfin, hdec, hlen⟩ := ih hr hrest
      refine ⟨_ :: _ :: _ :: _ :: body, c0, c1, c2, c3, m + 1, by rw [he]; rfl, by simp [hbl]; omega, ?_, hfin, ?_, ?_⟩
      · simp only [b64Ok, List.all_cons, ok_char _ l0, ok_char _ l1, ok_char _ l2, ok_char _ l3, Bool.true_and]
        exact hok
      · simp only [decBody, List.cons_append, d0, d1, d2, ea, eb, ec, hdec]
      · have := eqCount_le c2 c3
        simp only [List.length_cons]; omega
  | case2 a b =>
    have ha : a < 256 := h a (by simp)
    have hb : b < 256 := h b (by simp)
    simp only [idx_b64_0, idx_b64_1 a b ha hb, idx_b64_t2]
    have l0 : a / 4 < 64 := by omega
    have l1 : a % 4 * 16 + b / 16 < 64 := by omega
    have l2 : b % 16 * 4 < 64 := by omega
    have d0 := dec0_char _ _ l0 l1
    have d1 := dec1_char _ _ l1 l2
    have ea : a / 4 * 4 + (a % 4 * 16 + b / 16) / 16 = a := by omega
    have eb : (a % 4 * 16 + b / 16) % 16 * 16 + (b % 16 * 4) / 4 = b := by omega
    refine ⟨[], _, _, _, _, 0, rfl, rfl, rfl, ?_, ?_, ?_⟩
    · simp only [finalOk, ok_char _ l0, ok_char _ l1, ok_char _ l2]; simp
    · simp only [finalBytes, decBody, List.nil_append, b64Char_ne_eq' l2, ne_eq, not_false_eq_true, if_true, not_true_eq_false, if_false,
        List.append_nil, d0, d1, ea, eb]
    · simp [eqCount, b64Char_ne_eq' l2]
  | case3 a =>
    have ha : a < 256 := h a (by simp)
    simp only [idx_b64_0, idx_b64_t1]
    have l0 : a / 4 < 64 := by omega
    have l1 : a % 4 * 16 < 64 := by omega
    have d0 := dec0_char _ _ l0 l1
    have ea : a / 4 * 4 + (a % 4 * 16) / 16 = a := by omega
    refine ⟨[], _, _, _, _, 0, rfl, rfl, rfl, ?_, ?_, ?_⟩
    · simp only [finalOk, ok_char _ l0, ok_char _ l1]; simp
    · simp only [finalBytes, decBody, List.nil_append, ne_eq, not_true_eq_false, if_false, List.append_nil, d0, ea]
    · simp [eqCount]
  | case4 => exact absurd rfl hne

end StVerif.Lemmas.Codec
